// c10 — correspondence harness for property C10 (session setup: same context,
// symmetric pairwise secrets, zero shares, opening blame).
//
// Every case drives the REAL session protocol through
// verif/harness/internal/drive/session (real round functions, CBOR on every
// message, recording tapes, optional tampering hook), then
//
//   - gives the extracted Coq model (ocaml/c10/driver) each party's tape, the quorum
//     and exactly the messages that were delivered to that party, and compares the
//     model's sent messages, verdict (+ round, blamed party) and context observables
//     (SessionID, transcript extract, quorum, first 32 bytes of each peer seed, the same
//     for every listed (nested) sub-quorum) with the implementation's — the model's
//     hash parameters are answered with Go's own blake2b / sha3 here (not the library),
//     so this is the byte-level tie of the common-seed / pairwise-seed / sub-quorum
//     layouts;
//   - evaluates the property's own predicate on the implementation alone.
package main

import (
	"bufio"
	"bytes"
	"crypto/sha3"
	"fmt"
	"io"
	"math/big"
	"os"
	"os/exec"
	"sort"
	"strconv"
	"strings"
	"time"

	"golang.org/x/crypto/blake2b"

	"github.com/bronlabs/bron-crypto/pkg/base/algebra"
	"github.com/bronlabs/bron-crypto/pkg/base/curves/edwards25519"
	"github.com/bronlabs/bron-crypto/pkg/base/curves/k256"
	"github.com/bronlabs/bron-crypto/pkg/base/datastructures/hashset"
	"github.com/bronlabs/bron-crypto/pkg/base/serde"
	rsess "github.com/bronlabs/bron-crypto/pkg/mpc/session"
	"github.com/bronlabs/bron-crypto/pkg/mpc/sharing"
	"github.com/bronlabs/bron-crypto/pkg/mpc/zero/przs"

	"verif/harness/internal/drive"
	dsess "verif/harness/internal/drive/session"
	"verif/harness/internal/vh"
)

const prop = "C10"

var extractLabel = []byte("verif-c10-extract")

// ---------------------------------------------------------------- cases

type tamper struct {
	Kind  string     // flip | zero | swap | replay | drop | rawflip
	Round int        // round of the message (1,2,3)
	Bcast bool       // broadcast or unicast message of that round
	From  sharing.ID // sender
	To    sharing.ID // recipient; 0 = every recipient of the broadcast (uniform)
	Field int        // which field of the message
	Bit   int        // which bit (flip / rawflip)
	Other sharing.ID // swap: whose message is delivered instead; replay (unicast): which other recipient's copy
}

func (t *tamper) String() string {
	if t == nil {
		return "-"
	}
	b := "u"
	if t.Bcast {
		b = "b"
	}
	return fmt.Sprintf("%s:%d:%s:%d:%d:%d:%d:%d", t.Kind, t.Round, b, uint64(t.From), uint64(t.To), t.Field, t.Bit, uint64(t.Other))
}

func parseTamper(s string) *tamper {
	if s == "-" || s == "" {
		return nil
	}
	f := strings.Split(s, ":")
	if len(f) != 8 {
		panic("bad tamper " + s)
	}
	u := func(x string) uint64 { v, _ := strconv.ParseUint(x, 10, 64); return v }
	return &tamper{Kind: f[0], Round: int(u(f[1])), Bcast: f[2] == "b", From: sharing.ID(u(f[3])), To: sharing.ID(u(f[4])),
		Field: int(u(f[5])), Bit: int(u(f[6])), Other: sharing.ID(u(f[7]))}
}

type kase struct {
	id     string
	seed   int64 // seed of the tapes
	quorum []sharing.ID
	tam    *tamper
	subs   [][][]sharing.ID // paths of nested sub-quorums

	res  *dsess.Result
	impl map[string]string

	tapeLayoutDiffers bool
	noPred            bool // invalid configuration (constructor refuses): compared with the model only
}

func idsText(ids []sharing.ID, sep string) string {
	s := make([]string, len(ids))
	for i, id := range ids {
		s[i] = strconv.FormatUint(uint64(id), 10)
	}
	if len(s) == 0 {
		return "-"
	}
	return strings.Join(s, sep)
}

func parseIDs(s, sep string) []sharing.ID {
	if s == "-" || s == "" {
		return nil
	}
	var out []sharing.ID
	for _, x := range strings.Split(s, sep) {
		v, err := strconv.ParseUint(x, 10, 64)
		if err != nil {
			panic("bad id " + x)
		}
		out = append(out, sharing.ID(v))
	}
	return out
}

func subsText(subs [][][]sharing.ID) string {
	if len(subs) == 0 {
		return "-"
	}
	ps := make([]string, len(subs))
	for i, p := range subs {
		qs := make([]string, len(p))
		for j, q := range p {
			qs[j] = idsText(q, ".")
		}
		ps[i] = strings.Join(qs, "/")
	}
	return strings.Join(ps, "|")
}

func parseSubs(s string) [][][]sharing.ID {
	if s == "-" || s == "" {
		return nil
	}
	var out [][][]sharing.ID
	for _, p := range strings.Split(s, "|") {
		var path [][]sharing.ID
		for _, q := range strings.Split(p, "/") {
			path = append(path, parseIDs(q, "."))
		}
		out = append(out, path)
	}
	return out
}

// canonical, replayable case text
func (k *kase) text() string {
	return fmt.Sprintf("sess seed=%d q=%s tamper=%s subs=%s", k.seed, idsText(k.quorum, ","), k.tam.String(), subsText(k.subs))
}

func parseCase(s string) *kase {
	k := &kase{id: "replay"}
	for _, f := range strings.Fields(s) {
		kv := strings.SplitN(f, "=", 2)
		if len(kv) != 2 {
			continue
		}
		switch kv[0] {
		case "seed":
			k.seed, _ = strconv.ParseInt(kv[1], 10, 64)
		case "q":
			k.quorum = parseIDs(kv[1], ",")
		case "tamper":
			k.tam = parseTamper(kv[1])
		case "subs":
			k.subs = parseSubs(kv[1])
		}
	}
	return k
}

// ---------------------------------------------------------------- tampering hook

func flipBit(b []byte, bit int) {
	if len(b) == 0 {
		return
	}
	bit %= len(b) * 8
	b[bit/8] ^= 1 << (bit % 8)
}

func remarshal[M any](payload []byte, f func(m M)) []byte {
	m, err := serde.UnmarshalCBOR[M](payload)
	if err != nil {
		return payload
	}
	f(m)
	out, err := serde.MarshalCBOR(m)
	if err != nil {
		return payload
	}
	return out
}

// alterField applies f to field number `field` of the message of (round, bcast) encoded in payload.
func alterField(round int, bcast bool, field int, payload []byte, f func(b []byte)) []byte {
	switch {
	case round == 1:
		return remarshal(payload, func(m *rsess.Round1Broadcast) {
			if field == 0 {
				f(m.CommonCommitment[:])
			} else if m.Ck != nil {
				f(m.Ck[:])
			}
		})
	case round == 2 && bcast:
		return remarshal(payload, func(m *rsess.Round2Broadcast) {
			if field == 0 {
				f(m.CommonContribution[:])
			} else {
				f(m.CommonContributionWitness[:])
			}
		})
	case round == 2:
		return remarshal(payload, func(m *rsess.Round2P2P) { f(m.PairwiseContributionCommitment[:]) })
	default:
		return remarshal(payload, func(m *rsess.Round3P2P) {
			if field == 0 {
				f(m.PairwiseContribution[:])
			} else {
				f(m.PairwiseContributionWitness[:])
			}
		})
	}
}

// hookFor builds the hook for a tamper spec.  swap needs the message another party sent
// in the same run (seen earlier or later in the round: the hook is given the as-sent
// messages of an identical honest dry run); replay of a broadcast uses the same
// sender's message of ANOTHER session (replaySrc).
func hookFor(t *tamper, dry, replaySrc *dsess.Result) drive.Hook {
	if t == nil {
		return nil
	}
	sent := func(r *dsess.Result, from, to sharing.ID) []byte {
		var b []byte
		var err error
		switch {
		case t.Round == 1:
			if m, ok := r.R1B[from]; ok {
				b, err = serde.MarshalCBOR(m)
			}
		case t.Round == 2 && t.Bcast:
			if m, ok := r.R2B[from]; ok {
				b, err = serde.MarshalCBOR(m)
			}
		case t.Round == 2:
			if m, ok := r.R2U[from][to]; ok {
				b, err = serde.MarshalCBOR(m)
			}
		default:
			if m, ok := r.R3U[from][to]; ok {
				b, err = serde.MarshalCBOR(m)
			}
		}
		if err != nil {
			return nil
		}
		return b
	}
	return drive.HookFunc(func(m *drive.Msg, rcpt sharing.ID) []byte {
		if m.Round != t.Round || m.From != t.From || (m.To == 0) != t.Bcast {
			return m.Payload
		}
		if t.To != 0 && rcpt != t.To {
			return m.Payload
		}
		p := append([]byte(nil), m.Payload...)
		switch t.Kind {
		case "drop":
			return nil
		case "rawflip":
			flipBit(p, t.Bit)
			return p
		case "flip":
			return alterField(t.Round, t.Bcast, t.Field, p, func(b []byte) { flipBit(b, t.Bit) })
		case "zero":
			return alterField(t.Round, t.Bcast, t.Field, p, func(b []byte) {
				for i := range b {
					b[i] = 0
				}
			})
		case "swap":
			if b := sent(dry, t.Other, rcpt); b != nil {
				return b
			}
			return p
		case "replay":
			var b []byte
			if t.Bcast {
				b = sent(replaySrc, t.From, rcpt)
			} else {
				b = sent(dry, t.From, t.Other)
			}
			if b != nil {
				return b
			}
			return p
		}
		return p
	})
}

// ---------------------------------------------------------------- running a case on the implementation

func (k *kase) run() {
	k.noPred = len(k.quorum) < 2 || contains(k.quorum, 0)
	cfg := dsess.Config{Seed: k.seed, Prop: prop, Quorum: k.quorum}
	if k.tam != nil {
		dry := dsess.RunFull(cfg)
		var rep *dsess.Result
		if k.tam.Kind == "replay" && k.tam.Bcast {
			c2 := cfg
			c2.Seed = k.seed + 1000003
			rep = dsess.RunFull(c2)
		}
		cfg.Hook = hookFor(k.tam, dry, rep)
	}
	k.res = dsess.RunFull(cfg)
	k.impl = k.observe()
}

func ctxFields(ctx *rsess.Context) string {
	sid := ctx.SessionID()
	tx, err := ctx.Transcript().Clone().ExtractBytes(string(extractLabel), 32)
	txs := "ERR"
	if err == nil {
		txs = vh.Hex(tx)
	}
	var q []sharing.ID
	for id := range ctx.AllPartiesOrdered() {
		q = append(q, id)
	}
	seeds := ctx.Seeds()
	var parts []string
	// the model lists seeds in quorum order (skipping the holder)
	for _, id := range q {
		r, ok := seeds[id]
		if !ok {
			continue
		}
		buf := make([]byte, 32)
		if _, err := io.ReadFull(r, buf); err != nil {
			parts = append(parts, fmt.Sprintf("%d:ERR", uint64(id)))
		} else {
			parts = append(parts, fmt.Sprintf("%d:%s", uint64(id), vh.Hex(buf)))
		}
	}
	qs := idsText(q, ",")
	if len(q) == 0 {
		qs = ""
	}
	return strings.Join([]string{vh.Hex(sid[:]), txs, qs, strings.Join(parts, "+")}, "/")
}

func subContext(ctx *rsess.Context, path [][]sharing.ID) (out *rsess.Context) {
	cur := ctx
	for _, q := range path {
		var next *rsess.Context
		var err error
		p := vh.Safely(func() { next, err = cur.SubContext(hashset.NewComparable(q...).Freeze()) })
		if p != "" || err != nil || next == nil {
			return nil
		}
		cur = next
	}
	return cur
}

func verdictText(v drive.Verdict) string {
	switch v.Class {
	case "ok":
		return "ok"
	case "reject":
		return "reject"
	case "reject_blame":
		return "blame:" + idsText(v.Blamed, ",")
	}
	return v.Class
}

func (k *kase) observe() map[string]string {
	o := map[string]string{}
	r := k.res
	for _, id := range r.Quorum {
		ids := strconv.FormatUint(uint64(id), 10)
		v := r.Trace.Verdicts[id]
		o[ids+".v"] = verdictText(v)
		o[ids+".vr"] = strconv.Itoa(v.Round)
		if m, ok := r.R1B[id]; ok {
			ck := "-"
			if m.Ck != nil {
				ck = vh.Hex(m.Ck[:])
			}
			o[ids+".r1"] = vh.Hex(m.CommonCommitment[:]) + ":" + ck
		}
		if m, ok := r.R2B[id]; ok {
			o[ids+".r2b"] = vh.Hex(m.CommonContribution[:]) + ":" + vh.Hex(m.CommonContributionWitness[:])
		}
		for to, m := range r.R2U[id] {
			o[ids+".r2u."+strconv.FormatUint(uint64(to), 10)] = vh.Hex(m.PairwiseContributionCommitment[:])
		}
		for to, m := range r.R3U[id] {
			o[ids+".r3u."+strconv.FormatUint(uint64(to), 10)] = vh.Hex(m.PairwiseContribution[:]) + ":" + vh.Hex(m.PairwiseContributionWitness[:])
		}
		if ctx, ok := r.Ctx[id]; ok {
			o[ids+".ctx"] = ctxFields(ctx)
			for i, path := range k.subs {
				key := ids + ".sub." + strconv.Itoa(i)
				if sc := subContext(ctx, path); sc != nil {
					o[key] = ctxFields(sc)
				} else {
					o[key] = "none"
				}
			}
		}
	}
	return o
}

// ---------------------------------------------------------------- model case line

func inboxText[M any](in map[sharing.ID]M, f func(m M) string) string {
	if len(in) == 0 {
		return "-"
	}
	var parts []string
	for _, from := range drive.SortedIDs(in) {
		parts = append(parts, strconv.FormatUint(uint64(from), 10)+":"+f(in[from]))
	}
	return strings.Join(parts, ",")
}

func (k *kase) line() string {
	var sb strings.Builder
	fmt.Fprintf(&sb, "S %s - %s %s", k.id, vh.Hex(extractLabel), subsText(k.subs))
	r := k.res
	for idx, id := range r.Quorum {
		// every party is told the quorum in its own (rotated) order: the constructor sorts
		q := append(append([]sharing.ID(nil), r.Quorum[idx:]...), r.Quorum[:idx]...)
		fmt.Fprintf(&sb, " P %d %s %s %d", uint64(id), idsText(q, ","), vh.Hex(k.modelTape(id)), r.Undec[id])
		sb.WriteString(" " + inboxText(r.InR1B[id], func(m *rsess.Round1Broadcast) string {
			ck := "-"
			if m.Ck != nil {
				ck = vh.Hex(m.Ck[:])
			}
			return vh.Hex(m.CommonCommitment[:]) + ":" + ck
		}))
		sb.WriteString(" " + inboxText(r.InR2B[id], func(m *rsess.Round2Broadcast) string {
			return vh.Hex(m.CommonContribution[:]) + ":" + vh.Hex(m.CommonContributionWitness[:])
		}))
		sb.WriteString(" " + inboxText(r.InR2U[id], func(m *rsess.Round2P2P) string {
			return vh.Hex(m.PairwiseContributionCommitment[:])
		}))
		sb.WriteString(" " + inboxText(r.InR3U[id], func(m *rsess.Round3P2P) string {
			return vh.Hex(m.PairwiseContribution[:]) + ":" + vh.Hex(m.PairwiseContributionWitness[:])
		}))
	}
	return sb.String()
}

// modelTape is the randomness handed to the model for party id.  The model reads its tape
// in the order the code reads its prng today (key, common contribution, witness; then per
// peer in ascending order contribution, witness).  C10 does not depend on that order, so
// the tape is rebuilt, in the model's order, from the values the party actually used: they
// appear in its own messages (key in round 1, common opening in round 2, pairwise openings
// in round 3); for a party that stopped before opening, the values are located among the
// 32-byte pieces it drew in that round as the pair that opens the commitment it sent.  If
// that fails the recorded tape is used as it is.  Whether the recorded tape has exactly the
// model's layout is noted, not compared.
func (k *kase) modelTape(id sharing.ID) []byte {
	r := k.res
	t := r.Trace.Tapes[id]
	tape := t.Bytes
	m1, ok1 := r.R1B[id]
	if !ok1 || m1.Ck == nil {
		return tape
	}
	pieces := func(tag string) [][]byte {
		var out [][]byte
		for i, rd := range t.Reads {
			if rd.Tag != tag {
				continue
			}
			b := t.Slice(i)
			for len(b) >= 32 {
				out = append(out, b[:32])
				b = b[32:]
			}
		}
		return out
	}
	// find (x, y) among ps with BLAKE2b-256_key(x || y) == want
	opening := func(ps [][]byte, key, want []byte) (x, y []byte, ok bool) {
		for i := range ps {
			for j := range ps {
				if i == j {
					continue
				}
				h, err := blake2b.New256(key)
				if err != nil {
					return nil, nil, false
				}
				h.Write(ps[i])
				h.Write(ps[j])
				if bytes.Equal(h.Sum(nil), want) {
					return ps[i], ps[j], true
				}
			}
		}
		return nil, nil, false
	}
	var rec []byte
	rec = append(rec, m1.Ck[:]...)
	if m2, ok := r.R2B[id]; ok {
		rec = append(rec, m2.CommonContribution[:]...)
		rec = append(rec, m2.CommonContributionWitness[:]...)
	} else {
		x, y, ok := opening(pieces("r1"), []byte("BRON_CRYPTO_NOTHING_UP_MY_SLEEVE"), m1.CommonCommitment[:])
		if !ok {
			return tape
		}
		rec = append(append(rec, x...), y...)
	}
	var r2 [][]byte
	for _, peer := range r.Quorum {
		if peer == id {
			continue
		}
		if m3, ok := r.R3U[id][peer]; ok {
			rec = append(rec, m3.PairwiseContribution[:]...)
			rec = append(rec, m3.PairwiseContributionWitness[:]...)
			continue
		}
		m2u, okU := r.R2U[id][peer]
		in1, okK := r.InR1B[id][peer]
		if !okU {
			break // stopped before round 2 produced anything: nothing more was drawn that matters
		}
		if !okK || in1.Ck == nil {
			return tape
		}
		if r2 == nil {
			r2 = pieces("r2")
		}
		x, y, ok := opening(r2, in1.Ck[:], m2u.PairwiseContributionCommitment[:])
		if !ok {
			return tape
		}
		rec = append(append(rec, x...), y...)
	}
	if !bytes.Equal(rec, tape) {
		k.tapeLayoutDiffers = true
	}
	return rec
}

// ---------------------------------------------------------------- the oracle: Go's own hashes

func answer(q string) (string, error) {
	f := strings.Split(q, ",")
	switch {
	case f[0] == "c" && len(f) == 3:
		h, err := blake2b.New256(vh.UnHex(f[1]))
		if err != nil {
			// a key blake2b refuses (longer than 64 bytes): no value exists; the model
			// never commits under such a key in a run the implementation accepted
			return "", err
		}
		h.Write(vh.UnHex(f[2]))
		return vh.Hex(h.Sum(nil)), nil
	case f[0] == "h" && len(f) == 2:
		d := sha3.Sum512(vh.UnHex(f[1]))
		return vh.Hex(d[:]), nil
	case f[0] == "x" && len(f) == 5:
		off, _ := strconv.Atoi(f[3])
		n, _ := strconv.Atoi(f[4])
		x := sha3.NewCSHAKE256(nil, vh.UnHex(f[1]))
		x.Write(vh.UnHex(f[2]))
		buf := make([]byte, off+n)
		x.Read(buf)
		return vh.Hex(buf[off:]), nil
	}
	return "", fmt.Errorf("bad query %q", q)
}

// solve runs the model driver over the lines. The driver asks for every hash it needs
// ("Q <query>" on its stdout) and is answered on its stdin; "R ..." ends a case.
func solve(driver string, n int, line func(i int) string) ([]string, error) {
	cmd := exec.Command(driver)
	stdin, err := cmd.StdinPipe()
	if err != nil {
		return nil, err
	}
	stdout, err := cmd.StdoutPipe()
	if err != nil {
		return nil, err
	}
	var errb bytes.Buffer
	cmd.Stderr = &errb
	if err := cmd.Start(); err != nil {
		return nil, err
	}
	defer func() { stdin.Close(); cmd.Wait() }()
	w := bufio.NewWriterSize(stdin, 1<<20)
	r := bufio.NewReaderSize(stdout, 1<<20)
	out := make([]string, n)
	for i := 0; i < n; i++ {
		w.WriteString(line(i))
		w.WriteByte('\n')
		if err := w.Flush(); err != nil {
			return nil, fmt.Errorf("driver %s: %v: %s", driver, err, errb.String())
		}
		for {
			l, err := r.ReadString('\n')
			if err != nil {
				return nil, fmt.Errorf("driver %s: %v: %s", driver, err, errb.String())
			}
			l = strings.TrimRight(l, "\n")
			if strings.HasPrefix(l, "Q ") {
				a, err := answer(l[2:])
				if err != nil {
					return nil, err
				}
				w.WriteString(a)
				w.WriteByte('\n')
				if err := w.Flush(); err != nil {
					return nil, fmt.Errorf("driver %s: %v: %s", driver, err, errb.String())
				}
				continue
			}
			out[i] = l
			break
		}
	}
	return out, nil
}

func parseKV(s string) map[string]string {
	m := map[string]string{}
	f := strings.Fields(s)
	for _, t := range f[2:] {
		kv := strings.SplitN(t, "=", 2)
		if len(kv) == 2 {
			m[kv[0]] = kv[1]
		}
	}
	return m
}

func diffMaps(model, impl map[string]string) (key, detail string) {
	keys := map[string]bool{}
	for k := range model {
		keys[k] = true
	}
	for k := range impl {
		keys[k] = true
	}
	var ks []string
	for k := range keys {
		ks = append(ks, k)
	}
	sort.Strings(ks)
	for _, k := range ks {
		a, okA := model[k]
		b, okB := impl[k]
		if a != b {
			if !okA {
				a = "<absent>"
			}
			if !okB {
				b = "<absent>"
			}
			return k, fmt.Sprintf("%s: model=%s impl=%s", k, clip(a), clip(b))
		}
	}
	return "", ""
}

func clip(s string) string {
	if len(s) > 400 {
		return s[:400] + "…"
	}
	return s
}

// keyClass turns "12.sub.3" into "sub", "12.r2u.7" into "r2u" (stable mismatch keys)
func keyClass(k string) string {
	f := strings.Split(k, ".")
	if len(f) >= 2 {
		return f[1]
	}
	return k
}

// ---------------------------------------------------------------- the property predicate on the implementation

type group struct {
	name string
	sum  func(ctxs []*rsess.Context) (identity bool, err string)
}

func sumOver[GE algebra.GroupElement[GE]](g algebra.FiniteGroup[GE], ctxs []*rsess.Context) (bool, string) {
	var acc GE
	var errText string
	p := vh.Safely(func() {
		acc = g.OpIdentity()
		for _, c := range ctxs {
			sh, err := przs.SampleZeroShare(c, g)
			if err != nil {
				errText = "SampleZeroShare: " + firstLine(err.Error())
				return
			}
			acc = acc.Op(sh.Value())
		}
	})
	if p != "" {
		return false, "PANIC " + p
	}
	if errText != "" {
		return false, errText
	}
	return acc.IsOpIdentity(), ""
}

func firstLine(s string) string {
	if i := strings.IndexByte(s, '\n'); i >= 0 {
		return s[:i]
	}
	return s
}

var groups = []group{
	{"k256", func(c []*rsess.Context) (bool, string) { return sumOver(k256.NewCurve(), c) }},
	{"edwards25519", func(c []*rsess.Context) (bool, string) { return sumOver(edwards25519.NewPrimeSubGroup(), c) }},
	{"k256-scalars", func(c []*rsess.Context) (bool, string) { return sumOver(k256.NewScalarField(), c) }},
	{"edwards25519-scalars", func(c []*rsess.Context) (bool, string) { return sumOver(edwards25519.NewScalarField(), c) }},
}

// seedPrefix reads the first 32 bytes of every peer seed of ctx.
func seedPrefixes(ctx *rsess.Context) map[sharing.ID]string {
	out := map[sharing.ID]string{}
	for id, r := range ctx.Seeds() {
		buf := make([]byte, 32)
		if _, err := io.ReadFull(r, buf); err == nil {
			out[id] = vh.Hex(buf)
		}
	}
	return out
}

// agreeAndSymmetric checks, for contexts of the same (sub)quorum: same SID, same transcript
// extract, seed(i,j) == seed(j,i), seeds of different pairs differ.  Returns "" if fine.
func agreeAndSymmetric(ctxs map[sharing.ID]*rsess.Context) string {
	ids := drive.SortedIDs(ctxs)
	if len(ids) == 0 {
		return ""
	}
	var sid0, tx0 string
	pre := map[sharing.ID]map[sharing.ID]string{}
	for n, id := range ids {
		c := ctxs[id]
		sid := c.SessionID()
		tx, err := c.Transcript().Clone().ExtractBytes("verif-c10-pred", 32)
		if err != nil {
			return "extract failed"
		}
		if n == 0 {
			sid0, tx0 = vh.Hex(sid[:]), vh.Hex(tx)
		} else if vh.Hex(sid[:]) != sid0 {
			return fmt.Sprintf("session ids differ between %d and %d", uint64(ids[0]), uint64(id))
		} else if vh.Hex(tx) != tx0 {
			return fmt.Sprintf("transcript extracts differ between %d and %d", uint64(ids[0]), uint64(id))
		}
		pre[id] = seedPrefixes(c)
	}
	seen := map[string]string{}
	for _, i := range ids {
		for _, j := range ids {
			if i >= j {
				continue
			}
			a, okA := pre[i][j]
			b, okB := pre[j][i]
			if !okA || !okB {
				return fmt.Sprintf("missing seed for pair (%d,%d)", uint64(i), uint64(j))
			}
			if a != b {
				return fmt.Sprintf("seed(%d,%d) != seed(%d,%d)", uint64(i), uint64(j), uint64(j), uint64(i))
			}
			pair := fmt.Sprintf("(%d,%d)", uint64(i), uint64(j))
			if other, dup := seen[a]; dup {
				return fmt.Sprintf("pairs %s and %s share a seed", other, pair)
			}
			seen[a] = pair
		}
	}
	return ""
}

func zeroSums(ctxs map[sharing.ID]*rsess.Context, gs []group) string {
	ids := drive.SortedIDs(ctxs)
	list := make([]*rsess.Context, len(ids))
	for i, id := range ids {
		list[i] = ctxs[id]
	}
	for _, g := range gs {
		ok, e := g.sum(list)
		if e != "" {
			return g.name + ": " + e
		}
		if !ok {
			return "zero shares over " + g.name + " do not sum to the identity"
		}
	}
	return ""
}

func sameSet(a, b []sharing.ID) bool {
	if len(a) != len(b) {
		return false
	}
	x := append([]sharing.ID(nil), a...)
	y := append([]sharing.ID(nil), b...)
	sort.Slice(x, func(i, j int) bool { return x[i] < x[j] })
	sort.Slice(y, func(i, j int) bool { return y[i] < y[j] })
	for i := range x {
		if x[i] != y[i] {
			return false
		}
	}
	return true
}

// global registry of every seed prefix / sid seen, to check distinctness across sessions
// and sub-quorums: value -> description of where it belongs
type registry struct {
	seeds map[string]string
}

func (g *registry) add(val, where string) string {
	if old, ok := g.seeds[val]; ok && old != where {
		return fmt.Sprintf("seed prefix %s… shared by %s and %s", val[:16], old, where)
	}
	g.seeds[val] = where
	return ""
}

// predicate evaluates the property on the implementation for one case. Returns (key, detail) of the first failure.
func (k *kase) predicate(reg *registry, gs []group) (string, string) {
	r := k.res
	if k.tam == nil {
		// honest run: everybody completes
		for _, id := range r.Quorum {
			if v := r.Trace.Verdicts[id]; v.Class != "ok" || r.Ctx[id] == nil {
				return "honest-run-fails", fmt.Sprintf("party %d: %s in round %d (%s)", uint64(id), v.String(), v.Round, v.Detail)
			}
		}
		if e := agreeAndSymmetric(r.Ctx); e != "" {
			return "context-agreement", e
		}
		// deriving sub-contexts, reading Seeds() and sampling zero shares must not consume
		// the context; a Clone() is an equal context
		for _, id := range r.Quorum {
			ids := strconv.FormatUint(uint64(id), 10)
			if now := ctxFields(r.Ctx[id]); now != k.impl[ids+".ctx"] {
				return "context-consumed", fmt.Sprintf("party %d: the context's observables changed after SubContext/Seeds were used", uint64(id))
			}
			if cl := ctxFields(r.Ctx[id].Clone()); cl != k.impl[ids+".ctx"] {
				return "context-clone-differs", fmt.Sprintf("party %d: Clone() differs from the context", uint64(id))
			}
		}
		if e := zeroSums(r.Ctx, gs); e != "" {
			return "zero-share-sum", e
		}
		sess := fmt.Sprintf("session(seed=%d,q=%s)", k.seed, idsText(r.Quorum, ","))
		for _, i := range r.Quorum {
			for j, v := range seedPrefixes(r.Ctx[i]) {
				lo, hi := min(i, j), max(i, j)
				if e := reg.add(v, fmt.Sprintf("%s pair(%d,%d)", sess, uint64(lo), uint64(hi))); e != "" {
					return "seed-distinct", e
				}
			}
		}
		// sub-contexts: members agree, shares sum to zero, and everything is distinct
		// from the parent and from other sub-quorums
		type txrec struct {
			tx    string
			qtext string
		}
		var txs []txrec
		for _, path := range k.subs {
			subs := map[sharing.ID]*rsess.Context{}
			last := path[len(path)-1]
			valid := true
			for _, id := range last {
				c, ok := r.Ctx[id]
				if !ok {
					valid = false
					break
				}
				sc := subContext(c, path)
				if sc == nil {
					valid = false
					break
				}
				subs[id] = sc
			}
			if !valid || len(subs) != len(last) {
				continue // a refused sub-quorum (not a subset, too small, ...) — compared with the model only
			}
			ptext := subsText([][][]sharing.ID{path})
			if e := agreeAndSymmetric(subs); e != "" {
				return "subcontext-agreement", "sub-quorum " + ptext + ": " + e
			}
			if e := zeroSums(subs, gs[:1]); e != "" {
				return "subcontext-zero-share-sum", "sub-quorum " + ptext + ": " + e
			}
			first := subs[last[0]]
			if sid, psid := first.SessionID(), r.Ctx[last[0]].SessionID(); sid != psid {
				return "subcontext-sid", "sub-quorum " + ptext + ": session id differs from the parent's"
			}
			tx, _ := first.Transcript().Clone().ExtractBytes("verif-c10-pred", 32)
			// canonical description of the path as sets
			var canon []string
			for _, q := range path {
				s := append([]sharing.ID(nil), q...)
				sort.Slice(s, func(a, b int) bool { return s[a] < s[b] })
				canon = append(canon, idsText(s, "."))
			}
			qtext := strings.Join(canon, "/")
			txs = append(txs, txrec{vh.Hex(tx), qtext})
			for _, i := range last {
				for j, v := range seedPrefixes(subs[i]) {
					lo, hi := min(i, j), max(i, j)
					if e := reg.add(v, fmt.Sprintf("%s sub(%s) pair(%d,%d)", sess, qtext, uint64(lo), uint64(hi))); e != "" {
						return "subcontext-seed-distinct", e
					}
				}
			}
		}
		ptx, _ := r.Ctx[r.Quorum[0]].Transcript().Clone().ExtractBytes("verif-c10-pred", 32)
		txs = append(txs, txrec{vh.Hex(ptx), ""})
		for a := range txs {
			for b := range txs {
				if a < b && txs[a].tx == txs[b].tx && txs[a].qtext != txs[b].qtext {
					return "subcontext-transcript-distinct", fmt.Sprintf("sub-quorum paths %q and %q have the same transcript extract", txs[a].qtext, txs[b].qtext)
				}
			}
		}
		return "", ""
	}

	// tampered run. The predicate covers altered commitments / openings / contributions
	// (everything except the commitment KEY of round 1, whose alteration makes the SENDER's
	// later openings fail — compared with the model only) and dropped messages.
	t := k.tam
	if t.Round == 1 && (t.Field == 1 && (t.Kind == "flip" || t.Kind == "zero") || t.Kind == "rawflip" || t.Kind == "swap" || t.Kind == "replay") {
		if !(t.Kind == "zero" && t.Field == 1) {
			return "", ""
		}
	}
	if t.Kind == "rawflip" {
		return "", "" // may change anything (or nothing the decoder looks at)
	}
	// was anything actually altered?
	altered := map[sharing.ID]bool{}
	for _, m := range r.Trace.Messages {
		if m.Round == t.Round && m.From == t.From && (m.To == 0) == t.Bcast && (m.Altered != nil || m.Dropped) {
			if m.To != 0 {
				altered[m.To] = true
			}
		}
	}
	if t.Bcast {
		for _, id := range r.Quorum {
			if id != t.From && (t.To == 0 || t.To == id) {
				altered[id] = true
			}
		}
		n := 0
		for _, m := range r.Trace.Messages {
			if m.Round == t.Round && m.From == t.From && m.To == 0 && (m.Altered != nil || m.Dropped) {
				n++
			}
		}
		if n == 0 {
			altered = map[sharing.ID]bool{}
		}
	}
	if len(altered) == 0 {
		return "", ""
	}
	for _, id := range r.Quorum {
		if id == t.From {
			continue // the deviating party's own verdict is not constrained
		}
		v := r.Trace.Verdicts[id]
		if altered[id] {
			if v.Class != "reject_blame" || len(v.Blamed) != 1 || v.Blamed[0] != t.From {
				return "tamper-not-blamed", fmt.Sprintf("party %d received an altered message from %d (%s) but its verdict is %s (round %d)", uint64(id), uint64(t.From), t.String(), v.String(), v.Round)
			}
			continue
		}
		// a party that received only honest messages may complete, or miss the message of
		// a party that already stopped — but must never blame anybody but the
		// deviating party or a party that stopped
		if v.Class == "reject_blame" {
			for _, b := range v.Blamed {
				if b == t.From {
					continue
				}
				if bv := r.Trace.Verdicts[b]; bv.Class == "ok" {
					return "tamper-wrong-blame", fmt.Sprintf("party %d blames %d, which neither deviated nor stopped (%s)", uint64(id), uint64(b), t.String())
				}
			}
		}
	}
	return "", ""
}

// ---------------------------------------------------------------- zero shares against the model (k256 scalars)

func scalarInt(b []byte) *big.Int { return new(big.Int).SetBytes(b) }

// przsLine builds the model case for the zero shares of ctxs over the k256 scalar field
// and returns the implementation's shares as text.
func przsLine(id string, ctxs map[sharing.ID]*rsess.Context) (line, impl string, err error) {
	f := k256.NewScalarField()
	q := f.Order().Big()
	ids := drive.SortedIDs(ctxs)
	var rs, shares []string
	sum := new(big.Int)
	for _, i := range ids {
		seeds := ctxs[i].Seeds()
		for _, j := range ids {
			if i < j {
				v, e := f.Random(seeds[j])
				if e != nil {
					return "", "", e
				}
				rs = append(rs, fmt.Sprintf("%d.%d.%s", uint64(i), uint64(j), vh.ZHex(scalarInt(v.Bytes()))))
			}
		}
		sh, e := przs.SampleZeroShare(ctxs[i], f)
		if e != nil {
			return "", "", e
		}
		x := scalarInt(sh.Value().Bytes())
		sum.Add(sum, x)
		shares = append(shares, fmt.Sprintf("%d:%s", uint64(i), vh.ZHex(x)))
	}
	sum.Mod(sum, q)
	r := "-"
	if len(rs) > 0 {
		r = strings.Join(rs, ",")
	}
	return fmt.Sprintf("Z %s %s %s %s", id, vh.ZHex(q), idsText(ids, ","), r),
		fmt.Sprintf("R %s %s sum=%s", id, strings.Join(shares, ","), vh.ZHex(sum)), nil
}

// ---------------------------------------------------------------- NewContext called directly

type ncCase struct {
	id       string
	holder   sharing.ID
	quorum   []sharing.ID
	common   []byte
	pairwise map[sharing.ID][]byte
	impl     string
}

func (c *ncCase) text() string {
	var p []string
	for _, id := range drive.SortedIDs(c.pairwise) {
		p = append(p, fmt.Sprintf("%d:%s", uint64(id), vh.Hex(c.pairwise[id])))
	}
	ps := "-"
	if len(p) > 0 {
		ps = strings.Join(p, ",")
	}
	return fmt.Sprintf("%d %s %s %s", uint64(c.holder), idsText(c.quorum, ","), vh.Hex(c.common), ps)
}

func parseNC(s string) *ncCase {
	f := strings.Fields(s)
	c := &ncCase{id: "replay", pairwise: map[sharing.ID][]byte{}}
	if len(f) != 5 {
		panic("bad newctx case " + s)
	}
	c.holder = parseIDs(f[1], ",")[0]
	c.quorum = parseIDs(f[2], ",")
	c.common = vh.UnHex(f[3])
	if f[4] != "-" {
		for _, e := range strings.Split(f[4], ",") {
			kv := strings.SplitN(e, ":", 2)
			b := vh.UnHex(kv[1])
			if b == nil {
				b = []byte{}
			}
			c.pairwise[parseIDs(kv[0], ",")[0]] = b
		}
	}
	return c
}

func (c *ncCase) run() {
	var ctx *rsess.Context
	var err error
	p := vh.Safely(func() {
		ctx, err = rsess.NewContext(c.holder, hashset.NewComparable(c.quorum...).Freeze(), c.common, c.pairwise)
	})
	switch {
	case p != "":
		c.impl = "ctx=PANIC"
	case err != nil || ctx == nil:
		c.impl = "ctx=none"
	default:
		c.impl = "ctx=" + ctxFields(ctx)
	}
}

func (c *ncCase) line() string {
	return fmt.Sprintf("N %s - %s %s", c.id, vh.Hex(extractLabel), c.text())
}

// ---------------------------------------------------------------- generation

func idPools(rng *vh.Rng, n int) [][]sharing.ID {
	ordinal := make([]sharing.ID, n)
	for i := range ordinal {
		ordinal[i] = sharing.ID(i + 1)
	}
	sparse := []sharing.ID{977, 3, 65, 40000, 64, 12, 1 << 33, 255, 256, 70000}[:n]
	huge := make([]sharing.ID, n)
	huge[0] = sharing.ID(^uint64(0))
	huge[1] = sharing.ID(1 << 40)
	for i := 2; i < n; i++ {
		huge[i] = sharing.ID(1<<40 + rng.Uint64()>>(uint(i)%20))
	}
	if n > 2 {
		huge[2] = 1
	}
	// all distinct?
	seen := map[sharing.ID]bool{}
	for i, x := range huge {
		for seen[x] || x == 0 {
			x++
		}
		seen[x] = true
		huge[i] = x
	}
	return [][]sharing.ID{ordinal, sparse, huge}
}

// subsets of ids of size lo..hi (in the order of ids)
func subsets(ids []sharing.ID, lo, hi int) [][]sharing.ID {
	var out [][]sharing.ID
	n := len(ids)
	for mask := 1; mask < 1<<n; mask++ {
		var s []sharing.ID
		for i := 0; i < n; i++ {
			if mask>>i&1 == 1 {
				s = append(s, ids[i])
			}
		}
		if len(s) >= lo && len(s) <= hi {
			out = append(out, s)
		}
	}
	return out
}

func shuffle(rng *vh.Rng, ids []sharing.ID) []sharing.ID {
	out := append([]sharing.ID(nil), ids...)
	for i := len(out) - 1; i > 0; i-- {
		j := rng.Intn(i + 1)
		out[i], out[j] = out[j], out[i]
	}
	return out
}

// subPaths lists the sub-quorum paths checked for a quorum: every sub-quorum of size
// 2..maxSub (shuffled member order), a few nested ones, and refused ones.
func subPaths(rng *vh.Rng, quorum []sharing.ID, maxSub, nested int) [][][]sharing.ID {
	var out [][][]sharing.ID
	all := subsets(quorum, 2, min(maxSub, len(quorum)))
	for _, s := range all {
		out = append(out, [][]sharing.ID{shuffle(rng, s)})
	}
	for i := 0; i < nested && len(quorum) >= 3; i++ {
		outer := vh.Pick(rng, subsets(quorum, 3, len(quorum)))
		inner := vh.Pick(rng, subsets(outer, 2, len(outer)))
		path := [][]sharing.ID{shuffle(rng, outer), shuffle(rng, inner)}
		if len(inner) >= 3 && rng.Bool() {
			path = append(path, shuffle(rng, vh.Pick(rng, subsets(inner, 2, len(inner)))))
		}
		out = append(out, path)
	}
	// refused: singleton, foreign member, inner not a subset of outer
	out = append(out, [][]sharing.ID{{quorum[0]}})
	foreign := quorum[0] + 1
	for contains(quorum, foreign) || foreign == 0 {
		foreign++
	}
	out = append(out, [][]sharing.ID{{quorum[0], quorum[1], foreign}})
	if len(quorum) >= 3 {
		out = append(out, [][]sharing.ID{{quorum[0], quorum[1]}, {quorum[0], quorum[2]}})
	}
	return out
}

// mixedIDs draws n distinct IDs mixing ordinals, sparse values, values around 2^32 and
// 2^40..2^64-1, in shuffled order.
func mixedIDs(rng *vh.Rng, n int) []sharing.ID {
	var out []sharing.ID
	add := func(x sharing.ID) {
		if x != 0 && !contains(out, x) && len(out) < n {
			out = append(out, x)
		}
	}
	add(sharing.ID(^uint64(0)))
	add(1)
	for len(out) < n {
		switch rng.Intn(4) {
		case 0:
			add(sharing.ID(1 + rng.Intn(64)))
		case 1:
			add(sharing.ID(rng.Intn(100000)))
		case 2:
			add(sharing.ID(1<<32 - 8 + uint64(rng.Intn(16))))
		default:
			add(sharing.ID(1<<40 + rng.Uint64()>>uint(rng.Intn(24))))
		}
	}
	return shuffle(rng, out)
}

// sampledSubPaths: a handful of sub-quorums of a large quorum (pairs, a triple, about half,
// all but one, the whole quorum), two nested chains and the refused ones.
func sampledSubPaths(rng *vh.Rng, quorum []sharing.ID) [][][]sharing.ID {
	n := len(quorum)
	pick := func(from []sharing.ID, size int) []sharing.ID { return shuffle(rng, from)[:size] }
	var out [][][]sharing.ID
	out = append(out, [][]sharing.ID{pick(quorum, 2)}, [][]sharing.ID{pick(quorum, 2)}, [][]sharing.ID{pick(quorum, 3)},
		[][]sharing.ID{pick(quorum, n/2)}, [][]sharing.ID{pick(quorum, n-1)}, [][]sharing.ID{shuffle(rng, quorum)})
	outer := pick(quorum, n-2)
	mid := pick(outer, len(outer)/2+1)
	out = append(out, [][]sharing.ID{outer, mid}, [][]sharing.ID{outer, mid, pick(mid, 2)})
	out = append(out, [][]sharing.ID{{quorum[0]}})
	foreign := quorum[0] + 1
	for contains(quorum, foreign) || foreign == 0 {
		foreign++
	}
	out = append(out, [][]sharing.ID{{quorum[0], quorum[1], foreign}})
	return out
}

func contains(ids []sharing.ID, x sharing.ID) bool {
	for _, y := range ids {
		if x == y {
			return true
		}
	}
	return false
}

func genTamper(rng *vh.Rng, quorum []sharing.ID, i int) *tamper {
	kinds := []string{"flip", "flip", "flip", "zero", "swap", "replay", "drop", "rawflip"}
	t := &tamper{Kind: kinds[i%len(kinds)]}
	slot := (i / len(kinds)) % 4 // which message type
	switch slot {
	case 0:
		t.Round, t.Bcast = 1, true
	case 1:
		t.Round, t.Bcast = 2, true
	case 2:
		t.Round, t.Bcast = 2, false
	default:
		t.Round, t.Bcast = 3, false
	}
	q := shuffle(rng, quorum)
	t.From = q[0]
	if !t.Bcast {
		t.To = q[1]
	} else if rng.Chance(1, 4) {
		t.To = q[1] // non-uniform broadcast alteration: that recipient alone
	}
	t.Field = rng.Intn(2)
	if t.Round == 2 && !t.Bcast {
		t.Field = 0
	}
	t.Bit = rng.Intn(256)
	if t.Kind == "rawflip" {
		t.Bit = rng.Intn(8 * 120)
	}
	// swap: another sender; replay(unicast): another recipient
	if len(q) >= 3 {
		t.Other = q[2]
	} else if t.Kind == "swap" {
		t.Other = q[1] // two parties: the recipient's own message
	} else {
		t.Other = q[1]
	}
	if t.Kind == "replay" && !t.Bcast && len(q) < 3 {
		t.Kind = "flip"
	}
	if t.Kind == "swap" && !t.Bcast && len(q) < 3 {
		t.Kind = "zero"
	}
	return t
}

// ---------------------------------------------------------------- main

func main() {
	a := vh.ParseArgs()
	res := vh.NewResult(prop, a.Seed, a.Tier)
	res.Rule = "session cases: every quorum of size 2..6 (thorough: plus sizes 7..10) drawn from three ID pools (ordinal, sparse unsorted, >= 2^40 incl. 2^64-1 and 1), each party told the quorum in its own order; the real Round1..4 are driven over CBOR with recording tapes; per party the model gets the randomness the party used and exactly the messages delivered to it; observables per party: sent messages, verdict (+round, blamed party), SessionID, transcript extract, quorum, first 32 bytes of every peer seed, the same for every sub-quorum of size <= 4 (thorough: all sizes), nested (depth 2-3) and refused sub-quorums (singleton, foreign member, not a subset); tamper cases: bit flip / zeroing / swap with another party's / replay (other recipient's copy, other session's broadcast) / drop / raw CBOR bit flip of every message type, uniform and per-recipient for broadcasts, plus a sweep over every byte (thorough: every bit) of every field and payload of one three-party session; NewContext called directly with arbitrary ids, seeds and lengths; zero shares over k256, edwards25519 prime subgroup and both scalar fields summed to the identity on quorum and sub-quorums, model shares over Z_q(k256) compared value by value. All hashes of the model are answered by Go's own blake2b / sha3. Non-trivial = the run got past the constructor (NewContext: accepted); distinct counts canonical case texts."
	gs := groups
	reg := &registry{seeds: map[string]string{}}

	var cases []*kase
	var replayNC []*ncCase
	if a.Replay != "" {
		data, err := os.ReadFile(a.Replay)
		if err != nil {
			fmt.Fprintln(os.Stderr, err)
			os.Exit(2)
		}
		for _, l := range strings.Split(string(data), "\n") {
			if strings.HasPrefix(l, "case:") {
				c := strings.TrimSpace(strings.TrimPrefix(l, "case:"))
				if strings.HasPrefix(c, "sess ") {
					cases = append(cases, parseCase(c))
				}
				if strings.HasPrefix(c, "newctx ") {
					replayNC = append(replayNC, parseNC(c))
				}
			}
		}
	} else {
		rng := vh.NewRng(a.Seed, prop, "gen", 0)
		maxN, maxSub, nTamper := 6, 4, 160
		if a.Tier == "thorough" {
			maxN, maxSub, nTamper = 10, 10, 1500
		}
		if a.Search {
			nTamper *= 4
		}
		pools := idPools(rng, maxN)
		n := 0
		seen := map[string]bool{}
		for pi, pool := range pools {
			var qs [][]sharing.ID
			if a.Tier == "thorough" && maxN > 6 {
				// all quorums from the first 6 ids + a sample of larger ones
				qs = subsets(pool[:6], 2, 6)
				for extra := 0; extra < 12; extra++ {
					size := 7 + extra%4
					qs = append(qs, shuffle(rng, pool)[:size])
				}
			} else {
				qs = subsets(pool, 2, maxN)
			}
			for qi, q := range qs {
				// quick tier: the second and third pool contribute two thirds of their quorums
				// (the CPU goes to the large quorums below instead)
				if a.Tier != "thorough" && pi > 0 && qi%3 == 1 {
					continue
				}
				// quick tier: the full sub-quorum sweep for every quorum of the first
				// pool and every third quorum of the others
				full := pi == 0 || qi%3 == 0 || a.Tier == "thorough"
				k := &kase{id: fmt.Sprintf("h%d", n), seed: a.Seed*1000 + int64(n), quorum: shuffle(rng, q)}
				ms := maxSub
				if len(q) > 7 {
					ms = 3
				}
				if full {
					k.subs = subPaths(rng, k.quorum, ms, 3)
				} else {
					k.subs = subPaths(rng, k.quorum, 2, 1)
				}
				if !seen[k.text()] {
					seen[k.text()] = true
					cases = append(cases, k)
					n++
				}
			}
		}
		// large quorums (the property quantifies over every quorum size; buffer-capacity and
		// map-growth effects only show with many parties): honest runs with mixed IDs, a
		// sample of sub-quorums each, the full predicates and the byte-level tie
		largeSizes := []int{7, 8, 9, 10, 12, 16, 24, 33}
		if a.Tier == "thorough" {
			largeSizes = []int{7, 8, 9, 10, 11, 12, 13, 14, 15, 16, 17, 20, 24, 28, 32, 33, 36, 40}
		}
		for li, size := range largeSizes {
			q := mixedIDs(rng, size)
			k := &kase{id: fmt.Sprintf("L%d", size), seed: a.Seed*1000 + 700000 + int64(li), quorum: q}
			k.subs = sampledSubPaths(rng, q)
			cases = append(cases, k)
		}

		// tamper cases
		for i := 0; i < nTamper; i++ {
			pool := pools[i%len(pools)]
			size := 2 + rng.Intn(min(maxN, 6)-1)
			if i%7 == 0 {
				size = 2
			}
			q := shuffle(rng, pool)[:size]
			k := &kase{id: fmt.Sprintf("t%d", i), seed: a.Seed*1000 + 500000 + int64(i), quorum: q, tam: genTamper(rng, q, i)}
			if i%5 == 0 {
				k.subs = subPaths(rng, q, 2, 0)
			}
			cases = append(cases, k)
		}
	}

	t0 := time.Now()
	lap := func(what string) {
		if os.Getenv("C10_TIMING") != "" {
			fmt.Fprintf(os.Stderr, "%-12s %.1fs\n", what, time.Since(t0).Seconds())
		}
		t0 = time.Now()
	}
	// constructor refusals: a quorum of one, the reserved id 0
	if a.Replay == "" {
		for i, q := range [][]sharing.ID{{5}, {0, 3}, {3, 0, 9}, {0}} {
			cases = append(cases, &kase{id: fmt.Sprintf("c%d", i), seed: a.Seed*1000 + 800000 + int64(i), quorum: q})
		}
	}

	// systematic sweep: one three-party session, every byte (quick: one bit per byte;
	// thorough: every bit) of every field of every message type flipped, and every byte
	// of every raw CBOR payload
	if a.Replay == "" {
		q := []sharing.ID{1 << 40, 3, 977}
		type slot struct {
			round  int
			bcast  bool
			fields int
		}
		n := 0
		for _, sl := range []slot{{1, true, 2}, {2, true, 2}, {2, false, 1}, {3, false, 2}} {
			for f := 0; f < sl.fields; f++ {
				for bit := 0; bit < 256; bit++ {
					if a.Tier != "thorough" && bit%8 != (bit/8)%8 {
						continue
					}
					t := &tamper{Kind: "flip", Round: sl.round, Bcast: sl.bcast, From: q[n%3], Field: f, Bit: bit, Other: q[(n+2)%3]}
					if !sl.bcast {
						t.To = q[(n+1)%3]
					}
					cases = append(cases, &kase{id: fmt.Sprintf("w%d", n), seed: a.Seed*1000 + 900000, quorum: q, tam: t})
					n++
				}
			}
			step := 8 * 4
			if a.Tier == "thorough" {
				step = 1
			}
			for bit := 0; bit < 8*140; bit += step {
				t := &tamper{Kind: "rawflip", Round: sl.round, Bcast: sl.bcast, From: q[n%3], Bit: bit + (bit/8)%8%step, Other: q[(n+2)%3]}
				if !sl.bcast {
					t.To = q[(n+1)%3]
				}
				cases = append(cases, &kase{id: fmt.Sprintf("w%d", n), seed: a.Seed*1000 + 900000, quorum: q, tam: t})
				n++
			}
		}
	}

	// run the implementation
	for _, k := range cases {
		if p := vh.Safely(k.run); p != "" {
			res.Mismatch(vh.Mismatch{ID: k.id, Kind: "prop", Key: "harness-panic", Detail: p, Case: k.text(), PropFail: true, What: "driving the session protocol panicked"})
			k.res = nil
		}
	}
	var live []*kase
	for _, k := range cases {
		if k.res != nil {
			live = append(live, k)
		}
	}
	cases = live

	lap("impl")
	// the model
	outs, err := solve(a.Driver, len(cases),
		func(i int) string { return cases[i].line() })
	if err != nil {
		res.Mismatch(vh.Mismatch{ID: "driver", Kind: "corr", Key: "model-driver-failed", Detail: err.Error(), Case: "-", What: "the extracted model could not be evaluated"})
		res.Write(a.Out)
		return
	}

	lap("model")
	for i, k := range cases {
		class := "honest"
		if k.noPred {
			class = "refused-config"
		}
		if k.tam != nil {
			class = "tamper-" + k.tam.Kind
		}
		class += fmt.Sprintf("/n=%d", len(k.quorum))
		res.Count(class, k.text(), true)
		for _, id := range k.res.Quorum {
			res.Distribution["verdict/"+k.res.Trace.Verdicts[id].Class]++
		}
		model := parseKV(outs[i])
		if k.tapeLayoutDiffers {
			res.Distribution["tape-layout-differs-from-model"]++
		}
		if os.Getenv("C10_DEBUG") == k.id {
			fmt.Fprintf(os.Stderr, "CASE %s\nMODEL %s\nIMPL %v\n", k.text(), outs[i], k.impl)
		}
		key, detail := diffMaps(model, k.impl)
		var pk, pd string
		if k.noPred {
			// nothing to require beyond the model's refusal
		} else if p := vh.Safely(func() { pk, pd = k.predicate(reg, gs) }); p != "" {
			pk, pd = "panic-in-implementation", p
		}
		if key != "" {
			// shrink: keep only the sub-quorum path the disagreement is about
			ct := k.text()
			if pk == "" {
				sk := *k
				sk.subs = nil
				if f := strings.Split(key, "."); len(f) == 3 && f[1] == "sub" {
					if n, err := strconv.Atoi(f[2]); err == nil && n < len(k.subs) {
						sk.subs = [][][]sharing.ID{k.subs[n]}
						detail = strings.Replace(detail, key, f[0]+".sub.0", 1)
					}
				}
				ct = sk.text()
			}
			res.Mismatch(vh.Mismatch{ID: k.id, Kind: "corr", Key: "session-" + keyClass(key), Detail: detail + propNote(pk, pd), Case: ct, PropFail: pk != "",
				What: "correspondence Session.party_run / new_context / sub_context vs pkg/mpc/session (theorems C10_sid_agreement, C10_pair_symmetry, C10_pair_distinct, C10_subctx_agree, C10_setup_opening_blame rest on it)"})
		} else if pk != "" {
			res.Mismatch(vh.Mismatch{ID: k.id, Kind: "prop", Key: pk, Detail: pd, Case: k.text(), PropFail: true, What: "property predicate on the implementation"})
		}
	}

	lap("predicates")
	// zero shares against the model, over Z_q of k256 (honest cases, quorum and first sub-quorums)
	var zl, zi, zt []string
	for _, k := range cases {
		if k.tam != nil || len(k.res.Ctx) != len(k.res.Quorum) {
			continue
		}
		sets := []map[sharing.ID]*rsess.Context{k.res.Ctx}
		setPaths := [][][]sharing.ID{nil}
		for pi, path := range k.subs {
			if pi%7 != 0 {
				continue
			}
			m := map[sharing.ID]*rsess.Context{}
			for _, id := range path[len(path)-1] {
				if c, ok := k.res.Ctx[id]; ok {
					if sc := subContext(c, path); sc != nil {
						m[id] = sc
					}
				}
			}
			if len(m) == len(path[len(path)-1]) && len(m) >= 2 {
				sets = append(sets, m)
				setPaths = append(setPaths, path)
			}
		}
		for si, set := range sets {
			id := fmt.Sprintf("z%s.%d", k.id, si)
			var l, im string
			var e error
			if p := vh.Safely(func() { l, im, e = przsLine(id, set) }); p != "" || e != nil {
				res.Mismatch(vh.Mismatch{ID: id, Kind: "prop", Key: "zero-share-sample-fails", Detail: fmt.Sprint(p, e), Case: k.text(), PropFail: true, What: "przs.SampleZeroShare over the k256 scalar field"})
				continue
			}
			sk := *k
			sk.subs = nil
			if setPaths[si] != nil {
				sk.subs = [][][]sharing.ID{setPaths[si]}
			}
			zl, zi, zt = append(zl, l), append(zi, im), append(zt, sk.text())
		}
	}
	if len(zl) > 0 {
		zo, err := vh.Driver(a.Driver, zl)
		if err != nil {
			res.Mismatch(vh.Mismatch{ID: "driver", Kind: "corr", Key: "model-driver-failed", Detail: err.Error(), Case: "-", What: "the extracted przs model could not be evaluated"})
		} else {
			for i := range zl {
				res.Count("przs-zq", zl[i], true)
				if zo[i] != zi[i] {
					sumBad := !strings.HasSuffix(zi[i], "sum=0")
					res.Mismatch(vh.Mismatch{ID: strings.Fields(zl[i])[1], Kind: "corr", Key: "przs-share", Detail: "model=" + clip(zo[i]) + " impl=" + clip(zi[i]), Case: zt[i], PropFail: sumBad,
						What: "correspondence Przs.zero_share vs przs.SampleZeroShare (theorem C10_przs_zero_sum rests on it)"})
				}
			}
		}
	}

	lap("przs")
	// NewContext called directly
	{
		nrng := vh.NewRng(a.Seed, prop, "newctx", 0)
		var ncs []*ncCase
		nn := 60
		if a.Tier == "thorough" {
			nn = 600
		}
		if a.Replay != "" {
			nn = 0
			for _, c := range replayNC {
				c.run()
				ncs = append(ncs, c)
			}
		}
		for i := 0; i < nn; i++ {
			size := 1 + nrng.Intn(5)
			q := make([]sharing.ID, 0, size)
			for len(q) < size {
				x := sharing.ID(nrng.Uint64() >> uint(nrng.Intn(64)))
				if i%4 == 0 {
					x = sharing.ID(nrng.Intn(8)) // small ids, 0 included
				}
				if !contains(q, x) {
					q = append(q, x)
				}
			}
			c := &ncCase{id: fmt.Sprintf("n%d", i), quorum: q, holder: q[0], pairwise: map[sharing.ID][]byte{}}
			if nrng.Chance(1, 8) {
				c.holder = sharing.ID(nrng.Intn(4))
			}
			lens := []int{0, 16, 31, 32, 33, 64, 100}
			c.common = nrng.Bytes(vh.Pick(nrng, lens[2:]))
			for _, id := range q {
				if nrng.Chance(1, 12) {
					continue
				}
				l := 64
				if nrng.Chance(1, 6) {
					l = vh.Pick(nrng, lens)
				}
				c.pairwise[id] = nrng.Bytes(l)
			}
			c.run()
			ncs = append(ncs, c)
		}
		nout, err := solve(a.Driver, len(ncs), func(i int) string { return ncs[i].line() })
		if err != nil {
			res.Mismatch(vh.Mismatch{ID: "driver", Kind: "corr", Key: "model-driver-failed", Detail: err.Error(), Case: "-", What: "the extracted model could not be evaluated (NewContext)"})
		} else {
			for i, c := range ncs {
				cls := "newctx/ok"
				if c.impl == "ctx=none" {
					cls = "newctx/refused"
				}
				res.Count(cls, c.text(), c.impl != "ctx=none")
				f := strings.Fields(nout[i])
				got := ""
				if len(f) >= 3 {
					got = f[2]
				}
				if got != c.impl {
					res.Mismatch(vh.Mismatch{ID: c.id, Kind: "corr", Key: "newcontext", Detail: "model=" + clip(got) + " impl=" + clip(c.impl), Case: "newctx " + c.text(), PropFail: c.impl == "ctx=PANIC",
						What: "correspondence Session.new_context vs session.NewContext"})
				}
			}
		}
	}

	lap("newctx")
	res.Note("hash oracle: blake2b-256 keyed, SHA3-512 and cSHAKE256 from Go's x/crypto and crypto/sha3, applied to the model's byte strings")
	res.Write(a.Out)
}

func propNote(k, d string) string {
	if k == "" {
		return ""
	}
	return " | property predicate fails: " + k + ": " + d
}
