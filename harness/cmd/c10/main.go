package main

import (
	"fmt"

	"github.com/bronlabs/bron-crypto/pkg/mpc/sharing"

	"verif/harness/internal/drive"
	dsess "verif/harness/internal/drive/session"
)

func main() {
	tr := dsess.Run(dsess.Config{Seed: 1, Prop: "C10", Quorum: []sharing.ID{7, 3, 1 << 41}})
	for _, id := range drive.SortedIDs(tr.Verdicts) {
		fmt.Println(id, tr.Verdicts[id], tr.Outputs[id], tr.Tapes[id].ReadsText())
	}
	fmt.Println(len(tr.Messages), len(dsess.Contexts(tr)))
	for _, m := range tr.Messages[:3] {
		fmt.Printf("%d %d->%d %x\n", m.Round, m.From, m.To, m.Payload)
	}
}
