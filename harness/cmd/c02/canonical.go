package main

// Canonicity of cnf.InducedMSP: the induced MSP (matrix, row labels) must not depend on the order in
// which the maximal unqualified sets are listed, nor on the route by which the CNF object was built
// (NewCNFAccessStructure from any permutation of the clause list, or ConvertToCNF from an equivalent
// policy, whose clause order follows Go map iteration).  Parties of a DKG rebuild the MSP independently.

import (
	"fmt"
	"sort"
	"strings"

	"github.com/bronlabs/bron-crypto/pkg/base/algebra"
	"github.com/bronlabs/bron-crypto/pkg/mpc/sharing/accessstructures"
	"github.com/bronlabs/bron-crypto/pkg/mpc/sharing/accessstructures/cnf"
	"github.com/bronlabs/bron-crypto/pkg/mpc/sharing/scheme/kw/msp"

	"verif/harness/internal/vh"
)

func mspToken[FE algebra.PrimeFieldElement[FE]](m *msp.MSP[FE]) string {
	rows, cols := m.Matrix().Dimensions()
	labs := make([]uint64, rows)
	var entries []FE
	for i := 0; i < rows; i++ {
		id, _ := m.RowsToHolders().Get(i)
		labs[i] = uint64(id)
		for j := 0; j < cols; j++ {
			e, _ := m.Matrix().Get(i, j)
			entries = append(entries, e)
		}
	}
	return fmt.Sprintf("%dx%d:%s:%s", rows, cols, idsText(labs), hexFEs(entries))
}

// inducedToken builds the access structure and induces its MSP; "" when anything refuses or panics.
func inducedToken[FE algebra.PrimeFieldElement[FE]](ctx *fieldCtx[FE], ac accessstructures.Monotone) string {
	tok := ""
	vh.Safely(func() {
		m, err := accessstructures.InducedMSP(ctx.f, ac)
		if err == nil {
			tok = mspToken(m)
		}
	})
	return tok
}

// cnfPermutations: the clause list reversed, rotated, and shuffled
func cnfPermutations(r *vh.Rng, sets [][]uint64) [][][]uint64 {
	n := len(sets)
	if n < 2 {
		return nil
	}
	rev := make([][]uint64, n)
	rot := make([][]uint64, n)
	shf := append([][]uint64(nil), sets...)
	for i := range sets {
		rev[n-1-i] = sets[i]
		rot[i] = sets[(i+1)%n]
	}
	for i := n - 1; i > 0; i-- {
		j := r.Intn(i + 1)
		shf[i], shf[j] = shf[j], shf[i]
	}
	return [][][]uint64{rev, rot, shf}
}

// checkCanonical returns a description of the first disagreement, "" when the induced MSP is canonical.
// want is the token of the MSP induced for the policy as given (already compared with the model).
func checkCanonical[FE algebra.PrimeFieldElement[FE]](ctx *fieldCtx[FE], a vh.Args, cs caseSpec, ac accessstructures.Monotone, want string) string {
	p := cs.pol
	rg := vh.NewRng(a.Seed, "C02", "perm", cs.rngIdx)
	if p.fam == 'N' {
		for _, perm := range cnfPermutations(rg, p.sets) {
			q := policy{fam: 'N', sets: perm}
			ac2, err := q.build()
			if err != nil {
				return "permuted clause list refused: " + q.text()
			}
			if got := inducedToken(ctx, ac2); got != want {
				return fmt.Sprintf("clause order %s induces %s, order %s induces %s", p.text(), want, q.text(), got)
			}
		}
		return ""
	}
	// equivalent CNF through ConvertToCNF (clause order = map iteration order), several times
	if p.fam == 'U' || (p.fam != 'T' && p.maxID() > 64) || len(p.holders()) > 5 || cs.field != "k256" {
		return "" // (brute-force enumeration of the maximal unqualified sets: small policies, one field)
	}
	var ref string
	var refSets [][]uint64
	for k := 0; k < 2; k++ {
		var conv *cnf.CNF
		var err error
		if pn := vh.Safely(func() { conv, err = cnf.ConvertToCNF(ac) }); pn != "" || err != nil || conv == nil {
			return "" // not convertible (no unqualified set, fewer than 2 shareholders ...)
		}
		tok := inducedToken(ctx, conv)
		if k == 0 {
			ref = tok
			for u := range conv.MaximalUnqualifiedSetsIter() {
				var s []uint64
				for _, id := range u.List() {
					s = append(s, uint64(id))
				}
				refSets = append(refSets, uniqSorted(s))
			}
			sort.Slice(refSets, func(i, j int) bool { return idsText(refSets[i]) < idsText(refSets[j]) })
		} else if tok != ref {
			return fmt.Sprintf("two ConvertToCNF conversions of %s induce different MSPs: %s | %s", p.text(), ref, tok)
		}
	}
	// the same CNF built directly from its clause list in a fixed order
	q := policy{fam: 'N', sets: refSets}
	if ac2, err := q.build(); err == nil {
		if got := inducedToken(ctx, ac2); got != ref {
			return fmt.Sprintf("ConvertToCNF(%s) induces %s, NewCNFAccessStructure(%s) induces %s", p.text(), ref, strings.TrimPrefix(q.text(), "N:"), got)
		}
	}
	return ""
}
