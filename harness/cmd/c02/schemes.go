package main

// Dedicated schemes (Shamir, additive, ISN, Tassa): same method as the KW cases — drive the
// implementation, render its observables like the model driver does, compare token-wise,
// and evaluate the property predicate (reconstruct(qualified) = secret, unqualified refused,
// additive conversion sums to the secret) on the implementation alone.

import (
	"fmt"
	"math/big"
	"sort"
	"strings"

	"github.com/bronlabs/bron-crypto/pkg/base/algebra"
	"github.com/bronlabs/bron-crypto/pkg/base/datastructures/bitset"
	"github.com/bronlabs/bron-crypto/pkg/mpc/sharing"
	"github.com/bronlabs/bron-crypto/pkg/mpc/sharing/accessstructures/hierarchical"
	"github.com/bronlabs/bron-crypto/pkg/mpc/sharing/accessstructures/threshold"
	"github.com/bronlabs/bron-crypto/pkg/mpc/sharing/accessstructures/unanimity"
	"github.com/bronlabs/bron-crypto/pkg/mpc/sharing/scheme/additive"
	"github.com/bronlabs/bron-crypto/pkg/mpc/sharing/scheme/isn"
	"github.com/bronlabs/bron-crypto/pkg/mpc/sharing/scheme/shamir"
	"github.com/bronlabs/bron-crypto/pkg/mpc/sharing/scheme/tassa"

	"verif/harness/internal/vh"
)

// schemeSpec: kind 'S' shamir, 'A' additive, 'I' isn, 'H' tassa
type schemeSpec struct {
	kind    byte
	field   string
	pol     policy
	secret  *big.Int
	subsets [][]uint64
	rngIdx  int
}

func (s schemeSpec) text() string {
	return fmt.Sprintf("%c %s %s %s %s %d", s.kind, s.field, s.pol.text(), vh.ZHex(s.secret), subsetsText(s.subsets), s.rngIdx)
}

func parseSchemeSpec(l string) schemeSpec {
	f := strings.Split(strings.TrimSpace(l), " ")
	s := schemeSpec{kind: f[0][0], field: f[1], pol: parsePolicy(f[2]), secret: vh.UnZHex(f[3])}
	if f[4] != "-" {
		for _, x := range strings.Split(f[4], ";") {
			s.subsets = append(s.subsets, parseIDs(x))
		}
	}
	fmt.Sscanf(f[5], "%d", &s.rngIdx)
	return s
}

type schemeOut struct {
	modelLine string
	tokens    []string
	props     []vh.Mismatch
	skip      bool
}

func fshareText(m map[uint64]*big.Int) string {
	ids := make([]uint64, 0, len(m))
	for id := range m {
		ids = append(ids, id)
	}
	sort.Slice(ids, func(i, j int) bool { return ids[i] < ids[j] })
	p := make([]string, len(ids))
	for i, id := range ids {
		p[i] = fmt.Sprintf("%d=%s", id, vh.ZHex(m[id]))
	}
	if len(p) == 0 {
		return "-"
	}
	return strings.Join(p, ";")
}

func runScheme[FE algebra.PrimeFieldElement[FE]](ctx *fieldCtx[FE], a vh.Args, sp schemeSpec) schemeOut {
	var out schemeOut
	caseText := sp.text()
	prop := func(key, detail string) {
		out.props = append(out.props, vh.Mismatch{ID: caseText, Kind: "prop", Key: key, Detail: detail, Case: caseText, PropFail: true,
			What: "C02 property predicate on the implementation (dedicated scheme)"})
	}
	qh := vh.ZHex(ctx.q)
	secret := new(big.Int).Mod(sp.secret, ctx.q)
	rng := vh.NewRng(a.Seed, "C02", "scheme", sp.rngIdx)
	ac, err := sp.pol.build()
	if err != nil {
		out.skip = true
		return out
	}
	holders := sp.pol.holders()
	// degenerate policies: no qualified set at all (ISN deals empty shares), or Tassa with last
	// threshold 1 (degree-0 polynomial; Reconstruct insists on two shares): not in the property's range
	if !sp.pol.qualified(holders) {
		out.skip = true
		return out
	}
	if sp.kind == 'H' && len(sp.pol.levels) > 0 && sp.pol.levels[len(sp.pol.levels)-1].t < 2 {
		out.skip = true
		return out
	}
	// ISN converts the policy to the CNF of its maximal unqualified sets; a holder that is qualified
	// on its own lies in no unqualified set and is dropped from the scheme (gets no share)
	selfQualified := false
	for _, h := range holders {
		if sp.pol.qualified([]uint64{h}) {
			selfQualified = true
		}
	}
	if sp.kind == 'I' && selfQualified {
		inner := prop
		prop = func(key, detail string) { inner("isn-self-qualified-holder-dropped", key+": "+detail) }
	}
	isSet := func(s []uint64) bool { return distinctIDs(s) && subsetOf(s, holders) }
	quorumOf := func(s []uint64) *unanimity.Unanimity {
		var q *unanimity.Unanimity
		var qerr error
		vh.Safely(func() { q, qerr = unanimity.NewUnanimityAccessStructure(idSet(s)) })
		if qerr != nil {
			return nil
		}
		return q
	}
	checkRecon := func(fam string, s []uint64, v *big.Int) {
		if !isSet(s) {
			return
		}
		q := sp.pol.qualified(s)
		if q && (v == nil || v.Cmp(secret) != 0) {
			prop("reconstruct-qualified-"+fam, fmt.Sprintf("qualified set %v does not reconstruct the dealt secret", s))
		}
		if !q && v != nil {
			prop("reconstruct-unqualified-"+fam, fmt.Sprintf("unqualified set %v reconstructs", s))
		}
	}
	checkSum := func(fam string, s []uint64, sum *big.Int, refused bool) {
		if !isSet(s) || !sp.pol.qualified(s) {
			return
		}
		if refused {
			prop("toadditive-qualified-refused-"+fam, fmt.Sprintf("qualified quorum %v: conversion refused", s))
		} else if sum.Cmp(secret) != 0 {
			prop("toadditive-sum-"+fam, fmt.Sprintf("quorum %v: additive shares do not sum to the secret", s))
		}
	}

	switch sp.kind {
	case 'S':
		th := ac.(*threshold.Threshold)
		scheme, err := shamir.NewScheme(ctx.f, th)
		if err != nil {
			out.skip = true
			return out
		}
		do, poly, err := scheme.DealAndRevealDealerFunc(shamir.NewSecret(ctx.fe(secret)), rng)
		if err != nil {
			prop("shamir-deal-refused", err.Error())
			out.skip = true
			return out
		}
		shares := map[uint64]*shamir.Share[FE]{}
		vals := map[uint64]*big.Int{}
		for id, sh := range do.Shares().Iter() {
			shares[uint64(id)] = sh
			vals[uint64(id)] = big_(sh.Value())
		}
		per := make([]string, len(sp.subsets))
		for i, s := range sp.subsets {
			var list []*shamir.Share[FE]
			ok := true
			for _, id := range s {
				sh, has := shares[id]
				if !has {
					ok = false
					break
				}
				list = append(list, sh)
			}
			rt := "E"
			var rv *big.Int
			if ok {
				var sec *shamir.Secret[FE]
				var rerr error
				if pn := vh.Safely(func() { sec, rerr = scheme.Reconstruct(list...) }); pn != "" {
					prop("shamir-reconstruct-panic", pn)
					rt = "P"
				} else if rerr == nil {
					rv = big_(sec.Value())
					rt = vh.ZHex(rv)
				}
			}
			if ok {
				checkRecon("shamir", s, rv)
			}
			tt := "-"
			if q := quorumOf(s); q != nil {
				sum := new(big.Int)
				tt = ""
				for _, id := range uniqSorted(s) {
					sh, has := shares[id]
					if !has {
						tt = "E"
						break
					}
					var v FE
					var cerr error
					if pn := vh.Safely(func() {
						x, e := scheme.ConvertShareToAdditive(sh, q)
						cerr = e
						if e == nil {
							v = x.Value()
						}
					}); pn != "" {
						prop("shamir-toadditive-panic", pn)
						tt = "P"
						break
					}
					if cerr != nil {
						tt = "E"
						break
					}
					sum.Add(sum, big_(v))
				}
				if tt == "" {
					sum.Mod(sum, ctx.q)
					tt = vh.ZHex(sum)
					checkSum("shamir", s, sum, false)
				} else if tt == "E" && subsetOf(s, holders) {
					checkSum("shamir", s, nil, true)
				}
			}
			per[i] = "r" + rt + "t" + tt
		}
		out.tokens = []string{fshareText(vals), strings.Join(per, ";")}
		out.modelLine = fmt.Sprintf("S x %s %d %s %s %s", qh, sp.pol.t, idsText(sp.pol.ids), hexFEs(poly.Coefficients()), subsetsText(sp.subsets))
	case 'A':
		un := ac.(*unanimity.Unanimity)
		scheme, err := additive.NewScheme[FE](ctx.f, un)
		if err != nil {
			out.skip = true
			return out
		}
		n := len(holders)
		summands, err := additive.SumToSecret(ctx.fe(secret), ctx.f.Random, rng, n)
		if err != nil {
			out.skip = true
			return out
		}
		sec, _ := additive.NewSecret(ctx.fe(secret))
		do, err := scheme.Deal(sec, rng)
		if err != nil {
			prop("additive-deal-refused", err.Error())
			out.skip = true
			return out
		}
		shares := map[uint64]*additive.Share[FE]{}
		vals := map[uint64]*big.Int{}
		tot := new(big.Int)
		for id, sh := range do.Shares().Iter() {
			shares[uint64(id)] = sh
			vals[uint64(id)] = big_(sh.Value())
			tot.Add(tot, vals[uint64(id)])
		}
		if tot.Mod(tot, ctx.q).Cmp(secret) != 0 {
			prop("additive-deal-sum", "dealt additive shares do not sum to the secret")
		}
		per := make([]string, len(sp.subsets))
		for i, s := range sp.subsets {
			var list []*additive.Share[FE]
			ok := true
			for _, id := range s {
				sh, has := shares[id]
				if !has {
					ok = false
					break
				}
				list = append(list, sh)
			}
			rt := "E"
			var rv *big.Int
			if ok && len(list) > 0 {
				var rs *additive.Secret[FE]
				var rerr error
				if pn := vh.Safely(func() { rs, rerr = scheme.Reconstruct(list...) }); pn != "" {
					prop("additive-reconstruct-panic", pn)
					rt = "P"
				} else if rerr == nil {
					rv = big_(rs.Value())
					rt = vh.ZHex(rv)
				}
				checkRecon("additive", s, rv)
			}
			per[i] = "r" + rt
		}
		out.tokens = []string{hexFEs(summands), strings.Join(per, ";")}
		out.modelLine = fmt.Sprintf("A x %s %s %s %s %s %s", qh, idsText(sp.pol.ids), vh.ZHex(secret), hexFEs(summands[:n-1]), fshareText(vals), subsetsText(sp.subsets))
	case 'I':
		var scheme *isn.Scheme[FE]
		var serr error
		if pn := vh.Safely(func() { scheme, serr = isn.NewFiniteScheme[FE](ctx.f, ac) }); pn != "" {
			prop("isn-newscheme-panic", pn)
			out.skip = true
			return out
		}
		if serr != nil {
			out.skip = true
			return out
		}
		do, df, err := scheme.DealAndRevealDealerFunc(isn.NewSecret(ctx.fe(secret)), rng)
		if err != nil {
			out.skip = true
			return out
		}
		// canonical order of the maximal unqualified sets: by bitset value
		var keys []bitset.ImmutableBitSet[sharing.ID]
		for k := range df {
			keys = append(keys, k)
		}
		sort.Slice(keys, func(i, j int) bool { return uint64(keys[i]) < uint64(keys[j]) })
		idx := map[bitset.ImmutableBitSet[sharing.ID]]int{}
		musParts := make([]string, len(keys))
		summ := make([]FE, len(keys))
		for i, k := range keys {
			idx[k] = i
			var ids []uint64
			for _, id := range k.List() {
				ids = append(ids, uint64(id))
			}
			musParts[i] = setText(uniqSorted(ids))
			summ[i] = df[k]
		}
		shares := map[uint64]*isn.Share[FE]{}
		var shareParts []string
		hs := uniqSorted(holders)
		for id, sh := range do.Shares().Iter() {
			shares[uint64(id)] = sh
		}
		for _, id := range hs {
			sh, has := shares[id]
			if !has {
				continue
			}
			type kv struct {
				k int
				v string
			}
			var kvs []kv
			for clause, v := range sh.Value().Iter() {
				kvs = append(kvs, kv{idx[clause], hexFE(v)})
			}
			sort.Slice(kvs, func(i, j int) bool { return kvs[i].k < kvs[j].k })
			p := make([]string, len(kvs))
			for i, e := range kvs {
				p[i] = fmt.Sprintf("%d:%s", e.k, e.v)
			}
			body := "-"
			if len(p) > 0 {
				body = strings.Join(p, ",")
			}
			shareParts = append(shareParts, fmt.Sprintf("%d=%s", id, body))
		}
		per := make([]string, len(sp.subsets))
		for i, s := range sp.subsets {
			var list []*isn.Share[FE]
			ok := true
			for _, id := range s {
				sh, has := shares[id]
				if !has {
					ok = false
					break
				}
				list = append(list, sh)
			}
			q := false
			vh.Safely(func() { q = scheme.CanReconstruct(toIDs(s)...) })
			if isSet(s) && q != sp.pol.qualified(s) {
				prop("isn-canreconstruct", fmt.Sprintf("CanReconstruct(%v)=%v, independent evaluation %v", s, q, sp.pol.qualified(s)))
			}
			rt := "E"
			var rv *big.Int
			if ok {
				var rs *isn.Secret[FE]
				var rerr error
				if pn := vh.Safely(func() { rs, rerr = scheme.Reconstruct(list...) }); pn != "" {
					prop("isn-reconstruct-panic", pn)
					rt = "P"
				} else if rerr == nil {
					rv = big_(rs.Value())
					rt = vh.ZHex(rv)
				}
				checkRecon("isn", s, rv)
			}
			tt := "-"
			emptyPanic := false
			if qu := quorumOf(s); qu != nil {
				sum := new(big.Int)
				tt = ""
				for _, id := range uniqSorted(s) {
					sh, has := shares[id]
					if !has {
						tt = "E"
						break
					}
					var v FE
					var cerr error
					if pn := vh.Safely(func() {
						x, e := scheme.ConvertShareToAdditive(sh, qu)
						cerr = e
						if e == nil {
							v = x.Value()
						}
					}); pn != "" {
						if sh.Value().Size() == 0 {
							// holder contained in every maximal unqualified set: empty chunk map, ToAdditive indexes an empty slice
							prop("isn-empty-share-toadditive-panic", fmt.Sprintf("ConvertShareToAdditive(share of %d, quorum %v) panicked: %s", id, s, pn))
							tt = "E"
							emptyPanic = true
						} else {
							prop("isn-toadditive-panic", pn)
							tt = "P"
						}
						break
					}
					if cerr != nil {
						if sh.Value().Size() == 0 {
							// same input class after a repair that turns the panic into an error: still refused
							prop("isn-empty-share-toadditive-panic", fmt.Sprintf("ConvertShareToAdditive(share of %d, quorum %v) refused: empty chunk map", id, s))
							emptyPanic = true
						}
						tt = "E"
						break
					}
					sum.Add(sum, big_(v))
				}
				if tt == "" {
					sum.Mod(sum, ctx.q)
					tt = vh.ZHex(sum)
					checkSum("isn", s, sum, false)
				} else if tt == "E" && subsetOf(s, holders) && !emptyPanic {
					checkSum("isn", s, nil, true)
				}
			}
			qs := "0"
			if q {
				qs = "1"
			}
			per[i] = "q" + qs + "r" + rt + "t" + tt
		}
		st := "-"
		if len(shareParts) > 0 {
			st = strings.Join(shareParts, ";")
		}
		out.tokens = []string{st, strings.Join(per, ";")}
		out.modelLine = fmt.Sprintf("I x %s %s %s %s %s", qh, sp.pol.text(), strings.Join(musParts, "|"), hexFEs(summ), subsetsText(sp.subsets))
	case 'H':
		h := ac.(*hierarchical.HierarchicalConjunctiveThreshold)
		scheme, err := tassa.NewScheme(h, ctx.f)
		if err != nil {
			out.skip = true
			return out
		}
		do, poly, err := scheme.DealAndRevealDealerFunc(tassa.NewSecret(ctx.fe(secret)), rng)
		if err != nil {
			out.skip = true
			return out
		}
		shares := map[uint64]*tassa.Share[FE]{}
		vals := map[uint64]*big.Int{}
		for id, sh := range do.Shares().Iter() {
			shares[uint64(id)] = sh
			vals[uint64(id)] = big_(sh.Value())
		}
		per := make([]string, len(sp.subsets))
		for i, s := range sp.subsets {
			var list []*tassa.Share[FE]
			ok := true
			for _, id := range s {
				sh, has := shares[id]
				if !has {
					ok = false
					break
				}
				list = append(list, sh)
			}
			rt := "E"
			var rv *big.Int
			if ok {
				var rs *tassa.Secret[FE]
				var rerr error
				if pn := vh.Safely(func() { rs, rerr = scheme.Reconstruct(list...) }); pn != "" {
					prop("tassa-reconstruct-panic", pn)
					rt = "P"
				} else if rerr == nil {
					rv = big_(rs.Value())
					rt = vh.ZHex(rv)
				}
				checkRecon("tassa", s, rv)
			}
			per[i] = "r" + rt
		}
		out.tokens = []string{fshareText(vals), strings.Join(per, ";")}
		out.modelLine = fmt.Sprintf("H x %s %s %s %s", qh, sp.pol.text()[2:], hexFEs(poly.Coefficients()), subsetsText(sp.subsets))
	}
	return out
}

func compareScheme(sp schemeSpec, impl []string, modelLine string) []vh.Mismatch {
	var out []vh.Mismatch
	caseText := sp.text()
	model := modelTokens(modelLine)
	names := []string{"shares", "subsets"}
	fam := map[byte]string{'S': "shamir", 'A': "additive", 'I': "isn", 'H': "tassa"}[sp.kind]
	add := func(key, detail string) {
		out = append(out, vh.Mismatch{ID: caseText, Kind: "corr", Key: key, Detail: detail, Case: caseText,
			What: "correspondence model <-> implementation (dedicated scheme " + fam + ")"})
	}
	if len(model) != len(impl) {
		add(fam+"-shape", fmt.Sprintf("impl %v | model %v", impl, model))
		return out
	}
	for i := range impl {
		if impl[i] == model[i] {
			continue
		}
		if names[i] == "shares" {
			add(fam+"-deal", fmt.Sprintf("impl %s | model %s", impl[i], model[i]))
			continue
		}
		is, ms := strings.Split(impl[i], ";"), strings.Split(model[i], ";")
		if len(is) != len(ms) {
			add(fam+"-subsets-shape", fmt.Sprintf("impl %s | model %s", impl[i], model[i]))
			continue
		}
		for k := range is {
			if is[k] != ms[k] {
				add(fam+"-reconstruct", fmt.Sprintf("ID list %v: impl %s | model %s", sp.subsets[k], is[k], ms[k]))
			}
		}
	}
	return out
}

func (r *runner) runSchemeSpec(sp schemeSpec) schemeOut {
	if sp.field == "bls12381" {
		return runScheme(r.bls, r.a, sp)
	}
	return runScheme(r.k256, r.a, sp)
}

func runSchemeBatch(r *runner, specs []schemeSpec) {
	var lines []string
	var outs []schemeOut
	var kept []schemeSpec
	for _, sp := range specs {
		o := r.runSchemeSpec(sp)
		fam := map[byte]string{'S': "shamir", 'A': "additive", 'I': "isn", 'H': "tassa"}[sp.kind]
		if o.skip {
			r.res.Count("scheme/"+fam+"/"+sp.field+"/refused", sp.text(), false)
			for _, m := range o.props {
				r.report(m)
			}
			continue
		}
		r.res.Count("scheme/"+fam+"/"+sp.field, sp.text(), true)
		for _, m := range o.props {
			r.report(m)
		}
		lines = append(lines, o.modelLine)
		outs = append(outs, o)
		kept = append(kept, sp)
	}
	if len(lines) == 0 {
		return
	}
	res, err := vh.Driver(r.a.Driver, lines)
	if err != nil {
		r.report(vh.Mismatch{ID: "driver", Kind: "corr", Key: "scheme-driver-failed", Detail: err.Error(), Case: kept[0].text(), What: "model driver"})
		return
	}
	for i, sp := range kept {
		for _, m := range compareScheme(sp, outs[i].tokens, res[i]) {
			m.PropFail = len(outs[i].props) > 0
			r.report(m)
		}
	}
}

func runSchemes(r *runner, qk, qb *big.Int) {
	a := r.a
	maxN := 4
	if a.Tier == "thorough" {
		maxN = 5
	}
	fields := []struct {
		name string
		q    *big.Int
	}{{"k256", qk}, {"bls12381", qb}}
	var specs []schemeSpec
	idx := 0
	add := func(kind byte, p policy, all bool) {
		f := fields[idx%2]
		rg := vh.NewRng(a.Seed, "C02", "schemecase", idx)
		h := p.holders()
		sp := schemeSpec{kind: kind, field: f.name, pol: p, secret: secretsFor(rg, f.q, idx), rngIdx: idx}
		if all || len(h) <= 5 {
			sp.subsets = allSubsets(h)
		} else {
			sp.subsets = append(sp.subsets, nil, h)
			for k := 0; k < 16; k++ {
				sp.subsets = append(sp.subsets, randomSubset(rg, h))
			}
		}
		sp.subsets = append(sp.subsets, subsetVariants(rg, h, p)...)
		specs = append(specs, sp)
		idx++
	}
	for n := 2; n <= maxN+1; n++ {
		for _, p := range enumThreshold(n) {
			for _, as := range assignmentsFor('T', n) {
				add('S', as.apply(p), true)
			}
		}
		for _, as := range assignmentsFor('U', n) {
			add('A', as.apply(policy{fam: 'U', ids: rangeIDs(1, n)}), true)
		}
	}
	if a.Tier == "thorough" {
		rs := vh.NewRng(a.Seed, "C02", "schemesample", 0)
		c5 := enumCNF(5)
		for i := 0; i < 300; i++ {
			add('I', vh.Pick(rs, c5), true)
		}
	}
	for n := 2; n <= maxN; n++ {
		if n <= 4 {
			for _, p := range enumCNF(n) {
				add('I', p, true)
				add('I', assignment{"sparse", sparseIDs}.apply(p), true)
			}
		}
		for _, p := range enumHier(n) {
			add('I', p, true)
			add('H', p, true)
			add('H', assignment{"sparse-sorted", sortedCopy(sparseIDs, n)}.apply(p), true)
			add('H', assignment{"big-sorted", sortedCopy(bigIDs, n)}.apply(p), true)
		}
		for _, p := range enumThreshold(n) {
			add('I', p, true)
		}
	}
	for _, p := range enumGate(3) {
		add('I', p, true)
	}
	runSchemeBatch(r, specs)
}

func replayScheme(r *runner, line string) {
	runSchemeBatch(r, []schemeSpec{parseSchemeSpec(line)})
}
