package main

import "math/big"

func runSchemes(r *runner, qk, qb *big.Int) {}

func replayScheme(r *runner, line string) {}
