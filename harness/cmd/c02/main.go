// c02 — correspondence harness for property C02 (exactly the qualified sets reconstruct;
// unqualified sets learn nothing).  See /verif/DESIGN.md §5 C02.
//
// For every generated policy (constructor input) the real implementation is driven through its
// public API — constructor, IsQualified, accessstructures.InducedMSP, MSP.Accepts, kw dealing,
// Reconstruct, ConvertShareToAdditive, Share.Add/ScalarMul, and the dedicated schemes — and its
// observables are rendered in the same canonical text the extracted Coq model prints
// (ocaml/c02/driver.ml).  Relation R: token-wise equality of that text (refusals compared as
// refusals; to-additive only through the SUM of the additive shares).  Independently of the
// model the property's own predicate is evaluated on the implementation.
package main

import (
	"fmt"
	"math/big"
	"os"
	"sort"
	"strings"

	"github.com/bronlabs/bron-crypto/pkg/base/algebra"
	"github.com/bronlabs/bron-crypto/pkg/base/curves/k256"
	"github.com/bronlabs/bron-crypto/pkg/base/curves/pairable/bls12381"
	"github.com/bronlabs/bron-crypto/pkg/mpc/sharing/accessstructures"
	"github.com/bronlabs/bron-crypto/pkg/mpc/sharing/accessstructures/unanimity"
	"github.com/bronlabs/bron-crypto/pkg/mpc/sharing/scheme/kw"
	"github.com/bronlabs/bron-crypto/pkg/mpc/sharing/scheme/kw/msp"

	"verif/harness/internal/vh"
)

// ---- field helpers ------------------------------------------------------------------------------

type fieldCtx[FE algebra.PrimeFieldElement[FE]] struct {
	name string
	f    algebra.PrimeField[FE]
	q    *big.Int
}

func newCtx[FE algebra.PrimeFieldElement[FE]](name string, f algebra.PrimeField[FE]) *fieldCtx[FE] {
	return &fieldCtx[FE]{name: name, f: f, q: f.Order().Big()}
}

func (c *fieldCtx[FE]) fe(x *big.Int) FE {
	y := new(big.Int).Mod(x, c.q)
	b := make([]byte, 64)
	y.FillBytes(b)
	e, err := c.f.FromBytesBEReduce(b)
	if err != nil {
		panic(err)
	}
	return e
}

func big_(e interface{ BytesBE() []byte }) *big.Int { return new(big.Int).SetBytes(e.BytesBE()) }

func hexFE(e interface{ BytesBE() []byte }) string { return vh.ZHex(big_(e)) }

func hexFEs[FE algebra.PrimeFieldElement[FE]](es []FE) string {
	if len(es) == 0 {
		return "-"
	}
	p := make([]string, len(es))
	for i, e := range es {
		p[i] = hexFE(e)
	}
	return strings.Join(p, ",")
}

// ---- one KW case -------------------------------------------------------------------------------------

// caseSpec is the replayable description of one case: field, constructor input, secrets,
// scalar, ID lists, and the index of the random stream the dealer reads.
type caseSpec struct {
	field   string
	pol     policy
	s1, s2  *big.Int
	c       *big.Int
	subsets [][]uint64
	rngIdx  int
}

func subsetsText(ss [][]uint64) string {
	if len(ss) == 0 {
		return "-"
	}
	p := make([]string, len(ss))
	for i, s := range ss {
		p[i] = setText(s)
	}
	return strings.Join(p, ";")
}

func (cs caseSpec) text() string {
	return fmt.Sprintf("K %s %s %s %s %s %s %d", cs.field, cs.pol.text(), vh.ZHex(cs.s1), vh.ZHex(cs.s2), vh.ZHex(cs.c), subsetsText(cs.subsets), cs.rngIdx)
}

func parseCase(s string) caseSpec {
	f := strings.Split(strings.TrimSpace(s), " ")
	cs := caseSpec{field: f[1], pol: parsePolicy(f[2]), s1: vh.UnZHex(f[3]), s2: vh.UnZHex(f[4]), c: vh.UnZHex(f[5])}
	if f[6] != "-" {
		for _, x := range strings.Split(f[6], ";") {
			cs.subsets = append(cs.subsets, parseIDs(x))
		}
	}
	fmt.Sscanf(f[7], "%d", &cs.rngIdx)
	return cs
}

// outcome of driving the implementation on one case
type implOut struct {
	modelLine string   // the K line for the model driver (needs the dealer's random columns)
	tokens    []string // implementation observables, same layout as the model's output
	props     []vh.Mismatch
	trivial   bool
}

func sharesText[FE algebra.PrimeFieldElement[FE]](m map[uint64]*kw.Share[FE]) string {
	if len(m) == 0 {
		return "-"
	}
	ids := make([]uint64, 0, len(m))
	for id := range m {
		ids = append(ids, id)
	}
	sort.Slice(ids, func(i, j int) bool { return ids[i] < ids[j] })
	p := make([]string, len(ids))
	for i, id := range ids {
		p[i] = fmt.Sprintf("%d=%s", id, hexFEs(m[id].Value()))
	}
	return strings.Join(p, ";")
}

func hasGT64(p policy) bool { return p.maxID() > 64 }

func distinctIDs(s []uint64) bool {
	m := map[uint64]bool{}
	for _, x := range s {
		if m[x] {
			return false
		}
		m[x] = true
	}
	return true
}

func subsetOf(s, h []uint64) bool {
	m := map[uint64]bool{}
	for _, x := range h {
		m[x] = true
	}
	for _, x := range s {
		if !m[x] {
			return false
		}
	}
	return true
}

func runKW[FE algebra.PrimeFieldElement[FE]](ctx *fieldCtx[FE], a vh.Args, cs caseSpec) implOut {
	var out implOut
	caseText := cs.text()
	prop := func(key, detail string) {
		out.props = append(out.props, vh.Mismatch{ID: caseText, Kind: "prop", Key: key, Detail: detail, Case: caseText, PropFail: true,
			What: "C02 property predicate on the implementation"})
	}
	qh := vh.ZHex(ctx.q)
	line := func(r1, r2 string) string {
		return fmt.Sprintf("K x %s %s %s %s %s %s", qh, cs.pol.text(), r1, r2, vh.ZHex(new(big.Int).Mod(cs.c, ctx.q)), subsetsText(cs.subsets))
	}
	// constructor
	var ac accessstructures.Monotone
	var err error
	if pn := vh.Safely(func() { ac, err = cs.pol.build() }); pn != "" {
		out.tokens = []string{"panic"}
		out.modelLine = line("-", "-")
		prop("constructor-panic-"+string(cs.pol.fam), "constructor panicked: "+pn)
		return out
	}
	if err != nil {
		out.tokens = []string{"refuse"}
		out.modelLine = line("-", "-")
		out.trivial = true
		return out
	}
	holders := cs.pol.holders()
	// IsQualified on every ID list (+ independent evaluation for sets of holders)
	quals := make([]bool, len(cs.subsets))
	for i, s := range cs.subsets {
		s := s
		if pn := vh.Safely(func() { quals[i] = ac.IsQualified(toIDs(s)...) }); pn != "" {
			prop("isqualified-panic", pn)
		}
		if distinctIDs(s) && subsetOf(s, holders) {
			if want := cs.pol.qualified(s); want != quals[i] {
				prop("isqualified-"+string(cs.pol.fam), fmt.Sprintf("IsQualified(%v)=%v, independent evaluation of the policy says %v", s, quals[i], want))
			}
		}
	}
	// induced MSP
	var m *msp.MSP[FE]
	pn := vh.Safely(func() { m, err = accessstructures.InducedMSP(ctx.f, ac) })
	if pn != "" {
		out.modelLine = line("-", "-")
		key := "inducedmsp-panic-" + string(cs.pol.fam)
		if cs.pol.fam == 'N' && hasGT64(cs.pol) {
			key = "cnf-id-gt-64"
		}
		out.tokens = []string{"ok", "panic"}
		prop(key, "InducedMSP panicked: "+pn)
		return out
	}
	qtok := func(i int) string {
		if quals[i] {
			return "q1"
		}
		return "q0"
	}
	if err != nil {
		per := make([]string, len(cs.subsets))
		for i := range cs.subsets {
			per[i] = qtok(i)
		}
		out.tokens = []string{"ok", "refuse", strings.Join(per, ";")}
		out.modelLine = line("-", "-")
		return out
	}
	rows, cols := m.Matrix().Dimensions()
	labs := make([]uint64, rows)
	var entries []FE
	for i := 0; i < rows; i++ {
		id, _ := m.RowsToHolders().Get(i)
		labs[i] = uint64(id)
		for j := 0; j < cols; j++ {
			e, _ := m.Matrix().Get(i, j)
			entries = append(entries, e)
		}
	}
	mspTok := fmt.Sprintf("%dx%d:%s:%s", rows, cols, idsText(labs), hexFEs(entries))
	mspHolders := uniqSorted(labs)
	if d := checkCanonical(ctx, a, cs, ac, mspTok); d != "" {
		prop("cnf-induced-msp-not-canonical", d)
	}

	// dealing (two secrets) with the dealer's randomness read from the seeded stream
	scheme, _ := kw.NewInducedScheme(m)
	deal := func(secret *big.Int, stream string) (map[uint64]*kw.Share[FE], string, string) {
		var do *kw.DealerOutput[FE]
		var df *kw.DealerFunc[FE]
		var derr error
		rng := vh.NewRng(a.Seed, "C02", stream, cs.rngIdx)
		if pn := vh.Safely(func() { do, df, derr = scheme.DealAndRevealDealerFunc(kw.NewSecret(ctx.fe(secret)), rng) }); pn != "" {
			prop("deal-panic", pn)
			return nil, "panic", "-"
		}
		if derr != nil {
			return nil, "refuse", "-"
		}
		shares := map[uint64]*kw.Share[FE]{}
		for id, sh := range do.Shares().Iter() {
			shares[uint64(id)] = sh
		}
		var r []FE
		rc := df.RandomColumn()
		n, _ := rc.Dimensions()
		for i := 0; i < n; i++ {
			e, _ := rc.Get(i, 0)
			r = append(r, e)
		}
		if len(r) > 0 && big_(r[0]).Cmp(new(big.Int).Mod(secret, ctx.q)) != 0 {
			prop("deal-secret-not-r0", "random column r[0] differs from the secret")
		}
		return shares, sharesText(shares), hexFEs(r)
	}
	sh1, d1tok, r1 := deal(cs.s1, "deal1")
	sh2, d2tok, r2 := deal(cs.s2, "deal2")
	out.modelLine = line(r1, r2)

	// linearity of shares
	lin := "-"
	cfe := ctx.fe(cs.c)
	var added, scaled map[uint64]*kw.Share[FE]
	if sh1 != nil && sh2 != nil {
		added, scaled = map[uint64]*kw.Share[FE]{}, map[uint64]*kw.Share[FE]{}
		if pn := vh.Safely(func() {
			for id, s := range sh1 {
				added[id] = s.Add(sh2[id])
				scaled[id] = s.ScalarMul(cfe)
			}
		}); pn != "" {
			prop("share-op-panic", pn)
			lin = "panic"
		} else {
			lin = "add:" + sharesText(added) + "|scale:" + sharesText(scaled)
		}
	}

	secret1 := new(big.Int).Mod(cs.s1, ctx.q)
	reconstructOf := func(shares map[uint64]*kw.Share[FE], s []uint64) (string, *big.Int) {
		var list []*kw.Share[FE]
		for _, id := range s {
			sh, ok := shares[id]
			if !ok {
				return "E", nil
			}
			list = append(list, sh)
		}
		var sec *kw.Secret[FE]
		var rerr error
		if pn := vh.Safely(func() { sec, rerr = scheme.Reconstruct(list...) }); pn != "" {
			prop("reconstruct-panic", pn)
			return "P", nil
		}
		if rerr != nil {
			return "E", nil
		}
		v := big_(sec.Value())
		return vh.ZHex(v), v
	}

	per := make([]string, len(cs.subsets))
	for i, s := range cs.subsets {
		s := s
		acc := false
		if pn := vh.Safely(func() { acc = m.Accepts(toIDs(s)...) }); pn != "" {
			prop("accepts-panic", pn)
		}
		can := false
		vh.Safely(func() { can = scheme.CanReconstruct(toIDs(s)...) })
		if can != acc {
			prop("canreconstruct-vs-accepts", fmt.Sprintf("CanReconstruct(%v)=%v Accepts=%v", s, can, acc))
		}
		isSet := distinctIDs(s) && subsetOf(s, holders)
		if isSet && acc != quals[i] {
			key := "accepts-vs-isqualified-" + string(cs.pol.fam)
			if cs.pol.fam == 'N' && quals[i] && !acc && !subsetOf(s, mspHolders) {
				key = "cnf-holder-without-rows" // a CNF shareholder that is in every maximal unqualified set owns no MSP row
			}
			prop(key, fmt.Sprintf("set %v: IsQualified=%v but MSP.Accepts=%v", s, quals[i], acc))
		}
		tok := qtok(i)
		if acc {
			tok += "a1"
		} else {
			tok += "a0"
		}
		if sh1 != nil {
			rt, rv := reconstructOf(sh1, s)
			if isSet && subsetOf(s, mspHolders) {
				if quals[i] && (rv == nil || rv.Cmp(secret1) != 0) {
					prop("reconstruct-qualified-"+string(cs.pol.fam), fmt.Sprintf("qualified set %v: Reconstruct gives %s, dealt secret %s", s, rt, vh.ZHex(secret1)))
				}
				if !quals[i] && rv != nil {
					prop("reconstruct-unqualified-"+string(cs.pol.fam), fmt.Sprintf("unqualified set %v: Reconstruct succeeded with %s", s, rt))
				}
			}
			tok += "r" + rt
			// to-additive over the quorum s
			tt := "-"
			var quorum *unanimity.Unanimity
			var qerr error
			vh.Safely(func() { quorum, qerr = unanimity.NewUnanimityAccessStructure(idSet(s)) })
			if qerr == nil && quorum != nil {
				sum := new(big.Int)
				tt = ""
				for _, id := range uniqSorted(s) {
					sh, ok := sh1[id]
					if !ok {
						tt = "E"
						break
					}
					var conv interface{ Value() FE }
					var cerr error
					if pn := vh.Safely(func() {
						x, e := scheme.ConvertShareToAdditive(sh, quorum)
						cerr = e
						if e == nil {
							conv = x
						}
					}); pn != "" {
						prop("toadditive-panic", pn)
						tt = "P"
						break
					}
					if cerr != nil {
						tt = "E"
						break
					}
					sum.Add(sum, big_(conv.Value()))
				}
				if tt == "" {
					sum.Mod(sum, ctx.q)
					tt = vh.ZHex(sum)
					if sum.Cmp(secret1) != 0 {
						prop("toadditive-sum", fmt.Sprintf("quorum %v: additive shares sum to %s, secret %s", s, tt, vh.ZHex(secret1)))
					}
				} else if tt == "E" && isSet && subsetOf(s, mspHolders) && quals[i] {
					prop("toadditive-qualified-refused", fmt.Sprintf("qualified quorum %v: ConvertShareToAdditive refused", s))
				}
			}
			tok += "t" + tt
		}
		per[i] = tok
	}
	// linear property on the implementation: reconstruct over all MSP holders
	if added != nil && lin != "panic" {
		all := mspHolders
		if m.Accepts(toIDs(all)...) {
			_, v := reconstructOf(added, all)
			want := new(big.Int).Add(cs.s1, cs.s2)
			want.Mod(want, ctx.q)
			if v == nil || v.Cmp(want) != 0 {
				prop("share-add", "Reconstruct(Add(shares1, shares2)) != s1+s2")
			}
			_, v = reconstructOf(scaled, all)
			want = new(big.Int).Mul(cs.s1, cs.c)
			want.Mod(want, ctx.q)
			if v == nil || v.Cmp(want) != 0 {
				prop("share-scalarmul", "Reconstruct(ScalarMul(shares1, c)) != c*s1")
			}
		}
	}
	out.tokens = []string{"ok", mspTok, d1tok, d2tok, lin, strings.Join(per, ";")}
	return out
}

// parse the model's output line into the same token layout
func modelTokens(line string) []string {
	f := strings.SplitN(line, " ", 3)
	if len(f) < 3 {
		return []string{line}
	}
	parts := strings.Split(f[2], " | ")
	for i := range parts {
		parts[i] = strings.TrimSpace(parts[i])
	}
	return parts
}

var tokenNames = []string{"constructor", "induced-msp", "deal", "deal2", "share-linear", "subsets"}

// compare implementation and model tokens; returns corr mismatches
func compareTokens(cs caseSpec, impl, model []string) []vh.Mismatch {
	var out []vh.Mismatch
	caseText := cs.text()
	add := func(key, detail string) {
		out = append(out, vh.Mismatch{ID: caseText, Kind: "corr", Key: key, Detail: detail, Case: caseText,
			What: "correspondence model <-> implementation (C02 theorems are about the model)"})
	}
	if len(impl) > 1 && impl[1] == "panic" || impl[0] == "panic" {
		return nil // reported as prop
	}
	n := len(impl)
	if len(model) != n {
		add("shape-"+string(cs.pol.fam), fmt.Sprintf("impl %v | model %v", impl, model))
		return out
	}
	for i := 0; i < n; i++ {
		if impl[i] == model[i] {
			continue
		}
		name := tokenNames[i]
		if i == 2 && len(impl) == 3 {
			name = "subsets"
		}
		if name != "subsets" {
			add(name+"-"+string(cs.pol.fam), fmt.Sprintf("impl %s | model %s", impl[i], model[i]))
			continue
		}
		is, ms := strings.Split(impl[i], ";"), strings.Split(model[i], ";")
		if len(is) != len(ms) {
			add("subsets-shape", fmt.Sprintf("impl %s | model %s", impl[i], model[i]))
			continue
		}
		for k := range is {
			if is[k] != ms[k] {
				key := "subset-observable"
				switch {
				case is[k][:2] != ms[k][:2]:
					key = "isqualified-" + string(cs.pol.fam)
				case len(is[k]) >= 4 && len(ms[k]) >= 4 && is[k][:4] != ms[k][:4]:
					key = "accepts-" + string(cs.pol.fam)
				case strings.Split(is[k], "t")[0] != strings.Split(ms[k], "t")[0]:
					key = "reconstruct-" + string(cs.pol.fam)
				default:
					key = "toadditive-" + string(cs.pol.fam)
				}
				add(key, fmt.Sprintf("ID list %v: impl %s | model %s", cs.subsets[k], is[k], ms[k]))
			}
		}
	}
	return out
}

// ---- driver ---------------------------------------------------------------------------------------------

type runner struct {
	perKey map[string]int
	a      vh.Args
	res    *vh.Result
	k256   *fieldCtx[*k256.Scalar]
	bls    *fieldCtx[*bls12381.Scalar]
	specs  []caseSpec
	impls  []implOut
	lines  []string
	lineOf []int
}

// report forwards at most 5 mismatches per (kind, key): vh.Result keeps 200 in total and one
// frequent key must not crowd out the others.
func (r *runner) report(m vh.Mismatch) {
	if r.perKey == nil {
		r.perKey = map[string]int{}
	}
	k := m.Kind + "/" + m.Key
	r.perKey[k]++
	if r.perKey[k] <= 5 {
		r.res.Mismatch(m)
	}
}

func (r *runner) runSpec(cs caseSpec) implOut {
	if cs.field == "bls12381" {
		return runKW(r.bls, r.a, cs)
	}
	return runKW(r.k256, r.a, cs)
}

func (r *runner) add(cs caseSpec) {
	out := r.runSpec(cs)
	r.specs = append(r.specs, cs)
	r.impls = append(r.impls, out)
	r.lines = append(r.lines, out.modelLine)
	class := "kw/" + string(cs.pol.fam) + "/" + cs.field
	if out.trivial {
		class += "/refused"
	}
	r.res.Count(class, cs.text(), !out.trivial)
	for _, m := range out.props {
		r.report(m)
	}
}

func (r *runner) finish() error {
	if len(r.lines) == 0 {
		return nil
	}
	outs, err := vh.Driver(r.a.Driver, r.lines)
	if err != nil {
		return err
	}
	for i, cs := range r.specs {
		for _, m := range compareTokens(cs, r.impls[i].tokens, modelTokens(outs[i])) {
			// the property's own predicate already ran on the implementation for this case
			m.PropFail = len(r.impls[i].props) > 0
			r.report(m)
		}
	}
	return nil
}

func secretsFor(r *vh.Rng, q *big.Int, i int) *big.Int {
	switch i % 4 {
	case 0:
		return big.NewInt(0)
	case 1:
		return big.NewInt(1)
	case 2:
		return new(big.Int).Sub(q, big.NewInt(1))
	default:
		return r.BigBelow(q)
	}
}

func main() {
	a := vh.ParseArgs()
	res := vh.NewResult("C02", a.Seed, a.Tier)
	r := &runner{a: a, res: res,
		k256: newCtx[*k256.Scalar]("k256", k256.NewScalarField()),
		bls:  newCtx[*bls12381.Scalar]("bls12381", bls12381.NewScalarField())}
	fields := []struct {
		name string
		q    *big.Int
	}{{"k256", r.k256.q}, {"bls12381", r.bls.q}}

	if a.Replay != "" {
		b, err := os.ReadFile(a.Replay)
		if err != nil {
			fmt.Fprintln(os.Stderr, err)
			os.Exit(2)
		}
		for _, l := range strings.Split(string(b), "\n") {
			if strings.HasPrefix(l, "case: ") {
				l = strings.TrimPrefix(l, "case: ")
				if strings.HasPrefix(l, "K ") {
					r.add(parseCase(l))
				} else {
					replayScheme(r, l)
				}
			}
		}
		if err := r.finish(); err != nil {
			fmt.Fprintln(os.Stderr, err)
			os.Exit(2)
		}
		res.Rule = "replay of one stored case"
		res.Write(a.Out)
		return
	}

	maxN := 4
	nRandom := 120
	if a.Tier == "thorough" {
		nRandom = 800
	}
	if a.Search {
		nRandom *= 6
	}
	idx := 0
	if !a.Search {
		var pols []policy
		for n := 2; n <= maxN; n++ {
			pols = append(pols, enumThreshold(n)...)
			pols = append(pols, policy{fam: 'U', ids: rangeIDs(1, n)})
			pols = append(pols, enumCNF(n)...)
			pols = append(pols, enumHier(n)...)
			pols = append(pols, enumGate(n)...)
		}
		if a.Tier == "thorough" {
			// 5 and 6 holders: threshold/unanimity/hierarchical exhaustively, CNF and gate trees sampled
			rs := vh.NewRng(a.Seed, "C02", "sample56", 0)
			for n := 5; n <= 6; n++ {
				pols = append(pols, enumThreshold(n)...)
				pols = append(pols, policy{fam: 'U', ids: rangeIDs(1, n)})
				pols = append(pols, enumHier(n)...)
			}
			c5, g5, g6 := enumCNF(5), enumGate(5), enumGate(6)
			for i := 0; i < 400; i++ {
				pols = append(pols, vh.Pick(rs, c5), vh.Pick(rs, g5))
			}
			for i := 0; i < 150; i++ {
				pols = append(pols, vh.Pick(rs, g6))
			}
		}
		for pi, p := range pols {
			n := len(p.holders())
			for ai, as := range assignmentsFor(p.fam, n) {
				fi := (pi + ai) % 2
				if a.Tier == "thorough" {
					fi = -1
				}
				for k, f := range fields {
					if fi >= 0 && k != fi && !(as.name == "ordinal" && n <= 3) {
						continue
					}
					rg := vh.NewRng(a.Seed, "C02", "case", idx)
					pp := as.apply(p)
					h := pp.holders()
					cs := caseSpec{field: f.name, pol: pp, s1: secretsFor(rg, f.q, idx), s2: rg.BigBelow(f.q), c: rg.BigBelow(f.q), rngIdx: idx}
					cs.subsets = allSubsets(h)
					cs.subsets = append(cs.subsets, subsetVariants(rg, h, pp)...)
					r.add(cs)
					idx++
				}
			}
		}
		for _, p := range refusalPolicies() {
			for k, f := range fields {
				rg := vh.NewRng(a.Seed, "C02", "case", idx)
				h := p.holders()
				cs := caseSpec{field: f.name, pol: p, s1: secretsFor(rg, f.q, idx+k), s2: rg.BigBelow(f.q), c: rg.BigBelow(f.q), rngIdx: idx}
				cs.subsets = allSubsets(h)
				cs.subsets = append(cs.subsets, subsetVariants(rg, h, p)...)
				r.add(cs)
				idx++
			}
		}
	}
	// random larger policies
	for i := 0; i < nRandom; i++ {
		stream := "random"
		if a.Search {
			stream = "search"
		}
		rg := vh.NewRng(a.Seed, "C02", stream, i)
		p := randPolicy(rg, 12)
		f := fields[i%2]
		h := p.holders()
		cs := caseSpec{field: f.name, pol: p, s1: secretsFor(rg, f.q, i), s2: rg.BigBelow(f.q), c: rg.BigBelow(f.q), rngIdx: 100000 + i}
		if len(h) <= 5 {
			cs.subsets = allSubsets(h)
		} else {
			cs.subsets = append(cs.subsets, nil, h)
			for k := 0; k < 24; k++ {
				cs.subsets = append(cs.subsets, randomSubset(rg, h))
			}
		}
		cs.subsets = append(cs.subsets, subsetVariants(rg, h, p)...)
		r.add(cs)
	}
	if err := r.finish(); err != nil {
		fmt.Fprintln(os.Stderr, err)
		os.Exit(2)
	}
	runSchemes(r, fields[0].q, fields[1].q)
	res.Rule = "KW/MSP: every threshold, unanimity, antichain-CNF, hierarchical layout and gate tree (gates >= 2 children) on <= " +
		fmt.Sprint(maxN) + " holders x ID assignments (ordinal, sparse unsorted <= 64, >= 2^40 incl. 2^64-1, CNF also 65..300; hierarchical also sorted) x all subsets + permuted/repeated/stranger ID lists, constructor refusals, " +
		"(thorough: both fields everywhere, 5-6 holders: threshold/unanimity/hierarchical exhaustive, 400 sampled 5-holder CNFs, 550 sampled 5/6-leaf gate trees); random policies up to 12 holders (un-normalised CNF input, gate trees with repeated leaves / non-ideal MSPs); secrets 0,1,q-1,random; fields k256 Fq and BLS12-381 Fr; " +
		"canonicity of cnf.InducedMSP under permuted clause lists and ConvertToCNF; dedicated schemes Shamir/additive/ISN/Tassa on the same policy families. A case is non-trivial when the constructor accepts the policy."
	res.Write(a.Out)
}
