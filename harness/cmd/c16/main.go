// c16 — correspondence harness for property C16 (Paillier and ElGamal encryption:
// decryption inverts encryption, homomorphisms exact, secret-key path = public path =
// textbook formula).  See /verif/DESIGN.md §5 C16.
//
// Every case is one text line that is evaluated three ways:
//   - by the real implementation through its public API (runLine),
//   - by the extracted Coq model (driver),
//   - by an independent math/big oracle (textbook formulas, lambda/mu decryption).
// model != implementation is a "corr" mismatch, implementation != oracle is a failure
// of the property itself (PropFail).
package main

import (
	"bufio"
	"crypto/rand"
	"fmt"
	"math/big"
	"os"
	"path/filepath"
	"sort"
	"strconv"
	"strings"
	"time"

	"github.com/bronlabs/bron-crypto/pkg/base/algebra"
	"github.com/bronlabs/bron-crypto/pkg/base/curves/edwards25519"
	"github.com/bronlabs/bron-crypto/pkg/base/curves/k256"
	"github.com/bronlabs/bron-crypto/pkg/base/curves/p256"
	"github.com/bronlabs/bron-crypto/pkg/base/curves/pairable/bls12381"
	"github.com/bronlabs/bron-crypto/pkg/base/ct"
	"github.com/bronlabs/bron-crypto/pkg/base/nt/crt"
	"github.com/bronlabs/bron-crypto/pkg/base/nt/modular"
	"github.com/bronlabs/bron-crypto/pkg/base/nt/num"
	"github.com/bronlabs/bron-crypto/pkg/base/nt/numct"
	"github.com/bronlabs/bron-crypto/pkg/base/nt/znstar"
	"github.com/bronlabs/bron-crypto/pkg/encryption"
	"github.com/bronlabs/bron-crypto/pkg/encryption/elgamal"
	"github.com/bronlabs/bron-crypto/pkg/encryption/paillier"

	"verif/harness/internal/vh"
)

var (
	one = big.NewInt(1)
	two = big.NewInt(2)
)

func zh(x *big.Int) string   { return vh.ZHex(x) }
func uz(s string) *big.Int   { return vh.UnZHex(s) }
func bmod(x, n *big.Int) *big.Int { return new(big.Int).Mod(x, n) }

// ---------------------------------------------------------------------------------------
// Paillier keys
// ---------------------------------------------------------------------------------------

type pkey struct {
	caller  bool // primes supplied by the caller, not by the library's generators
	flavour string
	bits    int
	p, q    *big.Int
	N, N2   *big.Int
	nplus   *num.NatPlus
	group   *znstar.PaillierGroupKnownOrder
	sk      *paillier.SecretKey
	pk      *paillier.PublicKey
	lambda  *big.Int // lcm(p-1,q-1), oracle only
	mu      *big.Int // lambda^-1 mod N, oracle only
	ninvl   *big.Int // N^-1 mod lambda, oracle only
}

var keyCache = map[string]*pkey{}

func natPlus(x *big.Int) *num.NatPlus {
	v, err := num.NPlus().FromBig(x)
	if err != nil {
		panic(fmt.Sprintf("NatPlus %s: %v", zh(x), err))
	}
	return v
}

// buildKey constructs the implementation key objects from the prime factors through the
// public constructors (NewPaillierGroup, New[Legacy]SecretKey, NewPaillierGroupOfUnknownOrder,
// New[Legacy]PublicKey).
func buildKey(flavour string, p, q *big.Int) (*pkey, error) {
	id := zh(p) + "/" + zh(q)
	if k, ok := keyCache[id]; ok {
		return k, nil
	}
	k := &pkey{flavour: flavour, p: p, q: q}
	k.N = new(big.Int).Mul(p, q)
	k.N2 = new(big.Int).Mul(k.N, k.N)
	k.bits = k.N.BitLen()
	var err error
	k.group, err = znstar.NewPaillierGroup(natPlus(p), natPlus(q))
	if err != nil {
		return nil, err
	}
	if k.bits >= 3072 {
		k.sk, err = paillier.NewSecretKey(k.group)
	} else {
		k.sk, err = paillier.NewLegacySecretKey(k.group)
	}
	if err != nil {
		return nil, err
	}
	k.nplus = natPlus(k.N)
	ug, err := znstar.NewPaillierGroupOfUnknownOrder(natPlus(k.N2), k.nplus)
	if err != nil {
		return nil, err
	}
	if k.bits >= 3072 {
		k.pk, err = paillier.NewPublicKey(ug)
	} else {
		k.pk, err = paillier.NewLegacyPublicKey(ug)
	}
	if err != nil {
		return nil, err
	}
	p1 := new(big.Int).Sub(p, one)
	q1 := new(big.Int).Sub(q, one)
	g := new(big.Int).GCD(nil, nil, p1, q1)
	k.lambda = new(big.Int).Div(new(big.Int).Mul(p1, q1), g)
	k.mu = new(big.Int).ModInverse(k.lambda, k.N)
	k.ninvl = new(big.Int).ModInverse(k.N, k.lambda)
	if k.mu == nil || k.ninvl == nil {
		return nil, fmt.Errorf("gcd(N, lambda) != 1")
	}
	keyCache[id] = k
	return k, nil
}

func verifRoot() string {
	if r := os.Getenv("VERIF_ROOT"); r != "" {
		return r
	}
	return "/verif"
}

type keySpec struct {
	flavour string
	bits    int
}

// loadKeys reads corpus/c16/keys.txt ("flavour bits p q", hex; test keys, no secrecy)
// and generates (with the library's own generators) and appends whatever is missing.
func loadKeys(want []keySpec, res *vh.Result) []*pkey {
	path := filepath.Join(verifRoot(), "corpus", "c16", "keys.txt")
	type ent struct{ p, q *big.Int }
	have := map[keySpec]ent{}
	var order []string
	if f, err := os.Open(path); err == nil {
		sc := bufio.NewScanner(f)
		sc.Buffer(make([]byte, 1<<20), 1<<24)
		for sc.Scan() {
			line := strings.TrimSpace(sc.Text())
			order = append(order, line)
			f := strings.Fields(line)
			if len(f) != 4 || strings.HasPrefix(line, "#") {
				continue
			}
			b, _ := strconv.Atoi(f[1])
			p, ok1 := new(big.Int).SetString(f[2], 16)
			q, ok2 := new(big.Int).SetString(f[3], 16)
			if ok1 && ok2 {
				have[keySpec{f[0], b}] = ent{p, q}
			}
		}
		f.Close()
	}
	var out []*pkey
	dirty := false
	for _, w := range want {
		base := keySpec{strings.TrimSuffix(w.flavour, "-swap"), w.bits}
		swapped := base != w
		e, ok := have[base]
		if !ok && callerSupplied(base.flavour) {
			// primes chosen by the caller (not by the library's generators): found once with
			// math/big from a fixed stream and stored
			e.p, e.q = callerPrimes(base.flavour)
			ok = true
			have[base] = e
			order = append(order, fmt.Sprintf("%s %d %s %s", base.flavour, base.bits, zh(e.p), zh(e.q)))
			dirty = true
			res.Note("constructed missing caller-supplied %s key into %s", base.flavour, path)
		}
		if ok && swapped {
			e = ent{e.q, e.p}
		}
		if !ok {
			var g *znstar.PaillierGroupKnownOrder
			var err error
			switch w.flavour {
			case "general":
				g, err = znstar.SamplePaillierGroup(uint(w.bits), rand.Reader)
			case "blum":
				g, err = znstar.SamplePaillierBlumGroup(uint(w.bits), rand.Reader)
			case "safe":
				g, err = znstar.SampleSafePaillierGroup(uint(w.bits), rand.Reader)
			}
			if err != nil {
				panic(fmt.Sprintf("cannot generate %s %d key: %v", w.flavour, w.bits, err))
			}
			a := g.Arithmetic()
			e = ent{a.P.Factor.Nat().Big(), a.Q.Factor.Nat().Big()}
			order = append(order, fmt.Sprintf("%s %d %s %s", w.flavour, w.bits, zh(e.p), zh(e.q)))
			dirty = true
			res.Note("generated missing %s %d-bit Paillier key into %s", w.flavour, w.bits, path)
		}
		if base.flavour == "hilow1024" { // below the floor: only used for the refusal case
			n := new(big.Int).Mul(e.p, e.q)
			out = append(out, &pkey{flavour: w.flavour, p: e.p, q: e.q, N: n, bits: n.BitLen()})
			continue
		}
		k, err := buildKey(w.flavour, e.p, e.q)
		if err != nil {
			panic(fmt.Sprintf("stored %s %d key rejected by the library: %v", w.flavour, w.bits, err))
		}
		k.caller = callerSupplied(base.flavour)
		out = append(out, k)
	}
	if dirty {
		os.MkdirAll(filepath.Dir(path), 0o755)
		os.WriteFile(path, []byte(strings.Join(order, "\n")+"\n"), 0o644)
	}
	return out
}

// caller-supplied prime pairs: admissible for NewPaillierGroup + New(Legacy)SecretKey but outside
// what the library's own generators produce (which keep both primes above sqrt(2)*2^(k-1)).
func callerSupplied(flavour string) bool {
	switch flavour {
	case "unbal", "sqrt2", "lowlow", "hilow", "hilow1024":
		return true
	}
	return false
}

func nextPrime(x *big.Int) *big.Int {
	c := new(big.Int).Set(x)
	if c.Bit(0) == 0 {
		c.Add(c, one)
	}
	for !c.ProbablyPrime(32) {
		c.Add(c, two)
	}
	return c
}

func callerPrimes(flavour string) (p, q *big.Int) {
	r := vh.NewRng(0, "C16", "caller-primes/"+flavour, 0)
	pow2 := func(e uint) *big.Int { return new(big.Int).Lsh(one, e) }
	small := func() *big.Int { return r.BigBits(64) }
	scale := func(num, den int64, e uint) *big.Int { // num/den * 2^e
		x := new(big.Int).Mul(big.NewInt(num), pow2(e))
		return x.Div(x, big.NewInt(den))
	}
	switch flavour {
	case "unbal": // p ~ 1.99 * 2^1023, q ~ 1.40 * 2^1023 < sqrt(2) * 2^1023 <= p ; N has 2048 bits
		p = nextPrime(new(big.Int).Add(scale(199, 100, 1023), small()))
		q = nextPrime(new(big.Int).Add(scale(140, 100, 1023), small()))
	case "sqrt2": // either side of sqrt(2) * 2^1023, N barely 2048 bits
		sq := new(big.Int).Sqrt(pow2(2047))
		p = nextPrime(new(big.Int).Add(sq, pow2(1000)))
		q = nextPrime(new(big.Int).Sub(sq, pow2(999)))
	case "lowlow": // both just above 2^1024 (1025-bit primes), N barely 2049 bits
		p = nextPrime(new(big.Int).Add(pow2(1024), small()))
		q = nextPrime(new(big.Int).Add(pow2(1024), new(big.Int).Lsh(small(), 3)))
	case "hilow": // just below 2^1025 and just above 2^1024
		p = nextPrime(new(big.Int).Sub(pow2(1025), pow2(1000)))
		q = nextPrime(new(big.Int).Add(pow2(1024), small()))
	case "hilow1024": // just below 2^1024 and just above 2^1023: N has only 2047 bits (refused by the floor)
		p = nextPrime(new(big.Int).Sub(pow2(1024), pow2(1000)))
		q = nextPrime(new(big.Int).Add(pow2(1023), small()))
	default:
		panic("callerPrimes " + flavour)
	}
	return p, q
}

// ---------------------------------------------------------------------------------------
// math/big oracle (textbook Paillier)
// ---------------------------------------------------------------------------------------

// textbook c = (1+N)^m r^N mod N^2
func (k *pkey) textbook(m, r *big.Int) *big.Int {
	g := new(big.Int).Add(k.N, one)
	a := new(big.Int).Exp(g, bmod(m, k.N), k.N2)
	b := new(big.Int).Exp(r, k.N, k.N2)
	return a.Mul(a, b).Mod(a, k.N2)
}

// textbook decryption m = L(c^lambda mod N^2) * mu mod N
func (k *pkey) oracleDecrypt(c *big.Int) *big.Int {
	x := new(big.Int).Exp(c, k.lambda, k.N2)
	x.Sub(x, one).Div(x, k.N)
	return x.Mul(x, k.mu).Mod(x, k.N)
}

// r = (c (1+N)^-m)^(N^-1 mod lambda) mod N
func (k *pkey) oracleNonce(c, m *big.Int) *big.Int {
	g := new(big.Int).Add(k.N, one)
	gm := new(big.Int).Exp(g, m, k.N2)
	gm.ModInverse(gm, k.N2)
	y := gm.Mul(gm, c).Mod(gm, k.N)
	return y.Exp(y, k.ninvl, k.N)
}

// symmetric-range residue: x in [-N/2, N/2) -> x mod N ; nil when out of range
func (k *pkey) residue(x *big.Int) *big.Int {
	if x.Sign() >= 0 && x.Cmp(k.N) < 0 {
		return new(big.Int).Set(x)
	}
	if x.Sign() < 0 {
		d := new(big.Int).Lsh(x, 1)
		if d.Cmp(new(big.Int).Neg(k.N)) >= 0 {
			return bmod(x, k.N)
		}
	}
	return nil
}

// ---------------------------------------------------------------------------------------
// Paillier register machine
// ---------------------------------------------------------------------------------------

type pop struct {
	k       byte
	i, j, l int
	a, b    *big.Int
	m       *big.Int // F/f/G/g: modulus M of the ring Z_M the plaintext argument is carried in
}

func (o pop) sk() bool { return o.k >= 'a' && o.k <= 'z' }

func (o pop) text() string {
	switch o.k {
	case 'E', 'e':
		return fmt.Sprintf("%c,%s,%s", o.k, zh(o.a), zh(o.b))
	case 'A', 'a':
		return fmt.Sprintf("%c,%d,%d", o.k, o.i, o.j)
	case 'M', 'm':
		return fmt.Sprintf("%c,%d,%d,%d", o.k, o.i, o.j, o.l)
	case 'S', 's', 'H', 'h', 'R', 'r':
		return fmt.Sprintf("%c,%d,%s", o.k, o.i, zh(o.a))
	case 'I', 'i', 'D', 'O':
		return fmt.Sprintf("%c,%d", o.k, o.i)
	case 'X':
		return fmt.Sprintf("X,%s", zh(o.a))
	case 'F', 'f':
		return fmt.Sprintf("%c,%s,%s,%s", o.k, zh(o.m), zh(o.a), zh(o.b))
	case 'G', 'g':
		return fmt.Sprintf("%c,%d,%s,%s", o.k, o.i, zh(o.m), zh(o.a))
	}
	panic("bad op")
}

func parsePop(s string) pop {
	f := strings.Split(s, ",")
	o := pop{k: f[0][0]}
	at := func(i int) int { v, _ := strconv.Atoi(f[i]); return v }
	switch o.k {
	case 'E', 'e':
		o.a, o.b = uz(f[1]), uz(f[2])
	case 'A', 'a':
		o.i, o.j = at(1), at(2)
	case 'M', 'm':
		o.i, o.j, o.l = at(1), at(2), at(3)
	case 'S', 's', 'H', 'h', 'R', 'r':
		o.i, o.a = at(1), uz(f[2])
	case 'I', 'i', 'D', 'O':
		o.i = at(1)
	case 'X':
		o.a = uz(f[1])
	case 'F', 'f':
		o.m, o.a, o.b = uz(f[1]), uz(f[2]), uz(f[3])
	case 'G', 'g':
		o.i, o.m, o.a = at(1), uz(f[2]), uz(f[3])
	default:
		panic("bad op " + s)
	}
	return o
}

func popsText(ops []pop) string {
	p := make([]string, len(ops))
	for i, o := range ops {
		p[i] = o.text()
	}
	return strings.Join(p, ";")
}

func producesReg(k byte) bool { return k != 'D' && k != 'O' && k != 'G' && k != 'g' }

func opName(k byte) string {
	switch k {
	case 'E', 'e':
		return "enc"
	case 'F', 'f':
		return "enc-ring"
	case 'G', 'g':
		return "shift-ring"
	case 'A', 'a', 'M', 'm':
		return "op"
	case 'S', 's':
		return "scale"
	case 'H', 'h':
		return "shift"
	case 'R', 'r':
		return "rerandomise"
	case 'I', 'i':
		return "inv"
	case 'X':
		return "newciphertext"
	case 'D':
		return "decrypt"
	case 'O':
		return "open"
	}
	return "?"
}

func (k *pkey) plaintext(x *big.Int) (*paillier.Plaintext, error) {
	if x.Sign() < 0 {
		z, err := num.Z().FromBig(x)
		if err != nil {
			return nil, err
		}
		return paillier.NewPlaintextSymmetric(z, k.nplus)
	}
	n, err := num.N().FromBig(x)
	if err != nil {
		return nil, err
	}
	return paillier.NewPlaintextFromNat(n, k.nplus)
}

// ringPlaintext: the value x carried in the ring Z_M (NewPlaintextFromNat with the caller's modulus)
func ringPlaintext(x, M *big.Int) (*paillier.Plaintext, error) {
	if x.Sign() < 0 || M.Sign() <= 0 {
		return nil, fmt.Errorf("out of range")
	}
	n, err := num.N().FromBig(x)
	if err != nil {
		return nil, err
	}
	return paillier.NewPlaintextFromNat(n, natPlus(M))
}

func (k *pkey) nonce(r *big.Int, sk bool) (*paillier.Nonce, error) {
	if r.Sign() <= 0 {
		return nil, fmt.Errorf("non-positive nonce")
	}
	if sk {
		return paillier.NewNonce(k.sk.Group(), natPlus(r))
	}
	return paillier.NewNonce(k.pk.Group(), natPlus(r))
}

func ctBig(c *paillier.Ciphertext) *big.Int { return c.Value().Value().Big() }

// runPaillierImpl drives the implementation; one output token per op.
func runPaillierImpl(k *pkey, ops []pop) []string {
	var regs []*paillier.Ciphertext
	outs := make([]string, len(ops))
	identity := func() *paillier.Ciphertext {
		c, err := paillier.NewCiphertext(k.pk.Group(), natPlus(one))
		if err != nil {
			panic(err)
		}
		return c
	}
	for n, o := range ops {
		var c *paillier.Ciphertext
		var err error
		tok := ""
		pan := vh.Safely(func() {
			switch o.k {
			case 'E', 'e':
				var pt *paillier.Plaintext
				var nn *paillier.Nonce
				if pt, err = k.plaintext(o.a); err != nil {
					return
				}
				if nn, err = k.nonce(o.b, o.sk()); err != nil {
					return
				}
				if o.sk() {
					c, err = k.sk.EncryptWithNonce(pt, nn)
				} else {
					c, err = k.pk.EncryptWithNonce(pt, nn)
				}
			case 'F', 'f':
				var pt *paillier.Plaintext
				var nn *paillier.Nonce
				if pt, err = ringPlaintext(o.a, o.m); err != nil {
					return
				}
				if nn, err = k.nonce(o.b, o.sk()); err != nil {
					return
				}
				if o.sk() {
					c, err = k.sk.EncryptWithNonce(pt, nn)
				} else {
					c, err = k.pk.EncryptWithNonce(pt, nn)
				}
			case 'G', 'g':
				var pt *paillier.Plaintext
				if pt, err = ringPlaintext(o.a, o.m); err != nil {
					return
				}
				var sc *paillier.Ciphertext
				if o.sk() {
					sc, err = k.sk.Shift(regs[o.i], pt)
				} else {
					sc, err = k.pk.Shift(regs[o.i], pt)
				}
				if err == nil {
					tok = zh(ctBig(sc))
				}
			case 'A':
				c, err = k.pk.CiphertextOp(regs[o.i], regs[o.j])
			case 'a':
				c, err = k.sk.CiphertextOp(regs[o.i], regs[o.j])
			case 'M':
				c, err = k.pk.CiphertextOp(regs[o.i], regs[o.j], regs[o.l])
			case 'm':
				c, err = k.sk.CiphertextOp(regs[o.i], regs[o.j], regs[o.l])
			case 'S', 's':
				var z *num.Int
				if z, err = num.Z().FromBig(o.a); err != nil {
					return
				}
				if o.sk() {
					c, err = k.sk.CiphertextScalarOp(regs[o.i], z)
				} else {
					c, err = k.pk.CiphertextScalarOp(regs[o.i], z)
				}
			case 'H', 'h':
				var pt *paillier.Plaintext
				if pt, err = k.plaintext(o.a); err != nil {
					return
				}
				if o.sk() {
					c, err = k.sk.Shift(regs[o.i], pt)
				} else {
					c, err = k.pk.Shift(regs[o.i], pt)
				}
			case 'R', 'r':
				var nn *paillier.Nonce
				if nn, err = k.nonce(o.a, o.sk()); err != nil {
					return
				}
				if o.sk() {
					c, err = k.sk.ReRandomise(regs[o.i], nn)
				} else {
					c, err = k.pk.ReRandomise(regs[o.i], nn)
				}
			case 'I':
				c, err = k.pk.CiphertextOpInv(regs[o.i])
			case 'i':
				c, err = k.sk.CiphertextOpInv(regs[o.i])
			case 'X':
				if o.a.Sign() <= 0 {
					err = fmt.Errorf("non-positive")
					return
				}
				c, err = paillier.NewCiphertext(k.pk.Group(), natPlus(o.a))
			case 'D':
				var pt *paillier.Plaintext
				if pt, err = k.sk.Decrypt(regs[o.i]); err == nil {
					tok = zh(pt.Value().Big())
				}
			case 'O':
				var pt *paillier.Plaintext
				var nn *paillier.Nonce
				if pt, nn, err = k.sk.Open(regs[o.i]); err == nil {
					tok = zh(pt.Value().Big()) + "," + zh(nn.Value().Value().Big())
				}
			}
		})
		switch {
		case pan != "":
			tok = "PANIC"
			c = nil
		case err != nil:
			tok = "ERR"
			c = nil
		case producesReg(o.k):
			tok = zh(ctBig(c))
		}
		outs[n] = tok
		if producesReg(o.k) {
			if c == nil {
				c = identity()
			}
			regs = append(regs, c)
		}
	}
	return outs
}

// runPaillierOracle computes the expected tokens from tracked (plaintext, nonce) pairs with
// math/big only: every ciphertext must be the textbook encryption of the combined
// plaintext under the combined nonce, decryption returns the plaintext, opening both.
func runPaillierOracle(k *pkey, ops []pop) (outs, alt []string) {
	type tr struct{ m, r *big.Int }
	var regs []tr
	outs = make([]string, len(ops))
	alt = make([]string, len(ops)) // alt[n] != "": a second acceptable implementation token (lenient refusals)
	for n, o := range ops {
		var t *tr
		switch o.k {
		case 'F', 'f':
			// plaintext value a carried in Z_M: the public path accepts M <= N, the secret-key path M = N
			okRing := o.m.Sign() > 0 && o.m.Cmp(k.N) <= 0
			if o.k == 'f' {
				okRing = o.m.Cmp(k.N) == 0
			}
			if okRing && o.a.Sign() >= 0 && o.a.Cmp(o.m) < 0 && o.b.Sign() > 0 && new(big.Int).GCD(nil, nil, o.b, k.N).Cmp(one) == 0 {
				t = &tr{new(big.Int).Set(o.a), bmod(o.b, k.N)}
			}
		case 'G', 'g':
			// Shift by a plaintext carried in Z_M: as coded refused unless M = N; accepting it with the
			// correct result would be just as good (one-sided), so both are admitted when M < N
			x := regs[o.i]
			outs[n] = "ERR"
			if o.m.Sign() > 0 && o.a.Sign() >= 0 && o.a.Cmp(o.m) < 0 && o.m.Cmp(k.N) <= 0 {
				v := zh(k.textbook(bmod(new(big.Int).Add(x.m, o.a), k.N), x.r))
				if o.m.Cmp(k.N) == 0 {
					outs[n] = v
				} else {
					alt[n] = v
				}
			}
			continue
		case 'E', 'e':
			m := k.residue(o.a)
			if m != nil && o.b.Sign() > 0 && new(big.Int).GCD(nil, nil, o.b, k.N).Cmp(one) == 0 {
				t = &tr{m, bmod(o.b, k.N)}
			}
		case 'A', 'a':
			x, y := regs[o.i], regs[o.j]
			t = &tr{bmod(new(big.Int).Add(x.m, y.m), k.N), bmod(new(big.Int).Mul(x.r, y.r), k.N)}
		case 'M', 'm':
			x, y, z := regs[o.i], regs[o.j], regs[o.l]
			m := new(big.Int).Add(x.m, y.m)
			r := new(big.Int).Mul(x.r, y.r)
			t = &tr{bmod(m.Add(m, z.m), k.N), bmod(r.Mul(r, z.r), k.N)}
		case 'S', 's':
			x := regs[o.i]
			r := new(big.Int).Exp(x.r, new(big.Int).Abs(o.a), k.N)
			if o.a.Sign() < 0 {
				r.ModInverse(r, k.N)
			}
			t = &tr{bmod(new(big.Int).Mul(x.m, o.a), k.N), r}
		case 'H', 'h':
			x := regs[o.i]
			if d := k.residue(o.a); d != nil {
				t = &tr{bmod(new(big.Int).Add(x.m, d), k.N), x.r}
			}
		case 'R', 'r':
			x := regs[o.i]
			if o.a.Sign() > 0 && new(big.Int).GCD(nil, nil, o.a, k.N).Cmp(one) == 0 {
				t = &tr{x.m, bmod(new(big.Int).Mul(x.r, o.a), k.N)}
			}
		case 'I', 'i':
			x := regs[o.i]
			t = &tr{bmod(new(big.Int).Neg(x.m), k.N), new(big.Int).ModInverse(x.r, k.N)}
		case 'X':
			if o.a.Sign() > 0 {
				c := bmod(o.a, k.N2)
				if new(big.Int).GCD(nil, nil, c, k.N).Cmp(one) == 0 {
					m := k.oracleDecrypt(c)
					t = &tr{m, k.oracleNonce(c, m)}
				}
			}
		case 'D':
			outs[n] = zh(regs[o.i].m)
			continue
		case 'O':
			outs[n] = zh(regs[o.i].m) + "," + zh(regs[o.i].r)
			continue
		}
		if t == nil {
			outs[n] = "ERR"
			regs = append(regs, tr{new(big.Int), big.NewInt(1)})
		} else {
			outs[n] = zh(k.textbook(t.m, t.r))
			regs = append(regs, *t)
		}
	}
	return outs, alt
}

// pruneOps keeps op n and the ops its registers depend on (shrinking).
func pruneOps(ops []pop, n int) []pop {
	regOf := []int{} // register index -> op index
	for i, o := range ops {
		if producesReg(o.k) {
			regOf = append(regOf, i)
		}
	}
	need := map[int]bool{n: true}
	for i := n; i >= 0; i-- {
		if !need[i] {
			continue
		}
		o := ops[i]
		var rs []int
		switch o.k {
		case 'A', 'a':
			rs = []int{o.i, o.j}
		case 'M', 'm':
			rs = []int{o.i, o.j, o.l}
		case 'S', 's', 'H', 'h', 'R', 'r', 'I', 'i', 'D', 'O', 'G', 'g':
			rs = []int{o.i}
		}
		for _, r := range rs {
			need[regOf[r]] = true
		}
	}
	newReg := map[int]int{}
	var out []pop
	nr, or := 0, 0
	for i, o := range ops {
		if producesReg(o.k) {
			if need[i] {
				newReg[or] = nr
				nr++
			}
			or++
		}
		if !need[i] {
			continue
		}
		switch o.k {
		case 'A', 'a':
			o.i, o.j = newReg[o.i], newReg[o.j]
		case 'M', 'm':
			o.i, o.j, o.l = newReg[o.i], newReg[o.j], newReg[o.l]
		case 'S', 's', 'H', 'h', 'R', 'r', 'I', 'i', 'D', 'O', 'G', 'g':
			o.i = newReg[o.i]
		}
		out = append(out, o)
	}
	return out
}

// ---------------------------------------------------------------------------------------
// generators
// ---------------------------------------------------------------------------------------

func (k *pkey) genPlain(r *vh.Rng) *big.Int {
	N := k.N
	half := new(big.Int).Rsh(N, 1) // floor(N/2) = (N-1)/2
	switch r.Intn(16) {
	case 0:
		return big.NewInt(0)
	case 1:
		return big.NewInt(1)
	case 2:
		return new(big.Int).Sub(N, one)
	case 3:
		return new(big.Int).Set(half)
	case 4:
		return new(big.Int).Add(half, one)
	case 5:
		return new(big.Int).Sub(half, one)
	case 6:
		return new(big.Int).Neg(half) // lower end of the symmetric range
	case 7:
		return new(big.Int).Add(new(big.Int).Neg(half), one)
	case 8:
		return big.NewInt(-1)
	case 9:
		return new(big.Int).Sub(N, two)
	case 10:
		return r.BigBits(1 + r.Intn(64))
	case 11:
		return new(big.Int).Neg(r.BigBelow(half))
	case 12:
		return new(big.Int).Set(k.p) // multiples of the factors are valid plaintexts
	case 13:
		return new(big.Int).Mul(k.q, big.NewInt(int64(1+r.Intn(5))))
	default:
		return r.BigBelow(N)
	}
}

func (k *pkey) genNonce(r *vh.Rng) *big.Int {
	for {
		var x *big.Int
		switch r.Intn(8) {
		case 0:
			x = big.NewInt(1)
		case 1:
			x = new(big.Int).Sub(k.N, one)
		case 2:
			x = big.NewInt(2)
		case 3:
			x = r.BigBits(1 + r.Intn(64))
		case 4:
			x = new(big.Int).Sub(k.N, two)
		default:
			x = r.BigBelow(k.N)
		}
		if x.Sign() > 0 && new(big.Int).GCD(nil, nil, x, k.N).Cmp(one) == 0 {
			return x
		}
	}
}

func (k *pkey) genScalar(r *vh.Rng, cheap bool) *big.Int {
	N := k.N
	neg := func(x *big.Int) *big.Int {
		if r.Bool() {
			return x.Neg(x)
		}
		return x
	}
	c := r.Intn(20)
	if cheap && c >= 8 {
		c = r.Intn(8)
	}
	switch c {
	case 0:
		return big.NewInt(0)
	case 1:
		return big.NewInt(1)
	case 2:
		return big.NewInt(-1)
	case 3:
		return big.NewInt(2)
	case 4:
		return big.NewInt(-2)
	case 5, 6:
		return neg(r.BigBits(1 + r.Intn(48)))
	case 7:
		return neg(r.BigBits(1 + r.Intn(256)))
	case 8:
		return neg(new(big.Int).Set(N))
	case 9:
		return neg(new(big.Int).Add(N, one))
	case 10:
		return neg(new(big.Int).Sub(N, one))
	case 11:
		return neg(new(big.Int).Add(N, r.BigBits(1+r.Intn(80)))) // a little above N
	case 12:
		return neg(r.BigBits(k.bits + 1 + r.Intn(64))) // > N
	case 13:
		// multiple of phi(p^2): reduced exponent 0 on one CRT branch
		p1 := new(big.Int).Sub(k.p, one)
		return neg(new(big.Int).Mul(new(big.Int).Mul(k.p, p1), big.NewInt(int64(1+r.Intn(3)))))
	case 14:
		return neg(new(big.Int).Set(k.N2))
	case 15:
		return neg(new(big.Int).Set(k.lambda))
	default:
		return neg(r.BigBelow(N))
	}
}

// wideScalars: magnitudes around and beyond every natural width of the scheme (N, N^2, the bit
// lengths of N and N^2, multiples of N^2, twice the width of N^2, random 1.5x and 3x widths).
// must = the handful always used (quick tier); rest = the others (all used in the thorough tier).
func (k *pkey) wideScalars(r *vh.Rng) (must, rest []*big.Int) {
	N, N2 := k.N, k.N2
	b1, b2 := uint(N.BitLen()), uint(N2.BitLen())
	pow2 := func(e uint) *big.Int { return new(big.Int).Lsh(one, e) }
	add := func(x *big.Int, d int64) *big.Int { return new(big.Int).Add(x, big.NewInt(d)) }
	mul := func(x *big.Int, c, d int64) *big.Int { return add(new(big.Int).Mul(x, big.NewInt(c)), d) }
	neg := func(x *big.Int) *big.Int { return new(big.Int).Neg(x) }
	must = []*big.Int{
		add(pow2(b2), 3), neg(pow2(b2)), mul(N2, 3, 7), neg(mul(N2, 5, 1)), add(N2, 1), add(pow2(2*b2), 1),
	}
	pos := []*big.Int{
		add(N, -1), new(big.Int).Set(N), add(N, 1), add(N2, -1), new(big.Int).Set(N2), add(N2, 1),
		pow2(b1), pow2(b2), add(pow2(b2), -1), add(pow2(b2), 1), new(big.Int).Add(pow2(b2), r.BigBits(64)),
		mul(N2, 2, 1), mul(N2, 4, 3), mul(N2, 5, 11), pow2(2 * b2), add(pow2(2*b2), -1),
		r.BigBits(int(b2) * 3 / 2), r.BigBits(int(b2) * 3), new(big.Int).Add(pow2(b2+1), r.BigBits(int(b2))),
	}
	for _, x := range pos {
		rest = append(rest, x, neg(x))
	}
	rest = append(rest, neg(add(pow2(b2), 3)), neg(mul(N2, 3, 7)), neg(add(pow2(2*b2), 1)))
	return must, rest
}

// pickWide: the scalars used for one key in this tier
func (k *pkey) pickWide(r *vh.Rng, thorough bool, extra int) []*big.Int {
	must, rest := k.wideScalars(r)
	if thorough {
		return append(must, rest...)
	}
	out := must
	if k.bits >= 3072 {
		out = must[:3]
	}
	for i := 0; i < extra; i++ {
		out = append(out, rest[r.Intn(len(rest))])
	}
	return out
}

var secpQ, _ = new(big.Int).SetString("fffffffffffffffffffffffffffffffebaaedce6af48a03bbfd25e8cd0364141", 16)

// rings: moduli M of rings Z_M a plaintext may be carried in. ok: M <= N (accepted by the public-key
// Representative / EncryptWithNonce, which must encrypt the VALUE: 1 + m*N, not 1 + m*M);
// tooBig: M > N (refused).
func (k *pkey) rings() (ok, tooBig []*big.Int) {
	m61 := new(big.Int).Sub(new(big.Int).Lsh(one, 61), one)
	ok = []*big.Int{new(big.Int).Set(k.N), new(big.Int).Sub(k.N, one), m61, secpQ, new(big.Int).Mul(secpQ, secpQ),
		big.NewInt(2), big.NewInt(3), big.NewInt(65537)}
	tooBig = []*big.Int{new(big.Int).Add(k.N, one), new(big.Int).Add(k.N, new(big.Int).Lsh(one, 64)), new(big.Int).Lsh(k.N, 1)}
	return ok, tooBig
}

func genRingValue(r *vh.Rng, M *big.Int) *big.Int {
	switch r.Intn(5) {
	case 0:
		return new(big.Int).Mod(one, M)
	case 1, 2:
		return new(big.Int).Sub(M, one)
	default:
		return r.BigBelow(M)
	}
}

func (k *pkey) genRing(r *vh.Rng) *big.Int {
	ok, tooBig := k.rings()
	if r.Intn(8) == 0 {
		return tooBig[r.Intn(len(tooBig))]
	}
	return ok[r.Intn(len(ok))]
}

// ringSeq: the fixed sequence exercising plaintexts carried in rings Z_M on every operation that
// takes a plaintext, then Decrypt / Open of every accepted encryption
func (k *pkey) ringSeq(r *vh.Rng) []pop {
	ok, tooBig := k.rings()
	var ops []pop
	for _, M := range ok {
		ops = append(ops, pop{k: 'F', m: M, a: new(big.Int).Sub(M, one), b: k.genNonce(r)})
	}
	nm1 := new(big.Int).Sub(k.N, one)
	ops = append(ops,
		pop{k: 'F', m: secpQ, a: r.BigBelow(secpQ), b: k.genNonce(r)},                          // 8
		pop{k: 'f', m: k.N, a: nm1, b: k.genNonce(r)},                                           // 9
		pop{k: 'f', m: nm1, a: big.NewInt(5), b: big.NewInt(2)},                                 // 10: not in Z_N, refused on the sk path
		pop{k: 'F', m: tooBig[0], a: new(big.Int).Set(k.N), b: big.NewInt(2)},                   // 11: M > N refused
		pop{k: 'F', m: tooBig[2], a: new(big.Int).Add(k.N, big.NewInt(5)), b: big.NewInt(2)},    // 12: M > N refused
		pop{k: 'G', i: 0, m: k.N, a: big.NewInt(1)}, pop{k: 'g', i: 0, m: k.N, a: nm1},
		pop{k: 'G', i: 0, m: nm1, a: big.NewInt(3)}, pop{k: 'g', i: 1, m: secpQ, a: big.NewInt(7)},
		pop{k: 'G', i: 2, m: tooBig[0], a: new(big.Int).Set(k.N)})
	for i := 0; i <= 9; i++ {
		ops = append(ops, pop{k: 'D', i: i})
	}
	ops = append(ops, pop{k: 'O', i: 1}, pop{k: 'O', i: 3}, pop{k: 'O', i: 9})
	return ops
}

// genSeq builds one random operation sequence of at most maxLen ciphertext operations,
// followed by decrypt/open of the last register and of one earlier register.
func (k *pkey) genSeq(r *vh.Rng, maxLen int, cheap bool) []pop {
	var ops []pop
	nreg := 0
	path := func(c byte) byte { // pk (upper case) or sk (lower case) path
		if r.Bool() {
			return c + ('a' - 'A')
		}
		return c
	}
	add := func(o pop) {
		ops = append(ops, o)
		if producesReg(o.k) {
			nreg++
		}
	}
	add(pop{k: path('E'), a: k.genPlain(r), b: k.genNonce(r)})
	n := 1 + r.Intn(maxLen)
	for len(ops) < n {
		switch c := r.Intn(23); {
		case c >= 22:
			M := k.genRing(r)
			add(pop{k: path('G'), i: r.Intn(nreg), m: M, a: genRingValue(r, M)})
		case c >= 20:
			M := k.genRing(r)
			add(pop{k: path('F'), m: M, a: genRingValue(r, M), b: k.genNonce(r)})
		case c < 4:
			add(pop{k: path('E'), a: k.genPlain(r), b: k.genNonce(r)})
		case c < 7:
			add(pop{k: path('A'), i: r.Intn(nreg), j: r.Intn(nreg)})
		case c < 8:
			add(pop{k: path('M'), i: r.Intn(nreg), j: r.Intn(nreg), l: r.Intn(nreg)})
		case c < 12:
			add(pop{k: path('S'), i: r.Intn(nreg), a: k.genScalar(r, cheap)})
		case c < 15:
			add(pop{k: path('H'), i: r.Intn(nreg), a: k.genPlain(r)})
		case c < 17:
			add(pop{k: path('R'), i: r.Intn(nreg), a: k.genNonce(r)})
		case c < 19:
			add(pop{k: path('I'), i: r.Intn(nreg)})
		default:
			// an arbitrary unit of Z*_{N^2} (every unit is an encryption for these moduli)
			v := r.BigBelow(k.N2)
			if v.Sign() == 0 {
				v = big.NewInt(1)
			}
			add(pop{k: 'X', a: v})
		}
	}
	add(pop{k: 'D', i: nreg - 1})
	add(pop{k: 'O', i: nreg - 1})
	if nreg > 1 && r.Bool() {
		add(pop{k: 'O', i: r.Intn(nreg - 1)})
	}
	return ops
}

// ---------------------------------------------------------------------------------------
// cases
// ---------------------------------------------------------------------------------------

// A testCase is one driver line plus what the implementation and the oracle say.
type testCase struct {
	line   string   // driver input
	class  string   // distribution class
	impl   []string // implementation tokens
	oracle []string // math/big tokens ("" = no oracle for this token)
	names  []string // per token: key suffix naming the operation
	what   string
	// elgamal: tokens are compared through the exponent by this function instead
	cmpTok func(n int, model string) (ok bool, detail string)
	shrink func(n int) string // optional: smaller line that contains token n
}

func paillierSeqCase(id string, k *pkey, ops []pop) *testCase {
	orc, alt := runPaillierOracle(k, ops)
	tc := &testCase{
		line:   fmt.Sprintf("P %s %s %s %s", id, zh(k.p), zh(k.q), popsText(ops)),
		class:  fmt.Sprintf("paillier-seq/%s-%d", k.flavour, k.bits),
		impl:   runPaillierImpl(k, ops),
		oracle: orc,
		what:   "C16_enc_add/enc_scale/enc_shift/rerandomise/decrypt_enc(_ring)/open_enc/sk_ops_equal_pk_ops (model vs implementation vs textbook)",
	}
	for n := range ops {
		// lenient refusal: the operation was accepted with the correct result where the code (and the
		// model) refuse -- counted as the refusal
		if alt[n] != "" && tc.impl[n] == alt[n] {
			tc.impl[n] = "ERR"
		}
	}
	for _, o := range ops {
		nm := "paillier-" + opName(o.k)
		if (producesReg(o.k) && o.k != 'X') || o.k == 'G' || o.k == 'g' {
			if o.sk() {
				nm += "-sk"
			} else {
				nm += "-pk"
			}
		}
		if (o.k == 'S' || o.k == 's') && o.a.Sign() < 0 {
			nm += "-neg"
		}
		if (o.k == 'S' || o.k == 's') && o.a.BitLen() > k.N2.BitLen() {
			nm += "-wide" // |scalar| >= 2^bitlen(N^2)
		}
		tc.names = append(tc.names, nm)
	}
	tc.shrink = func(n int) string {
		return fmt.Sprintf("P %s %s %s %s", id, zh(k.p), zh(k.q), popsText(pruneOps(ops, n)))
	}
	return tc
}

// single-operation Paillier cases ---------------------------------------------------------

func errTok(err error, pan string, ok func() string) string {
	if pan != "" {
		return "PANIC"
	}
	if err != nil {
		return "ERR"
	}
	return ok()
}

func single(line, class, name, what, impl, oracle string) *testCase {
	return &testCase{line: line, class: class, impl: []string{impl}, oracle: []string{oracle}, names: []string{name}, what: what}
}

func (k *pkey) qCase(id, op string, args ...*big.Int) *testCase {
	strs := make([]string, len(args))
	for i, a := range args {
		strs[i] = zh(a)
	}
	line := fmt.Sprintf("Q %s %s %s %s", id, zh(k.N), op, strings.Join(strs, " "))
	var impl, oracle string
	var err error
	N := k.N
	pt := func(x *big.Int) *paillier.Plaintext {
		p, e := k.plaintext(bmod(x, N))
		if e != nil {
			panic(e)
		}
		return p
	}
	nn := func(x *big.Int) *paillier.Nonce {
		n, e := k.nonce(x, false)
		if e != nil {
			panic(e)
		}
		return n
	}
	pan := vh.Safely(func() {
		switch op {
		case "sym":
			var z *num.Int
			z, err = num.Z().FromBig(args[0])
			if err != nil {
				return
			}
			var p *paillier.Plaintext
			if p, err = paillier.NewPlaintextSymmetric(z, k.nplus); err == nil {
				impl = zh(p.Value().Big())
			}
			d := new(big.Int).Lsh(args[0], 1)
			if d.Cmp(new(big.Int).Neg(N)) >= 0 && d.Cmp(N) < 0 {
				oracle = zh(bmod(args[0], N))
			} else {
				oracle = "ERR"
			}
		case "nat":
			if args[0].Sign() < 0 {
				err = fmt.Errorf("negative")
			} else {
				var n *num.Nat
				if n, err = num.N().FromBig(args[0]); err != nil {
					return
				}
				var p *paillier.Plaintext
				if p, err = paillier.NewPlaintextFromNat(n, k.nplus); err == nil {
					impl = zh(p.Value().Big())
				}
			}
			if args[0].Sign() >= 0 && args[0].Cmp(N) < 0 {
				oracle = zh(args[0])
			} else {
				oracle = "ERR"
			}
		case "norm":
			impl = zh(pt(args[0]).Normalise().Big())
			z := bmod(args[0], N)
			if new(big.Int).Lsh(z, 1).Cmp(N) > 0 {
				z.Sub(z, N)
			}
			oracle = zh(z)
		case "padd":
			var p *paillier.Plaintext
			if p, err = k.pk.PlaintextOp(pt(args[0]), pt(args[1])); err == nil {
				impl = zh(p.Value().Big())
			}
			oracle = zh(bmod(new(big.Int).Add(bmod(args[0], N), bmod(args[1], N)), N))
		case "pneg":
			var p *paillier.Plaintext
			if p, err = k.pk.PlaintextOpInv(pt(args[0])); err == nil {
				impl = zh(p.Value().Big())
			}
			oracle = zh(bmod(new(big.Int).Neg(args[0]), N))
		case "pscale":
			var z *num.Int
			if z, err = num.Z().FromBig(args[1]); err != nil {
				return
			}
			var p *paillier.Plaintext
			if p, err = k.pk.PlaintextScalarOp(pt(args[0]), z); err == nil {
				impl = zh(p.Value().Big())
			}
			oracle = zh(bmod(new(big.Int).Mul(bmod(args[0], N), args[1]), N))
		case "nmul":
			var n *paillier.Nonce
			if n, err = k.pk.NonceOp(nn(args[0]), nn(args[1])); err == nil {
				impl = zh(n.Value().Value().Big())
			}
			oracle = zh(bmod(new(big.Int).Mul(args[0], args[1]), N))
		case "ninv":
			var n *paillier.Nonce
			if n, err = k.pk.NonceOpInv(nn(args[0])); err == nil {
				impl = zh(n.Value().Value().Big())
			}
			oracle = zh(new(big.Int).ModInverse(args[0], N))
		case "nscale":
			var z *num.Int
			if z, err = num.Z().FromBig(args[1]); err != nil {
				return
			}
			var n *paillier.Nonce
			if n, err = k.pk.NonceScalarOp(nn(args[0]), z); err == nil {
				impl = zh(n.Value().Value().Big())
			}
			x := new(big.Int).Exp(args[0], new(big.Int).Abs(args[1]), N)
			if args[1].Sign() < 0 {
				x.ModInverse(x, N)
			}
			oracle = zh(x)
		case "unit":
			if args[0].Sign() <= 0 {
				err = fmt.Errorf("non-positive")
			} else {
				var n *paillier.Nonce
				if n, err = paillier.NewNonce(k.pk.Group(), natPlus(args[0])); err == nil {
					impl = zh(n.Value().Value().Big())
				}
			}
			u := bmod(args[0], N)
			if args[0].Sign() > 0 && new(big.Int).GCD(nil, nil, u, N).Cmp(one) == 0 {
				oracle = zh(u)
			} else {
				oracle = "ERR"
			}
		case "rep":
			var c *paillier.Ciphertext
			if c, err = k.pk.Representative(pt(args[0])); err == nil {
				impl = zh(ctBig(c))
			}
			g := new(big.Int).Add(N, one)
			oracle = zh(g.Exp(g, bmod(args[0], N), k.N2))
		case "noise":
			var c *paillier.Ciphertext
			if c, err = k.pk.IdentityNoise(nn(args[0])); err == nil {
				impl = zh(ctBig(c))
			}
			oracle = zh(new(big.Int).Exp(args[0], N, k.N2))
		case "repM": // Representative of a plaintext carried in Z_M: (1+N)^m, i.e. 1 + m*N, for M <= N; refused for M > N
			M, m := args[0], args[1]
			oracle = "ERR"
			if M.Sign() > 0 && M.Cmp(N) <= 0 && m.Sign() >= 0 && m.Cmp(M) < 0 {
				g := new(big.Int).Add(N, one)
				oracle = zh(g.Exp(g, m, k.N2))
			}
			var p *paillier.Plaintext
			if p, err = ringPlaintext(m, M); err != nil {
				return
			}
			var c *paillier.Ciphertext
			if c, err = k.pk.Representative(p); err == nil {
				impl = zh(ctBig(c))
			}
		case "paddM", "pscaleM": // plaintext algebra with an operand carried in Z_M: as coded refused unless M = N
			M, x := args[0], args[1]
			var correct *big.Int
			if op == "paddM" {
				correct = bmod(new(big.Int).Add(x, bmod(args[2], N)), N)
			} else {
				correct = bmod(new(big.Int).Mul(x, args[2]), N)
			}
			oracle = "ERR"
			if M.Cmp(N) == 0 {
				oracle = zh(correct)
			}
			var p, out *paillier.Plaintext
			if p, err = ringPlaintext(x, M); err != nil {
				return
			}
			if op == "paddM" {
				out, err = k.pk.PlaintextOp(p, pt(args[2]))
			} else {
				var z *num.Int
				if z, err = num.Z().FromBig(args[2]); err != nil {
					return
				}
				out, err = k.pk.PlaintextScalarOp(p, z)
			}
			if err == nil {
				impl = zh(out.Value().Big())
				if M.Cmp(N) < 0 && out.Modulus().Big().Cmp(N) == 0 && impl == zh(correct) {
					err = fmt.Errorf("accepted with the correct result: counted as the (one-sided) refusal")
				}
			}
		default:
			panic("bad q op " + op)
		}
	})
	if pan != "" {
		impl = "PANIC"
	} else if err != nil {
		impl = "ERR"
	}
	return single(line, "paillier-single/"+op, "paillier-"+op, "correspondence of "+op+" (plaintext/nonce algebra, constructors)", impl, oracle)
}

// kCase: nonce-group operations on the secret-key (CRT mod p, q) path
func (k *pkey) kCase(id, op string, args ...*big.Int) *testCase {
	strs := make([]string, len(args))
	for i, a := range args {
		strs[i] = zh(a)
	}
	line := fmt.Sprintf("K %s %s %s %s %s", id, zh(k.p), zh(k.q), op, strings.Join(strs, " "))
	var impl, oracle string
	var err error
	N := k.N
	nn := func(x *big.Int) *paillier.Nonce {
		n, e := k.nonce(x, true)
		if e != nil {
			panic(e)
		}
		return n
	}
	pan := vh.Safely(func() {
		switch op {
		case "nmul":
			var n *paillier.Nonce
			if n, err = k.sk.NonceOp(nn(args[0]), nn(args[1])); err == nil {
				impl = zh(n.Value().Value().Big())
			}
			oracle = zh(bmod(new(big.Int).Mul(args[0], args[1]), N))
		case "ninv":
			var n *paillier.Nonce
			if n, err = k.sk.NonceOpInv(nn(args[0])); err == nil {
				impl = zh(n.Value().Value().Big())
			}
			oracle = zh(new(big.Int).ModInverse(args[0], N))
		case "nscale":
			var z *num.Int
			if z, err = num.Z().FromBig(args[1]); err != nil {
				return
			}
			var n *paillier.Nonce
			if n, err = k.sk.NonceScalarOp(nn(args[0]), z); err == nil {
				impl = zh(n.Value().Value().Big())
			}
			x := new(big.Int).Exp(args[0], new(big.Int).Abs(args[1]), N)
			if args[1].Sign() < 0 {
				x.ModInverse(x, N)
			}
			oracle = zh(x)
		case "noise":
			var c *paillier.Ciphertext
			if c, err = k.sk.IdentityNoise(nn(args[0])); err == nil {
				impl = zh(ctBig(c))
			}
			oracle = zh(new(big.Int).Exp(args[0], N, k.N2))
		default:
			panic("bad k op " + op)
		}
	})
	if pan != "" {
		impl = "PANIC"
	} else if err != nil {
		impl = "ERR"
	}
	return single(line, "paillier-single-sk/"+op, "paillier-sk-"+op, "C16_sk_ops_equal_pk_ops: "+op+" on the CRT path", impl, oracle)
}

// key construction: size floor, equal lengths, distinct factors
func keyCase(id string, minlen int, p, q *big.Int) *testCase {
	line := fmt.Sprintf("G %s %d %s %s", id, minlen, zh(p), zh(q))
	impl := ""
	var err error
	pan := vh.Safely(func() {
		var g *znstar.PaillierGroupKnownOrder
		if p.Sign() <= 0 || q.Sign() <= 0 {
			err = fmt.Errorf("non-positive")
			return
		}
		if g, err = znstar.NewPaillierGroup(natPlus(p), natPlus(q)); err != nil {
			return
		}
		var sk *paillier.SecretKey
		switch minlen {
		case 3072:
			sk, err = paillier.NewSecretKey(g)
		case 2048:
			sk, err = paillier.NewLegacySecretKey(g)
		default:
			panic("bad minlen")
		}
		if err == nil {
			impl = zh(sk.Group().N().Big())
		}
	})
	if pan != "" {
		impl = "PANIC"
	} else if err != nil {
		impl = "ERR"
	}
	N := new(big.Int).Mul(p, q)
	oracle := zh(N)
	if p.BitLen() != q.BitLen() || p.Cmp(q) == 0 || N.BitLen() < minlen {
		oracle = "ERR"
	}
	return single(line, "paillier-keyfloor", "paillier-new-secret-key", "key-size floor / factor checks of newSecretKey", impl, oracle)
}

func pubKeyCase(id string, minlen int, N *big.Int) *testCase {
	line := fmt.Sprintf("B %s %d %s", id, minlen, zh(N))
	impl := ""
	var err error
	pan := vh.Safely(func() {
		var ug *znstar.PaillierGroupUnknownOrder
		n := natPlus(N)
		if ug, err = znstar.NewPaillierGroupOfUnknownOrder(natPlus(new(big.Int).Mul(N, N)), n); err != nil {
			return
		}
		var pk *paillier.PublicKey
		if minlen == 3072 {
			pk, err = paillier.NewPublicKey(ug)
		} else {
			pk, err = paillier.NewLegacyPublicKey(ug)
		}
		if err == nil {
			impl = zh(pk.Group().N().Big())
		}
	})
	if pan != "" {
		impl = "PANIC"
	} else if err != nil {
		impl = "ERR"
	}
	oracle := zh(N)
	if N.BitLen() < minlen {
		oracle = "ERR"
	}
	return single(line, "paillier-keyfloor", "paillier-new-public-key", "key-size floor of newPublicKey", impl, oracle)
}

// encryption.Encrypt (nonce sampled by the library from the seeded reader), plaintext carried in Z_M:
// the ciphertext must be the textbook encryption of the value under the returned nonce
func (k *pkey) encryptSampledCase(id string, M, m *big.Int, r *vh.Rng) *testCase {
	impl, line := "", ""
	var err error
	var rr *big.Int
	pan := vh.Safely(func() {
		var pt *paillier.Plaintext
		if pt, err = ringPlaintext(m, M); err != nil {
			return
		}
		var c *paillier.Ciphertext
		var nn *paillier.Nonce
		if c, nn, err = encryption.Encrypt(pt, k.pk, r); err == nil {
			impl = zh(ctBig(c))
			rr = nn.Value().Value().Big()
		}
	})
	impl = errTok(err, pan, func() string { return impl })
	if rr == nil {
		rr = big.NewInt(1)
	}
	line = fmt.Sprintf("T %s %s %s %s", id, zh(k.N), zh(m), zh(rr))
	oracle := zh(k.textbook(m, rr))
	return single(line, "paillier-encrypt-sampled", "paillier-encrypt-sampled-ring", "C16_decrypt_enc_ring / C16_enc_textbook: Encrypt = (1+N)^m r^N mod N^2 for a plaintext carried in Z_M, M <= N", impl, oracle)
}

// Decrypt must refuse a ciphertext of another key (group membership check)
func foreignCase(id string, k, other *pkey, m, r *big.Int) *testCase {
	c := other.textbook(m, r)
	line := fmt.Sprintf("F %s %s %s %s %s", id, zh(k.p), zh(k.q), zh(other.N), zh(c))
	impl := ""
	var err error
	pan := vh.Safely(func() {
		var ct *paillier.Ciphertext
		if ct, err = paillier.NewCiphertext(other.pk.Group(), natPlus(c)); err != nil {
			return
		}
		var pt *paillier.Plaintext
		if pt, err = k.sk.Decrypt(ct); err == nil {
			impl = zh(pt.Value().Big())
		}
	})
	impl = errTok(err, pan, func() string { return impl })
	oracle := "ERR"
	if other.N.Cmp(k.N) == 0 {
		oracle = zh(bmod(m, k.N))
	}
	return single(line, "paillier-foreign-ciphertext", "paillier-decrypt-foreign", "Decrypt refuses ciphertexts outside Z*_{N^2} of its key", impl, oracle)
}

// textbook formula evaluated literally by the model vs EncryptWithNonce vs math/big
func (k *pkey) textbookCase(id string, m, r *big.Int, sk bool) *testCase {
	line := fmt.Sprintf("T %s %s %s %s", id, zh(k.N), zh(m), zh(r))
	impl := ""
	var err error
	pan := vh.Safely(func() {
		var pt *paillier.Plaintext
		var nn *paillier.Nonce
		if pt, err = k.plaintext(m); err != nil {
			return
		}
		if nn, err = k.nonce(r, sk); err != nil {
			return
		}
		var c *paillier.Ciphertext
		if sk {
			c, err = k.sk.EncryptWithNonce(pt, nn)
		} else {
			c, err = k.pk.EncryptWithNonce(pt, nn)
		}
		if err == nil {
			impl = zh(ctBig(c))
		}
	})
	if pan != "" {
		impl = "PANIC"
	} else if err != nil {
		impl = "ERR"
	}
	name := "paillier-textbook-pk"
	if sk {
		name = "paillier-textbook-sk"
	}
	return single(line, "paillier-textbook", name, "C16_enc_textbook: EncryptWithNonce = (1+N)^m r^N mod N^2", impl, zh(k.textbook(m, r)))
}

// ---------------------------------------------------------------------------------------
// lower layers with arbitrary (small, unbalanced) primes: modular.OddPrimeSquareFactors,
// modular.OddPrimeFactors, crt.Params, znstar.PaillierGroup (no key-size floor there)
// ---------------------------------------------------------------------------------------

func cnat(x *big.Int) *numct.Nat {
	n := x.BitLen()
	if n == 0 {
		n = 1
	}
	return numct.NewNatFromBig(x, n)
}

// lowCase: one operation of the CRT arithmetic on a list of inputs. items: x (rec1/rec2: the value
// whose residues are recombined; inv*/ton: the argument) or (a, b) (exp*: base, exponent; mul1).
func lowCase(id string, p, q *big.Int, op string, items [][2]*big.Int) *testCase {
	N := new(big.Int).Mul(p, q)
	N2 := new(big.Int).Mul(N, N)
	p2, q2 := new(big.Int).Mul(p, p), new(big.Int).Mul(q, q)
	tc := &testCase{class: "lowlevel/" + op, what: "C16_sk_ops_equal_pk_ops at the modular/crt layer (" + op + "): CRT path = math/big = model"}
	var strs []string
	sf, okc := modular.NewOddPrimeSquareFactors(cnat(p), cnat(q))
	var g *znstar.PaillierGroupKnownOrder
	if p.BitLen() == q.BitLen() {
		g, _ = znstar.NewPaillierGroup(natPlus(p), natPlus(q))
	}
	for _, it := range items {
		a, b := it[0], it[1]
		impl, oracle, str := "", "", ""
		pan := vh.Safely(func() {
			if okc != ct.True {
				impl = "ERR"
			}
			var out numct.Nat
			unit := new(big.Int).GCD(nil, nil, a, N).Cmp(one) == 0 && a.Sign() > 0
			// the same operation through znstar's known-order and unknown-order group elements
			zn := func(f func(known *znstar.PaillierGroupElementKnownOrder, unknown *znstar.PaillierGroupElementUnknownOrder) (*big.Int, *big.Int)) {
				if g == nil || !unit || impl == "ERR" {
					return
				}
				e, err := g.FromNatCT(cnat(bmod(a, N2)))
				if err != nil {
					impl += "|znstar-refused"
					return
				}
				x, y := f(e, e.ForgetOrder())
				if x == nil || y == nil || zh(x) != impl || zh(y) != impl {
					hx := func(v *big.Int) string {
						if v == nil {
							return "ERR"
						}
						return zh(v)
					}
					impl += "|znstar-known-order=" + hx(x) + "|znstar-unknown-order=" + hx(y)
				}
			}
			switch op {
			case "rec2":
				str = zh(bmod(a, p2)) + ":" + zh(bmod(a, q2))
				oracle = zh(a)
				if impl == "" {
					impl = zh(sf.CrtModN2.Recombine(cnat(bmod(a, p2)), cnat(bmod(a, q2))).Big())
				}
			case "rec1":
				str = zh(bmod(a, p)) + ":" + zh(bmod(a, q))
				oracle = zh(a)
				if impl == "" {
					impl = zh(sf.CrtModN.Params.Recombine(cnat(bmod(a, p)), cnat(bmod(a, q))).Big())
				}
			case "exp2":
				str = zh(a) + ":" + zh(b)
				oracle = zh(new(big.Int).Exp(a, b, N2))
				if impl == "" {
					sf.ModExp(&out, cnat(a), cnat(b))
					impl = zh(out.Big())
					zn(func(kn *znstar.PaillierGroupElementKnownOrder, un *znstar.PaillierGroupElementUnknownOrder) (*big.Int, *big.Int) {
						z, err := num.Z().FromBig(b)
						if err != nil {
							return nil, nil
						}
						return kn.ScalarOp(z).Value().Big(), un.ScalarOp(z).Value().Big()
					})
				}
			case "exp1":
				str = zh(a) + ":" + zh(b)
				oracle = zh(new(big.Int).Exp(a, b, N))
				if impl == "" {
					sf.CrtModN.ModExp(&out, cnat(a), cnat(b))
					impl = zh(out.Big())
				}
			case "mul1":
				str = zh(a) + ":" + zh(b)
				oracle = zh(bmod(new(big.Int).Mul(a, b), N))
				if impl == "" {
					sf.CrtModN.ModMul(&out, cnat(a), cnat(b))
					impl = zh(out.Big())
				}
			case "inv2", "inv1":
				str = zh(a)
				m := N2
				if op == "inv1" {
					m = N
				}
				if inv := new(big.Int).ModInverse(a, m); inv != nil {
					oracle = zh(inv)
				} else {
					oracle = "ERR"
				}
				if impl == "" {
					var ok ct.Bool
					if op == "inv2" {
						ok = sf.ModInv(&out, cnat(a))
					} else {
						ok = sf.CrtModN.ModInv(&out, cnat(a))
					}
					if ok != ct.True {
						impl = "ERR"
					} else {
						impl = zh(out.Big())
						if op == "inv2" {
							zn(func(kn *znstar.PaillierGroupElementKnownOrder, un *znstar.PaillierGroupElementUnknownOrder) (*big.Int, *big.Int) {
								x, e1 := kn.TryOpInv()
								y, e2 := un.TryOpInv()
								if e1 != nil || e2 != nil {
									return nil, nil
								}
								return x.Value().Big(), y.Value().Big()
							})
						}
					}
				}
			case "ton":
				str = zh(a)
				if unit {
					oracle = zh(new(big.Int).Exp(a, N, N2))
				}
				if impl == "" {
					sf.ExpToN(&out, cnat(a))
					impl = zh(out.Big())
					zn(func(kn *znstar.PaillierGroupElementKnownOrder, un *znstar.PaillierGroupElementUnknownOrder) (*big.Int, *big.Int) {
						x, e1 := g.NthResidue(kn)
						y, e2 := g.ForgetOrder().NthResidue(un)
						if e1 != nil || e2 != nil {
							return nil, nil
						}
						return x.Value().Big(), y.Value().Big()
					})
				}
			default:
				panic("bad low op " + op)
			}
		})
		if pan != "" {
			impl = "PANIC"
		}
		strs = append(strs, str)
		tc.impl = append(tc.impl, impl)
		tc.oracle = append(tc.oracle, oracle)
		tc.names = append(tc.names, "lowlevel-"+op)
	}
	tc.line = fmt.Sprintf("C %s %s %s %s %s", id, zh(p), zh(q), op, strings.Join(strs, ","))
	tc.shrink = func(n int) string { return fmt.Sprintf("C %s %s %s %s %s", id, zh(p), zh(q), op, strs[n]) }
	return tc
}

// crtCase: crt.NewParamsExtended(P, Q).Recombine for arbitrary coprime moduli of different lengths
func crtCase(id string, P, Q *big.Int, xs []*big.Int) *testCase {
	tc := &testCase{class: "lowlevel/crt", what: "crt.Params.Recombine(x mod P, x mod Q) = x (crt_unique / recombine_eq)"}
	var strs []string
	var prm *crt.ParamsExtended
	okc := ct.False
	pan0 := vh.Safely(func() {
		pm, ok1 := numct.NewModulus(cnat(P))
		qm, ok2 := numct.NewModulus(cnat(Q))
		if ok1 == ct.True && ok2 == ct.True {
			prm, okc = crt.NewParamsExtended(pm, qm)
		}
	})
	for _, x := range xs {
		mp, mq := bmod(x, P), bmod(x, Q)
		impl := "ERR"
		pan := pan0
		if pan == "" && okc == ct.True {
			pan = vh.Safely(func() { impl = zh(prm.Recombine(cnat(mp), cnat(mq)).Big()) })
		}
		if pan != "" {
			impl = "PANIC"
		}
		strs = append(strs, zh(mp)+":"+zh(mq))
		tc.impl = append(tc.impl, impl)
		tc.oracle = append(tc.oracle, zh(x))
		tc.names = append(tc.names, "lowlevel-crt-recombine")
	}
	tc.line = fmt.Sprintf("R %s %s %s %s", id, zh(P), zh(Q), strings.Join(strs, ","))
	tc.shrink = func(n int) string { return fmt.Sprintf("R %s %s %s %s", id, zh(P), zh(Q), strs[n]) }
	return tc
}

// lowLevelCases: small and unbalanced prime pairs in both orders; exhaustive where small
func lowLevelCases(seed int64, stream string, thorough bool) []*testCase {
	var out []*testCase
	r := vh.NewRng(seed, "C16", stream+"/lowlevel", 0)
	fixed := vh.NewRng(0, "C16", "lowlevel-primes", 0)
	pow2 := func(e uint) *big.Int { return new(big.Int).Lsh(one, e) }
	frac := func(num int64, e uint) *big.Int { // num/100 * 2^e + small
		x := new(big.Int).Mul(big.NewInt(num), pow2(e))
		x.Div(x, big.NewInt(100))
		return x.Add(x, fixed.BigBits(int(e)/2))
	}
	pairs := [][2]*big.Int{
		{big.NewInt(7), big.NewInt(5)}, {big.NewInt(13), big.NewInt(11)}, {big.NewInt(251), big.NewInt(181)},
		{big.NewInt(251), big.NewInt(227)}, {big.NewInt(127), big.NewInt(67)},
		{nextPrime(frac(199, 31)), nextPrime(frac(140, 31))},   // 32-bit, either side of sqrt(2)*2^31
		{nextPrime(frac(199, 63)), nextPrime(frac(140, 63))},   // 64-bit, p ~ 1.99*2^63, q ~ 1.40*2^63
		{nextPrime(frac(142, 63)), nextPrime(frac(141, 63))},   // 64-bit, both just around sqrt(2)*2^63
		{nextPrime(frac(101, 63)), nextPrime(frac(199, 63))},   // 64-bit, just above 2^63 and just below 2^64
		{nextPrime(frac(199, 255)), nextPrime(frac(140, 255))}, // 256-bit
	}
	n := 24
	if thorough {
		n = 400
	}
	for pi, pq := range pairs {
		for o := 0; o < 2; o++ {
			p, q := pq[o], pq[1-o]
			id := fmt.Sprintf("%d.%d", pi, o)
			N := new(big.Int).Mul(p, q)
			N2 := new(big.Int).Mul(N, N)
			unary := func(m *big.Int, exhaustiveBelow int64) [][2]*big.Int {
				var xs [][2]*big.Int
				if m.IsInt64() && m.Int64() <= exhaustiveBelow {
					for x := int64(0); x < m.Int64(); x++ {
						xs = append(xs, [2]*big.Int{big.NewInt(x), nil})
					}
					return xs
				}
				// the top of the range is where a lost high bit shows
				xs = append(xs, [2]*big.Int{new(big.Int).Sub(m, one), nil}, [2]*big.Int{new(big.Int).Sub(m, two), nil}, [2]*big.Int{big.NewInt(1), nil})
				for i := 0; i < n; i++ {
					xs = append(xs, [2]*big.Int{r.BigBelow(m), nil})
				}
				return xs
			}
			binary := func(m *big.Int, ebits int) [][2]*big.Int {
				var xs [][2]*big.Int
				for i := 0; i < n; i++ {
					b := r.BigBelow(m)
					if i%7 == 3 {
						b = new(big.Int).Mul(p, r.BigBelow(q)) // not coprime to p: full exponent branch
					}
					xs = append(xs, [2]*big.Int{b, r.BigBits(1 + r.Intn(ebits))})
				}
				return xs
			}
			exh := int64(2000)
			if thorough {
				exh = 70000
			}
			out = append(out,
				lowCase(id, p, q, "rec2", unary(N2, exh)), lowCase(id, p, q, "rec1", unary(N, exh)),
				lowCase(id, p, q, "inv2", unary(N2, exh)), lowCase(id, p, q, "inv1", unary(N, exh)),
				lowCase(id, p, q, "ton", unary(N2, exh)),
				lowCase(id, p, q, "exp2", binary(N2, 3*N2.BitLen())), lowCase(id, p, q, "exp1", binary(N, 3*N.BitLen())),
				lowCase(id, p, q, "mul1", binary(N, N.BitLen())))
		}
	}
	// crt.NewParamsExtended with arbitrary coprime moduli whose lengths differ by 0, 1 and several bits
	mods := [][2]*big.Int{
		{big.NewInt(49), big.NewInt(25)}, {big.NewInt(8191), big.NewInt(4099)}, {big.NewInt(1<<20 + 7), big.NewInt(1<<13 + 1)},
		{new(big.Int).Add(pow2(2047), fixed.BigBits(2000)), new(big.Int).Add(pow2(2046), fixed.BigBits(2000))},
		{new(big.Int).Sub(pow2(130), big.NewInt(5)), new(big.Int).Add(pow2(64), big.NewInt(13))},
	}
	for mi, pq := range mods {
		if new(big.Int).GCD(nil, nil, pq[0], pq[1]).Cmp(one) != 0 {
			pq[1] = nextPrime(pq[1])
		}
		for o := 0; o < 2; o++ {
			P, Q := pq[o], pq[1-o]
			M := new(big.Int).Mul(P, Q)
			var xs []*big.Int
			if M.IsInt64() && M.Int64() <= 2000 {
				for x := int64(0); x < M.Int64(); x++ {
					xs = append(xs, big.NewInt(x))
				}
			} else {
				xs = append(xs, new(big.Int).Sub(M, one), new(big.Int).Sub(M, two), big.NewInt(0))
				for i := 0; i < n; i++ {
					xs = append(xs, r.BigBelow(M))
				}
			}
			out = append(out, crtCase(fmt.Sprintf("m%d.%d", mi, o), P, Q, xs))
		}
	}
	return out
}

// ---------------------------------------------------------------------------------------
// ElGamal, through the exponent
// ---------------------------------------------------------------------------------------

type egroup interface {
	name() string
	order() *big.Int
	seqCase(id string, a *big.Int, ops []pop) *testCase
	sampled(id string, r *vh.Rng) *testCase
	keyCases(id string) []*testCase
	algCases(id string, r *vh.Rng) []*testCase
}

type eg[E elgamal.FiniteCyclicGroupElement[E, S], S algebra.UintLike[S]] struct {
	nm string
	g  elgamal.FiniteCyclicGroup[E, S]
	zn algebra.ZModLike[S]
	q  *big.Int
}

func newEg[E elgamal.FiniteCyclicGroupElement[E, S], S algebra.UintLike[S]](nm string, g elgamal.FiniteCyclicGroup[E, S]) *eg[E, S] {
	zn := algebra.StructureMustBeAs[algebra.ZModLike[S]](g.ScalarStructure())
	return &eg[E, S]{nm: nm, g: g, zn: zn, q: g.Order().Big()}
}

func (e *eg[E, S]) name() string    { return e.nm }
func (e *eg[E, S]) order() *big.Int { return e.q }

// scalar builds an API scalar from an arbitrary integer through the library's own reduction
// (FromBytesBEReduce of the unreduced magnitude, negated for negative values), so that values
// wider than the group order exercise the implementation, not the harness.
func (e *eg[E, S]) scalar(x *big.Int) S {
	b := new(big.Int).Abs(x).Bytes()
	if len(b) == 0 {
		b = []byte{0}
	}
	s, err := e.zn.FromBytesBEReduce(b)
	if err != nil {
		panic(err)
	}
	if x.Sign() < 0 {
		return s.Neg()
	}
	return s
}

// rscalar: scalar from the value reduced by math/big (used for expected points only)
func (e *eg[E, S]) rscalar(x *big.Int) S {
	b := bmod(x, e.q).Bytes()
	if len(b) == 0 {
		b = []byte{0}
	}
	s, err := e.zn.FromBytesBEReduce(b)
	if err != nil {
		panic(err)
	}
	return s
}

func (e *eg[E, S]) sbig(s S) *big.Int { return s.Cardinal().Big() }

// pow returns g^x computed by the implementation's own group (subject of C14)
func (e *eg[E, S]) pow(x *big.Int) E { return e.g.Generator().ScalarOp(e.rscalar(x)) }

// ElGamal ops reuse pop: E/e (mu, r), A (i,j), S (i, s), I, H (i, delta), R/r (i, r), D
func (e *eg[E, S]) run(a *big.Int, ops []pop) (impl [][]E, errs []string, oracle [][2]*big.Int, oracleD []*big.Int) {
	sk, err := elgamal.NewSecretKey(e.g.Generator(), e.scalar(a))
	if err != nil {
		panic(fmt.Sprintf("elgamal key %s: %v", zh(a), err))
	}
	pk := sk.Public()
	var regs []*elgamal.Ciphertext[E, S]
	var tr [][2]*big.Int // (rho, mu): ciphertext = (g^rho, g^(mu + a rho))
	impl = make([][]E, len(ops))
	errs = make([]string, len(ops))
	oracle = make([][2]*big.Int, len(ops))
	oracleD = make([]*big.Int, len(ops))
	q := e.q
	for n, o := range ops {
		var c *elgamal.Ciphertext[E, S]
		var err error
		var t [2]*big.Int
		pan := vh.Safely(func() {
			switch o.k {
			case 'E', 'e':
				var pt *elgamal.Plaintext[E, S]
				var nn *elgamal.Nonce[S]
				if pt, err = elgamal.NewPlaintext(e.pow(o.a)); err != nil {
					return
				}
				if nn, err = elgamal.NewNonce(e.scalar(o.b)); err != nil {
					return
				}
				if o.k == 'e' {
					c, err = sk.EncryptWithNonce(pt, nn)
				} else {
					c, err = pk.EncryptWithNonce(pt, nn)
				}
				t = [2]*big.Int{bmod(o.b, q), bmod(o.a, q)}
			case 'A':
				c, err = pk.CiphertextOp(regs[o.i], regs[o.j])
				t = [2]*big.Int{bmod(new(big.Int).Add(tr[o.i][0], tr[o.j][0]), q), bmod(new(big.Int).Add(tr[o.i][1], tr[o.j][1]), q)}
			case 'S':
				c, err = pk.CiphertextScalarOp(regs[o.i], e.scalar(o.a))
				t = [2]*big.Int{bmod(new(big.Int).Mul(tr[o.i][0], o.a), q), bmod(new(big.Int).Mul(tr[o.i][1], o.a), q)}
			case 'I':
				c, err = pk.CiphertextOpInv(regs[o.i])
				t = [2]*big.Int{bmod(new(big.Int).Neg(tr[o.i][0]), q), bmod(new(big.Int).Neg(tr[o.i][1]), q)}
			case 'H':
				var pt *elgamal.Plaintext[E, S]
				if pt, err = elgamal.NewPlaintext(e.pow(o.a)); err != nil {
					return
				}
				c, err = pk.Shift(regs[o.i], pt)
				t = [2]*big.Int{tr[o.i][0], bmod(new(big.Int).Add(tr[o.i][1], o.a), q)}
			case 'R', 'r':
				var nn *elgamal.Nonce[S]
				if nn, err = elgamal.NewNonce(e.scalar(o.a)); err != nil {
					return
				}
				if o.k == 'r' {
					c, err = sk.ReRandomise(regs[o.i], nn)
				} else {
					c, err = pk.ReRandomise(regs[o.i], nn)
				}
				t = [2]*big.Int{bmod(new(big.Int).Add(tr[o.i][0], o.a), q), tr[o.i][1]}
			case 'D':
				var pt *elgamal.Plaintext[E, S]
				if pt, err = sk.Decrypt(regs[o.i]); err == nil {
					impl[n] = []E{pt.Value()}
				}
				oracleD[n] = tr[o.i][1]
			}
		})
		if pan != "" {
			errs[n] = "PANIC"
		} else if err != nil {
			errs[n] = "ERR"
		}
		if o.k == 'D' {
			continue
		}
		if errs[n] != "" || c == nil {
			if errs[n] == "" {
				errs[n] = "ERR"
			}
			// the rest of the sequence depends on this register: not evaluated
			for m := n + 1; m < len(ops); m++ {
				errs[m] = "SKIP"
			}
			return impl, errs, oracle, oracleD
		}
		cs := c.Value().Components()
		impl[n] = []E{cs[0], cs[1]}
		regs = append(regs, c)
		tr = append(tr, t)
		// ciphertext exponents: (rho, mu + a*rho)
		oracle[n] = [2]*big.Int{t[0], bmod(new(big.Int).Add(t[1], new(big.Int).Mul(a, t[0])), q)}
	}
	return impl, errs, oracle, oracleD
}

func egOpsText(ops []pop) string {
	p := make([]string, len(ops))
	for i, o := range ops {
		switch o.k {
		case 'E', 'e':
			p[i] = fmt.Sprintf("%c,%s,%s", o.k, zh(o.a), zh(o.b))
		case 'A':
			p[i] = fmt.Sprintf("A,%d,%d", o.i, o.j)
		case 'S', 'H', 'R', 'r':
			p[i] = fmt.Sprintf("%c,%d,%s", o.k, o.i, zh(o.a))
		case 'I', 'D':
			p[i] = fmt.Sprintf("%c,%d", o.k, o.i)
		}
	}
	return strings.Join(p, ";")
}

func (e *eg[E, S]) seqCase(id string, a *big.Int, ops []pop) *testCase {
	impl, errs, oracle, oracleD := e.run(a, ops)
	tc := &testCase{
		line:  fmt.Sprintf("L %s:%s %s %s %s", e.nm, id, zh(e.q), zh(a), egOpsText(ops)),
		class: "elgamal-seq/" + e.nm,
		what:  "C16_elgamal_decrypt_enc/elgamal_homomorphic/elgamal_rerandomise (exponent model vs implementation points)",
	}
	for n, o := range ops {
		tc.names = append(tc.names, "elgamal-"+e.nm+"-"+opName(o.k))
		// implementation vs oracle, through the exponent
		ok := errs[n] == ""
		if ok && o.k == 'D' {
			ok = e.pow(oracleD[n]).Equal(impl[n][0])
		} else if ok {
			ok = e.pow(oracle[n][0]).Equal(impl[n][0]) && e.pow(oracle[n][1]).Equal(impl[n][1])
		}
		if ok {
			tc.impl = append(tc.impl, "ok")
		} else {
			tc.impl = append(tc.impl, "bad"+errs[n])
		}
		tc.oracle = append(tc.oracle, "ok")
	}
	tc.shrink = func(n int) string {
		return fmt.Sprintf("L %s:%s %s %s %s", e.nm, id, zh(e.q), zh(a), egOpsText(pruneOps(ops, n)))
	}
	tc.cmpTok = func(n int, model string) (bool, string) {
		if errs[n] != "" {
			return false, "implementation " + errs[n] + ", model " + model
		}
		f := strings.Split(model, ",")
		if ops[n].k == 'D' {
			if len(f) != 1 {
				return false, "model token " + model
			}
			if !e.pow(uz(f[0])).Equal(impl[n][0]) {
				return false, fmt.Sprintf("Decrypt != g^%s (model exponent); expected exponent %s", f[0], zh(oracleD[n]))
			}
			return true, ""
		}
		if len(f) != 2 {
			return false, "model token " + model
		}
		if !e.pow(uz(f[0])).Equal(impl[n][0]) || !e.pow(uz(f[1])).Equal(impl[n][1]) {
			return false, fmt.Sprintf("ciphertext != (g^%s, g^%s) (model exponents); expected exponents (%s, %s)", f[0], f[1], zh(oracle[n][0]), zh(oracle[n][1]))
		}
		return true, ""
	}
	return tc
}

// sampled: key and nonce drawn by the library from the seeded reader; exponents read back
// through the public accessors (SecretKey.Value, Nonce.Value)
func (e *eg[E, S]) sampled(id string, r *vh.Rng) *testCase {
	sk, err := elgamal.SampleSecretKey(e.g, r)
	if err != nil {
		panic(err)
	}
	a := e.sbig(sk.Value())
	nn, err := sk.SampleNonce(r)
	if err != nil {
		panic(err)
	}
	rho := e.sbig(nn.Value())
	mu := r.BigBelow(e.q)
	ops := []pop{{k: 'E', a: mu, b: rho}, {k: 'e', a: mu, b: rho}, {k: 'D', i: 0}, {k: 'D', i: 1}}
	tc := e.seqCase(id, a, ops)
	tc.class = "elgamal-sampled/" + e.nm
	// the sampled objects themselves must agree with the re-constructed ones
	pt, _ := elgamal.NewPlaintext(e.pow(mu))
	c, err := sk.EncryptWithNonce(pt, nn)
	if err != nil || !c.Value().Components()[0].Equal(e.pow(rho)) || !sk.Public().Value().Equal(e.pow(a)) {
		tc.impl[0] = "bad-sampled"
	}
	return tc
}

func (e *eg[E, S]) keyCases(id string) []*testCase {
	var out []*testCase
	q1 := new(big.Int).Sub(e.q, one)
	for i, a := range []*big.Int{big.NewInt(0), big.NewInt(1), big.NewInt(2), q1, new(big.Int).Set(e.q), new(big.Int).Add(e.q, one)} {
		impl := ""
		var err error
		pan := vh.Safely(func() {
			var sk *elgamal.SecretKey[E, S]
			if sk, err = elgamal.NewSecretKey(e.g.Generator(), e.scalar(a)); err == nil {
				impl = zh(e.sbig(sk.Value()))
				if !sk.Public().Value().Equal(e.pow(a)) {
					impl = "bad-public"
				}
			}
		})
		impl = errTok(err, pan, func() string { return impl })
		am := bmod(a, e.q)
		oracle := zh(am)
		if am.Sign() == 0 || am.Cmp(one) == 0 {
			oracle = "ERR"
		}
		out = append(out, single(fmt.Sprintf("M %s:%s.%d %s sk %s", e.nm, id, i, zh(e.q), zh(a)), "elgamal-key/"+e.nm, "elgamal-"+e.nm+"-new-secret-key", "ElGamal NewSecretKey refusals", impl, oracle))
	}
	for i, h := range []*big.Int{big.NewInt(0), big.NewInt(1), big.NewInt(5)} {
		impl := ""
		var err error
		pan := vh.Safely(func() {
			var pk *elgamal.PublicKey[E, S]
			if pk, err = elgamal.NewPublicKey(e.pow(h)); err == nil {
				impl = zh(h)
				if !pk.Value().Equal(e.pow(h)) {
					impl = "bad-public"
				}
			}
		})
		impl = errTok(err, pan, func() string { return impl })
		oracle := zh(h)
		if h.Sign() == 0 {
			oracle = "ERR"
		}
		out = append(out, single(fmt.Sprintf("M %s:%s.p%d %s pk %s", e.nm, id, i, zh(e.q), zh(h)), "elgamal-key/"+e.nm, "elgamal-"+e.nm+"-new-public-key", "ElGamal NewPublicKey refusals", impl, oracle))
	}
	return out
}

// plaintext / nonce algebra of the key
func (e *eg[E, S]) algCases(id string, r *vh.Rng) []*testCase {
	sk, err := elgamal.NewSecretKey(e.g.Generator(), e.scalar(big.NewInt(7)))
	if err != nil {
		panic(err)
	}
	pk := sk.Public()
	var out []*testCase
	q := e.q
	pick := func() *big.Int {
		switch r.Intn(5) {
		case 0:
			return big.NewInt(0)
		case 1:
			return big.NewInt(1)
		case 2:
			return new(big.Int).Sub(q, one)
		default:
			return r.BigBelow(q)
		}
	}
	for i := 0; i < 8; i++ {
		a, b := pick(), pick()
		op := []string{"padd", "pneg", "pscale", "nadd", "nneg", "nscale", "pscale", "nscale"}[i]
		if i >= 6 {
			b = egWide(r, q) // scalar wider than / around the group order
		}
		var exp *big.Int
		okImpl := false
		var err error
		pan := vh.Safely(func() {
			pa, _ := elgamal.NewPlaintext(e.pow(a))
			pb, _ := elgamal.NewPlaintext(e.pow(b))
			na, _ := elgamal.NewNonce(e.scalar(a))
			nb, _ := elgamal.NewNonce(e.scalar(b))
			switch op {
			case "padd":
				exp = bmod(new(big.Int).Add(a, b), q)
				var p *elgamal.Plaintext[E, S]
				if p, err = pk.PlaintextOp(pa, pb); err == nil {
					okImpl = p.Value().Equal(e.pow(exp))
				}
			case "pneg":
				exp = bmod(new(big.Int).Neg(a), q)
				var p *elgamal.Plaintext[E, S]
				if p, err = pk.PlaintextOpInv(pa); err == nil {
					okImpl = p.Value().Equal(e.pow(exp))
				}
			case "pscale":
				exp = bmod(new(big.Int).Mul(a, b), q)
				var p *elgamal.Plaintext[E, S]
				if p, err = pk.PlaintextScalarOp(pa, e.scalar(b)); err == nil {
					okImpl = p.Value().Equal(e.pow(exp))
				}
			case "nadd":
				exp = bmod(new(big.Int).Add(a, b), q)
				var n *elgamal.Nonce[S]
				if n, err = pk.NonceOp(na, nb); err == nil {
					okImpl = e.sbig(n.Value()).Cmp(exp) == 0
				}
			case "nneg":
				exp = bmod(new(big.Int).Neg(a), q)
				var n *elgamal.Nonce[S]
				if n, err = pk.NonceOpInv(na); err == nil {
					okImpl = e.sbig(n.Value()).Cmp(exp) == 0
				}
			case "nscale":
				exp = bmod(new(big.Int).Mul(a, b), q)
				var n *elgamal.Nonce[S]
				if n, err = pk.NonceScalarOp(na, e.scalar(b)); err == nil {
					okImpl = e.sbig(n.Value()).Cmp(exp) == 0
				}
			}
		})
		impl := errTok(err, pan, func() string {
			if okImpl {
				return zh(exp)
			}
			return "bad"
		})
		args := zh(a)
		if op != "pneg" && op != "nneg" {
			args += " " + zh(b)
		}
		out = append(out, single(fmt.Sprintf("J %s:%s.%d %s %s %s", e.nm, id, i, zh(q), op, args), "elgamal-algebra/"+e.nm, "elgamal-"+e.nm+"-"+op, "ElGamal plaintext/nonce algebra", impl, zh(exp)))
	}
	return out
}

// egWide: scalars around and beyond the natural widths of the group order q
func egWide(r *vh.Rng, q *big.Int) *big.Int {
	bq := uint(q.BitLen())
	pow2 := func(e uint) *big.Int { return new(big.Int).Lsh(one, e) }
	var x *big.Int
	switch r.Intn(14) {
	case 0:
		x = new(big.Int).Set(q)
	case 1:
		x = new(big.Int).Add(q, one)
	case 2:
		x = new(big.Int).Sub(pow2(256), one)
	case 3:
		x = new(big.Int).Add(pow2(256), one)
	case 4:
		x = pow2(bq)
	case 5:
		x = new(big.Int).Add(new(big.Int).Mul(q, big.NewInt(int64(2+r.Intn(4)))), big.NewInt(int64(r.Intn(9))))
	case 6:
		x = new(big.Int).Add(pow2(2*bq), big.NewInt(int64(r.Intn(5))))
	case 7:
		x = new(big.Int).Mul(q, q)
	case 8:
		x = r.BigBits(int(bq) * 3 / 2)
	case 9:
		x = r.BigBits(int(bq)*2 + 64)
	case 10:
		x = r.BigBits(int(bq) * 3)
	case 11:
		x = new(big.Int).Add(pow2(512), one)
	case 12:
		x = new(big.Int).Sub(q, one)
	default:
		x = new(big.Int).Add(new(big.Int).Mul(q, q), new(big.Int).Add(q, two))
	}
	if r.Bool() {
		x.Neg(x)
	}
	return x
}

func genEgSeq(r *vh.Rng, q *big.Int, maxLen int) []pop {
	pick := func() *big.Int {
		if r.Intn(4) == 0 {
			return egWide(r, q)
		}
		switch r.Intn(8) {
		case 0:
			return big.NewInt(0)
		case 1:
			return big.NewInt(1)
		case 2:
			return new(big.Int).Sub(q, one)
		case 3:
			return r.BigBits(1 + r.Intn(32))
		default:
			return r.BigBelow(q)
		}
	}
	var ops []pop
	nreg := 0
	add := func(o pop) {
		ops = append(ops, o)
		if o.k != 'D' {
			nreg++
		}
	}
	enc := func() {
		k := byte('E')
		if r.Bool() {
			k = 'e'
		}
		add(pop{k: k, a: pick(), b: pick()})
	}
	enc()
	n := 1 + r.Intn(maxLen)
	for len(ops) < n {
		switch c := r.Intn(12); {
		case c < 3:
			enc()
		case c < 5:
			add(pop{k: 'A', i: r.Intn(nreg), j: r.Intn(nreg)})
		case c < 7:
			add(pop{k: 'S', i: r.Intn(nreg), a: pick()})
		case c < 8:
			add(pop{k: 'I', i: r.Intn(nreg)})
		case c < 10:
			add(pop{k: 'H', i: r.Intn(nreg), a: pick()})
		case c < 11:
			add(pop{k: 'R', i: r.Intn(nreg), a: pick()})
		default:
			add(pop{k: 'r', i: r.Intn(nreg), a: pick()})
		}
	}
	add(pop{k: 'D', i: nreg - 1})
	if nreg > 1 {
		add(pop{k: 'D', i: r.Intn(nreg - 1)})
	}
	return ops
}

func parseEgOps(s string) []pop {
	var ops []pop
	for _, t := range strings.Split(s, ";") {
		f := strings.Split(t, ",")
		o := pop{k: f[0][0]}
		at := func(i int) int { v, _ := strconv.Atoi(f[i]); return v }
		switch o.k {
		case 'E', 'e':
			o.a, o.b = uz(f[1]), uz(f[2])
		case 'A':
			o.i, o.j = at(1), at(2)
		case 'S', 'H', 'R', 'r':
			o.i, o.a = at(1), uz(f[2])
		case 'I', 'D':
			o.i = at(1)
		}
		ops = append(ops, o)
	}
	return ops
}

func groups() []egroup {
	return []egroup{
		newEg("k256", elgamal.FiniteCyclicGroup[*k256.Point, *k256.Scalar](k256.NewCurve())),
		newEg("p256", elgamal.FiniteCyclicGroup[*p256.Point, *p256.Scalar](p256.NewCurve())),
		newEg("ed25519", elgamal.FiniteCyclicGroup[*edwards25519.PrimeSubGroupPoint, *edwards25519.Scalar](edwards25519.NewPrimeSubGroup())),
		newEg("bls12381g1", elgamal.FiniteCyclicGroup[*bls12381.PointG1, *bls12381.Scalar](bls12381.NewG1())),
		newEg("bls12381g2", elgamal.FiniteCyclicGroup[*bls12381.PointG2, *bls12381.Scalar](bls12381.NewG2())),
	}
}

// ---------------------------------------------------------------------------------------
// replay: rebuild a case from its driver line
// ---------------------------------------------------------------------------------------

func caseFromLine(line string) *testCase {
	f := strings.Fields(line)
	switch f[0] {
	case "P":
		k, err := buildKey("replay", uz(f[2]), uz(f[3]))
		if err != nil {
			panic(err)
		}
		var ops []pop
		for _, t := range strings.Split(f[4], ";") {
			ops = append(ops, parsePop(t))
		}
		return paillierSeqCase(f[1], k, ops)
	case "Q":
		k := keyByN(uz(f[2]))
		var args []*big.Int
		for _, a := range f[4:] {
			args = append(args, uz(a))
		}
		return k.qCase(f[1], f[3], args...)
	case "K":
		k, err := buildKey("replay", uz(f[2]), uz(f[3]))
		if err != nil {
			panic(err)
		}
		var args []*big.Int
		for _, a := range f[5:] {
			args = append(args, uz(a))
		}
		return k.kCase(f[1], f[4], args...)
	case "G":
		ml, _ := strconv.Atoi(f[2])
		return keyCase(f[1], ml, uz(f[3]), uz(f[4]))
	case "B":
		ml, _ := strconv.Atoi(f[2])
		return pubKeyCase(f[1], ml, uz(f[3]))
	case "F":
		k, err := buildKey("replay", uz(f[2]), uz(f[3]))
		if err != nil {
			panic(err)
		}
		other := keyByN(uz(f[4]))
		m := other.oracleDecrypt(uz(f[5]))
		return foreignCase(f[1], k, other, m, other.oracleNonce(uz(f[5]), m))
	case "C":
		var items [][2]*big.Int
		p, q := uz(f[2]), uz(f[3])
		for _, t := range strings.Split(f[5], ",") {
			ab := strings.Split(t, ":")
			switch f[4] {
			case "rec2", "rec1":
				// residues -> the value they stand for (math/big CRT)
				P, Q := new(big.Int).Set(p), new(big.Int).Set(q)
				if f[4] == "rec2" {
					P.Mul(p, p)
					Q.Mul(q, q)
				}
				h := new(big.Int).Sub(uz(ab[0]), uz(ab[1]))
				h.Mul(h, new(big.Int).ModInverse(Q, P)).Mod(h, P)
				items = append(items, [2]*big.Int{h.Mul(h, Q).Add(h, uz(ab[1])), nil})
			default:
				it := [2]*big.Int{uz(ab[0]), nil}
				if len(ab) > 1 {
					it[1] = uz(ab[1])
				}
				items = append(items, it)
			}
		}
		return lowCase(f[1], p, q, f[4], items)
	case "R":
		P, Q := uz(f[2]), uz(f[3])
		var xs []*big.Int
		for _, t := range strings.Split(f[4], ",") {
			ab := strings.Split(t, ":")
			h := new(big.Int).Sub(uz(ab[0]), uz(ab[1]))
			h.Mul(h, new(big.Int).ModInverse(Q, P)).Mod(h, P)
			xs = append(xs, h.Mul(h, Q).Add(h, uz(ab[1])))
		}
		return crtCase(f[1], P, Q, xs)
	case "T":
		return keyByN(uz(f[2])).textbookCase(f[1], uz(f[3]), uz(f[4]), strings.HasSuffix(f[1], "s"))
	case "L":
		nm := strings.SplitN(f[1], ":", 2)
		for _, g := range groups() {
			if g.name() == nm[0] {
				return g.seqCase(nm[1], uz(f[3]), parseEgOps(f[4]))
			}
		}
	}
	panic("cannot replay line " + line)
}

func keyByN(N *big.Int) *pkey {
	for _, k := range keyCache {
		if k.N.Cmp(N) == 0 {
			return k
		}
	}
	panic("replay: no stored key with modulus " + zh(N))
}

// ---------------------------------------------------------------------------------------
// main
// ---------------------------------------------------------------------------------------

func compare(res *vh.Result, a vh.Args, cases []*testCase, searchOnly bool) {
	lines := make([]string, len(cases))
	for i, c := range cases {
		lines[i] = c.line
	}
	model, err := vh.Driver(a.Driver, lines)
	if err != nil {
		res.Mismatch(vh.Mismatch{ID: "driver", Kind: "corr", Key: "c16-driver-failed", Detail: err.Error(), Case: "-", What: "model driver"})
		return
	}
	for i, c := range cases {
		f := strings.SplitN(model[i], " ", 3)
		var mt []string
		if len(f) == 3 {
			mt = strings.Split(f[2], ";")
		}
		if len(mt) != len(c.impl) {
			res.Mismatch(vh.Mismatch{ID: c.line[:min(40, len(c.line))], Kind: "corr", Key: "c16-model-output-shape", Detail: "model: " + model[i], Case: c.line, What: c.what})
			continue
		}
		for n := range c.impl {
			res.Count(c.class+":"+c.names[n], c.line+"#"+strconv.Itoa(n), c.impl[n] != "ERR")
			// a panic out of a public operation on admissible inputs is a failure of the property itself
			propFail := (c.oracle[n] != "" && c.impl[n] != c.oracle[n]) || strings.Contains(c.impl[n], "PANIC")
			corrOK := true
			detail := ""
			if c.cmpTok != nil {
				corrOK, detail = c.cmpTok(n, mt[n])
			} else if mt[n] != c.impl[n] {
				corrOK = false
				detail = fmt.Sprintf("implementation %s, model %s", c.impl[n], mt[n])
			}
			if corrOK && !propFail {
				continue
			}
			if searchOnly && !propFail {
				continue
			}
			cs := c.line
			if c.shrink != nil {
				cs = c.shrink(n)
			}
			kind := "corr"
			if corrOK {
				kind = "prop"
			}
			if propFail {
				detail += fmt.Sprintf("; implementation %s, math/big oracle %s", c.impl[n], c.oracle[n])
			}
			res.Mismatch(vh.Mismatch{
				ID: fmt.Sprintf("%s#%d", f[1], n), Kind: kind, Key: c.names[n], Detail: fmt.Sprintf("op %d of the generated sequence (the replay case keeps only the operations it depends on): %s", n, detail),
				Case: cs, PropFail: propFail, What: c.what,
			})
			break // later tokens of the same sequence depend on this one
		}
	}
}

func main() {
	a := vh.ParseArgs()
	res := vh.NewResult("C16", a.Seed, a.Tier)
	res.Rule = "Paillier: keys general/Blum/safe at 2048 bits (NewLegacySecretKey floor) and general 3072 (NewSecretKey floor), stored in corpus/c16/keys.txt (all flavours at 3072 in the thorough tier); random register-machine sequences (<= 8 ops quick, <= 30 thorough) of encrypt / op / 3-ary op / scalar / shift / re-randomise / inverse / raw unit, each on the public-key or the secret-key (CRT) path at random, then Decrypt and Open; plaintexts 0, 1, N-1, +-floor(N/2) and neighbours, multiples of p and q; nonces 1, 2, N-1, N-2, random; scalars 0, +-1, +-2, +-N, +-(N+-1), > N, multiples of phi(p^2), +-N^2, lambda; per key a set of wide scalars on both paths and on plaintext / nonce scaling: +-(2^bitlen(N^2)+3), -2^bitlen(N^2), 3N^2+7, -(5N^2+1), N^2+1, 2^(2 bitlen(N^2))+1 plus random picks (all of +-(N-1), +-N, +-(N^2+-1), +-2^bitlen(N), k N^2+small, random 1.5x and 3x bitlen(N^2) in the thorough tier); ElGamal scalars/nonces +-q, +-(q+1), 2^256+-1, q^2, wider than 2 bitlen(q) bits, passed unreduced to the library. Every token is compared model = implementation (corr) and implementation = math/big textbook oracle (prop). Keys from CALLER-SUPPLIED primes through NewPaillierGroup + NewLegacySecretKey, in both orders (p,q) and (q,p): p ~ 1.99*2^1023 with q ~ 1.40*2^1023, primes either side of sqrt(2)*2^1023, both just above 2^1024, just below 2^1025 with just above 2^1024 (stored in corpus/c16/keys.txt; a 2047-bit product as refusal case): secret-key encryptions, scalings, inversion, re-randomisation, shift, IdentityNoise against the public path, the textbook formula and the model (full treatment in the thorough tier). Lower layers directly (modular.NewOddPrimeSquareFactors / OddPrimeFactors, crt.NewParamsExtended, znstar.NewPaillierGroup known- and unknown-order elements) with small and unbalanced primes (7,5), (13,11), (127,67), (251,181), (251,227), 32/64/256-bit pairs around sqrt(2)*2^(k-1), both orders: Recombine mod N and N^2, ModExp, ModInv, ExpToN, ModMul on exhaustive (small) or random residues incl. the top of the range, and Recombine for arbitrary coprime moduli of different lengths, each = math/big = model. Single-operation cases for constructors, symmetric range, plaintext/nonce algebra on both paths, key-size floors. ElGamal on k256, p256, ed25519 prime subgroup, BLS12-381 G1 and G2 through the exponent: model exponents e are checked as g^e == implementation point. One evaluation = one operation token; non-trivial = not refused."

	var cases []*testCase
	if a.Replay != "" {
		b, err := os.ReadFile(a.Replay)
		if err != nil {
			panic(err)
		}
		// stored keys are needed for Q/T lines
		loadKeys([]keySpec{{"general", 2048}, {"blum", 2048}, {"safe", 2048}, {"general", 3072}}, res)
		for _, l := range strings.Split(string(b), "\n") {
			if strings.HasPrefix(l, "case: ") {
				cases = append(cases, caseFromLine(strings.TrimPrefix(l, "case: ")))
			}
		}
		compare(res, a, cases, false)
		res.Write(a.Out)
		return
	}

	thorough := a.Tier == "thorough"
	want := []keySpec{{"general", 2048}, {"blum", 2048}, {"safe", 2048}, {"general", 3072}}
	if thorough {
		want = append(want, keySpec{"blum", 3072}, keySpec{"safe", 3072})
	}
	// keys from caller-supplied primes, in both orders (the CRT code treats p and q asymmetrically)
	var callerWant []keySpec
	for _, w := range []keySpec{{"unbal", 2048}, {"sqrt2", 2048}, {"lowlow", 2049}, {"hilow", 2049}} {
		callerWant = append(callerWant, w, keySpec{w.flavour + "-swap", w.bits})
	}
	want = append(want, callerWant...)
	t0 := time.Now()
	mark := func(what string) { res.Note("t[%s]=%.1fs", what, time.Since(t0).Seconds()); t0 = time.Now() }
	keys := loadKeys(want, res)
	mark("load keys")
	belowFloor := loadKeys([]keySpec{{"hilow1024", 2047}}, res)[0]

	nseq, maxLen, nsingle, egSeq, egLen := 14, 8, 2, 12, 8
	if thorough {
		nseq, maxLen, nsingle, egSeq, egLen = 120, 30, 8, 150, 30
	}
	if a.Search {
		nseq, nsingle, egSeq = nseq*4, nsingle*3, egSeq*4
	}
	stream := "main"
	if a.Search {
		stream = "search"
	}

	for ki, k := range keys {
		r := vh.NewRng(a.Seed, "C16", stream+"/paillier-seq", ki)
		ns := nseq
		if k.bits >= 3072 && !thorough {
			ns = nseq / 3
		}
		if k.caller {
			// every CRT recombination modulo N^2 on the secret-key path, against the public path,
			// the textbook formula and the model
			var ops []pop
			for j := 0; j < 6; j++ {
				ops = append(ops, pop{k: 'e', a: k.genPlain(r), b: k.genNonce(r)})
			}
			ops = append(ops, pop{k: 'E', a: big.NewInt(0), b: new(big.Int).Sub(k.N, one)}, pop{k: 'e', a: big.NewInt(0), b: new(big.Int).Sub(k.N, one)},
				pop{k: 's', i: 0, a: k.genScalar(r, false)}, pop{k: 's', i: 1, a: big.NewInt(-1)}, pop{k: 'i', i: 2}, pop{k: 'r', i: 3, a: k.genNonce(r)},
				pop{k: 'h', i: 4, a: k.genPlain(r)}, pop{k: 'a', i: 5, j: 6}, pop{k: 'I', i: 2}, pop{k: 'S', i: 1, a: big.NewInt(-1)},
				pop{k: 'D', i: 8}, pop{k: 'D', i: 10}, pop{k: 'O', i: 11}, pop{k: 'O', i: 0}, pop{k: 'O', i: 13})
			if !thorough && (strings.HasPrefix(k.flavour, "sqrt2") || strings.HasPrefix(k.flavour, "lowlow")) {
				// quick tier: a shorter sequence for the nearly balanced pairs
				ops = []pop{{k: 'e', a: k.genPlain(r), b: k.genNonce(r)}, {k: 'e', a: k.genPlain(r), b: k.genNonce(r)}, {k: 'e', a: big.NewInt(0), b: new(big.Int).Sub(k.N, one)},
					{k: 's', i: 0, a: big.NewInt(-1)}, {k: 'i', i: 1}, {k: 'r', i: 2, a: k.genNonce(r)}, {k: 'D', i: 3}, {k: 'O', i: 4}, {k: 'O', i: 5}}
			}
			cases = append(cases, paillierSeqCase(fmt.Sprintf("%s%d.crt", k.flavour, k.bits), k, ops))
			nn := 1
			if thorough {
				nn = 4
			}
			for i := 0; i < nn; i++ {
				u := k.genNonce(r)
				cases = append(cases, k.kCase(fmt.Sprintf("%s%d.noise%d", k.flavour, k.bits, i), "noise", u))
			}
			if !thorough {
				continue
			}
			ns = nseq / 4
		}
		for s := 0; s < ns; s++ {
			// in the quick tier most sequences use cheap (short) scalars; the big ones are
			// exercised by every third sequence
			cheap := !thorough && s%3 != 0
			cases = append(cases, paillierSeqCase(fmt.Sprintf("%s%d.%d", k.flavour, k.bits, s), k, k.genSeq(r, maxLen, cheap)))
		}
		// fixed boundary sequence: symmetric range ends, nonces 1 and N-1, scalars -1, 0, N+1 on both paths
		half := new(big.Int).Rsh(k.N, 1)
		nm1 := new(big.Int).Sub(k.N, one)
		fixed := []pop{
			{k: 'E', a: new(big.Int).Neg(half), b: big.NewInt(1)}, {k: 'e', a: half, b: nm1},
			{k: 'A', i: 0, j: 1}, {k: 'a', i: 0, j: 1},
			{k: 'S', i: 0, a: big.NewInt(-1)}, {k: 's', i: 0, a: big.NewInt(-1)},
			{k: 'S', i: 1, a: big.NewInt(0)}, {k: 's', i: 1, a: new(big.Int).Add(k.N, one)},
			{k: 'H', i: 1, a: big.NewInt(1)}, {k: 'h', i: 0, a: big.NewInt(-1)},
			{k: 'R', i: 8, a: nm1}, {k: 'r', i: 9, a: big.NewInt(2)},
			{k: 'I', i: 10}, {k: 'i', i: 11},
			{k: 'D', i: 0}, {k: 'D', i: 1}, {k: 'D', i: 2}, {k: 'O', i: 8}, {k: 'O', i: 9}, {k: 'O', i: 12}, {k: 'O', i: 13}, {k: 'D', i: 6}, {k: 'O', i: 7},
		}
		cases = append(cases, paillierSeqCase(fmt.Sprintf("%s%d.fixed", k.flavour, k.bits), k, fixed))

		// plaintexts carried in rings Z_M (M = N, N-1, 2^61-1, secp256k1 q, q^2, 2, 3, 65537; M > N refused)
		if thorough || k.bits < 3072 {
			rr := vh.NewRng(a.Seed, "C16", stream+"/paillier-ring", ki)
			okM, bigM := k.rings()
			ringOps := k.ringSeq(rr)
			full := thorough || k.flavour == "general"
			if !full {
				// quick tier, other keys: a shorter sequence (M = N-1, q, q^2, 2; one refusal)
				ringOps = nil
				for _, M := range []*big.Int{okM[1], okM[3], okM[4], okM[5]} {
					ringOps = append(ringOps, pop{k: 'F', m: M, a: new(big.Int).Sub(M, one), b: k.genNonce(rr)})
				}
				ringOps = append(ringOps, pop{k: 'F', m: bigM[0], a: new(big.Int).Set(k.N), b: big.NewInt(2)},
					pop{k: 'G', i: 0, m: okM[1], a: big.NewInt(3)}, pop{k: 'g', i: 1, m: k.N, a: big.NewInt(3)},
					pop{k: 'D', i: 0}, pop{k: 'D', i: 1}, pop{k: 'D', i: 2}, pop{k: 'D', i: 3}, pop{k: 'O', i: 1})
			}
			cases = append(cases, paillierSeqCase(fmt.Sprintf("%s%d.ring", k.flavour, k.bits), k, ringOps))
			idr := func(s string, i int) string { return fmt.Sprintf("%s%d.%s%d", k.flavour, k.bits, s, i) }
			for i, M := range append(append([]*big.Int{}, okM...), bigM...) {
				cases = append(cases, k.qCase(idr("repM", i), "repM", M, new(big.Int).Sub(M, one)))
			}
			for i, M := range []*big.Int{okM[0], okM[1], okM[3]} {
				x := genRingValue(rr, M)
				cases = append(cases, k.qCase(idr("paddM", i), "paddM", M, x, k.genPlain(rr)), k.qCase(idr("pscaleM", i), "pscaleM", M, x, k.genScalar(rr, true)))
			}
			sampled := []*big.Int{okM[0], okM[3], okM[4], okM[5]}
			if !full {
				sampled = sampled[1:2]
			}
			for i, M := range sampled {
				cases = append(cases, k.encryptSampledCase(idr("encS", i), M, genRingValue(rr, M), rr))
			}
		}
		// scalars around and beyond every natural width, on both paths; decrypt both results
		rw := vh.NewRng(a.Seed, "C16", stream+"/paillier-wide", ki)
		wide := k.pickWide(rw, thorough, 2)
		for wi, sc := range wide {
			ops := []pop{{k: 'E', a: k.genPlain(rw), b: k.genNonce(rw)}, {k: 'S', i: 0, a: sc}, {k: 's', i: 0, a: sc}, {k: 'D', i: 1}, {k: 'D', i: 2}}
			if wi%2 == 1 {
				ops[0].k = 'e'
			}
			cases = append(cases, paillierSeqCase(fmt.Sprintf("%s%d.wide%d", k.flavour, k.bits, wi), k, ops))
		}
		// the same scalars on plaintexts and on nonces (public and CRT path)
		{
			idw := func(s string, i int) string { return fmt.Sprintf("%s%d.%s%d", k.flavour, k.bits, s, i) }
			u := k.genNonce(rw)
			x := bmod(k.genPlain(rw), k.N)
			for wi, sc := range wide {
				cases = append(cases, k.qCase(idw("pscale-wide", wi), "pscale", x, sc),
					k.qCase(idw("nscale-wide", wi), "nscale", u, sc), k.kCase(idw("nscale-wide", wi), "nscale", u, sc))
			}
		}

		if k.bits >= 3072 && !thorough {
			continue
		}
		rs := vh.NewRng(a.Seed, "C16", stream+"/paillier-single", ki)
		id := func(s string, i int) string { return fmt.Sprintf("%s%d.%s%d", k.flavour, k.bits, s, i) }
		// symmetric range and constructors: always the boundaries
		negHalf := new(big.Int).Neg(half)
		for i, x := range []*big.Int{big.NewInt(0), big.NewInt(1), big.NewInt(-1), half, new(big.Int).Add(half, one), new(big.Int).Sub(half, one),
			negHalf, new(big.Int).Sub(negHalf, one), new(big.Int).Add(negHalf, one), nm1, k.N, new(big.Int).Neg(k.N)} {
			cases = append(cases, k.qCase(id("sym", i), "sym", x), k.qCase(id("nat", i), "nat", x))
			if x.Sign() >= 0 && x.Cmp(k.N) < 0 {
				cases = append(cases, k.qCase(id("norm", i), "norm", x), k.qCase(id("rep", i), "rep", x))
			}
		}
		// NewNonce: units of Z_N accepted, 0 / N / multiples of a factor refused (values above N are
		// left out: whether they are reduced or refused is not part of the property)
		for i, x := range []*big.Int{big.NewInt(0), big.NewInt(1), two, nm1, k.N, k.p, new(big.Int).Mul(k.q, two), new(big.Int).Sub(k.N, k.p)} {
			cases = append(cases, k.qCase(id("unit", i), "unit", x))
		}
		// nonce-group scaling with exponents above the prime factors (reduced exponents on the CRT path)
		{
			u := k.genNonce(rs)
			phi1 := new(big.Int).Add(new(big.Int).Mul(new(big.Int).Sub(k.p, one), new(big.Int).Sub(k.q, one)), one)
			for i, sc := range []*big.Int{new(big.Int).Add(k.N, one), new(big.Int).Neg(new(big.Int).Add(k.N, one)), k.p, new(big.Int).Neg(k.q), phi1,
				rs.BigBits(k.bits + 40), new(big.Int).Neg(rs.BigBits(k.bits/2 + 3))} {
				cases = append(cases, k.qCase(id("nscale-big", i), "nscale", u, sc), k.kCase(id("nscale-big", i), "nscale", u, sc))
			}
		}
		for i := 0; i < nsingle; i++ {
			x, y := k.genPlain(rs), k.genPlain(rs)
			cases = append(cases,
				k.qCase(id("padd", i), "padd", bmod(x, k.N), bmod(y, k.N)),
				k.qCase(id("pneg", i), "pneg", bmod(x, k.N)),
				k.qCase(id("pscale", i), "pscale", bmod(x, k.N), k.genScalar(rs, false)),
				k.qCase(id("norm-r", i), "norm", bmod(x, k.N)))
			u, v := k.genNonce(rs), k.genNonce(rs)
			sc := k.genScalar(rs, !thorough && i > 0)
			cases = append(cases,
				k.qCase(id("nmul", i), "nmul", u, v), k.kCase(id("nmul", i), "nmul", u, v),
				k.qCase(id("ninv", i), "ninv", u), k.kCase(id("ninv", i), "ninv", u),
				k.qCase(id("nscale", i), "nscale", u, sc), k.kCase(id("nscale", i), "nscale", u, sc),
				k.qCase(id("noise", i), "noise", u), k.kCase(id("noise", i), "noise", u))
			cases = append(cases, k.textbookCase(id("tb", i)+"p", bmod(x, k.N), u, false), k.textbookCase(id("tb", i)+"s", bmod(y, k.N), v, true))
		}
	}
	// key-size floors and factor checks with the stored primes
	byKind := map[keySpec]*pkey{}
	for i, w := range want {
		byKind[w] = keys[i]
	}
	k2, k3 := byKind[keySpec{"general", 2048}], byKind[keySpec{"general", 3072}]
	kb := byKind[keySpec{"blum", 2048}]
	cases = append(cases,
		keyCase("floor.0", 3072, k2.p, k2.q), keyCase("floor.1", 2048, k2.p, k2.q),
		keyCase("floor.2", 3072, k3.p, k3.q), keyCase("floor.3", 2048, k3.p, k3.q),
		keyCase("floor.4", 2048, k2.p, k2.p), keyCase("floor.5", 2048, k2.p, k3.q),
		keyCase("floor.6", 2048, k2.p, kb.q), keyCase("floor.7", 3072, k2.p, kb.q),
		pubKeyCase("pfloor.0", 3072, k2.N), pubKeyCase("pfloor.1", 2048, k2.N),
		pubKeyCase("pfloor.2", 3072, k3.N), pubKeyCase("pfloor.3", 2048, k3.N),
		pubKeyCase("pfloor.4", 2048, new(big.Int).Rsh(k2.N, 1)))
	cases = append(cases,
		foreignCase("foreign.0", k2, kb, big.NewInt(5), big.NewInt(7)),
		foreignCase("foreign.1", kb, k2, big.NewInt(5), big.NewInt(7)),
		foreignCase("foreign.2", k2, k2, big.NewInt(5), big.NewInt(7)),
		foreignCase("foreign.3", k2, k3, big.NewInt(0), big.NewInt(1)))
	cases = append(cases, keyCase("floor.9", 2048, belowFloor.p, belowFloor.q), keyCase("floor.10", 2048, belowFloor.q, belowFloor.p))
	for i, w := range callerWant {
		if !thorough && i != 0 && i != 7 { // quick: one accepted pair in each order suffices (the keys above were all built)
			continue
		}
		ck := byKind[w]
		cases = append(cases, keyCase(fmt.Sprintf("floor.c%d", i), 2048, ck.p, ck.q))
	}
	cases = append(cases, keyCase("floor.c3072", 3072, byKind[callerWant[0]].p, byKind[callerWant[0]].q))
	// small primes far below the floor
	cases = append(cases, keyCase("floor.8", 2048, big.NewInt(1000003), big.NewInt(1000033)))

	mark("paillier cases")
	cases = append(cases, lowLevelCases(a.Seed, stream, thorough)...)
	mark("low-level cases")

	for gi, g := range groups() {
		r := vh.NewRng(a.Seed, "C16", stream+"/elgamal", gi)
		for s := 0; s < egSeq; s++ {
			var sa *big.Int
			switch s {
			case 0:
				sa = big.NewInt(2)
			case 1:
				sa = new(big.Int).Sub(g.order(), one)
			default:
				sa = r.BigBelow(g.order())
				if sa.Cmp(two) < 0 {
					sa = big.NewInt(3)
				}
			}
			cases = append(cases, g.seqCase(strconv.Itoa(s), sa, genEgSeq(r, g.order(), egLen)))
		}
		// fixed wide-scalar sequence: scalars and nonces at and beyond the group order's widths
		{
			q := g.order()
			p256 := new(big.Int).Lsh(one, 256)
			wideOps := []pop{{k: 'E', a: big.NewInt(5), b: new(big.Int).Add(q, two)}, {k: 'e', a: big.NewInt(7), b: new(big.Int).Add(p256, one)}}
			ws := []*big.Int{new(big.Int).Set(q), new(big.Int).Add(q, one), new(big.Int).Neg(q), new(big.Int).Neg(new(big.Int).Add(q, one)),
				new(big.Int).Sub(p256, one), new(big.Int).Add(p256, one), r.BigBits(q.BitLen()*2 + 64), new(big.Int).Neg(r.BigBits(q.BitLen() * 3))}
			for i, w := range ws {
				wideOps = append(wideOps, pop{k: 'S', i: i % 2, a: w})
			}
			wideOps = append(wideOps, pop{k: 'R', i: 0, a: new(big.Int).Mul(q, q)}, pop{k: 'r', i: 1, a: new(big.Int).Neg(new(big.Int).Add(p256, two))})
			for i := 0; i < len(ws)+4; i++ {
				wideOps = append(wideOps, pop{k: 'D', i: i})
			}
			cases = append(cases, g.seqCase("wide", big.NewInt(11), wideOps))
		}
		for s := 0; s < 3; s++ {
			cases = append(cases, g.sampled("s"+strconv.Itoa(s), r))
		}
		cases = append(cases, g.keyCases("k")...)
		cases = append(cases, g.algCases("a", r)...)
	}

	mark("elgamal cases")
	compare(res, a, cases, a.Search)
	mark("model driver + compare")
	var names []string
	for _, k := range keys {
		names = append(names, fmt.Sprintf("%s-%d", k.flavour, k.bits))
	}
	sort.Strings(names)
	res.Note("Paillier keys: %s", strings.Join(names, ", "))
	res.Write(a.Out)
}
