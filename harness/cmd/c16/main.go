package main

import (
	"crypto/rand"
	"fmt"
	"os"
	"strconv"
	"time"

	"github.com/bronlabs/bron-crypto/pkg/base/nt/znstar"
)

func main() {
	fl := os.Args[1]
	bits, _ := strconv.Atoi(os.Args[2])
	t0 := time.Now()
	var g *znstar.PaillierGroupKnownOrder
	var err error
	switch fl {
	case "general":
		g, err = znstar.SamplePaillierGroup(uint(bits), rand.Reader)
	case "blum":
		g, err = znstar.SamplePaillierBlumGroup(uint(bits), rand.Reader)
	case "safe":
		g, err = znstar.SampleSafePaillierGroup(uint(bits), rand.Reader)
	}
	fmt.Fprintln(os.Stderr, fl, err, time.Since(t0))
	if g != nil {
		a := g.Arithmetic()
		fmt.Println(fl, bits, a.P.Factor.Nat().Big().Text(16), a.Q.Factor.Nat().Big().Text(16))
	}
}
