package main

import (
	"fmt"
	"math/big"

	"github.com/bronlabs/bron-crypto/pkg/base/nt/numct"
	"github.com/bronlabs/bron-crypto/pkg/base/nt/num"
)

func try(name string, f func()) {
	defer func() {
		if r := recover(); r != nil {
			fmt.Println(name, "PANIC:", r)
		}
	}()
	f()
}

func main() {
	try("divvartime small/large", func() {
		x := numct.NewNat(5)
		y := numct.NewNatFromBig(new(big.Int).Lsh(big.NewInt(1), 200), 201)
		var q, r numct.Nat
		ok := q.EuclideanDivVarTime(&r, x, y)
		fmt.Println("5 / 2^200:", ok, q.Big(), r.Big())
	})
	try("num.Nat small/large", func() {
		x := num.N().FromUint64(5)
		y, _ := num.N().FromBig(new(big.Int).Lsh(big.NewInt(1), 200))
		q, r, err := x.EuclideanDivVarTime(y)
		fmt.Println("num 5 / 2^200:", q, r, err)
	})
	try("lcm", func() {
		x := numct.NewNat(6)
		y := numct.NewNatFromBig(new(big.Int).Lsh(big.NewInt(1), 200), 201)
		var o numct.Nat
		numct.LCM(&o, x, y)
		fmt.Println("lcm", o.Big())
	})
	try("lsh", func() {
		x := numct.NewNatFromBig(big.NewInt(0x2f7549), 23)
		var o numct.Nat
		o.LshCap(x, 128, 129)
		fmt.Println("lsh", o.Big().Text(16), o.AnnouncedLen(), o.TrueLen())
		o.LshCap(x, 3, 10)
		fmt.Println("lsh", o.Big().Text(16), o.AnnouncedLen(), o.TrueLen())
	})
	try("add mutate", func() {
		x := numct.NewNatFromBig(big.NewInt(7), 64)
		y := numct.NewNatFromBig(big.NewInt(0x20408), 63)
		var o numct.Nat
		o.AddCap(x, y, 12)
		fmt.Println("add", o.Big().Text(16), "y now", y.Big().Text(16))
	})
}
