package main

import (
	"fmt"
	"math/big"

	"github.com/bronlabs/bron-crypto/pkg/base/nt/numct"
)

func try(name string, f func()) {
	defer func() {
		if r := recover(); r != nil {
			fmt.Println(name, "PANIC:", r)
		}
	}()
	f()
}

func main() {
	try("add reused receiver", func() {
		z := numct.NewIntFromBig(new(big.Int).Lsh(big.NewInt(1), 100), 101)
		x := numct.NewIntFromBig(big.NewInt(1), 64)
		y := numct.NewIntFromBig(big.NewInt(1), 64)
		z.Add(x, y)
		fmt.Println("z(previously 2^100).Add(1,1) =", z.Big().Text(16))
		z2 := numct.NewIntFromBig(new(big.Int).Lsh(big.NewInt(1), 100), 101)
		z2.Add(z2, x)
		fmt.Println("z=2^100; z.Add(z,1) =", z2.Big().Text(16))
		y3 := numct.NewIntFromBig(new(big.Int).Lsh(big.NewInt(0x21), 64), 71)
		y3.Add(x, y3)
		fmt.Println("y=0x21<<64; y.Add(1,y) =", y3.Big().Text(16))
	})
	try("neg zero", func() {
		a := numct.NewInt(-3)
		b := numct.NewInt(0)
		var p numct.Int
		p.Mul(a, b)
		lt, eq, gt := p.Compare(numct.IntZero())
		fmt.Println("(-3*0): IsNegative", p.IsNegative(), "compare with 0 lt,eq,gt =", lt, eq, gt, "IsZero", p.IsZero(), "bytes", p.Bytes())
		var s numct.Int
		fmt.Println("sqrt(-3*0) ok =", s.Sqrt(&p))
	})
}
