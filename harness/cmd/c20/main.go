// c20 — correspondence harness for property C20 (interpolation and linear algebra over the
// scalar fields are exact).  See /verif/DESIGN.md §5 C20.
//
// Case text (canonical, replayable, one line):   OP field arg ... [hint=value ...]
//
//	field   k256 | p256 | edwards25519 | pallas | vesta | bls12381
//	scalar  lower-case hex in [0,q);  vector e,e,... ("-" empty);  matrix RxC:e,e,... row-major;
//	js (derivative orders) hex uint64 list;  nat decimal
//	hints   exp=solvable|unsolvable|invertible|singular  det=<hex>  poly=<coefficients>  (facts known
//	        by construction, used only by the property predicate, never sent to the model)
//
// The model driver receives the same line with the field name replaced by q in hex and the
// hints dropped (see ocaml/c20/driver.ml).
package main

import (
	"fmt"
	"os"
	"strings"

	"github.com/bronlabs/bron-crypto/pkg/base/curves/edwards25519"
	"github.com/bronlabs/bron-crypto/pkg/base/curves/k256"
	"github.com/bronlabs/bron-crypto/pkg/base/curves/p256"
	"github.com/bronlabs/bron-crypto/pkg/base/curves/pairable/bls12381"
	"github.com/bronlabs/bron-crypto/pkg/base/curves/pasta"

	"verif/harness/internal/vh"
)

func allFields() []Field {
	return []Field{
		newField("k256", k256.NewScalarField(), k256.NewCurve()),
		newField("p256", p256.NewScalarField(), p256.NewCurve()),
		newField("edwards25519", edwards25519.NewScalarField(), edwards25519.NewPrimeSubGroup()),
		newField("pallas", pasta.NewPallasScalarField(), pasta.NewPallasCurve()),
		newField("vesta", pasta.NewVestaScalarField(), pasta.NewVestaCurve()),
		newField("bls12381", bls12381.NewScalarField(), bls12381.NewG1()),
	}
}

// what names the correspondence / theorems an operation is tied to.
var what = map[string]string{
	"SOLVE_R":      "correspondence solve_right (model/LinAlg.v) ~ mat.SolveRight [solve_sound, solve_complete]",
	"SOLVE_L":      "correspondence solve_left (model/LinAlg.v) ~ mat.SolveLeft [solve_sound, solve_complete]",
	"INV":          "correspondence try_inv ~ SquareMatrix.TryInv [inv_sound, inv_complete]",
	"DET":          "correspondence determinant ~ SquareMatrix.Determinant [det_zero_iff, det_value]",
	"MUL":          "correspondence try_mul/mmul ~ Matrix.TryMul [mmul_assoc]",
	"TRANSPOSE":    "correspondence transpose ~ Matrix.Transpose [transpose_mul]",
	"AUGMENT":      "correspondence augment ~ Matrix.Augment",
	"MINOR":        "correspondence minor ~ Matrix.Minor",
	"SETCOL":       "correspondence set_column ~ Matrix.SetColumn",
	"DOT":          "correspondence dot ~ mat.DotProduct",
	"IDENT":        "correspondence identity ~ MatrixAlgebra.Identity",
	"P_DETMUL":     "det(A*B) = det(A)*det(B) on the implementation",
	"P_MULT":       "(A*B)^T = B^T*A^T on the implementation [transpose_mul]",
	"P_ASSOC":      "(A*B)*C = A*(B*C) on the implementation [mmul_assoc]",
	"LIFT":         "correspondence lift ~ mat.Lift (through the exponent)",
	"LACT":         "correspondence left_action ~ mat.LeftAction (through the exponent) [lift_left_action]",
	"RACT":         "correspondence right_action ~ mat.RightAction (through the exponent)",
	"EVAL":         "correspondence peval ~ Polynomial.Eval",
	"DEGREE":       "correspondence pdegree ~ Polynomial.Degree",
	"DERIV":        "correspondence pderiv ~ Polynomial.Derivative",
	"GEVAL":        "correspondence gpeval/lift_poly ~ LiftPolynomial + ModuleValuedPolynomial.Eval (through the exponent)",
	"GDERIV":       "correspondence gpderiv/lift_poly ~ LiftPolynomial + ModuleValuedPolynomial.Derivative (through the exponent)",
	"BASIS":        "correspondence basis_at ~ lagrange.BasisAt [lagrange_interp]",
	"LAGRANGE":     "correspondence lagrange_interpolate_at ~ lagrange.InterpolateAt [lagrange_interp]",
	"LAGRANGE_EXP": "correspondence lagrange_interpolate_in_exponent_at ~ lagrange.InterpolateInExponentAt [interp_in_exponent]",
	"BVAND":        "correspondence build_vandermonde ~ vandermonde.BuildVandermondeMatrix",
	"VANDERMONDE":  "correspondence vandermonde_interpolate ~ vandermonde.Interpolate [vandermonde_interp]",
	"BBUILD":       "correspondence build_birkhoff/phi ~ birkhoff.BuildVandermondeMatrix",
	"BIRKHOFF":     "correspondence birkhoff_interpolate ~ birkhoff.Interpolate [birkhoff_interp]",
	"BIRKHOFF_EXP": "correspondence birkhoff_interpolate_in_exponent ~ birkhoff.InterpolateInExponent [birkhoff_interp]",
}

var propKey = map[string]string{
	"SOLVE_R": "solve-right", "SOLVE_L": "solve-left", "INV": "inv", "DET": "det", "MUL": "mul", "TRANSPOSE": "transpose",
	"AUGMENT": "augment", "MINOR": "minor", "SETCOL": "setcol", "DOT": "dot", "IDENT": "ident",
	"P_DETMUL": "det-multiplicative", "P_MULT": "transpose-mul", "P_ASSOC": "mul-assoc",
	"LIFT": "lift", "LACT": "left-action", "RACT": "right-action", "EVAL": "eval", "DEGREE": "degree", "DERIV": "deriv",
	"GEVAL": "eval-in-exponent", "GDERIV": "derivative-in-exponent", "BASIS": "lagrange-basis", "LAGRANGE": "lagrange",
	"LAGRANGE_EXP": "lagrange-exp", "BVAND": "vandermonde-matrix", "VANDERMONDE": "vandermonde", "BBUILD": "birkhoff-matrix",
	"BIRKHOFF": "birkhoff", "BIRKHOFF_EXP": "birkhoff-exp",
}

// plan: cases per field and stream.
type plan struct {
	solveR, solveL, inv, det, mul, transpose, misc, ident int
	poly, lagrange, vandermonde, birkhoff                 int
	action, gpoly, lagrangeExp, birkhoffExp               int
	bigEvery                                              int // one larger (up to 20x20) matrix every so many cases
	expDim, expNodes                                      int
}

func planFor(tier string, search bool) plan {
	p := plan{solveR: 40, solveL: 30, inv: 20, det: 25, mul: 15, transpose: 6, misc: 10, ident: 10,
		poly: 22, lagrange: 18, vandermonde: 12, birkhoff: 13,
		action: 7, gpoly: 4, lagrangeExp: 3, birkhoffExp: 4, bigEvery: 23, expDim: 3, expNodes: 4}
	if tier == "thorough" {
		p = plan{solveR: 560, solveL: 420, inv: 280, det: 350, mul: 200, transpose: 60, misc: 140, ident: 140,
			poly: 300, lagrange: 250, vandermonde: 170, birkhoff: 180,
			action: 80, gpoly: 40, lagrangeExp: 40, birkhoffExp: 50, bigEvery: 11, expDim: 4, expNodes: 5}
	}
	if search {
		// ~10x the quick budget on the classes where the algorithms branch: rank-deficient, permuted,
		// zero-pivot matrices and duplicate-node sets.  Only the property predicate is evaluated.
		p = plan{solveR: 400, solveL: 300, inv: 250, det: 300, mul: 100, transpose: 20, misc: 40, ident: 120,
			poly: 200, lagrange: 180, vandermonde: 120, birkhoff: 130,
			action: 40, gpoly: 20, lagrangeExp: 20, birkhoffExp: 25, bigEvery: 17, expDim: 3, expNodes: 4}
	}
	return p
}

var searchSystemKinds = []string{"rankdef-planted", "rankdef-unsolvable", "zerolines", "sparse", "perm", "rankdef-random", "zeropivot", "dup-unsolvable", "planted"}
var searchSquareKinds = []string{"permtri", "tern-permtri", "permdiag", "antiblock", "sparse", "rankdef", "duprow", "zerorow", "zerocol", "ldu", "triangular"}

// generate builds the case list of one field (deterministic in seed, field and plan only).
func generate(seed int64, fi int, f Field, pl plan, search bool) []*Case {
	var out []*Case
	name := f.Name()
	rng := func(stream string, i int) *G { return &G{r: vh.NewRng(seed, "C20", stream+"/"+name, i), q: f.Q()} }
	sk, qk := systemKinds, squareKinds
	if search {
		sk, qk = searchSystemKinds, searchSquareKinds
	}
	for i := 0; i < pl.solveR; i++ {
		out = append(out, rng("solve_right", i).genSolve(name, true, i*7+fi*11, i%pl.bigEvery == pl.bigEvery-1, sk))
	}
	for i := 0; i < pl.solveL; i++ {
		out = append(out, rng("solve_left", i).genSolve(name, false, i*5+fi*13+3, i%pl.bigEvery == pl.bigEvery-1, sk))
	}
	for i := 0; i < pl.inv; i++ {
		out = append(out, rng("inv", i).genSquareOp("INV", name, i%pl.bigEvery == pl.bigEvery-1, qk))
	}
	for i := 0; i < pl.det; i++ {
		out = append(out, rng("det", i).genSquareOp("DET", name, i%pl.bigEvery == pl.bigEvery-1, qk))
	}
	for i := 0; i < pl.mul; i++ {
		out = append(out, rng("mul", i).genMul(name, i%pl.bigEvery == pl.bigEvery-1))
	}
	for i := 0; i < pl.transpose; i++ {
		out = append(out, rng("transpose", i).genTranspose(name, i*9+fi*7))
	}
	for i := 0; i < pl.misc; i++ {
		out = append(out, rng("misc", i).genMisc(name))
	}
	for i := 0; i < pl.ident; i++ {
		out = append(out, rng("identities", i).genIdentity(name))
	}
	for i := 0; i < pl.poly; i++ {
		out = append(out, rng("poly", i).genPoly(name, i))
	}
	for i := 0; i < pl.lagrange; i++ {
		out = append(out, rng("lagrange", i).genLagrange(name, i, false, 13))
	}
	for i := 0; i < pl.vandermonde; i++ {
		out = append(out, rng("vandermonde", i).genVandermonde(name, i))
	}
	for i := 0; i < pl.birkhoff; i++ {
		out = append(out, rng("birkhoff", i).genBirkhoff(name, i, false, 7))
	}
	for i := 0; i < pl.action; i++ {
		out = append(out, rng("action", i).genAction(name, i, pl.expDim))
	}
	for i := 0; i < pl.gpoly; i++ {
		out = append(out, rng("gpoly", i).genGPoly(name, i))
	}
	for i := 0; i < pl.lagrangeExp; i++ {
		out = append(out, rng("lagrange_exp", i).genLagrange(name, i, true, pl.expNodes))
	}
	for i := 0; i < pl.birkhoffExp; i++ {
		out = append(out, rng("birkhoff_exp", i).genBirkhoff(name, i, true, pl.expNodes))
	}
	return out
}

// runCase runs the implementation on one case; a panic of the harness plumbing itself is
// reported, never propagated.
func runCase(f Field, c *Case) (p *Pending, crashed string) {
	crashed = vh.Safely(func() { p = f.Run(c) })
	return p, crashed
}

// evaluate runs the cases, asks the model, applies R and files the mismatches.
func evaluate(a vh.Args, res *vh.Result, fields map[string]Field, cases []*Case, withModel bool, idPrefix string) {
	var pend []*Pending
	var lines []string
	for i, c := range cases {
		f := fields[c.Field]
		if f == nil {
			res.Note("case %d: unknown field %q", i, c.Field)
			continue
		}
		p, crashed := runCase(f, c)
		if crashed != "" {
			res.Count(c.Class, c.text(), true)
			res.Mismatch(vh.Mismatch{ID: fmt.Sprintf("%s%d", idPrefix, i), Kind: "prop", Key: "harness-panic-" + propKey[c.Op], Detail: "panic while driving the implementation: " + crashed,
				Case: c.text(), PropFail: true, What: what[c.Op]})
			continue
		}
		res.Count(c.Class, c.text(), !p.triv)
		res.Distribution["outcome/"+strings.ToLower(c.Op)+"/"+p.outcome]++
		pend = append(pend, p)
		if withModel {
			lines = append(lines, p.lines...)
		}
	}
	var model []string
	if withModel && len(lines) > 0 {
		var err error
		model, err = vh.Driver(a.Driver, lines)
		if err != nil {
			fmt.Fprintln(os.Stderr, err)
			os.Exit(3)
		}
	}
	k := 0
	for i, p := range pend {
		id := fmt.Sprintf("%s%d", idPrefix, i)
		var ds []diff
		if withModel {
			ml := model[k : k+len(p.lines)]
			k += len(p.lines)
			bad := false
			for j, m := range ml {
				if strings.HasPrefix(m, "bad") {
					res.Mismatch(vh.Mismatch{ID: id, Kind: "corr", Key: "driver-rejected-case", Detail: "model driver: " + m + " on " + p.lines[j], Case: p.c.text(), What: what[p.c.Op]})
					bad = true
				}
			}
			if !bad {
				ds = p.finish(ml)
			}
		}
		for _, d := range ds {
			m := vh.Mismatch{ID: id, Kind: "corr", Key: d.key, Detail: d.detail, Case: p.c.text(), What: what[p.c.Op]}
			prop := p.prop
			if prop == "" {
				prop = d.prop
			}
			if prop != "" {
				m.PropFail = true
				m.Detail += " ; property: " + prop
			}
			if !a.Search {
				res.Mismatch(m)
			}
		}
		if len(ds) == 0 && p.prop != "" || (a.Search && p.prop != "") {
			res.Mismatch(vh.Mismatch{ID: id, Kind: "prop", Key: propKey[p.c.Op] + "-property", Detail: p.prop, Case: p.c.text(), PropFail: true, What: what[p.c.Op]})
		}
	}
}

func main() {
	a := vh.ParseArgs()
	res := vh.NewResult("C20", a.Seed, a.Tier)
	res.Rule = describeRule()

	fl := allFields()
	fields := map[string]Field{}
	for _, f := range fl {
		if err := f.SelfTest(); err != nil {
			fmt.Fprintln(os.Stderr, "c20: scalar conversion self-test failed: "+err.Error())
			os.Exit(3)
		}
		fields[f.Name()] = f
	}

	if a.Replay != "" {
		b, err := os.ReadFile(a.Replay)
		if err != nil {
			fmt.Fprintln(os.Stderr, err)
			os.Exit(3)
		}
		var cases []*Case
		for _, line := range strings.Split(string(b), "\n") {
			if t, ok := strings.CutPrefix(line, "case: "); ok {
				c, err := parseCase(strings.TrimSpace(t))
				if err != nil {
					res.Note("replay: %v", err)
					continue
				}
				cases = append(cases, c)
			}
		}
		evaluate(a, res, fields, cases, true, "replay")
		res.Write(a.Out)
		return
	}

	pl := planFor(a.Tier, a.Search)
	var cases []*Case
	for fi, f := range fl {
		cases = append(cases, generate(a.Seed, fi, f, pl, a.Search)...)
	}
	// the model is not needed to evaluate the property predicate: the search run skips it
	evaluate(a, res, fields, cases, !a.Search, "c")
	res.Write(a.Out)
}
