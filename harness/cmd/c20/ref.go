// ref.go — canonical case text and the math/big reference arithmetic used (a) to plant
// solutions / sample polynomials when generating cases and (b) to decide the property's own
// predicate ("the result is the mathematically exact one") on the implementation's outputs.
package main

import (
	"fmt"
	"math/big"
	"strconv"
	"strings"
)

// ---- canonical text ---------------------------------------------------------------------------

// Mat is a row-major matrix of canonical representatives.
type Mat struct {
	R, C int
	E    []*big.Int
}

func (m *Mat) at(i, j int) *big.Int { return m.E[i*m.C+j] }

func (m *Mat) text() string {
	if m == nil {
		return "nil"
	}
	return fmt.Sprintf("%dx%d:%s", m.R, m.C, vecText(m.E))
}

func (m *Mat) clone() *Mat {
	o := &Mat{R: m.R, C: m.C, E: make([]*big.Int, len(m.E))}
	for i, e := range m.E {
		o.E[i] = new(big.Int).Set(e)
	}
	return o
}

func vecText(v []*big.Int) string {
	if len(v) == 0 {
		return "-"
	}
	parts := make([]string, len(v))
	for i, x := range v {
		parts[i] = x.Text(16)
	}
	return strings.Join(parts, ",")
}

func parseVec(s string) []*big.Int {
	if s == "-" || s == "" {
		return nil
	}
	parts := strings.Split(s, ",")
	out := make([]*big.Int, len(parts))
	for i, p := range parts {
		x, ok := new(big.Int).SetString(p, 16)
		if !ok {
			panic("harness: bad hex " + p)
		}
		out[i] = x
	}
	return out
}

func parseMat(s string) *Mat {
	dims, es, ok := strings.Cut(s, ":")
	if !ok {
		panic("harness: bad matrix " + s)
	}
	rs, cs, _ := strings.Cut(dims, "x")
	r, _ := strconv.Atoi(rs)
	c, _ := strconv.Atoi(cs)
	m := &Mat{R: r, C: c, E: parseVec(es)}
	if len(m.E) != r*c || r < 1 || c < 1 {
		panic("harness: bad matrix " + s)
	}
	return m
}

func u64Text(v []uint64) string {
	if len(v) == 0 {
		return "-"
	}
	parts := make([]string, len(v))
	for i, x := range v {
		parts[i] = strconv.FormatUint(x, 16)
	}
	return strings.Join(parts, ",")
}

// Case is one replayable case: OP field arg ... [hint=value ...].  Hints carry what the
// generator knows by construction (exp=solvable|unsolvable|invertible|singular, det=<hex>,
// poly=<coefficients the values were sampled from>); they are not passed to the model.
type Case struct {
	Op    string
	Field string
	Args  []string
	Hints []string
	Class string // distribution class, not part of the case text
}

func (c *Case) text() string {
	parts := append([]string{c.Op, c.Field}, c.Args...)
	parts = append(parts, c.Hints...)
	return strings.Join(parts, " ")
}

func parseCase(s string) (*Case, error) {
	f := strings.Fields(s)
	if len(f) < 3 {
		return nil, fmt.Errorf("short case %q", s)
	}
	c := &Case{Op: f[0], Field: f[1], Class: "replay"}
	for _, a := range f[2:] {
		if strings.Contains(a, "=") {
			c.Hints = append(c.Hints, a)
		} else {
			c.Args = append(c.Args, a)
		}
	}
	return c, nil
}

func (c *Case) hint(k string) string {
	for _, h := range c.Hints {
		if v, ok := strings.CutPrefix(h, k+"="); ok {
			return v
		}
	}
	return ""
}

func (c *Case) mat(i int) *Mat       { return parseMat(c.Args[i]) }
func (c *Case) vec(i int) []*big.Int { return parseVec(c.Args[i]) }
func (c *Case) scalar(i int) *big.Int {
	v := parseVec(c.Args[i])
	if len(v) != 1 {
		panic("harness: bad scalar " + c.Args[i])
	}
	return v[0]
}
func (c *Case) int(i int) int {
	n, err := strconv.Atoi(c.Args[i])
	if err != nil {
		panic("harness: bad int " + c.Args[i])
	}
	return n
}
func (c *Case) u64s(i int) []uint64 {
	if c.Args[i] == "-" {
		return nil
	}
	parts := strings.Split(c.Args[i], ",")
	out := make([]uint64, len(parts))
	for k, p := range parts {
		x, err := strconv.ParseUint(p, 16, 64)
		if err != nil {
			panic("harness: bad uint64 " + p)
		}
		out[k] = x
	}
	return out
}

// ---- arithmetic mod q --------------------------------------------------------------------------

func addm(q, a, b *big.Int) *big.Int { x := new(big.Int).Add(a, b); return x.Mod(x, q) }
func subm(q, a, b *big.Int) *big.Int { x := new(big.Int).Sub(a, b); return x.Mod(x, q) }
func mulm(q, a, b *big.Int) *big.Int { x := new(big.Int).Mul(a, b); return x.Mod(x, q) }
func negm(q, a *big.Int) *big.Int    { x := new(big.Int).Neg(a); return x.Mod(x, q) }
func invm(q, a *big.Int) *big.Int {
	x := new(big.Int).ModInverse(a, q)
	if x == nil {
		panic("harness: inverse of zero")
	}
	return x
}

func zeros(n int) []*big.Int {
	v := make([]*big.Int, n)
	for i := range v {
		v[i] = new(big.Int)
	}
	return v
}

func refDot(q *big.Int, a, b []*big.Int) *big.Int {
	s := new(big.Int)
	for i := range a {
		s = addm(q, s, mulm(q, a[i], b[i]))
	}
	return s
}

func refMul(q *big.Int, A, B *Mat) *Mat {
	if A.C != B.R {
		panic("harness: refMul dimensions")
	}
	o := &Mat{R: A.R, C: B.C, E: zeros(A.R * B.C)}
	for i := 0; i < A.R; i++ {
		for j := 0; j < B.C; j++ {
			s := new(big.Int)
			for k := 0; k < A.C; k++ {
				s.Add(s, new(big.Int).Mul(A.at(i, k), B.at(k, j)))
			}
			o.E[i*o.C+j] = s.Mod(s, q)
		}
	}
	return o
}

func refTranspose(A *Mat) *Mat {
	o := &Mat{R: A.C, C: A.R, E: make([]*big.Int, len(A.E))}
	for i := 0; i < A.R; i++ {
		for j := 0; j < A.C; j++ {
			o.E[j*o.C+i] = A.at(i, j)
		}
	}
	return o
}

func refScale(q *big.Int, A *Mat, g *big.Int) *Mat {
	o := &Mat{R: A.R, C: A.C, E: make([]*big.Int, len(A.E))}
	for i, e := range A.E {
		o.E[i] = mulm(q, e, g)
	}
	return o
}

func refAugment(A, B *Mat) *Mat {
	o := &Mat{R: A.R, C: A.C + B.C}
	for i := 0; i < A.R; i++ {
		o.E = append(o.E, A.E[i*A.C:(i+1)*A.C]...)
		o.E = append(o.E, B.E[i*B.C:(i+1)*B.C]...)
	}
	return o
}

func refMinor(M *Mat, r, c int) *Mat {
	o := &Mat{R: M.R - 1, C: M.C - 1}
	for i := 0; i < M.R; i++ {
		for j := 0; j < M.C; j++ {
			if i != r && j != c {
				o.E = append(o.E, M.at(i, j))
			}
		}
	}
	return o
}

func refSetCol(M *Mat, c int, d []*big.Int) *Mat {
	o := M.clone()
	for i := 0; i < M.R; i++ {
		o.E[i*M.C+c] = d[i]
	}
	return o
}

func refIdentity(n int) *Mat {
	o := &Mat{R: n, C: n, E: zeros(n * n)}
	for i := 0; i < n; i++ {
		o.E[i*n+i] = big.NewInt(1)
	}
	return o
}

// refResidual: A*x == b (right) resp. x*A == b (left).
func refResidual(q *big.Int, A *Mat, x, b []*big.Int, right bool) bool {
	var prod *Mat
	if right {
		if len(x) != A.C || len(b) != A.R {
			return false
		}
		prod = refMul(q, A, &Mat{R: len(x), C: 1, E: x})
	} else {
		if len(x) != A.R || len(b) != A.C {
			return false
		}
		prod = refMul(q, &Mat{R: 1, C: len(x), E: x}, A)
	}
	for i := range b {
		if prod.E[i].Cmp(b[i]) != 0 {
			return false
		}
	}
	return true
}

func refIsInverse(q *big.Int, M, N *Mat) bool {
	if M.R != M.C || N.R != M.R || N.C != M.C {
		return false
	}
	id := refIdentity(M.R).text()
	return refMul(q, M, N).text() == id && refMul(q, N, M).text() == id
}

// refDet: determinant by plain Gaussian elimination over Z_q with math/big.
func refDet(q *big.Int, M *Mat) *big.Int {
	if M.R != M.C {
		panic("harness: refDet of non-square")
	}
	a := M.clone()
	n := M.R
	det := big.NewInt(1)
	for k := 0; k < n; k++ {
		p := -1
		for r := k; r < n; r++ {
			if a.at(r, k).Sign() != 0 {
				p = r
				break
			}
		}
		if p < 0 {
			return new(big.Int)
		}
		if p != k {
			for j := 0; j < n; j++ {
				a.E[k*n+j], a.E[p*n+j] = a.E[p*n+j], a.E[k*n+j]
			}
			det = negm(q, det)
		}
		det = mulm(q, det, a.at(k, k))
		inv := invm(q, a.at(k, k))
		for i := k + 1; i < n; i++ {
			fct := mulm(q, a.at(i, k), inv)
			if fct.Sign() == 0 {
				continue
			}
			for j := k; j < n; j++ {
				a.E[i*n+j] = subm(q, a.at(i, j), mulm(q, fct, a.at(k, j)))
			}
		}
	}
	return det
}

// refRank by elimination.
func refRank(q *big.Int, M *Mat) int {
	a := M.clone()
	rank := 0
	for c := 0; c < a.C && rank < a.R; c++ {
		p := -1
		for r := rank; r < a.R; r++ {
			if a.at(r, c).Sign() != 0 {
				p = r
				break
			}
		}
		if p < 0 {
			continue
		}
		for j := 0; j < a.C; j++ {
			a.E[rank*a.C+j], a.E[p*a.C+j] = a.E[p*a.C+j], a.E[rank*a.C+j]
		}
		inv := invm(q, a.at(rank, c))
		for i := rank + 1; i < a.R; i++ {
			fct := mulm(q, a.at(i, c), inv)
			if fct.Sign() == 0 {
				continue
			}
			for j := c; j < a.C; j++ {
				a.E[i*a.C+j] = subm(q, a.at(i, j), mulm(q, fct, a.at(rank, j)))
			}
		}
		rank++
	}
	return rank
}

// refSolveSquare: the unique solution of a non-singular square system (nil when singular).
func refSolveSquare(q *big.Int, M *Mat, b []*big.Int) []*big.Int {
	n := M.R
	a := &Mat{R: n, C: n + 1, E: make([]*big.Int, n*(n+1))}
	for i := 0; i < n; i++ {
		for j := 0; j < n; j++ {
			a.E[i*(n+1)+j] = new(big.Int).Set(M.at(i, j))
		}
		a.E[i*(n+1)+n] = new(big.Int).Set(b[i])
	}
	w := n + 1
	for k := 0; k < n; k++ {
		p := -1
		for r := k; r < n; r++ {
			if a.at(r, k).Sign() != 0 {
				p = r
				break
			}
		}
		if p < 0 {
			return nil
		}
		for j := 0; j < w; j++ {
			a.E[k*w+j], a.E[p*w+j] = a.E[p*w+j], a.E[k*w+j]
		}
		inv := invm(q, a.at(k, k))
		for j := 0; j < w; j++ {
			a.E[k*w+j] = mulm(q, a.at(k, j), inv)
		}
		for i := 0; i < n; i++ {
			if i == k || a.at(i, k).Sign() == 0 {
				continue
			}
			fct := new(big.Int).Set(a.at(i, k))
			for j := 0; j < w; j++ {
				a.E[i*w+j] = subm(q, a.at(i, j), mulm(q, fct, a.at(k, j)))
			}
		}
	}
	x := make([]*big.Int, n)
	for i := range x {
		x[i] = a.at(i, n)
	}
	return x
}

// ---- polynomials -----------------------------------------------------------------------------------

// refEval: sum c_i x^i with explicit powers (deliberately not Horner).
func refEval(q *big.Int, c []*big.Int, x *big.Int) *big.Int {
	s := new(big.Int)
	pw := big.NewInt(1)
	for _, ci := range c {
		s = addm(q, s, mulm(q, ci, pw))
		pw = mulm(q, pw, x)
	}
	return s
}

func refDegree(c []*big.Int) int {
	for i := len(c) - 1; i >= 0; i-- {
		if c[i].Sign() != 0 {
			return i
		}
	}
	return -1
}

func refDeriv(q *big.Int, c []*big.Int) []*big.Int {
	var d []*big.Int
	for i := 1; i < len(c); i++ {
		d = append(d, mulm(q, big.NewInt(int64(i)), c[i]))
	}
	if len(d) == 0 {
		d = []*big.Int{new(big.Int)}
	}
	return d
}

// refDerivEval: j-th derivative of the polynomial at x (zero when j exceeds the length).
func refDerivEval(q *big.Int, c []*big.Int, j uint64, x *big.Int) *big.Int {
	if j >= uint64(len(c)) {
		return new(big.Int)
	}
	d := c
	for k := uint64(0); k < j; k++ {
		d = refDeriv(q, d)
	}
	return refEval(q, d, x)
}

// polyEq: equal as polynomials (trailing zero coefficients ignored).
func polyEq(a, b []*big.Int) bool {
	da, db := refDegree(a), refDegree(b)
	if da != db {
		return false
	}
	for i := 0; i <= da; i++ {
		if a[i].Cmp(b[i]) != 0 {
			return false
		}
	}
	return true
}

func hasDup(v []*big.Int) bool {
	seen := map[string]bool{}
	for _, x := range v {
		k := x.Text(16)
		if seen[k] {
			return true
		}
		seen[k] = true
	}
	return false
}

// refBasis: L_i(at) = prod_{j != i} (at - x_j) / (x_i - x_j); nodes distinct.
func refBasis(q *big.Int, xs []*big.Int, at *big.Int) []*big.Int {
	out := make([]*big.Int, len(xs))
	for i := range xs {
		num, den := big.NewInt(1), big.NewInt(1)
		for j := range xs {
			if i == j {
				continue
			}
			num = mulm(q, num, subm(q, at, xs[j]))
			den = mulm(q, den, subm(q, xs[i], xs[j]))
		}
		out[i] = mulm(q, num, invm(q, den))
	}
	return out
}

func refLagrange(q *big.Int, xs, ys []*big.Int, at *big.Int) *big.Int {
	return refDot(q, refBasis(q, xs, at), ys)
}

func refVandermonde(q *big.Int, xs []*big.Int, cols int) *Mat {
	m := &Mat{R: len(xs), C: cols, E: make([]*big.Int, len(xs)*cols)}
	for r, x := range xs {
		for c := 0; c < cols; c++ {
			m.E[r*cols+c] = new(big.Int).Exp(x, big.NewInt(int64(c)), q)
		}
	}
	return m
}

// refBirkhoffMatrix: entry (r,c) = d^j/dX^j X^c at x_r = c!/(c-j)! x^(c-j)  (0 when j > c).
func refBirkhoffMatrix(q *big.Int, xs []*big.Int, js []uint64, cols int) *Mat {
	m := &Mat{R: len(xs), C: cols, E: make([]*big.Int, len(xs)*cols)}
	for r, x := range xs {
		for c := 0; c < cols; c++ {
			j := js[r]
			if j > uint64(c) {
				m.E[r*cols+c] = new(big.Int)
				continue
			}
			ff := big.NewInt(1)
			for k := 0; k < int(j); k++ {
				ff = mulm(q, ff, big.NewInt(int64(c-k)))
			}
			m.E[r*cols+c] = mulm(q, ff, new(big.Int).Exp(x, big.NewInt(int64(c)-int64(j)), q))
		}
	}
	return m
}

func refBirkhoffSolve(q *big.Int, xs []*big.Int, js []uint64, ys []*big.Int) []*big.Int {
	return refSolveSquare(q, refBirkhoffMatrix(q, xs, js, len(xs)), ys)
}
