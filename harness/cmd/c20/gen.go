// gen.go — case generators.  Every random choice comes from the vh.Rng handed in, values
// planted into a case (b := A*y, sampled polynomial values) are computed with math/big so
// that the case text depends on the seed only, never on the implementation under test.
package main

import (
	"fmt"
	"math/big"
	"strconv"

	"verif/harness/internal/vh"
)

type G struct {
	r *vh.Rng
	q *big.Int
}

func (g *G) rnd() *big.Int { return g.r.BigBelow(g.q) }

func (g *G) nz() *big.Int {
	for {
		x := g.rnd()
		if x.Sign() != 0 {
			return x
		}
	}
}

func (g *G) qm(k int64) *big.Int { return new(big.Int).Sub(g.q, big.NewInt(k)) }

// tern: an entry from {0, 1, q-1}
func (g *G) tern() *big.Int {
	switch g.r.Intn(3) {
	case 0:
		return new(big.Int)
	case 1:
		return big.NewInt(1)
	}
	return g.qm(1)
}

// elem: mostly uniform, with boundary values mixed in
func (g *G) elem() *big.Int {
	switch g.r.Intn(12) {
	case 0:
		return new(big.Int)
	case 1:
		return big.NewInt(1)
	case 2:
		return g.qm(1)
	case 3:
		return big.NewInt(int64(2 + g.r.Intn(5)))
	}
	return g.rnd()
}

func (g *G) vec(n int, f func() *big.Int) []*big.Int {
	v := make([]*big.Int, n)
	for i := range v {
		v[i] = f()
	}
	return v
}

func (g *G) mat(r, c int, f func() *big.Int) *Mat { return &Mat{R: r, C: c, E: g.vec(r*c, f)} }

func (g *G) perm(n int) []int {
	p := make([]int, n)
	for i := range p {
		p[i] = i
	}
	for i := n - 1; i > 0; i-- {
		j := g.r.Intn(i + 1)
		p[i], p[j] = p[j], p[i]
	}
	return p
}

func permSign(p []int) int {
	s := 1
	seen := make([]bool, len(p))
	for i := range p {
		if seen[i] {
			continue
		}
		l := 0
		for j := i; !seen[j]; j = p[j] {
			seen[j] = true
			l++
		}
		if l%2 == 0 {
			s = -s
		}
	}
	return s
}

// permRows: row i of the result is row p[i] of M.
func permRows(M *Mat, p []int) *Mat {
	o := &Mat{R: M.R, C: M.C, E: make([]*big.Int, len(M.E))}
	for i := 0; i < M.R; i++ {
		copy(o.E[i*M.C:(i+1)*M.C], M.E[p[i]*M.C:(p[i]+1)*M.C])
	}
	return o
}

// rankMat: product of random m×r and r×n matrices (rank r with overwhelming probability); r = 0 is the zero matrix.
func (g *G) rankMat(m, n, r int) *Mat {
	if r == 0 {
		return g.mat(m, n, func() *big.Int { return new(big.Int) })
	}
	return refMul(g.q, g.mat(m, r, g.rnd), g.mat(r, n, g.rnd))
}

// upper: upper triangular with the given diagonal, random above (unit = all-ones diagonal when d == nil)
func (g *G) upper(n int, d []*big.Int, dense bool) *Mat {
	m := &Mat{R: n, C: n, E: zeros(n * n)}
	for i := 0; i < n; i++ {
		for j := i; j < n; j++ {
			switch {
			case i == j && d == nil:
				m.E[i*n+j] = big.NewInt(1)
			case i == j:
				m.E[i*n+j] = d[i]
			case dense || g.r.Bool():
				m.E[i*n+j] = g.elem()
			}
		}
	}
	return m
}

// squareKinds and squareMat: square matrices with what is known about them by construction.
// Returned hints: exp=invertible|singular and det=<hex> where known.
var squareKinds = []string{"random", "ldu", "permtri", "permdiag", "antiblock", "sparse", "rankdef", "duprow", "zerorow", "zerocol", "identity", "triangular", "tern-permtri"}

func (g *G) squareMat(kind string, n int) (*Mat, []string) {
	q := g.q
	prod := func(d []*big.Int, sign int) string {
		x := big.NewInt(1)
		for _, e := range d {
			x = mulm(q, x, e)
		}
		if sign < 0 {
			x = negm(q, x)
		}
		return "det=" + x.Text(16)
	}
	switch kind {
	case "ldu":
		d := g.vec(n, g.nz)
		l := refTranspose(g.upper(n, nil, true))
		return refMul(q, l, g.upper(n, d, true)), []string{"exp=invertible", prod(d, 1)}
	case "permtri", "tern-permtri":
		// P*D*U: a row-permuted upper triangular matrix — elimination must search pivots below the diagonal and swap
		d := g.vec(n, g.nz)
		dense := g.r.Bool()
		if kind == "tern-permtri" {
			d = g.vec(n, func() *big.Int {
				if g.r.Bool() {
					return big.NewInt(1)
				}
				return g.qm(1)
			})
		}
		u := g.upper(n, d, dense)
		if kind == "tern-permtri" {
			for i := 0; i < n; i++ {
				for j := i + 1; j < n; j++ {
					u.E[i*n+j] = g.tern()
				}
			}
		}
		p := g.perm(n)
		return permRows(u, p), []string{"exp=invertible", prod(d, permSign(p))}
	case "permdiag":
		d := g.vec(n, g.nz)
		p := g.perm(n)
		return permRows(g.upper(n, d, false).diagOnly(), p), []string{"exp=invertible", prod(d, permSign(p))}
	case "antiblock":
		// [[0,B],[C,0]] with invertible blocks
		if n < 2 {
			return g.squareMat("ldu", n)
		}
		k := 1 + g.r.Intn(n-1)
		B, _ := g.squareMat("ldu", n-k) // (n-k)×(n-k) in the top right
		C, _ := g.squareMat("ldu", k)   // k×k in the bottom left
		m := &Mat{R: n, C: n, E: zeros(n * n)}
		for i := 0; i < n-k; i++ {
			for j := 0; j < n-k; j++ {
				m.E[i*n+k+j] = B.at(i, j)
			}
		}
		for i := 0; i < k; i++ {
			for j := 0; j < k; j++ {
				m.E[(n-k+i)*n+j] = C.at(i, j)
			}
		}
		return m, []string{"exp=invertible"}
	case "sparse":
		return g.mat(n, n, g.tern), nil
	case "rankdef":
		if n < 2 {
			return g.mat(1, 1, func() *big.Int { return new(big.Int) }), []string{"exp=singular"}
		}
		return g.rankMat(n, n, g.r.Intn(n)), []string{"exp=singular"}
	case "duprow":
		m := g.mat(n, n, g.elem)
		if n < 2 {
			m.E[0] = new(big.Int)
			return m, []string{"exp=singular"}
		}
		i := g.r.Intn(n)
		k := (i + 1 + g.r.Intn(n-1)) % n
		c := g.elem()
		for j := 0; j < n; j++ {
			m.E[k*n+j] = mulm(q, c, m.at(i, j)) // row k := c * row i (c may be 0, 1, q-1)
		}
		return m, []string{"exp=singular"}
	case "zerorow", "zerocol":
		m := g.mat(n, n, g.elem)
		i := g.r.Intn(n)
		for j := 0; j < n; j++ {
			if kind == "zerorow" {
				m.E[i*n+j] = new(big.Int)
			} else {
				m.E[j*n+i] = new(big.Int)
			}
		}
		return m, []string{"exp=singular"}
	case "identity":
		return refIdentity(n), []string{"exp=invertible", "det=1"}
	case "triangular":
		d := g.vec(n, g.elem)
		u := g.upper(n, d, true)
		if g.r.Bool() {
			u = refTranspose(u)
		}
		hs := []string{prod(d, 1)}
		return u, hs
	}
	return g.mat(n, n, g.elem), nil
}

func (m *Mat) diagOnly() *Mat {
	o := &Mat{R: m.R, C: m.C, E: zeros(len(m.E))}
	for i := 0; i < m.R && i < m.C; i++ {
		o.E[i*m.C+i] = m.at(i, i)
	}
	return o
}

// shape: all 64 shapes 1..8 × 1..8 are visited by cycling, plus occasional larger ones.
func (g *G) shape(k int, big bool) (int, int) {
	if big {
		switch g.r.Intn(4) {
		case 0:
			return 20, 20
		case 1:
			return 20, 12 + g.r.Intn(8)
		case 2:
			return 12 + g.r.Intn(8), 20
		}
		return 9 + g.r.Intn(12), 9 + g.r.Intn(12)
	}
	k %= 64
	return 1 + k/8, 1 + k%8
}

var systemKinds = []string{"planted", "random", "rankdef-planted", "rankdef-unsolvable", "zerolines", "sparse", "perm", "rankdef-random", "zeropivot", "dup-unsolvable", "badlen"}

// genSystem: a linear system A*x = b (m×n).  Returns A, b, kind and hints.
func (g *G) genSystem(kind string, m, n int) (*Mat, []*big.Int, []string) {
	q := g.q
	plant := func(A *Mat) ([]*big.Int, []string) {
		y := g.vec(A.C, g.elem)
		return refMul(q, A, &Mat{R: A.C, C: 1, E: y}).E, []string{"exp=solvable"}
	}
	// make the system unsolvable for certain: row k := row i of A, b_k := b_i + 1
	spoil := func(A *Mat, b []*big.Int) []string {
		if A.R < 2 {
			for j := range A.E {
				A.E[j] = new(big.Int)
			}
			b[0] = g.nz()
			return []string{"exp=unsolvable"}
		}
		i := g.r.Intn(A.R)
		k := (i + 1 + g.r.Intn(A.R-1)) % A.R
		copy(A.E[k*A.C:(k+1)*A.C], A.E[i*A.C:(i+1)*A.C])
		b[k] = addm(q, b[i], big.NewInt(1))
		return []string{"exp=unsolvable"}
	}
	switch kind {
	case "planted":
		A := g.mat(m, n, g.elem)
		b, h := plant(A)
		return A, b, h
	case "random":
		return g.mat(m, n, g.elem), g.vec(m, g.elem), nil
	case "rankdef-planted", "rankdef-unsolvable", "rankdef-random":
		r := g.r.Intn(min(m, n) + 1)
		A := g.rankMat(m, n, r)
		if g.r.Bool() {
			A = permRows(A, g.perm(m))
		}
		switch kind {
		case "rankdef-planted":
			b, h := plant(A)
			return A, b, h
		case "rankdef-unsolvable":
			b, _ := plant(A)
			return A, b, spoil(A, b)
		}
		return A, g.vec(m, g.elem), nil
	case "dup-unsolvable":
		A := g.mat(m, n, g.elem)
		b, _ := plant(A)
		return A, b, spoil(A, b)
	case "zerolines":
		A := g.mat(m, n, g.elem)
		for k := 0; k < 1+g.r.Intn(2); k++ {
			if g.r.Bool() {
				i := g.r.Intn(m)
				for j := 0; j < n; j++ {
					A.E[i*n+j] = new(big.Int)
				}
			} else {
				j := g.r.Intn(n)
				if g.r.Bool() {
					j = 0 // a zero first column: the very first pivot search fails
				}
				for i := 0; i < m; i++ {
					A.E[i*n+j] = new(big.Int)
				}
			}
		}
		if g.r.Chance(3, 4) {
			b, h := plant(A)
			return A, b, h
		}
		return A, g.vec(m, g.elem), nil
	case "sparse":
		A := g.mat(m, n, g.tern)
		if g.r.Bool() {
			b, h := plant(A)
			return A, b, h
		}
		return A, g.vec(m, g.tern), nil
	case "perm":
		// permutation-like: at most one non-zero per row and column
		A := g.mat(m, n, func() *big.Int { return new(big.Int) })
		p := g.perm(max(m, n))
		for i := 0; i < m; i++ {
			if p[i] < n {
				A.E[i*n+p[i]] = g.nz()
				if g.r.Bool() {
					A.E[i*n+p[i]] = big.NewInt(1)
				}
			}
		}
		if g.r.Bool() {
			b, h := plant(A)
			return A, b, h
		}
		return A, g.vec(m, g.elem), nil
	case "zeropivot":
		// row-permuted echelon form with skipped columns: pivots must be searched below the current row
		A := g.mat(m, n, func() *big.Int { return new(big.Int) })
		col := 0
		for i := 0; i < m && col < n; i++ {
			col += g.r.Intn(2)
			if col >= n {
				break
			}
			A.E[i*n+col] = g.nz()
			for j := col + 1; j < n; j++ {
				if g.r.Bool() {
					A.E[i*n+j] = g.elem()
				}
			}
			col++
		}
		A = permRows(A, g.perm(m))
		if g.r.Chance(2, 3) {
			b, h := plant(A)
			return A, b, h
		}
		return A, g.vec(m, g.elem), nil
	case "badlen":
		A := g.mat(m, n, g.elem)
		l := m + 1
		if g.r.Bool() && m > 1 {
			l = m - 1
		}
		return A, g.vec(l, g.elem), nil
	}
	panic("harness: unknown system kind " + kind)
}

func cs(op, field, class string, hints []string, args ...string) *Case {
	return &Case{Op: op, Field: field, Args: args, Hints: hints, Class: class}
}

func (g *G) genSolve(fname string, right bool, k int, big bool, kinds []string) *Case {
	kind := kinds[g.r.Intn(len(kinds))]
	m, n := g.shape(k, big)
	A, b, h := g.genSystem(kind, m, n)
	if kind == "badlen" {
		h = nil
	}
	if right {
		return cs("SOLVE_R", fname, "solve_right/"+fname+"/"+kind, h, A.text(), vecText(b))
	}
	return cs("SOLVE_L", fname, "solve_left/"+fname+"/"+kind, h, refTranspose(A).text(), vecText(b))
}

func (g *G) sqSize(big bool) int {
	if big {
		return 9 + g.r.Intn(12)
	}
	return 1 + g.r.Intn(8)
}

func (g *G) genSquareOp(op, fname string, big bool, kinds []string) *Case {
	kind := kinds[g.r.Intn(len(kinds))]
	M, h := g.squareMat(kind, g.sqSize(big))
	name := map[string]string{"INV": "inv", "DET": "det"}[op]
	if op == "INV" {
		// det=… is a determinant fact; keep only exp=
		var hh []string
		for _, x := range h {
			if len(x) > 4 && x[:4] == "exp=" {
				hh = append(hh, x)
			}
		}
		h = hh
	}
	return cs(op, fname, name+"/"+fname+"/"+kind, h, M.text())
}

func (g *G) genMul(fname string, big bool) *Case {
	hi := 8
	if big {
		hi = 20
	}
	m, k, n := 1+g.r.Intn(hi), 1+g.r.Intn(hi), 1+g.r.Intn(hi)
	f := g.elem
	kind := "random"
	if g.r.Chance(1, 4) {
		f, kind = g.tern, "sparse"
	}
	k2 := k
	if g.r.Chance(1, 5) {
		k2 = 1 + (k+g.r.Intn(hi-1))%hi
		if k2 != k {
			kind = "mismatch"
		}
	}
	return cs("MUL", fname, "mul/"+fname+"/"+kind, nil, g.mat(m, k, f).text(), g.mat(k2, n, f).text())
}

func (g *G) genTranspose(fname string, k int) *Case {
	m, n := g.shape(k, g.r.Chance(1, 20))
	return cs("TRANSPOSE", fname, "transpose/"+fname, nil, g.mat(m, n, g.elem).text())
}

func (g *G) genMisc(fname string) *Case {
	m, n := 1+g.r.Intn(6), 1+g.r.Intn(6)
	switch g.r.Intn(5) {
	case 0:
		m2 := m
		if g.r.Chance(1, 4) {
			m2 = 1 + g.r.Intn(6)
		}
		return cs("AUGMENT", fname, "augment/"+fname, nil, g.mat(m, n, g.elem).text(), g.mat(m2, 1+g.r.Intn(3), g.elem).text())
	case 1:
		r, c := g.r.Intn(m+1), g.r.Intn(n+1) // sometimes one past the end
		return cs("MINOR", fname, "minor/"+fname, nil, g.mat(m, n, g.elem).text(), strconv.Itoa(r), strconv.Itoa(c))
	case 2:
		c := g.r.Intn(n + 1)
		l := m
		if g.r.Chance(1, 5) {
			l = 1 + g.r.Intn(6)
		}
		return cs("SETCOL", fname, "setcol/"+fname, nil, g.mat(m, n, g.elem).text(), strconv.Itoa(c), vecText(g.vec(l, g.elem)))
	case 3:
		l2 := m
		if g.r.Chance(1, 5) {
			l2 = 1 + g.r.Intn(6)
		}
		return cs("DOT", fname, "dot/"+fname, nil, vecText(g.vec(m, g.elem)), vecText(g.vec(l2, g.elem)))
	}
	return cs("IDENT", fname, "identity/"+fname, nil, strconv.Itoa(1+g.r.Intn(9)))
}

var swapKinds = []string{"permtri", "tern-permtri", "permdiag", "antiblock", "sparse"}

func (g *G) genIdentity(fname string) *Case {
	switch g.r.Intn(3) {
	case 0:
		n := 1 + g.r.Intn(6)
		ka := swapKinds[g.r.Intn(len(swapKinds))]
		kb := squareKinds[g.r.Intn(len(squareKinds))]
		A, _ := g.squareMat(ka, n)
		B, _ := g.squareMat(kb, n)
		if g.r.Bool() {
			A, B = B, A
		}
		return cs("P_DETMUL", fname, "prop-detmul/"+fname, nil, A.text(), B.text())
	case 1:
		m, k, n := 1+g.r.Intn(6), 1+g.r.Intn(6), 1+g.r.Intn(6)
		return cs("P_MULT", fname, "prop-transpose-mul/"+fname, nil, g.mat(m, k, g.elem).text(), g.mat(k, n, g.elem).text())
	}
	m, k, l, n := 1+g.r.Intn(5), 1+g.r.Intn(5), 1+g.r.Intn(5), 1+g.r.Intn(5)
	return cs("P_ASSOC", fname, "prop-assoc/"+fname, nil, g.mat(m, k, g.elem).text(), g.mat(k, l, g.elem).text(), g.mat(l, n, g.elem).text())
}

// ---- module-valued (in the exponent): kept small, curve operations are slow ----------------------

func (g *G) genAction(fname string, k int, hi int) *Case {
	base := g.elem()
	if base.Sign() == 0 || g.r.Bool() {
		base = big.NewInt(1)
	}
	bs := base.Text(16)
	switch k % 5 {
	case 0:
		return cs("LIFT", fname, "lift/"+fname, nil, g.mat(1+g.r.Intn(hi), 1+g.r.Intn(hi), g.elem).text(), bs)
	case 1, 2:
		m, p, n := 1+g.r.Intn(hi), 1+g.r.Intn(hi), 1+g.r.Intn(hi)
		p2 := p
		class := "left_action/" + fname
		if g.r.Chance(1, 8) {
			p2 = 1 + (p % hi)
			if p2 != p {
				class += "/mismatch"
			}
		}
		return cs("LACT", fname, class, nil, g.mat(m, p, g.elem).text(), g.mat(p2, n, g.elem).text(), bs)
	}
	m, p, n := 1+g.r.Intn(hi), 1+g.r.Intn(hi), 1+g.r.Intn(hi)
	p2 := p
	class := "right_action/" + fname
	if g.r.Chance(1, 8) {
		p2 = 1 + (p % hi)
		if p2 != p {
			class += "/mismatch"
		}
	}
	return cs("RACT", fname, class, nil, g.mat(m, p, g.elem).text(), g.mat(p2, n, g.elem).text(), bs)
}

// ---- polynomials ---------------------------------------------------------------------------------------

// poly: degree 0..maxDeg, sometimes with trailing zero coefficients, sometimes zero, sometimes empty.
func (g *G) poly(maxDeg int, allowEmpty bool) ([]*big.Int, string) {
	switch g.r.Intn(10) {
	case 0:
		if allowEmpty && g.r.Bool() {
			return nil, "empty"
		}
		return g.vec(1+g.r.Intn(3), func() *big.Int { return new(big.Int) }), "zero"
	case 1, 2:
		c := g.vec(1+g.r.Intn(maxDeg+1), g.elem)
		for k := 0; k < 1+g.r.Intn(3); k++ {
			c = append(c, new(big.Int))
		}
		return c, "trailing-zeros"
	case 3:
		return g.vec(1+g.r.Intn(maxDeg+1), g.tern), "ternary"
	}
	d := g.r.Intn(maxDeg + 1)
	c := g.vec(d+1, g.elem)
	if c[d].Sign() == 0 {
		c[d] = big.NewInt(1)
	}
	return c, "deg" + strconv.Itoa(d)
}

func (g *G) point() *big.Int {
	switch g.r.Intn(6) {
	case 0:
		return new(big.Int)
	case 1:
		return big.NewInt(1)
	case 2:
		return g.qm(1)
	}
	return g.rnd()
}

func (g *G) genPoly(fname string, k int) *Case {
	c, kind := g.poly(12, true)
	switch k % 5 {
	case 0, 1, 2:
		return cs("EVAL", fname, "eval/"+fname+"/"+kind, nil, vecText(c), g.point().Text(16))
	case 3:
		return cs("DERIV", fname, "derivative/"+fname+"/"+kind, nil, vecText(c))
	}
	return cs("DEGREE", fname, "degree/"+fname+"/"+kind, nil, vecText(c))
}

func (g *G) genGPoly(fname string, k int) *Case {
	c, kind := g.poly(4, false)
	base := g.nz()
	if g.r.Bool() {
		base = big.NewInt(1)
	}
	if k%2 == 0 {
		return cs("GEVAL", fname, "eval_in_exponent/"+fname+"/"+kind, nil, vecText(c), base.Text(16), g.point().Text(16))
	}
	return cs("GDERIV", fname, "derivative_in_exponent/"+fname+"/"+kind, nil, vecText(c), base.Text(16))
}

// ---- interpolation -----------------------------------------------------------------------------------------

var nodeKinds = []string{"sorted", "unsorted", "huge", "with0", "random", "dup", "mixed"}

// nodes: n evaluation points of the given kind ("dup" contains a repeated node when n >= 2).
func (g *G) nodes(kind string, n int) []*big.Int {
	xs := make([]*big.Int, n)
	switch kind {
	case "sorted":
		for i := range xs {
			xs[i] = big.NewInt(int64(i + 1))
		}
	case "unsorted":
		p := g.perm(n + 3)
		for i := range xs {
			xs[i] = big.NewInt(int64(p[i] + 1))
		}
	case "huge":
		p := g.perm(n + 2)
		for i := range xs {
			xs[i] = g.qm(int64(p[i] + 1))
		}
	case "with0":
		p := g.perm(n)
		for i := range xs {
			xs[i] = big.NewInt(int64(p[i]))
		}
	case "mixed":
		p := g.perm(n + 2)
		for i := range xs {
			switch g.r.Intn(3) {
			case 0:
				xs[i] = big.NewInt(int64(p[i]))
			case 1:
				xs[i] = g.qm(int64(p[i] + 1))
			default:
				xs[i] = g.rnd()
			}
		}
	case "dup":
		p := g.perm(n + 2)
		for i := range xs {
			xs[i] = big.NewInt(int64(p[i] + 1))
			if g.r.Bool() {
				xs[i] = g.rnd()
			}
		}
		if n >= 2 {
			i := g.r.Intn(n)
			k := (i + 1 + g.r.Intn(n-1)) % n
			xs[k] = new(big.Int).Set(xs[i])
		}
	default:
		for i := range xs {
			xs[i] = g.rnd()
		}
	}
	// distinctness for the non-dup kinds (random collisions have probability ~ 2^-250; fix them anyway)
	if kind != "dup" {
		for hasDup(xs) {
			xs[g.r.Intn(n)] = g.rnd()
		}
	}
	return xs
}

func (g *G) atPoint(xs []*big.Int) *big.Int {
	switch g.r.Intn(5) {
	case 0:
		return new(big.Int)
	case 1:
		if len(xs) > 0 {
			return new(big.Int).Set(xs[g.r.Intn(len(xs))])
		}
	case 2:
		return g.qm(1)
	}
	return g.rnd()
}

func (g *G) sample(n int) (coeffs []*big.Int) {
	d := n
	if n > 1 && g.r.Bool() {
		d = 1 + g.r.Intn(n) // lower degree than the node count allows
	}
	return g.vec(d, g.elem)
}

func (g *G) genLagrange(fname string, k int, exp bool, maxN int) *Case {
	kind := nodeKinds[g.r.Intn(len(nodeKinds))]
	n := 1 + g.r.Intn(maxN)
	if !exp && g.r.Chance(1, 30) {
		n = 0
		kind = "sorted"
	}
	xs := g.nodes(kind, n)
	at := g.atPoint(xs)
	op, cl := "LAGRANGE", "lagrange/"
	if exp {
		op, cl = "LAGRANGE_EXP", "lagrange_in_exponent/"
	}
	if !exp && k%6 == 5 {
		return cs("BASIS", fname, "lagrange_basis/"+fname+"/"+kind, nil, vecText(xs), at.Text(16))
	}
	if g.r.Chance(1, 12) {
		l := n + 1
		if n > 1 && g.r.Bool() {
			l = n - 1
		}
		return cs(op, fname, cl+fname+"/badlen", nil, vecText(xs), vecText(g.vec(l, g.elem)), at.Text(16))
	}
	if n == 0 {
		return cs(op, fname, cl+fname+"/empty", nil, "-", "-", at.Text(16))
	}
	pl := g.sample(n)
	ys := make([]*big.Int, n)
	for i := range ys {
		ys[i] = refEval(g.q, pl, xs[i])
	}
	return cs(op, fname, cl+fname+"/"+kind, []string{"poly=" + vecText(pl)}, vecText(xs), vecText(ys), at.Text(16))
}

func (g *G) genVandermonde(fname string, k int) *Case {
	if k%8 == 7 {
		kind := nodeKinds[g.r.Intn(len(nodeKinds))]
		n := g.r.Intn(6)
		cols := g.r.Intn(7)
		return cs("BVAND", fname, "vandermonde_matrix/"+fname, nil, vecText(g.nodes(kind, n)), strconv.Itoa(cols))
	}
	kind := nodeKinds[g.r.Intn(len(nodeKinds))]
	n := 1 + g.r.Intn(9)
	if g.r.Chance(1, 25) {
		return cs("VANDERMONDE", fname, "vandermonde/"+fname+"/empty", nil, "-", "-")
	}
	xs := g.nodes(kind, n)
	if g.r.Chance(1, 12) {
		l := n + 1
		if n > 1 && g.r.Bool() {
			l = n - 1
		}
		return cs("VANDERMONDE", fname, "vandermonde/"+fname+"/badlen", nil, vecText(xs), vecText(g.vec(l, g.elem)))
	}
	if kind == "dup" && g.r.Bool() {
		// inconsistent values on the repeated node (unless n == 1): no interpolating polynomial
		return cs("VANDERMONDE", fname, "vandermonde/"+fname+"/dup-inconsistent", nil, vecText(xs), vecText(g.vec(n, g.nz)))
	}
	pl := g.sample(n)
	ys := make([]*big.Int, n)
	for i := range ys {
		ys[i] = refEval(g.q, pl, xs[i])
	}
	cl := kind
	if kind == "dup" {
		cl = "dup-consistent"
	}
	return cs("VANDERMONDE", fname, "vandermonde/"+fname+"/"+cl, []string{"poly=" + vecText(pl)}, vecText(xs), vecText(ys))
}

var birkhoffKinds = []string{"lagrange", "hermite", "hierarchical", "hierarchical", "dupnode", "jtoolarge", "random"}

// birkhoffNodes: (x_i, j_i) patterns.
func (g *G) birkhoffNodes(kind string, n int) ([]*big.Int, []uint64) {
	nk := []string{"sorted", "unsorted", "huge", "random", "mixed"}[g.r.Intn(5)]
	var xs []*big.Int
	var js []uint64
	switch kind {
	case "lagrange":
		xs = g.nodes(nk, n)
		js = make([]uint64, n)
	case "hermite":
		// distinct x's, at each all derivative orders 0..k-1: always well posed
		pts := g.nodes(nk, n)
		for len(xs) < n {
			x := pts[len(xs)]
			k := 1 + g.r.Intn(3)
			for j := 0; j < k && len(xs) < n; j++ {
				xs = append(xs, x)
				js = append(js, uint64(j))
			}
		}
	case "hierarchical":
		// Tassa-style: distinct x's, non-decreasing small orders starting at 0 (well posed or not: the reference decides)
		xs = g.nodes(nk, n)
		j := uint64(0)
		for i := 0; i < n; i++ {
			if i > 0 && g.r.Chance(2, 5) && int(j) < i {
				j += uint64(1 + g.r.Intn(2))
				if int(j) > i {
					j = uint64(i)
				}
			}
			js = append(js, j)
		}
	case "dupnode":
		xs, js = g.birkhoffNodes("hierarchical", n)
		if n >= 2 {
			i := g.r.Intn(n)
			k := (i + 1 + g.r.Intn(n-1)) % n
			xs[k], js[k] = new(big.Int).Set(xs[i]), js[i]
		}
		return xs, js
	case "jtoolarge":
		xs, js = g.birkhoffNodes("hierarchical", n)
		i := g.r.Intn(n)
		switch g.r.Intn(3) {
		case 0:
			js[i] = uint64(n)
		case 1:
			js[i] = 1 << 63
		default:
			js[i] = ^uint64(0)
		}
		return xs, js
	default:
		xs = g.nodes(nk, n)
		if g.r.Bool() && n >= 2 {
			xs[g.r.Intn(n)] = new(big.Int).Set(xs[g.r.Intn(n)])
		}
		for i := 0; i < n; i++ {
			js = append(js, uint64(g.r.Intn(n)))
		}
	}
	// present the nodes in random order: SortNodes must put them in (x, j) order
	p := g.perm(n)
	xs2, js2 := make([]*big.Int, n), make([]uint64, n)
	for i := range p {
		xs2[i], js2[i] = xs[p[i]], js[p[i]]
	}
	return xs2, js2
}

func (g *G) genBirkhoff(fname string, k int, exp bool, maxN int) *Case {
	kind := birkhoffKinds[g.r.Intn(len(birkhoffKinds))]
	n := 1 + g.r.Intn(maxN)
	op, cl := "BIRKHOFF", "birkhoff/"
	if exp {
		op, cl = "BIRKHOFF_EXP", "birkhoff_in_exponent/"
	}
	if !exp && k%9 == 8 {
		xs, js := g.birkhoffNodes(kind, n)
		return cs("BBUILD", fname, "birkhoff_matrix/"+fname, nil, vecText(xs), u64Text(js), strconv.Itoa(1+g.r.Intn(7)))
	}
	if g.r.Chance(1, 25) {
		return cs(op, fname, cl+fname+"/empty", nil, "-", "-", "-")
	}
	if k%11 == 10 || (exp && k%7 == 6) {
		// the single-node case
		n, kind = 1, "single"
	}
	var xs []*big.Int
	var js []uint64
	if kind == "single" {
		xs, js = []*big.Int{g.point()}, []uint64{0}
	} else {
		xs, js = g.birkhoffNodes(kind, n)
	}
	if g.r.Chance(1, 14) {
		switch g.r.Intn(2) {
		case 0:
			return cs(op, fname, cl+fname+"/badlen", nil, vecText(xs), u64Text(append(js, 0)), vecText(g.vec(n, g.elem)))
		default:
			return cs(op, fname, cl+fname+"/badlen", nil, vecText(xs), u64Text(js), vecText(g.vec(n+1, g.elem)))
		}
	}
	pl := g.vec(n, g.elem)
	ys := make([]*big.Int, n)
	for i := range ys {
		ys[i] = refDerivEval(g.q, pl, js[i], xs[i])
	}
	var h []string
	if refDet(g.q, refBirkhoffMatrix(g.q, xs, js, n)).Sign() != 0 {
		h = []string{"poly=" + vecText(pl)}
		kind += "-wellposed"
	} else {
		kind += "-singular"
	}
	return cs(op, fname, cl+fname+"/"+kind, h, vecText(xs), u64Text(js), vecText(ys))
}

func describeRule() string {
	return fmt.Sprint("per scalar field (k256, p256, edwards25519, pallas, vesta, bls12381 Fr) and operation a fixed number of cases from vh.NewRng(seed,\"C20\",op/field,i). ",
		"Linear systems: all shapes 1x1..8x8 by cycling plus some up to 20x20; kinds planted (b:=A*y), random, rank-controlled (product of thin matrices, rank 0..min, rows permuted) planted/unsolvable/random, ",
		"zero rows/columns (incl. zero first column), entries from {0,1,q-1}, permutation-like, row-permuted echelon forms with skipped columns (zero pivots), ",
		"certainly unsolvable (duplicated row with different right-hand side), wrong vector length. Square matrices (inverse/determinant): random, L*D*U, row-permuted triangular (forces row swaps), ",
		"permutation*diagonal, anti-diagonal blocks, ternary, rank-deficient, duplicate/zero rows and columns, identity, triangular; construction facts travel as hints (exp=, det=). ",
		"Polynomials degree 0..12 incl. zero, empty, trailing zero coefficients; points 0,1,q-1,random. Interpolation: node sets sorted/unsorted/close to q/containing 0/random/with duplicates/mismatched lengths/empty, ",
		"values sampled from a planted polynomial (poly= hint); Birkhoff patterns Lagrange-like, Hermite-complete, hierarchical (Tassa), duplicate (x,j), derivative order >= n or 2^63, single node, presented unsorted. ",
		"In-the-exponent cases (Lift/LeftAction/RightAction/LiftPolynomial/Interpolate*InExponent) are small (<=4x4, <=5 nodes) and compared through ScalarBaseOp(model exponent). ",
		"Non-trivial = got past the first guard (well-formed dimensions/lengths); distinct by canonical case text. ",
		"R: solver both-fail or model-mvec residual zero (identity of x reported separately as *-pivoting-differs); all other ops equal value and compatible error class.")
}
