// impl.go — drives the REAL implementation (pkg/base/mat, pkg/base/polynomials and the
// interpolation packages) over one scalar field / prime group, generically.
package main

import (
	"errors"
	"fmt"
	"math/big"
	"slices"
	"strings"

	"github.com/bronlabs/bron-crypto/pkg/base/algebra"
	"github.com/bronlabs/bron-crypto/pkg/base/mat"
	"github.com/bronlabs/bron-crypto/pkg/base/polynomials"
	"github.com/bronlabs/bron-crypto/pkg/base/polynomials/interpolation/birkhoff"
	"github.com/bronlabs/bron-crypto/pkg/base/polynomials/interpolation/lagrange"
	"github.com/bronlabs/bron-crypto/pkg/base/polynomials/interpolation/vandermonde"

	"verif/harness/internal/vh"
)

// Field is the non-generic face of one (scalar field, prime-order group) pair.
type Field interface {
	Name() string
	Q() *big.Int
	SelfTest() error
	Run(c *Case) *Pending
}

type fctx[S algebra.PrimeFieldElement[S], P algebra.PrimeGroupElement[P, S]] struct {
	name string
	fld  algebra.PrimeField[S]
	grp  algebra.PrimeGroup[P, S]
	q    *big.Int
}

func newField[S algebra.PrimeFieldElement[S], P algebra.PrimeGroupElement[P, S]](name string, fld algebra.PrimeField[S], grp algebra.PrimeGroup[P, S]) Field {
	return &fctx[S, P]{name: name, fld: fld, grp: grp, q: new(big.Int).Set(fld.Order().Big())}
}

func (f *fctx[S, P]) Name() string { return f.name }
func (f *fctx[S, P]) Q() *big.Int  { return f.q }

// sc converts a canonical representative in [0,q) to a scalar (big-endian bytes through
// the public FromBytesBE); anything else is a harness bug.
func (f *fctx[S, P]) sc(x *big.Int) S {
	if x.Sign() < 0 || x.Cmp(f.q) >= 0 {
		panic(fmt.Sprintf("harness: scalar %s out of range for %s", x.Text(16), f.name))
	}
	// FromBytesBE wants exactly ElementSize() big-endian bytes
	s, err := f.fld.FromBytesBE(x.FillBytes(make([]byte, f.fld.ElementSize())))
	if err != nil {
		panic(fmt.Sprintf("harness: FromBytesBE(%s) on %s: %v", x.Text(16), f.name, err))
	}
	return s
}

func (f *fctx[S, P]) big(s S) *big.Int { return new(big.Int).SetBytes(s.BytesBE()) }

func (f *fctx[S, P]) scs(xs []*big.Int) []S {
	out := make([]S, len(xs))
	for i, x := range xs {
		out[i] = f.sc(x)
	}
	return out
}

func (f *fctx[S, P]) bigs(ss []S) []*big.Int {
	out := make([]*big.Int, len(ss))
	for i, s := range ss {
		out[i] = f.big(s)
	}
	return out
}

func (f *fctx[S, P]) pt(k *big.Int) P { return f.grp.ScalarBaseOp(f.sc(k)) }

func (f *fctx[S, P]) pts(ks []*big.Int) []P {
	out := make([]P, len(ks))
	for i, k := range ks {
		out[i] = f.pt(k)
	}
	return out
}

// SelfTest: the scalar <-> integer conversion must be an exact round trip (endianness!),
// agree with the field's own arithmetic, and the group must have the field's order.
func (f *fctx[S, P]) SelfTest() error {
	qm1 := new(big.Int).Sub(f.q, big.NewInt(1))
	for _, v := range []*big.Int{big.NewInt(0), big.NewInt(1), big.NewInt(2), big.NewInt(255), big.NewInt(256), big.NewInt(0x10203), qm1,
		new(big.Int).Rsh(f.q, 1), new(big.Int).Lsh(big.NewInt(1), uint(f.q.BitLen()-2))} {
		s := f.sc(v)
		if f.big(s).Cmp(v) != 0 {
			return fmt.Errorf("%s: scalar round trip of %s gives %s", f.name, v.Text(16), f.big(s).Text(16))
		}
		if s.Cardinal().Big().Cmp(v) != 0 {
			return fmt.Errorf("%s: Cardinal of %s gives %s", f.name, v.Text(16), s.Cardinal().Big().Text(16))
		}
	}
	if !f.sc(big.NewInt(1)).IsOne() || !f.sc(big.NewInt(0)).IsZero() {
		return fmt.Errorf("%s: 0/1 not recognised", f.name)
	}
	if !f.sc(big.NewInt(2)).Equal(f.fld.One().Add(f.fld.One())) || !f.sc(big.NewInt(258)).Equal(f.fld.FromUint64(258)) {
		return fmt.Errorf("%s: 2 != 1+1 or 258 != FromUint64(258): wrong endianness", f.name)
	}
	if !f.sc(qm1).Add(f.fld.One()).IsZero() {
		return fmt.Errorf("%s: (q-1)+1 != 0", f.name)
	}
	g := f.pt(big.NewInt(1))
	if g.IsOpIdentity() || !f.pt(qm1).Op(g).IsOpIdentity() || !f.pt(big.NewInt(0)).IsOpIdentity() {
		return fmt.Errorf("%s: group order does not match the scalar field", f.name)
	}
	if !f.pt(big.NewInt(5)).Equal(g.ScalarOp(f.sc(big.NewInt(5)))) {
		return fmt.Errorf("%s: ScalarBaseOp(5) != G.ScalarOp(5)", f.name)
	}
	return nil
}

// ---- error classes ---------------------------------------------------------------------

// errClass maps an implementation error to a small enum by sentinel identity (never by text).
func errClass(err error) string {
	switch {
	case err == nil:
		return "ok"
	case errors.Is(err, polynomials.ErrLengthMismatch):
		return "err_len"
	case errors.Is(err, polynomials.ErrValidation):
		return "err_validation"
	case errors.Is(err, polynomials.ErrFailed):
		return "err_failed"
	case errors.Is(err, mat.ErrDimension):
		return "err_dim"
	case errors.Is(err, mat.ErrOutOfBounds):
		return "err_oob"
	case errors.Is(err, mat.ErrFailed):
		return "err_matfailed"
	default:
		return "err_other"
	}
}

// compatible says whether the implementation's class is the image of the model's status.
func compatible(model, impl string) bool {
	switch model {
	case "ok":
		return impl == "ok"
	case "none": // solver / inverse refusal: any error, no panic
		return impl != "ok" && impl != "panic"
	case "err_len":
		return impl == "err_len" || impl == "err_validation"
	case "err_empty":
		return impl == "err_validation"
	case "err_div":
		return impl == "err_other" || impl == "err_failed"
	case "err_singular":
		return impl == "err_failed" || impl == "err_matfailed"
	case "err_dim":
		return impl == "err_dim" || impl == "err_oob"
	}
	return false
}

// ---- building implementation values ---------------------------------------------------------

func (f *fctx[S, P]) matrix(m *Mat) (*mat.Matrix[S], error) {
	mm, err := mat.NewMatrixModule(uint(m.R), uint(m.C), f.fld)
	if err != nil {
		return nil, err
	}
	return mm.NewRowMajor(f.scs(m.E)...)
}

func (f *fctx[S, P]) mustMatrix(m *Mat) *mat.Matrix[S] {
	x, err := f.matrix(m)
	if err != nil {
		panic("harness: cannot build matrix: " + err.Error())
	}
	return x
}

func (f *fctx[S, P]) unmat(m *mat.Matrix[S]) *Mat {
	r, c := m.Dimensions()
	return &Mat{R: r, C: c, E: f.bigs(slices.Collect(m.Iter()))}
}

func (f *fctx[S, P]) unsq(m *mat.SquareMatrix[S]) *Mat {
	r, c := m.Dimensions()
	return &Mat{R: r, C: c, E: f.bigs(slices.Collect(m.Iter()))}
}

func (f *fctx[S, P]) poly(c []*big.Int) *polynomials.Polynomial[S] {
	ring, err := polynomials.NewPolynomialRing(f.fld)
	if err != nil {
		panic(err)
	}
	p, err := ring.New(f.scs(c)...)
	if err != nil {
		panic(err)
	}
	return p
}

// ptsEqualExps: every point equals ScalarBaseOp(exponent) — the tie "through the exponent".
func (f *fctx[S, P]) ptsEqualExps(ps []P, ks []*big.Int) (bool, string) {
	if len(ps) != len(ks) {
		return false, fmt.Sprintf("%d points vs %d exponents", len(ps), len(ks))
	}
	for i := range ps {
		if !ps[i].Equal(f.pt(ks[i])) {
			return false, fmt.Sprintf("element %d is not %s*G", i, ks[i].Text(16))
		}
	}
	return true, ""
}

// ---- pending case -------------------------------------------------------------------------

// Pending is one case after the implementation ran: the model lines to evaluate, the
// verdict of the property's own predicate on the implementation (prop == "" : holds), and
// finish, which applies relation R once the model's answers are known.
type Pending struct {
	c       *Case
	lines   []string
	prop    string // property predicate failure on the implementation alone ("" = holds)
	triv    bool   // rejected at the first guard
	outcome string // implementation's status class (distribution only)
	finish  func(model []string) []diff
}

type diff struct {
	key, detail string
	prop        string // extra property failure established with the model's witness
}

func (f *fctx[S, P]) line(op string, args ...string) string {
	return op + " " + f.q.Text(16) + " " + strings.Join(args, " ")
}

func splitModel(s string) (status, payload string) {
	st, pl, _ := strings.Cut(s, " ")
	return st, pl
}

// safely runs an implementation call; a panic becomes the observable class "panic".
func safely(class *string, fn func()) {
	if p := vh.Safely(fn); p != "" {
		*class = "panic"
	}
}

// Run dispatches on the operation.
func (f *fctx[S, P]) Run(c *Case) *Pending {
	switch c.Op {
	case "SOLVE_R":
		return f.runSolve(c, true)
	case "SOLVE_L":
		return f.runSolve(c, false)
	case "INV":
		return f.runInv(c)
	case "DET":
		return f.runDet(c)
	case "MUL":
		return f.runMul(c)
	case "TRANSPOSE":
		return f.runTranspose(c)
	case "AUGMENT", "MINOR", "SETCOL", "DOT", "IDENT":
		return f.runMisc(c)
	case "P_DETMUL", "P_MULT", "P_ASSOC":
		return f.runIdentity(c)
	case "LIFT", "LACT", "RACT":
		return f.runAction(c)
	case "EVAL", "DEGREE", "DERIV":
		return f.runPoly(c)
	case "GEVAL", "GDERIV":
		return f.runGPoly(c)
	case "BASIS", "LAGRANGE", "LAGRANGE_EXP":
		return f.runLagrange(c)
	case "BVAND", "VANDERMONDE":
		return f.runVandermonde(c)
	case "BBUILD", "BIRKHOFF", "BIRKHOFF_EXP":
		return f.runBirkhoff(c)
	}
	panic("harness: unknown op " + c.Op)
}

// ---- solver -------------------------------------------------------------------------------

func (f *fctx[S, P]) runSolve(c *Case, right bool) *Pending {
	M, v := c.mat(0), c.vec(1)
	name, key := "SolveRight", "solve-right"
	if !right {
		name, key = "SolveLeft", "solve-left"
	}
	m := f.mustMatrix(M)
	var vm *mat.Matrix[S]
	var err error
	if len(v) > 0 {
		if right {
			vm, err = f.matrix(&Mat{R: len(v), C: 1, E: v})
		} else {
			vm, err = f.matrix(&Mat{R: 1, C: len(v), E: v})
		}
		if err != nil {
			panic(err)
		}
	}
	p := &Pending{c: c}
	class := "ok"
	var x *mat.Matrix[S]
	if vm == nil {
		class = "err_dim" // an empty vector cannot even be built (NewMatrixModule refuses 0)
		p.triv = true
	} else {
		safely(&class, func() {
			var e error
			if right {
				x, e = mat.SolveRight(m, vm)
			} else {
				x, e = mat.SolveLeft(m, vm)
			}
			if e != nil {
				class = errClass(e)
			}
		})
	}
	want := M.R
	if !right {
		want = M.C
	}
	if len(v) != want {
		p.triv = true
	}
	var xs []*big.Int
	// the property on the implementation alone
	if class == "ok" {
		xs = f.bigs(slices.Collect(x.Iter()))
		var prod *mat.Matrix[S]
		var e error
		pc := "ok"
		safely(&pc, func() {
			if right {
				prod, e = m.TryMul(x)
			} else {
				prod, e = x.Transpose().TryMul(m)
			}
		})
		if pc == "panic" {
			p.prop = "TryMul panicked while recomputing the product for " + name
		} else if e != nil || !prod.Equal(vm) {
			p.prop = name + " returned x that does not satisfy the system (recomputed with the implementation's own TryMul)"
		} else if ok := refResidual(f.q, M, xs, v, right); !ok {
			p.prop = name + " returned x that does not satisfy the system (recomputed with math/big)"
		}
		if c.hint("exp") == "unsolvable" && p.prop == "" {
			p.prop = name + " succeeded on a system constructed to have no solution"
		}
	} else if class == "panic" {
		p.prop = name + " panicked"
	} else if c.hint("exp") == "solvable" {
		p.prop = name + " reported failure although a planted solution exists"
	}
	mline, rline := "SOLVE_R", "MVEC"
	if !right {
		mline, rline = "SOLVE_L", "VECM"
	}
	p.lines = []string{f.line(mline, M.text(), vecText(v))}
	if class == "ok" {
		if right {
			p.lines = append(p.lines, f.line(rline, M.text(), vecText(xs)))
		} else {
			p.lines = append(p.lines, f.line(rline, vecText(xs), M.text()))
		}
	}
	p.outcome = class
	p.finish = func(model []string) []diff {
		mst, mpl := splitModel(model[0])
		var ds []diff
		if !compatible(mst, class) {
			d := diff{key: key + "-status", detail: fmt.Sprintf("model %s, implementation %s", mst, class)}
			if mst == "ok" && class != "ok" {
				// the model's x is a witness that a solution exists: check it with the implementation's own product
				if refResidual(f.q, M, parseVec(mpl), v, right) {
					d.prop = name + " reported failure although a solution exists (the model's x, checked with math/big)"
				}
			}
			ds = append(ds, d)
			return ds
		}
		if class != "ok" {
			return nil
		}
		rst, rpl := splitModel(model[1])
		if rst != "ok" || rpl != vecText(v) {
			ds = append(ds, diff{key: key + "-residual", detail: fmt.Sprintf("implementation x=%s; model recomputes the product as %s, expected %s", vecText(xs), rpl, vecText(v))})
		} else if mpl != vecText(xs) {
			ds = append(ds, diff{key: key + "-pivoting-differs", detail: fmt.Sprintf("both solve the system but model x=%s, implementation x=%s", mpl, vecText(xs))})
		}
		return ds
	}
	return p
}

// ---- inverse / determinant / product / transpose --------------------------------------------

func (f *fctx[S, P]) runInv(c *Case) *Pending {
	M := c.mat(0)
	p := &Pending{c: c}
	m := f.mustMatrix(M)
	class := "ok"
	var inv *mat.SquareMatrix[S]
	var sq *mat.SquareMatrix[S]
	safely(&class, func() {
		var e error
		sq, e = m.AsSquare()
		if e != nil {
			class = errClass(e)
			return
		}
		inv, e = sq.TryInv()
		if e != nil {
			class = errClass(e)
		}
	})
	var got *Mat
	switch class {
	case "ok":
		got = f.unsq(inv)
		pc := "ok"
		safely(&pc, func() {
			if !sq.Mul(inv).IsIdentity() || !inv.Mul(sq).IsIdentity() {
				p.prop = "TryInv returned N with M*N != I or N*M != I (implementation's own Mul/IsIdentity)"
			}
		})
		if pc == "panic" {
			p.prop = "Mul panicked on TryInv's result"
		}
		if p.prop == "" && !refIsInverse(f.q, M, got) {
			p.prop = "TryInv returned N with M*N != I (math/big)"
		}
	case "panic":
		p.prop = "TryInv panicked"
	default:
		if c.hint("exp") == "invertible" {
			p.prop = "TryInv failed on a matrix constructed invertible"
		} else if refDet(f.q, M).Sign() != 0 {
			p.prop = "TryInv failed although the determinant (math/big) is non-zero"
		}
	}
	p.lines = []string{f.line("INV", M.text())}
	p.outcome = class
	p.finish = func(model []string) []diff {
		mst, mpl := splitModel(model[0])
		if !compatible(mst, class) {
			return []diff{{key: "inv-status", detail: fmt.Sprintf("model %s, implementation %s", mst, class)}}
		}
		if class == "ok" && mpl != got.text() {
			return []diff{{key: "inv-value", detail: fmt.Sprintf("model %s implementation %s", mpl, got.text())}}
		}
		return nil
	}
	return p
}

func (f *fctx[S, P]) runDet(c *Case) *Pending {
	M := c.mat(0)
	p := &Pending{c: c}
	m := f.mustMatrix(M)
	class := "ok"
	var d S
	safely(&class, func() {
		sq, e := m.AsSquare()
		if e != nil {
			class = errClass(e)
			return
		}
		d = sq.Determinant()
	})
	got := ""
	switch class {
	case "ok":
		dv := f.big(d)
		got = dv.Text(16)
		ref := refDet(f.q, M)
		switch {
		case c.hint("exp") == "singular" && dv.Sign() != 0:
			p.prop = "Determinant non-zero on a matrix constructed singular"
		case c.hint("exp") == "invertible" && dv.Sign() == 0:
			p.prop = "Determinant zero on a matrix constructed invertible"
		case c.hint("det") != "" && c.hint("det") != got:
			p.prop = "Determinant differs from the value the matrix was constructed with (sign(P)*prod(diag)) = " + c.hint("det")
		case ref.Cmp(dv) != 0:
			p.prop = "Determinant differs from the determinant computed with math/big = " + ref.Text(16)
		}
	case "panic":
		p.prop = "Determinant panicked"
	default:
		p.prop = "Determinant refused a square matrix"
	}
	p.lines = []string{f.line("DET", M.text())}
	p.outcome = class
	p.finish = func(model []string) []diff {
		mst, mpl := splitModel(model[0])
		if !compatible(mst, class) {
			return []diff{{key: "det-status", detail: fmt.Sprintf("model %s, implementation %s", mst, class)}}
		}
		if mpl != got {
			return []diff{{key: "det-value", detail: fmt.Sprintf("model %s implementation %s", mpl, got)}}
		}
		return nil
	}
	return p
}

func (f *fctx[S, P]) runMul(c *Case) *Pending {
	A, B := c.mat(0), c.mat(1)
	p := &Pending{c: c}
	a, b := f.mustMatrix(A), f.mustMatrix(B)
	class := "ok"
	var r *mat.Matrix[S]
	safely(&class, func() {
		var e error
		r, e = a.TryMul(b)
		if e != nil {
			class = errClass(e)
		}
	})
	var got *Mat
	switch {
	case class == "ok":
		got = f.unmat(r)
		if A.C != B.R {
			p.prop = "TryMul accepted incompatible dimensions"
		} else if got.text() != refMul(f.q, A, B).text() {
			p.prop = "TryMul differs from the product computed with math/big"
		}
	case class == "panic":
		p.prop = "TryMul panicked"
	case A.C == B.R:
		p.prop = "TryMul refused compatible dimensions"
	default:
		p.triv = true
	}
	p.lines = []string{f.line("MUL", A.text(), B.text())}
	p.outcome = class
	p.finish = func(model []string) []diff {
		mst, mpl := splitModel(model[0])
		if !compatible(mst, class) {
			return []diff{{key: "mul-status", detail: fmt.Sprintf("model %s, implementation %s", mst, class)}}
		}
		if class == "ok" && mpl != got.text() {
			return []diff{{key: "mul-value", detail: fmt.Sprintf("model %s implementation %s", mpl, got.text())}}
		}
		return nil
	}
	return p
}

func (f *fctx[S, P]) runTranspose(c *Case) *Pending {
	M := c.mat(0)
	p := &Pending{c: c}
	m := f.mustMatrix(M)
	class := "ok"
	var got *Mat
	safely(&class, func() { got = f.unmat(m.Transpose()) })
	if class == "panic" {
		p.prop = "Transpose panicked"
		got = &Mat{}
	} else if got.text() != refTranspose(M).text() {
		p.prop = "Transpose is not the transpose"
	}
	p.lines = []string{f.line("TRANSPOSE", M.text())}
	p.outcome = class
	p.finish = func(model []string) []diff {
		mst, mpl := splitModel(model[0])
		if !compatible(mst, class) {
			return []diff{{key: "transpose-status", detail: fmt.Sprintf("model %s, implementation %s", mst, class)}}
		}
		if mpl != got.text() {
			return []diff{{key: "transpose-value", detail: fmt.Sprintf("model %s implementation %s", mpl, got.text())}}
		}
		return nil
	}
	return p
}

// runMisc: Augment, Minor, SetColumn, DotProduct, Identity — small structural operations the
// solver / Cramer paths are built from.
func (f *fctx[S, P]) runMisc(c *Case) *Pending {
	p := &Pending{c: c}
	class := "ok"
	got := ""
	key := strings.ToLower(c.Op)
	switch c.Op {
	case "AUGMENT":
		A, B := c.mat(0), c.mat(1)
		a, b := f.mustMatrix(A), f.mustMatrix(B)
		safely(&class, func() {
			r, e := a.Augment(b)
			if e != nil {
				class = errClass(e)
				return
			}
			got = f.unmat(r).text()
		})
		p.triv = A.R != B.R
		if class == "ok" && (A.R != B.R || got != refAugment(A, B).text()) {
			p.prop = "Augment is not [A | B]"
		}
		p.lines = []string{f.line("AUGMENT", A.text(), B.text())}
	case "MINOR":
		M, r, cc := c.mat(0), c.int(1), c.int(2)
		m := f.mustMatrix(M)
		safely(&class, func() {
			x, e := m.Minor(r, cc)
			if e != nil {
				class = errClass(e)
				return
			}
			got = f.unmat(x).text()
		})
		p.triv = class != "ok"
		if class == "ok" && (r >= M.R || cc >= M.C || M.R < 2 || M.C < 2 || got != refMinor(M, r, cc).text()) {
			p.prop = "Minor is not the matrix with that row and column removed"
		}
		p.lines = []string{f.line("MINOR", M.text(), c.Args[1], c.Args[2])}
	case "SETCOL":
		M, cc, d := c.mat(0), c.int(1), c.vec(2)
		m := f.mustMatrix(M)
		safely(&class, func() {
			x, e := m.SetColumn(cc, f.scs(d))
			if e != nil {
				class = errClass(e)
				return
			}
			got = f.unmat(x).text()
		})
		p.triv = class != "ok"
		if class == "ok" && (cc >= M.C || len(d) != M.R || got != refSetCol(M, cc, d).text()) {
			p.prop = "SetColumn is not the matrix with that column replaced"
		}
		p.lines = []string{f.line("SETCOL", M.text(), c.Args[1], vecText(d))}
	case "DOT":
		a, b := c.vec(0), c.vec(1)
		am := f.mustMatrix(&Mat{R: 1, C: len(a), E: a})
		bm := f.mustMatrix(&Mat{R: len(b), C: 1, E: b})
		safely(&class, func() {
			x, e := mat.DotProduct(am, bm)
			if e != nil {
				class = errClass(e)
				return
			}
			got = f.big(x).Text(16)
		})
		p.triv = class != "ok"
		if class == "ok" && got != refDot(f.q, a, b).Text(16) {
			p.prop = "DotProduct differs from the value computed with math/big"
		}
		p.lines = []string{f.line("DOT", vecText(a), vecText(b))}
	case "IDENT":
		n := c.int(0)
		safely(&class, func() {
			alg, e := mat.NewMatrixAlgebra(uint(n), f.fld)
			if e != nil {
				class = errClass(e)
				return
			}
			id := alg.Identity()
			got = f.unsq(id).text()
			if !id.IsIdentity() {
				p.prop = "Identity().IsIdentity() is false"
			}
		})
		p.lines = []string{f.line("IDENT", c.Args[0])}
	}
	if class == "panic" {
		p.prop = c.Op + " panicked"
	}
	p.outcome = class
	p.finish = func(model []string) []diff {
		mst, mpl := splitModel(model[0])
		if !compatible(mst, class) {
			return []diff{{key: key + "-status", detail: fmt.Sprintf("model %s, implementation %s", mst, class)}}
		}
		if class == "ok" && mpl != got {
			return []diff{{key: key + "-value", detail: fmt.Sprintf("model %s implementation %s", mpl, got)}}
		}
		return nil
	}
	return p
}

// runIdentity: algebraic identities evaluated on the implementation alone (no model lines):
// det(A*B) = det(A)*det(B), (A*B)^T = B^T*A^T, (A*B)*C = A*(B*C).
func (f *fctx[S, P]) runIdentity(c *Case) *Pending {
	p := &Pending{c: c}
	class := "ok"
	safely(&class, func() {
		switch c.Op {
		case "P_DETMUL":
			a, b := f.mustMatrix(c.mat(0)), f.mustMatrix(c.mat(1))
			ab, e := a.TryMul(b)
			if e != nil {
				p.prop = "TryMul refused square matrices of equal size"
				return
			}
			sa, _ := a.AsSquare()
			sb, _ := b.AsSquare()
			sab, _ := ab.AsSquare()
			if !sab.Determinant().Equal(sa.Determinant().Mul(sb.Determinant())) {
				p.prop = "det(A*B) != det(A)*det(B)"
			}
		case "P_MULT":
			a, b := f.mustMatrix(c.mat(0)), f.mustMatrix(c.mat(1))
			ab, e1 := a.TryMul(b)
			btat, e2 := b.Transpose().TryMul(a.Transpose())
			if e1 != nil || e2 != nil || !ab.Transpose().Equal(btat) {
				p.prop = "(A*B)^T != B^T*A^T"
			}
		case "P_ASSOC":
			a, b, cc := f.mustMatrix(c.mat(0)), f.mustMatrix(c.mat(1)), f.mustMatrix(c.mat(2))
			ab, e1 := a.TryMul(b)
			bc, e2 := b.TryMul(cc)
			if e1 != nil || e2 != nil {
				p.prop = "TryMul refused compatible dimensions"
				return
			}
			l, e3 := ab.TryMul(cc)
			r, e4 := a.TryMul(bc)
			if e3 != nil || e4 != nil || !l.Equal(r) {
				p.prop = "(A*B)*C != A*(B*C)"
			}
		}
	})
	if class == "panic" {
		p.prop = c.Op + " panicked"
	}
	p.outcome = class
	p.finish = func([]string) []diff { return nil }
	return p
}

// ---- module-valued matrices (in the exponent) -------------------------------------------------

func (f *fctx[S, P]) runAction(c *Case) *Pending {
	p := &Pending{c: c}
	class := "ok"
	var res *mat.ModuleValuedMatrix[P, S]
	var pts []P
	rr, rc := 0, 0
	key := map[string]string{"LIFT": "lift", "LACT": "left-action", "RACT": "right-action"}[c.Op]
	var refExp *Mat
	switch c.Op {
	case "LIFT":
		M, g := c.mat(0), c.scalar(1)
		base := f.pt(g)
		m := f.mustMatrix(M)
		safely(&class, func() {
			var e error
			res, e = mat.Lift(m, base)
			if e != nil {
				class = errClass(e)
			}
		})
		refExp = refScale(f.q, M, g)
		p.lines = []string{f.line("LIFT", M.text(), c.Args[1])}
	case "LACT", "RACT":
		var A, X *Mat
		if c.Op == "LACT" {
			A, X = c.mat(0), c.mat(1)
		} else {
			X, A = c.mat(0), c.mat(1)
		}
		g := c.scalar(2)
		base := f.pt(g)
		a, x := f.mustMatrix(A), f.mustMatrix(X)
		var lx *mat.ModuleValuedMatrix[P, S]
		safely(&class, func() {
			var e error
			lx, e = mat.Lift(x, base)
			if e != nil {
				class = errClass(e)
				return
			}
			if c.Op == "LACT" {
				res, e = mat.LeftAction(a, lx)
			} else {
				res, e = mat.RightAction(lx, a)
			}
			if e != nil {
				class = errClass(e)
			}
		})
		okDims := (c.Op == "LACT" && A.C == X.R) || (c.Op == "RACT" && X.C == A.R)
		switch {
		case class == "ok" && !okDims:
			p.prop = c.Op + " accepted incompatible dimensions"
		case class != "ok" && class != "panic" && okDims:
			p.prop = c.Op + " refused compatible dimensions"
		case class == "ok":
			// LeftAction(A, Lift(X,g)) == Lift(A*X, g) with the implementation's own TryMul and Lift
			pc := "ok"
			safely(&pc, func() {
				var ax *mat.Matrix[S]
				var e error
				if c.Op == "LACT" {
					ax, e = a.TryMul(x)
				} else {
					ax, e = x.TryMul(a)
				}
				if e != nil {
					p.prop = "TryMul refused compatible dimensions"
					return
				}
				l, e := mat.Lift(ax, base)
				if e != nil || !l.Equal(res) {
					p.prop = c.Op + "(A, Lift(X,g)) != Lift(A*X, g)"
				}
			})
			if pc == "panic" {
				p.prop = "Lift/TryMul/Equal panicked"
			}
			if c.Op == "LACT" {
				refExp = refScale(f.q, refMul(f.q, A, X), g)
			} else {
				refExp = refScale(f.q, refMul(f.q, X, A), g)
			}
		default:
			p.triv = class != "panic"
		}
		p.lines = []string{f.line(c.Op, c.Args[0], c.Args[1], c.Args[2])}
	}
	if class == "ok" {
		rr, rc = res.Dimensions()
		pts = slices.Collect(res.Iter())
		if p.prop == "" && refExp != nil {
			if refExp.R != rr || refExp.C != rc {
				p.prop = c.Op + " result has the wrong shape"
			} else if ok, d := f.ptsEqualExps(pts, refExp.E); !ok {
				p.prop = c.Op + " differs from the exponents computed with math/big: " + d
			}
		}
	}
	if class == "panic" {
		p.prop = c.Op + " panicked"
	}
	p.outcome = class
	p.finish = func(model []string) []diff {
		mst, mpl := splitModel(model[0])
		if !compatible(mst, class) {
			return []diff{{key: key + "-status", detail: fmt.Sprintf("model %s, implementation %s", mst, class)}}
		}
		if class != "ok" {
			return nil
		}
		mm := parseMat(mpl)
		if mm.R != rr || mm.C != rc {
			return []diff{{key: key + "-value", detail: fmt.Sprintf("model shape %dx%d implementation %dx%d", mm.R, mm.C, rr, rc)}}
		}
		if ok, d := f.ptsEqualExps(pts, mm.E); !ok {
			return []diff{{key: key + "-value", detail: "implementation point differs from ScalarBaseOp(model exponent): " + d}}
		}
		return nil
	}
	return p
}

// ---- polynomials ---------------------------------------------------------------------------------

func (f *fctx[S, P]) runPoly(c *Case) *Pending {
	p := &Pending{c: c}
	co := c.vec(0)
	class := "ok"
	got := ""
	key := strings.ToLower(c.Op)
	switch c.Op {
	case "EVAL":
		x := c.scalar(1)
		safely(&class, func() { got = f.big(f.poly(co).Eval(f.sc(x))).Text(16) })
		if class == "ok" && got != refEval(f.q, co, x).Text(16) {
			p.prop = "Eval differs from sum c_i*x^i computed with math/big"
		}
		p.lines = []string{f.line("EVAL", vecText(co), c.Args[1])}
	case "DEGREE":
		safely(&class, func() { got = fmt.Sprint(f.poly(co).Degree()) })
		if class == "ok" && got != fmt.Sprint(refDegree(co)) {
			p.prop = "Degree is not the index of the highest non-zero coefficient"
		}
		p.lines = []string{f.line("DEGREE", vecText(co))}
	case "DERIV":
		var d []*big.Int
		safely(&class, func() { d = f.bigs(f.poly(co).Derivative().Coefficients()) })
		got = vecText(d)
		if class == "ok" && !polyEq(d, refDeriv(f.q, co)) {
			p.prop = "Derivative differs from (i*c_i) computed with math/big"
		}
		p.lines = []string{f.line("DERIV", vecText(co))}
	}
	if class == "panic" {
		p.prop = c.Op + " panicked"
	}
	p.outcome = class
	p.finish = func(model []string) []diff {
		mst, mpl := splitModel(model[0])
		if !compatible(mst, class) {
			return []diff{{key: key + "-status", detail: fmt.Sprintf("model %s, implementation %s", mst, class)}}
		}
		if mpl != got {
			return []diff{{key: key + "-value", detail: fmt.Sprintf("model %s implementation %s", mpl, got)}}
		}
		return nil
	}
	return p
}

func (f *fctx[S, P]) runGPoly(c *Case) *Pending {
	p := &Pending{c: c}
	co, g := c.vec(0), c.scalar(1)
	class := "ok"
	key := map[string]string{"GEVAL": "eval-in-exponent", "GDERIV": "derivative-in-exponent"}[c.Op]
	var pts []P
	var ref []*big.Int
	safely(&class, func() {
		lp, e := polynomials.LiftPolynomial[P, S](f.poly(co), f.pt(g))
		if e != nil {
			class = errClass(e)
			return
		}
		if c.Op == "GEVAL" {
			x := c.scalar(2)
			pts = []P{lp.Eval(f.sc(x))}
			ref = []*big.Int{mulm(f.q, g, refEval(f.q, co, x))}
		} else {
			pts = lp.Derivative().Coefficients()
			// the module-valued derivative does not trim: len-1 coefficients (or the single identity)
			full := make([]*big.Int, 0, len(co))
			for i := 1; i < len(co); i++ {
				full = append(full, mulm(f.q, g, mulm(f.q, big.NewInt(int64(i)), co[i])))
			}
			if len(full) == 0 {
				full = []*big.Int{big.NewInt(0)}
			}
			ref = full
		}
	})
	if class == "ok" {
		if ok, d := f.ptsEqualExps(pts, ref); !ok {
			p.prop = c.Op + " differs from the exponents computed with math/big: " + d
		}
	} else {
		p.prop = c.Op + " failed: " + class
	}
	p.lines = []string{f.line(c.Op, c.Args...)}
	p.outcome = class
	p.finish = func(model []string) []diff {
		mst, mpl := splitModel(model[0])
		if !compatible(mst, class) {
			return []diff{{key: key + "-status", detail: fmt.Sprintf("model %s, implementation %s", mst, class)}}
		}
		if class != "ok" {
			return nil
		}
		if ok, d := f.ptsEqualExps(pts, parseVec(mpl)); !ok {
			return []diff{{key: key + "-value", detail: "implementation point differs from ScalarBaseOp(model exponent): " + d}}
		}
		return nil
	}
	return p
}

// ---- interpolation ------------------------------------------------------------------------------------

func (f *fctx[S, P]) runLagrange(c *Case) *Pending {
	p := &Pending{c: c}
	class := "ok"
	key := map[string]string{"BASIS": "lagrange-basis", "LAGRANGE": "lagrange", "LAGRANGE_EXP": "lagrange-exp"}[c.Op]
	got := ""
	var pt P
	nodes := c.vec(0)
	switch c.Op {
	case "BASIS":
		at := c.scalar(1)
		safely(&class, func() {
			b, e := lagrange.BasisAt(f.scs(nodes), f.sc(at))
			if e != nil {
				class = errClass(e)
				return
			}
			co := f.bigs(b.Coefficients())
			if len(nodes) == 0 && refDegree(co) < 0 {
				co = nil // no nodes: the basis is empty; the API can only hand back the zero polynomial
			}
			got = vecText(co)
		})
		if class == "ok" {
			if hasDup(nodes) {
				p.prop = "BasisAt succeeded on duplicate nodes"
			} else if len(nodes) > 0 && got != vecText(refBasis(f.q, nodes, at)) {
				p.prop = "BasisAt differs from the Lagrange basis computed with math/big"
			}
		} else if class != "panic" && !hasDup(nodes) {
			p.prop = "BasisAt failed on distinct nodes"
		}
		p.triv = len(nodes) == 0
	case "LAGRANGE", "LAGRANGE_EXP":
		vals, at := c.vec(1), c.scalar(2)
		safely(&class, func() {
			if c.Op == "LAGRANGE" {
				v, e := lagrange.InterpolateAt(f.scs(nodes), f.scs(vals), f.sc(at))
				if e != nil {
					class = errClass(e)
					return
				}
				got = f.big(v).Text(16)
			} else {
				v, e := lagrange.InterpolateInExponentAt(f.grp, f.scs(nodes), f.pts(vals), f.sc(at))
				if e != nil {
					class = errClass(e)
					return
				}
				pt = v
			}
		})
		p.triv = len(nodes) != len(vals)
		wellPosed := len(nodes) == len(vals) && !hasDup(nodes)
		switch {
		case class == "ok" && !wellPosed:
			p.prop = c.Op + " succeeded on duplicate nodes / mismatched lengths"
		case class == "ok" && len(nodes) > 0:
			want := refLagrange(f.q, nodes, vals, at)
			if pl := c.hint("poly"); pl != "" {
				// the values were sampled from this polynomial of degree < #nodes: the answer is its value
				pv := refEval(f.q, parseVec(pl), at)
				if pv.Cmp(want) != 0 {
					panic("harness: planted polynomial inconsistent")
				}
				pc := "ok"
				safely(&pc, func() {
					if c.Op == "LAGRANGE" && f.big(f.poly(parseVec(pl)).Eval(f.sc(at))).Text(16) != got {
						p.prop = "InterpolateAt differs from the sampled polynomial's own Eval at the point"
					}
				})
			}
			if c.Op == "LAGRANGE" && got != want.Text(16) && p.prop == "" {
				p.prop = "InterpolateAt differs from the interpolation value computed with math/big"
			}
			if c.Op == "LAGRANGE_EXP" && !pt.Equal(f.pt(want)) {
				p.prop = "InterpolateInExponentAt differs from ScalarBaseOp(scalar interpolation value)"
			}
		case class != "ok" && class != "panic" && wellPosed:
			p.prop = c.Op + " failed on distinct nodes"
		}
	}
	if class == "panic" {
		p.prop = c.Op + " panicked"
	}
	p.lines = []string{f.line(c.Op, c.Args...)}
	p.outcome = class
	p.finish = func(model []string) []diff {
		mst, mpl := splitModel(model[0])
		if !compatible(mst, class) {
			return []diff{{key: key + "-errclass", detail: fmt.Sprintf("model %s, implementation %s", mst, class)}}
		}
		if class != "ok" {
			return nil
		}
		if c.Op == "LAGRANGE_EXP" {
			if !pt.Equal(f.pt(parseVec(mpl)[0])) {
				return []diff{{key: key + "-value", detail: "implementation point differs from ScalarBaseOp(model exponent " + mpl + ")"}}
			}
			return nil
		}
		if mpl != got {
			return []diff{{key: key + "-value", detail: fmt.Sprintf("model %s implementation %s", mpl, got)}}
		}
		return nil
	}
	return p
}

func (f *fctx[S, P]) runVandermonde(c *Case) *Pending {
	p := &Pending{c: c}
	class := "ok"
	got := ""
	nodes := c.vec(0)
	key := map[string]string{"BVAND": "vandermonde-matrix", "VANDERMONDE": "vandermonde"}[c.Op]
	var vals []*big.Int
	var coeffs []*big.Int
	switch c.Op {
	case "BVAND":
		cols := c.int(1)
		safely(&class, func() {
			m, e := vandermonde.BuildVandermondeMatrix(f.scs(nodes), uint(cols))
			if e != nil {
				class = errClass(e)
				return
			}
			got = f.unmat(m).text()
		})
		p.triv = class != "ok"
		if class == "ok" && got != refVandermonde(f.q, nodes, cols).text() {
			p.prop = "BuildVandermondeMatrix entry (r,c) != nodes[r]^c (math/big)"
		}
	case "VANDERMONDE":
		vals = c.vec(1)
		safely(&class, func() {
			pl, e := vandermonde.Interpolate(f.scs(nodes), f.scs(vals), f.fld.One())
			if e != nil {
				class = errClass(e)
				return
			}
			coeffs = f.bigs(pl.Coefficients())
			got = vecText(coeffs)
			// the returned polynomial takes the given values at the nodes (its own Eval)
			for i := range nodes {
				if !pl.Eval(f.sc(nodes[i])).Equal(f.sc(vals[i])) {
					p.prop = "Interpolate returned a polynomial whose Eval at a node differs from the given value"
				}
			}
		})
		p.triv = len(nodes) != len(vals) || len(nodes) == 0
		if class == "ok" && p.prop == "" {
			for i := range nodes {
				if refEval(f.q, coeffs, nodes[i]).Cmp(vals[i]) != 0 {
					p.prop = "Interpolate returned a polynomial that does not take the given values (math/big)"
				}
			}
			if len(coeffs) > len(nodes) {
				p.prop = "Interpolate returned more coefficients than nodes"
			}
			if pl := c.hint("poly"); pl != "" && p.prop == "" && !hasDup(nodes) && !polyEq(coeffs, parseVec(pl)) {
				p.prop = "Interpolate differs from the polynomial the values were sampled from"
			}
		}
		if class != "ok" && class != "panic" && len(nodes) == len(vals) && len(nodes) > 0 && (!hasDup(nodes) || c.hint("poly") != "") {
			p.prop = "Interpolate failed although an interpolating polynomial exists"
		}
	}
	if class == "panic" {
		p.prop = c.Op + " panicked"
	}
	p.lines = []string{f.line(c.Op, c.Args...)}
	p.outcome = class
	p.finish = func(model []string) []diff {
		mst, mpl := splitModel(model[0])
		if !compatible(mst, class) {
			return []diff{{key: key + "-errclass", detail: fmt.Sprintf("model %s, implementation %s", mst, class)}}
		}
		if class == "ok" && mpl != got {
			if c.Op == "VANDERMONDE" && hasDup(nodes) && p.prop == "" {
				// under-determined (duplicate nodes, consistent values): any interpolating polynomial is right
				return []diff{{key: key + "-pivoting-differs", detail: fmt.Sprintf("both interpolate, model %s implementation %s", mpl, got)}}
			}
			return []diff{{key: key + "-value", detail: fmt.Sprintf("model %s implementation %s", mpl, got)}}
		}
		return nil
	}
	return p
}

func (f *fctx[S, P]) runBirkhoff(c *Case) *Pending {
	p := &Pending{c: c}
	class := "ok"
	got := ""
	key := map[string]string{"BBUILD": "birkhoff-matrix", "BIRKHOFF": "birkhoff", "BIRKHOFF_EXP": "birkhoff-exp"}[c.Op]
	xs, js := c.vec(0), c.u64s(1)
	var pts []P
	var coeffs []*big.Int
	switch c.Op {
	case "BBUILD":
		cols := c.int(2)
		safely(&class, func() {
			m, e := birkhoff.BuildVandermondeMatrix(f.scs(xs), js, cols)
			if e != nil {
				class = errClass(e)
				return
			}
			got = f.unmat(m).text()
		})
		p.triv = class != "ok"
		if class == "ok" && got != refBirkhoffMatrix(f.q, xs, js, cols).text() {
			p.prop = "BuildVandermondeMatrix entry != j-th derivative of X^c at x (math/big)"
		}
	case "BIRKHOFF", "BIRKHOFF_EXP":
		ys := c.vec(2)
		safely(&class, func() {
			if c.Op == "BIRKHOFF" {
				pl, e := birkhoff.Interpolate(f.scs(xs), js, f.scs(ys))
				if e != nil {
					class = errClass(e)
					return
				}
				coeffs = f.bigs(pl.Coefficients())
				got = vecText(coeffs)
			} else {
				pl, e := birkhoff.InterpolateInExponent(f.scs(xs), js, f.pts(ys))
				if e != nil {
					class = errClass(e)
					return
				}
				pts = pl.Coefficients()
			}
		})
		lenOK := len(xs) == len(js) && len(xs) == len(ys)
		p.triv = !lenOK || len(xs) == 0
		if lenOK && len(xs) > 0 {
			singular := refDet(f.q, refBirkhoffMatrix(f.q, xs, js, len(xs))).Sign() == 0
			switch {
			case class == "ok" && singular:
				p.prop = c.Op + " succeeded on a singular Birkhoff matrix"
			case class == "ok":
				// unique solution of the (non-singular) constraint system, computed with math/big
				want := refBirkhoffSolve(f.q, xs, js, ys)
				if c.Op == "BIRKHOFF" {
					if len(coeffs) != len(xs) {
						p.prop = "Interpolate returned a wrong number of coefficients"
					} else {
						for i := range xs {
							if refDerivEval(f.q, coeffs, js[i], xs[i]).Cmp(ys[i]) != 0 {
								p.prop = fmt.Sprintf("Interpolate returned P with P^(%d)(x_%d) != y_%d (math/big)", js[i], i, i)
							}
						}
					}
					if pl := c.hint("poly"); pl != "" && p.prop == "" && !polyEq(coeffs, parseVec(pl)) {
						p.prop = "Interpolate differs from the polynomial the constraints were sampled from"
					}
				} else if ok, d := f.ptsEqualExps(pts, want); !ok {
					p.prop = "InterpolateInExponent differs from ScalarBaseOp(scalar coefficients): " + d
				}
			case class != "panic" && !singular && !(c.Op == "BIRKHOFF_EXP" && len(xs) == 1):
				p.prop = c.Op + " failed although the Birkhoff matrix is non-singular"
			}
		} else if class == "ok" {
			p.prop = c.Op + " accepted empty / mismatched inputs"
		}
	}
	if class == "panic" {
		p.prop = c.Op + " panicked"
	}
	p.lines = []string{f.line(c.Op, c.Args...)}
	p.outcome = class
	p.finish = func(model []string) []diff {
		mst, mpl := splitModel(model[0])
		if !compatible(mst, class) {
			return []diff{{key: key + "-errclass", detail: fmt.Sprintf("model %s, implementation %s", mst, class)}}
		}
		if class != "ok" {
			return nil
		}
		if c.Op == "BIRKHOFF_EXP" {
			if ok, d := f.ptsEqualExps(pts, parseVec(mpl)); !ok {
				return []diff{{key: key + "-value", detail: "implementation coefficient differs from ScalarBaseOp(model exponent): " + d}}
			}
			return nil
		}
		if mpl != got {
			return []diff{{key: key + "-value", detail: fmt.Sprintf("model %s implementation %s", mpl, got)}}
		}
		return nil
	}
	return p
}
