package main

import (
	"fmt"
	"math/big"
	"strings"

	"github.com/bronlabs/bron-crypto/pkg/base/algebra"
	"github.com/bronlabs/bron-crypto/pkg/base/curves/edwards25519"
	"github.com/bronlabs/bron-crypto/pkg/base/curves/k256"
	"github.com/bronlabs/bron-crypto/pkg/base/curves/p256"
	"github.com/bronlabs/bron-crypto/pkg/base/curves/pairable/bls12381"
	"github.com/bronlabs/bron-crypto/pkg/commitments"
	"github.com/bronlabs/bron-crypto/pkg/commitments/pedersencom"

	"verif/harness/internal/vh"
)

// ---- group context (shared with elgamal.go) ----------------------------------------------

type grp[E algebra.PrimeGroupElement[E, S], S algebra.PrimeFieldElement[S]] struct {
	name string
	g    algebra.PrimeGroup[E, S]
	sf   algebra.PrimeField[S]
	q    *big.Int
}

func newGrp[E algebra.PrimeGroupElement[E, S], S algebra.PrimeFieldElement[S]](name string, g algebra.PrimeGroup[E, S]) *grp[E, S] {
	sf := algebra.StructureMustBeAs[algebra.PrimeField[S]](g.ScalarStructure())
	return &grp[E, S]{name: name, g: g, sf: sf, q: new(big.Int).Set(sf.Order().Big())}
}

// sc maps an integer to a scalar through the library's own reduction: non-negative values are
// handed over unreduced (any width), negative ones as their residue.
func (c *grp[E, S]) sc(x *big.Int) S {
	n := (c.q.BitLen() + 7) / 8
	if x.Sign() < 0 {
		x = new(big.Int).Mod(x, c.q)
	}
	if l := (x.BitLen() + 7) / 8; l > n {
		n = l
	}
	return must1(c.sf.FromBytesBEReduce(x.FillBytes(make([]byte, n))))
}

// wide: magnitudes around and beyond the group order and its width.
func (c *grp[E, S]) wide(r *vh.Rng) *big.Int {
	bl := uint(c.q.BitLen())
	p2 := func(k uint) *big.Int { return new(big.Int).Lsh(bi(1), k) }
	add := func(a *big.Int, d int64) *big.Int { return new(big.Int).Add(a, bi(d)) }
	rnd := func(bits int) *big.Int { x := r.BigBits(bits); return x.SetBit(x, bits-1, 1) }
	switch r.Intn(12) {
	case 0:
		return new(big.Int).Set(c.q)
	case 1:
		return add(c.q, 1)
	case 2:
		return add(c.q, int64(2+r.Intn(100)))
	case 3:
		return p2(bl)
	case 4:
		return add(p2(bl), int64(r.Intn(9))-4)
	case 5:
		return p2(8 * ((bl + 7) / 8)) // one more than the largest value of the byte width
	case 6:
		return new(big.Int).Add(new(big.Int).Mul(c.q, bi(int64(2+r.Intn(5)))), bi(int64(r.Intn(9))))
	case 7:
		return p2(2 * bl)
	case 8:
		return new(big.Int).Mul(c.q, c.q)
	case 9:
		return rnd(int(bl) * 3 / 2)
	case 10:
		return rnd(int(bl) * 3)
	default:
		return add(p2(8*((bl+7)/8)), -1) // all ones
	}
}

func (c *grp[E, S]) z(s S) *big.Int { return new(big.Int).SetBytes(s.BytesBE()) }

// lin evaluates the linear form a + b·X at (G, H) with the library's curve arithmetic.
func (c *grp[E, S]) lin(a, b *big.Int, G, H E) E {
	return G.ScalarOp(c.sc(a)).Op(H.ScalarOp(c.sc(b)))
}

// numericScalar: signed integers for the generic double-and-add helpers — small ones and
// magnitudes around and beyond the group order.
func (c *grp[E, S]) numericScalar(r *vh.Rng) *big.Int {
	if r.Chance(3, 4) {
		return big.NewInt(int64(r.Intn(201)) - 100)
	}
	k := c.wide(r)
	if k.BitLen() > 2*c.q.BitLen() { // cost: one Op per bit
		k.Rsh(k, uint(k.BitLen()-c.q.BitLen()*3/2))
	}
	if r.Chance(1, 3) {
		k = new(big.Int).Sub(c.q, bi(1))
	}
	if r.Bool() {
		k.Neg(k)
	}
	return k
}

func (c *grp[E, S]) boundary() []*big.Int {
	return []*big.Int{big.NewInt(0), big.NewInt(1), new(big.Int).Sub(c.q, big.NewInt(1)), big.NewInt(2), new(big.Int).Rsh(c.q, 1)}
}

func (c *grp[E, S]) randScalar(r *vh.Rng) *big.Int {
	if r.Chance(1, 4) {
		return vh.Pick(r, c.boundary())
	}
	if r.Chance(1, 5) {
		return c.wide(r)
	}
	if r.Chance(1, 8) {
		return big.NewInt(int64(r.Intn(1000)))
	}
	return r.BigBelow(c.q)
}

// ---- programs of homomorphic operations (shared by pedersen / intcom / elgamal) ------------

type hop struct {
	kind byte // N O V S R T
	i, j int
	a, b *big.Int
}

func (o hop) text() string {
	switch o.kind {
	case 'N':
		return fmt.Sprintf("N,%s,%s", zh(o.a), zh(o.b))
	case 'O':
		return fmt.Sprintf("O,%d,%d", o.i, o.j)
	case 'V':
		return fmt.Sprintf("V,%d", o.i)
	default:
		return fmt.Sprintf("%c,%d,%s", o.kind, o.i, zh(o.a))
	}
}

func progText(ops []hop) string {
	p := make([]string, len(ops))
	for i, o := range ops {
		p[i] = o.text()
	}
	return strings.Join(p, ";")
}

// evalOps recomputes with math/big the message and witness every register must hold: sums,
// negations, products by the scalar (mod q; over the integers when q is nil).
func evalOps(ops []hop, q *big.Int) (ms, rs []*big.Int) {
	red := func(x *big.Int) *big.Int {
		if q != nil {
			x.Mod(x, q)
		}
		return x
	}
	for _, o := range ops {
		var m, r *big.Int
		switch o.kind {
		case 'N':
			m, r = new(big.Int).Set(o.a), new(big.Int).Set(o.b)
		case 'O':
			m, r = new(big.Int).Add(ms[o.i], ms[o.j]), new(big.Int).Add(rs[o.i], rs[o.j])
		case 'V':
			m, r = new(big.Int).Neg(ms[o.i]), new(big.Int).Neg(rs[o.i])
		case 'S':
			m, r = new(big.Int).Mul(ms[o.i], o.a), new(big.Int).Mul(rs[o.i], o.a)
		case 'R':
			m, r = new(big.Int).Set(ms[o.i]), new(big.Int).Add(rs[o.i], o.a)
		case 'T':
			m, r = new(big.Int).Add(ms[o.i], o.a), new(big.Int).Set(rs[o.i])
		}
		ms, rs = append(ms, red(m)), append(rs, red(r))
	}
	return ms, rs
}

// nextOp chooses the next operation kind given the number of registers.
func nextOp(r *vh.Rng, nregs int) (kind byte, i, j int) {
	if nregs == 0 {
		return 'N', 0, 0
	}
	k := "NNOOOVSSRRTT"[r.Intn(12)]
	return k, r.Intn(nregs), r.Intn(nregs)
}

type modelReg struct {
	m, r   *big.Int
	c0, c1 *big.Int // commitment: linear form (pedersen, elgamal: two components) or c0 only (intcom)
	open   string
	extra  []*big.Int
}

func parseRegs(out string, intc bool) []modelReg {
	var rs []modelReg
	if out == "" {
		return rs
	}
	for _, s := range strings.Split(out, ";") {
		f := strings.Split(s, ",")
		var g modelReg
		g.m, g.r, g.c0 = vh.UnZHex(f[0]), vh.UnZHex(f[1]), vh.UnZHex(f[2])
		k := 3
		if !intc {
			g.c1 = vh.UnZHex(f[3])
			k = 4
		}
		g.open = f[k]
		for _, e := range f[k+1:] {
			g.extra = append(g.extra, vh.UnZHex(e))
		}
		rs = append(rs, g)
	}
	return rs
}

// ---- pedersen -------------------------------------------------------------------------------

type pedReg[E algebra.PrimeGroupElement[E, S], S algebra.PrimeFieldElement[S]] struct {
	m *pedersencom.Message[S]
	w *pedersencom.Witness[S]
	c *pedersencom.Commitment[E, S]
}

// pedProgram generates and executes a random program on the implementation.
func pedProgram[K commitments.HomomorphicCommitmentKey[K, *pedersencom.Message[S], *pedersencom.Witness[S], *pedersencom.Commitment[E, S], S], E algebra.PrimeGroupElement[E, S], S algebra.PrimeFieldElement[S]](
	cx *grp[E, S], key K, rng *vh.Rng, maxOps int) (ops []hop, regs []pedReg[E, S], fail string) {
	n := 1 + rng.Intn(maxOps)
	if p := vh.Safely(func() {
		for len(ops) < n && fail == "" {
			kind, i, j := nextOp(rng, len(regs))
			switch kind {
			case 'N':
				m := cx.randScalar(rng)
				msg := must1(pedersencom.NewMessage(cx.sc(m)))
				if rng.Bool() {
					c, w, err := commitments.Commit(key, msg, rng)
					if err != nil {
						fail = "Commit: " + err.Error()
						return
					}
					ops = append(ops, hop{kind: 'N', a: m, b: cx.z(w.Value())})
					regs = append(regs, pedReg[E, S]{msg, w, c})
				} else {
					rr := cx.randScalar(rng)
					w := must1(pedersencom.NewWitness(cx.sc(rr)))
					c, err := key.CommitWithWitness(msg, w)
					if err != nil {
						fail = "CommitWithWitness: " + err.Error()
						return
					}
					ops = append(ops, hop{kind: 'N', a: m, b: rr})
					regs = append(regs, pedReg[E, S]{msg, w, c})
				}
			case 'O':
				a, b := regs[i], regs[j]
				m, e1 := key.MessageOp(a.m, b.m)
				w, e2 := key.WitnessOp(a.w, b.w)
				c, e3 := key.CommitmentOp(a.c, b.c)
				if e1 != nil || e2 != nil || e3 != nil {
					fail = fmt.Sprint("Op: ", e1, e2, e3)
					return
				}
				ops = append(ops, hop{kind: 'O', i: i, j: j})
				regs = append(regs, pedReg[E, S]{m, w, c})
				if rng.Chance(1, 4) { // the variadic form: Op(first, second, rest...)
					l := rng.Intn(len(regs))
					d := regs[l]
					m3, e1 := key.MessageOp(a.m, b.m, d.m)
					w3, e2 := key.WitnessOp(a.w, b.w, d.w)
					c3, e3 := key.CommitmentOp(a.c, b.c, d.c)
					if e1 != nil || e2 != nil || e3 != nil {
						fail = fmt.Sprint("Op(3): ", e1, e2, e3)
						return
					}
					ops = append(ops, hop{kind: 'O', i: len(regs) - 1, j: l})
					regs = append(regs, pedReg[E, S]{m3, w3, c3})
				}
			case 'V':
				a := regs[i]
				m, e1 := key.MessageOpInv(a.m)
				w, e2 := key.WitnessOpInv(a.w)
				c, e3 := key.CommitmentOpInv(a.c)
				if e1 != nil || e2 != nil || e3 != nil {
					fail = fmt.Sprint("OpInv: ", e1, e2, e3)
					return
				}
				ops = append(ops, hop{kind: 'V', i: i})
				regs = append(regs, pedReg[E, S]{m, w, c})
			case 'S':
				a := regs[i]
				s := cx.randScalar(rng)
				var m *pedersencom.Message[S]
				var w *pedersencom.Witness[S]
				var c *pedersencom.Commitment[E, S]
				var e1, e2, e3 error
				if rng.Chance(1, 3) {
					// the generic double-and-add helpers of pkg/commitments over Op / OpInv
					kk := cx.numericScalar(rng)
					s = new(big.Int).Mod(kk, cx.q)
					m, e1 = commitments.MessageScalarOpSignedNumeric(key, a.m, zInt(kk))
					w, e2 = commitments.WitnessScalarOpSignedNumeric(key, a.w, zInt(kk))
					c, e3 = commitments.CommitmentScalarOpSignedNumeric(key, a.c, zInt(kk))
				} else {
					m, e1 = key.MessageScalarOp(a.m, cx.sc(s))
					w, e2 = key.WitnessScalarOp(a.w, cx.sc(s))
					c, e3 = key.CommitmentScalarOp(a.c, cx.sc(s))
				}
				if e1 != nil || e2 != nil || e3 != nil {
					fail = fmt.Sprint("ScalarOp: ", e1, e2, e3)
					return
				}
				ops = append(ops, hop{kind: 'S', i: i, a: s})
				regs = append(regs, pedReg[E, S]{m, w, c})
			case 'R':
				a := regs[i]
				var c *pedersencom.Commitment[E, S]
				var sh *pedersencom.Witness[S]
				var err error
				if rng.Bool() {
					c, sh, err = commitments.ReRandomise(key, a.c, rng)
				} else {
					sh = must1(pedersencom.NewWitness(cx.sc(cx.randScalar(rng))))
					c, err = key.ReRandomise(a.c, sh)
				}
				if err != nil {
					fail = "ReRandomise: " + err.Error()
					return
				}
				w, err := key.WitnessOp(a.w, sh)
				if err != nil {
					fail = "WitnessOp: " + err.Error()
					return
				}
				ops = append(ops, hop{kind: 'R', i: i, a: cx.z(sh.Value())})
				regs = append(regs, pedReg[E, S]{a.m, w, c})
			case 'T':
				a := regs[i]
				d := cx.randScalar(rng)
				dm := must1(pedersencom.NewMessage(cx.sc(d)))
				c, e1 := key.Shift(a.c, dm)
				m, e2 := key.MessageOp(a.m, dm)
				if e1 != nil || e2 != nil {
					fail = fmt.Sprint("Shift: ", e1, e2)
					return
				}
				ops = append(ops, hop{kind: 'T', i: i, a: d})
				regs = append(regs, pedReg[E, S]{m, a.w, c})
			}
		}
	}); p != "" {
		fail = "panic: " + p
	}
	return ops, regs, fail
}

// pedKeySpec describes a public key by the linear forms of its generators over (G, H).
type pedKeySpec struct{ g0, g1, h0, h1 *big.Int }

func (k pedKeySpec) text() string {
	return fmt.Sprintf("pub:%s,%s:%s,%s", zh(k.g0), zh(k.g1), zh(k.h0), zh(k.h1))
}

func bi(x int64) *big.Int { return big.NewInt(x) }

func pedersenCase[E algebra.PrimeGroupElement[E, S], S algebra.PrimeFieldElement[S]](r *runner, c counts, cx *grp[E, S], i int) {
	stream := "pedersen-" + cx.name
	rng := vh.NewRng(r.a.Seed, "C18", stream, i)
	id := fmt.Sprintf("P-%s-%d", cx.name, i)
	G := cx.g.Generator()
	trap := i%3 == 2
	var H E
	var keyText string
	var lambda *big.Int
	var ops []hop
	var regs []pedReg[E, S]
	var fail string
	var pub *pedersencom.CommitmentKey[E, S]
	if trap {
		var tk *pedersencom.TrapdoorKey[E, S]
		var err error
		if i%2 == 0 {
			tk, err = pedersencom.SampleTrapdoorKey(cx.g, rng)
		} else {
			tk, err = pedersencom.NewTrapdoorKey(G, cx.sc(cx.randScalar(rng)))
			if err != nil { // λ ∈ {0,1} is refused by design
				tk, err = pedersencom.NewTrapdoorKey(G, cx.sc(bi(2)))
			}
		}
		must(err)
		lambda = cx.z(tk.Lambda())
		pub = tk.Export()
		H = pub.H()
		keyText = fmt.Sprintf("trap:1,0:%s", zh(lambda))
		ops, regs, fail = pedProgram(cx, tk, rng, c.pedOps)
		if !pub.G().Equal(G) || !H.Equal(G.ScalarOp(tk.Lambda())) {
			r.prop(id, "pedersen-export-key", "exported key is not (g, λ·g)", fmt.Sprintf("%s %d | lambda=%s", stream, i, zh(lambda)), "trapdoor_equivocates")
		}
	} else {
		var err error
		pub, err = pedersencom.SampleCommitmentKey(cx.g, rng)
		must(err)
		H = pub.H()
		keyText = "pub:1,0:0,1"
		ops, regs, fail = pedProgram(cx, pub, rng, c.pedOps)
	}
	cse := fmt.Sprintf("%s %d | key=%s H=%s ops=%s", stream, i, keyText, vh.Hex(H.Bytes()), progText(ops))
	r.res.Count(stream+"-program", cse, len(regs) > 0)
	if fail != "" {
		r.prop(id, "pedersen-op-refused", "a homomorphic operation on well-formed values failed: "+fail, cse, "pedersen_homomorphic")
		return
	}
	// property on the implementation alone: every tracked opening opens, under the public key too,
	// and holds the combined message and witness (math/big recomputation)
	implOpen := make([]string, len(regs))
	ems, ers := evalOps(ops, cx.q)
	for k, g := range regs {
		g := g
		if cx.z(g.m.Value()).Cmp(ems[k]) != 0 || cx.z(g.w.Value()).Cmp(ers[k]) != 0 {
			r.prop(fmt.Sprintf("%s.v%d", id, k), "pedersen-combined-value", fmt.Sprintf("register %d (after %s): message/witness (%s, %s) are not the combined ones (%s, %s)", k, ops[k].text(), zh(cx.z(g.m.Value())), zh(cx.z(g.w.Value())), zh(ems[k]), zh(ers[k])), cse, "pedersen_homomorphic")
		}
		implOpen[k] = verdict(func() error { return pub.Open(g.c, g.m, g.w) })
		if implOpen[k] != "1" {
			r.prop(fmt.Sprintf("%s.r%d", id, k), "pedersen-homomorphic-open", fmt.Sprintf("register %d (after %s) does not open to the combined message and witness: %s", k, ops[k].text(), implOpen[k]), cse, "pedersen_homomorphic / pedersen_rerandomise / pedersen_shift")
		}
	}
	r.ask(fmt.Sprintf("P %s %s %s %s", id, zh(cx.q), keyText, progText(ops)), func(out string) {
		if out == "KEYERR" {
			r.corr(id, "pedersen-key", "model refuses the key the implementation accepted", cse, "correspondence pedersen key validation", false)
			return
		}
		mr := parseRegs(out, false)
		if len(mr) != len(regs) {
			r.corr(id, "pedersen-program", fmt.Sprintf("model has %d registers, implementation %d", len(mr), len(regs)), cse, "correspondence pedersen program", false)
			return
		}
		for k, g := range regs {
			var d []string
			modq := func(x *big.Int) *big.Int { return new(big.Int).Mod(x, cx.q) }
			if cx.z(g.m.Value()).Cmp(modq(mr[k].m)) != 0 {
				d = append(d, fmt.Sprintf("message %s model %s", zh(cx.z(g.m.Value())), zh(mr[k].m)))
			}
			if cx.z(g.w.Value()).Cmp(modq(mr[k].r)) != 0 {
				d = append(d, fmt.Sprintf("witness %s model %s", zh(cx.z(g.w.Value())), zh(mr[k].r)))
			}
			if !g.c.Value().Equal(cx.lin(mr[k].c0, mr[k].c1, G, H)) {
				d = append(d, fmt.Sprintf("commitment ≠ %s·G + %s·H", zh(mr[k].c0), zh(mr[k].c1)))
			}
			if implOpen[k] != mr[k].open {
				d = append(d, fmt.Sprintf("Open %s model %s", implOpen[k], mr[k].open))
			}
			if trap && len(mr[k].extra) == 2 && !g.c.Value().Equal(cx.lin(mr[k].extra[0], mr[k].extra[1], G, H)) {
				d = append(d, "commitment ≠ model trapdoor commitment (m + λ·r)·g")
			}
			if len(d) > 0 {
				r.corr(fmt.Sprintf("%s.r%d", id, k), "pedersen-op-"+string(ops[k].kind), fmt.Sprintf("register %d after %s: %s", k, ops[k].text(), strings.Join(d, "; ")), cse,
					"correspondence pedersen homomorphic operations in the exponent [model/Commit.v hrun ped_scheme]", implOpen[k] != "1")
			}
		}
	})

	// single-component changes on some registers
	one := bi(1)
	add := func(x, y *big.Int) *big.Int { return new(big.Int).Mod(new(big.Int).Add(x, y), cx.q) }
	std := pedKeySpec{bi(1), bi(0), bi(0), bi(1)}
	if trap {
		std = pedKeySpec{bi(1), bi(0), lambda, bi(0)}
	}
	type keyRes struct {
		k   *pedersencom.CommitmentKey[E, S]
		err error
	}
	keyCache := map[string]keyRes{}
	mkKey := func(ks pedKeySpec) (*pedersencom.CommitmentKey[E, S], error) {
		if kr, ok := keyCache[ks.text()]; ok {
			return kr.k, kr.err
		}
		k, err := pedersencom.NewCommitmentKeyUnchecked(cx.lin(ks.g0, ks.g1, G, H), cx.lin(ks.h0, ks.h1, G, H))
		keyCache[ks.text()] = keyRes{k, err}
		return k, err
	}
	for t := 0; t < c.tamperPerProgram && len(regs) > 0; t++ {
		k := len(regs) - 1
		if t > 0 {
			k = rng.Intn(len(regs))
		}
		g := regs[k]
		m, w := cx.z(g.m.Value()), cx.z(g.w.Value())
		type tv struct {
			name       string
			ks         pedKeySpec
			dc0, dc1   *big.Int // commitment' = scale·c + dc0·G + dc1·H
			scale      *big.Int
			m, w       *big.Int
			mustReject bool
		}
		z := bi(0)
		vs := []tv{
			{"honest", std, z, z, one, m, w, false},
			{"msg+1", std, z, z, one, add(m, one), w, true},
			{"msg-1", std, z, z, one, add(m, bi(-1)), w, true},
			{"msg-random", std, z, z, one, cx.randScalar(rng), w, true},
			{"wit+1", std, z, z, one, m, add(w, one), true},
			{"wit-1", std, z, z, one, m, add(w, bi(-1)), true},
			{"wit-random", std, z, z, one, m, cx.randScalar(rng), true},
			{"com+G", std, one, z, one, m, w, true},
			{"com+H", std, z, one, one, m, w, true},
			{"com-neg", std, z, z, bi(-1), m, w, true},
			{"com-double", std, z, z, bi(2), m, w, true},
			{"com-identity", std, z, z, z, m, w, true},
			{"key-h+g", pedKeySpec{std.g0, std.g1, add(std.h0, std.g0), add(std.h1, std.g1)}, z, z, one, m, w, w.Sign() != 0},
			{"key-2h", pedKeySpec{std.g0, std.g1, add(std.h0, std.h0), add(std.h1, std.h1)}, z, z, one, m, w, w.Sign() != 0},
			{"key-2g", pedKeySpec{add(std.g0, std.g0), add(std.g1, std.g1), std.h0, std.h1}, z, z, one, m, w, m.Sign() != 0},
			{"key-swapped", pedKeySpec{std.h0, std.h1, std.g0, std.g1}, z, z, one, m, w, m.Cmp(w) != 0},
			{"key-g-for-both", pedKeySpec{std.g0, std.g1, add(std.g0, std.g0), add(std.g1, std.g1)}, z, z, one, m, w, true},
			// keys NewCommitmentKeyUnchecked must refuse
			{"key-h-equals-g", pedKeySpec{std.g0, std.g1, std.g0, std.g1}, z, z, one, m, w, false},
			{"key-h-identity", pedKeySpec{std.g0, std.g1, z, z}, z, z, one, m, w, false},
		}
		type pendT struct {
			v               tv
			vid, tcse, impl string
		}
		var pend []pendT
		for vi, v := range vs {
			vid := fmt.Sprintf("%s.t%d.%d", id, t, vi)
			// commitment'
			cv := g.c.Value()
			if v.scale.Cmp(one) != 0 {
				cv = cv.ScalarOp(cx.sc(v.scale))
			}
			if v.dc0.Sign() != 0 {
				cv = cv.Op(G)
			}
			if v.dc1.Sign() != 0 {
				cv = cv.Op(H)
			}
			changedCom := !cv.Equal(g.c.Value())
			if strings.HasPrefix(v.name, "com") && !changedCom {
				continue // e.g. −c = c for the identity
			}
			v.m, v.w = new(big.Int).Mod(v.m, cx.q), new(big.Int).Mod(v.w, cx.q)
			if strings.HasPrefix(v.name, "msg") && v.m.Cmp(m) == 0 || strings.HasPrefix(v.name, "wit") && v.w.Cmp(w) == 0 {
				continue
			}
			if v.name == "key-g-for-both" {
				// m·g + r·(2g) opens c = m·g + r·h only if r·(h − 2g) = 0
				v.mustReject = w.Sign() != 0 && !(trap && lambda.Cmp(bi(2)) == 0)
			}
			kk, kerr := mkKey(v.ks)
			tcse := fmt.Sprintf("%s change=%s@r%d", cse, v.name, k)
			r.res.Count(stream+"-"+tamperClass(v.name), tcse, true)
			impl := "keyerr"
			if kerr == nil {
				cc := must1(pedersencom.NewCommitment(cv))
				mm := must1(pedersencom.NewMessage(cx.sc(v.m)))
				ww := must1(pedersencom.NewWitness(cx.sc(v.w)))
				impl = verdict(func() error { return kk.Open(cc, mm, ww) })
			}
			if v.name == "honest" && impl != "1" {
				r.prop(vid, "pedersen-honest-open-rejected", "Open rejects the tracked opening under a key rebuilt from (g, h): "+impl, tcse, "pedersen_open_iff")
			}
			if v.mustReject && impl == "1" {
				r.prop(vid, "pedersen-open-accepts-"+tamperClass(v.name), "Open accepts although "+v.name+" was changed", tcse, "pedersen_open_iff")
			}
			pend = append(pend, pendT{v, vid, tcse, impl})
		}
		// the changed commitment as a linear form needs the model's value of the register
		r.ask(fmt.Sprintf("P %s.t%d %s %s %s", id, t, zh(cx.q), keyText, progText(ops)), func(out string) {
			mr := parseRegs(out, false)
			if len(mr) <= k {
				return
			}
			for _, p := range pend {
				p := p
				v := p.v
				c0 := add(new(big.Int).Mul(v.scale, mr[k].c0), v.dc0)
				c1 := add(new(big.Int).Mul(v.scale, mr[k].c1), v.dc1)
				r.ask(fmt.Sprintf("PO %s %s %s %s,%s %s %s", p.vid, zh(cx.q), v.ks.text(), zh(c0), zh(c1), zh(v.m), zh(v.w)), func(out string) {
					want := out
					if out == "KEYERR" {
						want = "keyerr"
					}
					if r.openAlarm(v.name == "honest", p.impl, want) {
						r.corr(p.vid, "pedersen-open-"+tamperClass(v.name), fmt.Sprintf("implementation Open=%s, model ped_open=%s", p.impl, out), p.tcse,
							"correspondence pedersen Open [model/Commit.v ped_open]", (v.name == "honest" && p.impl != "1") || (v.mustReject && p.impl == "1"))
					}
				})
			}
		})
	}
}

func tamperClass(name string) string {
	if i := strings.IndexAny(name, "+-"); i > 0 && (strings.HasPrefix(name, "msg") || strings.HasPrefix(name, "wit")) {
		return name[:i]
	}
	return name
}

// pedersenEquivocate: trapdoor key, equivocation verified under the exported public key.
func pedersenEquivocate[E algebra.PrimeGroupElement[E, S], S algebra.PrimeFieldElement[S]](r *runner, cx *grp[E, S], i int) {
	stream := "pedeq-" + cx.name
	rng := vh.NewRng(r.a.Seed, "C18", stream, i)
	id := fmt.Sprintf("PE-%s-%d", cx.name, i)
	G := cx.g.Generator()
	var tk *pedersencom.TrapdoorKey[E, S]
	var err error
	if i%2 == 0 {
		tk, err = pedersencom.SampleTrapdoorKey(cx.g, rng)
	} else {
		l := new(big.Int).Mod(cx.randScalar(rng), cx.q)
		if l.Cmp(bi(1)) <= 0 {
			l = bi(2)
		}
		tk, err = pedersencom.NewTrapdoorKey(G, cx.sc(l))
	}
	must(err)
	lambda := cx.z(tk.Lambda())
	m, m2 := cx.randScalar(rng), cx.randScalar(rng)
	if i%7 == 3 {
		m2 = m
	}
	msg := must1(pedersencom.NewMessage(cx.sc(m)))
	msg2 := must1(pedersencom.NewMessage(cx.sc(m2)))
	var com *pedersencom.Commitment[E, S]
	var wit *pedersencom.Witness[S]
	if i%3 == 0 {
		wit = must1(pedersencom.NewWitness(cx.sc(cx.randScalar(rng))))
		com, err = tk.CommitWithWitness(msg, wit)
	} else {
		com, wit, err = commitments.Commit(tk, msg, rng)
	}
	must(err)
	w := cx.z(wit.Value())
	cse := fmt.Sprintf("%s %d | lambda=%s m=%s r=%s m'=%s", stream, i, zh(lambda), zh(m), zh(w), zh(m2))
	r.res.Count(stream, cse, true)
	pub := tk.Export()
	var w2 *pedersencom.Witness[S]
	var eerr error
	if p := vh.Safely(func() { w2, eerr = tk.Equivocate(msg, wit, msg2, rng) }); p != "" {
		eerr = fmt.Errorf("panic: %s", p)
	}
	implR, implOpen := "ERR", "-"
	if eerr == nil {
		implR = zh(cx.z(w2.Value()))
		implOpen = verdict(func() error { return pub.Open(com, msg2, w2) })
		if implOpen != "1" {
			r.prop(id, "pedersen-equivocation-does-not-open", "the witness returned by Equivocate does not open the commitment to the new message under the exported key", cse, "trapdoor_equivocates")
		}
	} else {
		r.prop(id, "pedersen-equivocate-refused", "Equivocate failed on a valid trapdoor key: "+eerr.Error(), cse, "trapdoor_equivocates")
	}
	// the trapdoor commitment is the public commitment; the old witness does not open the new message
	if c2, err := pub.CommitWithWitness(msg, wit); err != nil || !c2.Equal(com) {
		r.prop(id, "pedersen-trapdoor-commit-differs", "TrapdoorKey.CommitWithWitness ≠ exported key's CommitWithWitness", cse, "trapdoor_commit_is_public_commit")
	}
	if new(big.Int).Mod(new(big.Int).Sub(m, m2), cx.q).Sign() != 0 && verdict(func() error { return pub.Open(com, msg2, wit) }) == "1" {
		r.prop(id, "pedersen-open-accepts-msg", "the original witness opens the commitment to a different message", cse, "pedersen_open_iff")
	}
	r.ask(fmt.Sprintf("PE %s %s 1,0 %s %s %s %s", id, zh(cx.q), zh(lambda), zh(m), zh(w), zh(m2)), func(out string) {
		f := strings.Fields(out)
		mR, mOpen := f[0], "-"
		if len(f) > 1 {
			mOpen = f[1]
		}
		if mR != implR || mOpen != implOpen {
			r.corr(id, "pedersen-equivocate", fmt.Sprintf("implementation r'=%s open=%s, model r'=%s open=%s", implR, implOpen, mR, mOpen), cse,
				"correspondence Equivocate [model/Commit.v ped_equivocate]", implOpen != "1")
		}
	})
}

// pedersenBadTrapdoor: λ ∈ {0, 1} (h = identity / h = g) must be refused, as in the model.
func pedersenBadTrapdoor[E algebra.PrimeGroupElement[E, S], S algebra.PrimeFieldElement[S]](r *runner, cx *grp[E, S]) {
	for _, l := range []*big.Int{bi(0), bi(1), cx.q, new(big.Int).Add(cx.q, bi(1))} {
		l := l
		id := fmt.Sprintf("PT-%s-%s", cx.name, zh(l))
		cse := fmt.Sprintf("pedtrap-%s 0 | lambda=%s", cx.name, zh(l))
		_, err := pedersencom.NewTrapdoorKey(cx.g.Generator(), cx.sc(l))
		r.res.Count("pedersen-"+cx.name+"-bad-trapdoor", cse, true)
		r.ask(fmt.Sprintf("PE %s %s 1,0 %s 0 0 0", id, zh(cx.q), zh(l)), func(out string) {
			if (out == "KEYERR") != (err != nil) {
				r.corr(id, "pedersen-trapdoor-validation", fmt.Sprintf("NewTrapdoorKey(g, λ) refused=%v, model %s", err != nil, out), cse, "correspondence NewTrapdoorKey validation [model/Commit.v ped_new_tkey]", false)
			}
		})
	}
}

func pedersenAll(r *runner, c counts) {
	_ = bls12381.NewScalarField() // G1.Order() needs the scalar field initialised
	k := newGrp("k256", k256.NewCurve())
	b := newGrp("bls12381g1", bls12381.NewG1())
	p := newGrp("p256", p256.NewCurve())
	e := newGrp("edwards25519", edwards25519.NewPrimeSubGroup())
	pedersenBadTrapdoor(r, k)
	pedersenBadTrapdoor(r, b)
	pedersenBadTrapdoor(r, p)
	pedersenBadTrapdoor(r, e)
	for i := 0; i < c.ped; i++ {
		pedersenCase(r, c, k, i)
		pedersenCase(r, c, b, i)
		if i%4 == 0 {
			pedersenCase(r, c, p, i)
			pedersenCase(r, c, e, i)
		}
		r.maybeFlush()
	}
	for i := 0; i < c.equiv; i++ {
		pedersenEquivocate(r, k, i)
		pedersenEquivocate(r, b, i)
		if i%4 == 0 {
			pedersenEquivocate(r, p, i)
			pedersenEquivocate(r, e, i)
		}
		r.maybeFlush()
	}
}

func pedersenReplay(r *runner, c counts, stream string, idx int) {
	_ = bls12381.NewScalarField()
	eq := strings.HasPrefix(stream, "pedeq-")
	name := stream[strings.Index(stream, "-")+1:]
	switch name {
	case "k256":
		if eq {
			pedersenEquivocate(r, newGrp("k256", k256.NewCurve()), idx)
		} else {
			pedersenCase(r, c, newGrp("k256", k256.NewCurve()), idx)
		}
	case "bls12381g1":
		if eq {
			pedersenEquivocate(r, newGrp("bls12381g1", bls12381.NewG1()), idx)
		} else {
			pedersenCase(r, c, newGrp("bls12381g1", bls12381.NewG1()), idx)
		}
	case "p256":
		if eq {
			pedersenEquivocate(r, newGrp("p256", p256.NewCurve()), idx)
		} else {
			pedersenCase(r, c, newGrp("p256", p256.NewCurve()), idx)
		}
	case "edwards25519":
		if eq {
			pedersenEquivocate(r, newGrp("edwards25519", edwards25519.NewPrimeSubGroup()), idx)
		} else {
			pedersenCase(r, c, newGrp("edwards25519", edwards25519.NewPrimeSubGroup()), idx)
		}
	}
}
