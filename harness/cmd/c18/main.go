// c18 — correspondence harness for property C18 (commitments open only to what was
// committed).  See /verif/DESIGN.md §5 C18 and coq/model/Commit.v.
//
// Every case drives the real implementation through its public API, hands the same
// inputs to the extracted model (ocaml/c18/driver) and compares projected observables:
// open ok/reject, commitment bytes (hashcom: BLAKE2b of the model's frame computed by
// golang.org/x/crypto/blake2b), group elements through the exponent (c0·G + c1·H
// recomputed with the library's curve API), integers as hex.
package main

import (
	"fmt"
	"math/big"
	"os"
	"runtime/pprof"
	"strconv"
	"strings"
	"time"

	"verif/harness/internal/vh"
)

// ---- batched model evaluation ------------------------------------------------------------

type pending struct {
	line  string
	check func(out string)
}

type runner struct {
	a      vh.Args
	res    *vh.Result
	batch  []pending
	perKey map[string]int
}

// keep at most a few mismatches per key so that every distinct key is represented in the
// (bounded) result list
func (r *runner) room(key string) bool {
	if r.perKey == nil {
		r.perKey = map[string]int{}
	}
	r.perKey[key]++
	return r.perKey[key] <= 6
}

// ask queues one model line; check receives the model's answer (text after "KIND id ").
func (r *runner) ask(line string, check func(out string)) {
	r.batch = append(r.batch, pending{line, check})
}

// maybeFlush keeps the queue bounded in the thorough tier (called between cases only).
func (r *runner) maybeFlush() {
	if len(r.batch) > 20000 {
		r.flush()
	}
}

// flush evaluates queued lines; checks may queue follow-up lines (second phase).
func (r *runner) flush() {
	for len(r.batch) > 0 {
		b := r.batch
		r.batch = nil
		lines := make([]string, len(b))
		for i, p := range b {
			lines[i] = p.line
		}
		out, err := vh.Driver(r.a.Driver, lines)
		if err != nil {
			fmt.Fprintln(os.Stderr, err)
			os.Exit(3)
		}
		for i, p := range b {
			f := strings.SplitN(out[i], " ", 3)
			ans := ""
			if len(f) == 3 {
				ans = f[2]
			}
			p.check(ans)
		}
	}
}

func (r *runner) corr(id, key, detail, cse, what string, propfail bool) {
	if !r.room("corr/" + key) {
		return
	}
	r.res.Mismatch(vh.Mismatch{ID: id, Kind: "corr", Key: key, Detail: detail, Case: cse, PropFail: propfail, What: what})
}

func (r *runner) prop(id, key, detail, cse, what string) {
	if !r.room("prop/" + key) {
		return
	}
	r.res.Mismatch(vh.Mismatch{ID: id, Kind: "prop", Key: key, Detail: detail, Case: cse, PropFail: true, What: what})
}

// openAlarm decides whether a difference between the implementation's and the model's Open
// verdict is a broken tie.  For the committed opening (and for equivocated ones) both must
// accept.  For a changed opening the property is one-sided: only "implementation accepts what
// the model rejects" (or a panic) is an alarm; an implementation that is stricter than the
// model — rejects a degenerate coincidence the model accepts, refuses a key the model admits —
// is counted but not reported.
func (r *runner) openAlarm(honest bool, impl, model string) bool {
	if impl == model {
		return false
	}
	if honest || impl == "panic" || impl == "1" || model == "keyerr" {
		return true // incl. a key the model refuses (g = h, identity) but the implementation admits
	}
	r.res.Distribution["changed-opening-implementation-stricter-than-model"]++
	return false
}

// ---- small helpers -----------------------------------------------------------------------

func zh(x *big.Int) string { return vh.ZHex(x) }

func b01(b bool) string {
	if b {
		return "1"
	}
	return "0"
}

func must(err error) {
	if err != nil {
		panic(err)
	}
}

func must1[T any](x T, err error) T {
	if err != nil {
		panic(err)
	}
	return x
}

// verdict maps an Open result to the observable enum ok | reject | panic.
func verdict(f func() error) string {
	var err error
	if p := vh.Safely(func() { err = f() }); p != "" {
		return "panic"
	}
	if err != nil {
		return "0"
	}
	return "1"
}

func flipBit(b []byte, bit int) []byte {
	c := append([]byte{}, b...)
	c[bit/8] ^= 1 << (uint(bit) % 8)
	return c
}

// bitPositions: every bit in the thorough tier, a spread incl. first and last otherwise.
func bitPositions(r *vh.Rng, nbits int, tier string, quickCount int) []int {
	if nbits == 0 {
		return nil
	}
	if tier == "thorough" || nbits <= quickCount {
		ps := make([]int, nbits)
		for i := range ps {
			ps[i] = i
		}
		return ps
	}
	seen := map[int]bool{0: true, nbits - 1: true, 7: true, nbits - 8: true}
	ps := []int{0, 7, nbits - 8, nbits - 1}
	for len(ps) < quickCount {
		p := r.Intn(nbits)
		if !seen[p] {
			seen[p] = true
			ps = append(ps, p)
		}
	}
	return ps
}

// ---- main ----------------------------------------------------------------------------------

type counts struct {
	hash, hashThoroughBits       int
	ped, pedOps                  int
	intc, intOps                 int
	eg, egOps                    int
	ext                          int
	equiv                        int
	tamperPerProgram, intKeyBits int
}

func main() {
	a := vh.ParseArgs()
	if pf := os.Getenv("C18_PROF"); pf != "" {
		f, _ := os.Create(pf)
		pprof.StartCPUProfile(f)
		defer pprof.StopCPUProfile()
	}
	res := vh.NewResult("C18", a.Seed, a.Tier)
	res.Rule = "hashcom: random/boundary (empty, 1 byte, long) messages × keys × witnesses, every case with single-bit changes of key/message/witness/commitment, truncations, extensions and message/witness boundary shifts; pedersencom (k256, BLS12-381 G1, P-256, edwards25519), intcom (cached safe-prime moduli), indcpacom over ElGamal (k256, BLS12-381 G1): random sequences of homomorphic operations on tracked openings (messages 0, 1, q-1 and random), per program single-component changes of message/witness/commitment/key, trapdoor keys with equivocation verified under the exported key; key extraction from pairs of equal/different transcripts. non-trivial = the case reached an Open / commitment computation; distinct by canonical case text"
	r := &runner{a: a, res: res}

	c := counts{hash: 120, ped: 20, pedOps: 10, intc: 10, intOps: 10, eg: 12, egOps: 10, ext: 60, equiv: 24, tamperPerProgram: 2}
	if a.Tier == "thorough" {
		c = counts{hash: 800, ped: 300, pedOps: 50, intc: 120, intOps: 50, eg: 200, egOps: 50, ext: 1500, equiv: 600, tamperPerProgram: 6}
	}
	if a.Search {
		c = counts{hash: 600, ped: 150, pedOps: c.pedOps, intc: 40, intOps: c.intOps, eg: 100, egOps: c.egOps, ext: 400, equiv: 300, tamperPerProgram: 4}
	}

	if a.Replay != "" {
		replay(r)
		r.flush()
		res.Write(a.Out)
		return
	}

	t0 := time.Now()
	lap := func(what string) {
		r.flush()
		res.Note("%s: %.1fs", what, time.Since(t0).Seconds())
		t0 = time.Now()
	}
	// small streams first so that the evidence samples show more than one scheme
	for i := 0; i < c.ext; i++ {
		extractCase(r, i)
		r.maybeFlush()
	}
	lap("extraction")
	equalAll(r)
	lap("equality")
	intcomAll(r, c)
	lap("intcom")
	elgamalAll(r, c)
	lap("indcpacom")
	pedersenAll(r, c)
	lap("pedersencom")
	for i := 0; i < c.hash; i++ {
		hashcomCase(r, i)
		if i < 40 || r.a.Tier == "thorough" {
			hashcomAliasCase(r, i)
		}
		r.maybeFlush()
	}
	lap("hashcom")
	res.Write(a.Out)
}

// replay re-runs the case named by the "case:" line of a replay file: "<stream> <index> | details".
// Cases are regenerated from (seed, stream, index), the seed is the file's "seed:" line.
func replay(r *runner) {
	b, err := os.ReadFile(r.a.Replay)
	must(err)
	for _, line := range strings.Split(string(b), "\n") {
		if strings.HasPrefix(line, "seed: ") {
			if s, err := strconv.ParseInt(strings.TrimSpace(strings.TrimPrefix(line, "seed: ")), 10, 64); err == nil {
				r.a.Seed = s
				r.res.Seed = s
			}
		}
		if strings.HasPrefix(line, "tier: ") { // program lengths depend on the tier the case was found in
			if t := strings.TrimSpace(strings.TrimPrefix(line, "tier: ")); t == "quick" || t == "thorough" {
				r.a.Tier = t
			}
		}
	}
	c := counts{hash: 0, ped: 0, pedOps: 10, intOps: 10, egOps: 10, tamperPerProgram: 6}
	if r.a.Tier == "thorough" {
		c.pedOps, c.intOps, c.egOps = 50, 50, 50
	}
	for _, line := range strings.Split(string(b), "\n") {
		if !strings.HasPrefix(line, "case: ") {
			continue
		}
		f := strings.Fields(strings.TrimPrefix(line, "case: "))
		if len(f) < 2 {
			continue
		}
		idx, _ := strconv.Atoi(f[1])
		switch {
		case f[0] == "hashcom-alias":
			hashcomAliasCase(r, idx)
		case f[0] == "hashcom":
			hashcomCase(r, idx)
		case strings.HasPrefix(f[0], "pedersen-"), strings.HasPrefix(f[0], "pedeq-"):
			pedersenReplay(r, c, f[0], idx)
		case strings.HasPrefix(f[0], "elgamal-"):
			elgamalReplay(r, c, f[0], idx)
		case strings.HasPrefix(f[0], "intcom-"), strings.HasPrefix(f[0], "inteq-"), strings.HasPrefix(f[0], "intbound-"):
			intcomReplay(r, c, f[0], idx)
		case strings.HasPrefix(f[0], "equal-"):
			equalReplay(r, f[0], idx)
		case f[0] == "extract":
			extractCase(r, idx)
		default:
			r.res.Note("unknown replay case kind %s", f[0])
		}
	}
}
