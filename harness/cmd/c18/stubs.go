package main

func intcomAll(r *runner, c counts)                            {}
func intcomReplay(r *runner, c counts, stream string, idx int) {}
func extractCase(r *runner, i int)                             {}
