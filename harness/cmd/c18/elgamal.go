package main

import (
	"fmt"
	"math/big"
	"strings"

	"github.com/bronlabs/bron-crypto/pkg/base/algebra"
	"github.com/bronlabs/bron-crypto/pkg/base/curves/k256"
	"github.com/bronlabs/bron-crypto/pkg/base/curves/pairable/bls12381"
	"github.com/bronlabs/bron-crypto/pkg/commitments"
	"github.com/bronlabs/bron-crypto/pkg/commitments/indcpacom"
	"github.com/bronlabs/bron-crypto/pkg/encryption/elgamal"

	"verif/harness/internal/vh"
)

// indcpacom instantiated with ElGamal: plaintext μ·G, nonce r, ciphertext (r·G, μ·G + r·x·G).
// The harness chooses the secret x, so both ciphertext components are tied in the exponent.

type egElem[E interface {
	algebra.PrimeGroupElement[E, S]
	elgamal.FiniteCyclicGroupElement[E, S]
}, S algebra.PrimeFieldElement[S]] interface {
	algebra.PrimeGroupElement[E, S]
	elgamal.FiniteCyclicGroupElement[E, S]
}

type (
	egMsg[E egElem[E, S], S algebra.PrimeFieldElement[S]] = indcpacom.Message[*elgamal.Plaintext[E, S]]
	egWit[E egElem[E, S], S algebra.PrimeFieldElement[S]] = indcpacom.Witness[*elgamal.Nonce[S]]
	egCom[E egElem[E, S], S algebra.PrimeFieldElement[S]] = indcpacom.Commitment[*elgamal.Ciphertext[E, S]]
	egKey[E egElem[E, S], S algebra.PrimeFieldElement[S]] = indcpacom.HomomorphicCommitmentKey[*elgamal.PublicKey[E, S], *elgamal.Plaintext[E, S], *elgamal.Nonce[S], *elgamal.Ciphertext[E, S], S]
)

type egReg[E egElem[E, S], S algebra.PrimeFieldElement[S]] struct {
	m *egMsg[E, S]
	w *egWit[E, S]
	c *egCom[E, S]
}

func egMessage[E egElem[E, S], S algebra.PrimeFieldElement[S]](cx *grp[E, S], mu *big.Int) *egMsg[E, S] {
	return must1(indcpacom.NewMessage(must1(elgamal.NewPlaintext(cx.g.Generator().ScalarOp(cx.sc(mu))))))
}

func egWitness[E egElem[E, S], S algebra.PrimeFieldElement[S]](cx *grp[E, S], r *big.Int) *egWit[E, S] {
	return must1(indcpacom.NewWitness(must1(elgamal.NewNonce(cx.sc(r)))))
}

func egProgram[E egElem[E, S], S algebra.PrimeFieldElement[S]](cx *grp[E, S], key *egKey[E, S], rng *vh.Rng, maxOps int) (ops []hop, regs []egReg[E, S], mus []*big.Int, fail string) {
	n := 1 + rng.Intn(maxOps)
	modq := func(x *big.Int) *big.Int { return x.Mod(x, cx.q) }
	if p := vh.Safely(func() {
		for len(ops) < n && fail == "" {
			kind, i, j := nextOp(rng, len(regs))
			switch kind {
			case 'N':
				mu := cx.randScalar(rng)
				msg := egMessage(cx, mu)
				if rng.Bool() {
					c, w, err := commitments.Commit(key, msg, rng)
					if err != nil {
						fail = "Commit: " + err.Error()
						return
					}
					ops = append(ops, hop{kind: 'N', a: mu, b: cx.z(w.Value().Value())})
					regs = append(regs, egReg[E, S]{msg, w, c})
				} else {
					rr := cx.randScalar(rng)
					w := egWitness(cx, rr)
					c, err := key.CommitWithWitness(msg, w)
					if err != nil {
						fail = "CommitWithWitness: " + err.Error()
						return
					}
					ops = append(ops, hop{kind: 'N', a: mu, b: rr})
					regs = append(regs, egReg[E, S]{msg, w, c})
				}
				mus = append(mus, mu)
			case 'O':
				a, b := regs[i], regs[j]
				m, e1 := key.MessageOp(a.m, b.m)
				w, e2 := key.WitnessOp(a.w, b.w)
				c, e3 := key.CommitmentOp(a.c, b.c)
				if e1 != nil || e2 != nil || e3 != nil {
					fail = fmt.Sprint("Op: ", e1, e2, e3)
					return
				}
				ops = append(ops, hop{kind: 'O', i: i, j: j})
				regs = append(regs, egReg[E, S]{m, w, c})
				mus = append(mus, modq(new(big.Int).Add(mus[i], mus[j])))
				if rng.Chance(1, 4) { // the variadic form: Op(first, second, rest...)
					l := rng.Intn(len(regs))
					d := regs[l]
					m3, e1 := key.MessageOp(a.m, b.m, d.m)
					w3, e2 := key.WitnessOp(a.w, b.w, d.w)
					c3, e3 := key.CommitmentOp(a.c, b.c, d.c)
					if e1 != nil || e2 != nil || e3 != nil {
						fail = fmt.Sprint("Op(3): ", e1, e2, e3)
						return
					}
					ops = append(ops, hop{kind: 'O', i: len(regs) - 1, j: l})
					regs = append(regs, egReg[E, S]{m3, w3, c3})
					mus = append(mus, modq(new(big.Int).Add(mus[len(mus)-1], mus[l])))
				}
			case 'V':
				a := regs[i]
				m, e1 := key.MessageOpInv(a.m)
				w, e2 := key.WitnessOpInv(a.w)
				c, e3 := key.CommitmentOpInv(a.c)
				if e1 != nil || e2 != nil || e3 != nil {
					fail = fmt.Sprint("OpInv: ", e1, e2, e3)
					return
				}
				ops = append(ops, hop{kind: 'V', i: i})
				regs = append(regs, egReg[E, S]{m, w, c})
				mus = append(mus, modq(new(big.Int).Neg(mus[i])))
			case 'S':
				a := regs[i]
				s := cx.randScalar(rng)
				var m *egMsg[E, S]
				var w *egWit[E, S]
				var c *egCom[E, S]
				var e1, e2, e3 error
				if rng.Chance(1, 3) {
					kk := cx.numericScalar(rng)
					s = new(big.Int).Mod(kk, cx.q)
					m, e1 = commitments.MessageScalarOpSignedNumeric(key, a.m, zInt(kk))
					w, e2 = commitments.WitnessScalarOpSignedNumeric(key, a.w, zInt(kk))
					c, e3 = commitments.CommitmentScalarOpSignedNumeric(key, a.c, zInt(kk))
				} else {
					m, e1 = key.MessageScalarOp(a.m, cx.sc(s))
					w, e2 = key.WitnessScalarOp(a.w, cx.sc(s))
					c, e3 = key.CommitmentScalarOp(a.c, cx.sc(s))
				}
				if e1 != nil || e2 != nil || e3 != nil {
					fail = fmt.Sprint("ScalarOp: ", e1, e2, e3)
					return
				}
				ops = append(ops, hop{kind: 'S', i: i, a: s})
				regs = append(regs, egReg[E, S]{m, w, c})
				mus = append(mus, modq(new(big.Int).Mul(mus[i], s)))
			case 'R':
				a := regs[i]
				var c *egCom[E, S]
				var sh *egWit[E, S]
				var err error
				if rng.Bool() {
					c, sh, err = commitments.ReRandomise(key, a.c, rng)
				} else {
					sh = egWitness(cx, cx.randScalar(rng))
					c, err = key.ReRandomise(a.c, sh)
				}
				if err != nil {
					fail = "ReRandomise: " + err.Error()
					return
				}
				w, err := key.WitnessOp(a.w, sh)
				if err != nil {
					fail = "WitnessOp: " + err.Error()
					return
				}
				ops = append(ops, hop{kind: 'R', i: i, a: cx.z(sh.Value().Value())})
				regs = append(regs, egReg[E, S]{a.m, w, c})
				mus = append(mus, mus[i])
			case 'T':
				a := regs[i]
				d := cx.randScalar(rng)
				dm := egMessage(cx, d)
				c, e1 := key.Shift(a.c, dm)
				m, e2 := key.MessageOp(a.m, dm)
				if e1 != nil || e2 != nil {
					fail = fmt.Sprint("Shift: ", e1, e2)
					return
				}
				ops = append(ops, hop{kind: 'T', i: i, a: d})
				regs = append(regs, egReg[E, S]{m, a.w, c})
				mus = append(mus, modq(new(big.Int).Add(mus[i], d)))
			}
		}
	}); p != "" {
		fail = "panic: " + p
	}
	return ops, regs, mus, fail
}

func elgamalCase[E egElem[E, S], S algebra.PrimeFieldElement[S]](r *runner, c counts, cx *grp[E, S], i int) {
	stream := "elgamal-" + cx.name
	rng := vh.NewRng(r.a.Seed, "C18", stream, i)
	id := fmt.Sprintf("E-%s-%d", cx.name, i)
	G := cx.g.Generator()
	x := new(big.Int).Mod(cx.randScalar(rng), cx.q)
	if x.Cmp(bi(1)) <= 0 {
		x = bi(2)
	}
	sk := must1(elgamal.NewSecretKey(G, cx.sc(x)))
	mkKey := func(xx *big.Int) *egKey[E, S] {
		s := must1(elgamal.NewSecretKey(G, cx.sc(xx)))
		return must1(indcpacom.NewHomomorphicCommitmentKey(s.Public()))
	}
	key := must1(indcpacom.NewHomomorphicCommitmentKey(sk.Public()))
	ops, regs, mus, fail := egProgram(cx, key, rng, c.egOps)
	cse := fmt.Sprintf("%s %d | x=%s ops=%s", stream, i, zh(x), progText(ops))
	r.res.Count(stream+"-program", cse, len(regs) > 0)
	if fail != "" {
		r.prop(id, "indcpacom-op-refused", "a homomorphic operation on well-formed values failed: "+fail, cse, "indcpa homomorphic operations")
		return
	}
	comps := func(cc *egCom[E, S]) (E, E) {
		cs := cc.Value().Value().Components()
		return cs[0], cs[1]
	}
	implOpen := make([]string, len(regs))
	ems, ers := evalOps(ops, cx.q)
	for k, g := range regs {
		g := g
		if !g.m.Value().Value().Equal(G.ScalarOp(cx.sc(ems[k]))) || cx.z(g.w.Value().Value()).Cmp(ers[k]) != 0 {
			r.prop(fmt.Sprintf("%s.v%d", id, k), "indcpacom-combined-value", fmt.Sprintf("register %d (after %s): message/nonce are not the combined ones (%s·G, %s)", k, ops[k].text(), zh(ems[k]), zh(ers[k])), cse, "eg_homomorphic")
		}
		implOpen[k] = verdict(func() error { return key.Open(g.c, g.m, g.w) })
		if implOpen[k] != "1" {
			r.prop(fmt.Sprintf("%s.r%d", id, k), "indcpacom-homomorphic-open", fmt.Sprintf("register %d (after %s) does not open to the combined message and nonce: %s", k, ops[k].text(), implOpen[k]), cse, "eg_homomorphic")
		}
	}
	r.ask(fmt.Sprintf("E %s %s %s %s", id, zh(cx.q), zh(x), progText(ops)), func(out string) {
		mr := parseRegs(out, false)
		if len(mr) != len(regs) {
			r.corr(id, "indcpacom-program", fmt.Sprintf("model has %d registers, implementation %d", len(mr), len(regs)), cse, "correspondence indcpacom program", false)
			return
		}
		for k, g := range regs {
			var d []string
			modq := func(x *big.Int) *big.Int { return new(big.Int).Mod(x, cx.q) }
			if !g.m.Value().Value().Equal(G.ScalarOp(cx.sc(mr[k].m))) || modq(mus[k]).Cmp(modq(mr[k].m)) != 0 {
				d = append(d, fmt.Sprintf("message ≠ %s·G", zh(mr[k].m)))
			}
			if cx.z(g.w.Value().Value()).Cmp(modq(mr[k].r)) != 0 {
				d = append(d, fmt.Sprintf("nonce %s model %s", zh(cx.z(g.w.Value().Value())), zh(mr[k].r)))
			}
			c1, c2 := comps(g.c)
			if !c1.Equal(G.ScalarOp(cx.sc(mr[k].c0))) || !c2.Equal(G.ScalarOp(cx.sc(mr[k].c1))) {
				d = append(d, fmt.Sprintf("ciphertext ≠ (%s·G, %s·G)", zh(mr[k].c0), zh(mr[k].c1)))
			}
			if implOpen[k] != mr[k].open {
				d = append(d, fmt.Sprintf("Open %s model %s", implOpen[k], mr[k].open))
			}
			if len(d) > 0 {
				r.corr(fmt.Sprintf("%s.r%d", id, k), "indcpacom-op-"+string(ops[k].kind), fmt.Sprintf("register %d after %s: %s", k, ops[k].text(), strings.Join(d, "; ")), cse,
					"correspondence indcpacom/ElGamal operations in the exponent [model/Commit.v hrun eg_scheme]", implOpen[k] != "1")
			}
		}
	})

	add := func(a, b *big.Int) *big.Int { return new(big.Int).Mod(new(big.Int).Add(a, b), cx.q) }
	one, z := bi(1), bi(0)
	for t := 0; t < c.tamperPerProgram && len(regs) > 0; t++ {
		k := len(regs) - 1
		if t > 0 {
			k = rng.Intn(len(regs))
		}
		g := regs[k]
		mu, w := mus[k], cx.z(g.w.Value().Value())
		type tv struct {
			name       string
			x          *big.Int
			d0, d1     *big.Int // ciphertext' = ciphertext + (d0·G, d1·G)
			mu, w      *big.Int
			mustReject bool
		}
		x2 := add(x, one)
		if x2.Cmp(bi(1)) <= 0 {
			x2 = bi(3)
		}
		vs := []tv{
			{"honest", x, z, z, mu, w, false},
			{"msg+1", x, z, z, add(mu, one), w, true},
			{"msg-random", x, z, z, cx.randScalar(rng), w, true},
			{"wit+1", x, z, z, mu, add(w, one), true},
			{"wit-1", x, z, z, mu, add(w, bi(-1)), true},
			{"wit-random", x, z, z, mu, cx.randScalar(rng), true},
			{"com-c1+G", x, one, z, mu, w, true},
			{"com-c2+G", x, z, one, mu, w, true},
			{"key-x+1", x2, z, z, mu, w, w.Sign() != 0},
			// a changed nonce compensated in the second component only: c1 still commits to r
			{"wit+1-c2-compensated", x, z, x, mu, add(w, one), true},
		}
		type pendT struct {
			v               tv
			vid, tcse, impl string
		}
		var pend []pendT
		for vi, v := range vs {
			v.mu, v.w = new(big.Int).Mod(v.mu, cx.q), new(big.Int).Mod(v.w, cx.q)
			if strings.HasPrefix(v.name, "msg") && v.mu.Cmp(new(big.Int).Mod(mu, cx.q)) == 0 || strings.HasPrefix(v.name, "wit") && v.w.Cmp(w) == 0 {
				continue
			}
			vid := fmt.Sprintf("%s.t%d.%d", id, t, vi)
			tcse := fmt.Sprintf("%s change=%s@r%d", cse, v.name, k)
			r.res.Count(stream+"-"+tamperClass(v.name), tcse, true)
			c1, c2 := comps(g.c)
			ct := must1(elgamal.NewCiphertext(c1.Op(G.ScalarOp(cx.sc(v.d0))), c2.Op(G.ScalarOp(cx.sc(v.d1)))))
			cc := must1(indcpacom.NewCommitment(ct))
			kk := key
			if v.x.Cmp(x) != 0 {
				kk = mkKey(v.x)
			}
			mm, ww := egMessage(cx, v.mu), egWitness(cx, v.w)
			impl := verdict(func() error { return kk.Open(cc, mm, ww) })
			if v.name == "honest" && impl != "1" {
				r.prop(vid, "indcpacom-honest-open-rejected", "Open rejects the tracked opening: "+impl, tcse, "indcpa_open_iff")
			}
			if v.mustReject && impl == "1" {
				r.prop(vid, "indcpacom-open-accepts-"+tamperClass(v.name), "Open accepts although "+v.name+" was changed", tcse, "indcpa_open_iff")
			}
			pend = append(pend, pendT{v, vid, tcse, impl})
		}
		r.ask(fmt.Sprintf("E %s.t%d %s %s %s", id, t, zh(cx.q), zh(x), progText(ops)), func(out string) {
			mr := parseRegs(out, false)
			if len(mr) <= k {
				return
			}
			for _, p := range pend {
				p := p
				v := p.v
				r.ask(fmt.Sprintf("EO %s %s %s %s,%s %s %s", p.vid, zh(cx.q), zh(v.x), zh(add(mr[k].c0, v.d0)), zh(add(mr[k].c1, v.d1)), zh(v.mu), zh(v.w)), func(out string) {
					if r.openAlarm(v.name == "honest", p.impl, out) {
						r.corr(p.vid, "indcpacom-open-"+tamperClass(v.name), fmt.Sprintf("implementation Open=%s, model eg_open=%s", p.impl, out), p.tcse,
							"correspondence indcpacom Open = re-encrypt and compare [model/Commit.v indcpa_open / eg_open]", (v.name == "honest" && p.impl != "1") || (v.mustReject && p.impl == "1"))
					}
				})
			}
		})
	}
}

func elgamalAll(r *runner, c counts) {
	_ = bls12381.NewScalarField()
	k := newGrp("k256", k256.NewCurve())
	b := newGrp("bls12381g1", bls12381.NewG1())
	for i := 0; i < c.eg; i++ {
		elgamalCase(r, c, k, i)
		elgamalCase(r, c, b, i)
		r.maybeFlush()
	}
}

func elgamalReplay(r *runner, c counts, stream string, idx int) {
	_ = bls12381.NewScalarField()
	switch strings.TrimPrefix(stream, "elgamal-") {
	case "k256":
		elgamalCase(r, c, newGrp("k256", k256.NewCurve()), idx)
	case "bls12381g1":
		elgamalCase(r, c, newGrp("bls12381g1", bls12381.NewG1()), idx)
	}
}
