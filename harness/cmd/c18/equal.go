package main

import (
	"bytes"
	"fmt"
	"math/big"

	"github.com/bronlabs/bron-crypto/pkg/base"
	"github.com/bronlabs/bron-crypto/pkg/base/algebra"
	"github.com/bronlabs/bron-crypto/pkg/base/curves/k256"
	"github.com/bronlabs/bron-crypto/pkg/base/curves/pairable/bls12381"
	"github.com/bronlabs/bron-crypto/pkg/base/nt/num"
	"github.com/bronlabs/bron-crypto/pkg/commitments/hashcom"
	"github.com/bronlabs/bron-crypto/pkg/commitments/indcpacom"
	"github.com/bronlabs/bron-crypto/pkg/commitments/intcom"
	"github.com/bronlabs/bron-crypto/pkg/commitments/pedersencom"
	"github.com/bronlabs/bron-crypto/pkg/encryption/elgamal"

	"verif/harness/internal/vh"
)

// The library's own Equal methods (and HashCode / CBOR re-decoding where they exist) on every key,
// trapdoor key, commitment, witness and message type of pkg/commitments: pairs that differ in
// exactly one component must be unequal, identical / cloned / re-decoded pairs equal — compared
// with the structural truth the harness built the pair with and with the model's component-wise
// equality (model/Commit.v ped_key_eqb …, theorems C18_*_key_eq_iff).

type eqer[T any] interface{ Equal(T) bool }

func eqPair[T eqer[T]](r *runner, id, typ, change, cse string, a, b T, same bool, modelLine string) {
	cse = fmt.Sprintf("%s type=%s change=%s", cse, typ, change)
	r.res.Count("equal-"+typ+"-"+change, cse, true)
	var ab, ba, refl bool
	if p := vh.Safely(func() { ab, ba, refl = a.Equal(b), b.Equal(a), a.Equal(a) && b.Equal(b) }); p != "" {
		r.prop(id, "equal-"+typ, "Equal panicked: "+p, cse, "C18 key_eq_iff")
		return
	}
	if ab != same || ba != same || !refl {
		r.prop(id, "equal-"+typ, fmt.Sprintf("a.Equal(b)=%v b.Equal(a)=%v reflexive=%v although the values are equal=%v (change: %s)", ab, ba, refl, same, change), cse, "C18 key_eq_iff")
	}
	if ha, ok := any(a).(interface{ HashCode() base.HashCode }); ok && same {
		if hb := any(b).(interface{ HashCode() base.HashCode }); ha.HashCode() != hb.HashCode() {
			r.prop(id, "hashcode-"+typ, "equal values have different HashCode", cse, "C18 key_eq_iff")
		}
	}
	if modelLine != "" {
		r.ask(modelLine, func(out string) {
			if out != b01(ab) {
				r.corr(id, "equal-"+typ, fmt.Sprintf("implementation Equal=%v, model component-wise equality=%s", ab, out), cse, "correspondence Equal [model/Commit.v *_eqb]", ab != same)
			}
		})
	}
}

// recode re-decodes a value from its own CBOR encoding.
func recode[T any, PT interface {
	*T
	MarshalCBOR() ([]byte, error)
	UnmarshalCBOR([]byte) error
}](r *runner, x PT) (PT, bool) {
	var y PT
	var err error
	if p := vh.Safely(func() {
		var b []byte
		if b, err = x.MarshalCBOR(); err == nil {
			y = PT(new(T))
			err = y.UnmarshalCBOR(b)
		}
	}); p != "" || err != nil {
		r.res.Distribution["equal-cbor-redecode-failed"]++ // wire formats are C12's subject
		return nil, false
	}
	return y, true
}

func lfText(a, b *big.Int) string { return zh(a) + "," + zh(b) }

func equalPedersen[E algebra.PrimeGroupElement[E, S], S algebra.PrimeFieldElement[S]](r *runner, cx *grp[E, S], i int) {
	stream := "equal-pedersen-" + cx.name
	rng := vh.NewRng(r.a.Seed, "C18", stream, i)
	G := cx.g.Generator()
	H := must1(pedersencom.SampleCommitmentKey(cx.g, rng)).H()
	cse := fmt.Sprintf("%s %d | H=%s", stream, i, vh.Hex(H.Bytes()))
	type ks struct{ g0, g1, h0, h1 *big.Int }
	mk := func(k ks) *pedersencom.CommitmentKey[E, S] {
		return must1(pedersencom.NewCommitmentKeyUnchecked(cx.lin(k.g0, k.g1, G, H), cx.lin(k.h0, k.h1, G, H)))
	}
	a, b := cx.randScalar(rng), cx.randScalar(rng)
	if new(big.Int).Mod(b, cx.q).Sign() == 0 {
		b = bi(3)
	}
	bases := []ks{{bi(1), bi(0), bi(0), bi(1)}, {bi(1), bi(0), a, b}}
	for bi_, k0 := range bases {
		base0 := mk(k0)
		add := func(x *big.Int, d int64) *big.Int { return new(big.Int).Add(x, bi(d)) }
		vars := []struct {
			name string
			k    ks
			same bool
		}{
			{"same-rebuilt", k0, true},
			{"g-only", ks{add(k0.g0, 1), k0.g1, k0.h0, k0.h1}, false},
			{"g-only-H-part", ks{k0.g0, add(k0.g1, 1), k0.h0, k0.h1}, false},
			{"h-only", ks{k0.g0, k0.g1, k0.h0, add(k0.h1, 1)}, false},
			{"h-only-G-part", ks{k0.g0, k0.g1, add(k0.h0, 2), k0.h1}, false},
			{"h-only-random", ks{k0.g0, k0.g1, cx.randScalar(rng), add(new(big.Int).Mod(cx.randScalar(rng), cx.q), 2)}, false},
			{"g-and-h", ks{add(k0.g0, 1), k0.g1, k0.h0, add(k0.h1, 1)}, false},
			{"unreduced-same", ks{new(big.Int).Add(k0.g0, cx.q), k0.g1, k0.h0, new(big.Int).Add(k0.h1, cx.q)}, true},
		}
		for vi, v := range vars {
			id := fmt.Sprintf("QP-%s-%d.%d.%d", cx.name, i, bi_, vi)
			var kb *pedersencom.CommitmentKey[E, S]
			if p := vh.Safely(func() { kb = mk(v.k) }); p != "" {
				continue // the changed key happens to be invalid (g = h / identity)
			}
			line := fmt.Sprintf("QP %s %s %s %s %s %s", id, zh(cx.q), lfText(k0.g0, k0.g1), lfText(k0.h0, k0.h1), lfText(v.k.g0, v.k.g1), lfText(v.k.h0, v.k.h1))
			eqPair(r, id, "pedersen-key", v.name, cse, base0, kb, v.same, line)
		}
		id := fmt.Sprintf("QP-%s-%d.%d", cx.name, i, bi_)
		eqPair(r, id+".clone", "pedersen-key", "clone", cse, base0, base0.Clone(), true, "")
		if y, ok := recode(r, base0); ok {
			eqPair(r, id+".cbor", "pedersen-key", "cbor-redecoded", cse, base0, y, true, "")
		}
	}
	// trapdoor keys: (g, λ)
	l := new(big.Int).Mod(cx.randScalar(rng), cx.q)
	if l.Cmp(bi(3)) < 0 || new(big.Int).Sub(cx.q, l).Cmp(bi(3)) < 0 {
		l = bi(5)
	}
	tk := must1(pedersencom.NewTrapdoorKey(G, cx.sc(l)))
	tvars := []struct {
		name string
		g    int64
		l    *big.Int
		same bool
	}{
		{"same-rebuilt", 1, l, true}, {"lambda-only", 1, new(big.Int).Add(l, bi(1)), false}, {"g-only", 2, l, false},
		{"g-and-lambda", 2, new(big.Int).Add(l, bi(1)), false}, {"unreduced-same", 1, new(big.Int).Add(l, cx.q), true},
	}
	for vi, v := range tvars {
		id := fmt.Sprintf("QT-%s-%d.%d", cx.name, i, vi)
		t2 := must1(pedersencom.NewTrapdoorKey(G.ScalarOp(cx.sc(bi(v.g))), cx.sc(v.l)))
		eqPair(r, id, "pedersen-trapdoor-key", v.name, cse, tk, t2, v.same, fmt.Sprintf("QT %s %s 1,0 %s %d,0 %s", id, zh(cx.q), zh(l), v.g, zh(v.l)))
		// the exported public keys: h = λ·g
		eqPair(r, id+".x", "pedersen-key", "exported-"+v.name, cse, tk.Export(), t2.Export(), v.same,
			fmt.Sprintf("QP %s.x %s 1,0 %s,0 %d,0 %s,0", id, zh(cx.q), zh(l), v.g, zh(new(big.Int).Mul(v.l, bi(v.g)))))
	}
	if y, ok := recode(r, tk); ok {
		eqPair(r, fmt.Sprintf("QT-%s-%d.cbor", cx.name, i), "pedersen-trapdoor-key", "cbor-redecoded", cse, tk, y, true, "")
	}
	// commitments, witnesses, messages
	c0, c1 := cx.randScalar(rng), cx.randScalar(rng)
	com := must1(pedersencom.NewCommitment(cx.lin(c0, c1, G, H)))
	for vi, v := range []struct {
		name   string
		d0, d1 int64
	}{{"same-rebuilt", 0, 0}, {"plus-G", 1, 0}, {"plus-H", 0, 1}} {
		id := fmt.Sprintf("QC-%s-%d.%d", cx.name, i, vi)
		c2 := must1(pedersencom.NewCommitment(cx.lin(new(big.Int).Add(c0, bi(v.d0)), new(big.Int).Add(c1, bi(v.d1)), G, H)))
		eqPair(r, id, "pedersen-commitment", v.name, cse, com, c2, v.d0 == 0 && v.d1 == 0,
			fmt.Sprintf("QL %s %s %s %s", id, zh(cx.q), lfText(c0, c1), lfText(new(big.Int).Add(c0, bi(v.d0)), new(big.Int).Add(c1, bi(v.d1)))))
	}
	if y, ok := recode(r, com); ok {
		eqPair(r, fmt.Sprintf("QC-%s-%d.cbor", cx.name, i), "pedersen-commitment", "cbor-redecoded", cse, com, y, true, "")
	}
	x := cx.randScalar(rng)
	for vi, v := range []struct {
		name string
		y    *big.Int
		same bool
	}{{"same-rebuilt", x, true}, {"plus-1", new(big.Int).Add(x, bi(1)), false}, {"plus-q", new(big.Int).Add(new(big.Int).Mod(x, cx.q), cx.q), true}, {"negated", new(big.Int).Neg(new(big.Int).Add(x, bi(1))), false}} {
		id := fmt.Sprintf("QS-%s-%d.%d", cx.name, i, vi)
		line := fmt.Sprintf("QS %s %s %s %s", id, zh(cx.q), zh(x), zh(v.y))
		same := new(big.Int).Mod(new(big.Int).Sub(x, v.y), cx.q).Sign() == 0
		eqPair(r, id+"w", "pedersen-witness", v.name, cse, must1(pedersencom.NewWitness(cx.sc(x))), must1(pedersencom.NewWitness(cx.sc(v.y))), same, line)
		eqPair(r, id+"m", "pedersen-message", v.name, cse, must1(pedersencom.NewMessage(cx.sc(x))), must1(pedersencom.NewMessage(cx.sc(v.y))), same, line)
	}
	if y, ok := recode(r, must1(pedersencom.NewWitness(cx.sc(x)))); ok {
		eqPair(r, fmt.Sprintf("QS-%s-%d.wcbor", cx.name, i), "pedersen-witness", "cbor-redecoded", cse, must1(pedersencom.NewWitness(cx.sc(x))), y, true, "")
	}
	if y, ok := recode(r, must1(pedersencom.NewMessage(cx.sc(x)))); ok {
		eqPair(r, fmt.Sprintf("QS-%s-%d.mcbor", cx.name, i), "pedersen-message", "cbor-redecoded", cse, must1(pedersencom.NewMessage(cx.sc(x))), y, true, "")
	}
}

func equalElGamal[E egElem[E, S], S algebra.PrimeFieldElement[S]](r *runner, cx *grp[E, S], i int) {
	stream := "equal-indcpacom-" + cx.name
	rng := vh.NewRng(r.a.Seed, "C18", stream, i)
	G := cx.g.Generator()
	x := new(big.Int).Mod(cx.randScalar(rng), cx.q)
	if x.Cmp(bi(3)) < 0 || new(big.Int).Sub(cx.q, x).Cmp(bi(3)) < 0 {
		x = bi(7)
	}
	cse := fmt.Sprintf("%s %d | x=%s", stream, i, zh(x))
	mk := func(xx *big.Int) *egKey[E, S] {
		return must1(indcpacom.NewHomomorphicCommitmentKey(must1(elgamal.NewSecretKey(G, cx.sc(xx))).Public()))
	}
	k0 := mk(x)
	for vi, v := range []struct {
		name string
		x    *big.Int
		same bool
	}{{"same-rebuilt", x, true}, {"encryption-key-only", new(big.Int).Add(x, bi(1)), false}, {"unreduced-same", new(big.Int).Add(x, cx.q), true}} {
		id := fmt.Sprintf("QE-%s-%d.%d", cx.name, i, vi)
		k2 := mk(v.x)
		line := fmt.Sprintf("QS %s %s %s %s", id, zh(cx.q), zh(x), zh(v.x))
		eqPair(r, id, "indcpacom-homomorphic-key", v.name, cse, k0, k2, v.same, line)
		eqPair(r, id+".c", "indcpacom-key", v.name, cse, &k0.CommitmentKey, &k2.CommitmentKey, v.same, "")
	}
	if y, ok := recode(r, &k0.CommitmentKey); ok {
		eqPair(r, fmt.Sprintf("QE-%s-%d.cbor", cx.name, i), "indcpacom-key", "cbor-redecoded", cse, &k0.CommitmentKey, y, true, "")
	}
	a, b := cx.randScalar(rng), cx.randScalar(rng)
	mkc := func(a, b *big.Int) *egCom[E, S] {
		return must1(indcpacom.NewCommitment(must1(elgamal.NewCiphertext(G.ScalarOp(cx.sc(a)), G.ScalarOp(cx.sc(b))))))
	}
	com := mkc(a, b)
	for vi, v := range []struct {
		name   string
		d0, d1 int64
	}{{"same-rebuilt", 0, 0}, {"c1-only", 1, 0}, {"c2-only", 0, 1}} {
		id := fmt.Sprintf("QEC-%s-%d.%d", cx.name, i, vi)
		a2, b2 := new(big.Int).Add(a, bi(v.d0)), new(big.Int).Add(b, bi(v.d1))
		eqPair(r, id, "indcpacom-commitment", v.name, cse, com, mkc(a2, b2), v.d0 == 0 && v.d1 == 0, fmt.Sprintf("QL %s %s %s %s", id, zh(cx.q), lfText(a, b), lfText(a2, b2)))
	}
	if y, ok := recode(r, com); ok {
		eqPair(r, fmt.Sprintf("QEC-%s-%d.cbor", cx.name, i), "indcpacom-commitment", "cbor-redecoded", cse, com, y, true, "")
	}
	// witnesses and messages have no Equal of their own: their values' Equal
	for vi, v := range []struct {
		name string
		y    *big.Int
	}{{"same-rebuilt", a}, {"plus-1", new(big.Int).Add(a, bi(1))}, {"plus-q", new(big.Int).Add(new(big.Int).Mod(a, cx.q), cx.q)}} {
		id := fmt.Sprintf("QES-%s-%d.%d", cx.name, i, vi)
		same := new(big.Int).Mod(new(big.Int).Sub(a, v.y), cx.q).Sign() == 0
		line := fmt.Sprintf("QS %s %s %s %s", id, zh(cx.q), zh(a), zh(v.y))
		eqPair(r, id+"w", "indcpacom-witness-value", v.name, cse, egWitness(cx, a).Value(), egWitness(cx, v.y).Value(), same, line)
		eqPair(r, id+"m", "indcpacom-message-value", v.name, cse, egMessage(cx, a).Value(), egMessage(cx, v.y).Value(), same, line)
	}
}

func equalIntcom(r *runner, i int) {
	stream := "equal-intcom"
	rng := vh.NewRng(r.a.Seed, "C18", stream, i)
	small, large := newIntCtx("n512"), newIntCtx("n1024")
	cx := small
	t, lambda, tk := cx.randKey(rng)
	pub := tk.Export()
	cse := fmt.Sprintf("%s %d | N=%s t=%s lambda=%s", stream, i, zh(cx.n), zh(t), zh(lambda))
	keyLine := func(id string, c1 *intCtx, k1 *intcom.CommitmentKey, c2 *intCtx, k2 *intcom.CommitmentKey) string {
		return fmt.Sprintf("QI %s %s %s %s %s %s %s", id, zh(c1.n), zh(k1.S().Value().Big()), zh(k1.T().Value().Big()), zh(c2.n), zh(k2.S().Value().Big()), zh(k2.T().Value().Big()))
	}
	unitNear := func(c *intCtx, l *big.Int) *big.Int { // next λ' > l that NewTrapdoorKey accepts
		for d := int64(1); ; d++ {
			l2 := new(big.Int).Mod(new(big.Int).Add(l, bi(d)), c.ord)
			if l2.Cmp(bi(1)) > 0 && new(big.Int).GCD(nil, nil, l2, c.ord).Cmp(bi(1)) == 0 {
				return l2
			}
		}
	}
	inv3 := new(big.Int).ModInverse(bi(3), cx.ord)
	t3 := new(big.Int).Exp(t, bi(3), cx.n)
	l3 := new(big.Int).Mod(new(big.Int).Mul(lambda, inv3), cx.ord)
	t2, _, _ := cx.randKey(rng)
	type kv struct {
		name string
		c    *intCtx
		t, l *big.Int
		same bool // same public key (s, t, N̂)
		tsam bool // same trapdoor key (t, λ)
	}
	vars := []kv{
		{"same-rebuilt", cx, t, lambda, true, true},
		{"s-only", cx, t, unitNear(cx, lambda), false, false},
		{"t-only", cx, t3, l3, false, false},
		{"s-and-t", cx, t2, lambda, false, false},
	}
	for vi, v := range vars {
		id := fmt.Sprintf("QI-%d.%d", i, vi)
		k2, err := v.c.trapdoor(v.t, v.l)
		if err != nil {
			continue
		}
		p2 := k2.Export()
		eqPair(r, id, "intcom-key", v.name, cse, pub, p2, v.same, keyLine(id, cx, pub, v.c, p2))
		eqPair(r, id+".t", "intcom-trapdoor-key", v.name, cse, tk, k2, v.tsam,
			fmt.Sprintf("QJ %s.t %s %s %s %s %s %s %s %s", id, zh(cx.n), zh(t), zh(lambda), zh(cx.ord), zh(v.c.n), zh(v.t), zh(v.l), zh(v.c.ord)))
	}
	// the same values s = 64, t = 4, λ = 3 under two different moduli: only the modulus differs
	if ka, e1 := small.trapdoor(bi(4), bi(3)); e1 == nil {
		if kb, e2 := large.trapdoor(bi(4), bi(3)); e2 == nil {
			id := fmt.Sprintf("QI-%d.mod", i)
			eqPair(r, id, "intcom-key", "modulus-only", cse, ka.Export(), kb.Export(), false, keyLine(id, small, ka.Export(), large, kb.Export()))
			eqPair(r, id+".t", "intcom-trapdoor-key", "modulus-only", cse, ka, kb, false,
				fmt.Sprintf("QJ %s.t %s 4 3 %s %s 4 3 %s", id, zh(small.n), zh(small.ord), zh(large.n), zh(large.ord)))
			ca := must1(intcom.NewCommitment(must1(small.elem(ka.Export(), bi(64)))))
			cb := must1(intcom.NewCommitment(must1(large.elem(kb.Export(), bi(64)))))
			eqPair(r, id+".c", "intcom-commitment", "modulus-only", cse, ca, cb, false, fmt.Sprintf("QI %s.c %s 40 40 %s 40 40", id, zh(small.n), zh(large.n)))
		}
	}
	eqPair(r, fmt.Sprintf("QI-%d.clone", i), "intcom-key", "clone", cse, pub, pub.Clone(), true, "")
	if y, ok := recode(r, pub); ok {
		eqPair(r, fmt.Sprintf("QI-%d.cbor", i), "intcom-key", "cbor-redecoded", cse, pub, y, true, "")
	}
	if y, ok := recode(r, tk); ok {
		eqPair(r, fmt.Sprintf("QI-%d.tcbor", i), "intcom-trapdoor-key", "cbor-redecoded", cse, tk, y, true, "")
	}
	// commitments
	cv := new(big.Int).Exp(t, bi(int64(5+rng.Intn(1000))), cx.n)
	com := must1(intcom.NewCommitment(must1(cx.elem(pub, cv))))
	for vi, v := range []struct {
		name string
		v    *big.Int
	}{{"same-rebuilt", cv}, {"times-t", new(big.Int).Mod(new(big.Int).Mul(cv, t), cx.n)}, {"negated", new(big.Int).Sub(cx.n, cv)}} {
		id := fmt.Sprintf("QIC-%d.%d", i, vi)
		eqPair(r, id, "intcom-commitment", v.name, cse, com, must1(intcom.NewCommitment(must1(cx.elem(pub, v.v)))), v.v.Cmp(cv) == 0,
			fmt.Sprintf("QI %s %s %s %s %s %s %s", id, zh(cx.n), zh(cv), zh(cv), zh(cx.n), zh(v.v), zh(v.v)))
	}
	eqPair(r, fmt.Sprintf("QIC-%d.clone", i), "intcom-commitment", "clone", cse, com, com.Clone(), true, "")
	if y, ok := recode(r, com); ok {
		eqPair(r, fmt.Sprintf("QIC-%d.cbor", i), "intcom-commitment", "cbor-redecoded", cse, com, y, true, "")
	}
	// witnesses and messages: integers
	x := cx.randInt(rng, 1100)
	for vi, v := range []struct {
		name string
		y    *big.Int
	}{{"same-rebuilt", new(big.Int).Set(x)}, {"plus-1", new(big.Int).Add(x, bi(1))}, {"negated", new(big.Int).Neg(new(big.Int).Add(x, bi(1)))}, {"plus-order", new(big.Int).Add(x, cx.ord)}, {"plus-N", new(big.Int).Add(x, cx.n)}} {
		id := fmt.Sprintf("QIZ-%d.%d", i, vi)
		line := fmt.Sprintf("QZ %s %s %s", id, zh(x), zh(v.y))
		eqPair(r, id+"w", "intcom-witness", v.name, cse, intWit(x), intWit(v.y), x.Cmp(v.y) == 0, line)
		eqPair(r, id+"m", "intcom-message", v.name, cse, intMsg(x), intMsg(v.y), x.Cmp(v.y) == 0, line)
	}
	if y, ok := recode(r, intWit(x)); ok {
		eqPair(r, fmt.Sprintf("QIZ-%d.wcbor", i), "intcom-witness", "cbor-redecoded", cse, intWit(x), y, true, "")
	}
	if y, ok := recode(r, intMsg(x)); ok {
		eqPair(r, fmt.Sprintf("QIZ-%d.mcbor", i), "intcom-message", "cbor-redecoded", cse, intMsg(x), y, true, "")
	}
	_ = num.Z
}

func equalHashcom(r *runner, i int) {
	stream := "equal-hashcom"
	rng := vh.NewRng(r.a.Seed, "C18", stream, i)
	k := rng.Bytes(32)
	cse := fmt.Sprintf("%s %d | bytes=%s", stream, i, vh.Hex(k))
	for vi, p := range append([]int{-1}, bitPositions(rng, 256, "quick", 6)...) {
		k2 := append([]byte{}, k...)
		name := "same-rebuilt"
		if p >= 0 {
			k2 = flipBit(k, p)
			name = "one-bit"
		}
		id := fmt.Sprintf("QH-%d.%d", i, vi)
		line := fmt.Sprintf("QB %s %s %s", id, vh.Hex(k), vh.Hex(k2))
		var ka, kb hashcom.CommitmentKey
		copy(ka[:], k)
		copy(kb[:], k2)
		eqPair(r, id+"k", "hashcom-key", name, cse, &ka, &kb, bytes.Equal(k, k2), line)
		eqPair(r, id+"c", "hashcom-commitment", name, cse, hashcom.Commitment(ka), hashcom.Commitment(kb), bytes.Equal(k, k2), line)
		eqPair(r, id+"w", "hashcom-witness", name, cse, hashcom.Witness(ka), hashcom.Witness(kb), bytes.Equal(k, k2), line)
	}
}

func equalAll(r *runner) {
	_ = bls12381.NewScalarField()
	n := 2
	if r.a.Tier == "thorough" || r.a.Search {
		n = 40
	}
	k := newGrp("k256", k256.NewCurve())
	b := newGrp("bls12381g1", bls12381.NewG1())
	for i := 0; i < n; i++ {
		equalPedersen(r, k, i)
		equalPedersen(r, b, i)
		equalElGamal(r, k, i)
		equalElGamal(r, b, i)
		equalIntcom(r, i)
		equalHashcom(r, i)
		r.maybeFlush()
	}
}

func equalReplay(r *runner, stream string, idx int) {
	_ = bls12381.NewScalarField()
	switch stream {
	case "equal-pedersen-k256":
		equalPedersen(r, newGrp("k256", k256.NewCurve()), idx)
	case "equal-pedersen-bls12381g1":
		equalPedersen(r, newGrp("bls12381g1", bls12381.NewG1()), idx)
	case "equal-indcpacom-k256":
		equalElGamal(r, newGrp("k256", k256.NewCurve()), idx)
	case "equal-indcpacom-bls12381g1":
		equalElGamal(r, newGrp("bls12381g1", bls12381.NewG1()), idx)
	case "equal-intcom":
		equalIntcom(r, idx)
	case "equal-hashcom":
		equalHashcom(r, idx)
	}
}
