package main

import (
	"bytes"
	"crypto/sha3"
	"fmt"
	"math/big"
	"strconv"
	"strings"

	"github.com/bronlabs/bron-crypto/pkg/base/curves/k256"
	"github.com/bronlabs/bron-crypto/pkg/base/nt/num"
	"github.com/bronlabs/bron-crypto/pkg/base/nt/znstar"
	"github.com/bronlabs/bron-crypto/pkg/commitments"
	"github.com/bronlabs/bron-crypto/pkg/commitments/hashcom"
	"github.com/bronlabs/bron-crypto/pkg/commitments/intcom"
	"github.com/bronlabs/bron-crypto/pkg/commitments/pedersencom"
	"github.com/bronlabs/bron-crypto/pkg/transcripts"
	"github.com/bronlabs/bron-crypto/pkg/transcripts/hagrid"

	"verif/harness/internal/vh"
)

// Commitment keys derived from a transcript: equal for equal transcripts, different otherwise.
// The transcript history is evaluated by the C19 model (model/Transcript.v); the key must be
// cSHAKE256(model stream) (hashcom), resp. the group's Hash of it (pedersencom, intcom).

type top struct {
	kind  byte // D A E
	label []byte
	msgs  [][]byte
	n     uint64
}

func (o top) text() string {
	switch o.kind {
	case 'D':
		return "D,0," + vh.Hex(o.label)
	case 'A':
		p := []string{"A", "0", vh.Hex(o.label)}
		for _, m := range o.msgs {
			p = append(p, vh.Hex(m))
		}
		return strings.Join(p, ",")
	default:
		return fmt.Sprintf("E,0,%s,%d", vh.Hex(o.label), o.n)
	}
}

func topsText(ops []top) string {
	p := make([]string, len(ops))
	for i, o := range ops {
		p[i] = o.text()
	}
	return strings.Join(p, ";")
}

var talpha = [][]byte{{}, {0}, {0, 0, 0, 0, 0, 0, 0, 1}, {0xa1}, {0xa2}, {0xa3}, []byte("a"), []byte("ab"), []byte("label"), []byte("s_"), []byte("_0")}

func tBytes(r *vh.Rng) []byte {
	switch r.Intn(6) {
	case 0, 1, 2:
		return vh.Pick(r, talpha)
	case 3:
		return bytes.Join([][]byte{vh.Pick(r, talpha), vh.Pick(r, talpha)}, nil)
	default:
		return r.Bytes(r.Intn(24))
	}
}

func genTops(r *vh.Rng, maxLen int) []top {
	n := r.Intn(maxLen + 1)
	var ops []top
	for len(ops) < n {
		switch k := r.Intn(10); {
		case k < 2:
			ops = append(ops, top{kind: 'D', label: tBytes(r)})
		case k < 7:
			o := top{kind: 'A', label: tBytes(r)}
			for j := r.Intn(3); j > 0; j-- {
				o.msgs = append(o.msgs, tBytes(r))
			}
			ops = append(ops, o)
		default:
			ops = append(ops, top{kind: 'E', label: tBytes(r), n: uint64(r.Intn(40))}) // n = 0 is refused and leaves no trace
		}
	}
	return ops
}

func applyTops(name []byte, ops []top) transcripts.Transcript {
	t := hagrid.NewTranscript(string(name))
	for _, o := range ops {
		switch o.kind {
		case 'D':
			t.AppendDomainSeparator(string(o.label))
		case 'A':
			t.AppendBytes(string(o.label), o.msgs...)
		case 'E':
			_, _ = t.ExtractBytes(string(o.label), uint(o.n))
		}
	}
	return t
}

func performedTops(ops []top) string {
	var p []top
	for _, o := range ops {
		if o.kind == 'E' && o.n == 0 {
			continue
		}
		p = append(p, o)
	}
	return topsText(p)
}

func cshake(custom, input []byte, n int) []byte {
	h := sha3.NewCSHAKE256(nil, custom)
	h.Write(input)
	out := make([]byte, n)
	h.Read(out)
	return out
}

// xofOf evaluates the model's XOF call text "custom,input,len" with Go's cSHAKE256.
func xofOf(call string) []byte {
	c := strings.Split(call, ",")
	if len(c) != 3 {
		return nil
	}
	n, _ := strconv.Atoi(c[2])
	return cshake(vh.UnHex(c[0]), vh.UnHex(c[1]), n)
}

type tside struct {
	name  []byte
	ops   []top
	label []byte
}

func (s tside) text() string {
	return fmt.Sprintf("name=%s ops=%s label=%s", vh.Hex(s.name), topsText(s.ops), vh.Hex(s.label))
}

func (s tside) same(o tside) bool {
	return bytes.Equal(s.name, o.name) && performedTops(s.ops) == performedTops(o.ops) && bytes.Equal(s.label, o.label)
}

// variant returns a side that differs from s in one way (or is an equal transcript built differently).
func variant(r *vh.Rng, s tside) (tside, string) {
	cp := func() tside {
		v := tside{name: append([]byte{}, s.name...), label: append([]byte{}, s.label...)}
		for _, o := range s.ops {
			o2 := top{kind: o.kind, label: append([]byte{}, o.label...), n: o.n}
			for _, m := range o.msgs {
				o2.msgs = append(o2.msgs, append([]byte{}, m...))
			}
			v.ops = append(v.ops, o2)
		}
		return v
	}
	v := cp()
	switch k := r.Intn(12); k {
	case 0, 1:
		return v, "equal"
	case 2: // equal: a refused extraction leaves no trace
		v.ops = append(v.ops, top{kind: 'E', label: []byte("x"), n: 0})
		return v, "equal-refused-extraction"
	case 3:
		v.label = append(v.label, 'x')
		return v, "label-extended"
	case 4:
		v.name = append(v.name, 'x')
		return v, "name-extended"
	case 5:
		v.ops = append(v.ops, top{kind: 'A', label: []byte("extra")})
		return v, "extra-append"
	case 6:
		v.ops = append(v.ops, top{kind: 'E', label: v.label, n: 32})
		return v, "earlier-extraction-same-label"
	case 7:
		if len(v.ops) > 0 {
			v.ops = v.ops[:len(v.ops)-1]
			return v, "op-dropped"
		}
		v.ops = append(v.ops, top{kind: 'D', label: []byte{}})
		return v, "empty-domain-separator"
	case 8: // last label byte moves into the name
		if len(v.label) > 1 {
			v.name = append(v.name, v.label[0])
			v.label = v.label[1:]
			return v, "name-label-resplit"
		}
		v.label = append([]byte{0}, v.label...)
		return v, "label-prefixed"
	case 9:
		for i := range v.ops {
			if v.ops[i].kind == 'A' && len(v.ops[i].msgs) > 0 {
				m := v.ops[i].msgs[0]
				v.ops[i].label = append(v.ops[i].label, m...)
				v.ops[i].msgs = v.ops[i].msgs[1:]
				return v, "message-merged-into-label"
			}
		}
		v.ops = append([]top{{kind: 'D', label: []byte("d")}}, v.ops...)
		return v, "domain-separator-prepended"
	case 10:
		if len(v.ops) >= 2 && v.ops[0].text() != v.ops[1].text() {
			v.ops[0], v.ops[1] = v.ops[1], v.ops[0]
			return v, "ops-swapped"
		}
		v.label = append(v.label, 0)
		return v, "label-extended"
	default:
		v.label = []byte("other")
		if bytes.Equal(s.label, v.label) {
			v.label = []byte("other2")
		}
		return v, "label-replaced"
	}
}

var rsaUnknown = map[string]*znstar.RSAGroupUnknownOrder{}

func rsaGroup(name string) *znstar.RSAGroupUnknownOrder {
	if g, ok := rsaUnknown[name]; ok {
		return g
	}
	sp := safePrimes[name]
	p, _ := new(big.Int).SetString(sp[0], 16)
	q, _ := new(big.Int).SetString(sp[1], 16)
	g := must1(znstar.NewRSAGroupOfUnknownOrder(must1(num.NPlus().FromBig(new(big.Int).Mul(p, q)))))
	rsaUnknown[name] = g
	return g
}

func extractCase(r *runner, i int) {
	rng := vh.NewRng(r.a.Seed, "C18", "extract", i)
	a := tside{name: tBytes(rng), ops: genTops(rng, 6), label: tBytes(rng)}
	if len(a.label) == 0 && i%9 != 0 {
		a.label = []byte("key")
	}
	b, how := variant(rng, a)
	scheme := []string{"hashcom", "hashcom", "pedersen-k256", "hashcom", "intcom-n512", "pedersen-k256"}[i%6]
	id := fmt.Sprintf("X%d", i)
	cse := fmt.Sprintf("extract %d | scheme=%s variant=%s A:{%s} B:{%s}", i, scheme, how, a.text(), b.text())
	curve := k256.NewCurve()
	rg := rsaGroup("n512")

	// implementation: key as canonical text ("ERR" for a refusal)
	implKey := func(s tside) string {
		t := applyTops(s.name, s.ops)
		out := "ERR"
		if p := vh.Safely(func() {
			switch scheme {
			case "hashcom":
				if k, err := hashcom.ExtractCommitmentKey(t, string(s.label)); err == nil {
					out = vh.Hex(k[:])
				}
			case "pedersen-k256":
				if k, err := pedersencom.ExtractCommitmentKey(t, string(s.label), curve.Generator()); err == nil {
					out = vh.Hex(k.G().Bytes()) + "/" + vh.Hex(k.H().Bytes())
				}
			default:
				if k, err := intcom.ExtractCommitmentKey(t, string(s.label), rg); err == nil {
					out = zh(k.S().Value().Big()) + "/" + zh(k.T().Value().Big())
				}
			}
		}); p != "" {
			out = "panic"
		}
		return out
	}
	ka, kb := implKey(a), implKey(b)
	r.res.Count("extract-"+scheme+"-"+how, cse, ka != "ERR")
	// the property on the implementation alone
	if ka != "ERR" && kb != "ERR" && (ka == kb) != a.same(b) {
		d := "different transcripts/labels give the same commitment key"
		if a.same(b) {
			d = "equal transcripts give different commitment keys"
		}
		r.prop(id, "extract-key-"+scheme, d, cse, "extracted_keys_equal_iff_transcripts_equal")
	}
	if (len(a.label) == 0) != (ka == "ERR") || (len(b.label) == 0) != (kb == "ERR") {
		r.corr(id, "extract-refusal-"+scheme, fmt.Sprintf("refusal (empty label) differs: A %s B %s", ka, kb), cse, "correspondence ExtractCommitmentKey refusal [model/Commit.v extract_key]", false)
	}
	// the library's own Equal on the derived keys, and: a commitment under one key must not open
	// under a different one (different transcript, label or base point)
	if len(a.label) > 0 && len(b.label) > 0 {
		same := a.same(b)
		report := func(eq bool, crossOpens string, what string) {
			if eq != same {
				r.prop(id, "extract-key-equal-"+scheme, fmt.Sprintf("Equal()=%v on keys derived from %s", eq, what), cse, "extracted_keys_equal_iff_transcripts_equal / key_eq_iff")
			}
			if !same && crossOpens == "1" {
				r.prop(id, "extract-key-cross-open-"+scheme, "a commitment made under the key of one transcript opens under the key of a different one", cse, "extracted_keys_equal_iff_transcripts_equal")
			}
		}
		what := "different transcripts/labels"
		if same {
			what = "equal transcripts"
		}
		vh.Safely(func() {
			ta, tb := applyTops(a.name, a.ops), applyTops(b.name, b.ops)
			switch scheme {
			case "hashcom":
				k1, e1 := hashcom.ExtractCommitmentKey(ta, string(a.label))
				k2, e2 := hashcom.ExtractCommitmentKey(tb, string(b.label))
				if e1 == nil && e2 == nil {
					c, w, _ := commitments.Commit(k1, hashcom.Message([]byte("m")), rng)
					report(symEq(same, k1.Equal(k2), k2.Equal(k1)), verdict(func() error { return k2.Open(c, []byte("m"), w) }), what)
				}
			case "pedersen-k256":
				G := curve.Generator()
				k1, e1 := pedersencom.ExtractCommitmentKey(ta, string(a.label), G)
				k2, e2 := pedersencom.ExtractCommitmentKey(tb, string(b.label), G)
				sf := k256.NewScalarField()
				m := must1(pedersencom.NewMessage(sf.FromUint64(5)))
				w := must1(pedersencom.NewWitness(sf.FromUint64(7)))
				if e1 == nil && e2 == nil {
					c := must1(k1.CommitWithWitness(m, w))
					report(symEq(same, k1.Equal(k2), k2.Equal(k1)), verdict(func() error { return k2.Open(c, m, w) }), what)
					if same && k1.HashCode() != k2.HashCode() {
						r.prop(id, "hashcode-pedersen-key", "keys derived from equal transcripts have different HashCode", cse, "key_eq_iff")
					}
					// same transcript, different base point: g differs, h is the same
					k3, e3 := pedersencom.ExtractCommitmentKey(applyTops(a.name, a.ops), string(a.label), G.Add(G))
					if e3 == nil {
						if k1.Equal(k3) || k3.Equal(k1) {
							r.prop(id, "extract-key-equal-pedersen-k256", "Equal()=true on keys derived with different base points", cse, "key_eq_iff")
						}
						if verdict(func() error { return k3.Open(c, m, w) }) == "1" {
							r.prop(id, "extract-key-cross-open-pedersen-k256", "a commitment opens under the key derived with a different base point", cse, "pedersen_changed_g_fails")
						}
					}
				}
			default:
				k1, e1 := intcom.ExtractCommitmentKey(ta, string(a.label), rg)
				k2, e2 := intcom.ExtractCommitmentKey(tb, string(b.label), rg)
				if e1 == nil && e2 == nil {
					m, w := intMsg(bi(5)), intWit(bi(7))
					c := must1(k1.CommitWithWitness(m, w))
					report(symEq(same, k1.Equal(k2), k2.Equal(k1)), verdict(func() error { return k2.Open(c, m, w) }), what)
					if !same && (k1.Equal(k2) != k2.Equal(k1)) {
						r.prop(id, "extract-key-equal-"+scheme, "Equal is not symmetric", cse, "key_eq_iff")
					}
				}
			}
		})
	}
	// model: the extraction(s) ExtractCommitmentKey performs, appended to the history
	check := func(s tside, impl, which string) {
		if len(s.label) == 0 {
			return
		}
		var exts []top
		switch scheme {
		case "hashcom":
			exts = []top{{kind: 'E', label: s.label, n: hashcom.KeySize}}
		case "pedersen-k256":
			exts = []top{{kind: 'E', label: s.label, n: uint64(curve.ElementSize() + 10)}}
		default:
			n := uint64(rg.ElementSize() + 10)
			exts = []top{{kind: 'E', label: []byte("s_" + string(s.label) + "_0"), n: n}, {kind: 'E', label: []byte("t_" + string(s.label) + "_0"), n: n}}
		}
		all := append(append([]top{}, s.ops...), exts...)
		r.ask(fmt.Sprintf("T %s%s %s %s", id, which, vh.Hex(s.name), topsText(all)), func(out string) {
			calls := strings.Split(out, ";")
			calls = calls[len(calls)-len(exts):]
			want := ""
			switch scheme {
			case "hashcom":
				want = vh.Hex(xofOf(calls[0]))
			case "pedersen-k256":
				h, err := curve.Hash(xofOf(calls[0]))
				must(err)
				want = vh.Hex(curve.Generator().Bytes()) + "/" + vh.Hex(h.Bytes())
			default:
				sq := func(call string) (*big.Int, bool) {
					e, err := rg.Hash(xofOf(call))
					must(err)
					v := e.Value().Big()
					v = v.Mod(v.Mul(v, v), rg.Modulus().Big())
					ok := new(big.Int).GCD(nil, nil, new(big.Int).Sub(v, bi(1)), rg.Modulus().Big()).Cmp(bi(1)) == 0
					return v, ok
				}
				sv, ok1 := sq(calls[0])
				tv, ok2 := sq(calls[1])
				if !ok1 || !ok2 {
					return // the counter loop continued (probability ≈ 2^-255): not modelled
				}
				want = zh(sv) + "/" + zh(tv)
			}
			if want != impl {
				r.corr(id+which, "extract-stream-"+scheme, fmt.Sprintf("implementation key %s, key derived from the model's transcript stream %s", trunc(impl), trunc(want)), cse,
					"correspondence ExtractCommitmentKey = transcript extraction [model/Commit.v extract_key, model/Transcript.v]", false)
			}
		})
	}
	check(a, ka, "a")
	check(b, kb, "b")
}

// symEq: equal pairs must be Equal in both directions, different pairs in neither.
func symEq(same, ab, ba bool) bool {
	if same {
		return ab && ba
	}
	return ab || ba
}

func trunc(s string) string {
	if len(s) > 140 {
		return s[:140] + "…"
	}
	return s
}
