package main

import (
	"fmt"
	"math/big"
	"strings"

	"github.com/bronlabs/bron-crypto/pkg/base/nt/num"
	"github.com/bronlabs/bron-crypto/pkg/base/nt/znstar"
	"github.com/bronlabs/bron-crypto/pkg/commitments"
	"github.com/bronlabs/bron-crypto/pkg/commitments/intcom"

	"verif/harness/internal/vh"
)

// Safe primes generated once with `openssl prime -generate -safe` (no key generation at check
// time).  N̂ = p·q, QR(N̂) cyclic of order p'·q'.
var safePrimes = map[string][2]string{
	"n512": {"E9D65855959FA58B89066C048ED993EC75D1133BD248AB884A6564BF9FCD856B",
		"DACF330B65C7EF203923E067CE0DE49427A56077408274C3D568B062F8C3BBCF"},
	"n1024": {"D5BE0FCF2F68B340D2882D137C9D8317F2207B7E7BCA0949FDA44315206206AAD998FD8DED8B9C9337E33F1F3E49DA15929617E9A2B7E64E4CC5C766DBF9FB3B",
		"F2FD1C99A4FDFE1DE8302B536D72B1D0BCB406569BA19A29B0824CEB3615622FE00E2701F346B9D85738108A5FD1AAA8AB027EAAE79ABEE8E518BEAFC7666B07"},
}

type intCtx struct {
	name   string
	p, q   *big.Int
	n, ord *big.Int
	grp    *znstar.RSAGroupKnownOrder
	zord   *num.ZMod
}

func newIntCtx(name string) *intCtx {
	sp := safePrimes[name]
	p, _ := new(big.Int).SetString(sp[0], 16)
	q, _ := new(big.Int).SetString(sp[1], 16)
	c := &intCtx{name: name, p: p, q: q, n: new(big.Int).Mul(p, q)}
	c.ord = new(big.Int).Mul(new(big.Int).Rsh(p, 1), new(big.Int).Rsh(q, 1))
	c.grp = must1(znstar.NewRSAGroup(must1(num.NPlus().FromBig(p)), must1(num.NPlus().FromBig(q))))
	c.zord = must1(num.NewZMod(must1(num.NPlus().FromBig(c.ord))))
	return c
}

// trapdoor builds a trapdoor key (t, λ) through the public constructor.
func (c *intCtx) trapdoor(t, lambda *big.Int) (*intcom.TrapdoorKey, error) {
	te, err := c.grp.FromNat(must1(num.N().FromBig(t)))
	if err != nil {
		return nil, err
	}
	return intcom.NewTrapdoorKey(te, must1(c.zord.FromBig(lambda)))
}

func (c *intCtx) randKey(r *vh.Rng) (t, lambda *big.Int, tk *intcom.TrapdoorKey) {
	one := bi(1)
	for {
		a := r.BigBelow(c.n)
		t = new(big.Int).Mod(new(big.Int).Mul(a, a), c.n)
		if t.Cmp(one) <= 0 || new(big.Int).GCD(nil, nil, new(big.Int).Sub(t, one), c.n).Cmp(one) != 0 {
			continue
		}
		lambda = r.BigBelow(c.ord)
		if lambda.Cmp(one) <= 0 || new(big.Int).GCD(nil, nil, lambda, c.ord).Cmp(one) != 0 {
			continue
		}
		k, err := c.trapdoor(t, lambda)
		if err != nil {
			continue
		}
		return t, lambda, k
	}
}

func zInt(x *big.Int) *num.Int { return must1(num.Z().FromBig(x)) }

func intMsg(x *big.Int) *intcom.Message { return must1(intcom.NewMessage(zInt(x))) }
func intWit(x *big.Int) *intcom.Witness { return must1(intcom.NewWitness(zInt(x))) }

// wideValues: magnitudes around and beyond every natural width of the scheme — the modulus,
// its bit length (exponent buffers sized like N̂), twice that, and the group order.
func (c *intCtx) wideValues(r *vh.Rng, full bool) []*big.Int {
	bl := uint(c.n.BitLen())
	p2 := func(k uint) *big.Int { return new(big.Int).Lsh(bi(1), k) }
	add := func(a *big.Int, d int64) *big.Int { return new(big.Int).Add(a, bi(d)) }
	neg := func(a *big.Int) *big.Int { return new(big.Int).Neg(a) }
	rnd := func(bits int) *big.Int {
		x := r.BigBits(bits)
		x.SetBit(x, bits-1, 1)
		if r.Bool() {
			x.Neg(x)
		}
		return x
	}
	kn := new(big.Int).Add(new(big.Int).Mul(c.n, bi(int64(2+r.Intn(5)))), bi(int64(r.Intn(9))-4))
	vs := []*big.Int{
		add(c.n, -1), c.n, add(c.n, 1), neg(c.n),
		p2(bl), neg(p2(bl)), add(p2(bl), int64(1+r.Intn(9))), add(p2(bl), -1),
		kn, p2(2 * bl), rnd(int(bl) * 3 / 2), rnd(int(bl) * 3),
	}
	if full {
		vs = append(vs,
			neg(add(c.n, -1)), neg(add(c.n, 1)), neg(add(p2(bl), 5)), neg(add(p2(bl), -1)), add(p2(bl), 1),
			p2(bl-1), p2(bl+1), neg(p2(bl+1)), neg(kn), neg(p2(2*bl)), add(p2(2*bl), 1), add(p2(2*bl), -1),
			new(big.Int).Add(p2(bl), c.n), new(big.Int).Mul(c.n, c.n), c.ord, add(c.ord, 1), neg(c.ord),
			new(big.Int).Lsh(c.n, 80), neg(new(big.Int).Lsh(c.n, 80)), rnd(int(bl)*3/2), rnd(int(bl)*3), rnd(int(bl)*2+1))
	}
	return vs
}

func (c *intCtx) randInt(r *vh.Rng, bits int) *big.Int {
	switch r.Intn(10) {
	case 0:
		return vh.Pick(r, []*big.Int{bi(0), bi(1), bi(-1), bi(2), new(big.Int).Sub(c.ord, bi(1)), new(big.Int).Neg(c.ord)})
	case 1:
		return big.NewInt(int64(r.Intn(2000)) - 1000)
	case 2, 3:
		if bits >= 200 { // messages, witnesses, shifts: around and beyond the modulus width
			return vh.Pick(r, c.wideValues(r, true))
		}
	}
	x := r.BigBits(1 + r.Intn(bits))
	if r.Bool() {
		x.Neg(x)
	}
	return x
}

// expCap bounds the exponents a program may build up (cost), well beyond 3× the modulus width.
func (c *intCtx) expCap() int { return 4*c.n.BitLen() + 256 }

type intReg struct {
	m *intcom.Message
	w *intcom.Witness
	c *intcom.Commitment
}

func intProgram[K commitments.HomomorphicCommitmentKey[K, *intcom.Message, *intcom.Witness, *intcom.Commitment, *num.Int]](
	cx *intCtx, key K, rng *vh.Rng, maxOps int) (ops []hop, regs []intReg, fail string) {
	n := 1 + rng.Intn(maxOps)
	if p := vh.Safely(func() {
		for len(ops) < n && fail == "" {
			kind, i, j := nextOp(rng, len(regs))
			opBits := 0
			if len(regs) > 0 {
				opBits = max(regs[i].w.Value().Big().BitLen(), regs[i].m.Value().Big().BitLen())
			}
			if kind == 'S' && opBits+40 > cx.expCap() {
				kind = 'O'
			}
			switch kind {
			case 'N':
				m := cx.randInt(rng, 300)
				msg := intMsg(m)
				if rng.Bool() {
					c, w, err := commitments.Commit(key, msg, rng)
					if err != nil {
						fail = "Commit: " + err.Error()
						return
					}
					ops = append(ops, hop{kind: 'N', a: m, b: w.Value().Big()})
					regs = append(regs, intReg{msg, w, c})
				} else {
					rr := cx.randInt(rng, 1100)
					w := intWit(rr)
					c, err := key.CommitWithWitness(msg, w)
					if err != nil {
						fail = "CommitWithWitness: " + err.Error()
						return
					}
					ops = append(ops, hop{kind: 'N', a: m, b: rr})
					regs = append(regs, intReg{msg, w, c})
				}
			case 'O':
				a, b := regs[i], regs[j]
				m, e1 := key.MessageOp(a.m, b.m)
				w, e2 := key.WitnessOp(a.w, b.w)
				c, e3 := key.CommitmentOp(a.c, b.c)
				if e1 != nil || e2 != nil || e3 != nil {
					fail = fmt.Sprint("Op: ", e1, e2, e3)
					return
				}
				ops = append(ops, hop{kind: 'O', i: i, j: j})
				regs = append(regs, intReg{m, w, c})
				if rng.Chance(1, 4) { // the variadic form: Op(first, second, rest...)
					l := rng.Intn(len(regs))
					d := regs[l]
					m3, e1 := key.MessageOp(a.m, b.m, d.m)
					w3, e2 := key.WitnessOp(a.w, b.w, d.w)
					c3, e3 := key.CommitmentOp(a.c, b.c, d.c)
					if e1 != nil || e2 != nil || e3 != nil {
						fail = fmt.Sprint("Op(3): ", e1, e2, e3)
						return
					}
					ops = append(ops, hop{kind: 'O', i: len(regs) - 1, j: l})
					regs = append(regs, intReg{m3, w3, c3})
				}
			case 'V':
				a := regs[i]
				m, e1 := key.MessageOpInv(a.m)
				w, e2 := key.WitnessOpInv(a.w)
				c, e3 := key.CommitmentOpInv(a.c)
				if e1 != nil || e2 != nil || e3 != nil {
					fail = fmt.Sprint("OpInv: ", e1, e2, e3)
					return
				}
				ops = append(ops, hop{kind: 'V', i: i})
				regs = append(regs, intReg{m, w, c})
			case 'S':
				a := regs[i]
				s := cx.randInt(rng, 40)
				if rng.Chance(1, 4) { // scalars around and beyond the modulus width, within the cost cap
					if ws := vh.Pick(rng, cx.wideValues(rng, true)); opBits+ws.BitLen() <= cx.expCap() {
						s = ws
					}
				}
				var m *intcom.Message
				var w *intcom.Witness
				var c *intcom.Commitment
				var e1, e2, e3 error
				if s.BitLen() <= 40 && rng.Chance(1, 3) {
					s = big.NewInt(int64(rng.Intn(201)) - 100)
					m, e1 = commitments.MessageScalarOpSignedNumeric(key, a.m, zInt(s))
					w, e2 = commitments.WitnessScalarOpSignedNumeric(key, a.w, zInt(s))
					c, e3 = commitments.CommitmentScalarOpSignedNumeric(key, a.c, zInt(s))
				} else {
					m, e1 = key.MessageScalarOp(a.m, zInt(s))
					w, e2 = key.WitnessScalarOp(a.w, zInt(s))
					c, e3 = key.CommitmentScalarOp(a.c, zInt(s))
				}
				if e1 != nil || e2 != nil || e3 != nil {
					fail = fmt.Sprint("ScalarOp: ", e1, e2, e3)
					return
				}
				ops = append(ops, hop{kind: 'S', i: i, a: s})
				regs = append(regs, intReg{m, w, c})
			case 'R':
				a := regs[i]
				var c *intcom.Commitment
				var sh *intcom.Witness
				var err error
				if rng.Bool() {
					c, sh, err = commitments.ReRandomise(key, a.c, rng)
				} else {
					sh = intWit(cx.randInt(rng, 1100))
					c, err = key.ReRandomise(a.c, sh)
				}
				if err != nil {
					fail = "ReRandomise: " + err.Error()
					return
				}
				w, err := key.WitnessOp(a.w, sh)
				if err != nil {
					fail = "WitnessOp: " + err.Error()
					return
				}
				ops = append(ops, hop{kind: 'R', i: i, a: sh.Value().Big()})
				regs = append(regs, intReg{a.m, w, c})
			case 'T':
				a := regs[i]
				d := cx.randInt(rng, 300)
				dm := intMsg(d)
				c, e1 := key.Shift(a.c, dm)
				m, e2 := key.MessageOp(a.m, dm)
				if e1 != nil || e2 != nil {
					fail = fmt.Sprint("Shift: ", e1, e2)
					return
				}
				ops = append(ops, hop{kind: 'T', i: i, a: d})
				regs = append(regs, intReg{m, a.w, c})
			}
		}
	}); p != "" {
		fail = "panic: " + p
	}
	return ops, regs, fail
}

// intScript executes a given program (explicit values only) on the implementation.
func intScript[K commitments.HomomorphicCommitmentKey[K, *intcom.Message, *intcom.Witness, *intcom.Commitment, *num.Int]](
	key K, ops []hop) (regs []intReg, fail string) {
	if p := vh.Safely(func() {
		for _, o := range ops {
			var g intReg
			var e1, e2, e3 error
			switch o.kind {
			case 'N':
				g.m, g.w = intMsg(o.a), intWit(o.b)
				g.c, e1 = key.CommitWithWitness(g.m, g.w)
			case 'O':
				a, b := regs[o.i], regs[o.j]
				g.m, e1 = key.MessageOp(a.m, b.m)
				g.w, e2 = key.WitnessOp(a.w, b.w)
				g.c, e3 = key.CommitmentOp(a.c, b.c)
			case 'V':
				a := regs[o.i]
				g.m, e1 = key.MessageOpInv(a.m)
				g.w, e2 = key.WitnessOpInv(a.w)
				g.c, e3 = key.CommitmentOpInv(a.c)
			case 'S':
				a := regs[o.i]
				g.m, e1 = key.MessageScalarOp(a.m, zInt(o.a))
				g.w, e2 = key.WitnessScalarOp(a.w, zInt(o.a))
				g.c, e3 = key.CommitmentScalarOp(a.c, zInt(o.a))
			case 'R':
				a := regs[o.i]
				g.m = a.m
				g.c, e1 = key.ReRandomise(a.c, intWit(o.a))
				g.w, e2 = key.WitnessOp(a.w, intWit(o.a))
			case 'T':
				a := regs[o.i]
				g.w = a.w
				g.c, e1 = key.Shift(a.c, intMsg(o.a))
				g.m, e2 = key.MessageOp(a.m, intMsg(o.a))
			}
			if e1 != nil || e2 != nil || e3 != nil {
				fail = fmt.Sprint(o.text(), ": ", e1, e2, e3)
				return
			}
			regs = append(regs, g)
		}
	}); p != "" {
		fail = "panic: " + p
	}
	return regs, fail
}

// bigCommit recomputes s^m · t^r mod N̂ with math/big (negative exponents invert the base).
func (c *intCtx) bigCommit(s, t, m, r *big.Int) *big.Int {
	pw := func(b, e *big.Int) *big.Int {
		if e.Sign() < 0 {
			return new(big.Int).Exp(new(big.Int).ModInverse(b, c.n), new(big.Int).Neg(e), c.n)
		}
		return new(big.Int).Exp(b, e, c.n)
	}
	x := pw(s, m)
	return x.Mod(x.Mul(x, pw(t, r)), c.n)
}

// intcomVerify: every tracked opening must open (exported key, and the trapdoor key's Open), the
// commitment must be s^m·t^r recomputed with math/big, and message, witness, commitment and Open
// verdict must be the model's.
func intcomVerify(r *runner, cx *intCtx, id, stream, cse string, pub *intcom.CommitmentKey, tk *intcom.TrapdoorKey, s, t *big.Int, ops []hop, regs []intReg) []string {
	implOpen := make([]string, len(regs))
	ems, ers := evalOps(ops, nil)
	for k, g := range regs {
		g := g
		if g.m.Value().Big().Cmp(ems[k]) != 0 || g.w.Value().Big().Cmp(ers[k]) != 0 {
			r.prop(fmt.Sprintf("%s.v%d", id, k), "intcom-combined-value", fmt.Sprintf("register %d (after %s): message/witness are not the combined ones (%s, %s)", k, ops[k].text(), zh(ems[k]), zh(ers[k])), cse, "intcom_homomorphic")
		}
		implOpen[k] = verdict(func() error { return pub.Open(g.c, g.m, g.w) })
		if implOpen[k] == "1" {
			if v := verdict(func() error { return tk.Open(g.c, g.m, g.w) }); v != "1" {
				implOpen[k] = v
			}
		}
		want := cx.bigCommit(s, t, g.m.Value().Big(), g.w.Value().Big())
		if implOpen[k] != "1" || g.c.Value().Value().Big().Cmp(want) != 0 {
			r.prop(fmt.Sprintf("%s.r%d", id, k), "intcom-homomorphic-open", fmt.Sprintf("register %d (after %s) does not open to the combined message and witness: Open=%s, commitment = s^m·t^r (math/big): %v", k, ops[k].text(), implOpen[k], g.c.Value().Value().Big().Cmp(want) == 0), cse, "intcom_homomorphic")
		}
	}
	r.ask(fmt.Sprintf("I %s %s %s %s %s", id, zh(cx.n), zh(s), zh(t), progText(ops)), func(out string) {
		mr := parseRegs(out, true)
		if len(mr) != len(regs) {
			r.corr(id, "intcom-program", fmt.Sprintf("model has %d registers, implementation %d", len(mr), len(regs)), cse, "correspondence intcom program", false)
			return
		}
		for k, g := range regs {
			var d []string
			if g.m.Value().Big().Cmp(mr[k].m) != 0 {
				d = append(d, fmt.Sprintf("message %s model %s", zh(g.m.Value().Big()), zh(mr[k].m)))
			}
			if g.w.Value().Big().Cmp(mr[k].r) != 0 {
				d = append(d, fmt.Sprintf("witness %s model %s", zh(g.w.Value().Big()), zh(mr[k].r)))
			}
			if g.c.Value().Value().Big().Cmp(mr[k].c0) != 0 {
				d = append(d, fmt.Sprintf("commitment %s model %s", zh(g.c.Value().Value().Big()), zh(mr[k].c0)))
			}
			if implOpen[k] != mr[k].open {
				d = append(d, fmt.Sprintf("Open %s model %s", implOpen[k], mr[k].open))
			}
			if len(d) > 0 {
				r.corr(fmt.Sprintf("%s.r%d", id, k), "intcom-op-"+string(ops[k].kind), fmt.Sprintf("register %d after %s: %s", k, ops[k].text(), strings.Join(d, "; ")), cse,
					"correspondence intcom operations over Z_N^* [model/Commit.v hrun int_scheme]", implOpen[k] != "1")
			}
		}
	})
	return implOpen
}

// intcomBoundary: Commit, Shift, ReRandomise, ScalarOp and OpInv with every wide magnitude as
// message, witness, shift and scalar, on the trapdoor key and on the exported key.
func intcomBoundary(r *runner, cx *intCtx, i int, full bool) {
	stream := "intbound-" + cx.name
	rng := vh.NewRng(r.a.Seed, "C18", stream, i)
	t, lambda, tk := cx.randKey(rng)
	pub := tk.Export()
	s := pub.S().Value().Big()
	m0, r0 := cx.randInt(rng, 100), cx.randInt(rng, 100)
	ops := []hop{{kind: 'N', a: m0, b: r0}}
	for _, d := range cx.wideValues(rng, full) {
		ops = append(ops, hop{kind: 'T', i: 0, a: d}, hop{kind: 'R', i: 0, a: d}, hop{kind: 'S', i: 0, a: d},
			hop{kind: 'N', a: d, b: r0}, hop{kind: 'N', a: m0, b: d})
		ops = append(ops, hop{kind: 'V', i: len(ops) - 2}, hop{kind: 'T', i: len(ops) - 1, a: new(big.Int).Neg(d)})
	}
	for _, useTrap := range []bool{false, true} {
		id := fmt.Sprintf("IB-%s-%d-%v", cx.name, i, useTrap)
		var regs []intReg
		var fail string
		if useTrap {
			regs, fail = intScript(tk, ops)
		} else {
			regs, fail = intScript(pub, ops)
		}
		cse := fmt.Sprintf("%s %d | trapdoor-ops=%v N=%s s=%s t=%s lambda=%s ops=%s", stream, i, useTrap, zh(cx.n), zh(s), zh(t), zh(lambda), progText(ops))
		r.res.Count(stream+"-program", cse, len(regs) > 0)
		r.res.Distribution[stream+"-registers"] += len(regs)
		if fail != "" {
			r.prop(id, "intcom-op-refused", "a homomorphic operation on well-formed values failed: "+fail, cse, "intcom_homomorphic")
			continue
		}
		intcomVerify(r, cx, id, stream, cse, pub, tk, s, t, ops, regs)
	}
}

func (c *intCtx) elem(pub *intcom.CommitmentKey, v *big.Int) (*znstar.RSAGroupElementUnknownOrder, error) {
	return pub.Group().FromNat(must1(num.N().FromBig(v)))
}

func intcomCase(r *runner, c counts, cx *intCtx, i int) {
	stream := "intcom-" + cx.name
	rng := vh.NewRng(r.a.Seed, "C18", stream, i)
	id := fmt.Sprintf("I-%s-%d", cx.name, i)
	t, lambda, tk := cx.randKey(rng)
	pub := tk.Export()
	s := pub.S().Value().Big()
	if pub.T().Value().Big().Cmp(t) != 0 || s.Cmp(new(big.Int).Exp(t, lambda, cx.n)) != 0 {
		r.prop(id, "intcom-export-key", "exported key is not (s = t^λ, t)", fmt.Sprintf("%s %d | t=%s lambda=%s", stream, i, zh(t), zh(lambda)), "intcom_trapdoor_equivocates")
	}
	var ops []hop
	var regs []intReg
	var fail string
	useTrap := i%2 == 1
	if useTrap {
		ops, regs, fail = intProgram(cx, tk, rng, c.intOps)
	} else {
		ops, regs, fail = intProgram(cx, pub, rng, c.intOps)
	}
	cse := fmt.Sprintf("%s %d | trapdoor-ops=%v N=%s s=%s t=%s lambda=%s ops=%s", stream, i, useTrap, zh(cx.n), zh(s), zh(t), zh(lambda), progText(ops))
	r.res.Count(stream+"-program", cse, len(regs) > 0)
	if fail != "" {
		r.prop(id, "intcom-op-refused", "a homomorphic operation on well-formed values failed: "+fail, cse, "intcom_homomorphic")
		return
	}
	intcomVerify(r, cx, id, stream, cse, pub, tk, s, t, ops, regs)

	// single-component changes
	modn := func(x *big.Int) *big.Int { return new(big.Int).Mod(x, cx.n) }
	inv3 := new(big.Int).ModInverse(bi(3), cx.ord)
	for tt := 0; tt < c.tamperPerProgram && len(regs) > 0; tt++ {
		k := len(regs) - 1
		if tt > 0 {
			k = rng.Intn(len(regs))
		}
		g := regs[k]
		m, w, cv := g.m.Value().Big(), g.w.Value().Big(), g.c.Value().Value().Big()
		add := func(a, b *big.Int) *big.Int { return new(big.Int).Add(a, b) }
		mModOrd := new(big.Int).Mod(m, cx.ord).Sign() != 0
		wModOrd := new(big.Int).Mod(w, cx.ord).Sign() != 0
		type tv struct {
			name       string
			t, lambda  *big.Int // key = NewTrapdoorKey(t, λ).Export()
			c, m, w    *big.Int
			mustReject bool
			mustAccept bool
		}
		t3 := new(big.Int).Exp(t, bi(3), cx.n)
		l3 := new(big.Int).Mod(new(big.Int).Mul(lambda, inv3), cx.ord)
		l1 := new(big.Int).Mod(add(lambda, bi(1)), cx.ord)
		vs := []tv{
			{"honest", t, lambda, cv, m, w, false, true},
			{"msg+1", t, lambda, cv, add(m, bi(1)), w, true, false},
			{"msg-1", t, lambda, cv, add(m, bi(-1)), w, true, false},
			{"msg-neg", t, lambda, cv, new(big.Int).Neg(m), w, new(big.Int).Mod(add(m, m), cx.ord).Sign() != 0, false},
			{"msg+2^bitlen", t, lambda, cv, add(m, new(big.Int).Lsh(bi(1), uint(cx.n.BitLen()))), w, true, false},
			{"msg+N", t, lambda, cv, add(m, cx.n), w, true, false},
			{"wit+2^bitlen", t, lambda, cv, m, add(w, new(big.Int).Lsh(bi(1), uint(cx.n.BitLen()))), true, false},
			{"wit+1", t, lambda, cv, m, add(w, bi(1)), true, false},
			{"wit-1", t, lambda, cv, m, add(w, bi(-1)), true, false},
			{"wit-random", t, lambda, cv, m, cx.randInt(rng, 1100), true, false},
			// the algebraic exceptions: t has order ord, s = t^λ
			{"wit+order", t, lambda, cv, m, add(w, cx.ord), false, true},
			{"msg+1-wit-lambda", t, lambda, cv, add(m, bi(1)), new(big.Int).Sub(w, lambda), false, true},
			{"com*t", t, lambda, modn(new(big.Int).Mul(cv, t)), m, w, true, false},
			{"com+1", t, lambda, modn(add(cv, bi(1))), m, w, true, false},
			{"com-neg", t, lambda, modn(new(big.Int).Neg(cv)), m, w, true, false},
			{"key-s*t", t, l1, cv, m, w, mModOrd, !mModOrd},
			{"key-t^3", t3, l3, cv, m, w, wModOrd, !wModOrd},
		}
		for vi, v := range vs {
			v := v
			if strings.HasPrefix(v.name, "wit-random") && new(big.Int).Mod(new(big.Int).Sub(v.w, w), cx.ord).Sign() == 0 {
				continue
			}
			vid := fmt.Sprintf("%s.t%d.%d", id, tt, vi)
			tcse := fmt.Sprintf("%s change=%s@r%d", cse, v.name, k)
			kk := pub
			sv := s
			if v.t.Cmp(t) != 0 || v.lambda.Cmp(lambda) != 0 {
				k2, err := cx.trapdoor(v.t, v.lambda)
				if err != nil {
					continue // λ+1 not a unit etc.
				}
				kk = k2.Export()
				sv = kk.S().Value().Big()
			}
			ce, err := cx.elem(pub, v.c)
			if err != nil {
				continue // not a unit
			}
			r.res.Count(stream+"-"+tamperClass(v.name), tcse, true)
			cc := must1(intcom.NewCommitment(ce))
			impl := verdict(func() error { return kk.Open(cc, intMsg(v.m), intWit(v.w)) })
			if v.mustAccept && v.name == "honest" && impl != "1" {
				r.prop(vid, "intcom-honest-open-rejected", "Open rejects the tracked opening: "+impl, tcse, "intcom_open_complete")
			}
			if v.mustReject && impl == "1" {
				r.prop(vid, "intcom-open-accepts-"+tamperClass(v.name), "Open accepts although "+v.name+" was changed", tcse, "intcom_open_iff_exponent")
			}
			r.ask(fmt.Sprintf("IO %s %s %s %s %s %s %s", vid, zh(cx.n), zh(sv), zh(v.t), zh(v.c), zh(v.m), zh(v.w)), func(out string) {
				if r.openAlarm(v.name == "honest", impl, out) {
					r.corr(vid, "intcom-open-"+tamperClass(v.name), fmt.Sprintf("implementation Open=%s, model int_open=%s", impl, out), tcse,
						"correspondence intcom Open [model/Commit.v int_open]", (v.name == "honest" && impl != "1") || (v.mustReject && impl == "1"))
				}
			})
		}
	}
}

func intcomEquivocate(r *runner, cx *intCtx, i int) {
	stream := "inteq-" + cx.name
	rng := vh.NewRng(r.a.Seed, "C18", stream, i)
	id := fmt.Sprintf("IE-%s-%d", cx.name, i)
	t, lambda, tk := cx.randKey(rng)
	pub := tk.Export()
	s := pub.S().Value().Big()
	m, m2 := cx.randInt(rng, 300), cx.randInt(rng, 300)
	if i%5 == 3 {
		m2 = m
	}
	msg, msg2 := intMsg(m), intMsg(m2)
	var com *intcom.Commitment
	var wit *intcom.Witness
	var err error
	if i%3 == 0 {
		wit = intWit(cx.randInt(rng, 1100))
		com, err = tk.CommitWithWitness(msg, wit)
	} else {
		com, wit, err = commitments.Commit(tk, msg, rng)
	}
	must(err)
	w := wit.Value().Big()
	cse := fmt.Sprintf("%s %d | N=%s s=%s t=%s lambda=%s m=%s r=%s m'=%s", stream, i, zh(cx.n), zh(s), zh(t), zh(lambda), zh(m), zh(w), zh(m2))
	r.res.Count(stream, cse, true)
	if c2, err := pub.CommitWithWitness(msg, wit); err != nil || !c2.Equal(com) {
		r.prop(id, "intcom-trapdoor-commit-differs", "TrapdoorKey.CommitWithWitness ≠ exported key's CommitWithWitness", cse, "intcom trapdoor commitment = s^m·t^r")
	}
	var w2 *intcom.Witness
	var eerr error
	if p := vh.Safely(func() { w2, eerr = tk.Equivocate(msg, wit, msg2, rng) }); p != "" {
		eerr = fmt.Errorf("panic: %s", p)
	}
	if eerr != nil {
		r.prop(id, "intcom-equivocate-refused", "Equivocate failed on a valid trapdoor key: "+eerr.Error(), cse, "intcom_trapdoor_equivocates")
		return
	}
	implOpen := verdict(func() error { return pub.Open(com, msg2, w2) })
	if implOpen != "1" {
		r.prop(id, "intcom-equivocation-does-not-open", "the witness returned by Equivocate does not open the commitment to the new message under the exported key", cse, "intcom_trapdoor_equivocates")
	}
	if new(big.Int).Mod(new(big.Int).Mul(lambda, new(big.Int).Sub(m, m2)), cx.ord).Sign() != 0 && verdict(func() error { return pub.Open(com, msg2, wit) }) == "1" {
		r.prop(id, "intcom-open-accepts-msg", "the original witness opens the commitment to a different message", cse, "intcom_open_iff_exponent")
	}
	r.ask(fmt.Sprintf("IE %s %s %s %s %s %s %s %s %s %s", id, zh(cx.n), zh(s), zh(t), zh(cx.ord), zh(lambda), zh(m), zh(w), zh(m2), zh(w2.Value().Big())), func(out string) {
		f := strings.Fields(out)
		if len(f) > 2 && f[2] != "1" && m.Cmp(m2) != 0 {
			r.res.Distribution["inteq-witness-outside-sampling-range"]++ // hiding, not C18: counted, not an alarm
		}
		if f[0] != "1" || f[1] != implOpen {
			r.corr(id, "intcom-equivocate", fmt.Sprintf("implementation r''=%s open=%s; model: r'' of the form r + λ(m−m') + x·ord: %s, open=%s", zh(w2.Value().Big()), implOpen, f[0], f[1]), cse,
				"correspondence intcom Equivocate [model/Commit.v int_equivocate_ok]", implOpen != "1")
		}
	})
}

func intcomAll(r *runner, c counts) {
	small, big := newIntCtx("n512"), newIntCtx("n1024")
	thorough := r.a.Tier == "thorough" || r.a.Search
	intcomBoundary(r, small, 0, true)
	intcomBoundary(r, big, 0, thorough)
	if thorough {
		for i := 1; i < 6; i++ {
			intcomBoundary(r, small, i, true)
			intcomBoundary(r, big, i, true)
			r.maybeFlush()
		}
	}
	for i := 0; i < c.intc; i++ {
		intcomCase(r, c, small, i)
		if i%2 == 0 {
			intcomCase(r, c, big, i)
		}
		r.maybeFlush()
	}
	for i := 0; i < c.equiv/2; i++ {
		intcomEquivocate(r, small, i)
		if i%2 == 0 {
			intcomEquivocate(r, big, i)
		}
		r.maybeFlush()
	}
}

func intcomReplay(r *runner, c counts, stream string, idx int) {
	name := stream[strings.Index(stream, "-")+1:]
	if _, ok := safePrimes[name]; !ok {
		return
	}
	if strings.HasPrefix(stream, "inteq-") {
		intcomEquivocate(r, newIntCtx(name), idx)
	} else if strings.HasPrefix(stream, "intbound-") {
		intcomBoundary(r, newIntCtx(name), idx, name == "n512" || idx > 0 || r.a.Tier == "thorough")
	} else {
		intcomCase(r, c, newIntCtx(name), idx)
	}
}
