package main

import (
	"bytes"
	"fmt"
	"strings"

	"golang.org/x/crypto/blake2b"

	"github.com/bronlabs/bron-crypto/pkg/commitments"
	"github.com/bronlabs/bron-crypto/pkg/commitments/hashcom"

	"verif/harness/internal/vh"
)

type hvariant struct {
	name       string // which single component was changed ("honest" for none)
	k, c, m, w []byte
}

func hashMsg(r *vh.Rng, i int) []byte {
	switch i % 12 {
	case 0:
		return []byte{}
	case 1:
		return r.Bytes(1)
	case 2:
		return r.Bytes(1500 + r.Intn(3000))
	case 3:
		return r.Bytes(32)
	case 4:
		return r.Bytes(31)
	case 5:
		return r.Bytes(33)
	case 6:
		return make([]byte, r.Intn(70)) // all zero
	case 7:
		return r.Bytes(128) // one BLAKE2b block
	case 8:
		return r.Bytes(96) // message ‖ witness = one block
	default:
		return r.Bytes(r.Intn(200))
	}
}

// blake is Go's own keyed BLAKE2b-256 (x/crypto, independent of the code under test).
func blake(key, input []byte) []byte {
	h, err := blake2b.New256(key)
	must(err)
	h.Write(input)
	return h.Sum(nil)
}

func hashOpen(k, c, m, w []byte) string {
	if len(k) != hashcom.KeySize || len(c) != hashcom.DigestSize || len(w) != hashcom.DigestSize {
		return "unrepresentable"
	}
	var key hashcom.CommitmentKey
	copy(key[:], k)
	var com hashcom.Commitment
	copy(com[:], c)
	var wit hashcom.Witness
	copy(wit[:], w)
	return verdict(func() error { return key.Open(com, m, wit) })
}

// nilMessageNote records (as a note, not a violation) how the nil byte slice is treated: it is
// the empty message for CommitWithWitness but refused by Commit and Open (utils.IsNil) — a
// one-sided refusal outside the model (the model has no nil).
func nilMessageNote(r *runner, key *hashcom.CommitmentKey, wit hashcom.Witness) {
	c1, e1 := key.CommitWithWitness(nil, wit)
	c2, e2 := key.CommitWithWitness([]byte{}, wit)
	o := key.Open(c1, nil, wit)
	o2 := key.Open(c1, []byte{}, wit)
	r.res.Note("nil message: CommitWithWitness(nil) err=%v equals commitment to empty message=%v; Open(c, nil, w) refused=%v; Open(c, []byte{}, w) ok=%v",
		e1 != nil, e1 == nil && e2 == nil && c1.Equal(c2), o != nil, o2 == nil)
}

// hashcomAliasCase: two messages A, B sliced out of one buffer (A has spare capacity that holds
// B).  Committing to / opening A must not disturb B: B's untouched honest opening still verifies
// and the caller's buffer is unchanged.
func hashcomAliasCase(r *runner, i int) {
	rng := vh.NewRng(r.a.Seed, "C18", "hashcom-alias", i)
	key, err := hashcom.SampleCommitmentKey(rng)
	must(err)
	la, lb := rng.Intn(40), 32+rng.Intn(40)
	rec := rng.Bytes(la + lb + rng.Intn(8))
	orig := append([]byte{}, rec...)
	A, B := rec[:la], rec[la:la+lb]
	cse := fmt.Sprintf("hashcom-alias %d | key=%s record=%s A=record[:%d] B=record[%d:%d]", i, vh.Hex(key[:]), vh.Hex(orig), la, la, la+lb)
	r.res.Count("hashcom-alias", cse, true)
	cB, wB, e1 := commitments.Commit(key, hashcom.Message(B), rng)
	cA, wA, e2 := commitments.Commit(key, hashcom.Message(A), rng)
	if e1 != nil || e2 != nil {
		r.prop(fmt.Sprintf("HA%d", i), "hashcom-commit-refused", "Commit refused a well-formed message", cse, "hashcom_open_iff")
		return
	}
	oA := verdict(func() error { return key.Open(cA, A, wA) })
	oB := verdict(func() error { return key.Open(cB, B, wB) })
	oB2 := hashOpen(key[:], cB[:], orig[la:la+lb], wB[:])
	if oA != "1" || oB != "1" || oB2 != "1" || !bytes.Equal(rec, orig) {
		r.prop(fmt.Sprintf("HA%d", i), "hashcom-aliasing", fmt.Sprintf("after committing to / opening A: Open(A)=%s Open(B)=%s Open(B, original bytes)=%s, caller buffer unchanged=%v", oA, oB, oB2, bytes.Equal(rec, orig)), cse, "hashcom_open_iff (honest opening verifies)")
	}
}

func hashcomCase(r *runner, i int) {
	rng := vh.NewRng(r.a.Seed, "C18", "hashcom", i)
	key, err := hashcom.SampleCommitmentKey(rng)
	must(err)
	msg := hashMsg(rng, i)
	com, wit, err := commitments.Commit(key, hashcom.Message(msg), rng)
	id := fmt.Sprintf("H%d", i)
	base := fmt.Sprintf("hashcom %d | key=%s msg=%s", i, vh.Hex(key[:]), vh.Hex(msg))
	if err != nil {
		r.res.Count("hashcom", base, false)
		r.prop(id, "hashcom-commit-refused", "Commit refused a well-formed message: "+err.Error(), base, "hashcom_open_iff (completeness)")
		return
	}
	base += " wit=" + vh.Hex(wit[:]) + " com=" + vh.Hex(com[:])
	if i == 0 {
		nilMessageNote(r, key, wit)
	}
	// CommitWithWitness must be the same function
	if c2, err := key.CommitWithWitness(msg, wit); err != nil || !c2.Equal(com) {
		r.prop(id, "hashcom-commit-nondeterministic", "CommitWithWitness(message, witness) differs from Commit's commitment", base, "hashcom_open_iff")
	}
	k, c, w := key[:], com[:], wit[:]
	vs := []hvariant{{"honest", k, c, msg, w}}
	add := func(name string, k2, c2, m2, w2 []byte) {
		vs = append(vs, hvariant{name, k2, c2, m2, w2})
	}
	nb := 8
	if len(msg) > 1000 && r.a.Tier != "thorough" {
		nb = 2
	}
	for _, p := range bitPositions(rng, 256, r.a.Tier, nb) {
		add(fmt.Sprintf("key-bit-%d", p), flipBit(k, p), c, msg, w)
		add(fmt.Sprintf("wit-bit-%d", p), k, c, msg, flipBit(w, p))
		add(fmt.Sprintf("com-bit-%d", p), k, flipBit(c, p), msg, w)
	}
	mq := 8
	if len(msg) <= 64 {
		mq = 16
	}
	if len(msg) > 1000 {
		mq = 4
	}
	for _, p := range bitPositions(rng, 8*len(msg), r.a.Tier, mq) {
		if r.a.Tier == "thorough" && len(msg) > 64 && p%61 != 0 && p != 8*len(msg)-1 {
			continue
		}
		add(fmt.Sprintf("msg-bit-%d", p), k, c, flipBit(msg, p), w)
	}
	// message length changes and message/witness boundary shifts
	add("msg-append-00", k, c, append(append([]byte{}, msg...), 0), w)
	add("msg-prepend-00", k, c, append([]byte{0}, msg...), w)
	add("msg-append-wit0", k, c, append(append([]byte{}, msg...), w[0]), w)
	if len(msg) > 0 {
		add("msg-drop-last", k, c, msg[:len(msg)-1], w)
		add("msg-drop-first", k, c, msg[1:], w)
		// (m', w') with m'‖w' a prefix-shift of m‖w: the last message byte moves into the witness
		sw := append([]byte{msg[len(msg)-1]}, w[:31]...)
		add("boundary-shift-right", k, c, msg[:len(msg)-1], sw)
	}
	// the first witness byte moves into the message
	add("boundary-shift-left", k, c, append(append([]byte{}, msg...), w[0]), append(append([]byte{}, w[1:]...), 0))
	add("msg-empty-vs-wit", k, c, []byte{}, w)
	add("key-wit-swapped", w, c, msg, k)
	add("key-zero", make([]byte, 32), c, msg, w)
	add("wit-zero", k, c, msg, make([]byte, 32))
	add("com-zero", k, make([]byte, 32), msg, w)
	add("com-unkeyed-hash", k, blake(nil, append(append([]byte{}, msg...), w...)), msg, w)
	add("com-without-witness", k, blake(k, msg), msg, w)

	for vi, v := range vs {
		v := v
		vid := fmt.Sprintf("%s.%d", id, vi)
		cse := base + " change=" + v.name
		if v.name != "honest" && bytes.Equal(v.k, k) && bytes.Equal(v.c, c) && bytes.Equal(v.m, msg) && bytes.Equal(v.w, w) {
			continue // the change was the identity (e.g. zero key equal to the key)
		}
		r.res.Count("hashcom-"+classOf(v.name), cse, true)
		impl := hashOpen(v.k, v.c, v.m, v.w)
		// the property itself, on the implementation alone
		if v.name == "honest" && impl != "1" {
			r.prop(vid, "hashcom-honest-open-rejected", "Open rejects the committed (key, message, witness): "+impl, cse, "hashcom_open_iff")
		}
		if v.name != "honest" && impl == "1" {
			r.prop(vid, "hashcom-open-accepts-"+classOf(v.name), "Open accepts although "+v.name+" was changed", cse, "hashcom_open_iff")
		}
		// phase A: the model's frame, hashed by Go's own BLAKE2b
		r.ask(fmt.Sprintf("HF %s %s %s %s", vid, vh.Hex(v.k), vh.Hex(v.m), vh.Hex(v.w)), func(out string) {
			ff := strings.Fields(out)
			if len(ff) != 2 {
				r.corr(vid, "hashcom-frame", "model returned no frame: "+out, cse, "correspondence hashcom frame", false)
				return
			}
			fk, fi := ff[0], ff[1]
			dg := blake(vh.UnHex(fk), vh.UnHex(fi))
			if v.name == "honest" && !bytes.Equal(dg, c) {
				r.corr(vid, "hashcom-commitment-bytes", fmt.Sprintf("library commitment %s, BLAKE2b-256(key)(model frame) %s", vh.Hex(c), vh.Hex(dg)), cse,
					"correspondence hashcom commitment = keyed BLAKE2b-256 of message ‖ witness [model/Commit.v hashcom_commit]", impl != "1")
			}
			// phase B: the model's Open with that hash value
			r.ask(fmt.Sprintf("HO %s %s %s %s %s %s %s %s", vid, vh.Hex(v.k), vh.Hex(v.c), vh.Hex(v.m), vh.Hex(v.w), fk, fi, vh.Hex(dg)), func(out string) {
				if r.openAlarm(v.name == "honest", impl, out) {
					pf := (v.name == "honest" && impl != "1") || (v.name != "honest" && impl == "1")
					r.corr(vid, "hashcom-open-"+classOf(v.name), fmt.Sprintf("implementation Open=%s, model hashcom_open=%s", impl, out), cse,
						"correspondence hashcom Open [model/Commit.v hashcom_open]", pf)
				}
			})
		})
	}
}

// classOf strips positions from a change name: "wit-bit-255" -> "wit-bit".
func classOf(name string) string {
	for i := len(name) - 1; i >= 0; i-- {
		if name[i] < '0' || name[i] > '9' {
			if name[i] == '-' && i < len(name)-1 {
				// keep "msg-append-00" style names intact: only strip when preceded by "bit"
				if i >= 3 && name[i-3:i] == "bit" {
					return name[:i]
				}
			}
			return name
		}
	}
	return name
}
