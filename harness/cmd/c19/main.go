// c19 — correspondence harness for property C19 (transcripts, RFC 9380 expanders,
// hash-to-curve).  See /verif/DESIGN.md §5 C19.
package main

import (
	"bytes"
	"crypto/sha256"
	"crypto/sha3"
	"crypto/sha512"
	"encoding/hex"
	"encoding/json"
	"fmt"
	"hash"
	"math/big"
	"os"
	"path/filepath"
	"strconv"
	"strings"

	"github.com/bronlabs/bron-crypto/pkg/base/curves/edwards25519"
	"github.com/bronlabs/bron-crypto/pkg/base/curves/impl/rfc9380/expanders"
	"github.com/bronlabs/bron-crypto/pkg/base/curves/k256"
	"github.com/bronlabs/bron-crypto/pkg/base/curves/p256"
	"github.com/bronlabs/bron-crypto/pkg/base/curves/pairable/bls12381"
	"github.com/bronlabs/bron-crypto/pkg/base/curves/pasta"
	"github.com/bronlabs/bron-crypto/pkg/transcripts"
	"github.com/bronlabs/bron-crypto/pkg/transcripts/hagrid"

	"verif/harness/internal/vh"
)

// ---- transcript cases ---------------------------------------------------------------

type op struct {
	kind  byte // 'D','A','E','K'
	i     int
	label []byte
	msgs  [][]byte
	n     uint64
}

func (o op) text() string {
	switch o.kind {
	case 'D':
		return fmt.Sprintf("D,%d,%s", o.i, vh.Hex(o.label))
	case 'A':
		parts := []string{"A", strconv.Itoa(o.i), vh.Hex(o.label)}
		for _, m := range o.msgs {
			parts = append(parts, vh.Hex(m))
		}
		return strings.Join(parts, ",")
	case 'E':
		return fmt.Sprintf("E,%d,%s,%d", o.i, vh.Hex(o.label), o.n)
	default:
		return fmt.Sprintf("K,%d", o.i)
	}
}

func parseOp(s string) op {
	f := strings.Split(s, ",")
	i, _ := strconv.Atoi(f[1])
	switch f[0] {
	case "D":
		return op{kind: 'D', i: i, label: vh.UnHex(f[2])}
	case "A":
		o := op{kind: 'A', i: i, label: vh.UnHex(f[2])}
		for _, m := range f[3:] {
			o.msgs = append(o.msgs, vh.UnHex(m))
		}
		return o
	case "E":
		n, _ := strconv.ParseUint(f[3], 10, 64)
		return op{kind: 'E', i: i, label: vh.UnHex(f[2]), n: n}
	default:
		return op{kind: 'K', i: i}
	}
}

func opsText(ops []op) string {
	parts := make([]string, len(ops))
	for i, o := range ops {
		parts[i] = o.text()
	}
	return strings.Join(parts, ";")
}

func parseOps(s string) []op {
	if s == "" {
		return nil
	}
	var ops []op
	for _, p := range strings.Split(s, ";") {
		ops = append(ops, parseOp(p))
	}
	return ops
}

// runImpl drives the real hagrid transcripts; returns one output per op ("-" no
// output, "ERR" refused extraction, else hex).
func runImpl(name []byte, ops []op) []string {
	ts := []transcripts.Transcript{hagrid.NewTranscript(string(name))}
	outs := make([]string, len(ops))
	for k, o := range ops {
		outs[k] = "-"
		if o.i >= len(ts) {
			continue
		}
		t := ts[o.i]
		switch o.kind {
		case 'D':
			t.AppendDomainSeparator(string(o.label))
		case 'A':
			t.AppendBytes(string(o.label), o.msgs...)
		case 'E':
			b, err := t.ExtractBytes(string(o.label), uint(o.n))
			if err != nil {
				outs[k] = "ERR"
			} else {
				outs[k] = vh.Hex(b)
			}
		case 'K':
			ts = append(ts, t.Clone())
		}
	}
	return outs
}

var alphabet = [][]byte{{}, {0}, {0, 0, 0, 0, 0, 0, 0, 0}, {0, 0, 0, 0, 0, 0, 0, 1}, {0xa1}, {0xa2}, {0xa3}, {0xa4}, {0xa5}, []byte("a"), []byte("ab"), []byte("label"), {1}, {2}}

func randBytes(r *vh.Rng) []byte {
	switch r.Intn(10) {
	case 0, 1, 2, 3:
		return vh.Pick(r, alphabet)
	case 4, 5:
		return bytes.Join([][]byte{vh.Pick(r, alphabet), vh.Pick(r, alphabet)}, nil)
	case 6, 7, 8:
		return r.Bytes(r.Intn(24))
	default:
		return r.Bytes(r.Intn(300))
	}
}

func genOps(r *vh.Rng, maxLen int, clones bool) []op {
	n := 1 + r.Intn(maxLen)
	nts := 1
	var ops []op
	for len(ops) < n {
		i := r.Intn(nts)
		switch k := r.Intn(10); {
		case k < 2:
			ops = append(ops, op{kind: 'D', i: i, label: randBytes(r)})
		case k < 6:
			nm := r.Intn(4)
			o := op{kind: 'A', i: i, label: randBytes(r)}
			for j := 0; j < nm; j++ {
				o.msgs = append(o.msgs, randBytes(r))
			}
			ops = append(ops, o)
		case k < 9:
			nn := uint64(1 + r.Intn(64))
			if r.Chance(1, 12) {
				nn = 0
			}
			if r.Chance(1, 12) {
				nn = uint64(200 + r.Intn(400))
			}
			ops = append(ops, op{kind: 'E', i: i, label: randBytes(r), n: nn})
		default:
			if clones && nts < 4 {
				ops = append(ops, op{kind: 'K', i: i})
				nts++
			}
		}
	}
	// always end with an extraction on every transcript so that every difference is observable
	for i := 0; i < nts; i++ {
		ops = append(ops, op{kind: 'E', i: i, label: []byte("final"), n: 32})
	}
	return ops
}

func cshake(custom, input []byte, n int) []byte {
	h := sha3.NewCSHAKE256(nil, custom)
	h.Write(input)
	out := make([]byte, n)
	h.Read(out)
	return out
}

// checkTranscript compares implementation outputs with the model's XOF calls hashed by
// Go's own cSHAKE256.  Returns "" when they agree.
func checkTranscript(driver string, name []byte, ops []op) (string, error) {
	line := fmt.Sprintf("T 0 %s %s", vh.Hex(name), opsText(ops))
	res, err := vh.Driver(driver, []string{line})
	if err != nil {
		return "", err
	}
	return cmpTranscript(res[0], name, ops), nil
}

func cmpTranscript(modelLine string, name []byte, ops []op) string {
	f := strings.SplitN(modelLine, " ", 3)
	var mouts []string
	if len(f) == 3 {
		mouts = strings.Split(f[2], ";")
	}
	impl := runImpl(name, ops)
	if len(mouts) != len(impl) {
		return fmt.Sprintf("model returned %d outputs, implementation %d", len(mouts), len(impl))
	}
	for k := range impl {
		want := "-"
		if mouts[k] != "-" {
			c := strings.Split(mouts[k], ",")
			n, _ := strconv.Atoi(c[2])
			want = vh.Hex(cshake(vh.UnHex(c[0]), vh.UnHex(c[1]), n))
		}
		got := impl[k]
		if got == "ERR" {
			got = "-" // a refused extraction is "no output" in the model
			if ops[k].kind != 'E' || ops[k].n != 0 {
				return fmt.Sprintf("op %d (%s): implementation refused", k, ops[k].text())
			}
		}
		if got != want {
			return fmt.Sprintf("op %d (%s): implementation %s, cSHAKE256 of model stream %s", k, ops[k].text(), got, want)
		}
	}
	return ""
}

// ---- property-level oracle on the implementation alone ---------------------------------

// finalOutputs runs a single-transcript history and returns the outputs of its extractions.
func extractionOutputs(name []byte, ops []op) []string {
	var outs []string
	for k, o := range runImpl(name, ops) {
		if ops[k].kind == 'E' && o != "ERR" {
			outs = append(outs, o)
		}
	}
	return outs
}

// variants returns histories that differ from ops but are "close" in the ways the property
// quantifies over: bytes re-split across labels/messages/ops, dropped/added messages, changed
// lengths, framing bytes absorbed into payloads.
func variants(r *vh.Rng, ops []op) [][]op {
	var vs [][]op
	clone := func() []op {
		c := make([]op, len(ops))
		for i, o := range ops {
			c[i] = o
			c[i].label = append([]byte{}, o.label...)
			c[i].msgs = nil
			for _, m := range o.msgs {
				c[i].msgs = append(c[i].msgs, append([]byte{}, m...))
			}
		}
		return c
	}
	be64 := func(n int) []byte { return []byte{0, 0, 0, 0, 0, 0, 0, byte(n)} }
	for k, o := range ops {
		switch o.kind {
		case 'A':
			if len(o.msgs) >= 1 {
				m0 := o.msgs[0]
				// label/message boundary moves
				if len(m0) > 0 {
					c := clone()
					c[k].label = append(c[k].label, m0[0])
					c[k].msgs[0] = m0[1:]
					vs = append(vs, c)
				}
				if len(o.label) > 0 {
					c := clone()
					c[k].msgs[0] = append([]byte{o.label[len(o.label)-1]}, m0...)
					c[k].label = o.label[:len(o.label)-1]
					vs = append(vs, c)
				}
				// framing absorbed into the label: label' = label ‖ be64(count) ‖ be64(|m|) ‖ m ... , no messages
				c := clone()
				lab := append([]byte{}, o.label...)
				lab = append(lab, be64(len(o.msgs))...)
				for j, m := range o.msgs {
					if j == len(o.msgs)-1 && len(m) == 0 {
						break
					}
					lab = append(lab, be64(len(m))...)
					lab = append(lab, m...)
				}
				c[k].label = lab
				c[k].msgs = nil
				vs = append(vs, c)
				// same, but the count moved into the label and messages kept
				c = clone()
				c[k].label = append(append([]byte{}, o.label...), be64(len(o.msgs))...)
				vs = append(vs, c)
				// drop last message / add empty message
				c = clone()
				c[k].msgs = c[k].msgs[:len(o.msgs)-1]
				vs = append(vs, c)
			}
			c := clone()
			c[k].msgs = append(c[k].msgs, []byte{})
			vs = append(vs, c)
			if len(o.msgs) >= 2 {
				// merge first two messages; move boundary between them
				c := clone()
				c[k].msgs = append([][]byte{append(append([]byte{}, o.msgs[0]...), o.msgs[1]...)}, o.msgs[2:]...)
				vs = append(vs, c)
				c = clone()
				c[k].msgs[0] = append(append([]byte{}, o.msgs[0]...), be64(len(o.msgs[1]))...)
				c[k].msgs[0] = append(c[k].msgs[0], o.msgs[1]...)
				c[k].msgs = append(c[k].msgs[:1], c[k].msgs[2:]...)
				vs = append(vs, c)
				if len(o.msgs[1]) > 0 {
					c = clone()
					c[k].msgs[0] = append(c[k].msgs[0], o.msgs[1][0])
					c[k].msgs[1] = o.msgs[1][1:]
					vs = append(vs, c)
				}
			}
			// split the op in two
			if len(o.msgs) >= 2 {
				c := clone()
				a := c[k]
				b := c[k]
				a.msgs = o.msgs[:1]
				b.msgs = o.msgs[1:]
				c2 := append(append(append([]op{}, c[:k]...), a, b), c[k+1:]...)
				vs = append(vs, c2)
			}
			// App <-> Dom confusion
			c = clone()
			c[k] = op{kind: 'D', i: o.i, label: o.label}
			vs = append(vs, c)
		case 'D':
			if len(o.label) > 0 {
				c := clone()
				c[k].label = o.label[:len(o.label)-1]
				vs = append(vs, c)
			}
			// two consecutive domain separators merged: Dom(s1);Dom(s2) vs Dom(s1 ‖ tag ‖ be64|s2| ‖ s2) and Dom(s1‖s2)
			if k+1 < len(ops) && ops[k+1].kind == 'D' && ops[k+1].i == o.i {
				s2 := ops[k+1].label
				for _, mid := range [][]byte{{}, {0xa1}, append([]byte{0xa1}, be64(len(s2))...)} {
					c := clone()
					c[k].label = append(append(append([]byte{}, o.label...), mid...), s2...)
					c2 := append(append([]op{}, c[:k+1]...), c[k+2:]...)
					vs = append(vs, c2)
				}
			}
			c := clone()
			c[k] = op{kind: 'A', i: o.i, label: o.label}
			vs = append(vs, c)
		case 'E':
			if k == len(ops)-1 {
				continue
			}
			// an earlier extraction removed, its length or label changed
			c := clone()
			vs = append(vs, append(append([]op{}, c[:k]...), c[k+1:]...))
			c = clone()
			c[k].n = o.n + 1
			vs = append(vs, c)
			c = clone()
			c[k].label = append(c[k].label, be64(int(o.n))...)
			vs = append(vs, c)
			c = clone()
			c[k].label = append(c[k].label, 0)
			vs = append(vs, c)
		}
	}
	// swap two adjacent ops
	if len(ops) >= 3 {
		k := r.Intn(len(ops) - 2)
		if opsText(ops[k:k+1]) != opsText(ops[k+1:k+2]) {
			c := clone()
			c[k], c[k+1] = c[k+1], c[k]
			vs = append(vs, c)
		}
	}
	// prefix
	if len(ops) >= 2 {
		c := clone()
		vs = append(vs, append(append([]op{}, c[:len(ops)-2]...), c[len(ops)-1]))
	}
	return vs
}

// performedText normalises away refused extractions, which leave no trace by design.
func performedText(ops []op) string {
	var p []op
	for _, o := range ops {
		if o.kind == 'E' && o.n == 0 {
			continue
		}
		p = append(p, o)
	}
	return opsText(p)
}

// propTranscript evaluates the property itself on the implementation: determinism, and
// every variant changes the final output.  Returns failure descriptions with replay cases.
func propTranscript(r *vh.Rng, name []byte, ops []op) (fails []string, cases []string, checked int) {
	base := extractionOutputs(name, ops)
	again := extractionOutputs(name, ops)
	if strings.Join(base, ",") != strings.Join(again, ",") {
		fails = append(fails, "same operations gave different outputs")
		cases = append(cases, "P "+vh.Hex(name)+" "+opsText(ops)+" | "+opsText(ops))
	}
	if len(base) == 0 {
		return
	}
	final := base[len(base)-1]
	for _, v := range variants(r, ops) {
		if performedText(v) == performedText(ops) || len(v) == 0 || v[len(v)-1].kind != 'E' {
			continue
		}
		checked++
		o := extractionOutputs(name, v)
		if len(o) == 0 {
			continue
		}
		vf := o[len(o)-1]
		n := min(len(final), len(vf))
		if final[:n] == vf[:n] {
			fails = append(fails, "two different operation sequences end in the same extraction output")
			cases = append(cases, "P "+vh.Hex(name)+" "+opsText(ops)+" | "+opsText(v))
		}
	}
	// different protocol name
	o2 := extractionOutputs(append(append([]byte{}, name...), 'x'), ops)
	if len(o2) > 0 && o2[len(o2)-1] == final {
		fails = append(fails, "different protocol names give the same output")
		cases = append(cases, "N "+vh.Hex(name)+" "+opsText(ops))
	}
	return
}

// propClone: a clone taken at point k and then used does not disturb its origin, and starts
// from the origin's state.
func propClone(name []byte, ops []op, k int, extra []op) string {
	ts := hagrid.NewTranscript(string(name))
	apply := func(t transcripts.Transcript, o op) string {
		switch o.kind {
		case 'D':
			t.AppendDomainSeparator(string(o.label))
		case 'A':
			t.AppendBytes(string(o.label), o.msgs...)
		case 'E':
			b, err := t.ExtractBytes(string(o.label), uint(o.n))
			if err == nil {
				return vh.Hex(b)
			}
		}
		return "-"
	}
	ref := hagrid.NewTranscript(string(name))
	for _, o := range ops[:k] {
		apply(ts, o)
		apply(ref, o)
	}
	cl := ts.Clone()
	var clOut, refExtra string
	ref2 := hagrid.NewTranscript(string(name))
	for _, o := range ops[:k] {
		apply(ref2, o)
	}
	for _, o := range extra {
		apply(cl, o)
		apply(ref2, o)
	}
	clOut = apply(cl, op{kind: 'E', label: []byte("c"), n: 32})
	refExtra = apply(ref2, op{kind: 'E', label: []byte("c"), n: 32})
	if clOut != refExtra {
		return "clone does not behave like a transcript with the origin's history"
	}
	var a, b string
	for _, o := range ops[k:] {
		a = apply(ts, o)
		b = apply(ref, o)
		if a != b {
			return "operations on a clone changed its origin"
		}
	}
	return ""
}

// ---- expanders ----------------------------------------------------------------------------

type recHash struct {
	hash.Hash
	buf   []byte
	table *[]string
}

func (h *recHash) Write(p []byte) (int, error) { h.buf = append(h.buf, p...); return h.Hash.Write(p) }
func (h *recHash) Reset()                      { h.buf = nil; h.Hash.Reset() }
func (h *recHash) Sum(b []byte) []byte {
	out := h.Hash.Sum(nil)
	*h.table = append(*h.table, vh.Hex(h.buf)+":"+vh.Hex(out))
	return append(b, out...)
}

type recXof struct {
	h     *sha3.SHAKE
	mk    func() *sha3.SHAKE
	buf   []byte
	table *[]string
}

func (x *recXof) Write(p []byte) (int, error) { x.buf = append(x.buf, p...); return x.h.Write(p) }
func (x *recXof) Reset()                      { x.buf = nil; x.h = x.mk() }
func (x *recXof) BlockSize() int              { return x.h.BlockSize() }
func (x *recXof) Read(p []byte) (int, error) {
	n, err := x.h.Read(p)
	*x.table = append(*x.table, vh.Hex(x.buf)+":"+strconv.Itoa(len(p))+":"+vh.Hex(p[:n]))
	return n, err
}

type expCase struct {
	kind     string // "xmd-sha256", "xmd-sha512", "xof-shake128", "xof-shake256"
	dst, msg []byte
	n        int
}

func (c expCase) text() string {
	return fmt.Sprintf("%s %s %s %d", c.kind, vh.Hex(c.dst), vh.Hex(c.msg), c.n)
}

// runExpander runs the implementation with a recording hash; returns output hex ("PANIC" if it
// panicked), the model case line and the hash table.
func runExpander(c expCase) (out string, line string) {
	var table []string
	var res []byte
	var b, s, k int
	p := vh.Safely(func() {
		switch c.kind {
		case "xmd-sha256", "xmd-sha512":
			mk := sha256.New
			if c.kind == "xmd-sha512" {
				mk = sha512.New
			}
			b, s = mk().Size(), mk().BlockSize()
			e := &expanders.Xmd{HashFunc: func() hash.Hash { return &recHash{Hash: mk(), table: &table} }}
			res = e.ExpandMessage(c.dst, c.msg, uint(c.n))
		default:
			mk := sha3.NewSHAKE128
			k = 128
			if c.kind == "xof-shake256" {
				mk = sha3.NewSHAKE256
				k = 256
			}
			e := &expanders.Xof{XofHash: &recXof{h: mk(), mk: mk, table: &table}, K: uint(k)}
			res = e.ExpandMessage(c.dst, c.msg, uint(c.n))
		}
	})
	out = vh.Hex(res)
	if p != "" {
		out = "PANIC"
		if strings.HasPrefix(c.kind, "xmd") {
			mk := sha256.New
			if c.kind == "xmd-sha512" {
				mk = sha512.New
			}
			b, s = mk().Size(), mk().BlockSize()
		} else if c.kind == "xof-shake256" {
			k = 256
		} else {
			k = 128
		}
	}
	tbl := strings.Join(table, ",")
	if tbl == "" {
		tbl = "-:-"
		if !strings.HasPrefix(c.kind, "xmd") {
			tbl = "-:0:-"
		}
	}
	if strings.HasPrefix(c.kind, "xmd") {
		line = fmt.Sprintf("X 0 %d %d %s %s %d %s", b, s, vh.Hex(c.dst), vh.Hex(c.msg), c.n, tbl)
	} else {
		line = fmt.Sprintf("F 0 %d %s %s %d %s", k, vh.Hex(c.dst), vh.Hex(c.msg), c.n, tbl)
	}
	return out, line
}

// refExpand is an independent transcription of RFC 9380 §5.3 (expand_message_xmd / _xof) on Go's
// standard hashes; "PANIC" where the RFC says ABORT (or the requested length is 0 for xmd, which the
// library refuses by panicking: not a property violation, so the reference mirrors it).
func refExpand(c expCase) string {
	i2 := func(n, k int) []byte {
		b := make([]byte, k)
		for i := k - 1; i >= 0; i-- {
			b[i] = byte(n)
			n >>= 8
		}
		return b
	}
	if strings.HasPrefix(c.kind, "xmd") {
		mk := sha256.New
		if c.kind == "xmd-sha512" {
			mk = sha512.New
		}
		H := func(parts ...[]byte) []byte {
			h := mk()
			for _, p := range parts {
				h.Write(p)
			}
			return h.Sum(nil)
		}
		dst := c.dst
		if len(dst) > 255 {
			dst = H([]byte("H2C-OVERSIZE-DST-"), dst)
		}
		b, s := mk().Size(), mk().BlockSize()
		ell := (c.n + b - 1) / b
		if ell > 255 || c.n > 65535 || ell == 0 {
			return "PANIC"
		}
		dp := append(append([]byte{}, dst...), byte(len(dst)))
		b0 := H(make([]byte, s), c.msg, i2(c.n, 2), []byte{0}, dp)
		bi := H(b0, []byte{1}, dp)
		out := append([]byte{}, bi...)
		for i := 2; i <= ell; i++ {
			x := make([]byte, len(b0))
			for j := range x {
				x[j] = b0[j] ^ bi[j]
			}
			bi = H(x, []byte{byte(i)}, dp)
			out = append(out, bi...)
		}
		return vh.Hex(out[:c.n])
	}
	mk, k := sha3.NewSHAKE128, 128
	if c.kind == "xof-shake256" {
		mk, k = sha3.NewSHAKE256, 256
	}
	X := func(n int, parts ...[]byte) []byte {
		h := mk()
		for _, p := range parts {
			h.Write(p)
		}
		o := make([]byte, n)
		h.Read(o)
		return o
	}
	dst := c.dst
	if len(dst) > 255 {
		dst = X((2*k+7)/8, []byte("H2C-OVERSIZE-DST-"), dst)
	}
	if c.n > 65535 {
		return "PANIC"
	}
	return vh.Hex(X(c.n, c.msg, i2(c.n, 2), dst, []byte{byte(len(dst))}))
}

func genExp(r *vh.Rng) expCase {
	kinds := []string{"xmd-sha256", "xmd-sha512", "xof-shake128", "xof-shake256"}
	c := expCase{kind: vh.Pick(r, kinds)}
	switch r.Intn(8) {
	case 0:
		c.dst = r.Bytes(256 + r.Intn(40)) // oversize
	case 1:
		c.dst = r.Bytes(255)
	case 2:
		c.dst = nil
	default:
		c.dst = r.Bytes(1 + r.Intn(60))
	}
	c.msg = randBytes(r)
	switch r.Intn(10) {
	case 0:
		c.n = 0
	case 1:
		c.n = 1
	case 2:
		c.n = 32 * (1 + r.Intn(8))
	case 3:
		c.n = 65535
		if strings.HasPrefix(c.kind, "xmd") {
			c.n = 255 * 32 // at the ell limit for sha256
		}
	case 4:
		c.n = 65536 + r.Intn(10) // must be refused
	case 5:
		c.n = 255*32 + 1 + r.Intn(100) // beyond the ell limit for sha256
	default:
		c.n = 1 + r.Intn(300)
	}
	return c
}

// ---- hash to curve ---------------------------------------------------------------------------

type h2cSuite struct {
	name   string
	file   string
	hash   func(dst string, msg []byte) (x, y string, inSubgroup bool, err error)
	hasVec bool
}

func be(b []byte) string { return new(big.Int).SetBytes(b).Text(16) }

func suites() []h2cSuite {
	return []h2cSuite{
		{name: "k256", file: "secp256k1_xmd_sha256_sswu_ro.json", hasVec: true, hash: func(dst string, msg []byte) (string, string, bool, error) {
			c := k256.NewCurve()
			p, err := c.HashWithDst(dst, msg)
			if err != nil {
				return "", "", false, err
			}
			x, _ := p.AffineX()
			y, _ := p.AffineY()
			ord := new(big.Int).SetBytes(c.Order().Bytes())
			s, _ := k256.NewScalarField().FromBytesBE(ord.Sub(ord, big.NewInt(1)).Bytes())
			return be(x.Bytes()), be(y.Bytes()), p.ScalarMul(s).Add(p).IsZero() && !p.IsZero(), nil
		}},
		{name: "p256", file: "p256_xmd_sha256_sswu_ro.json", hasVec: true, hash: func(dst string, msg []byte) (string, string, bool, error) {
			c := p256.NewCurve()
			p, err := c.HashWithDst(dst, msg)
			if err != nil {
				return "", "", false, err
			}
			x, _ := p.AffineX()
			y, _ := p.AffineY()
			ord := new(big.Int).SetBytes(c.Order().Bytes())
			s, _ := p256.NewScalarField().FromBytesBE(ord.Sub(ord, big.NewInt(1)).Bytes())
			return be(x.Bytes()), be(y.Bytes()), p.ScalarMul(s).Add(p).IsZero() && !p.IsZero(), nil
		}},
		{name: "edwards25519", file: "edwards25519_xmd_sha512_ell2_ro.json", hasVec: true, hash: func(dst string, msg []byte) (string, string, bool, error) {
			c := edwards25519.NewPrimeSubGroup()
			p, err := c.HashWithDst(dst, msg)
			if err != nil {
				return "", "", false, err
			}
			x, _ := p.AffineX()
			y, _ := p.AffineY()
			ord := new(big.Int).SetBytes(c.Order().Bytes())
			s, _ := edwards25519.NewScalarField().FromBytesBE(ord.Sub(ord, big.NewInt(1)).Bytes())
			return be(x.Bytes()), be(y.Bytes()), p.ScalarMul(s).Add(p).IsZero() && !p.IsZero(), nil
		}},
		{name: "bls12381g1", file: "bls12381g1_xmd_sha256_sswu_ro.json", hasVec: true, hash: func(dst string, msg []byte) (string, string, bool, error) {
			_ = bls12381.NewScalarField() // G1.Order() dereferences a modulus that only NewScalarField initialises
			c := bls12381.NewG1()
			p, err := c.HashWithDst(dst, msg)
			if err != nil {
				return "", "", false, err
			}
			x, _ := p.AffineX()
			y, _ := p.AffineY()
			ord := new(big.Int).SetBytes(c.Order().Bytes())
			s, _ := bls12381.NewScalarField().FromBytesBE(ord.Sub(ord, big.NewInt(1)).Bytes())
			return be(x.Bytes()), be(y.Bytes()), p.ScalarMul(s).Add(p).IsZero() && !p.IsZero(), nil
		}},
	}
}

// further suites without RFC vectors in the simple format (G2's vectors are compared in h2cmodel.go)
func moreSuites() []h2cSuite {
	return []h2cSuite{
		{name: "bls12381g2", hash: func(dst string, msg []byte) (string, string, bool, error) {
			_ = bls12381.NewScalarField()
			c := bls12381.NewG2()
			p, err := c.HashWithDst(dst, msg)
			if err != nil {
				return "", "", false, err
			}
			x, _ := p.AffineX()
			y, _ := p.AffineY()
			ord := new(big.Int).SetBytes(c.Order().Bytes())
			s, _ := bls12381.NewScalarField().FromBytesBE(ord.Sub(ord, big.NewInt(1)).Bytes())
			return vh.Hex(x.Bytes()), vh.Hex(y.Bytes()), p.ScalarMul(s).Add(p).IsZero() && !p.IsZero(), nil
		}},
		{name: "pallas", hash: func(dst string, msg []byte) (string, string, bool, error) {
			c := pasta.NewPallasCurve()
			p, err := c.HashWithDst(dst, msg)
			if err != nil {
				return "", "", false, err
			}
			x, _ := p.AffineX()
			y, _ := p.AffineY()
			ord := new(big.Int).SetBytes(c.Order().Bytes())
			s, _ := pasta.NewPallasScalarField().FromBytesBE(ord.Sub(ord, big.NewInt(1)).Bytes())
			return be(x.Bytes()), be(y.Bytes()), p.ScalarMul(s).Add(p).IsZero() && !p.IsZero(), nil
		}},
		{name: "vesta", hash: func(dst string, msg []byte) (string, string, bool, error) {
			c := pasta.NewVestaCurve()
			p, err := c.HashWithDst(dst, msg)
			if err != nil {
				return "", "", false, err
			}
			x, _ := p.AffineX()
			y, _ := p.AffineY()
			ord := new(big.Int).SetBytes(c.Order().Bytes())
			s, _ := pasta.NewVestaScalarField().FromBytesBE(ord.Sub(ord, big.NewInt(1)).Bytes())
			return be(x.Bytes()), be(y.Bytes()), p.ScalarMul(s).Add(p).IsZero() && !p.IsZero(), nil
		}},
	}
}

type vecFile struct {
	Dst     string `json:"dst"`
	Vectors []struct {
		Msg string `json:"msg"`
		P   struct {
			X string `json:"x"`
			Y string `json:"y"`
		} `json:"p"`
	} `json:"vectors"`
}

func normHex(s string) string {
	s = strings.TrimPrefix(strings.ToLower(s), "0x")
	b, err := hex.DecodeString(s)
	if err != nil {
		if x, ok := new(big.Int).SetString(s, 16); ok {
			return x.Text(16)
		}
		return s
	}
	return be(b)
}

// ---- main -----------------------------------------------------------------------------------

func main() {
	a := vh.ParseArgs()
	res := vh.NewResult("C19", a.Seed, a.Tier)
	res.Rule = "transcript: random multi-transcript command lists (labels/messages from a framing-hostile alphabet incl. tag bytes and 8-byte counters, clones, refused extractions), every case ends in an extraction; non-trivial = at least one performed extraction; distinct by canonical command text. expander: random (kind,DST,msg,len) incl. oversize DST and refused lengths. h2c: RFC 9380 RO vectors + random (dst,msg) per curve"
	corpusDir := filepath.Join(filepath.Dir(os.Args[0]), "..", "..", "corpus")
	if env := os.Getenv("VERIF_ROOT"); env != "" {
		corpusDir = filepath.Join(env, "corpus")
	}

	if a.Replay != "" {
		replay(a, res)
		res.Write(a.Out)
		return
	}

	nT, nP, nX, nH := 400, 150, 300, 40
	if a.Tier == "thorough" {
		nT, nP, nX, nH = 6000, 3000, 4000, 1500
	}
	if a.Search {
		nT, nP, nX, nH = 0, 4000, 0, 200
	}

	// 1. transcripts: model correspondence
	var lines []string
	type tc struct {
		name []byte
		ops  []op
	}
	var tcs []tc
	for i := 0; i < nT; i++ {
		r := vh.NewRng(a.Seed, "C19", "transcript", i)
		c := tc{name: randBytes(r), ops: genOps(r, 12, true)}
		if a.Tier == "thorough" && i%50 == 0 {
			c.ops = genOps(r, 200, true)
		}
		tcs = append(tcs, c)
		lines = append(lines, fmt.Sprintf("T %d %s %s", i, vh.Hex(c.name), opsText(c.ops)))
	}
	if len(lines) > 0 {
		out, err := vh.Driver(a.Driver, lines)
		if err != nil {
			fmt.Fprintln(os.Stderr, err)
			os.Exit(3)
		}
		for i, c := range tcs {
			canon := "T " + vh.Hex(c.name) + " " + opsText(c.ops)
			res.Count("transcript", canon, true)
			if d := cmpTranscript(out[i], c.name, c.ops); d != "" {
				pf, pcases, _ := propTranscript(vh.NewRng(a.Seed, "C19", "prop", i), c.name, firstTranscriptOnly(c.ops))
				m := vh.Mismatch{ID: fmt.Sprintf("T%d", i), Kind: "corr", Key: "transcript-stream", Detail: d, Case: canon, What: "correspondence hagrid output = cSHAKE256(model stream) [model/Transcript.v step/crun]"}
				if len(pf) > 0 {
					m.PropFail = true
					m.Detail += " ; property: " + pf[0] + " on " + pcases[0]
				}
				res.Mismatch(m)
			}
		}
	}

	// 2. transcripts: the property itself on the implementation
	for i := 0; i < nP; i++ {
		r := vh.NewRng(a.Seed, "C19", "prop", i)
		name := randBytes(r)
		ops := genOps(r, 8, false)
		fails, cases, checked := propTranscript(r, name, ops)
		res.Count("transcript-variants", "P "+vh.Hex(name)+" "+opsText(ops), checked > 0)
		res.Distribution["variant-pairs"] += checked
		for j, f := range fails {
			res.Mismatch(vh.Mismatch{ID: fmt.Sprintf("P%d.%d", i, j), Kind: "prop", Key: "transcript-collision", Detail: f, Case: cases[j], PropFail: true, What: "C19_outputs_equal_iff"})
		}
		k := r.Intn(len(ops))
		if d := propClone(name, ops, k, genOps(r, 4, false)); d != "" {
			res.Mismatch(vh.Mismatch{ID: fmt.Sprintf("K%d", i), Kind: "prop", Key: "transcript-clone", Detail: d, Case: fmt.Sprintf("K %s %d %s", vh.Hex(name), k, opsText(ops)), PropFail: true, What: "C19_clone_independent"})
		}
	}

	// 3. expanders with a recording hash against the model
	var xl []string
	var xc []expCase
	var xo []string
	for i := 0; i < nX; i++ {
		r := vh.NewRng(a.Seed, "C19", "expander", i)
		c := genExp(r)
		out, line := runExpander(c)
		xc, xo, xl = append(xc, c), append(xo, out), append(xl, line)
	}
	if len(xl) > 0 {
		mo, err := vh.Driver(a.Driver, xl)
		if err != nil {
			fmt.Fprintln(os.Stderr, err)
			os.Exit(3)
		}
		for i, c := range xc {
			res.Count("expander-"+c.kind, c.text(), xo[i] != "PANIC")
			got := strings.SplitN(mo[i], " ", 3)[2]
			// the property's own predicate on the implementation: agreement with RFC 9380 section 5.3
			// (independent transcription on Go's standard hashes)
			if ref := refExpand(c); ref != xo[i] {
				res.Mismatch(vh.Mismatch{ID: fmt.Sprintf("XR%d", i), Kind: "prop", Key: "expander-rfc-" + c.kind, Detail: fmt.Sprintf("implementation %s RFC 9380 expand_message (harness transcription, Go stdlib hashes) %s", trunc(xo[i]), trunc(ref)), Case: "X " + c.text(), PropFail: true, What: "RFC 9380 expand_message agreement (C19_generated_expanders_are_rfc9380 + skeleton)"})
			}
			if got != xo[i] {
				ref := refExpand(c)
				res.Mismatch(vh.Mismatch{ID: fmt.Sprintf("X%d", i), Kind: "corr", Key: "expander", Detail: fmt.Sprintf("implementation %s model %s RFC-9380 reference (harness, Go stdlib hashes) %s", trunc(xo[i]), trunc(got), trunc(ref)), Case: "X " + c.text(), PropFail: ref != xo[i], What: "correspondence expand_message (model/H2c.v) with recorded hash table"})
			}
		}
	}
	// expander test vectors of RFC 9380 (copies under corpus/rfc9380): the property's own predicate
	for _, ev := range []struct{ file, kind string }{
		{"xmd_sha256.json", "xmd-sha256"}, {"xmd_sha256_long_dst.json", "xmd-sha256"}, {"xmd_sha512.json", "xmd-sha512"},
		{"xof_shake128.json", "xof-shake128"}, {"xof_shake128_long_dst.json", "xof-shake128"}, {"xof_shake256.json", "xof-shake256"}} {
		var f struct {
			Dst   string `json:"dst"`
			Cases []struct {
				Msg string `json:"msg"`
				Len int    `json:"len_in_bytes"`
				Out string `json:"uniform_bytes"`
			} `json:"cases"`
		}
		b, err := os.ReadFile(filepath.Join(corpusDir, "rfc9380", ev.file))
		if err != nil || json.Unmarshal(b, &f) != nil || a.Search {
			continue
		}
		for ci, c := range f.Cases {
			ec := expCase{kind: ev.kind, dst: []byte(f.Dst), msg: []byte(c.Msg), n: c.Len}
			out, _ := runExpander(ec)
			res.Count("expander-vector-"+ev.kind, ec.text(), true)
			if out != strings.ToLower(c.Out) {
				res.Mismatch(vh.Mismatch{ID: fmt.Sprintf("XV-%s-%d", ev.file, ci), Kind: "prop", Key: "expander-vector-" + ev.kind, Detail: "RFC 9380 expander vector: got " + trunc(out) + " want " + trunc(c.Out), Case: "X " + ec.text(), PropFail: true, What: "RFC 9380 expand_message agreement"})
			}
		}
	}

	// 4. hash to curve: RFC vectors, determinism, DST dependence, subgroup
	for _, s0 := range append(suites(), moreSuites()...) {
		s := s0
		// never panic out of the harness: a panic of the implementation is an observable (an error)
		rawHash := s0.hash
		s.hash = func(dst string, msg []byte) (x, y string, sub bool, err error) {
			if p := vh.Safely(func() { x, y, sub, err = rawHash(dst, msg) }); p != "" {
				return "", "", false, fmt.Errorf("panic: %s", trunc(p))
			}
			return x, y, sub, err
		}
		var vf vecFile
		if b, err := os.ReadFile(filepath.Join(corpusDir, "rfc9380", s.file)); s.hasVec && err == nil && json.Unmarshal(b, &vf) == nil {
			for vi, v := range vf.Vectors {
				x, y, sub, err := s.hash(vf.Dst, []byte(v.Msg))
				res.Count("h2c-vector-"+s.name, s.name+" "+vf.Dst+" "+v.Msg, true)
				if err != nil || x != normHex(v.P.X) || y != normHex(v.P.Y) || !sub {
					res.Mismatch(vh.Mismatch{ID: fmt.Sprintf("V-%s-%d", s.name, vi), Kind: "prop", Key: "h2c-vector-" + s.name, Detail: fmt.Sprintf("RFC 9380 vector: got (%s,%s) subgroup=%v err=%v want (%s,%s)", x, y, sub, err, normHex(v.P.X), normHex(v.P.Y)), Case: fmt.Sprintf("H %s %s %s", s.name, vh.Hex([]byte(vf.Dst)), vh.Hex([]byte(v.Msg))), PropFail: true, What: "RFC 9380 suite agreement"})
				}
			}
		} else if s.hasVec {
			res.Note("vectors for %s not loaded: %v", s.name, err)
		}
		for i := 0; i < nH; i++ {
			r := vh.NewRng(a.Seed, "C19", "h2c-"+s.name, i)
			dst := "VERIF-" + hex.EncodeToString(r.Bytes(1+r.Intn(20)))
			msg := randBytes(r)
			x1, y1, sub, err := s.hash(dst, msg)
			x2, y2, _, _ := s.hash(dst, msg)
			x3, y3, _, _ := s.hash(dst+"x", msg)
			res.Count("h2c-"+s.name, s.name+" "+dst+" "+vh.Hex(msg), true)
			var d string
			switch {
			case err != nil:
				d = "error " + err.Error()
			case x1 != x2 || y1 != y2:
				d = "not deterministic"
			case x1 == x3 && y1 == y3:
				d = "independent of the DST"
			case !sub:
				d = "result not in the prime-order subgroup (or identity)"
			}
			if d != "" {
				res.Mismatch(vh.Mismatch{ID: fmt.Sprintf("H-%s-%d", s.name, i), Kind: "prop", Key: "h2c-" + s.name, Detail: d, Case: fmt.Sprintf("H %s %s %s", s.name, vh.Hex([]byte(dst)), vh.Hex(msg)), PropFail: true, What: "hash-to-curve determinism/DST/subgroup"})
			}
		}
	}
	// 5. executable model of hash_to_field / hash_to_curve (k256, p256, BLS12-381 G1)
	nM := 12
	if a.Tier == "thorough" {
		nM = 400
	}
	if a.Search {
		nM = 60
	}
	runH2cModel(a, res, corpusDir, nM)
	res.Write(a.Out)
}

func trunc(s string) string {
	if len(s) > 80 {
		return s[:80] + "…"
	}
	return s
}

func firstTranscriptOnly(ops []op) []op {
	var r []op
	for _, o := range ops {
		if o.i == 0 && o.kind != 'K' {
			r = append(r, o)
		}
	}
	return r
}

func replay(a vh.Args, res *vh.Result) {
	b, err := os.ReadFile(a.Replay)
	if err != nil {
		panic(err)
	}
	for _, line := range strings.Split(string(b), "\n") {
		if !strings.HasPrefix(line, "case: ") {
			continue
		}
		c := strings.TrimPrefix(line, "case: ")
		f := strings.SplitN(c, " ", 3)
		switch f[0] {
		case "T":
			ops := parseOps(f[2])
			d, err := checkTranscript(a.Driver, vh.UnHex(f[1]), ops)
			res.Count("replay", c, true)
			if err != nil {
				d = err.Error()
			}
			if d != "" {
				res.Mismatch(vh.Mismatch{ID: "replay", Kind: "corr", Key: "transcript-stream", Detail: d, Case: c})
			}
		case "P":
			parts := strings.Split(f[2], " | ")
			o1 := extractionOutputs(vh.UnHex(f[1]), parseOps(parts[0]))
			o2 := extractionOutputs(vh.UnHex(f[1]), parseOps(parts[1]))
			res.Count("replay", c, true)
			same := len(o1) > 0 && len(o2) > 0 && o1[len(o1)-1] == o2[len(o2)-1]
			if same != (performedText(parseOps(parts[0])) == performedText(parseOps(parts[1]))) {
				res.Mismatch(vh.Mismatch{ID: "replay", Kind: "prop", Key: "transcript-collision", Detail: "outputs equal for different operation sequences (or differ for equal ones)", Case: c, PropFail: true})
			}
		default:
			res.Note("replay of case kind %s: re-run the check with the same seed", f[0])
			res.Count("replay", c, true)
		}
	}
}
