// h2cmodel.go — correspondence of the executable hash_to_field / hash_to_curve model
// (coq/model/H2c.v, H2cMap.v over gen/Expanders.v, gen/Mappers.v) with the implementation, and the
// intermediate values (u, Q0, Q1, P) of the RFC 9380 vectors.
package main

import (
	"crypto/sha256"
	"crypto/sha512"
	"encoding/hex"
	"encoding/json"
	"fmt"
	"hash"
	"math/big"
	"os"
	"path/filepath"
	"slices"
	"strings"

	"github.com/bronlabs/bron-crypto/pkg/base"
	"github.com/bronlabs/bron-crypto/pkg/base/curves/edwards25519"
	edwards25519Impl "github.com/bronlabs/bron-crypto/pkg/base/curves/edwards25519/impl"
	h2c "github.com/bronlabs/bron-crypto/pkg/base/curves/impl/rfc9380"
	"github.com/bronlabs/bron-crypto/pkg/base/curves/impl/rfc9380/expanders"
	"github.com/bronlabs/bron-crypto/pkg/base/curves/k256"
	k256Impl "github.com/bronlabs/bron-crypto/pkg/base/curves/k256/impl"
	"github.com/bronlabs/bron-crypto/pkg/base/curves/p256"
	p256Impl "github.com/bronlabs/bron-crypto/pkg/base/curves/p256/impl"
	"github.com/bronlabs/bron-crypto/pkg/base/curves/pairable/bls12381"
	"github.com/bronlabs/bron-crypto/pkg/base/curves/pasta"
	pastaImpl "github.com/bronlabs/bron-crypto/pkg/base/curves/pasta/impl"
	"golang.org/x/crypto/blake2b"
	bls12381Impl "github.com/bronlabs/bron-crypto/pkg/base/curves/pairable/bls12381/impl"

	"verif/harness/internal/vh"
)

func leHex(b []byte) string {
	c := slices.Clone(b)
	slices.Reverse(c)
	return new(big.Int).SetBytes(c).Text(16)
}

// modelSuite describes how to drive the implementation of one short-Weierstrass suite.
type modelSuite struct {
	name    string
	file    string
	mk      func() hash.Hash
	m       int // extension degree (0 = 1)
	l       func() uint64
	h2fBase func(dst string, msg []byte, count int) []string // HashToField into the base field
	h2fSc   func(dst string, msg []byte, count int) []string // HashToField into the scalar field
	point   func(dst string, msg []byte) (string, error)     // HashWithDst, "x,y" | "inf"
	// public single-element hashes with the library's own DSTs
	baseHash   func(msg []byte) (string, error)
	scalarHash func(msg []byte) (string, error)
	baseDst    string
	scalarDst  string
}

func affineText(x, y interface{ Bytes() []byte }, zero bool) string {
	if zero {
		return "inf"
	}
	return be(x.Bytes()) + "," + be(y.Bytes())
}

func modelSuites() []modelSuite {
	return []modelSuite{
		{
			name: "k256", file: "secp256k1_xmd_sha256_sswu_ro.json", mk: sha256.New,
			l: func() uint64 { return k256Impl.CurveHasherParams{}.L() },
			h2fBase: func(dst string, msg []byte, count int) []string {
				u := make([]k256Impl.Fp, count)
				h2c.HashToField[*k256Impl.Fp](u, k256Impl.CurveHasherParams{}, dst, msg)
				var out []string
				for i := range u {
					out = append(out, leHex(u[i].Bytes()))
				}
				return out
			},
			h2fSc: func(dst string, msg []byte, count int) []string {
				u := make([]k256Impl.Fq, count)
				h2c.HashToField[*k256Impl.Fq](u, k256Impl.CurveHasherParams{}, dst, msg)
				var out []string
				for i := range u {
					out = append(out, leHex(u[i].Bytes()))
				}
				return out
			},
			point: func(dst string, msg []byte) (string, error) {
				p, err := k256.NewCurve().HashWithDst(dst, msg)
				if err != nil {
					return "", err
				}
				if p.IsZero() {
					return "inf", nil
				}
				x, _ := p.AffineX()
				y, _ := p.AffineY()
				return be(x.Bytes()) + "," + be(y.Bytes()), nil
			},
			baseHash: func(msg []byte) (string, error) {
				e, err := k256.NewBaseField().Hash(msg)
				if err != nil {
					return "", err
				}
				return be(e.Bytes()), nil
			},
			scalarHash: func(msg []byte) (string, error) {
				e, err := k256.NewScalarField().Hash(msg)
				if err != nil {
					return "", err
				}
				return be(e.Bytes()), nil
			},
			baseDst: base.Hash2CurveAppTag + k256.Hash2CurveSuite, scalarDst: base.Hash2CurveAppTag + k256.Hash2CurveScalarSuite,
		},
		{
			name: "p256", file: "p256_xmd_sha256_sswu_ro.json", mk: sha256.New,
			l: func() uint64 { return p256Impl.CurveHasherParams{}.L() },
			h2fBase: func(dst string, msg []byte, count int) []string {
				u := make([]p256Impl.Fp, count)
				h2c.HashToField[*p256Impl.Fp](u, p256Impl.CurveHasherParams{}, dst, msg)
				var out []string
				for i := range u {
					out = append(out, leHex(u[i].Bytes()))
				}
				return out
			},
			h2fSc: func(dst string, msg []byte, count int) []string {
				u := make([]p256Impl.Fq, count)
				h2c.HashToField[*p256Impl.Fq](u, p256Impl.CurveHasherParams{}, dst, msg)
				var out []string
				for i := range u {
					out = append(out, leHex(u[i].Bytes()))
				}
				return out
			},
			point: func(dst string, msg []byte) (string, error) {
				p, err := p256.NewCurve().HashWithDst(dst, msg)
				if err != nil {
					return "", err
				}
				if p.IsZero() {
					return "inf", nil
				}
				x, _ := p.AffineX()
				y, _ := p.AffineY()
				return be(x.Bytes()) + "," + be(y.Bytes()), nil
			},
			baseHash: func(msg []byte) (string, error) {
				e, err := p256.NewBaseField().Hash(msg)
				if err != nil {
					return "", err
				}
				return be(e.Bytes()), nil
			},
			scalarHash: func(msg []byte) (string, error) {
				e, err := p256.NewScalarField().Hash(msg)
				if err != nil {
					return "", err
				}
				return be(e.Bytes()), nil
			},
			baseDst: base.Hash2CurveAppTag + p256.Hash2CurveSuite, scalarDst: base.Hash2CurveAppTag + p256.Hash2CurveScalarSuite,
		},
		{
			name: "bls12381g1", file: "bls12381g1_xmd_sha256_sswu_ro.json", mk: sha256.New,
			l: func() uint64 { return bls12381Impl.G1CurveHasherParams{}.L() },
			h2fBase: func(dst string, msg []byte, count int) []string {
				u := make([]bls12381Impl.Fp, count)
				h2c.HashToField[*bls12381Impl.Fp](u, bls12381Impl.G1CurveHasherParams{}, dst, msg)
				var out []string
				for i := range u {
					out = append(out, leHex(u[i].Bytes()))
				}
				return out
			},
			h2fSc: func(dst string, msg []byte, count int) []string {
				u := make([]bls12381Impl.Fq, count)
				h2c.HashToField[*bls12381Impl.Fq](u, bls12381Impl.G1CurveHasherParams{}, dst, msg)
				var out []string
				for i := range u {
					out = append(out, leHex(u[i].Bytes()))
				}
				return out
			},
			point: func(dst string, msg []byte) (string, error) {
				_ = bls12381.NewScalarField()
				p, err := bls12381.NewG1().HashWithDst(dst, msg)
				if err != nil {
					return "", err
				}
				if p.IsZero() {
					return "inf", nil
				}
				x, _ := p.AffineX()
				y, _ := p.AffineY()
				return be(x.Bytes()) + "," + be(y.Bytes()), nil
			},
			baseHash: func(msg []byte) (string, error) {
				e, err := bls12381.NewG1BaseField().Hash(msg)
				if err != nil {
					return "", err
				}
				return be(e.Bytes()), nil
			},
			scalarHash: func(msg []byte) (string, error) {
				e, err := bls12381.NewScalarField().Hash(msg)
				if err != nil {
					return "", err
				}
				return be(e.Bytes()), nil
			},
			baseDst: base.Hash2CurveAppTag + bls12381.Hash2CurveSuiteG1, scalarDst: base.Hash2CurveAppTag + bls12381.Hash2CurveScalarSuite,
		},
		{
			name: "bls12381g2", file: "bls12381g2_xmd_sha256_sswu_ro.json", mk: sha256.New, m: 2,
			l: func() uint64 { return bls12381Impl.G2CurveHasherParams{}.L() },
			h2fBase: func(dst string, msg []byte, count int) []string {
				u := make([]bls12381Impl.Fp2, count)
				h2c.HashToField[*bls12381Impl.Fp2](u, bls12381Impl.G2CurveHasherParams{}, dst, msg)
				var out []string
				for i := range u {
					out = append(out, leHex(u[i].U0.Bytes())+":"+leHex(u[i].U1.Bytes()))
				}
				return out
			},
			point: func(dst string, msg []byte) (string, error) {
				_ = bls12381.NewScalarField()
				p, err := bls12381.NewG2().HashWithDst(dst, msg)
				if err != nil {
					return "", err
				}
				if p.IsZero() {
					return "inf", nil
				}
				x, _ := p.AffineX()
				y, _ := p.AffineY()
				return leHex(x.V.U0.Bytes()) + ":" + leHex(x.V.U1.Bytes()) + "," + leHex(y.V.U0.Bytes()) + ":" + leHex(y.V.U1.Bytes()), nil
			},
			baseHash: func(msg []byte) (string, error) {
				e, err := bls12381.NewG2BaseField().Hash(msg)
				if err != nil {
					return "", err
				}
				return leHex(e.V.U0.Bytes()) + ":" + leHex(e.V.U1.Bytes()), nil
			},
			baseDst: base.Hash2CurveAppTag + bls12381.Hash2CurveSuiteG2,
		},
		{
			name: "pallas", mk: func() hash.Hash { h, _ := blake2b.New512(nil); return h },
			l: func() uint64 { return pastaImpl.PallasCurveHasherParams{}.L() },
			h2fBase: func(dst string, msg []byte, count int) []string {
				u := make([]pastaImpl.Fp, count)
				h2c.HashToField[*pastaImpl.Fp](u, pastaImpl.PallasCurveHasherParams{}, dst, msg)
				var out []string
				for i := range u {
					out = append(out, leHex(u[i].Bytes()))
				}
				return out
			},
			h2fSc: func(dst string, msg []byte, count int) []string {
				u := make([]pastaImpl.Fq, count)
				h2c.HashToField[*pastaImpl.Fq](u, pastaImpl.PallasCurveHasherParams{}, dst, msg)
				var out []string
				for i := range u {
					out = append(out, leHex(u[i].Bytes()))
				}
				return out
			},
			point: func(dst string, msg []byte) (string, error) {
				p, err := pasta.NewPallasCurve().HashWithDst(dst, msg)
				if err != nil {
					return "", err
				}
				if p.IsZero() {
					return "inf", nil
				}
				x, _ := p.AffineX()
				y, _ := p.AffineY()
				return be(x.Bytes()) + "," + be(y.Bytes()), nil
			},
			baseHash: func(msg []byte) (string, error) {
				e, err := pasta.NewPallasBaseField().Hash(msg)
				if err != nil {
					return "", err
				}
				return be(e.Bytes()), nil
			},
			baseDst: base.Hash2CurveAppTag + pasta.PallasHash2CurveSuite,
		},
		{
			name: "vesta", mk: func() hash.Hash { h, _ := blake2b.New512(nil); return h },
			l: func() uint64 { return pastaImpl.VestaCurveHasherParams{}.L() },
			h2fBase: func(dst string, msg []byte, count int) []string {
				u := make([]pastaImpl.Fq, count)
				h2c.HashToField[*pastaImpl.Fq](u, pastaImpl.VestaCurveHasherParams{}, dst, msg)
				var out []string
				for i := range u {
					out = append(out, leHex(u[i].Bytes()))
				}
				return out
			},
			h2fSc: func(dst string, msg []byte, count int) []string {
				u := make([]pastaImpl.Fp, count)
				h2c.HashToField[*pastaImpl.Fp](u, pastaImpl.VestaCurveHasherParams{}, dst, msg)
				var out []string
				for i := range u {
					out = append(out, leHex(u[i].Bytes()))
				}
				return out
			},
			point: func(dst string, msg []byte) (string, error) {
				p, err := pasta.NewVestaCurve().HashWithDst(dst, msg)
				if err != nil {
					return "", err
				}
				if p.IsZero() {
					return "inf", nil
				}
				x, _ := p.AffineX()
				y, _ := p.AffineY()
				return be(x.Bytes()) + "," + be(y.Bytes()), nil
			},
			baseHash: func(msg []byte) (string, error) {
				e, err := pasta.NewVestaBaseField().Hash(msg)
				if err != nil {
					return "", err
				}
				return be(e.Bytes()), nil
			},
			baseDst: base.Hash2CurveAppTag + pasta.VestaHash2CurveSuite,
		},
		{
			name: "edwards25519", file: "edwards25519_xmd_sha512_ell2_ro.json", mk: sha512.New,
			l: func() uint64 { return edwards25519Impl.CurveHasherParams{}.L() },
			h2fBase: func(dst string, msg []byte, count int) []string {
				u := make([]edwards25519Impl.Fp, count)
				h2c.HashToField[*edwards25519Impl.Fp](u, edwards25519Impl.CurveHasherParams{}, dst, msg)
				var out []string
				for i := range u {
					out = append(out, leHex(u[i].Bytes()))
				}
				return out
			},
			h2fSc: func(dst string, msg []byte, count int) []string {
				u := make([]edwards25519Impl.Fq, count)
				h2c.HashToField[*edwards25519Impl.Fq](u, edwards25519Impl.CurveHasherParams{}, dst, msg)
				var out []string
				for i := range u {
					out = append(out, leHex(u[i].Bytes()))
				}
				return out
			},
			point: func(dst string, msg []byte) (string, error) {
				p, err := edwards25519.NewCurve().HashWithDst(dst, msg)
				if err != nil {
					return "", err
				}
				x, _ := p.AffineX()
				y, _ := p.AffineY()
				return be(x.Bytes()) + "," + be(y.Bytes()), nil
			},
			baseHash: func(msg []byte) (string, error) {
				e, err := edwards25519.NewBaseField().Hash(msg)
				if err != nil {
					return "", err
				}
				return be(e.Bytes()), nil
			},
			scalarHash: func(msg []byte) (string, error) {
				e, err := edwards25519.NewScalarField().Hash(msg)
				if err != nil {
					return "", err
				}
				return be(e.Bytes()), nil
			},
			baseDst: base.Hash2CurveAppTag + edwards25519.Hash2CurveSuite, scalarDst: base.Hash2CurveAppTag + edwards25519.Hash2CurveScalarSuite,
		},
	}
}

// xmdTable runs the library's XMD expander on Go's hash with a recording wrapper: every entry is a
// genuine (input, digest) pair of the standard-library hash; the model looks its own inputs up and
// reports MISS for an input that was never hashed.
func xmdTable(mk func() hash.Hash, dst, msg []byte, n int) (tbl string, b, s int) {
	var table []string
	b, s = mk().Size(), mk().BlockSize()
	_ = vh.Safely(func() {
		e := &expanders.Xmd{HashFunc: func() hash.Hash { return &recHash{Hash: mk(), table: &table} }}
		e.ExpandMessage(dst, msg, uint(n))
	})
	// add the entries an independent RFC 9380 transcription would ask for, so that a model that
	// follows a mutated framing is still answered where it agrees with the RFC
	refXmdTable(mk, dst, msg, n, &table)
	tbl = strings.Join(table, ",")
	if tbl == "" {
		tbl = "-:-"
	}
	return tbl, b, s
}

func refXmdTable(mk func() hash.Hash, dst, msg []byte, n int, table *[]string) {
	H := func(parts ...[]byte) []byte {
		h := mk()
		var in []byte
		for _, p := range parts {
			h.Write(p)
			in = append(in, p...)
		}
		out := h.Sum(nil)
		*table = append(*table, vh.Hex(in)+":"+vh.Hex(out))
		return out
	}
	if len(dst) > 255 {
		dst = H([]byte("H2C-OVERSIZE-DST-"), dst)
	}
	b, s := mk().Size(), mk().BlockSize()
	ell := (n + b - 1) / b
	if ell > 255 || n > 65535 || ell == 0 {
		return
	}
	dp := append(append([]byte{}, dst...), byte(len(dst)))
	b0 := H(make([]byte, s), msg, []byte{byte(n >> 8), byte(n)}, []byte{0}, dp)
	bi := H(b0, []byte{1}, dp)
	for i := 2; i <= ell; i++ {
		x := make([]byte, len(b0))
		for j := range x {
			x[j] = b0[j] ^ bi[j]
		}
		bi = H(x, []byte{byte(i)}, dp)
	}
}

// fieldText renders a vector's field element: "hex" for F_p, ["c0","c1"] for F_p^2 -> "c0:c1"
func fieldText(raw json.RawMessage) string {
	var one string
	if json.Unmarshal(raw, &one) == nil {
		return normHex(one)
	}
	var two []string
	if json.Unmarshal(raw, &two) == nil && len(two) == 2 {
		return normHex(two[0]) + ":" + normHex(two[1])
	}
	return string(raw)
}

type vecFileFull struct {
	Dst     string `json:"dst"`
	Vectors []struct {
		Msg string `json:"msg"`
		P   struct {
			X json.RawMessage `json:"x"`
			Y json.RawMessage `json:"y"`
		} `json:"p"`
		U []json.RawMessage `json:"u"`
		Q []struct {
			X json.RawMessage `json:"x"`
			Y json.RawMessage `json:"y"`
		} `json:"q"`
	} `json:"vectors"`
}

type hcCase struct {
	suite    *modelSuite
	dst      string
	msg      []byte
	id       string
	vecU     []string // expected u (RFC vector), nil for random cases
	vecQ     []string
	vecP     string
	implU    []string
	implP    string
	implErr  string
	caseText string
}

// runH2cModel: section 5 of the harness.  nRandom random (dst,msg) per suite + all RFC vectors.
func runH2cModel(a vh.Args, res *vh.Result, corpusDir string, nRandom int) {
	suites := modelSuites()
	var lines []string
	var cases []*hcCase
	type hfCase struct {
		suite  *modelSuite
		scalar bool
		count  int
		dst    string
		msg    []byte
		impl   []string
		what   string
	}
	var hfLines []string
	var hfCases []*hfCase
	add := func(s *modelSuite, dst string, msg []byte, id string) *hcCase {
		c := &hcCase{suite: s, dst: dst, msg: msg, id: id}
		c.caseText = fmt.Sprintf("H %s %s %s", s.name, vh.Hex([]byte(dst)), vh.Hex(msg))
		if p := vh.Safely(func() {
			c.implU = s.h2fBase(dst, msg, 2)
			pt, err := s.point(dst, msg)
			c.implP = pt
			if err != nil {
				c.implErr = err.Error()
			}
		}); p != "" {
			c.implErr = "panic: " + p
		}
		tbl, b, sz := xmdTable(s.mk, []byte(dst), msg, int(2*s.l())*max(1, s.m))
		lines = append(lines, fmt.Sprintf("HC %s %s %d %d %s %s %s", id, s.name, b, sz, vh.Hex([]byte(dst)), vh.Hex(msg), tbl))
		cases = append(cases, c)
		return c
	}
	for si := range suites {
		s := &suites[si]
		var vf vecFileFull
		if b, err := os.ReadFile(filepath.Join(corpusDir, "rfc9380", s.file)); err == nil && json.Unmarshal(b, &vf) == nil {
			for vi, v := range vf.Vectors {
				c := add(s, vf.Dst, []byte(v.Msg), fmt.Sprintf("V%d", vi))
				for _, u := range v.U {
					c.vecU = append(c.vecU, fieldText(u))
				}
				for _, q := range v.Q {
					c.vecQ = append(c.vecQ, fieldText(q.X)+","+fieldText(q.Y))
				}
				c.vecP = fieldText(v.P.X) + "," + fieldText(v.P.Y)
			}
		} else {
			res.Note("model vectors for %s not loaded: %v", s.name, err)
		}
		for i := 0; i < nRandom; i++ {
			r := vh.NewRng(a.Seed, "C19", "h2cmodel-"+s.name, i)
			dst := "VERIF-" + hex.EncodeToString(r.Bytes(1+r.Intn(20)))
			switch r.Intn(12) {
			case 0:
				dst = string(r.Bytes(255))
			case 1:
				dst = string(r.Bytes(256 + r.Intn(30)))
			case 2:
				dst = ""
			}
			add(s, dst, randBytes(r), fmt.Sprintf("R%d", i))
			// hash_to_field alone: other counts, the scalar field, the public single-element hashes
			r2 := vh.NewRng(a.Seed, "C19", "h2f-"+s.name, i)
			msg := randBytes(r2)
			h := &hfCase{suite: s, scalar: r2.Bool() && s.h2fSc != nil, count: 1 + r2.Intn(4), dst: dst, msg: msg, what: "HashToField"}
			switch {
			case i%4 == 0 && s.scalarHash != nil:
				h.scalar, h.count, h.dst, h.what = true, 1, s.scalarDst, "ScalarField.Hash"
			case i%4 == 1:
				h.scalar, h.count, h.dst, h.what = false, 1, s.baseDst, "BaseField.Hash"
			}
			_ = vh.Safely(func() {
				switch h.what {
				case "ScalarField.Hash":
					v, err := s.scalarHash(msg)
					if err == nil {
						h.impl = []string{v}
					}
				case "BaseField.Hash":
					v, err := s.baseHash(msg)
					if err == nil {
						h.impl = []string{v}
					}
				default:
					if h.scalar {
						h.impl = s.h2fSc(h.dst, msg, h.count)
					} else {
						h.impl = s.h2fBase(h.dst, msg, h.count)
					}
				}
			})
			tbl, b, sz := xmdTable(s.mk, []byte(h.dst), msg, int(uint64(h.count)*s.l())*max(1, s.m))
			sc := 0
			if h.scalar {
				sc = 1
			}
			hfLines = append(hfLines, fmt.Sprintf("HF %d %s %d %d %d %d %s %s %s", len(hfCases), s.name, sc, h.count, b, sz, vh.Hex([]byte(h.dst)), vh.Hex(msg), tbl))
			hfCases = append(hfCases, h)
		}
	}
	// observation (not a mismatch): the suite identifier inside the library's default DST names the
	// encode_to_curve variant (_NU_) while Hash performs the two-element hash_to_curve (_RO_) construction
	for si := range suites {
		s := &suites[si]
		if strings.Contains(s.baseDst, "_NU_") {
			res.Note("suite name: %s.Hash uses the DST %q, whose suite identifier names the non-uniform encode_to_curve variant, but computes the random-oracle hash_to_curve construction (two field elements, point addition); outputs equal the _RO_ construction under that DST", s.name, s.baseDst)
		}
	}
	// the isogeny identity (hypothesis of zero_map_on_curve / iso_map_on_curve) evaluated by the extracted
	// model on the regenerated constants of every suite that has an isogeny
	var isoLines, isoNames []string
	for _, n := range []string{"k256", "bls12381g1", "bls12381g2", "pallas", "vesta"} {
		isoLines = append(isoLines, fmt.Sprintf("ISO %d %s", len(isoLines), n))
		isoNames = append(isoNames, n)
	}
	if isoOut, err := vh.Driver(a.Driver, isoLines); err != nil {
		fmt.Fprintln(os.Stderr, err)
		os.Exit(3)
	} else {
		for i, n := range isoNames {
			res.Count("isogeny-identity", "ISO "+n, true)
			if !strings.HasSuffix(isoOut[i], " true") {
				res.Mismatch(vh.Mismatch{ID: "ISO-" + n, Kind: "corr", Key: "isogeny-identity-" + n, Detail: "the regenerated isogeny coefficients of " + n + " do not satisfy (x^3+A'x+B') YNum^2 XDen^3 = YDen^2 (XNum^3 + a XNum XDen^2 + b XDen^3): model says " + isoOut[i], Case: "ISO " + n, What: "hypothesis iso_identity_b of C19_zero_map_on_curve_partial on the regenerated constants"})
			}
		}
	}
	if len(lines) == 0 {
		return
	}
	out, err := vh.Driver(a.Driver, append(append([]string{}, lines...), hfLines...))
	if err != nil {
		fmt.Fprintln(os.Stderr, err)
		os.Exit(3)
	}
	for i, c := range cases {
		s := c.suite
		res.Count("h2c-model-"+s.name, c.caseText, true)
		f := strings.SplitN(out[i], " ", 3)
		m := ""
		if len(f) == 3 {
			m = f[2]
		}
		parts := strings.Split(m, ";")
		bad := func(kind, key, detail string, propFail bool, what string) {
			res.Mismatch(vh.Mismatch{ID: fmt.Sprintf("HC-%s-%s", s.name, c.id), Kind: kind, Key: key, Detail: detail, Case: c.caseText, PropFail: propFail, What: what})
		}
		// the property's own predicate on the implementation for this case: RFC vector agreement,
		// DST dependence and determinism are evaluated in section 4; here: vector u / P
		propFail := false
		if c.vecP != "" && (c.implP != c.vecP || strings.Join(c.implU, ",") != strings.Join(c.vecU, ",")) {
			propFail = true
		}
		if c.implErr != "" {
			bad("prop", "h2c-"+s.name, "implementation failed: "+c.implErr, true, "hash-to-curve total on the RFC domain")
			continue
		}
		if len(parts) != 6 {
			bad("corr", "h2c-model-"+s.name, "model: "+trunc(m)+" implementation u="+strings.Join(c.implU, ",")+" P="+c.implP, propFail, "correspondence hash_to_curve (model/H2cMap.v over gen/Mappers.v, gen/Expanders.v)")
			continue
		}
		mu, mq0, mq1, mp, onc, sub := parts[0], parts[1], parts[2], parts[3], parts[4], parts[5]
		if mu != strings.Join(c.implU, ",") {
			bad("corr", "h2f-model-"+s.name, "hash_to_field: model u="+mu+" implementation u="+strings.Join(c.implU, ","), propFail, "correspondence hash_to_field (model/H2c.v hash_to_field)")
		}
		if mp != c.implP {
			// which side is the RFC's?  evaluate the membership predicates of the property on the implementation's point
			pf := propFail
			bad("corr", "h2c-model-"+s.name, "hash_to_curve: model P="+mp+" (Q0="+mq0+" Q1="+mq1+") implementation P="+c.implP, pf, "correspondence hash_to_curve (model/H2cMap.v over gen/Mappers.v)")
		}
		if onc != "true" || sub != "true" {
			if mp == c.implP {
				// the implementation returned this very point: the property's predicate (on the curve, in the
				// prime-order subgroup), evaluated by the Coq curve model, fails on the implementation's output
				bad("prop", "h2c-subgroup-"+s.name, "implementation point "+c.implP+": on_curve="+onc+" n*P=O: "+sub+" (evaluated by the extracted curve model)", true, "hash-to-curve lands in the prime-order subgroup")
			} else {
				bad("corr", "h2c-model-subgroup-"+s.name, "model point on_curve="+onc+" n*P=O: "+sub, false, "sswu_on_curve / cofactor_cleared_in_subgroup instantiated on the model's output")
			}
		}
		if c.vecU != nil {
			if mu != strings.Join(c.vecU, ",") {
				bad("corr", "h2f-vector-"+s.name, "model u="+mu+" RFC 9380 vector u="+strings.Join(c.vecU, ","), propFail, "model hash_to_field = RFC 9380 vector u")
			}
			if mq0+";"+mq1 != strings.Join(c.vecQ, ";") {
				bad("corr", "map-vector-"+s.name, "model Q0;Q1="+mq0+";"+mq1+" RFC 9380 vector "+strings.Join(c.vecQ, ";"), propFail, "model map_to_curve = RFC 9380 vector Q0, Q1")
			}
			if mp != c.vecP {
				bad("corr", "h2c-vector-"+s.name, "model P="+mp+" RFC 9380 vector "+c.vecP, propFail, "model hash_to_curve = RFC 9380 vector P")
			}
			if strings.Join(c.implU, ",") != strings.Join(c.vecU, ",") {
				bad("prop", "h2f-vector-impl-"+s.name, "HashToField u="+strings.Join(c.implU, ",")+" RFC 9380 vector u="+strings.Join(c.vecU, ","), true, "RFC 9380 suite agreement (hash_to_field)")
			}
		}
	}
	for i, h := range hfCases {
		s := h.suite
		txt := fmt.Sprintf("HF %s %s scalar=%v count=%d %s %s", s.name, h.what, h.scalar, h.count, vh.Hex([]byte(h.dst)), vh.Hex(h.msg))
		res.Count("h2f-model-"+s.name, txt, true)
		f := strings.SplitN(out[len(cases)+i], " ", 3)
		m := ""
		if len(f) == 3 {
			m = f[2]
		}
		if m != strings.Join(h.impl, ",") {
			// property predicate on the implementation: its output must be OS2IP(chunk) mod q of the RFC expander's output
			ref := refH2f(s, h.scalar, h.count, h.dst, h.msg)
			res.Mismatch(vh.Mismatch{ID: fmt.Sprintf("HF-%s-%d", s.name, i), Kind: "corr", Key: "h2f-model-" + s.name,
				Detail: fmt.Sprintf("%s: model %s implementation %s RFC-9380 reference (harness) %s", h.what, trunc(m), trunc(strings.Join(h.impl, ",")), trunc(ref)),
				Case:   txt, PropFail: ref != strings.Join(h.impl, ","), What: "correspondence hash_to_field (model/H2c.v hash_to_field; per-curve L/expander of gen/Mappers.v)"})
		}
	}
}

// refH2f: independent RFC 9380 §5.2 transcription on Go's hash (L = ceil((ceil(log2 q)+128)/8)).
func refH2f(s *modelSuite, scalar bool, count int, dst string, msg []byte) string {
	var q *big.Int
	switch {
	case s.name == "k256" && !scalar:
		q, _ = new(big.Int).SetString("fffffffffffffffffffffffffffffffffffffffffffffffffffffffefffffc2f", 16)
	case s.name == "k256":
		q, _ = new(big.Int).SetString("fffffffffffffffffffffffffffffffebaaedce6af48a03bbfd25e8cd0364141", 16)
	case s.name == "p256" && !scalar:
		q, _ = new(big.Int).SetString("ffffffff00000001000000000000000000000000ffffffffffffffffffffffff", 16)
	case s.name == "p256":
		q, _ = new(big.Int).SetString("ffffffff00000000ffffffffffffffffbce6faada7179e84f3b9cac2fc632551", 16)
	case (s.name == "pallas" && !scalar) || (s.name == "vesta" && scalar):
		q, _ = new(big.Int).SetString("40000000000000000000000000000000224698fc094cf91b992d30ed00000001", 16)
	case s.name == "pallas" || s.name == "vesta":
		q, _ = new(big.Int).SetString("40000000000000000000000000000000224698fc0994a8dd8c46eb2100000001", 16)
	case s.name == "edwards25519" && !scalar:
		q, _ = new(big.Int).SetString("7fffffffffffffffffffffffffffffffffffffffffffffffffffffffffffffed", 16)
	case s.name == "edwards25519":
		q, _ = new(big.Int).SetString("1000000000000000000000000000000014def9dea2f79cd65812631a5cf5d3ed", 16)
	case !scalar:
		q, _ = new(big.Int).SetString("1a0111ea397fe69a4b1ba7b6434bacd764774b84f38512bf6730d2a0f6b0f6241eabfffeb153ffffb9feffffffffaaab", 16)
	default:
		q, _ = new(big.Int).SetString("73eda753299d7d483339d80809a1d80553bda402fffe5bfeffffffff00000001", 16)
	}
	L := 48
	if s.name == "bls12381g1" || s.name == "pallas" || s.name == "vesta" {
		L = 64
	}
	if s.name == "pallas" || s.name == "vesta" {
		return "(no harness reference for BLAKE2b)"
	}
	if s.name == "bls12381g2" {
		q, _ = new(big.Int).SetString("1a0111ea397fe69a4b1ba7b6434bacd764774b84f38512bf6730d2a0f6b0f6241eabfffeb153ffffb9feffffffffaaab", 16)
		u := refExpand(expCase{kind: "xmd-sha256", dst: []byte(dst), msg: msg, n: count * 2 * 64})
		if u == "PANIC" {
			return "PANIC"
		}
		ub := vh.UnHex(u)
		var out []string
		for i := 0; i < count; i++ {
			c0 := new(big.Int).SetBytes(ub[(2*i)*64 : (2*i+1)*64])
			c1 := new(big.Int).SetBytes(ub[(2*i+1)*64 : (2*i+2)*64])
			out = append(out, c0.Mod(c0, q).Text(16)+":"+c1.Mod(c1, q).Text(16))
		}
		return strings.Join(out, ",")
	}
	kind := "xmd-sha256"
	if s.name == "edwards25519" {
		kind = "xmd-sha512"
	}
	u := refExpand(expCase{kind: kind, dst: []byte(dst), msg: msg, n: count * L})
	if u == "PANIC" {
		return "PANIC"
	}
	ub := vh.UnHex(u)
	var out []string
	for i := 0; i < count; i++ {
		v := new(big.Int).SetBytes(ub[i*L : (i+1)*L])
		out = append(out, v.Mod(v, q).Text(16))
	}
	return strings.Join(out, ",")
}
