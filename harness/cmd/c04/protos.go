package main

// protos.go — one adapter per protocol: how to run it (3 parties, the real round functions
// through the drivers of harness/internal/drive), and how to judge its outputs (clause (c) of
// the property oracle).  The drivers are other agents' packages; nothing here edits them.

import (
	"crypto/sha256"
	"fmt"
	"sort"
	"strings"

	"github.com/bronlabs/bron-crypto/pkg/base/algebra"
	"github.com/bronlabs/bron-crypto/pkg/base/curves/k256"
	"github.com/bronlabs/bron-crypto/pkg/base/serde"
	"github.com/bronlabs/bron-crypto/pkg/mpc"
	rg "github.com/bronlabs/bron-crypto/pkg/mpc/dkg/gennaro"
	rredist "github.com/bronlabs/bron-crypto/pkg/mpc/redistribute"
	rsess "github.com/bronlabs/bron-crypto/pkg/mpc/session"
	"github.com/bronlabs/bron-crypto/pkg/mpc/sharing"
	"github.com/bronlabs/bron-crypto/pkg/mpc/sharing/accessstructures"
	"github.com/bronlabs/bron-crypto/pkg/mpc/sharing/scheme/kw"
	"github.com/bronlabs/bron-crypto/pkg/mpc/sharing/vss/feldman"
	rdkls "github.com/bronlabs/bron-crypto/pkg/mpc/signatures/ecdsa/dkls23"
	"github.com/bronlabs/bron-crypto/pkg/mpc/signatures/ecdsa/dkls23/signing_bbot"
	rl22 "github.com/bronlabs/bron-crypto/pkg/mpc/signatures/schnorr/lindell22"
	l22signing "github.com/bronlabs/bron-crypto/pkg/mpc/signatures/schnorr/lindell22/signing"
	rhjky "github.com/bronlabs/bron-crypto/pkg/mpc/zero/hjky"
	"github.com/bronlabs/bron-crypto/pkg/proofs/sigma/compiler/fiatshamir"
	"github.com/bronlabs/bron-crypto/pkg/signatures/schnorrlike/bip340"

	"verif/harness/internal/drive"
	daor "verif/harness/internal/drive/aor"
	dbls "verif/harness/internal/drive/boldyreva"
	dcan "verif/harness/internal/drive/canetti"
	dcg "verif/harness/internal/drive/cggmp21"
	ddkls "verif/harness/internal/drive/dkls23"
	dgen "verif/harness/internal/drive/gennaro"
	dhjky "verif/harness/internal/drive/hjky"
	"verif/harness/internal/drive/keys"
	dl17 "verif/harness/internal/drive/lindell17"
	dl17dkg "verif/harness/internal/drive/lindell17dkg"
	dl22 "verif/harness/internal/drive/lindell22"
	dredist "verif/harness/internal/drive/redistribute"
	dsess "verif/harness/internal/drive/session"
	"verif/harness/internal/tamper"
	"verif/harness/internal/vh"
)

// finding is one failed clause of the property oracle.
type finding struct {
	clause string // key suffix, e.g. "bad-signature-returned"
	detail string
}

// outcome is what one protocol run yields for the oracle.
type outcome struct {
	tr  *drive.Trace
	ids []sharing.ID // the protocol's parties, ascending
	agg bool         // the protocol has an aggregator whose verdict is tr.Verdicts[0]
	// aggRound: the round whose messages are the INPUT of the aggregator (partial signatures, passed
	// with recipient 0); cosigners: every party also aggregates that input itself (cosigning
	// aggregator).  A message of that round is addressed to each of these consumers, so a bound leaf
	// of it must be refused by EVERY honest consumer, not just by one of them.
	aggRound  int
	cosigners bool
	setupErr  string
	// judge evaluates clause (c) for the honest parties (all but dev; dev == 0: everybody is
	// honest) and returns the failures and the list of honest parties / aggregator (0) that
	// returned a result.
	judge  func(dev sharing.ID) (bad []finding, returned []sharing.ID)
	forget func()
}

// adapter describes one protocol.
type adapter struct {
	name     string
	modelled bool // Deviate.v has a round model (classification is compared)
	run      func(seed int64, labels map[sharing.ID]string, hook drive.Hook) *outcome
	// norm decodes the bytes of message (round, broadcast?) into the typed message the
	// recipient would get and re-encodes it (nil if they do not decode): altered bytes whose norm
	// equals the original bytes are the SAME message for the recipient (a semantic no-op, e.g. a
	// byte string longer than the fixed-size array it is decoded into).
	norm         func(round int, bcast bool, b []byte) []byte
	noParallel   bool     // skip the parallel-session run (expensive protocols)
	first        []string // fields whose value flips are scheduled first (small quotas)
	thoroughOnly bool     // too expensive for the quick tier
	perIndex     bool     // strata keep the array indices (every component of a short vector is sampled)
	// rank, when set, may give a stratum a priority prefix (sorted before everything else, in
	// string order); "" = the default order
	rank func(m *mutation) string
}

func normAs[M any](b []byte) []byte {
	var out []byte
	vh.Safely(func() {
		v, err := serde.UnmarshalCBOR[M](b)
		if err != nil {
			return
		}
		if o, err := serde.MarshalCBOR(v); err == nil {
			out = o
		}
	})
	return out
}

type kP = *k256.Point
type kB = *k256.BaseFieldElement
type kS = *k256.Scalar

var parties = []sharing.ID{1, 2, 3}

const policy = "T:2:1,2,3"

func labelsAll(l string) map[sharing.ID]string {
	m := map[sharing.ID]string{}
	for _, id := range parties {
		m[id] = l
	}
	return m
}

// labelsAlt: everybody uses the randomness of the main run ("a") except d ("c"): an alternative
// execution of the SAME session in which only d's own choices differ.
func labelsAlt(d sharing.ID) map[sharing.ID]string {
	m := labelsAll("a")
	m[d] = "c"
	return m
}

// sessionLabel: the session (contexts) of a run: "b" for the parallel session, else "a" — so
// that the main run and the alternative runs of each party share one session.
func sessionLabel(labels map[sharing.ID]string) string {
	for _, l := range labels {
		if l != "b" {
			return "a"
		}
	}
	return "b"
}

// ctxsFor runs the real session setup (honestly) and returns fresh contexts.
func ctxsFor(seed int64, labels map[sharing.ID]string, quorum []sharing.ID) map[sharing.ID]*rsess.Context {
	res := dsess.RunFull(dsess.Config{Seed: seed, Prop: "C04/ctx", Quorum: quorum, Labels: labelsAll(sessionLabel(labels))})
	return res.Ctx
}

func honestOf(ids []sharing.ID, dev sharing.ID) []sharing.ID {
	var h []sharing.ID
	for _, id := range ids {
		if id != dev {
			h = append(h, id)
		}
	}
	return h
}

func adapters(tier string) []*adapter {
	l22norm := func(r int, bc bool, b []byte) []byte {
		switch {
		case r == 1 && bc:
			return normAs[*l22signing.Round1Broadcast[kP, kS, bip340.Message]](b)
		case r == 1:
			return normAs[*l22signing.Round1P2P[kP, kS, bip340.Message]](b)
		case r == 2:
			return normAs[*l22signing.Round2Broadcast[kP, kS, bip340.Message]](b)
		case r == 3:
			return normAs[*rl22.PartialSignature[kP, kS]](b)
		}
		return nil
	}

	dklsQuorum := []sharing.ID{1, 2}
	if tier == "thorough" {
		dklsQuorum = parties
	}
	return []*adapter{
		{name: "session", modelled: true, run: runSession, norm: func(r int, bc bool, b []byte) []byte {
			switch {
			case r == 1:
				return normAs[*rsess.Round1Broadcast](b)
			case r == 2 && bc:
				return normAs[*rsess.Round2Broadcast](b)
			case r == 2:
				return normAs[*rsess.Round2P2P](b)
			case r == 3:
				return normAs[*rsess.Round3P2P](b)
			}
			return nil
		}},
		{name: "gennaro", modelled: true, run: runGennaro, norm: func(r int, bc bool, b []byte) []byte {
			switch {
			case r == 1 && bc:
				return normAs[*rg.Round1Broadcast[kP, kS]](b)
			case r == 1:
				return normAs[*rg.Round1Unicast[kP, kS]](b)
			case r == 2:
				return normAs[*rg.Round2Broadcast[kP, kS]](b)
			}
			return nil
		}},
		{name: "hjky", modelled: true, run: runHjky, norm: func(r int, bc bool, b []byte) []byte {
			if bc {
				return normAs[*rhjky.Round1Broadcast[kP, kS]](b)
			}
			return normAs[*rhjky.Round1P2P[kP, kS]](b)
		}},
		{name: "redistribute", modelled: true, run: func(seed int64, label map[sharing.ID]string, hook drive.Hook) *outcome {
			return runRedist(seed, label, hook, parties) // refresh: every holder is a previous and a next holder
		}, norm: func(r int, bc bool, b []byte) []byte {
			switch {
			case r == 1 && bc:
				return normAs[*rredist.Round1Broadcast[kP, kS]](b)
			case r == 1:
				return normAs[*rredist.Round1P2P[kP, kS]](b)
			case r == 2 && bc:
				return normAs[*rredist.Round2Broadcast[kP, kS]](b)
			case r == 2:
				return normAs[*rredist.Round2P2P[kP, kS]](b)
			}
			return nil
		}},
		{name: "lindell22", modelled: true, run: runL22, norm: l22norm},
		// two signers: the deviator and ONE honest cosigner, plus the plain aggregator
		{name: "lindell22-2", modelled: true, run: func(seed int64, label map[sharing.ID]string, hook drive.Hook) *outcome {
			return runL22q(seed, label, hook, []sharing.ID{1, 2})
		}, norm: l22norm, first: []string{"signature.e.fieldBytes", "signature.r.compressedBytes", "signature.s.fieldBytes"}},
		{name: "boldyreva", modelled: true, run: func(seed int64, label map[sharing.ID]string, hook drive.Hook) *outcome {
			return runBls(seed, label, hook, []sharing.ID{1, 2}) // minimal quorum: an unusable partial signature cannot be made up for
		}},
		// proof-of-possession mode over a CNF structure (any 2 of 3 with TWO share components per holder):
		// every component of sigma and of the proof-of-possession vector is an input of the aggregator
		{name: "boldyreva-pop", modelled: true, run: func(seed int64, label map[sharing.ID]string, hook drive.Hook) *outcome {
			return runBlsMode(seed, label, hook, []sharing.ID{1, 2}, "N:1|2|3", "pop")
		}, perIndex: true},
		{name: "boldyreva-3", run: func(seed int64, label map[sharing.ID]string, hook drive.Hook) *outcome {
			return runBls(seed, label, hook, parties) // redundant quorum: the others may still reach the threshold
		}},
		{name: "dkls23", modelled: true, run: func(seed int64, label map[sharing.ID]string, hook drive.Hook) *outcome {
			return runDkls(seed, label, hook, "bbot", dklsQuorum)
		}, noParallel: tier != "thorough", first: []string{"gammaU.compressedBytes", "psi.fieldBytes", "pk.compressedBytes", "bigR.compressedBytes", "mulR3.mu",
			"mulR2.OtR2.phi.compressedBytes", "u.fieldBytes", "gammaV.compressedBytes", "mulR1.OtR1.ms.compressedBytes"}, norm: func(r int, bc bool, b []byte) []byte {
			switch {
			case r == 1 && bc:
				return normAs[*signing_bbot.Round1Broadcast[kP, kB, kS]](b)
			case r == 1:
				return normAs[*signing_bbot.Round1P2P[kP, kB, kS]](b)
			case r == 2 && bc:
				return normAs[*signing_bbot.Round2Broadcast[kP, kB, kS]](b)
			case r == 2:
				return normAs[*signing_bbot.Round2P2P[kP, kB, kS]](b)
			case r == 3 && bc:
				return normAs[*signing_bbot.Round3Broadcast[kP, kB, kS]](b)
			case r == 3:
				return normAs[*signing_bbot.Round3P2P[kP, kB, kS]](b)
			case r == 4:
				return normAs[*rdkls.PartialSignature[kP, kB, kS]](b)
			}
			return nil
		}},
		// recovery of holder 3's share by {1,2} without a trusted anchor: 3 is a next-only holder whose
		// only defence against a dealer that shifts the key is the final oldPk = newPk guard
		{name: "redistribute-recover", run: func(seed int64, label map[sharing.ID]string, hook drive.Hook) *outcome {
			return runRedist(seed, label, hook, []sharing.ID{1, 2})
		}},
		// canetti, aor and dkls23-softspoken have a round model too; cggmp21, lindell17 and lindell17dkg: oracle (a)-(c) only
		{name: "canetti", modelled: true, run: runCanetti},
		{name: "dkls23-softspoken", modelled: true, run: func(seed int64, label map[sharing.ID]string, hook drive.Hook) *outcome {
			return runDkls(seed, label, hook, "softspoken", []sharing.ID{1, 2})
		}, noParallel: true},
		{name: "aor", modelled: true, run: runAor},
		{name: "lindell17", run: runL17, noParallel: true},
		// 3072-bit Paillier keys are generated inside the protocol: thorough tier only
		{name: "lindell17dkg", run: runL17Dkg, noParallel: true, thoroughOnly: true, rank: rankL17Dkg},
		{name: "cggmp21", run: runCggmp, noParallel: true},
	}
}

// ---- session ---------------------------------------------------------------------------

func runSession(seed int64, label map[sharing.ID]string, hook drive.Hook) *outcome {
	res := dsess.RunFull(dsess.Config{Seed: seed, Prop: "C04", Quorum: parties, Labels: label, Hook: hook})
	o := &outcome{tr: res.Trace, ids: res.Quorum}
	o.judge = func(dev sharing.ID) (bad []finding, returned []sharing.ID) {
		hs := honestOf(res.Quorum, dev)
		type parsed struct {
			sid   string
			seeds map[string]string
		}
		ps := map[sharing.ID]parsed{}
		for _, id := range hs {
			if res.Ctx[id] == nil {
				continue
			}
			returned = append(returned, id)
			p := parsed{seeds: map[string]string{}}
			for _, f := range strings.Split(res.Trace.Outputs[id], ";") {
				k, v, _ := strings.Cut(f, "=")
				switch k {
				case "sid":
					p.sid = v
				case "seeds":
					for _, e := range strings.Split(v, ",") {
						peer, h, _ := strings.Cut(e, ":")
						p.seeds[peer] = h
					}
				}
			}
			ps[id] = p
		}
		for i, a := range returned {
			for _, b := range returned[i+1:] {
				if ps[a].sid != ps[b].sid {
					bad = append(bad, finding{"inconsistent-context-returned", fmt.Sprintf("honest parties %d and %d completed with different session ids %s / %s", a, b, ps[a].sid, ps[b].sid)})
				}
				if ps[a].seeds[fmt.Sprint(uint64(b))] != ps[b].seeds[fmt.Sprint(uint64(a))] {
					bad = append(bad, finding{"inconsistent-context-returned", fmt.Sprintf("honest parties %d and %d completed with different pairwise seeds", a, b)})
				}
			}
		}
		return bad, returned
	}
	return o
}

// ---- shards (DKG / refresh) ------------------------------------------------------------

// judgeShards: every honest shard satisfies share·G = its own public share, all honest
// parties report the same public key and the same public shares, and every qualified subset of
// the honest parties that returned reconstructs the discrete log of the reported public key.
func judgeShards[E algebra.PrimeGroupElement[E, S], S algebra.PrimeFieldElement[S]](
	group algebra.PrimeGroup[E, S], ac accessstructures.Monotone, shards map[sharing.ID]*mpc.BaseShard[E, S], holders []sharing.ID, dev sharing.ID, wantPK *E,
) (bad []finding, returned []sharing.ID) {
	G := group.Generator()
	for _, id := range honestOf(holders, dev) {
		if shards[id] != nil {
			returned = append(returned, id)
		}
	}
	if len(returned) == 0 {
		return nil, nil
	}
	p := vh.Safely(func() {
		for _, id := range returned {
			sh := shards[id]
			pks, ok := sh.PublicKeyShares().Get(id)
			vals := sh.Share().Value()
			if !ok || len(pks.Value()) != len(vals) || sh.Share().ID() != id {
				bad = append(bad, finding{"bad-shard-returned", fmt.Sprintf("party %d: own public share missing or of another length", uint64(id))})
				continue
			}
			for k, v := range vals {
				if !G.ScalarOp(v).Equal(pks.Value()[k]) {
					bad = append(bad, finding{"bad-shard-returned", fmt.Sprintf("party %d coordinate %d: share·G != its public share", uint64(id), k)})
					break
				}
			}
			if wantPK != nil && !sh.PublicKeyValue().Equal(*wantPK) {
				bad = append(bad, finding{"key-changed", fmt.Sprintf("party %d reports public key %s, the key before the protocol was %s", uint64(id), vh.Hex(sh.PublicKeyValue().Bytes()), vh.Hex((*wantPK).Bytes()))})
			}
		}
		first := shards[returned[0]]
		for _, id := range returned[1:] {
			if !shards[id].PublicKeyValue().Equal(first.PublicKeyValue()) {
				bad = append(bad, finding{"bad-shard-returned", fmt.Sprintf("honest parties %d and %d report different public keys", uint64(returned[0]), uint64(id))})
			}
			for _, h := range returned {
				a, ok1 := first.PublicKeyShares().Get(h)
				b, ok2 := shards[id].PublicKeyShares().Get(h)
				if !ok1 || !ok2 || !a.Equal(b) {
					bad = append(bad, finding{"bad-shard-returned", fmt.Sprintf("honest parties %d and %d report different public shares for holder %d", uint64(returned[0]), uint64(id), uint64(h))})
				}
			}
		}
		scheme, err := feldman.NewScheme(group, ac)
		if err != nil {
			bad = append(bad, finding{"oracle-error", "feldman.NewScheme: " + err.Error()})
			return
		}
		n := len(returned)
		for mask := 1; mask < 1<<n; mask++ {
			var sub []sharing.ID
			var shs []*kw.Share[S]
			for i := 0; i < n; i++ {
				if mask>>i&1 == 1 {
					sub = append(sub, returned[i])
					shs = append(shs, shards[returned[i]].Share())
				}
			}
			if !ac.IsQualified(sub...) {
				continue
			}
			sec, err := scheme.Reconstruct(shs...)
			if err != nil {
				bad = append(bad, finding{"bad-shard-returned", fmt.Sprintf("qualified honest subset %v does not reconstruct: %v", sub, err)})
				continue
			}
			if !G.ScalarOp(sec.Value()).Equal(first.PublicKeyValue()) {
				bad = append(bad, finding{"bad-shard-returned", fmt.Sprintf("qualified honest subset %v reconstructs a value that is not the discrete log of the reported public key", sub)})
			}
		}
	})
	if p != "" {
		bad = append(bad, finding{"oracle-panic", p})
	}
	return bad, returned
}

// ---- gennaro ---------------------------------------------------------------------------

func runGennaro(seed int64, label map[sharing.ID]string, hook drive.Hook) *outcome {
	pol, _ := keys.ParsePolicy(policy)
	ac, err := pol.Build()
	if err != nil {
		return &outcome{setupErr: err.Error()}
	}
	g := k256.NewCurve()
	res := dgen.RunFull(dgen.Config[*k256.Point, *k256.Scalar]{Seed: seed, Prop: "C04", Labels: label, Hook: hook, Group: g, AC: ac, Compiler: fiatshamir.Name, Ctxs: ctxsFor(seed, label, parties)})
	o := &outcome{tr: res.Trace, ids: res.IDs}
	o.judge = func(dev sharing.ID) ([]finding, []sharing.ID) {
		return judgeShards[*k256.Point, *k256.Scalar](g, ac, res.Shards, res.IDs, dev, nil)
	}
	return o
}

// ---- dkls23 (bbot) ---------------------------------------------------------------------

var message = []byte("C04 deviation check message")

func common(seed int64, label map[sharing.ID]string, hook drive.Hook) keys.Common {
	sess := "seeded" // one session for the main run and the alternative runs
	if sessionLabel(label) == "b" {
		sess = "real" // the parallel session: same keys, another session
	}
	return keys.Common{Seed: seed, Prop: "C04", Labels: label, Hook: hook, Quorum: parties, Session: sess, Message: message}
}

func runDkls(seed int64, label map[sharing.ID]string, hook drive.Hook, mult string, quorum []sharing.ID) *outcome {
	c := common(seed, label, hook)
	c.Quorum = quorum
	res := ddkls.RunFull(ddkls.Config{Common: c, Policy: policy, Curve: "k256", Hash: "sha256", Multiplier: mult})
	o := &outcome{tr: res.Trace, ids: res.Quorum, agg: true, aggRound: map[string]int{"bbot": 4, "softspoken": 5}[mult], setupErr: res.SetupErr}
	o.judge = func(dev sharing.ID) (bad []finding, returned []sharing.ID) {
		if res.Sig == nil {
			return nil, nil
		}
		returned = []sharing.ID{0}
		if res.LibOK != "ok" {
			bad = append(bad, finding{"bad-signature-returned", "Aggregate returned a signature the library verifier rejects: " + res.Trace.Outputs[0]})
		}
		pk := pt{x: res.PKX, y: res.PKY}
		if !secpECDSAVerify(pk, res.Digest, res.Sig.R, res.Sig.S) {
			bad = append(bad, finding{"bad-signature-returned", "Aggregate returned a signature the independent verifier rejects: " + res.Trace.Outputs[0]})
		}
		return bad, returned
	}
	return o
}

// ---- lindell22 (BIP-340) ---------------------------------------------------------------

func runL22(seed int64, label map[sharing.ID]string, hook drive.Hook) *outcome {
	return runL22q(seed, label, hook, parties)
}

func runL22q(seed int64, label map[sharing.ID]string, hook drive.Hook, quorum []sharing.ID) *outcome {
	c := common(seed, label, hook)
	c.Quorum = quorum
	res := dl22.RunFull(dl22.Config{Common: c, Policy: policy, Variant: "bip340"})
	o := &outcome{tr: res.Trace, ids: res.Quorum, agg: true, aggRound: 3, cosigners: true, setupErr: res.SetupErr}
	o.judge = func(dev sharing.ID) (bad []finding, returned []sharing.ID) {
		chk := func(who sharing.ID, s *dl22.Sig) {
			if s == nil {
				return
			}
			returned = append(returned, who)
			if s.Lib != "ok" {
				bad = append(bad, finding{"bad-signature-returned", fmt.Sprintf("aggregator %d returned a signature the library verifier rejects: %s", uint64(who), vh.Hex(s.Wire))})
			}
			if len(res.PK) != 33 || !bip340Verify(res.PK[1:], message, s.Wire) {
				bad = append(bad, finding{"bad-signature-returned", fmt.Sprintf("aggregator %d returned a signature the independent BIP-340 verifier rejects: %s", uint64(who), vh.Hex(s.Wire))})
			}
		}
		chk(0, res.Sig)
		for _, id := range honestOf(res.Quorum, dev) {
			chk(id, res.SigBy[id])
		}
		sort.Slice(returned, func(i, j int) bool { return returned[i] < returned[j] })
		return bad, returned
	}
	return o
}

// ---- hjky (zero sharing) ---------------------------------------------------------------

func runHjky(seed int64, label map[sharing.ID]string, hook drive.Hook) *outcome {
	pol, _ := keys.ParsePolicy(policy)
	ac, err := pol.Build()
	if err != nil {
		return &outcome{setupErr: err.Error()}
	}
	g := k256.NewCurve()
	res := dhjky.RunFull(dhjky.Config[kP, kS]{Seed: seed, Prop: "C04", Labels: label, Hook: hook, Group: g, Access: ac, Contexts: ctxsFor(seed, label, parties)})
	o := &outcome{tr: res.Trace, ids: res.IDs}
	o.judge = func(dev sharing.ID) (bad []finding, returned []sharing.ID) {
		for _, id := range honestOf(res.IDs, dev) {
			if res.Out[id] != nil {
				returned = append(returned, id)
			}
		}
		if len(returned) == 0 {
			return nil, nil
		}
		p := vh.Safely(func() {
			scheme, err := feldman.NewScheme(g, ac)
			if err != nil {
				bad = append(bad, finding{"oracle-error", err.Error()})
				return
			}
			first := res.Out[returned[0]]
			for _, id := range returned {
				out := res.Out[id]
				if err := scheme.Verify(out.Share, out.VV); err != nil {
					bad = append(bad, finding{"bad-zero-share-returned", fmt.Sprintf("party %d: its zero share does not verify against the verification vector it returns: %v", uint64(id), err)})
				}
				if v0, err := out.VV.Value().Get(0, 0); err != nil || !v0.IsOpIdentity() {
					bad = append(bad, finding{"bad-zero-share-returned", fmt.Sprintf("party %d: the returned verification vector does not commit to zero", uint64(id))})
				}
				if !out.VV.Equal(first.VV) {
					bad = append(bad, finding{"bad-zero-share-returned", fmt.Sprintf("honest parties %d and %d return different verification vectors", uint64(returned[0]), uint64(id))})
				}
			}
			n := len(returned)
			for mask := 1; mask < 1<<n; mask++ {
				var sub []sharing.ID
				var shs []*kw.Share[kS]
				for i := 0; i < n; i++ {
					if mask>>i&1 == 1 {
						sub = append(sub, returned[i])
						shs = append(shs, res.Out[returned[i]].Share)
					}
				}
				if !ac.IsQualified(sub...) {
					continue
				}
				sec, err := scheme.Reconstruct(shs...)
				if err != nil || !sec.Value().IsZero() {
					bad = append(bad, finding{"bad-zero-share-returned", fmt.Sprintf("qualified honest subset %v does not reconstruct zero (%v)", sub, err)})
				}
			}
		})
		if p != "" {
			bad = append(bad, finding{"oracle-panic", p})
		}
		return bad, returned
	}
	return o
}

// ---- redistribute (refresh by all three holders) ---------------------------------------

func runRedist(seed int64, label map[sharing.ID]string, hook drive.Hook, prev []sharing.ID) *outcome {
	pol, _ := keys.ParsePolicy(policy)
	g := k256.NewCurve()
	dealt, err := keys.Deal[kP, kS](g, pol, vh.NewRng(seed, "C04", "deal", 0))
	if err != nil {
		return &outcome{setupErr: err.Error()}
	}
	res := dredist.RunFull(dredist.Config[kP, kS]{Seed: seed, Prop: "C04", Labels: label, Hook: hook, Group: g,
		PrevShards: dealt.Shards, PrevQuorum: prev, Next: dealt.AC, Contexts: ctxsFor(seed, label, parties)})
	o := &outcome{tr: res.Trace, ids: res.IDs}
	pk := dealt.PK
	o.judge = func(dev sharing.ID) ([]finding, []sharing.ID) {
		return judgeShards[kP, kS](g, dealt.AC, res.Shards, res.NextIDs, dev, &pk)
	}
	return o
}

// ---- canetti DKG (no round model) ------------------------------------------------------

func runCanetti(seed int64, label map[sharing.ID]string, hook drive.Hook) *outcome {
	pol, _ := keys.ParsePolicy(policy)
	ac, err := pol.Build()
	if err != nil {
		return &outcome{setupErr: err.Error()}
	}
	g := k256.NewCurve()
	res := dcan.RunFull(dcan.Config[kP, kS]{Seed: seed, Prop: "C04", Labels: label, Hook: hook, Group: g, AC: ac, Ctxs: ctxsFor(seed, label, parties)})
	o := &outcome{tr: res.Trace, ids: res.IDs}
	o.judge = func(dev sharing.ID) ([]finding, []sharing.ID) {
		return judgeShards[kP, kS](g, ac, res.Shards, res.IDs, dev, nil)
	}
	return o
}

// ---- boldyreva (threshold BLS, one round + aggregator) ---------------------------------

func runBls(seed int64, label map[sharing.ID]string, hook drive.Hook, quorum []sharing.ID) *outcome {
	return runBlsMode(seed, label, hook, quorum, policy, "basic")
}

func runBlsMode(seed int64, label map[sharing.ID]string, hook drive.Hook, quorum []sharing.ID, pol, mode string) *outcome {
	c := common(seed, label, hook)
	c.Quorum = quorum
	res := dbls.RunFull(dbls.Config{Common: c, Policy: pol, KeySize: "short", Mode: mode})
	o := &outcome{tr: res.Trace, ids: res.Quorum, agg: true, aggRound: 1, setupErr: res.SetupErr}
	o.judge = func(dev sharing.ID) (bad []finding, returned []sharing.ID) {
		if res.Sig == nil {
			return nil, nil
		}
		returned = []sharing.ID{0}
		if res.Lib != "ok" {
			bad = append(bad, finding{"bad-signature-returned", "the aggregator returned a signature the library verifier rejects: " + res.Trace.Outputs[0]})
		}
		if res.Pairing != "ok" {
			bad = append(bad, finding{"bad-signature-returned", "the aggregator returned a signature that fails e(pk,H(m)) = e(g,sig): " + res.Trace.Outputs[0]})
		}
		// BLS signatures are unique: the only valid signature is x·H(m)
		if res.Predicted != nil && string(res.Predicted) != string(res.Sig) {
			bad = append(bad, finding{"bad-signature-returned", "the aggregator returned a signature different from x·H(m): " + res.Trace.Outputs[0]})
		}
		// proof-of-possession mode: the returned proof of possession is the (unique) x·H_pop(pk)
		if mode == "pop" {
			if res.Pop == nil || res.PopPairing != "ok" {
				bad = append(bad, finding{"bad-signature-returned", "the aggregator returned a signature whose proof of possession fails e(pk,H_pop(pk)) = e(g,pop): " + res.Trace.Outputs[0]})
			}
			if res.PredictedPop != nil && string(res.PredictedPop) != string(res.Pop) {
				bad = append(bad, finding{"bad-signature-returned", "the aggregator returned a proof of possession different from x·H_pop(pk): " + res.Trace.Outputs[0]})
			}
		}
		return bad, returned
	}
	return o
}

// ---- lindell17 (two-party ECDSA; stored Paillier keys; no round model) ------------------

func runL17(seed int64, label map[sharing.ID]string, hook drive.Hook) *outcome {
	c := common(seed, label, hook)
	c.Quorum = []sharing.ID{1, 2}
	res := dl17.RunFull(dl17.Config{Common: c, Policy: policy, Curve: "k256", Hash: "sha256", Compiler: "fischlin"})
	o := &outcome{tr: res.Trace, ids: []sharing.ID{1, 2}, setupErr: res.SetupErr}
	o.judge = func(dev sharing.ID) (bad []finding, returned []sharing.ID) {
		if res.Sig == nil || dev == res.Primary {
			return nil, nil // only the primary obtains an output
		}
		returned = []sharing.ID{res.Primary}
		if res.LibOK != "ok" {
			bad = append(bad, finding{"bad-signature-returned", "the primary returned a signature the library verifier rejects: " + res.Trace.Outputs[res.Primary]})
		}
		d := sha256Sum(message)
		if !secpECDSAVerify(pt{x: res.PKX, y: res.PKY}, d, res.Sig.R, res.Sig.S) {
			bad = append(bad, finding{"bad-signature-returned", "the primary returned a signature the independent verifier rejects: " + res.Trace.Outputs[res.Primary]})
		}
		return bad, returned
	}
	return o
}

// ---- cggmp21 (stored keys; no round model) ---------------------------------------------

func runCggmp(seed int64, label map[sharing.ID]string, hook drive.Hook) *outcome {
	c := common(seed, label, hook)
	c.Quorum = []sharing.ID{1, 2}
	res := dcg.RunFull(dcg.Config{Common: c, Policy: policy, Curve: "k256", Hash: "sha256"})
	o := &outcome{tr: res.Trace, ids: res.Quorum, agg: true, aggRound: 4, setupErr: res.SetupErr}
	o.judge = func(dev sharing.ID) (bad []finding, returned []sharing.ID) {
		if res.Sig == nil {
			return nil, nil
		}
		returned = []sharing.ID{0}
		if res.LibOK != "ok" {
			bad = append(bad, finding{"bad-signature-returned", "the aggregator returned a signature the library verifier rejects: " + res.Trace.Outputs[0]})
		}
		d := sha256Sum(message)
		if !secpECDSAVerify(pt{x: res.PKX, y: res.PKY}, d, res.Sig.R, res.Sig.S) {
			bad = append(bad, finding{"bad-signature-returned", "the aggregator returned a signature the independent verifier rejects: " + res.Trace.Outputs[0]})
		}
		return bad, returned
	}
	return o
}

func sha256Sum(b []byte) []byte {
	h := sha256.Sum256(b)
	return h[:]
}

// ---- agree-on-random -------------------------------------------------------------------

func runAor(seed int64, label map[sharing.ID]string, hook drive.Hook) *outcome {
	name := "verif-aor-" + sessionLabel(label)
	res := daor.RunFull(daor.Config{Seed: seed, Prop: "C04", Quorum: parties, Size: 32, TapeName: name, Labels: label, Hook: hook})
	o := &outcome{tr: res.Trace, ids: res.IDs}
	o.judge = func(dev sharing.ID) (bad []finding, returned []sharing.ID) {
		for _, id := range honestOf(res.IDs, dev) {
			if res.Samples[id] != nil {
				returned = append(returned, id)
			}
		}
		for i, a := range returned {
			for _, b := range returned[i+1:] {
				if string(res.Samples[a]) != string(res.Samples[b]) {
					bad = append(bad, finding{"different-samples-returned", fmt.Sprintf("honest parties %d and %d agreed on different randomness %s / %s", uint64(a), uint64(b), vh.Hex(res.Samples[a]), vh.Hex(res.Samples[b]))})
				}
				if string(res.Extract[a]) != string(res.Extract[b]) {
					bad = append(bad, finding{"different-samples-returned", fmt.Sprintf("honest parties %d and %d end with different transcripts", uint64(a), uint64(b))})
				}
			}
		}
		return bad, returned
	}
	return o
}

// ---- lindell17 DKG (thorough tier only) ------------------------------------------------

func runL17Dkg(seed int64, label map[sharing.ID]string, hook drive.Hook) *outcome {
	pol, _ := keys.ParsePolicy(policy)
	g := k256.NewCurve()
	dealt, err := keys.Deal[kP, kS](g, pol, vh.NewRng(seed, "C04", "deal", 0))
	if err != nil {
		return &outcome{setupErr: err.Error()}
	}
	res := dl17dkg.RunFull(dl17dkg.Config[kP, kB, kS]{Seed: seed, Prop: "C04", Labels: label, Hook: hook, Curve: g,
		Shards: dealt.Shards, Ctxs: ctxsFor(seed, label, parties)})
	o := &outcome{tr: res.Trace, ids: res.IDs}
	o.judge = func(dev sharing.ID) (bad []finding, returned []sharing.ID) {
		for _, id := range honestOf(res.IDs, dev) {
			if res.Shards[id] != nil {
				returned = append(returned, id)
			}
		}
		p := vh.Safely(func() {
			for _, obs := range returned {
				osh := res.Shards[obs]
				if !osh.PublicKeyValue().Equal(dealt.PK) || !osh.BaseShard.Equal(dealt.Shards[obs]) {
					bad = append(bad, finding{"bad-shard-returned", fmt.Sprintf("party %d returns a shard whose key material differs from its base shard", uint64(obs))})
				}
				// what obs stored about every peer whose own shard (secret key) is available
				for _, snd := range res.IDs {
					ssh := res.Shards[snd]
					if snd == obs || ssh == nil || !dealt.AC.IsQualified(snd, obs) {
						continue
					}
					cts, ok := osh.EncryptedShares().Get(snd)
					pk, ok2 := osh.PaillierPublicKeys().Get(snd)
					if !ok || !ok2 {
						bad = append(bad, finding{"bad-shard-returned", fmt.Sprintf("party %d stored nothing about its qualified peer %d", uint64(obs), uint64(snd))})
						continue
					}
					if !pk.Equal(ssh.PaillierSecretKey().Public()) {
						bad = append(bad, finding{"bad-shard-returned", fmt.Sprintf("party %d stored a Paillier key for %d that is not %d's", uint64(obs), uint64(snd), uint64(snd))})
						continue
					}
					pub, _ := dealt.Shards[obs].PublicKeyShares().Get(snd)
					if len(cts) != len(pub.Value()) {
						bad = append(bad, finding{"bad-shard-returned", fmt.Sprintf("party %d stored %d encrypted components for %d, expected %d", uint64(obs), len(cts), uint64(snd), len(pub.Value()))})
						continue
					}
					for i, ct := range cts {
						pt, err := ssh.PaillierSecretKey().Decrypt(ct)
						if err != nil {
							bad = append(bad, finding{"bad-shard-returned", fmt.Sprintf("party %d stored an undecryptable ciphertext for %d", uint64(obs), uint64(snd))})
							continue
						}
						x, err := g.ScalarField().FromBytesBEReduce(pt.Value().Big().Bytes())
						if err != nil || !g.ScalarBaseMul(x).Equal(pub.Value()[i]) {
							bad = append(bad, finding{"bad-shard-returned", fmt.Sprintf("party %d stored an encrypted share of %d (component %d) that is not the discrete log of %d's public share", uint64(obs), uint64(snd), i, uint64(snd))})
						}
					}
				}
			}
		})
		if p != "" {
			bad = append(bad, finding{"oracle-panic", p})
		}
		return bad, returned
	}
	return o
}

// rankL17Dkg: the rounds after the Paillier key generation (3..8) are where a run is expensive and
// where the per-component vectors live, so they are sampled FIRST: array-length extend (a copy of the
// last element appended), then truncate, on every array of the messages of rounds >= 3 (outermost
// arrays first), then one value flip per later round; the cheap round-1/2 probes come after.
func rankL17Dkg(m *mutation) string {
	if m.key.round < 3 || strings.Contains(m.path, "^") {
		return ""
	}
	depth := strings.Count(m.path, "[")
	if depth > 8 {
		depth = 8
	}
	switch {
	case m.kind == tamper.KArrLen && m.op.Kind == tamper.OpExtend:
		return fmt.Sprintf("!0%d%d", depth, m.key.round)
	case m.kind == tamper.KArrLen && m.op.Kind == tamper.OpTruncate:
		return fmt.Sprintf("!1%d%d", depth, m.key.round)
	case m.kind == tamper.KBytes && m.op.Kind == tamper.OpFlip && depth <= 1:
		return fmt.Sprintf("!2%d%d", depth, m.key.round)
	}
	return ""
}
