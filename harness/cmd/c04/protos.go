package main

// protos.go — one adapter per protocol: how to run it (3 parties, the real round functions
// through the drivers of harness/internal/drive), and how to judge its outputs (clause (c) of
// the property oracle).  The drivers are other agents' packages; nothing here edits them.

import (
	"fmt"
	"sort"
	"strings"

	"github.com/bronlabs/bron-crypto/pkg/base/algebra"
	"github.com/bronlabs/bron-crypto/pkg/base/curves/k256"
	"github.com/bronlabs/bron-crypto/pkg/mpc"
	"github.com/bronlabs/bron-crypto/pkg/mpc/sharing"
	"github.com/bronlabs/bron-crypto/pkg/mpc/sharing/accessstructures"
	"github.com/bronlabs/bron-crypto/pkg/mpc/sharing/scheme/kw"
	"github.com/bronlabs/bron-crypto/pkg/mpc/sharing/vss/feldman"
	"github.com/bronlabs/bron-crypto/pkg/proofs/sigma/compiler/fiatshamir"

	"verif/harness/internal/drive"
	ddkls "verif/harness/internal/drive/dkls23"
	dgen "verif/harness/internal/drive/gennaro"
	"verif/harness/internal/drive/keys"
	dl22 "verif/harness/internal/drive/lindell22"
	dsess "verif/harness/internal/drive/session"
	"verif/harness/internal/vh"
)

// finding is one failed clause of the property oracle.
type finding struct {
	clause string // key suffix, e.g. "bad-signature-returned"
	detail string
}

// outcome is what one protocol run yields for the oracle.
type outcome struct {
	tr       *drive.Trace
	ids      []sharing.ID // the protocol's parties, ascending
	agg      bool         // the protocol has an aggregator whose verdict is tr.Verdicts[0]
	setupErr string
	// judge evaluates clause (c) for the honest parties (all but dev; dev == 0: everybody is
	// honest) and returns the failures and the list of honest parties / aggregator (0) that
	// returned a result.
	judge func(dev sharing.ID) (bad []finding, returned []sharing.ID)
	forget func()
}

// adapter describes one protocol.
type adapter struct {
	name     string
	modelled bool // Deviate.v has a round model (classification is compared)
	run      func(seed int64, label string, hook drive.Hook) *outcome
}

var parties = []sharing.ID{1, 2, 3}

const policy = "T:2:1,2,3"

func labelsAll(l string) map[sharing.ID]string {
	m := map[sharing.ID]string{}
	for _, id := range parties {
		m[id] = l
	}
	return m
}

func honestOf(ids []sharing.ID, dev sharing.ID) []sharing.ID {
	var h []sharing.ID
	for _, id := range ids {
		if id != dev {
			h = append(h, id)
		}
	}
	return h
}

func adapters() []*adapter {
	return []*adapter{
		{name: "session", modelled: true, run: runSession},
		{name: "gennaro", modelled: true, run: runGennaro},
		{name: "dkls23", modelled: true, run: runDkls},
		{name: "lindell22", modelled: true, run: runL22},
	}
}

// ---- session ---------------------------------------------------------------------------

func runSession(seed int64, label string, hook drive.Hook) *outcome {
	res := dsess.RunFull(dsess.Config{Seed: seed, Prop: "C04", Quorum: parties, Labels: labelsAll(label), Hook: hook})
	o := &outcome{tr: res.Trace, ids: res.Quorum}
	o.judge = func(dev sharing.ID) (bad []finding, returned []sharing.ID) {
		hs := honestOf(res.Quorum, dev)
		type parsed struct {
			sid   string
			seeds map[string]string
		}
		ps := map[sharing.ID]parsed{}
		for _, id := range hs {
			if res.Ctx[id] == nil {
				continue
			}
			returned = append(returned, id)
			p := parsed{seeds: map[string]string{}}
			for _, f := range strings.Split(res.Trace.Outputs[id], ";") {
				k, v, _ := strings.Cut(f, "=")
				switch k {
				case "sid":
					p.sid = v
				case "seeds":
					for _, e := range strings.Split(v, ",") {
						peer, h, _ := strings.Cut(e, ":")
						p.seeds[peer] = h
					}
				}
			}
			ps[id] = p
		}
		for i, a := range returned {
			for _, b := range returned[i+1:] {
				if ps[a].sid != ps[b].sid {
					bad = append(bad, finding{"inconsistent-context-returned", fmt.Sprintf("honest parties %d and %d completed with different session ids %s / %s", a, b, ps[a].sid, ps[b].sid)})
				}
				if ps[a].seeds[fmt.Sprint(uint64(b))] != ps[b].seeds[fmt.Sprint(uint64(a))] {
					bad = append(bad, finding{"inconsistent-context-returned", fmt.Sprintf("honest parties %d and %d completed with different pairwise seeds", a, b)})
				}
			}
		}
		return bad, returned
	}
	return o
}

// ---- shards (DKG / refresh) ------------------------------------------------------------

// judgeShards: every honest shard satisfies share·G = its own public share, all honest
// parties report the same public key and the same public shares, and every qualified subset of
// the honest parties that returned reconstructs the discrete log of the reported public key.
func judgeShards[E algebra.PrimeGroupElement[E, S], S algebra.PrimeFieldElement[S]](
	group algebra.PrimeGroup[E, S], ac accessstructures.Monotone, shards map[sharing.ID]*mpc.BaseShard[E, S], holders []sharing.ID, dev sharing.ID, wantPK *E,
) (bad []finding, returned []sharing.ID) {
	G := group.Generator()
	for _, id := range honestOf(holders, dev) {
		if shards[id] != nil {
			returned = append(returned, id)
		}
	}
	if len(returned) == 0 {
		return nil, nil
	}
	p := vh.Safely(func() {
		for _, id := range returned {
			sh := shards[id]
			pks, ok := sh.PublicKeyShares().Get(id)
			vals := sh.Share().Value()
			if !ok || len(pks.Value()) != len(vals) || sh.Share().ID() != id {
				bad = append(bad, finding{"bad-shard-returned", fmt.Sprintf("party %d: own public share missing or of another length", uint64(id))})
				continue
			}
			for k, v := range vals {
				if !G.ScalarOp(v).Equal(pks.Value()[k]) {
					bad = append(bad, finding{"bad-shard-returned", fmt.Sprintf("party %d coordinate %d: share·G != its public share", uint64(id), k)})
					break
				}
			}
			if wantPK != nil && !sh.PublicKeyValue().Equal(*wantPK) {
				bad = append(bad, finding{"key-changed", fmt.Sprintf("party %d reports public key %s, the key before the protocol was %s", uint64(id), vh.Hex(sh.PublicKeyValue().Bytes()), vh.Hex((*wantPK).Bytes()))})
			}
		}
		first := shards[returned[0]]
		for _, id := range returned[1:] {
			if !shards[id].PublicKeyValue().Equal(first.PublicKeyValue()) {
				bad = append(bad, finding{"bad-shard-returned", fmt.Sprintf("honest parties %d and %d report different public keys", uint64(returned[0]), uint64(id))})
			}
			for _, h := range returned {
				a, ok1 := first.PublicKeyShares().Get(h)
				b, ok2 := shards[id].PublicKeyShares().Get(h)
				if !ok1 || !ok2 || !a.Equal(b) {
					bad = append(bad, finding{"bad-shard-returned", fmt.Sprintf("honest parties %d and %d report different public shares for holder %d", uint64(returned[0]), uint64(id), uint64(h))})
				}
			}
		}
		scheme, err := feldman.NewScheme(group, ac)
		if err != nil {
			bad = append(bad, finding{"oracle-error", "feldman.NewScheme: " + err.Error()})
			return
		}
		n := len(returned)
		for mask := 1; mask < 1<<n; mask++ {
			var sub []sharing.ID
			var shs []*kw.Share[S]
			for i := 0; i < n; i++ {
				if mask>>i&1 == 1 {
					sub = append(sub, returned[i])
					shs = append(shs, shards[returned[i]].Share())
				}
			}
			if !ac.IsQualified(sub...) {
				continue
			}
			sec, err := scheme.Reconstruct(shs...)
			if err != nil {
				bad = append(bad, finding{"bad-shard-returned", fmt.Sprintf("qualified honest subset %v does not reconstruct: %v", sub, err)})
				continue
			}
			if !G.ScalarOp(sec.Value()).Equal(first.PublicKeyValue()) {
				bad = append(bad, finding{"bad-shard-returned", fmt.Sprintf("qualified honest subset %v reconstructs a value that is not the discrete log of the reported public key", sub)})
			}
		}
	})
	if p != "" {
		bad = append(bad, finding{"oracle-panic", p})
	}
	return bad, returned
}

// ---- gennaro ---------------------------------------------------------------------------

func runGennaro(seed int64, label string, hook drive.Hook) *outcome {
	pol, _ := keys.ParsePolicy(policy)
	ac, err := pol.Build()
	if err != nil {
		return &outcome{setupErr: err.Error()}
	}
	g := k256.NewCurve()
	res := dgen.RunFull(dgen.Config[*k256.Point, *k256.Scalar]{Seed: seed, Prop: "C04", Labels: labelsAll(label), Hook: hook, Group: g, AC: ac, Compiler: fiatshamir.Name})
	o := &outcome{tr: res.Trace, ids: res.IDs}
	o.judge = func(dev sharing.ID) ([]finding, []sharing.ID) {
		return judgeShards[*k256.Point, *k256.Scalar](g, ac, res.Shards, res.IDs, dev, nil)
	}
	return o
}

// ---- dkls23 (bbot) ---------------------------------------------------------------------

var message = []byte("C04 deviation check message")

func common(seed int64, label string, hook drive.Hook) keys.Common {
	return keys.Common{Seed: seed, Prop: "C04", Labels: labelsAll(label), Hook: hook, Quorum: parties, Session: "real", Message: message}
}

func runDkls(seed int64, label string, hook drive.Hook) *outcome {
	res := ddkls.RunFull(ddkls.Config{Common: common(seed, label, hook), Policy: policy, Curve: "k256", Hash: "sha256", Multiplier: "bbot"})
	o := &outcome{tr: res.Trace, ids: res.Quorum, agg: true, setupErr: res.SetupErr}
	o.judge = func(dev sharing.ID) (bad []finding, returned []sharing.ID) {
		if res.Sig == nil {
			return nil, nil
		}
		returned = []sharing.ID{0}
		if res.LibOK != "ok" {
			bad = append(bad, finding{"bad-signature-returned", "Aggregate returned a signature the library verifier rejects: " + res.Trace.Outputs[0]})
		}
		pk := pt{x: res.PKX, y: res.PKY}
		if !secpECDSAVerify(pk, res.Digest, res.Sig.R, res.Sig.S) {
			bad = append(bad, finding{"bad-signature-returned", "Aggregate returned a signature the independent verifier rejects: " + res.Trace.Outputs[0]})
		}
		return bad, returned
	}
	return o
}

// ---- lindell22 (BIP-340) ---------------------------------------------------------------

func runL22(seed int64, label string, hook drive.Hook) *outcome {
	res := dl22.RunFull(dl22.Config{Common: common(seed, label, hook), Policy: policy, Variant: "bip340"})
	o := &outcome{tr: res.Trace, ids: res.Quorum, agg: true, setupErr: res.SetupErr}
	o.judge = func(dev sharing.ID) (bad []finding, returned []sharing.ID) {
		chk := func(who sharing.ID, s *dl22.Sig) {
			if s == nil {
				return
			}
			returned = append(returned, who)
			if s.Lib != "ok" {
				bad = append(bad, finding{"bad-signature-returned", fmt.Sprintf("aggregator %d returned a signature the library verifier rejects: %s", uint64(who), vh.Hex(s.Wire))})
			}
			if len(res.PK) != 33 || !bip340Verify(res.PK[1:], message, s.Wire) {
				bad = append(bad, finding{"bad-signature-returned", fmt.Sprintf("aggregator %d returned a signature the independent BIP-340 verifier rejects: %s", uint64(who), vh.Hex(s.Wire))})
			}
		}
		chk(0, res.Sig)
		for _, id := range honestOf(res.Quorum, dev) {
			chk(id, res.SigBy[id])
		}
		sort.Slice(returned, func(i, j int) bool { return returned[i] < returned[j] })
		return bad, returned
	}
	return o
}
