// Command c04 is the harness of property C04 ("a deviating party is detected, blamed
// correctly, and cannot cause a bad output").
//
// For every covered protocol it runs the real round functions of /repo with three parties
// (through the protocol drivers of harness/internal/drive), intercepts the CBOR bytes of ONE
// message, applies one mutation of harness/internal/tamper to one leaf of the message tree
// (identically for every recipient of a broadcast), lets the run continue and evaluates
//
//	(a) no honest party panics or hangs,
//	(b) every party an honest party blames is the deviating sender (or an honest party that had
//	    already aborted in an earlier round, whose message is then missing),
//	(c) every result an honest party or the aggregator returns is good (signature verifies under
//	    the library's and an independent verifier; shard consistent with the reported key; ...),
//	(d) a change of a leaf that the model (coq/model/Deviate.v, `classify`) marks bound is
//	    rejected by the recipient (unicast) / by some honest party or the aggregator (broadcast);
//	    a leaf marked late is rejected by some honest party or the aggregator.
//
// The parties run in a child process supervised by this program (see supervise): a panic in a
// goroutine started by the library cannot be recovered and would otherwise kill the check.
// Regression cases of earlier findings are kept in corpus/c04/cases.txt and run first.
//
// (a)-(c) are model-free (Kind "prop"); (d) compares with the model's classification table
// (Kind "prop" as well, because a bound leaf that goes undetected is a failure of the property
// itself; What names the model theorem).
package main

import (
	"encoding/json"
	"fmt"
	"io"
	"os"
	"os/exec"
	"path/filepath"
	"regexp"
	"sort"
	"strconv"
	"strings"
	"syscall"
	"time"

	"github.com/bronlabs/bron-crypto/pkg/mpc/sharing"

	"verif/harness/internal/drive"
	"verif/harness/internal/drive/keys"
	"verif/harness/internal/tamper"
	"verif/harness/internal/vh"
)

// ---- recorded messages ------------------------------------------------------------------

type msgKey struct {
	round    int
	from, to sharing.ID // to == 0: broadcast (or message to the aggregator)
}

func (k msgKey) String() string {
	return fmt.Sprintf("r%df%dt%d", k.round, uint64(k.from), uint64(k.to))
}

type recorded struct {
	keys  []msgKey
	bytes map[msgKey][]byte
}

type recHook struct{ rec *recorded }

func (h recHook) OnMessage(m *drive.Msg, _ sharing.ID) []byte {
	k := msgKey{m.Round, m.From, m.To}
	if _, ok := h.rec.bytes[k]; !ok {
		h.rec.bytes[k] = append([]byte(nil), m.Payload...)
		h.rec.keys = append(h.rec.keys, k)
	}
	return m.Payload
}

// ---- a mutation -------------------------------------------------------------------------

type mutation struct {
	proto    string
	key      msgKey
	path     string // leaf path (flip, zero, truncate, extend) or node path (replace, swap); "" for whole-message operators
	kind     string // leaf kind (tamper.K*) or "msg"
	field    string // model field name: the path with indices removed
	op       tamper.Op
	replayBy []byte // replay: the bytes delivered instead
	// replay "altround": EVERY message the sender produced in that round (its broadcast and all
	// its unicasts) is replaced by the corresponding message of the sender's alternative run
	roundWide bool
	alt       *recorded
}

func (m *mutation) text() string {
	return fmt.Sprintf("proto=%s;round=%d;from=%d;to=%d;kind=%s;path=%s;op=%s", m.proto, m.key.round, uint64(m.key.from), uint64(m.key.to), m.kind, m.path, m.op.String())
}

var reIdx = regexp.MustCompile(`\[\d+\]|\.#\d+|~\d+`)

// fieldOf strips indices and leaf suffixes from a path: ".mulR3.aTilde[5][1]!" -> "mulR3.aTilde".
func fieldOf(path string) string {
	if i := strings.Index(path, "^"); i >= 0 {
		path = path[:i] // inside an embedded item: the field is the byte string that carries it
	}
	p := reIdx.ReplaceAllString(path, "")
	p = strings.NewReplacer("!", "", "@len", "", "@tag", "").Replace(p)
	return strings.TrimPrefix(p, ".")
}

// stratumPath keeps the structure but forgets the indices: ".mulR3.aTilde[*][*]!".
func stratumPath(path string) string { return reIdx.ReplaceAllString(path, "[*]") }

type mutHook struct {
	m        *mutation
	pool     *tamper.Pool
	cached   bool
	original []byte
	altered  []byte
	applied  bool   // the operator changed the bytes
	err      string // the operator could not be applied
}

func (h *mutHook) OnMessage(m *drive.Msg, _ sharing.ID) []byte {
	if h.m.roundWide {
		if m.Round != h.m.key.round || m.From != h.m.key.from || h.m.alt == nil {
			return m.Payload
		}
		h.cached = true
		if b, ok := h.m.alt.bytes[msgKey{m.Round, m.From, m.To}]; ok && string(b) != string(m.Payload) {
			h.applied = true
			return b
		}
		return m.Payload
	}
	if m.Round != h.m.key.round || m.From != h.m.key.from || m.To != h.m.key.to {
		return m.Payload
	}
	if !h.cached {
		h.cached = true
		h.original = append([]byte(nil), m.Payload...)
		h.altered, h.applied, h.err = h.compute(m.Payload)
	}
	if !h.applied {
		return m.Payload
	}
	return h.altered // nil for drop
}

func (h *mutHook) compute(payload []byte) (out []byte, applied bool, errText string) {
	op := h.m.op
	switch op.Kind {
	case tamper.OpDrop:
		return nil, true, ""
	case tamper.OpReplay:
		if h.m.replayBy == nil || string(h.m.replayBy) == string(payload) {
			return nil, false, "replay source equals the message"
		}
		return h.m.replayBy, true, ""
	case tamper.OpReplace, tamper.OpSwap:
		if op.Kind == tamper.OpReplace && op.Donor == nil {
			op.Donor = h.pool.Lookup(op.Src)
			if op.Donor == nil {
				return nil, false, "no donor " + op.Src
			}
		}
		b, ch, err := tamper.ApplyNode(payload, h.m.path, op)
		if err != nil {
			return nil, false, err.Error()
		}
		return b, ch, ""
	}
	b, ch, err := tamper.Apply(payload, h.m.path, op)
	if err != nil {
		return nil, false, err.Error()
	}
	return b, ch, ""
}

// ---- enumeration ------------------------------------------------------------------------

// candidates lists the mutations of one message: every leaf with every operator that applies
// to its kind, plus the whole-message operators.
func candidates(a *adapter, k msgKey, rec, par *recorded, alts map[sharing.ID]*recorded, pool *tamper.Pool, rng *vh.Rng, capPer int) []*mutation {
	payload := rec.bytes[k]
	root, err := tamper.Parse(payload)
	if err != nil {
		return nil
	}
	var out []*mutation
	add := func(path, kind string, op tamper.Op) {
		out = append(out, &mutation{proto: a.name, key: k, path: path, kind: kind, field: fieldOf(path), op: op})
	}
	allLeaves := tamper.Leaves(root)
	// at most capPer leaves per structural position (large vectors are sampled)
	groups := map[string][]*tamper.Leaf{}
	var gorder []string
	for _, l := range allLeaves {
		g := stratumPath(l.Path) + "/" + l.Kind
		if _, ok := groups[g]; !ok {
			gorder = append(gorder, g)
		}
		groups[g] = append(groups[g], l)
	}
	var leaves []*tamper.Leaf
	for _, g := range gorder {
		ls := groups[g]
		if len(ls) <= capPer {
			leaves = append(leaves, ls...)
			continue
		}
		picked := map[int]bool{}
		for len(picked) < capPer {
			picked[rng.Intn(len(ls))] = true
		}
		for i, l := range ls {
			if picked[i] {
				leaves = append(leaves, l)
			}
		}
	}
	// value nodes by shape, for swaps inside the message
	type vn struct {
		path string
		node *tamper.Node
	}
	byShape := map[string][]vn{}
	for _, l := range allLeaves {
		if l.Kind != tamper.KBytes && l.Kind != tamper.KUint {
			continue
		}
		v := tamper.ValueNode(root, l)
		if len(byShape[v.Shape()]) >= 64 {
			continue
		}
		if p, ok := tamper.PathOf(root, v); ok {
			byShape[v.Shape()] = append(byShape[v.Shape()], vn{p, v})
		}
	}
	for _, l := range leaves {
		switch l.Kind {
		case tamper.KBytes:
			if l.Bits > 0 {
				add(l.Path, l.Kind, tamper.Op{Kind: tamper.OpFlip, I: rng.Intn(l.Bits)})
				add(l.Path, l.Kind, tamper.Op{Kind: tamper.OpZero})
			}
			add(l.Path, l.Kind, tamper.Op{Kind: tamper.OpTruncate})
			add(l.Path, l.Kind, tamper.Op{Kind: tamper.OpExtend})
		case tamper.KText:
			add(l.Path, l.Kind, tamper.Op{Kind: tamper.OpFlip, I: rng.Intn(max(l.Bits, 1))})
			add(l.Path, l.Kind, tamper.Op{Kind: tamper.OpTruncate})
		case tamper.KUint, tamper.KNint:
			add(l.Path, l.Kind, tamper.Op{Kind: tamper.OpFlip, I: rng.Intn(3)})
			add(l.Path, l.Kind, tamper.Op{Kind: tamper.OpFlip, I: 32 + rng.Intn(32)})
		case tamper.KArrLen, tamper.KMapLen:
			add(l.Path, l.Kind, tamper.Op{Kind: tamper.OpTruncate})
			add(l.Path, l.Kind, tamper.Op{Kind: tamper.OpExtend})
		case tamper.KMapKey:
			add(l.Path, l.Kind, tamper.Op{Kind: tamper.OpFlip, I: rng.Intn(max(l.Bits, 1))})
		case tamper.KTag:
			add(l.Path, l.Kind, tamper.Op{Kind: tamper.OpFlip, I: rng.Intn(4)})
		case tamper.KSimple:
			add(l.Path, l.Kind, tamper.Op{Kind: tamper.OpFlip})
		}
		if l.Kind == tamper.KBytes || l.Kind == tamper.KUint {
			v := tamper.ValueNode(root, l)
			vp, ok := tamper.PathOf(root, v)
			if !ok {
				continue
			}
			// ReplaceWith: another valid value of the same kind from another message / party / session
			srcs, nodes := pool.Donors(v)
			if len(srcs) > 0 {
				// prefer a donor from another message
				var cand []int
				for i, s := range srcs {
					if !strings.HasPrefix(s, k.String()+":") {
						cand = append(cand, i)
					}
				}
				if len(cand) == 0 {
					for i := range srcs {
						cand = append(cand, i)
					}
				}
				i := cand[rng.Intn(len(cand))]
				out = append(out, &mutation{proto: a.name, key: k, path: vp, kind: l.Kind, field: fieldOf(vp), op: tamper.Op{Kind: tamper.OpReplace, Donor: nodes[i], Src: srcs[i]}})
			}
			// SwapWith: another value of the same kind in the same message
			var others []vn
			for _, o := range byShape[v.Shape()] {
				if o.node != v && string(o.node.Encode()) != string(v.Encode()) {
					others = append(others, o)
				}
			}
			if len(others) > 0 {
				o := others[rng.Intn(len(others))]
				out = append(out, &mutation{proto: a.name, key: k, path: vp, kind: l.Kind, field: fieldOf(vp), op: tamper.Op{Kind: tamper.OpSwap, Other: o.path}})
			}
		}
	}
	// whole-message operators
	whole := func(op tamper.Op, by []byte) {
		out = append(out, &mutation{proto: a.name, key: k, kind: "msg", op: op, replayBy: by})
	}
	whole(tamper.Op{Kind: tamper.OpDrop}, nil)
	whole(tamper.Op{Kind: tamper.OpMalformed, I: rng.Intn(len(payload))}, nil)
	whole(tamper.Op{Kind: tamper.OpMalformed, I: len(payload) - 2}, nil)
	for _, o := range rec.keys { // another sender's message of the same round and type; another recipient's copy
		if o.round != k.round || o == k {
			continue
		}
		if (o.to == 0) != (k.to == 0) {
			continue
		}
		switch {
		case o.from != k.from && (o.to == k.to || k.to == 0) && o.from != k.to:
			whole(tamper.Op{Kind: tamper.OpReplay, Src: "sender:" + o.String()}, rec.bytes[o])
		case o.from == k.from && o.to != k.to:
			whole(tamper.Op{Kind: tamper.OpReplay, Src: "recipient:" + o.String()}, rec.bytes[o])
		}
	}
	if b, ok := par.bytes[k]; ok {
		whole(tamper.Op{Kind: tamper.OpReplay, Src: "session:" + k.String()}, b)
	}
	if alt := alts[k.from]; alt != nil {
		if b, ok := alt.bytes[k]; ok {
			whole(tamper.Op{Kind: tamper.OpReplay, Src: "alt:" + k.String()}, b)
		}
		// once per (round, sender): all of the sender's messages of the round from its alternative run
		first := true
		for _, o := range rec.keys {
			if o.round == k.round && o.from == k.from {
				first = o == k
				break
			}
		}
		if first {
			out = append(out, &mutation{proto: a.name, key: msgKey{k.round, k.from, 0}, kind: "msg", op: tamper.Op{Kind: tamper.OpReplay, Src: fmt.Sprintf("altround:r%df%d", k.round, uint64(k.from))}, roundWide: true, alt: alt})
		}
	}
	return out
}

// ---- one evaluated run ------------------------------------------------------------------

type runReport struct {
	findings  []finding
	class     string // summary class for the distribution
	detected  bool
	rcptRej   bool
	applied   bool
	canon     string
	firstRej  int
	modelWant string
	details   []string
}

const runTimeout = 15 * time.Minute // generous: the machine may be heavily loaded; an honest 3-party DKLs23 run has been seen to take a minute

func runWithTimeout(a *adapter, seed int64, label map[sharing.ID]string, hook drive.Hook) (o *outcome, status string) {
	ch := make(chan *outcome, 1)
	var pan string
	go func() {
		var r *outcome
		pan = vh.Safely(func() { r = a.run(seed, label, hook) })
		ch <- r
	}()
	select {
	case r := <-ch:
		if pan != "" {
			return nil, "panic: " + pan
		}
		return r, ""
	case <-time.After(runTimeout):
		return nil, "timeout"
	}
}

func isReject(v drive.Verdict) bool { return v.Class == "reject" || v.Class == "reject_blame" }

// evaluate runs the protocol with the mutation and applies the oracle.  want is the model's
// class of the mutated leaf: "bound" | "late" | "unbound" | "cond" | "" (no model).
func evaluate(a *adapter, seed int64, m *mutation, pool *tamper.Pool, want string) *runReport {
	rep := &runReport{modelWant: want}
	h := &mutHook{m: m, pool: pool}
	o, status := runWithTimeout(a, seed, labelsAll("a"), h)
	add := func(clause, detail string) { rep.findings = append(rep.findings, finding{clause, detail}) }
	if status == "timeout" {
		add("timeout", "the run did not return within "+runTimeout.String())
		rep.class = "timeout"
		rep.applied = true
		return rep
	}
	if status != "" {
		add("panic-outside-step", status)
		rep.class = "panic"
		rep.applied = true
		return rep
	}
	if o.setupErr != "" {
		add("setup-failed", o.setupErr)
		rep.class = "setup-failed"
		return rep
	}
	if o.forget != nil {
		defer o.forget()
	}
	rep.applied = h.applied
	if !h.cached {
		rep.class = "message-not-seen"
		return rep
	}
	if !h.applied {
		rep.class = "noop"
		return rep
	}
	dev := m.key.from
	honest := honestOf(o.ids, dev)
	if o.agg {
		honest = append([]sharing.ID{0}, honest...)
	}
	var vt []string
	for _, id := range append(append([]sharing.ID(nil), honest...), dev) {
		v, ok := o.tr.Verdicts[id]
		if !ok {
			vt = append(vt, fmt.Sprintf("%d:none", uint64(id)))
			continue
		}
		vt = append(vt, fmt.Sprintf("%d:%s@%d", uint64(id), v.String(), v.Round))
	}
	rep.canon = m.text() + " => " + strings.Join(vt, " ")
	for _, id := range honest {
		if v, ok := o.tr.Verdicts[id]; ok && v.Class != "ok" {
			rep.details = append(rep.details, fmt.Sprintf("%d: %s", uint64(id), v.Detail))
		}
	}
	// (a) panics
	for _, id := range honest {
		if v := o.tr.Verdicts[id]; v.Class == "panic" {
			add("panic", fmt.Sprintf("honest party %d panicked in round %d: %s", uint64(id), v.Round, v.Detail))
		} else if v.Class == "timeout" {
			add("timeout", fmt.Sprintf("honest party %d timed out in round %d", uint64(id), v.Round))
		}
	}
	// (b) blame: blamed ⊆ {deviator} ∪ {honest parties that aborted in an earlier round}
	abortedAt := map[sharing.ID]int{}
	first := 0
	for _, id := range honest {
		if v := o.tr.Verdicts[id]; isReject(v) || v.Class == "panic" {
			abortedAt[id] = v.Round
			if first == 0 || v.Round < first {
				first = v.Round
			}
		}
	}
	rep.firstRej = first
	for _, id := range honest {
		v := o.tr.Verdicts[id]
		if v.Class != "reject_blame" {
			continue
		}
		for _, b := range v.Blamed {
			if b == dev {
				continue
			}
			if r, ok := abortedAt[b]; ok && r < v.Round && b != id {
				continue // b aborted earlier; its message is missing
			}
			add("blame-wrong-party", fmt.Sprintf("honest party %d blames %d in round %d (deviator is %d): %s", uint64(id), uint64(b), v.Round, uint64(dev), v.Detail))
		}
	}
	// (c) outputs
	bad, returned := o.judge(dev)
	rep.findings = append(rep.findings, bad...)
	// (d) detection
	for _, id := range honest {
		if isReject(o.tr.Verdicts[id]) {
			rep.detected = true
		}
	}
	if m.key.to != 0 && !m.roundWide {
		rep.rcptRej = isReject(o.tr.Verdicts[m.key.to])
	}
	semNoop := false
	if (want == "bound" || want == "late") && !(rep.detected && (m.key.to == 0 || rep.rcptRej || want == "late")) {
		if a.norm != nil && h.altered != nil {
			if n := a.norm(m.key.round, m.key.to == 0, h.altered); n != nil && string(n) == string(h.original) {
				semNoop = true
			}
		} else if a.norm == nil && (m.op.Kind == tamper.OpExtend || m.op.Kind == tamper.OpTruncate) {
			semNoop = true // cannot tell without a typed decoder: no expectation
		}
	}
	if semNoop {
		want = "noop"
		rep.modelWant = "noop"
	}
	panicked := false
	for _, f := range rep.findings {
		if f.clause == "panic" || f.clause == "timeout" {
			panicked = true
		}
	}
	switch {
	case panicked:
		// already reported under clause (a)
	case want == "bound" && o.agg && o.aggRound != 0 && m.key.round == o.aggRound && m.key.to == 0:
		// an input of the aggregator(s): every honest consumer of it must refuse
		consumers := []sharing.ID{0}
		if o.cosigners {
			consumers = append(consumers, honestOf(o.ids, dev)...)
		}
		var accepting []string
		for _, id := range consumers {
			if !isReject(o.tr.Verdicts[id]) {
				accepting = append(accepting, fmt.Sprint(uint64(id)))
			}
		}
		if len(accepting) > 0 {
			add("bound-leaf-undetected", fmt.Sprintf("the altered partial signature was not refused by aggregator(s) %s (0 = the plain aggregator) (%s); results returned by %v", strings.Join(accepting, ","), strings.Join(vt, " "), returned))
		}
	case want == "bound":
		if m.key.to != 0 && !rep.rcptRej {
			add("bound-leaf-undetected", fmt.Sprintf("the recipient %d of the altered unicast did not reject (%s); results returned by %v", uint64(m.key.to), strings.Join(vt, " "), returned))
		} else if !rep.detected {
			add("bound-leaf-undetected", fmt.Sprintf("no honest party and no aggregator rejected (%s); results returned by %v", strings.Join(vt, " "), returned))
		}
	case want == "late":
		switch {
		case !rep.detected:
			add("bound-leaf-undetected", fmt.Sprintf("no honest party and no aggregator rejected (%s); results returned by %v", strings.Join(vt, " "), returned))
		case m.key.to != 0 && !rep.rcptRej && len(bad) == 0:
			// the property text wants the recipient of a unicast to reject; for these leaves the
			// protocol only notices at aggregation (model class Late, theorem C04_dkls_late)
			add("unicast-detected-only-by-aggregator", fmt.Sprintf("the recipient %d of the altered unicast accepted it; the deviation was only noticed downstream (%s); no result returned by an honest party or the aggregator: %v", uint64(m.key.to), strings.Join(vt, " "), len(returned) == 0))
		}
	}
	switch {
	case len(rep.findings) > 0:
		rep.class = "FAIL"
	case semNoop:
		rep.class = "same-message-after-decoding"
	case rep.detected && m.key.to != 0 && rep.rcptRej:
		rep.class = "rejected-by-recipient"
	case rep.detected:
		rep.class = "rejected"
	case len(returned) > 0:
		rep.class = "accepted-good-output"
	default:
		rep.class = "no-reject-no-output"
	}
	return rep
}

// ---- model ------------------------------------------------------------------------------

// structuralOp: the operator changes the SHAPE of the message (lengths, tags, field names,
// the framing itself); the model's Validate predicate covers all of them.
func structuralOp(m *mutation) bool {
	switch m.op.Kind {
	case tamper.OpTruncate, tamper.OpExtend:
		// a byte string of another length: the library's decoder zero-pads / cuts it when the
		// target is a fixed-size array, i.e. it is a VALUE change of that leaf (or none at all)
		return m.kind != tamper.KBytes
	case tamper.OpMalformed, tamper.OpDrop:
		return true
	}
	switch m.kind {
	case tamper.KArrLen, tamper.KMapLen, tamper.KMapKey, tamper.KTag, tamper.KSimple, tamper.KText:
		return true
	}
	return false
}

func bcastText(k msgKey) string {
	if k.to == 0 {
		return "b"
	}
	return "u"
}

// modelClasses asks the extracted model for the class of every (protocol, round, b|u, field).
func modelClasses(driver string, muts []*mutation) (map[string]string, error) {
	want := map[string]string{}
	var lines []string
	seen := map[string]bool{}
	for _, m := range muts {
		q := fmt.Sprintf("classify %s %d %s %s", m.proto, m.key.round, bcastText(m.key), vh.Hex([]byte(m.field)))
		if !seen[q] {
			seen[q] = true
			lines = append(lines, q)
		}
	}
	if len(lines) == 0 {
		return want, nil
	}
	if driver == "" {
		return nil, fmt.Errorf("no model driver")
	}
	out, err := vh.Driver(driver, lines)
	if err != nil {
		return nil, err
	}
	for i, l := range lines {
		want[l] = strings.TrimSpace(out[i])
	}
	return want, nil
}

func dash(s string) string {
	if s == "" {
		return "-"
	}
	return s
}

func wantOf(classes map[string]string, a *adapter, m *mutation) string {
	if !a.modelled || classes == nil {
		return ""
	}
	if m.op.Kind == tamper.OpReplay {
		return "" // a whole valid message of another sender / session: judged by (a)-(c) only, and by C08/C10 for the binding
	}
	if strings.Contains(m.path, "^") {
		return "" // inside a proof carried as opaque bytes: what a proof binds is C08's subject; (a)-(c) only
	}
	if structuralOp(m) {
		return "bound"
	}
	c := classes[fmt.Sprintf("classify %s %d %s %s", m.proto, m.key.round, bcastText(m.key), vh.Hex([]byte(m.field)))]
	if c == "unknown" || c == "error" {
		return "" // a leaf the model has no field for: clauses (a)-(c) only
	}
	return c
}

// ---- main -------------------------------------------------------------------------------

func cpuSeconds() float64 {
	var ru syscall.Rusage
	if syscall.Getrusage(syscall.RUSAGE_SELF, &ru) != nil {
		return 0
	}
	return float64(ru.Utime.Sec+ru.Stime.Sec) + float64(ru.Utime.Usec+ru.Stime.Usec)/1e6
}

func parseCase(s string) (*mutation, error) {
	m := &mutation{}
	for _, f := range strings.Split(strings.TrimSpace(s), ";") {
		k, v, _ := strings.Cut(f, "=")
		switch k {
		case "proto":
			m.proto = v
		case "round":
			m.key.round, _ = strconv.Atoi(v)
		case "from":
			x, _ := strconv.ParseUint(v, 10, 64)
			m.key.from = sharing.ID(x)
		case "to":
			x, _ := strconv.ParseUint(v, 10, 64)
			m.key.to = sharing.ID(x)
		case "kind":
			m.kind = v
		case "path":
			m.path = v
		case "op":
			op, err := tamper.ParseOp(v)
			if err != nil {
				return nil, err
			}
			m.op = op
		}
	}
	if i := strings.Index(m.path, " =>"); i >= 0 {
		m.path = m.path[:i]
	}
	m.field = fieldOf(m.path)
	if m.proto == "" {
		return nil, fmt.Errorf("no protocol in case %q", s)
	}
	return m, nil
}

type protoState struct {
	a    *adapter
	rec  *recorded
	par  *recorded
	alts map[sharing.ID]*recorded
	pool *tamper.Pool
	secs float64
}

func prepare(a *adapter, seed int64, res *vh.Result) *protoState {
	st := &protoState{a: a, rec: &recorded{bytes: map[msgKey][]byte{}}, par: &recorded{bytes: map[msgKey][]byte{}}, pool: tamper.NewPool()}
	t0 := time.Now()
	o, status := runWithTimeout(a, seed, labelsAll("a"), recHook{st.rec})
	st.secs = time.Since(t0).Seconds()
	fail := func(key, detail string) *protoState {
		res.Mismatch(vh.Mismatch{ID: a.name + "-honest", Kind: "prop", Key: a.name + "-" + key, Detail: detail, Case: "proto=" + a.name + ";honest", PropFail: true, What: "honest run of the unchanged protocol"})
		return nil
	}
	if status != "" {
		return fail("honest-run-"+strings.SplitN(status, ":", 2)[0], status)
	}
	if o.setupErr != "" {
		res.Note("%s: skipped, setup failed: %s", a.name, o.setupErr)
		return nil
	}
	ids := append([]sharing.ID(nil), o.ids...)
	if o.agg {
		ids = append(ids, 0)
	}
	for _, id := range ids {
		if v, ok := o.tr.Verdicts[id]; !ok || v.Class != "ok" {
			return fail("honest-run-rejects", fmt.Sprintf("party %d: %s in round %d: %s", uint64(id), v.String(), v.Round, v.Detail))
		}
	}
	bad, returned := o.judge(0)
	if len(bad) > 0 {
		return fail("honest-run-"+bad[0].clause, bad[0].detail)
	}
	if len(returned) == 0 {
		return fail("honest-run-no-output", "no party returned a result")
	}
	if o.forget != nil {
		o.forget()
	}
	// the parallel session: same keys, other randomness and session
	st.alts = map[sharing.ID]*recorded{}
	if !a.noParallel {
		if o2, status := runWithTimeout(a, seed, labelsAll("b"), recHook{st.par}); status == "" && o2 != nil && o2.forget != nil {
			o2.forget()
		}
		// one alternative run per party: same session, only that party's randomness differs
		for _, d := range ids {
			if d == 0 {
				continue
			}
			alt := &recorded{bytes: map[msgKey][]byte{}}
			if o3, status := runWithTimeout(a, seed, labelsAlt(d), recHook{alt}); status == "" && o3 != nil && o3.setupErr == "" {
				st.alts[d] = alt
				for _, k := range alt.keys {
					if k.from == d {
						st.pool.Add(fmt.Sprintf("alt%d-%s", uint64(d), k.String()), alt.bytes[k])
					}
				}
			}
		}
	}
	for _, k := range st.rec.keys {
		st.pool.Add(k.String(), st.rec.bytes[k])
	}
	for _, k := range st.par.keys {
		st.pool.Add("par-"+k.String(), st.par.bytes[k])
	}
	return st
}

// quotas: number of mutated runs per protocol and tier.
var quota = map[string]map[string]int{
	"quick": {"session": 90, "gennaro": 80, "hjky": 60, "redistribute": 90, "redistribute-recover": 30, "lindell22": 100, "lindell22-2": 24, "boldyreva": 34, "boldyreva-pop": 24, "boldyreva-3": 4, "dkls23": 2, "aor": 40,
		"canetti": 60, "dkls23-softspoken": 2, "lindell17": 3, "cggmp21": 0},
	"thorough": {"session": 3000, "gennaro": 1500, "hjky": 800, "redistribute": 1500, "redistribute-recover": 600, "lindell22": 1500, "lindell22-2": 400, "boldyreva": 200, "boldyreva-pop": 200, "boldyreva-3": 100, "dkls23": 45, "aor": 600, "lindell17dkg": 24,
		"canetti": 1000, "dkls23-softspoken": 40, "lindell17": 60, "cggmp21": 40},
}

func quotaOf(tier, name string, search bool) int {
	n := quota[tier][name]
	if search {
		n *= 3
	}
	for _, kv := range strings.Split(os.Getenv("C04_QUOTA"), ",") {
		if k, v, ok := strings.Cut(kv, "="); ok && k == name {
			n, _ = strconv.Atoi(v)
		}
	}
	return n
}

// opRank orders the strata so that a small quota first covers value changes of every field.
func opRank(m *mutation) int {
	if strings.Contains(m.path, "^") && (m.kind == tamper.KMapLen || m.kind == tamper.KArrLen) && m.op.Kind == tamper.OpTruncate {
		return 1 // a component missing inside an embedded proof: the decoder / verifier must refuse, not crash
	}
	if m.kind == tamper.KBytes || m.kind == tamper.KUint || m.kind == tamper.KNint {
		switch m.op.Kind {
		case tamper.OpFlip:
			return 0
		case tamper.OpReplace:
			return 1
		case tamper.OpSwap:
			return 2
		case tamper.OpZero:
			return 3
		case tamper.OpTruncate:
			return 7
		case tamper.OpExtend:
			return 8
		}
	}
	switch m.op.Kind {
	case tamper.OpDrop:
		return 4
	case tamper.OpReplay:
		if m.roundWide {
			return -1 // few strata (one per round), and the only operator that makes a CONSISTENT deviation
		}
		if strings.HasPrefix(m.op.Src, "alt:") {
			return 1
		}
		return 5
	case tamper.OpMalformed:
		return 6
	}
	return 9
}

// supervise runs the harness proper as a child process.  A panic in a goroutine started by the
// library (e.g. the branch verifiers of an AND-composed proof) cannot be recovered by anybody and
// takes the whole process down: the child records the case it is about to run in a progress file,
// so that the supervisor can report exactly that case as a crash (clause (a)) and restart the
// child with the case on its skip list.
func supervise(a vh.Args) {
	dir, err := os.MkdirTemp("", "c04-")
	if err != nil {
		fmt.Fprintln(os.Stderr, err)
		os.Exit(2)
	}
	defer os.RemoveAll(dir)
	progress, skip := filepath.Join(dir, "progress"), filepath.Join(dir, "skip")
	var crashes []vh.Mismatch
	var skipped []string
	for attempt := 0; attempt < 8; attempt++ {
		os.Remove(a.Out)
		os.Remove(progress)
		os.WriteFile(skip, []byte(strings.Join(skipped, "\n")), 0o644)
		cmd := exec.Command(os.Args[0], os.Args[1:]...)
		cmd.Env = append(os.Environ(), "C04_WORKER=1", "C04_PROGRESS="+progress, "C04_SKIP="+skip)
		var errb tailBuffer
		cmd.Stdout = os.Stdout
		cmd.Stderr = io.MultiWriter(os.Stderr, &errb)
		runErr := cmd.Run()
		if _, statErr := os.Stat(a.Out); runErr == nil && statErr == nil {
			break
		}
		cur, _ := os.ReadFile(progress)
		c := strings.TrimSpace(string(cur))
		if c == "" {
			fmt.Fprintf(os.Stderr, "c04: the harness died outside a case: %v\n", runErr)
			os.Exit(2)
		}
		m, perr := parseCase(c)
		proto := "unknown"
		if perr == nil {
			proto = m.proto
		}
		tail := errb.String()
		if i := strings.Index(tail, "panic:"); i >= 0 {
			tail = tail[i:]
		}
		if len(tail) > 1500 {
			tail = tail[:1500]
		}
		crashes = append(crashes, vh.Mismatch{ID: fmt.Sprintf("crash-%d", attempt), Kind: "prop", Key: proto + "-process-crash",
			Detail: "the process of the parties died while this case ran (a panic outside the calling goroutine cannot be recovered): " + strings.ReplaceAll(tail, "\n", " | "),
			Case:   c, PropFail: true, What: "property oracle clause: no honest party crashes"})
		skipped = append(skipped, c)
	}
	data, err := os.ReadFile(a.Out)
	if err != nil {
		fmt.Fprintln(os.Stderr, "c04: no result:", err)
		os.Exit(2)
	}
	if len(crashes) == 0 {
		return
	}
	var doc map[string]any
	if json.Unmarshal(data, &doc) != nil {
		os.Exit(2)
	}
	ms, _ := doc["mismatches"].([]any)
	for _, c := range crashes {
		b, _ := json.Marshal(c)
		var v any
		json.Unmarshal(b, &v)
		ms = append(ms, v)
	}
	doc["mismatches"] = ms
	out, _ := json.MarshalIndent(doc, "", " ")
	os.WriteFile(a.Out, append(out, '\n'), 0o644)
}

// tailBuffer keeps the last 64 KiB written to it.
type tailBuffer struct{ b []byte }

func (t *tailBuffer) Write(p []byte) (int, error) {
	t.b = append(t.b, p...)
	if len(t.b) > 1<<16 {
		t.b = t.b[len(t.b)-1<<16:]
	}
	return len(p), nil
}
func (t *tailBuffer) String() string { return string(t.b) }

func main() {
	a := vh.ParseArgs()
	if os.Getenv("C04_WORKER") == "" && a.Out != "" {
		supervise(a)
		return
	}
	skipCases := map[string]bool{}
	if data, err := os.ReadFile(os.Getenv("C04_SKIP")); err == nil {
		for _, l := range strings.Split(string(data), "\n") {
			if l != "" {
				skipCases[l] = true
			}
		}
	}
	progressFile := os.Getenv("C04_PROGRESS")
	// about marks the case that is about to run; it reports false for a case on the skip list
	about := func(m *mutation) bool {
		if skipCases[m.text()] {
			return false
		}
		if progressFile != "" {
			os.WriteFile(progressFile, []byte(m.text()), 0o644)
		}
		return true
	}
	res := vh.NewResult("C04", a.Seed, a.Tier)
	res.Rule = "for each protocol (3 parties 1,2,3; keys 2-of-3) one honest run records every message; a mutation = (protocol, round, sender, recipient|broadcast, leaf path, operator) applied to the CBOR tree of ONE message (uniformly for a broadcast), operators flip / zero / truncate / extend / replace (donor of the same shape from another message, party or the parallel session) / swap (two values of one message) / drop / malformed / replay (other sender's, other recipient's, parallel session's message; the same sender's message from an ALTERNATIVE execution of the same session in which only its own randomness differs, for one message or for all its messages of a round = a consistently deviating dealer); quick: stratified sample, at least one mutation per (protocol, round, b|u, field, leaf kind, operator) up to a fixed quota; thorough: a larger quota over all senders and recipients; non-trivial = the mutated bytes differ and were delivered"
	tier := a.Tier
	if tier != "thorough" {
		tier = "quick"
	}
	ads := adapters(tier)
	if os.Getenv("C04_PROTOS") != "" {
		var sel []*adapter
		for _, ad := range ads {
			if strings.Contains(","+os.Getenv("C04_PROTOS")+",", ","+ad.name+",") {
				sel = append(sel, ad)
			}
		}
		ads = sel
	}
	byName := map[string]*adapter{}
	for _, ad := range ads {
		byName[ad.name] = ad
	}
	if tier != "thorough" && a.Replay == "" {
		var sel []*adapter
		for _, ad := range ads {
			if !ad.thoroughOnly {
				sel = append(sel, ad)
			}
		}
		ads = sel
	}

	report := func(st *protoState, m *mutation, rep *runReport, idx int) {
		res.Count(fmt.Sprintf("%s/%s/%s", m.proto, m.op.Kind, rep.class), rep.canon, rep.applied)
		if os.Getenv("C04_VERBOSE") != "" {
			fmt.Fprintf(os.Stderr, "%-28s want=%-8s %s\n", rep.class, rep.modelWant, rep.canon)
		}
		if rep.modelWant != "" {
			res.Distribution["model:"+m.proto+"/"+rep.modelWant]++
		}
		seen := map[string]bool{}
		for _, f := range rep.findings {
			key := m.proto + "-" + f.clause
			if f.clause == "unicast-detected-only-by-aggregator" && strings.HasPrefix(m.proto, "dkls23") {
				key = "dkls23-" + f.clause // one protocol-design limitation, whatever the multiplier
			}
			if seen[key] {
				continue
			}
			seen[key] = true
			what := "property oracle clause: " + f.clause
			if f.clause == "bound-leaf-undetected" {
				what = "C04.bound_field_detected (model class " + rep.modelWant + " for field " + dash(m.field) + ") vs implementation"
			}
			res.Mismatch(vh.Mismatch{ID: fmt.Sprintf("%s-%d", m.proto, idx), Kind: "prop", Key: key, Detail: f.detail + " || " + rep.canon + " || " + strings.Join(rep.details, " | "), Case: m.text(), PropFail: true, What: what})
		}
	}

	states := map[string]*protoState{}
	stateOf := func(name string) *protoState {
		if st, ok := states[name]; ok {
			return st
		}
		st := prepare(byName[name], a.Seed, res)
		states[name] = st
		return st
	}
	runCases := func(text string, idBase int, note bool) {
		for n, line := range strings.Split(text, "\n") {
			c, ok := strings.CutPrefix(line, "case: ")
			if !ok {
				continue
			}
			m, err := parseCase(c)
			if err != nil || byName[m.proto] == nil {
				if note {
					res.Note("cannot replay %q: %v", c, err)
				}
				continue
			}
			st := stateOf(m.proto)
			if st == nil {
				continue
			}
			if m.op.Kind == tamper.OpReplay {
				kind, src, _ := strings.Cut(m.op.Src, ":")
				if kind == "altround" {
					m.roundWide, m.alt = true, st.alts[m.key.from]
				}
				if kind == "alt" && st.alts[m.key.from] != nil {
					for _, k := range st.alts[m.key.from].keys {
						if k.String() == src {
							m.replayBy = st.alts[m.key.from].bytes[k]
						}
					}
				}
				for _, r := range []*recorded{st.rec, st.par} {
					if kind == "alt" || kind == "altround" || (kind == "session") != (r == st.par) {
						continue
					}
					for _, k := range r.keys {
						if k.String() == src {
							m.replayBy = r.bytes[k]
						}
					}
				}
			}
			if !about(m) {
				res.Count(m.proto+"/skipped-after-crash", m.text(), false)
				continue
			}
			classes, _ := modelClasses(a.Driver, []*mutation{m})
			rep := evaluate(st.a, a.Seed, m, st.pool, wantOf(classes, st.a, m))
			report(st, m, rep, idBase+n)
			if note {
				res.Note("replay: %s || %s", rep.canon, strings.Join(rep.details, " | "))
			}
		}
	}
	if a.Replay != "" {
		data, err := os.ReadFile(a.Replay)
		if err != nil {
			fmt.Fprintln(os.Stderr, err)
			os.Exit(2)
		}
		runCases(string(data), 0, true)
		res.Write(a.Out)
		return
	}
	// the corpus (regression cases of earlier findings) runs first
	if data, err := os.ReadFile(filepath.Join(keys.Root(), "corpus", "c04", "cases.txt")); err == nil {
		runCases(string(data), 100000, false)
		if progressFile != "" {
			os.Remove(progressFile)
		}
	}

	for _, ad := range ads {
		if quotaOf(tier, ad.name, a.Search) == 0 {
			continue // not sampled in this tier (corpus cases of the protocol still ran above)
		}
		st := stateOf(ad.name)
		if st == nil {
			continue
		}
		rng := vh.NewRng(a.Seed, "C04", "mut/"+ad.name, 0)
		capPer := 3
		if tier == "thorough" {
			capPer = 24
		}
		var all []*mutation
		for _, k := range st.rec.keys {
			all = append(all, candidates(ad, k, st.rec, st.par, st.alts, st.pool, rng, capPer)...)
		}
		// strata: (round, b|u, structural position, leaf kind, operator); members differ in
		// sender, recipient and index
		strata := map[string][]*mutation{}
		var order []string
		for _, m := range all {
			rank := fmt.Sprintf("%d", opRank(m))
			if opRank(m) == 0 {
				for i, f := range ad.first {
					if f == m.field {
						rank = fmt.Sprintf("!%02d", i)
					}
				}
			}
			if ad.rank != nil {
				if r := ad.rank(m); r != "" {
					rank = r
				}
			}
			sp := stratumPath(m.path)
			if ad.perIndex {
				sp = m.path
			}
			s := fmt.Sprintf("%s|%d/%s/%s/%s/%s", rank, m.key.round, bcastText(m.key), sp, m.kind, m.op.Kind)
			if m.op.Kind == tamper.OpReplay {
				s += "/" + strings.SplitN(m.op.Src, ":", 2)[0]
			}
			if _, ok := strata[s]; !ok {
				order = append(order, s)
			}
			strata[s] = append(strata[s], m)
		}
		sort.Strings(order)
		n := quotaOf(tier, ad.name, a.Search)
		cpu0 := cpuSeconds()
		var chosen []*mutation
		taken := map[*mutation]bool{}
		for pass := 0; len(chosen) < n && pass < 1000; pass++ {
			progress := false
			for _, s := range order {
				if len(chosen) >= n {
					break
				}
				var free []*mutation
				for _, m := range strata[s] {
					if !taken[m] {
						free = append(free, m)
					}
				}
				if len(free) == 0 {
					continue
				}
				m := free[rng.Intn(len(free))]
				taken[m] = true
				chosen = append(chosen, m)
				progress = true
			}
			if !progress {
				break
			}
		}
		res.Note("%s: honest run %.2fs, %d messages, %d candidate mutations in %d strata, %d chosen", ad.name, st.secs, len(st.rec.keys), len(all), len(order), len(chosen))
		if len(chosen) < len(order) && len(chosen) == n {
			res.Note("%s: quota %d is below the number of strata %d", ad.name, n, len(order))
		}
		var classes map[string]string
		if ad.modelled {
			var err error
			classes, err = modelClasses(a.Driver, chosen)
			if err != nil {
				res.Note("%s: model driver unavailable (%v): clause (d) not evaluated", ad.name, err)
				if a.Driver != "" {
					res.Mismatch(vh.Mismatch{ID: ad.name + "-model", Kind: "corr", Key: ad.name + "-model-driver-failed", Detail: err.Error(), Case: "proto=" + ad.name, What: "classification table of Deviate.v"})
				}
			}
		}
		for i, m := range chosen {
			if !about(m) {
				res.Count(m.proto+"/skipped-after-crash", m.text(), false)
				continue
			}
			rep := evaluate(ad, a.Seed, m, st.pool, wantOf(classes, ad, m))
			report(st, m, rep, i)
		}
		if progressFile != "" {
			os.Remove(progressFile)
		}
		if os.Getenv("C04_VERBOSE") != "" {
			fmt.Fprintf(os.Stderr, "## %s: %d runs, %.1f cpu-s\n", ad.name, len(chosen), cpuSeconds()-cpu0)
		}
	}
	res.Write(a.Out)
}
