package main

// secp.go — (copied from harness/cmd/c01/secp.go) an independent verifier for secp256k1 written from the curve equation
// y² = x³ + 7 over F_p with math/big affine arithmetic: ECDSA verification, BIP-340
// verification and the library's "vanilla" Schnorr (e = H(R‖P‖m), s·G = R ± e·P).
// Nothing here uses /repo.

import (
	"crypto/sha256"
	"hash"
	"math/big"
)

var (
	secpP, _  = new(big.Int).SetString("fffffffffffffffffffffffffffffffffffffffffffffffffffffffefffffc2f", 16)
	secpN, _  = new(big.Int).SetString("fffffffffffffffffffffffffffffffebaaedce6af48a03bbfd25e8cd0364141", 16)
	secpGx, _ = new(big.Int).SetString("79be667ef9dcbbac55a06295ce870b07029bfcdb2dce28d959f2815b16f81798", 16)
	secpGy, _ = new(big.Int).SetString("483ada7726a3c4655da4fbfc0e1108a8fd17b448a68554199c47d08ffb10d4b8", 16)
)

// pt is an affine point; inf marks the point at infinity.
type pt struct {
	x, y *big.Int
	inf  bool
}

func secpOnCurve(p pt) bool {
	if p.inf {
		return true
	}
	if p.x.Sign() < 0 || p.x.Cmp(secpP) >= 0 || p.y.Sign() < 0 || p.y.Cmp(secpP) >= 0 {
		return false
	}
	l := new(big.Int).Mul(p.y, p.y)
	r := new(big.Int).Mul(p.x, p.x)
	r.Mul(r, p.x).Add(r, big.NewInt(7))
	return l.Mod(l, secpP).Cmp(r.Mod(r, secpP)) == 0
}

func secpAdd(a, b pt) pt {
	if a.inf {
		return b
	}
	if b.inf {
		return a
	}
	var lam *big.Int
	if a.x.Cmp(b.x) == 0 {
		s := new(big.Int).Add(a.y, b.y)
		if s.Mod(s, secpP).Sign() == 0 {
			return pt{inf: true}
		}
		// tangent: 3x² / 2y
		num := new(big.Int).Mul(a.x, a.x)
		num.Mul(num, big.NewInt(3))
		den := new(big.Int).Lsh(a.y, 1)
		den.ModInverse(den.Mod(den, secpP), secpP)
		lam = num.Mul(num, den)
	} else {
		num := new(big.Int).Sub(b.y, a.y)
		den := new(big.Int).Sub(b.x, a.x)
		den.ModInverse(den.Mod(den, secpP), secpP)
		lam = num.Mul(num, den)
	}
	lam.Mod(lam, secpP)
	x := new(big.Int).Mul(lam, lam)
	x.Sub(x, a.x).Sub(x, b.x).Mod(x, secpP)
	y := new(big.Int).Sub(a.x, x)
	y.Mul(y, lam).Sub(y, a.y).Mod(y, secpP)
	return pt{x: x, y: y}
}

func secpMul(k *big.Int, p pt) pt {
	k = new(big.Int).Mod(k, secpN)
	acc := pt{inf: true}
	for i := k.BitLen() - 1; i >= 0; i-- {
		acc = secpAdd(acc, acc)
		if k.Bit(i) == 1 {
			acc = secpAdd(acc, p)
		}
	}
	return acc
}

func secpNeg(p pt) pt {
	if p.inf {
		return p
	}
	return pt{x: p.x, y: new(big.Int).Mod(new(big.Int).Neg(p.y), secpP)}
}

func secpG() pt { return pt{x: secpGx, y: secpGy} }

// secpLiftX returns the point with the given x and even y (BIP-340 lift_x).
func secpLiftX(x *big.Int) (pt, bool) {
	if x.Sign() < 0 || x.Cmp(secpP) >= 0 {
		return pt{}, false
	}
	c := new(big.Int).Mul(x, x)
	c.Mul(c, x).Add(c, big.NewInt(7)).Mod(c, secpP)
	e := new(big.Int).Add(secpP, big.NewInt(1))
	e.Rsh(e, 2)
	y := new(big.Int).Exp(c, e, secpP)
	if new(big.Int).Exp(y, big.NewInt(2), secpP).Cmp(c) != 0 {
		return pt{}, false
	}
	if y.Bit(0) == 1 {
		y.Sub(secpP, y)
	}
	return pt{x: new(big.Int).Set(x), y: y}, true
}

// bits2int of FIPS 186 / SEC 1 for a 256-bit order: the leftmost 256 bits of the digest.
func bits2int256(digest []byte) *big.Int {
	if len(digest) > 32 {
		digest = digest[:32]
	}
	return new(big.Int).SetBytes(digest)
}

// secpECDSAVerify: SEC 1 §4.1.4.
func secpECDSAVerify(pk pt, digest []byte, r, s *big.Int) bool {
	if pk.inf || !secpOnCurve(pk) {
		return false
	}
	if r.Sign() <= 0 || r.Cmp(secpN) >= 0 || s.Sign() <= 0 || s.Cmp(secpN) >= 0 {
		return false
	}
	z := bits2int256(digest)
	w := new(big.Int).ModInverse(s, secpN)
	u1 := new(big.Int).Mul(z, w)
	u1.Mod(u1, secpN)
	u2 := new(big.Int).Mul(r, w)
	u2.Mod(u2, secpN)
	R := secpAdd(secpMul(u1, secpG()), secpMul(u2, pk))
	if R.inf {
		return false
	}
	return new(big.Int).Mod(R.x, secpN).Cmp(r) == 0
}

func taggedHash(tag string, parts ...[]byte) []byte {
	t := sha256.Sum256([]byte(tag))
	h := sha256.New()
	h.Write(t[:])
	h.Write(t[:])
	for _, p := range parts {
		h.Write(p)
	}
	return h.Sum(nil)
}

func pad32(x *big.Int) []byte {
	b := x.Bytes()
	if len(b) >= 32 {
		return b[len(b)-32:]
	}
	return append(make([]byte, 32-len(b)), b...)
}

// bip340Challenge = int(hash_BIP0340/challenge(bytes(rx) ‖ bytes(px) ‖ m)) mod n.
func bip340Challenge(rx, px *big.Int, msg []byte) *big.Int {
	e := new(big.Int).SetBytes(taggedHash("BIP0340/challenge", pad32(rx), pad32(px), msg))
	return e.Mod(e, secpN)
}

// bip340Verify: BIP-340 "Verification" on a 64-byte signature and a 32-byte public key.
func bip340Verify(pkx []byte, msg []byte, sig []byte) bool {
	if len(pkx) != 32 || len(sig) != 64 {
		return false
	}
	P, ok := secpLiftX(new(big.Int).SetBytes(pkx))
	if !ok {
		return false
	}
	r := new(big.Int).SetBytes(sig[:32])
	s := new(big.Int).SetBytes(sig[32:])
	if r.Cmp(secpP) >= 0 || s.Cmp(secpN) >= 0 {
		return false
	}
	e := bip340Challenge(r, P.x, msg)
	R := secpAdd(secpMul(s, secpG()), secpNeg(secpMul(e, P)))
	if R.inf || R.y.Bit(0) == 1 {
		return false
	}
	return R.x.Cmp(r) == 0
}

func secpCompressed(p pt) []byte {
	out := make([]byte, 33)
	out[0] = 2 + byte(p.y.Bit(0))
	copy(out[1:], pad32(p.x))
	return out
}

func secpDecompress(b []byte) (pt, bool) {
	if len(b) != 33 || (b[0] != 2 && b[0] != 3) {
		return pt{}, false
	}
	p, ok := secpLiftX(new(big.Int).SetBytes(b[1:]))
	if !ok {
		return pt{}, false
	}
	if b[0] == 3 {
		p = secpNeg(p)
	}
	return p, true
}

// vanillaChallenge is the library's generic Schnorr challenge: H(R.Bytes() ‖ P.Bytes() ‖ m),
// the digest optionally byte-reversed, read as a big-endian integer and reduced mod n.
func vanillaChallenge(hf func() hash.Hash, le bool, order *big.Int, rBytes, pBytes, msg []byte) *big.Int {
	h := hf()
	h.Write(rBytes)
	h.Write(pBytes)
	h.Write(msg)
	d := h.Sum(nil)
	if le {
		for i, j := 0, len(d)-1; i < j; i, j = i+1, j-1 {
			d[i], d[j] = d[j], d[i]
		}
	}
	e := new(big.Int).SetBytes(d)
	return e.Mod(e, order)
}

// secpSchnorrVerify: s·G == R + e·P (neg: R − e·P) with e recomputed.
func secpSchnorrVerify(hf func() hash.Hash, le, neg bool, pkc, rc []byte, s *big.Int, msg []byte) bool {
	P, ok1 := secpDecompress(pkc)
	R, ok2 := secpDecompress(rc)
	if !ok1 || !ok2 || s.Sign() <= 0 || s.Cmp(secpN) >= 0 {
		return false
	}
	e := vanillaChallenge(hf, le, secpN, rc, pkc, msg)
	eP := secpMul(e, P)
	if neg {
		eP = secpNeg(eP)
	}
	rhs := secpAdd(R, eP)
	lhs := secpMul(s, secpG())
	if lhs.inf || rhs.inf {
		return false
	}
	return lhs.x.Cmp(rhs.x) == 0 && lhs.y.Cmp(rhs.y) == 0
}
