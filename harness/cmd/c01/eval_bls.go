package main

import (
	"bytes"
	"fmt"
	"math/big"
	"strings"

	"github.com/bronlabs/bron-crypto/pkg/mpc/sharing"

	dbls "verif/harness/internal/drive/boldyreva"
	"verif/harness/internal/vh"
)

func idsU(ids []sharing.ID) []uint64 {
	out := make([]uint64, len(ids))
	for i, x := range ids {
		out[i] = uint64(x)
	}
	return out
}

func sid(x uint64) sharing.ID { return sharing.ID(x) }

func evalBls(idx int, k kase, o *outcome) {
	v := strings.Split(k.Variant, ",")
	if len(v) != 2 {
		o.propKey, o.propDetail = "bad-case", k.Variant
		return
	}
	ks, md := v[0], v[1]
	res := dbls.RunFull(dbls.Config{Common: k.common(), Policy: k.Policy, KeySize: ks, Mode: md})
	key := "boldyreva-" + ks + "-" + md
	if res.SetupErr != "" {
		o.propKey, o.propDetail = key+"-setup-failed", res.SetupErr
		return
	}
	o.nontrivial = true
	msg := k.message()
	fail := func(what, detail string) {
		if o.propKey == "" {
			o.propKey, o.propDetail = key+"-"+what, detail
		}
	}
	if len(msg) == 0 {
		// the code's explicit refusal: empty messages are not signed (compared as a refusal)
		o.class += "/empty-message-refusal"
		for _, id := range res.Quorum {
			if vd := res.Trace.Verdicts[id]; vd.Class != "reject" || vd.Round != 1 {
				o.corr = append(o.corr, corrFail{key + "-empty-message-not-refused", fmt.Sprintf("party %d: %s in round %d", uint64(id), vd.String(), vd.Round)})
			}
		}
		if res.Sig != nil {
			o.corr = append(o.corr, corrFail{key + "-empty-message-signed", "a signature was produced for the empty message"})
		}
		return
	}
	if d := verdictsOK(res.Trace, res.Quorum, true); d != "" {
		fail("honest-run-error", d)
	}
	if res.Sig == nil {
		fail("no-signature", "Aggregate returned no signature")
	} else {
		if res.Lib != "ok" {
			fail("library-verifier-rejects", "bls scheme.Verifier().Verify: "+res.Lib)
		}
		if res.Pairing != "ok" {
			fail("pairing-equation-fails", "e(pk, H(dst, m')) != e(g, sig): "+res.Pairing)
		}
		if md == "pop" && res.PopPairing != "ok" {
			fail("pop-pairing-equation-fails", "e(pk, H(popdst, pk)) != e(g, pop): "+res.PopPairing)
		}
	}
	o.sigText = res.Trace.Outputs[0]
	o.group = fmt.Sprintf("%s|%s|%s|%d", k.Variant, k.Policy, k.Msg, k.Seed)

	// ---- model tie: recombination of the share components with the quorum's coefficients,
	// and the signature as x·H(m') predicted from the dealer's secret
	if res.Sig != nil && res.Predicted != nil && !bytes.Equal(res.Sig, res.Predicted) {
		o.corr = append(o.corr, corrFail{key + "-signature-not-x-H", fmt.Sprintf("aggregate %s, x·H(dst,m') = %s", vh.Hex(res.Sig), vh.Hex(res.Predicted))})
	}
	if res.Sig != nil && md == "pop" && !bytes.Equal(res.Pop, res.PredictedPop) {
		o.corr = append(o.corr, corrFail{key + "-pop-not-x-H", fmt.Sprintf("aggregate pop %s, x·H(popdst,pk) = %s", vh.Hex(res.Pop), vh.Hex(res.PredictedPop))})
	}
	var rows, coefs [][]*big.Int
	for _, id := range res.Quorum {
		if len(res.Rows[id]) == 0 || len(res.Rows[id]) != len(res.Coefs[id]) {
			o.corr = append(o.corr, corrFail{key + "-coefficients-shape", fmt.Sprintf("holder %d: %d share components, %d reconstruction coefficients", uint64(id), len(res.Rows[id]), len(res.Coefs[id]))})
			return
		}
		rows = append(rows, res.Rows[id])
		coefs = append(coefs, res.Coefs[id])
	}
	secret := res.Secret
	sigOK := res.Sig != nil
	line := fmt.Sprintf("B %d %s %s %s %s %s", idx, vh.ZHex(res.Order), md, vh.ZHex(secret), zmat(rows), zmat(coefs))
	o.model = append(o.model, modelCheck{line: line, cmp: func(out []string) (string, string) {
		// B id some c pop recon | B id none recon
		if len(out) < 4 || out[0] != "B" {
			return key + "-model-output", "unparsable model output"
		}
		rc := vh.UnZHex(out[len(out)-1])
		if rc.Cmp(secret) != 0 {
			return key + "-coefficients", fmt.Sprintf("sum coef*share over the quorum's rows = %s, dealt secret = %s", vh.ZHex(rc), vh.ZHex(secret))
		}
		if out[2] == "none" {
			if sigOK {
				return key + "-model-refuses", "the model's run returns an error, the implementation a signature"
			}
			return "", ""
		}
		if !sigOK {
			return key + "-impl-refuses", "the model's run yields a signature, the implementation none"
		}
		if vh.UnZHex(out[3]).Cmp(secret) != 0 {
			return key + "-coefficient", "model's signature coefficient is not the key"
		}
		return "", ""
	}})
}
