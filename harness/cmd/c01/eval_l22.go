package main

import (
	"bytes"
	"crypto/elliptic"
	"fmt"
	"hash"
	"math/big"
	"strings"

	ddkls "verif/harness/internal/drive/dkls23"
	dl22 "verif/harness/internal/drive/lindell22"
	"verif/harness/internal/vh"
)

// p256SchnorrVerify: s·G == R ± e·P on NIST P-256 with Go's crypto/elliptic arithmetic,
// e = H(R‖P‖m) as the library's vanilla variant defines it (compressed SEC1 encodings).
func p256SchnorrVerify(hf func() hash.Hash, le, neg bool, pkc, rc []byte, s *big.Int, msg []byte) bool {
	c := elliptic.P256()
	px, py := elliptic.UnmarshalCompressed(c, pkc)
	rx, ry := elliptic.UnmarshalCompressed(c, rc)
	if px == nil || rx == nil || s.Sign() <= 0 || s.Cmp(c.Params().N) >= 0 {
		return false
	}
	e := vanillaChallenge(hf, le, c.Params().N, rc, pkc, msg)
	ex, ey := c.ScalarMult(px, py, e.Bytes())
	if neg {
		ey = new(big.Int).Sub(c.Params().P, ey)
	}
	qx, qy := c.Add(rx, ry, ex, ey)
	lx, ly := c.ScalarBaseMult(s.Bytes())
	return lx.Cmp(qx) == 0 && ly.Cmp(qy) == 0
}

func evalL22(idx int, k kase, o *outcome) {
	v := strings.Split(k.Variant, ",")
	if len(v) != 2 {
		o.propKey, o.propDetail = "bad-case", k.Variant
		return
	}
	variant, hashName := v[0], v[1]
	if hashName == "-" {
		hashName = "sha256"
	}
	cm := k.common()
	runner := cm.API == "runner"
	res := dl22.RunFull(dl22.Config{Common: cm, Policy: k.Policy, Variant: variant, Hash: hashName})
	key := "lindell22-" + variant
	if res.SetupErr != "" {
		o.propKey, o.propDetail = key+"-setup-failed", res.SetupErr
		return
	}
	o.nontrivial = true
	msg := k.message()
	fail := func(what, detail string) {
		if o.propKey == "" {
			o.propKey, o.propDetail = what, detail
		}
	}
	// rounds 1..3 of every party and aggregator 0
	for _, id := range append(append([]uint64(nil), 0), idsU(res.Quorum)...) {
		vd, ok := res.Trace.Verdicts[sid(id)]
		if !ok {
			fail(key+"-honest-run-error", fmt.Sprintf("party %d has no verdict", id))
			continue
		}
		if vd.Class != "ok" {
			if id != 0 && vd.Round == 4 {
				// the party's cosigning aggregator failed
				what := key + "-cosigning-aggregator-error"
				if variant == "mina" {
					what = "lindell22-mina-cosigning-odd-R"
				}
				fail(what, fmt.Sprintf("NewCosigningAggregator(party %d).Aggregate: %s (%s); aggregator 0: %s", id, vd.String(), vd.Detail, res.Trace.Outputs[0]))
			} else {
				fail(key+"-honest-run-error", fmt.Sprintf("party %d: %s in round %d (%s)", id, vd.String(), vd.Round, vd.Detail))
			}
		}
	}
	hf, _ := ddkls.HashFunc(hashName)
	indep := func(s *dl22.Sig) (bool, bool) { // (checked, ok)
		switch variant {
		case "bip340":
			return true, len(res.PK) == 33 && bip340Verify(res.PK[1:], msg, s.Wire)
		case "schnorr-k256", "schnorr-k256-neg", "schnorr-k256-le":
			return true, secpSchnorrVerify(hf, variant == "schnorr-k256-le", variant == "schnorr-k256-neg", res.PK, s.R, s.S, msg)
		case "schnorr-p256":
			return true, p256SchnorrVerify(hf, false, false, res.PK, s.R, s.S, msg)
		}
		return false, true
	}
	if res.Sig == nil {
		fail(key+"-no-signature", "aggregator 0 produced no signature")
	} else {
		if res.Sig.Lib != "ok" {
			fail(key+"-library-verifier-rejects", "scheme.Verifier().Verify on aggregator 0's signature: "+res.Sig.Lib)
		}
		if chk, ok := indep(res.Sig); chk && !ok {
			fail(key+"-independent-verifier-rejects", "aggregator 0: "+res.Trace.Outputs[0])
		}
		if res.Sig.LibWire != "ok" && res.Sig.LibWire != "-" {
			fail(key+"-serialised-signature-rejected", "the signature re-parsed from its wire form is rejected by the library verifier: "+res.Trace.Outputs[0])
		}
		if chk, _ := indep(res.Sig); chk {
			other := *res.Sig
			m2 := append(append([]byte(nil), msg...), 1)
			okOther := false
			switch variant {
			case "bip340":
				okOther = bip340Verify(res.PK[1:], m2, other.Wire)
			case "schnorr-k256", "schnorr-k256-neg", "schnorr-k256-le":
				okOther = secpSchnorrVerify(hf, variant == "schnorr-k256-le", variant == "schnorr-k256-neg", res.PK, other.R, other.S, m2)
			}
			if okOther {
				fail(key+"-verifies-for-other-message", "signature also verifies for message||01")
			}
		}
		for _, id := range res.Quorum {
			s := res.SigBy[id]
			if s == nil {
				continue
			}
			if s.Lib != "ok" {
				fail(key+"-library-verifier-rejects", fmt.Sprintf("cosigning aggregator %d: %s", uint64(id), s.Lib))
			}
			if chk, ok := indep(s); chk && !ok {
				fail(key+"-independent-verifier-rejects", fmt.Sprintf("cosigning aggregator %d", uint64(id)))
			}
			if !bytes.Equal(s.Wire, res.Sig.Wire) {
				fail(key+"-outputs-differ", fmt.Sprintf("cosigning aggregator %d: %s vs aggregator 0: %s", uint64(id), vh.Hex(s.Wire), vh.Hex(res.Sig.Wire)))
			}
		}
	}
	o.sigText = res.Trace.Outputs[0]

	// ---- model tie
	if len(res.Partials) != len(res.Quorum) || res.Order == nil {
		return
	}
	q := res.Order
	n := len(res.Quorum)
	var kt [][]byte
	ksum := new(big.Int)
	for _, id := range res.Quorum {
		t := res.Trace.Tapes[id]
		tag := "r1"
		if runner {
			tag = "run"
		}
		rd := readsTagged(t, tag)
		if len(rd) < 1 || t.Reads[rd[0]].N != 48 {
			o.corr = append(o.corr, corrFail{key + "-tape-layout", fmt.Sprintf("party %d: first read of round 1 is not 48 bytes: %s", uint64(id), firstN(t.ReadsText(), 200))})
			return
		}
		kt = append(kt, t.Slice(rd[0]))
		ksum.Add(ksum, leMod(t.Slice(rd[0]), q))
	}
	ksum.Mod(ksum, q)
	_, ry := res.BaseXY(ksum)
	if ry == nil || res.PKY == nil {
		return
	}
	oddR := ry.Bit(0) == 1
	oddP := res.PKY.Bit(0) == 1
	rBytes := res.BaseMul(ksum)
	// the challenge, recomputed independently where the hash is a standard one
	var e *big.Int
	switch variant {
	case "bip340":
		rxx, _ := res.BaseXY(ksum)
		e = bip340Challenge(rxx, res.PKX, msg)
	case "schnorr-k256", "schnorr-k256-neg", "schnorr-p256":
		e = vanillaChallenge(hf, false, q, rBytes, res.PK, msg)
	case "schnorr-k256-le":
		e = vanillaChallenge(hf, true, q, rBytes, res.PK, msg)
	default:
		e = res.Partials[res.Quorum[0]].E
	}
	for _, id := range res.Quorum {
		if res.Partials[id].E.Cmp(e) != 0 {
			o.corr = append(o.corr, corrFail{key + "-challenge", fmt.Sprintf("party %d uses challenge %s, recomputed from R=(sum k_i)G, P, m: %s", uint64(id), vh.ZHex(res.Partials[id].E), vh.ZHex(e))})
			return
		}
	}
	rng := vh.NewRng(k.Seed, "C01", "model", idx)
	a := split(rng, n, res.Secret, q)
	z := split(rng, n, new(big.Int), q)
	fl := map[string]string{"bip340": "b", "mina": "m", "schnorr-k256": "v0", "schnorr-k256-neg": "v1", "schnorr-p256": "v0", "schnorr-k256-le": "v0"}[variant]
	baseMul := res.BaseMul
	mk := func(cos bool, sigs []*dl22.Sig, who string) modelCheck {
		line := fmt.Sprintf("L %d %s %s %s %s %s %s %s %d %s %s %s", idx, vh.ZHex(q), fl, bitStr(cos), vh.ZHex(res.Secret), vh.ZHex(e), bitStr(oddR), bitStr(oddP), n, hexlist(kt), zlist(a), zlist(z))
		return modelCheck{line: line, cmp: func(out []string) (string, string) {
			// L id some R s k exps | L id none k exps
			if len(out) < 5 || out[0] != "L" {
				return key + "-model-output", "unparsable model output"
			}
			var kk *big.Int
			if out[2] == "some" && len(out) == 7 {
				kk = vh.UnZHex(out[5])
			} else if out[2] == "none" && len(out) == 5 {
				kk = vh.UnZHex(out[3])
			} else {
				return key + "-model-output", "unparsable model output"
			}
			if kk.Cmp(ksum) != 0 {
				return key + "-nonce-sum", "model and harness disagree on the sum of the nonces read from the tapes"
			}
			if out[2] == "none" {
				for _, s := range sigs {
					if s != nil {
						return key + "-model-refuses", who + ": the model's run returns an error, the implementation a signature"
					}
				}
				return "", ""
			}
			mr, ms := vh.UnZHex(out[3]), vh.UnZHex(out[4])
			for _, s := range sigs {
				if s == nil {
					return key + "-impl-refuses", who + ": the model's run yields a signature, the implementation none"
				}
				if !bytes.Equal(baseMul(mr), s.R) {
					return key + "-R-exponent", fmt.Sprintf("%s: ScalarBaseMul(model R exponent %s) != R = %s", who, vh.ZHex(mr), vh.Hex(s.R))
				}
				if ms.Cmp(s.S) != 0 {
					return key + "-s", fmt.Sprintf("%s: s: impl %s model %s", who, vh.ZHex(s.S), vh.ZHex(ms))
				}
			}
			return "", ""
		}}
	}
	o.model = append(o.model, mk(false, []*dl22.Sig{res.Sig}, "aggregator 0"))
	if runner {
		return // the cosigning aggregator is not reachable through the runner API
	}
	var by []*dl22.Sig
	for _, id := range res.Quorum {
		by = append(by, res.SigBy[id])
	}
	o.model = append(o.model, mk(true, by, "cosigning aggregators"))
}
