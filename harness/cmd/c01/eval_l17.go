package main

import (
	"fmt"
	"math/big"
	"os"
	"strings"

	"github.com/bronlabs/bron-crypto/pkg/base/curves/k256"
	"github.com/bronlabs/bron-crypto/pkg/base/curves/p256"
	"github.com/bronlabs/bron-crypto/pkg/mpc/sharing"

	ddkls "verif/harness/internal/drive/dkls23"
	"verif/harness/internal/drive/keys"
	dl17 "verif/harness/internal/drive/lindell17"
	"verif/harness/internal/vh"
)

// stored Lindell17 key material: policy texts with concrete IDs, per curve
var l17Policies = map[string][]string{
	"k256": {
		"T:2:1,2,3",
		"N:1|2|3", // 2-of-3 as CNF: non-ideal, two share components per holder
		"T:2:1099511627781,9223372036854775809",
	},
	"p256": {"T:2:1,2,3"},
}

func l17Available(curve string) []string {
	var out []string
	for _, p := range l17Policies[curve] {
		if _, err := os.Stat(keys.L17Path(curve, p)); err == nil {
			out = append(out, p)
		}
	}
	return out
}

// genL17Keys generates the missing corpus files (slow; thorough tier or C01_GENKEYS=1 only).
func genL17Keys() {
	for i, p := range l17Policies["k256"] {
		if _, err := os.Stat(keys.L17Path("k256", p)); err == nil {
			continue
		}
		fmt.Fprintln(os.Stderr, "generating Lindell17 key material (k256) for", p)
		if err := keys.GenerateL17(k256.NewCurve(), "k256", p, vh.NewRng(1, "C01", "l17keys", i)); err != nil {
			fmt.Fprintln(os.Stderr, "  failed:", err)
		}
	}
	for i, p := range l17Policies["p256"] {
		if _, err := os.Stat(keys.L17Path("p256", p)); err == nil {
			continue
		}
		fmt.Fprintln(os.Stderr, "generating Lindell17 key material (p256) for", p)
		if err := keys.GenerateL17(p256.NewCurve(), "p256", p, vh.NewRng(1, "C01", "l17keys-p256", i)); err != nil {
			fmt.Fprintln(os.Stderr, "  failed:", err)
		}
	}
}

func lindell17Count(tier string) int {
	if len(l17Available("k256"))+len(l17Available("p256")) == 0 {
		return 0
	}
	if tier == "thorough" {
		return 36
	}
	return 4
}

func lindell17Has(policy string) bool { return true }

// lindell17Cases replaces the generic generator for this protocol (stored policies only).
// curve x hash rotation of the Lindell17 cases: the first four (quick tier) cover a hash wider than the
// scalar field and one of equal width on both curves
var ecdsaCombos = [][2]string{{"k256", "sha512"}, {"p256", "sha256"}, {"p256", "sha3-512"}, {"k256", "sha256"},
	{"k256", "sha384"}, {"p256", "sha512"}, {"k256", "sha3-512"}, {"p256", "sha384"}, {"k256", "sha3-256"}, {"p256", "sha3-384"}}

// lindell17Cases replaces the generic generator for this protocol (stored policies only).
func lindell17Cases(seed int64, count int) []kase {
	var out []kase
	for i := 0; i < count; i++ {
		rng := vh.NewRng(seed, "C01", "gen/l17", i)
		combo := ecdsaCombos[i%len(ecdsaCombos)]
		avail := l17Available(combo[0])
		if len(avail) == 0 {
			continue
		}
		ptxt := avail[(i/2)%len(avail)]
		p, _ := keys.ParsePolicy(ptxt)
		q := pickQuorum(p, rng, true, 2, 2)
		if q == nil {
			continue
		}
		comp := "fischlin"
		if i%3 == 2 {
			comp = "randfischlin"
		}
		sess := "seeded"
		if i%4 == 3 {
			sess = "real"
		}
		out = append(out, kase{Proto: "lindell17", Variant: combo[0] + "," + combo[1] + "," + comp, Policy: ptxt, Quorum: q, Msg: msgSpec(i, rng, true), Session: sess, Seed: seed*1000 + int64(i)})
	}
	return out
}

func evalL17(idx int, k kase, o *outcome) {
	v := strings.Split(k.Variant, ",")
	if len(v) != 3 {
		o.propKey, o.propDetail = "bad-case", k.Variant
		return
	}
	res := dl17.RunFull(dl17.Config{Common: k.common(), Policy: k.Policy, Curve: v[0], Hash: v[1], Compiler: v[2]})
	key := "lindell17-" + v[0]
	if res.SetupErr != "" {
		o.propKey, o.propDetail = key+"-setup-failed", res.SetupErr
		return
	}
	o.nontrivial = true
	msg := k.message()
	fail := func(what, detail string) {
		if o.propKey == "" {
			o.propKey, o.propDetail = key+"-"+what, detail
		}
	}
	if d := verdictsOK(res.Trace, []sharing.ID{res.Primary, res.Secondary}, false); d != "" {
		fail("honest-run-error", d)
	}
	if res.Sig == nil {
		fail("no-signature", "the primary obtained no signature")
	} else {
		if res.LibOK != "ok" {
			fail("library-verifier-rejects", res.LibOK)
		}
		hf, _ := ddkls.HashFunc(v[1])
		h := hf()
		h.Write(msg)
		if !ecdsaIndependent(v[0], res.PKX, res.PKY, h.Sum(nil), res.Sig.R, res.Sig.S) {
			fail("independent-verifier-rejects", res.Trace.Outputs[res.Primary])
		}
	}
	o.sigText = res.Trace.Outputs[res.Primary]

	// ---- model tie
	if res.Sig == nil || res.N == nil || res.X2 == nil || res.Zeta2 == nil || len(res.X1) == 0 || len(res.X1) != len(res.Lam) {
		return
	}
	q := res.Order
	t1 := res.Trace.Tapes[res.Primary]
	t2 := res.Trace.Tapes[res.Secondary]
	r1 := readsTagged(t1, "r1")
	r2 := readsTagged(t2, "r2")
	if len(r1) < 1 || len(r2) < 1 || t1.Reads[r1[0]].N != 48 || t2.Reads[r2[0]].N != 48 {
		o.corr = append(o.corr, corrFail{key + "-tape-layout", "first reads of round 1 (primary) / round 2 (secondary) are not 48 bytes"})
		return
	}
	k1t, k2t := t1.Slice(r1[0]), t2.Slice(r2[0])
	kk := new(big.Int).Mul(leMod(k1t, q), leMod(k2t, q))
	kk.Mod(kk, q)
	x, y := res.BaseXY(kk)
	if x == nil {
		return
	}
	rx := new(big.Int).Mod(x, q)
	odd := y.Bit(0) == 1
	over := x.Cmp(q) >= 0
	rng := vh.NewRng(k.Seed, "C01", "model", idx)
	rho := rng.BigBelow(new(big.Int).Mul(q, q))
	hf, _ := ddkls.HashFunc(v[1])
	h := hf()
	h.Write(msg)
	m := bits2int256(h.Sum(nil))
	m.Mod(m, q)
	line := fmt.Sprintf("P %d %s %s %s %s %s %s %s %s %s %s %s %s %s %s", idx, vh.ZHex(q), vh.ZHex(res.N), vh.Hex(k1t), vh.Hex(k2t),
		zlist(res.X1), zlist(res.Lam), vh.ZHex(res.X2), vh.ZHex(res.Zeta2), vh.ZHex(rho), vh.ZHex(m), vh.ZHex(res.Secret), vh.ZHex(rx), bitStr(odd), bitStr(over))
	sig := res.Sig
	c3 := res.C3
	N := res.N
	o.model = append(o.model, modelCheck{line: line, cmp: func(out []string) (string, string) {
		// P id some r s b0 b1 k c3 | P id none k c3
		if len(out) < 5 || out[0] != "P" {
			return key + "-model-output", "unparsable model output"
		}
		if out[2] != "some" || len(out) != 9 {
			return key + "-model-refuses", "the model's run returns an error, the implementation a signature"
		}
		mr, ms := vh.UnZHex(out[3]), vh.UnZHex(out[4])
		mv := 0
		if out[5] == "1" {
			mv++
		}
		if out[6] == "1" {
			mv += 2
		}
		if vh.UnZHex(out[7]).Cmp(kk) != 0 {
			return key + "-nonce-product", "model and harness disagree on k1·k2 from the tapes"
		}
		if mr.Cmp(sig.R) != 0 {
			return key + "-r", fmt.Sprintf("r: impl %s, model xc((k1 k2)·G) %s", vh.ZHex(sig.R), vh.ZHex(mr))
		}
		if ms.Cmp(sig.S) != 0 {
			if new(big.Int).Sub(q, ms).Cmp(sig.S) == 0 {
				return key + "-s-not-normalised", fmt.Sprintf("s: impl %s is the negation of the model's normalised s", vh.ZHex(sig.S))
			}
			return key + "-s", fmt.Sprintf("s: impl %s model %s", vh.ZHex(sig.S), vh.ZHex(ms))
		}
		if sig.V != mv {
			return key + "-recovery-id", fmt.Sprintf("v: impl %d model %d", sig.V, mv)
		}
		if c3 != nil {
			// the real plaintext: no wrap (0 <= c3 < N/2) and the same residue mod q as the model's
			// integer (rho is not visible on the tape: only rho·q differs)
			if c3.Sign() < 0 || new(big.Int).Lsh(c3, 1).Cmp(N) >= 0 {
				return key + "-c3-wraps", fmt.Sprintf("decrypted c3 = %s is not in [0, N/2)", vh.ZHex(c3))
			}
			mc := vh.UnZHex(out[8])
			if new(big.Int).Mod(c3, q).Cmp(new(big.Int).Mod(mc, q)) != 0 {
				return key + "-c3-residue", "decrypted c3 and the model's integer differ mod q"
			}
			bound := new(big.Int).Mul(q, new(big.Int).Mul(q, q))
			bound.Add(bound, new(big.Int).Mul(big.NewInt(int64(3*len(res.X1))), new(big.Int).Mul(q, q)))
			bound.Add(bound, new(big.Int).Lsh(q, 1))
			if c3.Cmp(bound) >= 0 {
				return key + "-c3-bound", "decrypted c3 exceeds q^3 + 3dq^2 + 2q"
			}
		}
		return "", ""
	}})
}
