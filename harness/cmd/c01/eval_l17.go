package main

func lindell17Count(tier string) int { return 0 }
func lindell17Has(policy string) bool { return false }
func evalL17(idx int, k kase, o *outcome) {
	o.propKey, o.propDetail = "lindell17-not-wired", "driver missing"
}
