// c01 — correspondence harness for property C01 (threshold signing by a qualified quorum
// yields a publicly valid signature).  It runs full protocol executions of the real
// implementation through the drivers under harness/internal/drive, evaluates the property's
// own predicate on every run (terminates without error, the library's verifier AND an
// independent verifier accept for exactly that message and key, all outputs equal), and ties
// the run to the extracted Coq model: the nonces are read off the parties' random tapes, the
// model predicts the exponent of R and the signature scalar, and the harness checks
// ScalarBaseMul(exponent) == R and equality of s.
package main

import (
	"fmt"
	"os"
	"runtime"
	"sort"
	"strconv"
	"strings"
	"sync"
	"time"

	"github.com/bronlabs/bron-crypto/pkg/mpc/sharing"

	"verif/harness/internal/drive/keys"
	"verif/harness/internal/vh"
)

// ---- cases -----------------------------------------------------------------------------

type kase struct {
	Proto   string // dkls23 | lindell22 | boldyreva | lindell17 | cggmp21
	Variant string // protocol specific, comma separated
	Policy  string
	Quorum  []sharing.ID
	Msg     string // "e" empty | "b:<hex>" | "r:<len>:<tag>" pseudo-random bytes
	Session string // seeded | real
	Seed    int64
}

func (k kase) text() string {
	return fmt.Sprintf("%s %s %s %s %s %s %d", k.Proto, k.Variant, k.Policy, keys.IDsText(k.Quorum), k.Msg, k.Session, k.Seed)
}

func parseCase(s string) (kase, error) {
	f := strings.Fields(s)
	if len(f) != 7 {
		return kase{}, fmt.Errorf("bad case %q", s)
	}
	q, err := keys.ParseIDs(f[3])
	if err != nil {
		return kase{}, err
	}
	seed, err := strconv.ParseInt(f[6], 10, 64)
	if err != nil {
		return kase{}, err
	}
	return kase{Proto: f[0], Variant: f[1], Policy: f[2], Quorum: q, Msg: f[4], Session: f[5], Seed: seed}, nil
}

func (k kase) message() []byte {
	switch {
	case k.Msg == "e":
		return []byte{}
	case strings.HasPrefix(k.Msg, "b:"):
		return vh.UnHex(k.Msg[2:])
	case strings.HasPrefix(k.Msg, "r:"):
		f := strings.Split(k.Msg, ":")
		n, _ := strconv.Atoi(f[1])
		tag, _ := strconv.Atoi(f[2])
		return vh.NewRng(int64(tag), "C01", "msg", n).Bytes(n)
	}
	return []byte(k.Msg)
}

func (k kase) common() keys.Common {
	sess, src, api := k.Session, "", ""
	if strings.HasSuffix(sess, "+runner") { // the networked runner API instead of round-by-round
		sess, api = strings.TrimSuffix(sess, "+runner"), "runner"
	}
	if strings.HasSuffix(sess, "+dkg") { // key shares from the real Gennaro DKG instead of the trusted dealer
		sess, src = strings.TrimSuffix(sess, "+dkg"), "gennaro"
	}
	if strings.HasSuffix(sess, "+cdkg") { // ... from the real Canetti DKG
		sess, src = strings.TrimSuffix(sess, "+cdkg"), "canetti"
	}
	return keys.Common{Seed: k.Seed, Prop: "C01", Quorum: k.Quorum, Session: sess, KeySource: src, API: api, Message: k.message()}
}

// outcome of one evaluated case
type outcome struct {
	k          kase
	class      string
	nontrivial bool
	propKey    string // "" if the property predicate holds on the implementation
	propDetail string
	corr       []corrFail // correspondence failures found before the model ran
	model      []modelCheck
	group      string // cases with the same group must yield the same signature (BLS uniqueness)
	sigText    string
	secs       float64
}

type corrFail struct{ key, detail string }

// one line for the model driver plus the comparison of its answer
type modelCheck struct {
	line string
	cmp  func(out []string) (key, detail string)
}

// ---- policies and ID assignments -------------------------------------------------------

type absPolicy struct {
	text string
	n    int
}

var absPolicies = []absPolicy{
	{"T:2:1,2,3", 3},
	{"N:1,2|3,4", 4},               // CNF, non-ideal: holders own several rows
	{"G:g2[1,g1[2,3],g2[1,3]]", 3}, // gate tree with repeated leaves
	{"U:1,2,3", 3},
	{"H:1:1,2|2:3,4", 4},
	{"T:3:1,2,3,4,5", 5},
	{"N:1|2|3", 3}, // 2-of-3 as CNF (two rows per holder)
	{"G:g2[g2[1,2,3],g1[4,5]]", 5},
	{"T:2:1,2", 2},
}

var assignments = [][]uint64{
	{1, 2, 3, 4, 5, 6, 7},
	{40, 7, 63, 12, 64, 2, 33},
	{1<<40 + 5, 1<<63 + 1, 1<<40 + 1, 1<<64 - 1, 1<<52 + 7, 1 << 41, 1<<40 + 2},
}

// concrete policy: abstract policy a under assignment j
func concretePolicy(a absPolicy, j int) keys.Policy {
	p, err := keys.ParsePolicy(a.text)
	if err != nil {
		panic(err)
	}
	asg := append([]uint64(nil), assignments[j%len(assignments)][:a.n]...)
	if p.Fam == 'H' { // the hierarchical family needs IDs increasing along the levels
		sort.Slice(asg, func(x, y int) bool { return asg[x] < asg[y] })
	}
	return p.MapIDs(func(x uint64) uint64 { return asg[x-1] })
}

// pickQuorum chooses a qualified set: minimal when wantMinimal, else (if one exists) non-minimal;
// at most maxSize members (0 = no limit). Returns nil if none fits.
func pickQuorum(p keys.Policy, rng *vh.Rng, wantMinimal bool, maxSize int, exact int) []sharing.ID {
	var min, non [][]sharing.ID
	for _, s := range p.QualifiedSets() {
		if maxSize > 0 && len(s) > maxSize {
			continue
		}
		if exact > 0 && len(s) != exact {
			continue
		}
		if p.Minimal(s) {
			min = append(min, s)
		} else {
			non = append(non, s)
		}
	}
	pool := min
	if !wantMinimal && len(non) > 0 {
		pool = non
	}
	if len(pool) == 0 {
		pool = append(min, non...)
	}
	if len(pool) == 0 {
		return nil
	}
	q := append([]sharing.ID(nil), pool[rng.Intn(len(pool))]...)
	// present the quorum unsorted
	for i := len(q) - 1; i > 0; i-- {
		j := rng.Intn(i + 1)
		q[i], q[j] = q[j], q[i]
	}
	return q
}

func msgSpec(i int, rng *vh.Rng, allowEmpty bool) string {
	switch i % 4 {
	case 0:
		return "b:" + vh.Hex(rng.Bytes(1))
	case 1:
		if allowEmpty {
			return "e"
		}
		return "b:" + vh.Hex(rng.Bytes(2))
	case 2:
		return fmt.Sprintf("r:10240:%d", rng.Intn(1000))
	default:
		return "b:" + vh.Hex(rng.Bytes(1+rng.Intn(40)))
	}
}

type genSpec struct {
	proto     string
	variants  []string
	count     int
	maxQ      int // largest quorum
	exactQ    int
	emptyOK   bool
	polFilter func(absPolicy) bool
	// plan, if set and ok, fixes policy and quorum kind of case i (otherwise policies rotate and cases alternate
	// minimal / non-minimal): it guarantees the quick tier a minimal and a non-minimal quorum on an ideal structure
	// and on a non-ideal one (a signer owning several MSP rows) for the protocol / multiplier / flavour
	plan func(i int) (a absPolicy, minimal bool, ok bool)
}

var (
	polT23   = absPolicy{"T:2:1,2,3", 3}
	polCNF2  = absPolicy{"N:1|2|3", 3}                 // every holder owns two rows
	polGate  = absPolicy{"G:g2[1,g1[2,3],g2[1,3]]", 3} // holders 1 and 3 own several rows
	polT35   = absPolicy{"T:3:1,2,3,4,5", 5}
	polCNF4  = absPolicy{"N:1,2|3,4", 4}
	polHier  = absPolicy{"H:1:1,2|2:3,4", 4}
	polUna   = absPolicy{"U:1,2,3", 3}
	polT22   = absPolicy{"T:2:1,2", 2}
	polGate5 = absPolicy{"G:g2[g2[1,2,3],g1[4,5]]", 5}
)

// dklsPlan: the four quick cases of a DKLs23 multiplier (later cases rotate freely)
func dklsPlan(i int) (absPolicy, bool, bool) {
	switch i {
	case 0:
		return polT23, true, true // ideal, minimal
	case 1:
		return polT23, false, true // ideal, non-minimal: all three of 2-of-3
	case 2:
		return polGate, false, true // non-ideal, non-minimal
	case 3:
		return polCNF2, true, true // non-ideal, minimal
	}
	return absPolicy{}, false, false
}

// l22Plan: blocks of six consecutive cases contain every flavour once (see the variants list); block b uses cell
// b mod 4 of {ideal minimal, ideal non-minimal, non-ideal minimal, non-ideal non-minimal}, so that every flavour
// meets every cell within 24 cases; the concrete policy of a cell rotates
func l22Plan(i int) (absPolicy, bool, bool) {
	switch (i / 6) % 4 {
	case 0:
		o := []absPolicy{polT23, polHier, polUna, polT35, polT22, polGate5}
		return o[i%len(o)], true, true
	case 1:
		o := []absPolicy{polT23, polT35, polCNF4}
		return o[i%len(o)], false, true
	case 2:
		o := []absPolicy{polCNF2, polGate}
		return o[i%len(o)], true, true
	default:
		o := []absPolicy{polGate, polCNF2}
		return o[i%len(o)], false, true
	}
}

func generate(seed int64, tier string, search bool) []kase {
	mul := 1
	if tier == "thorough" {
		mul = 12
	}
	if search {
		mul *= 3
	}
	specs := []genSpec{
		// every ECDSA protocol / multiplier and every Schnorr flavour with a configurable hash rotates over hashes
		// narrower-or-equal (sha256, sha3-256) and wider (sha384, sha512, sha3-384, sha3-512) than the scalar field, on
		// both curves; the first four entries of each list (the quick tier) cover wide and narrow on k256 and p256
		{proto: "dkls23", variants: []string{"bbot,k256,sha512", "bbot,p256,sha384", "bbot,p256,sha256", "bbot,k256,sha256",
			"bbot,p256,sha3-512", "bbot,k256,sha3-512", "bbot,k256,sha384", "bbot,p256,sha512", "bbot,k256,sha3-256", "bbot,p256,sha3-384"},
			count: 4 * mul, maxQ: 3, emptyOK: true, plan: dklsPlan},
		{proto: "dkls23", variants: []string{"softspoken,k256,sha3-512", "softspoken,p256,sha512", "softspoken,p256,sha256", "softspoken,k256,sha384",
			"softspoken,k256,sha256", "softspoken,p256,sha3-384", "softspoken,k256,sha512", "softspoken,p256,sha3-512", "softspoken,k256,sha3-256", "softspoken,p256,sha384"},
			count: 4 * mul, maxQ: 3, emptyOK: true, plan: dklsPlan},
		{proto: "lindell22", variants: []string{"bip340,-", "mina,-", "schnorr-k256,sha512", "schnorr-k256-neg,sha256", "schnorr-p256,sha3-512", "schnorr-k256-le,sha384",
			"bip340,-", "mina,-", "schnorr-p256,sha256", "schnorr-k256,sha256", "schnorr-k256-neg,sha3-512", "schnorr-k256-le,sha256"},
			count: 24 * mul, maxQ: 4, emptyOK: true, plan: l22Plan},
		{proto: "boldyreva", variants: []string{"short,basic", "short,aug", "short,pop", "long,basic", "long,aug", "long,pop"}, count: 18 * (mul - 1), maxQ: 5, emptyOK: true}, // quick tier: the cross product of boldyrevaCross only
	}
	out := lindell17Cases(seed, lindell17Count(tier)*boolMul(search, 2))
	out = append(out, boldyrevaCross(seed)...)
	out = append(out, cggmpCases(seed, cggmpCount(tier))...)
	for si, sp := range specs {
		var pols []absPolicy
		for _, a := range absPolicies {
			if sp.polFilter == nil || sp.polFilter(a) {
				pols = append(pols, a)
			}
		}
		if len(pols) == 0 {
			continue
		}
		for i := 0; i < sp.count; i++ {
			rng := vh.NewRng(seed, "C01", fmt.Sprintf("gen/%d", si), i)
			asg := (i / len(pols)) % len(assignments)
			var p keys.Policy
			var q []sharing.ID
			if sp.plan != nil {
				if a, minimal, ok := sp.plan(i); ok {
					p = concretePolicy(a, (i/4)%len(assignments))
					q = pickQuorum(p, rng, minimal, sp.maxQ, sp.exactQ)
				}
			}
			for off := 0; off < len(pols) && q == nil; off++ { // a policy without a quorum of the allowed size: take the next one
				p = concretePolicy(pols[(i+off)%len(pols)], asg)
				q = pickQuorum(p, rng, i%2 == 0, sp.maxQ, sp.exactQ)
			}
			if q == nil {
				continue
			}
			sess := "seeded"
			if i%5 == 3 {
				sess = "real"
			}
			if i%8 == 1 {
				sess += "+dkg"
			} else if i%8 == 5 {
				sess += "+cdkg"
			}
			if i%3 == 2 && (sp.proto == "dkls23" || sp.proto == "lindell22") {
				sess += "+runner"
			}
			k := kase{Proto: sp.proto, Variant: sp.variants[i%len(sp.variants)], Policy: p.Text(), Quorum: q,
				Msg: msgSpec(i/2, rng, sp.emptyOK), Session: sess, Seed: seed*1000 + int64(i)}
			out = append(out, k)
			// BLS signatures are unique: a second quorum on the same key and message must give the same signature
			if sp.proto == "boldyreva" && i%3 == 0 {
				if q2 := pickQuorum(p, rng, i%2 != 0, sp.maxQ, 0); q2 != nil {
					k2 := k
					k2.Quorum = q2
					out = append(out, k2)
				}
			}
		}
	}
	return out
}

// boldyrevaCross is the full small cross product run in every tier:
// {short, long} x {basic, aug, pop} x {ideal threshold, CNF in which every holder owns two rows, gate tree with a
// repeated leaf (holders 1 and 3 own several rows)} x {minimal, non-minimal quorum}. The two quorums of one
// combination share key and message, so the (unique) BLS signatures must coincide.
func boldyrevaCross(seed int64) []kase {
	structs := []absPolicy{{"T:2:1,2,3", 3}, {"N:1|2|3", 3}, {"G:g2[1,g1[2,3],g2[1,3]]", 3}}
	var out []kase
	i := 0
	for _, ks := range []string{"short", "long"} {
		for _, md := range []string{"basic", "aug", "pop"} {
			for _, a := range structs {
				rng := vh.NewRng(seed, "C01", "gen/blscross", i)
				p := concretePolicy(a, i%len(assignments))
				sess := "seeded"
				switch i % 6 {
				case 1:
					sess = "seeded+dkg"
				case 4:
					sess = "real+cdkg"
				}
				msg := msgSpec(i, rng, false)
				if i == 3 || i == 13 {
					msg = "e" // the code's refusal of the empty message (short/aug/ideal and long/aug/CNF; never a POP combination)
				}
				for _, minimal := range []bool{true, false} {
					q := pickQuorum(p, rng, minimal, 0, 0)
					if q == nil {
						continue
					}
					out = append(out, kase{Proto: "boldyreva", Variant: ks + "," + md, Policy: p.Text(), Quorum: q, Msg: msg, Session: sess, Seed: seed*1000 + 500 + int64(i)})
				}
				i++
			}
		}
	}
	return out
}

func boolInt(b bool) int {
	if b {
		return 1
	}
	return 0
}

func boolMul(b bool, m int) int {
	if b {
		return m
	}
	return 1
}

// ---- evaluation ------------------------------------------------------------------------

func evaluate(idx int, k kase) (o *outcome) {
	o = &outcome{k: k, class: k.Proto + "/" + k.Variant}
	t0 := time.Now()
	defer func() { o.secs = time.Since(t0).Seconds() }()
	p := vh.Safely(func() {
		switch k.Proto {
		case "dkls23":
			evalDkls(idx, k, o)
		case "lindell22":
			evalL22(idx, k, o)
		case "boldyreva":
			evalBls(idx, k, o)
		case "lindell17":
			evalL17(idx, k, o)
		case "cggmp21":
			evalCggmp(idx, k, o)
		default:
			o.propKey, o.propDetail = "unknown-protocol", k.Proto
		}
	})
	if p != "" {
		o.propKey, o.propDetail = k.Proto+"-harness-panic", p
	}
	return o
}

func main() {
	if os.Getenv("C01_GENKEYS") != "" {
		genL17Keys()
		genCggmpKeys()
		return
	}
	a := vh.ParseArgs()
	if a.Tier == "thorough" && a.Replay == "" {
		genL17Keys() // regenerate missing key material (never in the quick tier)
		genCggmpKeys()
	}
	res := vh.NewResult("C01", a.Seed, a.Tier)
	res.Rule = "full protocol runs of the real implementation (round functions driven through harness/internal/drive, every message through CBOR): " +
		"protocol x variant (DKLs23 bbot/softspoken x k256/p256 x hash; Lindell22 x bip340/mina/vanilla(+neg,+le,p256); Boldyreva x short/long x basic/aug/pop; Lindell17; CGGMP21) x " +
		"policy family (threshold, unanimity, CNF incl. non-ideal, hierarchical, gate trees with repeated leaves) x ID assignment (ordinal, sparse unsorted, >= 2^40) x " +
		"quorum (minimal AND non-minimal for every protocol/multiplier/flavour on an ideal and on a non-ideal structure with a multi-row signer; Lindell17 has exactly two signers; presented unsorted) x Boldyreva as full cross product {short,long}x{basic,aug,pop}x{ideal, CNF two rows per holder, gate tree repeated leaf}x{minimal,non-minimal} x message (empty, 1 byte, 10 kB, short random) x session contexts (seeded / real setup protocol) x key source (trusted dealer / real Gennaro DKG / real Canetti DKG) x API (round-by-round / networked runner over an in-memory transport) x seed; " +
		"non-trivial = the run got past construction of all cosigners"

	var cases []kase
	if a.Replay != "" {
		data, err := os.ReadFile(a.Replay)
		if err != nil {
			fmt.Fprintln(os.Stderr, err)
			os.Exit(2)
		}
		for _, line := range strings.Split(string(data), "\n") {
			if strings.HasPrefix(line, "case: ") {
				k, err := parseCase(strings.TrimPrefix(line, "case: "))
				if err != nil {
					fmt.Fprintln(os.Stderr, err)
					os.Exit(2)
				}
				cases = append(cases, k)
			}
		}
	} else {
		cases = append(corpusCases(), generate(a.Seed, a.Tier, a.Search)...)
	}

	if only := os.Getenv("C01_ONLY"); only != "" { // development aid: restrict to some protocols
		var kept []kase
		for _, k := range cases {
			if strings.Contains(","+only+",", ","+k.Proto+",") {
				kept = append(kept, k)
			}
		}
		cases = kept
	}
	// run the implementation (parallel; every run is self-contained and deterministic)
	outs := make([]*outcome, len(cases))
	workers := runtime.NumCPU()
	if workers > 12 {
		workers = 12
	}
	var wg sync.WaitGroup
	ch := make(chan int)
	for w := 0; w < workers; w++ {
		wg.Add(1)
		go func() {
			defer wg.Done()
			for i := range ch {
				outs[i] = evaluate(i, cases[i])
			}
		}()
	}
	// long cases first
	order := make([]int, len(cases))
	for i := range order {
		order[i] = i
	}
	sort.SliceStable(order, func(x, y int) bool { return weight(cases[order[x]]) > weight(cases[order[y]]) })
	for _, i := range order {
		ch <- i
	}
	close(ch)
	wg.Wait()

	// the model on the same cases
	var lines []string
	type ref struct{ o, m int }
	var refs []ref
	for oi, o := range outs {
		for mi, mc := range o.model {
			lines = append(lines, mc.line)
			refs = append(refs, ref{oi, mi})
		}
	}
	var modelOut []string
	if len(lines) > 0 && a.Driver != "" && !a.Search {
		var err error
		modelOut, err = vh.Driver(a.Driver, lines)
		if err != nil {
			res.Mismatch(vh.Mismatch{ID: "driver", Kind: "corr", Key: "model-driver-failed", Detail: err.Error(), Case: "-", What: "extracted model could not be evaluated"})
		}
	}

	groups := map[string]*outcome{}
	for i, o := range outs {
		res.Count(o.class, o.k.text(), o.nontrivial)
		res.Distribution["setup:"+o.k.Session]++ // session contexts + key source + API of the case (second view of the same cases)
		id := fmt.Sprintf("case-%d", i)
		if o.propKey != "" {
			res.Mismatch(vh.Mismatch{ID: id, Kind: "prop", Key: o.propKey, Detail: o.propDetail, Case: o.k.text(), PropFail: true,
				What: "property predicate on the implementation: honest run terminates with a signature accepted by the library verifier and the independent verifier, all outputs equal"})
		}
		for _, c := range o.corr {
			res.Mismatch(vh.Mismatch{ID: id, Kind: "corr", Key: c.key, Detail: c.detail, Case: o.k.text(), PropFail: o.propKey != "",
				What: "correspondence between the run and the model's inputs (tapes / key material)"})
		}
		if o.group != "" && o.sigText != "" {
			if prev, ok := groups[o.group]; ok && prev.sigText != o.sigText {
				res.Mismatch(vh.Mismatch{ID: id, Kind: "prop", Key: o.k.Proto + "-signature-depends-on-quorum", PropFail: true,
					Detail: fmt.Sprintf("quorum %s gives %s, quorum %s gives %s", keys.IDsText(prev.k.Quorum), prev.sigText, keys.IDsText(o.k.Quorum), o.sigText),
					Case:   o.k.text(), What: "boldyreva_quorum_independent: every accepted quorum yields the same (unique) BLS signature"})
			} else if !ok {
				groups[o.group] = o
			}
		}
	}
	if modelOut != nil {
		for li, r := range refs {
			o := outs[r.o]
			key, detail := o.model[r.m].cmp(strings.Fields(modelOut[li]))
			if key != "" {
				res.Mismatch(vh.Mismatch{ID: fmt.Sprintf("case-%d", r.o), Kind: "corr", Key: key, Detail: detail + " | model: " + modelOut[li], Case: o.k.text(),
					PropFail: o.propKey != "", What: "model tie: exponent of R / signature scalar predicted by the extracted Coq model from the tapes"})
			}
		}
	}
	if os.Getenv("C01_TIMING") != "" {
		idx := make([]int, len(outs))
		for i := range idx {
			idx[i] = i
		}
		sort.Slice(idx, func(x, y int) bool { return outs[idx[x]].secs > outs[idx[y]].secs })
		for _, i := range idx[:min(12, len(idx))] {
			fmt.Fprintf(os.Stderr, "%6.1fs %s\n", outs[i].secs, firstN(outs[i].k.text(), 150))
		}
	}
	res.Note("independent verifiers: crypto/ecdsa on elliptic.P256 (P-256 ECDSA), math/big affine secp256k1 (ECDSA, BIP-340, vanilla Schnorr), crypto/elliptic P-256 Schnorr equation, BLS pairing equation through the library's pairing; Mina has no independent verifier (Poseidon): library verifier, the library verifier on the signature re-parsed from its wire form (also for BIP-340), and the exponent tie")
	res.Note("model tie: DKLs23 r_i, phi_i and Lindell22 k_i are read off the tapes (48-byte little-endian reads reduced mod q by the model); VOLE/OT internals (chi, c, d), PRZS/HJKY zero shares and additive key shares are not visible on the tapes: the model is run on synthetic values satisfying vole_product / to_additive_sums / zero_sum and compared on what is visible (R, sum u, sum w, s, recovery id)")
	res.Write(a.Out)
}

func weight(k kase) int {
	w := len(k.Quorum) * len(k.Quorum)
	switch {
	case k.Proto == "dkls23" && strings.HasPrefix(k.Variant, "bbot"):
		return 100 * w
	case k.Proto == "cggmp21":
		return 80 * w
	case k.Proto == "lindell17":
		return 30 * w
	case k.Proto == "dkls23":
		return 10 * w
	}
	return w
}

func corpusCases() []kase {
	var out []kase
	root := os.Getenv("VERIF_ROOT")
	if root == "" {
		root = "/verif"
	}
	data, err := os.ReadFile(root + "/corpus/c01/cases.txt")
	if err != nil {
		return nil
	}
	for _, line := range strings.Split(string(data), "\n") {
		line = strings.TrimSpace(line)
		if line == "" || strings.HasPrefix(line, "#") {
			continue
		}
		if k, err := parseCase(line); err == nil {
			out = append(out, k)
		}
	}
	return out
}
