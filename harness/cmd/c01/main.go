package main

import (
	"fmt"
	"time"

	"github.com/bronlabs/bron-crypto/pkg/mpc/sharing"
	"verif/harness/internal/drive/keys"
	"verif/harness/internal/drive/lindell22"
)

func main() {
	for _, v := range []string{"bip340", "mina", "schnorr-k256", "schnorr-k256-neg", "schnorr-p256", "schnorr-k256-le"} {
		for seed := int64(1); seed <= 4; seed++ {
			t0 := time.Now()
			res := lindell22.RunFull(lindell22.Config{Common: keys.Common{Seed: seed, Prop: "C01", Quorum: []sharing.ID{1, 3}, Session: "seeded", Message: []byte("hi")},
				Policy: "T:2:1,2,3", Variant: v, Hash: "sha256"})
			fmt.Println(v, seed, time.Since(t0), res.SetupErr, res.Trace.Verdicts)
			if res.Sig != nil {
				fmt.Println("  agg0", res.Sig.Lib, res.Sig.ROdd, res.Trace.Outputs[0])
			}
			for id, s := range res.SigBy {
				fmt.Println("  by", id, s.Lib, s.ROdd, res.Trace.Outputs[id])
			}
			for id, v := range res.Trace.Verdicts {
				if v.Class != "ok" {
					fmt.Println("  verdict", id, v.Class, v.Round, v.Detail)
				}
			}
		}
	}
}
