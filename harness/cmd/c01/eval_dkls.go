package main

import (
	"bytes"
	"crypto/ecdsa"
	"crypto/elliptic"
	"fmt"
	"math/big"
	"strings"

	"github.com/bronlabs/bron-crypto/pkg/mpc/sharing"

	"verif/harness/internal/drive"
	ddkls "verif/harness/internal/drive/dkls23"
	"verif/harness/internal/vh"
)

// verdictsOK reports the first non-ok verdict of a trace ("" if none), ids ascending.
func verdictsOK(tr *drive.Trace, ids []sharing.ID, withAggregator bool) string {
	all := append([]sharing.ID(nil), ids...)
	if withAggregator {
		all = append(all, 0)
	}
	for _, id := range all {
		v, ok := tr.Verdicts[id]
		if !ok {
			return fmt.Sprintf("party %d has no verdict", uint64(id))
		}
		if v.Class != "ok" {
			return fmt.Sprintf("party %d: %s in round %d (%s)", uint64(id), v.String(), v.Round, v.Detail)
		}
	}
	return ""
}

// readsTagged returns the indices of the tape reads carrying tag.
func readsTagged(t *drive.Tape, tag string) []int {
	var out []int
	for i, r := range t.Reads {
		if r.Tag == tag {
			out = append(out, i)
		}
	}
	return out
}

func leMod(b []byte, q *big.Int) *big.Int {
	r := make([]byte, len(b))
	for i := range b {
		r[len(b)-1-i] = b[i]
	}
	x := new(big.Int).SetBytes(r)
	return x.Mod(x, q)
}

func zlist(l []*big.Int) string {
	p := make([]string, len(l))
	for i, x := range l {
		p[i] = vh.ZHex(x)
	}
	return strings.Join(p, ",")
}

func zmat(m [][]*big.Int) string {
	p := make([]string, len(m))
	for i, r := range m {
		if len(r) == 0 {
			p[i] = "-"
		} else {
			p[i] = zlist(r)
		}
	}
	return strings.Join(p, ";")
}

func hexlist(l [][]byte) string {
	p := make([]string, len(l))
	for i, x := range l {
		p[i] = vh.Hex(x)
	}
	return strings.Join(p, ",")
}

// split returns n values summing to total mod q.
func split(rng *vh.Rng, n int, total, q *big.Int) []*big.Int {
	out := make([]*big.Int, n)
	acc := new(big.Int)
	for i := 0; i < n-1; i++ {
		out[i] = rng.BigBelow(q)
		acc.Add(acc, out[i])
	}
	last := new(big.Int).Sub(total, acc)
	out[n-1] = last.Mod(last, q)
	return out
}

func bitStr(b bool) string {
	if b {
		return "1"
	}
	return "0"
}

// ecdsaIndependent verifies (r, s) for the full message digest with a verifier independent of /repo:
// the math/big secp256k1 verifier of secp.go, resp. crypto/ecdsa on elliptic.P256; both apply the
// standard leftmost-bits truncation of the digest themselves.
func ecdsaIndependent(curve string, pkx, pky *big.Int, digest []byte, r, s *big.Int) bool {
	if pkx == nil || pky == nil {
		return false
	}
	switch curve {
	case "k256":
		return secpECDSAVerify(pt{x: pkx, y: pky}, digest, r, s)
	case "p256":
		return ecdsa.Verify(&ecdsa.PublicKey{Curve: elliptic.P256(), X: pkx, Y: pky}, digest, r, s)
	}
	return false
}

func evalDkls(idx int, k kase, o *outcome) {
	v := strings.Split(k.Variant, ",")
	if len(v) != 3 {
		o.propKey, o.propDetail = "bad-case", k.Variant
		return
	}
	mult, curve, hashName := v[0], v[1], v[2]
	cfg := ddkls.Config{Common: k.common(), Policy: k.Policy, Curve: curve, Hash: hashName, Multiplier: mult}
	res := ddkls.RunFull(cfg)
	key := "dkls23-" + mult + "-" + curve
	if res.SetupErr != "" {
		o.propKey, o.propDetail = key+"-setup-failed", res.SetupErr
		return
	}
	o.nontrivial = true
	msg := k.message()
	// ---- the property's own predicate on the implementation
	fail := func(what, detail string) {
		if o.propKey == "" {
			o.propKey, o.propDetail = key+"-"+what, detail
		}
	}
	if d := verdictsOK(res.Trace, res.Quorum, true); d != "" {
		fail("honest-run-error", d)
	}
	if res.Sig == nil {
		fail("no-signature", "Aggregate returned no signature")
	} else {
		if res.LibOK != "ok" {
			fail("library-verifier-rejects", "ecdsa.NewVerifier(suite).Verify: "+res.LibOK)
		}
		hf, _ := ddkls.HashFunc(hashName)
		h := hf()
		h.Write(msg)
		digest := h.Sum(nil)
		if !ecdsaIndependent(curve, res.PKX, res.PKY, digest, res.Sig.R, res.Sig.S) {
			fail("independent-verifier-rejects", fmt.Sprintf("r=%s s=%s pk=(%s,%s)", vh.ZHex(res.Sig.R), vh.ZHex(res.Sig.S), vh.ZHex(res.PKX), vh.ZHex(res.PKY)))
		}
		// a different message must not verify (exactly that message)
		other := append(append([]byte(nil), msg...), 0x01)
		h2 := hf()
		h2.Write(other)
		d2 := h2.Sum(nil)
		if curve == "k256" && secpECDSAVerify(pt{x: res.PKX, y: res.PKY}, d2, res.Sig.R, res.Sig.S) {
			fail("verifies-for-other-message", "signature also verifies for message||01")
		}
		if res.Sig2 == nil || res.Sig2.R.Cmp(res.Sig.R) != 0 || res.Sig2.S.Cmp(res.Sig.S) != 0 || res.Sig2.V != res.Sig.V {
			fail("outputs-differ", "Aggregate on the reversed list of partial signatures gives a different result")
		}
	}
	var R []byte
	for _, id := range res.Quorum {
		p := res.Partials[id]
		if p == nil {
			continue
		}
		if R == nil {
			R = p.R
		} else if !bytes.Equal(R, p.R) {
			fail("partial-R-differ", "parties' partial signatures carry different R")
		}
	}
	o.sigText = res.Trace.Outputs[0]

	// ---- the model tie
	if len(res.Partials) != len(res.Quorum) || R == nil || len(R) != 33 || res.Order == nil {
		return
	}
	q := res.Order
	tag := "r1"
	if mult == "softspoken" {
		tag = "r3"
	}
	if cfg.API == "runner" {
		// the runner executes all rounds under one tape mark; for bbot Round1 is the first to read
		// (r, witness, phi), for softspoken the position of r and phi is not fixed: no tape tie
		if mult != "bbot" {
			return
		}
		tag = "run"
	}
	n := len(res.Quorum)
	var rt, pt_ [][]byte
	for _, id := range res.Quorum {
		t := res.Trace.Tapes[id]
		rd := readsTagged(t, tag)
		if len(rd) < 3 || t.Reads[rd[0]].N != 48 || t.Reads[rd[1]].N != 32 || t.Reads[rd[2]].N != 48 {
			o.corr = append(o.corr, corrFail{key + "-tape-layout", fmt.Sprintf("party %d: reads tagged %s are not (48,32,48,...): %s", uint64(id), tag, firstN(t.ReadsText(), 200))})
			return
		}
		rt = append(rt, t.Slice(rd[0]))
		pt_ = append(pt_, t.Slice(rd[2]))
	}
	rng := vh.NewRng(k.Seed, "C01", "model", idx)
	// the parties' sk_i = additive share + PRZS zero share, recomputed with the library from the same
	// shares and contexts; the theorem's hypotheses to_additive_sums and zero_sum are checked on them
	var sk []*big.Int
	sumA, sumZ := new(big.Int), new(big.Int)
	for _, id := range res.Quorum {
		a, z := res.Additive[id], res.Zeta[id]
		if a == nil || z == nil {
			sk = nil
			break
		}
		sumA.Add(sumA, a)
		sumZ.Add(sumZ, z)
		v := new(big.Int).Add(a, z)
		sk = append(sk, v.Mod(v, q))
	}
	if sk == nil {
		sk = split(rng, n, res.Secret, q)
	} else {
		if sumA.Mod(sumA, q).Cmp(res.Secret) != 0 {
			o.corr = append(o.corr, corrFail{key + "-to-additive-sums", fmt.Sprintf("the additive shares over the quorum sum to %s, the key is %s", vh.ZHex(sumA), vh.ZHex(res.Secret))})
		}
		if sumZ.Mod(sumZ, q).Sign() != 0 {
			o.corr = append(o.corr, corrFail{key + "-zero-sum", "the PRZS zero shares of the quorum do not sum to zero"})
		}
	}
	mk := func() [][]*big.Int {
		m := make([][]*big.Int, n)
		for i := range m {
			m[i] = make([]*big.Int, n)
			for j := range m[i] {
				m[i][j] = rng.BigBelow(q)
			}
		}
		return m
	}
	chi, cu, cv := mk(), mk(), mk()
	x := new(big.Int).SetBytes(R[1:])
	rx := new(big.Int).Mod(x, q)
	odd := R[0] == 3
	over := x.Cmp(q) >= 0
	hf, _ := ddkls.HashFunc(hashName)
	h := hf()
	h.Write(msg)
	m := bits2int256(h.Sum(nil))
	m.Mod(m, q)
	if res.M != nil && res.M.Cmp(m) != 0 {
		o.corr = append(o.corr, corrFail{key + "-message-scalar", fmt.Sprintf("DigestToScalar gives %s, bits2int mod q gives %s", vh.ZHex(res.M), vh.ZHex(m))})
	}
	line := fmt.Sprintf("D %d %s %s %s %s %s %s %d %s %s %s %s %s %s", idx, vh.ZHex(q), vh.ZHex(m), vh.ZHex(res.Secret), vh.ZHex(rx), bitStr(odd), bitStr(over), n,
		hexlist(rt), hexlist(pt_), zlist(sk), zmat(chi), zmat(cu), zmat(cv))
	sumU, sumW := new(big.Int), new(big.Int)
	for _, id := range res.Quorum {
		sumU.Add(sumU, res.Partials[id].U)
		sumW.Add(sumW, res.Partials[id].W)
	}
	sumU.Mod(sumU, q)
	sumW.Mod(sumW, q)
	sig := res.Sig
	baseMul := res.BaseMul
	o.model = append(o.model, modelCheck{line: line, cmp: func(out []string) (string, string) {
		// D id some r s b0 b1 k U W   |   D id none k U W
		if len(out) < 3 || out[0] != "D" {
			return key + "-model-output", "unparsable model output"
		}
		var kk, uu, ww *big.Int
		if out[2] == "some" && len(out) == 10 {
			kk, uu, ww = vh.UnZHex(out[7]), vh.UnZHex(out[8]), vh.UnZHex(out[9])
		} else if out[2] == "none" && len(out) == 6 {
			kk, uu, ww = vh.UnZHex(out[3]), vh.UnZHex(out[4]), vh.UnZHex(out[5])
		} else {
			return key + "-model-output", "unparsable model output"
		}
		if !bytes.Equal(baseMul(kk), R) {
			return key + "-R-exponent", fmt.Sprintf("ScalarBaseMul(sum r_i from tapes = %s) != R = %s", vh.ZHex(kk), vh.Hex(R))
		}
		if uu.Cmp(sumU) != 0 {
			return key + "-sum-u", fmt.Sprintf("sum of the parties' u = %s, model (sum r)(sum phi) = %s", vh.ZHex(sumU), vh.ZHex(uu))
		}
		if ww.Cmp(sumW) != 0 {
			return key + "-sum-w", fmt.Sprintf("sum of the parties' w = %s, model = %s", vh.ZHex(sumW), vh.ZHex(ww))
		}
		if out[2] == "none" {
			if sig != nil {
				return key + "-model-refuses", "the model's run returns an error, the implementation a signature"
			}
			return "", ""
		}
		if sig == nil {
			return key + "-impl-refuses", "the model's run yields a signature, the implementation none"
		}
		mr, ms := vh.UnZHex(out[3]), vh.UnZHex(out[4])
		mv := 0
		if out[5] == "1" {
			mv++
		}
		if out[6] == "1" {
			mv += 2
		}
		if mr.Cmp(sig.R) != 0 {
			return key + "-r", fmt.Sprintf("r: impl %s model %s", vh.ZHex(sig.R), vh.ZHex(mr))
		}
		if ms.Cmp(sig.S) != 0 {
			neg := new(big.Int).Sub(q, ms)
			if neg.Cmp(sig.S) == 0 {
				return key + "-s-not-normalised", fmt.Sprintf("s: impl %s is the negation of the model's normalised s %s", vh.ZHex(sig.S), vh.ZHex(ms))
			}
			return key + "-s", fmt.Sprintf("s: impl %s model %s", vh.ZHex(sig.S), vh.ZHex(ms))
		}
		if sig.V != mv {
			return key + "-recovery-id", fmt.Sprintf("v: impl %d model %d", sig.V, mv)
		}
		return "", ""
	}})
}

func firstN(s string, n int) string {
	if len(s) > n {
		return s[:n]
	}
	return s
}
