package main

func cggmpCount(tier string) int { return 0 }
func cggmpHas(policy string) bool { return false }
func evalCggmp(idx int, k kase, o *outcome) {
	o.propKey, o.propDetail = "cggmp21-not-wired", "driver missing"
}
