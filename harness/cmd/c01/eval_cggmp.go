package main

import (
	"bytes"
	"fmt"
	"math/big"
	"os"
	"strings"

	"github.com/bronlabs/bron-crypto/pkg/base/curves/k256"
	"github.com/bronlabs/bron-crypto/pkg/base/curves/p256"

	dcg "verif/harness/internal/drive/cggmp21"
	ddkls "verif/harness/internal/drive/dkls23"
	"verif/harness/internal/drive/keys"
	"verif/harness/internal/vh"
)

// stored CGGMP21 key material per curve; "N:1|2|3" is 2-of-3 as CNF: non-ideal, every holder owns two MSP rows
var cggmpPolicies = map[string][]string{"k256": {"T:2:1,2,3", "N:1|2|3"}, "p256": {"T:2:1,2,3"}}

func cggmpAvailable(curve string) []string {
	var out []string
	for _, p := range cggmpPolicies[curve] {
		if _, err := os.Stat(keys.CggmpPath(curve, p)); err == nil {
			out = append(out, p)
		}
	}
	return out
}

func genCggmpKeys() {
	for i, p := range cggmpPolicies["k256"] {
		if _, err := os.Stat(keys.CggmpPath("k256", p)); err != nil {
			fmt.Fprintln(os.Stderr, "generating CGGMP21 key material (k256) for", p)
			if err := keys.GenerateCggmp(k256.NewCurve(), "k256", p, vh.NewRng(1, "C01", "cggmpkeys", i)); err != nil {
				fmt.Fprintln(os.Stderr, "  failed:", err)
			}
		}
	}
	for i, p := range cggmpPolicies["p256"] {
		if _, err := os.Stat(keys.CggmpPath("p256", p)); err != nil {
			fmt.Fprintln(os.Stderr, "generating CGGMP21 key material (p256) for", p)
			if err := keys.GenerateCggmp(p256.NewCurve(), "p256", p, vh.NewRng(1, "C01", "cggmpkeys-p256", i)); err != nil {
				fmt.Fprintln(os.Stderr, "  failed:", err)
			}
		}
	}
}

func cggmpCount(tier string) int {
	if len(cggmpAvailable("k256"))+len(cggmpAvailable("p256")) == 0 {
		return 0
	}
	if tier == "thorough" {
		return 10
	}
	return 4
}

func cggmpCases(seed int64, count int) []kase {
	var out []kase
	for i := 0; i < count; i++ {
		rng := vh.NewRng(seed, "C01", "gen/cggmp", i)
		combo := ecdsaCombos[i%len(ecdsaCombos)] // curve x hash rotation, see eval_l17.go
		avail := cggmpAvailable(combo[0])
		if len(avail) == 0 {
			continue
		}
		ptxt := avail[(i/2)%len(avail)]
		p, _ := keys.ParsePolicy(ptxt)
		// odd cases sign with a NON-minimal quorum: all three of 2-of-3, on the ideal threshold structure (i = 1, 5, ..)
		// and on the non-ideal CNF one (i = 3, 7, ..)
		q := pickQuorum(p, rng, i%2 == 0, 3, 0)
		if q == nil {
			continue
		}
		out = append(out, kase{Proto: "cggmp21", Variant: combo[0] + "," + combo[1], Policy: ptxt, Quorum: q, Msg: msgSpec(i, rng, true), Session: "seeded", Seed: seed*1000 + int64(i)})
	}
	return out
}

func evalCggmp(idx int, k kase, o *outcome) {
	v := strings.Split(k.Variant, ",")
	if len(v) != 2 {
		o.propKey, o.propDetail = "bad-case", k.Variant
		return
	}
	res := dcg.RunFull(dcg.Config{Common: k.common(), Policy: k.Policy, Curve: v[0], Hash: v[1]})
	key := "cggmp21-" + v[0]
	if res.SetupErr != "" {
		o.propKey, o.propDetail = key+"-setup-failed", res.SetupErr
		return
	}
	o.nontrivial = true
	msg := k.message()
	fail := func(what, detail string) {
		if o.propKey == "" {
			o.propKey, o.propDetail = key+"-"+what, detail
		}
	}
	if d := verdictsOK(res.Trace, res.Quorum, true); d != "" {
		fail("honest-run-error", d)
	}
	hf, _ := ddkls.HashFunc(v[1])
	h := hf()
	h.Write(msg)
	digest := h.Sum(nil)
	if res.Sig == nil {
		fail("no-signature", "the aggregator produced no signature")
	} else {
		if res.LibOK != "ok" {
			fail("library-verifier-rejects", res.LibOK)
		}
		if !ecdsaIndependent(v[0], res.PKX, res.PKY, digest, res.Sig.R, res.Sig.S) {
			fail("independent-verifier-rejects", res.Trace.Outputs[0])
		}
	}
	var G []byte
	for _, id := range res.Quorum {
		if p := res.Partials[id]; p != nil {
			if G == nil {
				G = p.Gamma
			} else if !bytes.Equal(G, p.Gamma) {
				fail("partial-Gamma-differ", "parties' partial signatures carry different Gamma")
			}
		}
	}
	o.sigText = res.Trace.Outputs[0]

	// ---- model tie: gamma_i (and k_i) are among the 48-byte reads of round 1; their position
	// is found by matching (sum of the candidates)·G against Gamma
	if res.Sig == nil || G == nil || len(res.Partials) != len(res.Quorum) {
		return
	}
	q := res.Order
	n := len(res.Quorum)
	var cands [][][]byte // per party: the first 48-byte reads tagged r1
	depth := 8
	for _, id := range res.Quorum {
		t := res.Trace.Tapes[id]
		var c [][]byte
		for _, ri := range readsTagged(t, "r1") {
			if t.Reads[ri].N == 48 && len(c) < depth {
				c = append(c, t.Slice(ri))
			}
		}
		cands = append(cands, c)
		if len(c) < depth {
			depth = len(c)
		}
	}
	gi := -1
	for j := 0; j < depth; j++ {
		s := new(big.Int)
		for p := 0; p < n; p++ {
			s.Add(s, leMod(cands[p][j], q))
		}
		if bytes.Equal(res.BaseMul(s), G) {
			gi = j
			break
		}
	}
	if gi < 0 {
		o.corr = append(o.corr, corrFail{key + "-tape-layout", "no 48-byte read position of round 1 sums to the exponent of Gamma"})
		return
	}
	ki := 0
	if gi == 0 {
		ki = 1
	}
	var kt, gt [][]byte
	for p := 0; p < n; p++ {
		gt = append(gt, cands[p][gi])
		kt = append(kt, cands[p][ki]) // k_i is not observable in the signature; any value works for the model
	}
	rng := vh.NewRng(k.Seed, "C01", "model", idx)
	xs := split(rng, n, res.Secret, q)
	mk := func() [][]*big.Int {
		m := make([][]*big.Int, n)
		for i := range m {
			m[i] = make([]*big.Int, n)
			for j := range m[i] {
				m[i][j] = rng.BigBelow(q)
			}
		}
		return m
	}
	beta, betah := mk(), mk()
	x := new(big.Int).SetBytes(G[1:])
	rx := new(big.Int).Mod(x, q)
	m := bits2int256(digest)
	m.Mod(m, q)
	line := fmt.Sprintf("G %d %s %s %s %s %s %s %d %s %s %s %s %s", idx, vh.ZHex(q), vh.ZHex(m), vh.ZHex(res.Secret), vh.ZHex(rx), bitStr(G[0] == 3), bitStr(x.Cmp(q) >= 0), n,
		hexlist(kt), hexlist(gt), zlist(xs), zmat(beta), zmat(betah))
	sig := res.Sig
	baseMul := res.BaseMul
	o.model = append(o.model, modelCheck{line: line, cmp: func(out []string) (string, string) {
		// G id some r s b0 b1 g | G id none g
		if len(out) < 4 || out[0] != "G" {
			return key + "-model-output", "unparsable model output"
		}
		if out[2] != "some" || len(out) != 8 {
			return key + "-model-refuses", "the model's run returns an error, the implementation a signature"
		}
		if !bytes.Equal(baseMul(vh.UnZHex(out[7])), G) {
			return key + "-Gamma-exponent", "ScalarBaseMul(sum gamma_i from tapes) != Gamma"
		}
		mr, ms := vh.UnZHex(out[3]), vh.UnZHex(out[4])
		mv := 0
		if out[5] == "1" {
			mv++
		}
		if out[6] == "1" {
			mv += 2
		}
		if mr.Cmp(sig.R) != 0 {
			return key + "-r", fmt.Sprintf("r: impl %s model %s", vh.ZHex(sig.R), vh.ZHex(mr))
		}
		if ms.Cmp(sig.S) != 0 {
			return key + "-s", fmt.Sprintf("s: impl %s model %s", vh.ZHex(sig.S), vh.ZHex(ms))
		}
		if sig.V != mv {
			return key + "-recovery-id", fmt.Sprintf("v: impl %d model %d", sig.V, mv)
		}
		return "", ""
	}})
}
