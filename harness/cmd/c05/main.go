// c05 — correspondence harness for property C05 (share verification accepts exactly the dealer's
// shares).  See /verif/DESIGN.md §5 C05.
//
// The harness deals with the real Feldman / Pedersen schemes, reads the dealer's scalars from the
// revealed dealer function (so it knows the EXPONENT of every entry of a verification vector, also of
// the mutated ones it builds itself), checks that the published vector is the lift of those scalars
// with the implementation's own group, presents honest and mutated (share, vector, claimed holder)
// triples to Verify / NewVerificationVector / NewBaseShard / VerificationVector.Op /
// ReconstructInTheExponent, and compares accept/reject with the extracted Coq model evaluated on the
// exponents (ocaml/c05/driver.ml).  Independently it evaluates the property predicate on the
// implementation alone.
package main

import (
	"fmt"
	"math/big"
	"os"
	"sort"
	"strings"

	"github.com/fxamacker/cbor/v2"

	"github.com/bronlabs/bron-crypto/pkg/base/algebra"
	"github.com/bronlabs/bron-crypto/pkg/base/curves/k256"
	"github.com/bronlabs/bron-crypto/pkg/base/curves/pairable/bls12381"
	"github.com/bronlabs/bron-crypto/pkg/base/mat"
	"github.com/bronlabs/bron-crypto/pkg/base/serde"
	pedcom "github.com/bronlabs/bron-crypto/pkg/commitments/pedersencom"
	"github.com/bronlabs/bron-crypto/pkg/mpc"
	"github.com/bronlabs/bron-crypto/pkg/mpc/sharing"
	"github.com/bronlabs/bron-crypto/pkg/mpc/sharing/scheme/kw"
	"github.com/bronlabs/bron-crypto/pkg/mpc/sharing/scheme/kw/msp"
	"github.com/bronlabs/bron-crypto/pkg/mpc/sharing/vss/feldman"
	"github.com/bronlabs/bron-crypto/pkg/mpc/sharing/vss/pedersen"

	"verif/harness/internal/vh"
)

type gctx[E algebra.PrimeGroupElement[E, FE], FE algebra.PrimeFieldElement[FE]] struct {
	name  string
	group algebra.PrimeGroup[E, FE]
	f     algebra.PrimeField[FE]
	q     *big.Int
}

func newG[E algebra.PrimeGroupElement[E, FE], FE algebra.PrimeFieldElement[FE]](name string, g algebra.PrimeGroup[E, FE]) *gctx[E, FE] {
	f := algebra.StructureMustBeAs[algebra.PrimeField[FE]](g.ScalarStructure())
	return &gctx[E, FE]{name: name, group: g, f: f, q: f.Order().Big()}
}

func (c *gctx[E, FE]) fe(x *big.Int) FE {
	y := new(big.Int).Mod(x, c.q)
	b := make([]byte, 64)
	y.FillBytes(b)
	e, err := c.f.FromBytesBEReduce(b)
	if err != nil {
		panic(err)
	}
	return e
}

func big_(e interface{ BytesBE() []byte }) *big.Int { return new(big.Int).SetBytes(e.BytesBE()) }

func hexBigs(xs []*big.Int) string {
	if len(xs) == 0 {
		return "-"
	}
	p := make([]string, len(xs))
	for i, x := range xs {
		p[i] = vh.ZHex(x)
	}
	return strings.Join(p, ",")
}

func parseBigs(s string) []*big.Int {
	if s == "-" || s == "" {
		return nil
	}
	var out []*big.Int
	for _, f := range strings.Split(s, ",") {
		out = append(out, vh.UnZHex(f))
	}
	return out
}

// one verification case (replayable): kind V (Feldman), P (Pedersen), O (combined), R (recon in exponent)
type vcase struct {
	kind  byte
	group string
	pol   policy
	line  string // the part of the model line after "<kind> x q policy "
	note  string // what was mutated
	// expectation of the property on the implementation alone: "" none, "accept", "reject"
	expect string
}

func (v vcase) text() string {
	return fmt.Sprintf("%c %s %s %s #%s/%s", v.kind, v.group, v.pol.text(), v.line, v.note, v.expect)
}

func parseVcase(s string) vcase {
	s = strings.TrimSpace(s)
	note, expect := "", ""
	if i := strings.Index(s, " #"); i >= 0 {
		ne := strings.SplitN(s[i+2:], "/", 2)
		note = ne[0]
		if len(ne) > 1 {
			expect = ne[1]
		}
		s = s[:i]
	}
	f := strings.SplitN(s, " ", 4)
	return vcase{kind: f[0][0], group: f[1], pol: parsePolicy(f[2]), line: f[3], note: note, expect: expect}
}

type runner struct {
	pmCache map[string][]byte
	a      vh.Args
	res    *vh.Result
	perKey map[string]int
	k      *gctx[*k256.Point, *k256.Scalar]
	b      *gctx[*bls12381.PointG1, *bls12381.Scalar]
	cases  []vcase
	impl   []string
	lines  []string
}

func (r *runner) report(m vh.Mismatch) {
	if r.perKey == nil {
		r.perKey = map[string]int{}
	}
	k := m.Kind + "/" + m.Key
	r.perKey[k]++
	if r.perKey[k] <= 5 {
		r.res.Mismatch(m)
	}
}

// ---- building implementation values from exponents ------------------------------------------------

func (c *gctx[E, FE]) vvFromExps(exps []*big.Int, m *msp.MSP[FE]) (*feldman.VerificationVector[E, FE], error) {
	if len(exps) == 0 {
		return nil, fmt.Errorf("empty")
	}
	mod, err := mat.NewModuleValuedColumnVectorModule(uint(len(exps)), algebra.StructureMustBeAs[algebra.FiniteModule[E, FE]](c.group))
	if err != nil {
		return nil, err
	}
	els := make([]E, len(exps))
	for i, x := range exps {
		els[i] = c.group.ScalarBaseOp(c.fe(x))
	}
	mx, err := mod.NewRowMajor(els...)
	if err != nil {
		return nil, err
	}
	return feldman.NewVerificationVector(mx, m)
}

func (c *gctx[E, FE]) vvFromPairs(a, b []*big.Int, h E) (*feldman.VerificationVector[E, FE], error) {
	if len(a) == 0 || len(a) != len(b) {
		return nil, fmt.Errorf("bad lengths")
	}
	mod, err := mat.NewModuleValuedColumnVectorModule(uint(len(a)), algebra.StructureMustBeAs[algebra.FiniteModule[E, FE]](c.group))
	if err != nil {
		return nil, err
	}
	els := make([]E, len(a))
	for i := range a {
		els[i] = c.group.ScalarBaseOp(c.fe(a[i])).Op(h.ScalarOp(c.fe(b[i])))
	}
	mx, err := mod.NewRowMajor(els...)
	if err != nil {
		return nil, err
	}
	return feldman.NewVerificationVector(mx, nil)
}

func (c *gctx[E, FE]) share(id uint64, vals []*big.Int) (*kw.Share[FE], error) {
	fs := make([]FE, len(vals))
	for i, v := range vals {
		fs[i] = c.fe(v)
	}
	return kw.NewShare(sharing.ID(id), fs...)
}

func b01(b bool) string {
	if b {
		return "1"
	}
	return "0"
}

// ---- evaluating one case on the implementation ---------------------------------------------------------

func evalCase[E algebra.PrimeGroupElement[E, FE], FE algebra.PrimeFieldElement[FE]](c *gctx[E, FE], r *runner, vc vcase) (implTok string, modelLine string) {
	qh := vh.ZHex(c.q)
	modelLine = fmt.Sprintf("%c x %s %s %s", vc.kind, qh, vc.pol.text(), vc.line)
	prop := func(key, detail string) {
		r.report(vh.Mismatch{ID: vc.text(), Kind: "prop", Key: key, Detail: detail, Case: vc.text(), PropFail: true,
			What: "C05 property predicate on the implementation"})
	}
	ac, err := vc.pol.build()
	if err != nil {
		return "refuse", modelLine
	}
	scheme, err := feldman.NewScheme(c.group, ac)
	if err != nil {
		return "refuse", modelLine
	}
	m := scheme.MSP()
	f := strings.Split(vc.line, " ")
	switch vc.kind {
	case 'V':
		exps := parseBigs(f[0])
		var id uint64
		fmt.Sscanf(f[1], "%d", &id)
		vals := parseBigs(f[2])
		_, nerr := c.vvFromExps(exps, m)
		vv, _ := c.vvFromExps(exps, nil)
		sh, serr := c.share(id, vals)
		v, b := false, false
		if vv != nil && serr == nil {
			if pn := vh.Safely(func() { v = scheme.Verify(sh, vv) == nil }); pn != "" {
				prop("verify-panic", pn)
			}
			if pn := vh.Safely(func() { _, e := mpc.NewBaseShard(sh, vv, m); b = e == nil }); pn != "" {
				prop("newbaseshard-panic", pn)
			}
		}
		tok := "n" + b01(nerr == nil) + "v" + b01(v) + "b" + b01(b)
		// the shard decoder is one of the places where this verification is applied: a CBOR shard
		// carrying this share with this (MSP, V) must be accepted exactly when NewBaseShard accepts
		if vv != nil && serr == nil && nerr == nil && (r.a.Tier == "thorough" || !strings.HasPrefix(vc.note, "vv-")) {
			if data := shardCBOR(c, r, vc, m, vv, sh); data != nil {
				if vc.note == "honest" {
					// self-check of the assembly: byte-identical to the library's own encoding of the honest shard
					if hs, e := mpc.NewBaseShard(sh, vv, m); e == nil {
						if hb, e2 := hs.MarshalCBOR(); e2 == nil && string(hb) != string(data) {
							r.report(vh.Mismatch{ID: vc.text(), Kind: "corr", Key: "harness-shard-cbor-assembly", Detail: "assembled shard CBOR differs from BaseShard.MarshalCBOR of the honest shard", Case: vc.text(), What: "C05 harness self-check"})
						}
					}
				}
				var dec mpc.BaseShard[E, FE]
				var derr error
				if pn := vh.Safely(func() { derr = dec.UnmarshalCBOR(data) }); pn != "" {
					prop("baseshard-cbor-panic", pn)
				} else if derr == nil && !b {
					prop("baseshard-cbor-accepts-mismatched-share", vc.note+": BaseShard.UnmarshalCBOR accepted a shard whose share NewBaseShard/Verify reject ("+tok+")")
				} else if derr != nil && b {
					prop("baseshard-cbor-rejects-valid-shard", vc.note+": "+derr.Error())
				} else if derr == nil && !dec.Share().Equal(sh) {
					prop("baseshard-cbor-share-changed", vc.note)
				}
			}
		}
		switch vc.expect {
		case "accept":
			if !v || !b {
				prop("honest-share-rejected", vc.note+": "+tok)
			}
		case "reject":
			if v || b {
				prop("tampered-accepted-"+vc.note, "Verify/NewBaseShard accepted: "+tok)
			}
		}
		return tok, modelLine
	case 'P':
		a, bb := parseBigs(f[0]), parseBigs(f[1])
		var id uint64
		fmt.Sscanf(f[2], "%d", &id)
		sv, tv := parseBigs(f[3]), parseBigs(f[4])
		h := pedersenH(c)
		key, kerr := pedcom.NewCommitmentKeyUnchecked(c.group.Generator(), h)
		if kerr != nil {
			return "refuse", modelLine
		}
		ps, perr := pedersen.NewScheme(key, ac)
		if perr != nil {
			return "refuse", modelLine
		}
		vv, _ := c.vvFromPairs(a, bb, h)
		s1, e1 := c.share(id, sv)
		s2, e2 := c.share(id, tv)
		v := false
		if vv != nil && e1 == nil && e2 == nil {
			psh, e := pedersen.NewShare(sharing.ID(id), s1, s2)
			if e == nil {
				if pn := vh.Safely(func() { v = ps.Verify(psh, vv) == nil }); pn != "" {
					prop("pedersen-verify-panic", pn)
				}
			}
		}
		tok := "v" + b01(v)
		if vc.expect == "accept" && !v {
			prop("pedersen-honest-rejected", vc.note)
		}
		if vc.expect == "reject" && v {
			prop("pedersen-tampered-accepted-"+vc.note, tok)
		}
		return tok, modelLine
	case 'O':
		var vvs []*feldman.VerificationVector[E, FE]
		ok := true
		for _, vs := range strings.Split(f[0], "|") {
			vv, e := c.vvFromExps(parseBigs(vs), nil)
			if e != nil {
				ok = false
				break
			}
			vvs = append(vvs, vv)
		}
		var id uint64
		fmt.Sscanf(f[1], "%d", &id)
		vals := parseBigs(f[2])
		if !ok || len(vvs) == 0 {
			return "o0v0", modelLine
		}
		acc := vvs[0]
		for _, vv := range vvs[1:] {
			var e error
			acc, e = acc.Op(vv)
			if e != nil {
				return "o0v0", modelLine
			}
		}
		sh, serr := c.share(id, vals)
		v := false
		if serr == nil {
			if pn := vh.Safely(func() { v = scheme.Verify(sh, acc) == nil }); pn != "" {
				prop("verify-panic", pn)
			}
		}
		tok := "o1v" + b01(v)
		if vc.expect == "accept" && !v {
			prop("combined-sum-rejected", vc.note)
		}
		if vc.expect == "reject" && v {
			prop("combined-tampered-accepted", vc.note)
		}
		return tok, modelLine
	case 'R':
		exps := parseBigs(f[0])
		ids := parseIDs(f[1])
		vv, e := c.vvFromExps(exps, nil)
		if e != nil {
			return "E", modelLine
		}
		ldf, e := feldman.NewLiftedDealerFunc(vv, m)
		if e != nil {
			return "E", modelLine
		}
		var ls []*feldman.LiftedShare[E, FE]
		for _, id := range ids {
			l, e := ldf.ShareOf(sharing.ID(id))
			if e != nil {
				return "E", modelLine
			}
			ls = append(ls, l)
		}
		var sec *feldman.LiftedSecret[E, FE]
		var rerr error
		if pn := vh.Safely(func() { sec, rerr = scheme.ReconstructInTheExponent(ls...) }); pn != "" {
			prop("recon-exp-panic", pn)
			return "P", modelLine
		}
		if rerr != nil {
			return "E", modelLine
		}
		// the observable is a group element: it must be the lift of V_0 (tie through the exponent);
		// rendered as the exponent when it is, as "?" otherwise
		if len(exps) > 0 && sec.Value().Equal(c.group.ScalarBaseOp(c.fe(exps[0]))) {
			return vh.ZHex(new(big.Int).Mod(exps[0], c.q)), modelLine
		}
		prop("recon-in-exponent-wrong", "ReconstructInTheExponent of an accepted set is not V_0")
		return "?", modelLine
	}
	return "?", modelLine
}

// shardCBOR assembles the CBOR of a BaseShard ({share, publicMaterial}) from the encoding of the public
// material (honest MSP + the given verification vector, encoded by the library) and the encoding of the
// given share: what an honest shard's bytes look like with the share component substituted.
func shardCBOR[E algebra.PrimeGroupElement[E, FE], FE algebra.PrimeFieldElement[FE]](c *gctx[E, FE], r *runner, vc vcase, m *msp.MSP[FE], vv *feldman.VerificationVector[E, FE], sh *kw.Share[FE]) []byte {
	if r.pmCache == nil {
		r.pmCache = map[string][]byte{}
	}
	key := c.name + "|" + vc.pol.text() + "|" + strings.SplitN(vc.line, " ", 2)[0]
	pmBytes, ok := r.pmCache[key]
	if !ok {
		pm, err := mpc.NewBasePublicMaterial(m, vv)
		if err != nil {
			r.pmCache[key] = nil
			return nil
		}
		pmBytes, err = pm.MarshalCBOR()
		if err != nil {
			pmBytes = nil
		}
		if len(r.pmCache) > 64 {
			r.pmCache = map[string][]byte{}
		}
		r.pmCache[key] = pmBytes
	}
	if pmBytes == nil {
		return nil
	}
	shBytes, err := serde.MarshalCBOR(sh)
	if err != nil {
		return nil
	}
	out, err := serde.MarshalCBOR(map[string]cbor.RawMessage{"share": shBytes, "publicMaterial": pmBytes})
	if err != nil {
		return nil
	}
	return out
}

// H = x·G for a fixed scalar x nobody uses elsewhere (the model treats G, H as independent)
func pedersenH[E algebra.PrimeGroupElement[E, FE], FE algebra.PrimeFieldElement[FE]](c *gctx[E, FE]) E {
	x, _ := new(big.Int).SetString("6a09e667f3bcc908b2fb1366ea957d3e3adec17512775099da2f590b0667322a", 16)
	return c.group.ScalarBaseOp(c.fe(x))
}

func (r *runner) add(vc vcase) {
	var tok, line string
	if vc.group == "bls12381g1" {
		tok, line = evalCase(r.b, r, vc)
	} else {
		tok, line = evalCase(r.k, r, vc)
	}
	r.cases = append(r.cases, vc)
	r.impl = append(r.impl, tok)
	r.lines = append(r.lines, line)
	cls := map[byte]string{'V': "feldman", 'P': "pedersen", 'O': "combined", 'R': "recon-exp"}[vc.kind]
	r.res.Count(cls+"/"+vc.group+"/"+string(vc.pol.fam)+"/"+strings.SplitN(vc.note, ":", 2)[0], vc.text(), tok != "refuse")
}

func (r *runner) finish() error {
	if len(r.lines) == 0 {
		return nil
	}
	outs, err := vh.Driver(r.a.Driver, r.lines)
	if err != nil {
		return err
	}
	for i, vc := range r.cases {
		f := strings.SplitN(outs[i], " ", 3)
		model := ""
		if len(f) == 3 {
			model = f[2]
		}
		if model != r.impl[i] {
			r.report(vh.Mismatch{ID: vc.text(), Kind: "corr", Key: "verify-" + map[byte]string{'V': "feldman", 'P': "pedersen", 'O': "combined", 'R': "recon-exp"}[vc.kind] + "-" + strings.SplitN(vc.note, ":", 2)[0],
				Detail: fmt.Sprintf("impl %s | model %s", r.impl[i], model), Case: vc.text(),
				What: "correspondence model <-> implementation (C05 theorems are about the model)"})
		}
	}
	return nil
}

// ---- case generation: one dealing, all its mutations ------------------------------------------------------

func bigsOfFE[FE algebra.PrimeFieldElement[FE]](xs []FE) []*big.Int {
	out := make([]*big.Int, len(xs))
	for i, x := range xs {
		out[i] = big_(x)
	}
	return out
}

func cloneBigs(x []*big.Int) []*big.Int { return append([]*big.Int(nil), x...) }

func genDealing[E algebra.PrimeGroupElement[E, FE], FE algebra.PrimeFieldElement[FE]](c *gctx[E, FE], r *runner, p policy, idx int) {
	a := r.a
	prop := func(key, detail string) {
		r.report(vh.Mismatch{ID: p.text(), Kind: "prop", Key: key, Detail: detail, Case: fmt.Sprintf("D %s %s %d", c.name, p.text(), idx), PropFail: true,
			What: "C05 property predicate on the implementation"})
	}
	ac, err := p.build()
	if err != nil {
		return
	}
	scheme, err := feldman.NewScheme(c.group, ac)
	if err != nil {
		return
	}
	m := scheme.MSP()
	rg := vh.NewRng(a.Seed, "C05", "deal", idx)
	mk := func(kind byte, line, note, expect string) {
		r.add(vcase{kind: kind, group: c.name, pol: p, line: line, note: note, expect: expect})
	}
	deal := func(stream string) (map[uint64][]*big.Int, []*big.Int, *feldman.VerificationVector[E, FE], bool) {
		secret := rg.BigBelow(c.q)
		do, df, err := scheme.DealAndRevealDealerFunc(kw.NewSecret(c.fe(secret)), vh.NewRng(a.Seed, "C05", stream, idx))
		if err != nil {
			return nil, nil, nil, false
		}
		shares := map[uint64][]*big.Int{}
		for id, sh := range do.Shares().Iter() {
			shares[uint64(id)] = bigsOfFE(sh.Value())
		}
		rc := df.RandomColumn()
		n, _ := rc.Dimensions()
		exps := make([]*big.Int, n)
		for i := 0; i < n; i++ {
			e, _ := rc.Get(i, 0)
			exps[i] = big_(e)
		}
		// tie through the exponent: the published vector is the lift of the dealer's column
		vv := do.VerificationMaterial()
		rows, cols := vv.Value().Dimensions()
		if rows != n || cols != 1 {
			prop("vv-shape", "verification vector is not D x 1")
		} else {
			for i := 0; i < n; i++ {
				e, _ := vv.Value().Get(i, 0)
				if !e.Equal(c.group.ScalarBaseOp(c.fe(exps[i]))) {
					prop("vv-not-lift-of-dealer-column", fmt.Sprintf("entry %d", i))
				}
			}
		}
		return shares, exps, vv, true
	}
	shares, exps, _, ok := deal("r0")
	if !ok {
		return // one-column MSP: dealing refused by design
	}
	D := len(exps)
	holders := make([]uint64, 0, len(shares))
	for id := range shares {
		holders = append(holders, id)
	}
	sort.Slice(holders, func(i, j int) bool { return holders[i] < holders[j] })
	// which columns does a holder's share depend on (from the implementation's own matrix)
	rowsM, colsM := m.Matrix().Dimensions()
	dep := map[uint64][]bool{}
	for i := 0; i < rowsM; i++ {
		id, _ := m.RowsToHolders().Get(i)
		if dep[uint64(id)] == nil {
			dep[uint64(id)] = make([]bool, colsM)
		}
		for j := 0; j < colsM; j++ {
			e, _ := m.Matrix().Get(i, j)
			if !e.IsZero() {
				dep[uint64(id)][j] = true
			}
		}
	}
	one := big.NewInt(1)
	delta := func() *big.Int {
		if rg.Chance(1, 3) {
			return big.NewInt(1)
		}
		d := rg.BigBelow(c.q)
		if d.Sign() == 0 {
			d = big.NewInt(1)
		}
		return d
	}
	add := func(x, d *big.Int) *big.Int { return new(big.Int).Mod(new(big.Int).Add(x, d), c.q) }
	for _, id := range holders {
		vals := shares[id]
		line := func(e []*big.Int, i uint64, v []*big.Int) string {
			return fmt.Sprintf("%s %d %s", hexBigs(e), i, hexBigs(v))
		}
		mk('V', line(exps, id, vals), "honest", "accept")
		// every coordinate of the share
		for cI := range vals {
			v2 := cloneBigs(vals)
			v2[cI] = add(v2[cI], delta())
			mk('V', line(exps, id, v2), "share-coord", "reject")
		}
		if len(vals) >= 2 {
			v2 := cloneBigs(vals)
			v2[0], v2[1] = v2[1], v2[0]
			exp := "reject"
			if v2[0].Cmp(v2[1]) == 0 {
				exp = "accept"
			}
			mk('V', line(exps, id, v2), "share-swap", exp)
			mk('V', line(exps, id, vals[:len(vals)-1]), "share-drop", "reject")
		}
		mk('V', line(exps, id, append(cloneBigs(vals), big.NewInt(0))), "share-append-zero", "reject")
		mk('V', line(exps, id, append(cloneBigs(vals), rg.BigBelow(c.q))), "share-append", "reject")
		// wrong claimed holder
		for _, other := range holders {
			if other == id {
				continue
			}
			exp := "reject"
			if hexBigs(shares[other]) == hexBigs(vals) {
				exp = "accept"
			}
			mk('V', line(exps, other, vals), "wrong-holder", exp)
		}
		mk('V', line(exps, 9999, vals), "unknown-holder", "reject")
		// every coordinate of V
		for k := 0; k < D; k++ {
			e2 := cloneBigs(exps)
			e2[k] = add(e2[k], delta())
			exp := "accept"
			if dep[id][k] {
				exp = "reject"
			}
			mk('V', line(e2, id, vals), "vv-entry", exp)
		}
		if D >= 2 {
			k := rg.Intn(D - 1)
			e2 := cloneBigs(exps)
			e2[k], e2[k+1] = e2[k+1], e2[k]
			mk('V', line(e2, id, vals), "vv-swap", "")
			mk('V', line(exps[:D-1], id, vals), "vv-drop", "reject")
		}
		mk('V', line(append(cloneBigs(exps), big.NewInt(0)), id, vals), "vv-append-identity", "reject")
		mk('V', line(append(cloneBigs(exps), rg.BigBelow(c.q)), id, vals), "vv-append-random", "reject")
	}
	// combined dealings of 1..5 dealers
	nd := 1 + idx%5
	allS := []map[uint64][]*big.Int{shares}
	allE := [][]*big.Int{exps}
	for d := 1; d < nd; d++ {
		s, e, _, ok := deal(fmt.Sprintf("r%d", d))
		if !ok {
			return
		}
		allS = append(allS, s)
		allE = append(allE, e)
	}
	vparts := make([]string, nd)
	for d := range allE {
		vparts[d] = hexBigs(allE[d])
	}
	for _, id := range holders {
		sum := make([]*big.Int, len(shares[id]))
		for i := range sum {
			sum[i] = new(big.Int)
			for d := range allS {
				sum[i] = add(sum[i], allS[d][id][i])
			}
		}
		mk('O', fmt.Sprintf("%s %d %s", strings.Join(vparts, "|"), id, hexBigs(sum)), fmt.Sprintf("dealers:%d", nd), "accept")
		s2 := cloneBigs(sum)
		s2[len(s2)-1] = add(s2[len(s2)-1], one)
		mk('O', fmt.Sprintf("%s %d %s", strings.Join(vparts, "|"), id, hexBigs(s2)), fmt.Sprintf("dealers-tampered:%d", nd), "reject")
		if nd >= 2 {
			// the sum of n shares against the product of only n-1 vectors
			mk('O', fmt.Sprintf("%s %d %s", strings.Join(vparts[:nd-1], "|"), id, hexBigs(sum)), fmt.Sprintf("dealers-missing:%d", nd), "")
		}
	}
	if nd >= 2 {
		mk('O', fmt.Sprintf("%s|%s %d %s", vparts[0], hexBigs(append(cloneBigs(allE[1]), big.NewInt(0))), holders[0], hexBigs(shares[holders[0]])), "dealers-length-mismatch", "reject")
	}
	// reconstruction in the exponent over subsets
	subs := allSubsets(holders)
	if len(holders) > 4 {
		subs = [][]uint64{holders, holders[:len(holders)-1], holders[:1]}
		for k := 0; k < 8; k++ {
			subs = append(subs, randomSubset(rg, holders))
		}
	}
	for _, s := range subs {
		if len(s) == 0 {
			continue
		}
		mk('R', fmt.Sprintf("%s %s", hexBigs(exps), idsText(s)), "recon", "")
	}
	// ReconstructAndVerify on the implementation alone: all holders, then with one tampered share
	{
		do, _, err := scheme.DealAndRevealDealerFunc(kw.NewSecret(c.fe(big.NewInt(int64(idx)+7))), vh.NewRng(a.Seed, "C05", "rv", idx))
		if err == nil {
			var list []*kw.Share[FE]
			for _, id := range holders {
				sh, _ := do.Shares().Get(sharing.ID(id))
				list = append(list, sh)
			}
			sec, e := scheme.ReconstructAndVerify(do.VerificationMaterial(), list...)
			if e != nil || big_(sec.Value()).Int64() != int64(idx)+7 {
				prop("reconstruct-and-verify-honest", "honest shares of all holders rejected or wrong secret")
			}
			bad, _ := c.share(holders[0], append([]*big.Int{add(big_(list[0].Value()[0]), one)}, bigsOfFE(list[0].Value()[1:])...))
			list[0] = bad
			if _, e := scheme.ReconstructAndVerify(do.VerificationMaterial(), list...); e == nil {
				prop("reconstruct-and-verify-tampered", "a tampered share passed ReconstructAndVerify")
			}
		}
	}
	// Pedersen on the same policy
	h := pedersenH(c)
	key, kerr := pedcom.NewCommitmentKeyUnchecked(c.group.Generator(), h)
	if kerr != nil {
		return
	}
	ps, perr := pedersen.NewScheme(key, ac)
	if perr != nil {
		return
	}
	pdo, pdf, err := ps.DealAndRevealDealerFunc(kw.NewSecret(c.fe(rg.BigBelow(c.q))), vh.NewRng(a.Seed, "C05", "ped", idx))
	if err != nil {
		return
	}
	col := func(df *kw.DealerFunc[FE]) []*big.Int {
		rc := df.RandomColumn()
		n, _ := rc.Dimensions()
		out := make([]*big.Int, n)
		for i := 0; i < n; i++ {
			e, _ := rc.Get(i, 0)
			out[i] = big_(e)
		}
		return out
	}
	A, B := col(pdf.G()), col(pdf.H())
	pv := pdo.VerificationMaterial()
	for i := range A {
		e, _ := pv.Value().Get(i, 0)
		if !e.Equal(c.group.ScalarBaseOp(c.fe(A[i])).Op(h.ScalarOp(c.fe(B[i])))) {
			prop("pedersen-vv-not-commitment-to-dealer-columns", fmt.Sprintf("entry %d", i))
		}
	}
	for _, id := range holders {
		psh, ok := pdo.Shares().Get(sharing.ID(id))
		if !ok {
			continue
		}
		sv := bigsOfFE(psh.Value())
		tv := make([]*big.Int, len(psh.Blinding()))
		for i, w := range psh.Blinding() {
			tv[i] = big_(w.Value())
		}
		pl := func(a, b []*big.Int, i uint64, s, t []*big.Int) string {
			return fmt.Sprintf("%s %s %d %s %s", hexBigs(a), hexBigs(b), i, hexBigs(s), hexBigs(t))
		}
		mk('P', pl(A, B, id, sv, tv), "honest", "accept")
		for cI := range sv {
			s2 := cloneBigs(sv)
			s2[cI] = add(s2[cI], delta())
			mk('P', pl(A, B, id, s2, tv), "secret-coord", "reject")
			t2 := cloneBigs(tv)
			t2[cI] = add(t2[cI], delta())
			mk('P', pl(A, B, id, sv, t2), "blinding-coord", "reject")
		}
		mk('P', pl(A, B, id, tv, sv), "secret-blinding-swapped", "")
		for k := range A {
			a2 := cloneBigs(A)
			a2[k] = add(a2[k], delta())
			exp := "accept"
			if dep[id][k] {
				exp = "reject"
			}
			mk('P', pl(a2, B, id, sv, tv), "vv-entry-g", exp)
			b2 := cloneBigs(B)
			b2[k] = add(b2[k], delta())
			mk('P', pl(A, b2, id, sv, tv), "vv-entry-h", exp)
		}
		mk('P', pl(append(cloneBigs(A), big.NewInt(0)), append(cloneBigs(B), big.NewInt(0)), id, sv, tv), "vv-append-identity", "reject")
		if len(A) >= 2 {
			mk('P', pl(A[:len(A)-1], B[:len(B)-1], id, sv, tv), "vv-drop", "reject")
		}
		for _, other := range holders {
			if other != id && hexBigs(shares[other]) != hexBigs(shares[id]) {
				mk('P', pl(A, B, other, sv, tv), "wrong-holder", "")
				break
			}
		}
	}
}

func main() {
	a := vh.ParseArgs()
	res := vh.NewResult("C05", a.Seed, a.Tier)
	r := &runner{a: a, res: res,
		k: newG[*k256.Point, *k256.Scalar]("k256", k256.NewCurve()),
		b: newG[*bls12381.PointG1, *bls12381.Scalar]("bls12381g1", bls12381.NewG1())}
	if a.Replay != "" {
		b, err := os.ReadFile(a.Replay)
		if err != nil {
			fmt.Fprintln(os.Stderr, err)
			os.Exit(2)
		}
		for _, l := range strings.Split(string(b), "\n") {
			if strings.HasPrefix(l, "case: ") {
				l = strings.TrimPrefix(l, "case: ")
				if strings.HasPrefix(l, "D ") {
					f := strings.Split(l, " ")
					var idx int
					fmt.Sscanf(f[3], "%d", &idx)
					if f[1] == "bls12381g1" {
						genDealing(r.b, r, parsePolicy(f[2]), idx)
					} else {
						genDealing(r.k, r, parsePolicy(f[2]), idx)
					}
				} else {
					r.add(parseVcase(l))
				}
			}
		}
		if err := r.finish(); err != nil {
			fmt.Fprintln(os.Stderr, err)
			os.Exit(2)
		}
		res.Rule = "replay of one stored case"
		res.Write(a.Out)
		return
	}
	var pols []policy
	nrand := 2
	if a.Tier == "thorough" {
		for n := 2; n <= 5; n++ {
			pols = append(pols, enumThreshold(n)...)
			pols = append(pols, policy{fam: 'U', ids: rangeIDs(1, n)})
		}
		for n := 2; n <= 3; n++ {
			pols = append(pols, enumCNF(n)...)
			pols = append(pols, enumGate(n)...)
		}
		rs := vh.NewRng(a.Seed, "C05", "sample4", 0)
		c4, g4 := enumCNF(4), enumGate(4)
		for i := 0; i < 40; i++ {
			pols = append(pols, vh.Pick(rs, c4), vh.Pick(rs, g4))
		}
		for n := 2; n <= 4; n++ {
			pols = append(pols, enumHier(n)...)
		}
		nrand = 60
	} else {
		// quick: two policies of every family (one small fixed, one drawn from the enumeration by the seed)
		pick := func(stream string, l []policy) policy { return l[vh.NewRng(a.Seed, "C05", stream, 0).Intn(len(l))] }
		var cnf, gate, hier, thr []policy
		for n := 2; n <= 4; n++ {
			thr = append(thr, enumThreshold(n)...)
			hier = append(hier, enumHier(n)...)
		}
		for n := 2; n <= 3; n++ {
			cnf = append(cnf, enumCNF(n)...)
			gate = append(gate, enumGate(n)...)
		}
		pols = append(pols,
			policy{fam: 'T', t: 2, ids: rangeIDs(1, 3)}, pick("thr", thr),
			policy{fam: 'U', ids: rangeIDs(1, 2)}, policy{fam: 'U', ids: rangeIDs(1, 3)},
			policy{fam: 'N', sets: [][]uint64{{1, 2}, {1, 3}, {2, 3}}}, pick("cnf", cnf),
			policy{fam: 'H', levels: []level{{1, []uint64{1}}, {2, []uint64{2, 3}}}}, pick("hier", hier),
			policy{fam: 'G', root: &tree{t: 2, cs: []*tree{{leaf: true, id: 1}, {t: 1, cs: []*tree{{leaf: true, id: 2}, {leaf: true, id: 3}}}}}}, pick("gate", gate))
	}
	if a.Search {
		nrand = 60
	}
	for i := 0; i < nrand; i++ {
		pols = append(pols, randPolicy(vh.NewRng(a.Seed, "C05", "randpol", i), 6))
	}
	idx := 0
	for pi, p := range pols {
		n := len(p.holders())
		as := assignmentsFor(p.fam, n)
		asg := as[pi%len(as)]
		if p.fam == 'H' && !strings.Contains(asg.name, "sorted") && asg.name != "ordinal" {
			asg = as[len(as)-1-pi%2] // hierarchical needs increasing IDs
		}
		pp := p
		if pi < len(pols)-nrand {
			pp = asg.apply(p)
		}
		both := a.Tier == "thorough" && n <= 3
		if both || pi%2 == 0 {
			genDealing(r.k, r, pp, idx)
		}
		if both || pi%2 == 1 {
			genDealing(r.b, r, pp, idx)
		}
		idx++
	}
	if err := r.finish(); err != nil {
		fmt.Fprintln(os.Stderr, err)
		os.Exit(2)
	}
	res.Rule = "Feldman and Pedersen dealings over every threshold/unanimity/CNF/hierarchical/gate-tree policy on small holder sets (ID assignments ordinal, sparse, >= 2^40 rotated) plus random policies up to 8 holders (non-ideal MSPs), groups k256 and BLS12-381 G1; per dealing every holder x {honest, every share coordinate +delta, swap, drop, append 0/random, every other claimed holder, unknown holder, every entry of V +delta, V swap/drop/append identity/append random}; combined dealings of 1..5 dealers (sum, tampered sum, missing dealer, length mismatch); ReconstructInTheExponent over all subsets; ReconstructAndVerify honest/tampered; BaseShard.UnmarshalCBOR of the shard CBOR carrying each honest-vector case must agree with NewBaseShard. The model sees the exponents of all vector entries (dealer scalars read from the revealed dealer function; published vector checked to be their lift). A case is non-trivial when the scheme can be built and deals."
	res.Write(a.Out)
}
