package main

import (
	"fmt"
	"sort"
	"strconv"
	"strings"

	"github.com/bronlabs/bron-crypto/pkg/base/datastructures/hashset"
	"github.com/bronlabs/bron-crypto/pkg/mpc/sharing"
	"github.com/bronlabs/bron-crypto/pkg/mpc/sharing/accessstructures"
	"github.com/bronlabs/bron-crypto/pkg/mpc/sharing/accessstructures/boolexpr"
	"github.com/bronlabs/bron-crypto/pkg/mpc/sharing/accessstructures/cnf"
	"github.com/bronlabs/bron-crypto/pkg/mpc/sharing/accessstructures/hierarchical"
	"github.com/bronlabs/bron-crypto/pkg/mpc/sharing/accessstructures/threshold"
	"github.com/bronlabs/bron-crypto/pkg/mpc/sharing/accessstructures/unanimity"

	ds "github.com/bronlabs/bron-crypto/pkg/base/datastructures"
)

// ---- policies as data (constructor input) ------------------------------------------------

type tree struct {
	leaf bool
	id   uint64
	t    int
	cs   []*tree
}

type level struct {
	t   int
	ids []uint64
}

type policy struct {
	fam    byte // 'T' threshold, 'U' unanimity, 'N' cnf, 'H' hierarchical, 'G' gate tree
	t      int
	ids    []uint64
	sets   [][]uint64
	levels []level
	root   *tree
}

func idsText(ids []uint64) string {
	if len(ids) == 0 {
		return "-"
	}
	p := make([]string, len(ids))
	for i, x := range ids {
		p[i] = strconv.FormatUint(x, 10)
	}
	return strings.Join(p, ",")
}

func setText(ids []uint64) string {
	if len(ids) == 0 {
		return "e"
	}
	return idsText(ids)
}

func parseIDs(s string) []uint64 {
	if s == "-" || s == "e" || s == "" {
		return nil
	}
	var out []uint64
	for _, f := range strings.Split(s, ",") {
		x, err := strconv.ParseUint(f, 10, 64)
		if err != nil {
			panic("bad id " + f)
		}
		out = append(out, x)
	}
	return out
}

func (t *tree) text() string {
	if t.leaf {
		return strconv.FormatUint(t.id, 10)
	}
	p := make([]string, len(t.cs))
	for i, c := range t.cs {
		p[i] = c.text()
	}
	return fmt.Sprintf("g%d[%s]", t.t, strings.Join(p, ","))
}

func parseTree(s string) *tree {
	pos := 0
	var node func() *tree
	number := func() string {
		st := pos
		for pos < len(s) && s[pos] >= '0' && s[pos] <= '9' {
			pos++
		}
		return s[st:pos]
	}
	node = func() *tree {
		if pos < len(s) && s[pos] == 'g' {
			pos++
			t, _ := strconv.Atoi(number())
			pos++ // [
			n := &tree{t: t}
			if s[pos] == ']' {
				pos++
				return n
			}
			for {
				n.cs = append(n.cs, node())
				if s[pos] == ',' {
					pos++
					continue
				}
				pos++ // ]
				return n
			}
		}
		x, _ := strconv.ParseUint(number(), 10, 64)
		return &tree{leaf: true, id: x}
	}
	return node()
}

func (p policy) text() string {
	switch p.fam {
	case 'T':
		return fmt.Sprintf("T:%d:%s", p.t, idsText(p.ids))
	case 'U':
		return "U:" + idsText(p.ids)
	case 'N':
		if len(p.sets) == 0 {
			return "N:-"
		}
		parts := make([]string, len(p.sets))
		for i, s := range p.sets {
			parts[i] = setText(s)
		}
		return "N:" + strings.Join(parts, "|")
	case 'H':
		if len(p.levels) == 0 {
			return "H:-"
		}
		parts := make([]string, len(p.levels))
		for i, l := range p.levels {
			parts[i] = fmt.Sprintf("%d:%s", l.t, idsText(l.ids))
		}
		return "H:" + strings.Join(parts, "|")
	default:
		return "G:" + p.root.text()
	}
}

func parsePolicy(s string) policy {
	rest := s[2:]
	switch s[0] {
	case 'T':
		f := strings.SplitN(rest, ":", 2)
		t, _ := strconv.Atoi(f[0])
		return policy{fam: 'T', t: t, ids: parseIDs(f[1])}
	case 'U':
		return policy{fam: 'U', ids: parseIDs(rest)}
	case 'N':
		p := policy{fam: 'N'}
		if rest == "-" {
			return p
		}
		for _, x := range strings.Split(rest, "|") {
			p.sets = append(p.sets, parseIDs(x))
		}
		return p
	case 'H':
		p := policy{fam: 'H'}
		if rest == "-" {
			return p
		}
		for _, x := range strings.Split(rest, "|") {
			f := strings.SplitN(x, ":", 2)
			t, _ := strconv.Atoi(f[0])
			p.levels = append(p.levels, level{t, parseIDs(f[1])})
		}
		return p
	default:
		return policy{fam: 'G', root: parseTree(rest)}
	}
}

func (t *tree) leaves(out *[]uint64) {
	if t.leaf {
		*out = append(*out, t.id)
		return
	}
	for _, c := range t.cs {
		c.leaves(out)
	}
}

func uniqSorted(ids []uint64) []uint64 {
	m := map[uint64]bool{}
	var out []uint64
	for _, x := range ids {
		if !m[x] {
			m[x] = true
			out = append(out, x)
		}
	}
	sort.Slice(out, func(i, j int) bool { return out[i] < out[j] })
	return out
}

// holders: every ID the policy mentions (sorted, distinct)
func (p policy) holders() []uint64 {
	var all []uint64
	switch p.fam {
	case 'T', 'U':
		all = append(all, p.ids...)
	case 'N':
		for _, s := range p.sets {
			all = append(all, s...)
		}
	case 'H':
		for _, l := range p.levels {
			all = append(all, l.ids...)
		}
	default:
		p.root.leaves(&all)
	}
	return uniqSorted(all)
}

func (p policy) maxID() uint64 {
	var m uint64
	for _, x := range p.holders() {
		if x > m {
			m = x
		}
	}
	return m
}

func (t *tree) mapIDs(f func(uint64) uint64) *tree {
	if t.leaf {
		return &tree{leaf: true, id: f(t.id)}
	}
	n := &tree{t: t.t}
	for _, c := range t.cs {
		n.cs = append(n.cs, c.mapIDs(f))
	}
	return n
}

func mapSlice(ids []uint64, f func(uint64) uint64) []uint64 {
	out := make([]uint64, len(ids))
	for i, x := range ids {
		out[i] = f(x)
	}
	return out
}

func (p policy) mapIDs(f func(uint64) uint64) policy {
	q := policy{fam: p.fam, t: p.t}
	q.ids = mapSlice(p.ids, f)
	for _, s := range p.sets {
		q.sets = append(q.sets, mapSlice(s, f))
	}
	for _, l := range p.levels {
		q.levels = append(q.levels, level{l.t, mapSlice(l.ids, f)})
	}
	if p.root != nil {
		q.root = p.root.mapIDs(f)
	}
	return q
}

// ---- the real access structure ------------------------------------------------------------

func idSet(ids []uint64) ds.Set[sharing.ID] {
	x := make([]sharing.ID, len(ids))
	for i, v := range ids {
		x[i] = sharing.ID(v)
	}
	return hashset.NewComparable(x...).Freeze()
}

func toIDs(ids []uint64) []sharing.ID {
	x := make([]sharing.ID, len(ids))
	for i, v := range ids {
		x[i] = sharing.ID(v)
	}
	return x
}

func (t *tree) node() *boolexpr.Node {
	if t.leaf {
		return boolexpr.ID(sharing.ID(t.id))
	}
	cs := make([]*boolexpr.Node, len(t.cs))
	for i, c := range t.cs {
		cs[i] = c.node()
	}
	return boolexpr.Threshold(t.t, cs...)
}

// build calls the family's constructor on the policy data.
func (p policy) build() (accessstructures.Monotone, error) {
	switch p.fam {
	case 'T':
		if p.t < 0 {
			return nil, fmt.Errorf("negative threshold")
		}
		ac, err := threshold.NewThresholdAccessStructure(uint(p.t), idSet(p.ids))
		if err != nil {
			return nil, err
		}
		return ac, nil
	case 'U':
		ac, err := unanimity.NewUnanimityAccessStructure(idSet(p.ids))
		if err != nil {
			return nil, err
		}
		return ac, nil
	case 'N':
		sets := make([]ds.Set[sharing.ID], len(p.sets))
		for i, s := range p.sets {
			sets[i] = idSet(s)
		}
		ac, err := cnf.NewCNFAccessStructure(sets...)
		if err != nil {
			return nil, err
		}
		return ac, nil
	case 'H':
		ls := make([]*hierarchical.ThresholdLevel, len(p.levels))
		for i, l := range p.levels {
			ls[i] = hierarchical.WithLevel(l.t, toIDs(l.ids)...)
		}
		ac, err := hierarchical.NewHierarchicalConjunctiveThresholdAccessStructure(ls...)
		if err != nil {
			return nil, err
		}
		return ac, nil
	default:
		ac, err := boolexpr.NewThresholdGateAccessStructure(p.root.node())
		if err != nil {
			return nil, err
		}
		return ac, nil
	}
}

// ---- independent brute-force evaluation of the policy (the declared semantics) ----------------
// only meaningful for sets of distinct holders of the policy

func (t *tree) eval(s map[uint64]bool) bool {
	if t.leaf {
		return s[t.id]
	}
	c := 0
	for _, ch := range t.cs {
		if ch.eval(s) {
			c++
		}
	}
	return c >= t.t
}

func (p policy) qualified(set []uint64) bool {
	s := map[uint64]bool{}
	for _, x := range set {
		s[x] = true
	}
	switch p.fam {
	case 'T':
		return len(s) >= p.t
	case 'U':
		return len(s) == len(uniqSorted(p.ids))
	case 'N':
		for _, u := range p.sets {
			um := map[uint64]bool{}
			for _, x := range u {
				um[x] = true
			}
			sub := true
			for x := range s {
				if !um[x] {
					sub = false
					break
				}
			}
			if sub {
				return false
			}
		}
		return true
	case 'H':
		cum := map[uint64]bool{}
		for _, l := range p.levels {
			for _, x := range l.ids {
				cum[x] = true
			}
			c := 0
			for x := range s {
				if cum[x] {
					c++
				}
			}
			if c < l.t {
				return false
			}
		}
		return true
	default:
		return p.root.eval(s)
	}
}
