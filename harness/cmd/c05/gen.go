package main

import (
	"sort"

	"verif/harness/internal/vh"
)

// ---- exhaustive enumeration of policies over the abstract holders 1..n -------------------------

func rangeIDs(a, b int) []uint64 { // a..b inclusive
	var out []uint64
	for i := a; i <= b; i++ {
		out = append(out, uint64(i))
	}
	return out
}

func enumThreshold(n int) []policy {
	var out []policy
	for t := 2; t <= n; t++ {
		out = append(out, policy{fam: 'T', t: t, ids: rangeIDs(1, n)})
	}
	return out
}

// all antichains of non-empty subsets of {1..n} whose union is {1..n}
func enumCNF(n int) []policy {
	full := (1 << n) - 1
	var out []policy
	var masks []int
	var rec func(start int)
	rec = func(start int) {
		if len(masks) > 0 {
			u := 0
			for _, m := range masks {
				u |= m
			}
			if u == full {
				p := policy{fam: 'N'}
				for _, m := range masks {
					var s []uint64
					for i := 0; i < n; i++ {
						if m>>i&1 == 1 {
							s = append(s, uint64(i+1))
						}
					}
					p.sets = append(p.sets, s)
				}
				out = append(out, p)
			}
		}
		for m := start; m <= full; m++ {
			ok := true
			for _, x := range masks {
				if x&m == x || x&m == m {
					ok = false
					break
				}
			}
			if ok {
				masks = append(masks, m)
				rec(m + 1)
				masks = masks[:len(masks)-1]
			}
		}
	}
	rec(1)
	return out
}

// ordered partitions of 1..n into consecutive blocks, strictly increasing cumulative thresholds
func enumHier(n int) []policy {
	var out []policy
	var rec func(next int, cur int, levels []level)
	rec = func(next, cur int, levels []level) {
		if next > n {
			if len(levels) > 0 {
				out = append(out, policy{fam: 'H', levels: append([]level(nil), levels...)})
			}
			return
		}
		for end := next; end <= n; end++ {
			for t := cur + 1; t <= end; t++ {
				rec(end+1, t, append(levels, level{t, rangeIDs(next, end)}))
			}
		}
	}
	rec(1, 0, nil)
	return out
}

// all gate trees with leaves 1..n in left-to-right order, every gate with >= 2 children
func enumTrees(lo, hi int) []*tree {
	k := hi - lo + 1
	if k == 1 {
		return []*tree{{leaf: true, id: uint64(lo)}}
	}
	var out []*tree
	// compositions of the leaf range into m >= 2 consecutive parts
	var rec func(start int, parts [][2]int)
	rec = func(start int, parts [][2]int) {
		if start > hi {
			if len(parts) < 2 {
				return
			}
			// cartesian product of sub-trees
			var prod func(i int, cs []*tree)
			prod = func(i int, cs []*tree) {
				if i == len(parts) {
					for t := 1; t <= len(cs); t++ {
						out = append(out, &tree{t: t, cs: append([]*tree(nil), cs...)})
					}
					return
				}
				for _, sub := range enumTrees(parts[i][0], parts[i][1]) {
					prod(i+1, append(cs, sub))
				}
			}
			prod(0, nil)
			return
		}
		for end := start; end <= hi; end++ {
			rec(end+1, append(parts, [2]int{start, end}))
		}
	}
	rec(lo, nil)
	return out
}

func enumGate(n int) []policy {
	var out []policy
	for _, t := range enumTrees(1, n) {
		out = append(out, policy{fam: 'G', root: t})
	}
	return out
}

// constructor refusals and degenerate inputs, every family
func refusalPolicies() []policy {
	lf := func(id uint64) *tree { return &tree{leaf: true, id: id} }
	return []policy{
		{fam: 'T', t: 1, ids: rangeIDs(1, 3)},
		{fam: 'T', t: 0, ids: rangeIDs(1, 3)},
		{fam: 'T', t: 4, ids: rangeIDs(1, 3)},
		{fam: 'T', t: 2, ids: []uint64{0, 1, 2}},
		{fam: 'T', t: 2, ids: []uint64{1}},
		{fam: 'U', ids: []uint64{1}},
		{fam: 'U', ids: nil},
		{fam: 'U', ids: []uint64{0, 1, 2}},
		{fam: 'N'},
		{fam: 'N', sets: [][]uint64{{}}},
		{fam: 'N', sets: [][]uint64{{1, 2}, {}}},
		{fam: 'N', sets: [][]uint64{{0, 1}, {2}}},
		{fam: 'N', sets: [][]uint64{{1}}},
		{fam: 'N', sets: [][]uint64{{1, 2}}},                        // one clause, empty: MSP refused
		{fam: 'N', sets: [][]uint64{{1, 2}, {2, 1}, {1}, {2, 3}, {3}}}, // normalisation: duplicates, subsets
		{fam: 'N', sets: [][]uint64{{3}, {1, 2}, {1}, {2}}},
		{fam: 'H'},
		{fam: 'H', levels: []level{{0, rangeIDs(1, 2)}}},
		{fam: 'H', levels: []level{{2, rangeIDs(1, 2)}, {2, rangeIDs(3, 4)}}},
		{fam: 'H', levels: []level{{2, rangeIDs(1, 2)}, {1, rangeIDs(3, 4)}}},
		{fam: 'H', levels: []level{{1, rangeIDs(1, 2)}, {2, []uint64{2, 3}}}},
		{fam: 'H', levels: []level{{3, rangeIDs(1, 2)}}},
		{fam: 'H', levels: []level{{1, []uint64{0, 1}}}},
		{fam: 'H', levels: []level{{1, []uint64{1, 1, 2}}, {2, []uint64{3}}}},
		{fam: 'H', levels: []level{{1, []uint64{3, 4}}, {2, []uint64{1, 2}}}}, // IDs decreasing: MSP refused
		{fam: 'H', levels: []level{{1, []uint64{1, 4}}, {3, []uint64{2, 3}}}},
		{fam: 'G', root: lf(1)},
		{fam: 'G', root: lf(0)},
		{fam: 'G', root: &tree{t: 0, cs: []*tree{lf(1), lf(2)}}},
		{fam: 'G', root: &tree{t: 3, cs: []*tree{lf(1), lf(2)}}},
		{fam: 'G', root: &tree{t: 1, cs: nil}},
		{fam: 'G', root: &tree{t: 1, cs: []*tree{lf(1), lf(1)}}},
		{fam: 'G', root: &tree{t: 2, cs: []*tree{lf(1), {t: 1, cs: []*tree{lf(0), lf(2)}}}}},
		{fam: 'G', root: &tree{t: 1, cs: []*tree{lf(1), lf(2), lf(3)}}}, // pure OR: one column
		{fam: 'G', root: &tree{t: 1, cs: []*tree{{t: 1, cs: []*tree{lf(1)}}}}},
		{fam: 'G', root: &tree{t: 2, cs: []*tree{lf(1), {t: 1, cs: []*tree{lf(1), lf(2)}}}}}, // repeated leaf across gates
		{fam: 'G', root: &tree{t: 2, cs: []*tree{{t: 2, cs: []*tree{lf(1), lf(2)}}, {t: 2, cs: []*tree{lf(2), lf(3)}}, {t: 2, cs: []*tree{lf(1), lf(3)}}}}},
	}
}

// ---- ID assignments --------------------------------------------------------------------------------

var sparseIDs = []uint64{40, 7, 63, 12, 64, 2, 33, 21, 5, 58, 17, 49, 1, 26}
var bigIDs = []uint64{1<<40 + 5, 1<<63 + 1, 1<<40 + 1, 1<<64 - 1, 1<<52 + 7, 1 << 41, 1<<40 + 2, 1<<62 + 9, 1<<45 + 3, 1<<50 + 11, 1<<63 + 5, 1<<47 + 1, 1<<58 + 13, 1<<44 + 4}
var midIDs = []uint64{65, 3, 128, 64, 100, 1, 66, 200, 2, 77, 300, 4, 129, 5}

type assignment struct {
	name string
	ids  []uint64
}

func sortedCopy(x []uint64, n int) []uint64 {
	y := append([]uint64(nil), x[:n]...)
	sort.Slice(y, func(i, j int) bool { return y[i] < y[j] })
	return y
}

// assignments for a policy on abstract holders 1..n
func assignmentsFor(fam byte, n int) []assignment {
	ord := assignment{"ordinal", rangeIDs(1, 14)}
	as := []assignment{ord, {"sparse", sparseIDs}, {"big", bigIDs}}
	switch fam {
	case 'N':
		as = append(as, assignment{"mid", midIDs})
	case 'H':
		// level order must follow ID order for the MSP: sorted variants (the unsorted ones exercise the refusal)
		as = append(as, assignment{"sparse-sorted", sortedCopy(sparseIDs, n)}, assignment{"big-sorted", sortedCopy(bigIDs, n)})
	}
	return as
}

func (a assignment) apply(p policy) policy {
	return p.mapIDs(func(x uint64) uint64 {
		if x == 0 || int(x) > len(a.ids) {
			return x
		}
		return a.ids[x-1]
	})
}

// ---- subsets ------------------------------------------------------------------------------------------

func allSubsets(h []uint64) [][]uint64 {
	var out [][]uint64
	for m := 0; m < 1<<len(h); m++ {
		var s []uint64
		for i := range h {
			if m>>i&1 == 1 {
				s = append(s, h[i])
			}
		}
		out = append(out, s)
	}
	return out
}

func randomSubset(r *vh.Rng, h []uint64) []uint64 {
	var s []uint64
	for _, x := range h {
		if r.Bool() {
			s = append(s, x)
		}
	}
	return s
}

// variants of ID lists that are not plain sets: permuted, with a repetition, with a stranger
func subsetVariants(r *vh.Rng, h []uint64, p policy) [][]uint64 {
	var out [][]uint64
	if len(h) == 0 {
		return out
	}
	// the whole holder set reversed, and with its first element repeated
	rev := make([]uint64, len(h))
	for i, x := range h {
		rev[len(h)-1-i] = x
	}
	out = append(out, rev)
	out = append(out, append(append([]uint64{}, rev...), rev[0]))
	// a random subset shuffled
	s := randomSubset(r, h)
	for i := len(s) - 1; i > 0; i-- {
		j := r.Intn(i + 1)
		s[i], s[j] = s[j], s[i]
	}
	if len(s) > 0 {
		out = append(out, s)
		out = append(out, append(append([]uint64{}, s...), s[r.Intn(len(s))]))
	}
	// a stranger
	stranger := uint64(9999)
	out = append(out, append(append([]uint64{}, h...), stranger))
	return out
}

// ---- random larger policies ---------------------------------------------------------------------------

func pickIDs(r *vh.Rng, n int) []uint64 {
	pool := [][]uint64{rangeIDs(1, 14), sparseIDs, bigIDs, midIDs}[r.Intn(4)]
	perm := append([]uint64(nil), pool...)
	for i := len(perm) - 1; i > 0; i-- {
		j := r.Intn(i + 1)
		perm[i], perm[j] = perm[j], perm[i]
	}
	if n > len(perm) {
		n = len(perm)
	}
	return perm[:n]
}

func randTree(r *vh.Rng, ids []uint64, depth int) *tree {
	if depth == 0 || r.Chance(1, 4) {
		return &tree{leaf: true, id: vh.Pick(r, ids)}
	}
	m := 1 + r.Intn(4)
	if r.Chance(3, 4) && m < 2 {
		m = 2
	}
	n := &tree{}
	used := map[uint64]bool{}
	for i := 0; i < m; i++ {
		c := randTree(r, ids, depth-1)
		if c.leaf {
			if used[c.id] && !r.Chance(1, 20) { // mostly avoid the refusal (duplicate attribute children)
				continue
			}
			used[c.id] = true
		}
		n.cs = append(n.cs, c)
	}
	if len(n.cs) == 0 {
		return &tree{leaf: true, id: vh.Pick(r, ids)}
	}
	n.t = 1 + r.Intn(len(n.cs))
	return n
}

func randPolicy(r *vh.Rng, maxHolders int) policy {
	n := 2 + r.Intn(maxHolders-1)
	ids := pickIDs(r, n)
	n = len(ids)
	switch r.Intn(6) {
	case 0:
		return policy{fam: 'T', t: 2 + r.Intn(n-1), ids: ids}
	case 1:
		return policy{fam: 'U', ids: ids}
	case 2, 3:
		// raw (un-normalised) unqualified sets
		k := 1 + r.Intn(5)
		p := policy{fam: 'N'}
		for i := 0; i < k; i++ {
			s := randomSubset(r, ids)
			if len(s) == 0 {
				s = []uint64{vh.Pick(r, ids)}
			}
			p.sets = append(p.sets, s)
		}
		if r.Chance(1, 4) {
			p.sets = append(p.sets, p.sets[0])
		}
		return p
	case 4:
		sorted := sortedCopy(ids, n)
		if r.Chance(1, 8) {
			sorted = ids // unsorted: MSP refused
		}
		p := policy{fam: 'H'}
		next, cur := 0, 0
		for next < n {
			sz := 1 + r.Intn(n-next)
			if cur >= next+sz {
				sz = cur - next + 1
				if next+sz > n {
					break
				}
			}
			t := cur + 1 + r.Intn(next+sz-cur)
			if t > 6 {
				t = cur + 1
			}
			p.levels = append(p.levels, level{t, append([]uint64(nil), sorted[next:next+sz]...)})
			next += sz
			cur = t
		}
		return p
	default:
		sub := ids
		if len(sub) > 5 {
			sub = sub[:5]
		}
		t := randTree(r, sub, 3)
		if t.leaf {
			t = &tree{t: 1 + r.Intn(2), cs: []*tree{{leaf: true, id: sub[0]}, {leaf: true, id: sub[1]}}}
		}
		return policy{fam: 'G', root: t}
	}
}
