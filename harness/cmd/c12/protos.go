package main

// protos.go — one honest run of every protocol of the library through the drivers of
// harness/internal/drive with a message hook installed: every protocol message passes the hook
// as the CBOR bytes on the wire (drive.Pass), so that the check can observe the typed messages
// of a real run and alter them.  The invocations mirror cmd/c04/protos.go (same drivers, same
// way of deriving all randomness from the seed), under names prefixed "ps".

import (
	"fmt"
	"runtime"
	"sync"

	"github.com/bronlabs/bron-crypto/pkg/base/curves/k256"
	rsess "github.com/bronlabs/bron-crypto/pkg/mpc/session"
	"github.com/bronlabs/bron-crypto/pkg/mpc/sharing"
	"github.com/bronlabs/bron-crypto/pkg/proofs/sigma/compiler/fiatshamir"

	"verif/harness/internal/drive"
	daor "verif/harness/internal/drive/aor"
	dbls "verif/harness/internal/drive/boldyreva"
	dcan "verif/harness/internal/drive/canetti"
	dcg "verif/harness/internal/drive/cggmp21"
	ddkls "verif/harness/internal/drive/dkls23"
	dgen "verif/harness/internal/drive/gennaro"
	dhjky "verif/harness/internal/drive/hjky"
	"verif/harness/internal/drive/keys"
	dl17 "verif/harness/internal/drive/lindell17"
	dl22 "verif/harness/internal/drive/lindell22"
	dotv "verif/harness/internal/drive/otvole"
	dredist "verif/harness/internal/drive/redistribute"
	dsess "verif/harness/internal/drive/session"
	"verif/harness/internal/vh"
)

// protoRun is one protocol the check can execute with a message hook.
type protoRun struct {
	Name  string // stable short name
	Heavy bool   // needs Paillier keys: uses the STORED key material of corpus/c01 (never generates keys)
	Run   func(seed int64, hook drive.Hook) *drive.Trace
}

type psP = *k256.Point
type psS = *k256.Scalar

const (
	psProp   = "C12"
	psPolicy = "T:2:1,2,3" // corpus/c01/{lindell17,cggmp21}-k256-8a81acfb1a91.cbor exist for this policy
)

var psGenMu sync.Mutex

var (
	psParties = []sharing.ID{1, 2, 3}
	psPair    = []sharing.ID{1, 2} // a minimal quorum of psPolicy
	psMessage = []byte("C12 wire format check message")
)

// psCtxsFor runs the real session setup (honestly, no hook) and returns fresh contexts for quorum.
func psCtxsFor(seed int64, quorum []sharing.ID) map[sharing.ID]*rsess.Context {
	res := dsess.RunFull(dsess.Config{Seed: seed, Prop: psProp + "/ctx", Quorum: quorum})
	return res.Ctx
}

// psCommon is the shared part of the signing drivers' configuration: seeded session contexts,
// trusted-dealer keys on the stream (seed, "C12", "deal", 0), tapes (seed, "C12", "tape/a", id).
func psCommon(seed int64, hook drive.Hook, quorum []sharing.ID) keys.Common {
	return keys.Common{Seed: seed, Prop: psProp, Hook: hook, Quorum: quorum, Session: "seeded", Message: psMessage}
}

// psSafely runs f; a panic (or a nil trace) yields a trace with a Note instead.
func psSafely(name string, f func() *drive.Trace) *drive.Trace {
	var tr *drive.Trace
	p := vh.Safely(func() { tr = f() })
	if tr == nil {
		tr = drive.NewTrace(name)
		if p == "" {
			p = "the driver returned no trace"
		}
	}
	if p != "" {
		tr.Notes = append(tr.Notes, "PANIC in protocol run "+name+": "+p)
	}
	return tr
}

// psSetup makes a setup failure visible in the trace (the signing drivers already note it).
func psSetup(tr *drive.Trace, setupErr string) *drive.Trace {
	if setupErr == "" || tr == nil {
		return tr
	}
	for _, n := range tr.Notes {
		if n == "setup: "+setupErr {
			return tr
		}
	}
	tr.Notes = append(tr.Notes, "setup: "+setupErr)
	return tr
}

func psSetupTrace(name string, err error) *drive.Trace {
	tr := drive.NewTrace(name)
	tr.Notes = append(tr.Notes, "setup: "+err.Error())
	return tr
}

func psSession(seed int64, hook drive.Hook) *drive.Trace {
	return dsess.RunFull(dsess.Config{Seed: seed, Prop: psProp, Quorum: psParties, Hook: hook}).Trace
}

// psGennaro. The library's sigand composition (batch Okamoto proof of Round1) computes its branch
// commitments in goroutines that all draw from the party's prng, so which tape bytes become which
// nonce — and with it the proof bytes of the round-1 broadcast — depends on goroutine scheduling
// (see drive/gennaro).  The run is therefore executed on a single P (GOMAXPROCS(1), restored
// afterwards; runs are serialised by psGenMu): the branch goroutines then start in a fixed order
// and the trace is reproducible for a fixed seed.
func psGennaro(seed int64, hook drive.Hook) *drive.Trace {
	psGenMu.Lock()
	defer psGenMu.Unlock()
	defer runtime.GOMAXPROCS(runtime.GOMAXPROCS(1))
	pol, err := keys.ParsePolicy(psPolicy)
	if err != nil {
		return psSetupTrace("gennaro", err)
	}
	ac, err := pol.Build()
	if err != nil {
		return psSetupTrace("gennaro", err)
	}
	return dgen.RunFull(dgen.Config[psP, psS]{Seed: seed, Prop: psProp, Hook: hook, Group: k256.NewCurve(), AC: ac,
		Compiler: fiatshamir.Name, Ctxs: psCtxsFor(seed, psParties)}).Trace
}

func psCanetti(seed int64, hook drive.Hook) *drive.Trace {
	pol, err := keys.ParsePolicy(psPolicy)
	if err != nil {
		return psSetupTrace("canetti", err)
	}
	ac, err := pol.Build()
	if err != nil {
		return psSetupTrace("canetti", err)
	}
	return dcan.RunFull(dcan.Config[psP, psS]{Seed: seed, Prop: psProp, Hook: hook, Group: k256.NewCurve(), AC: ac,
		Ctxs: psCtxsFor(seed, psParties)}).Trace
}

func psHjky(seed int64, hook drive.Hook) *drive.Trace {
	pol, err := keys.ParsePolicy(psPolicy)
	if err != nil {
		return psSetupTrace("hjky", err)
	}
	ac, err := pol.Build()
	if err != nil {
		return psSetupTrace("hjky", err)
	}
	return dhjky.RunFull(dhjky.Config[psP, psS]{Seed: seed, Prop: psProp, Hook: hook, Group: k256.NewCurve(), Access: ac,
		Contexts: psCtxsFor(seed, psParties)}).Trace
}

// psRedist: a refresh — every holder of a dealt key is a previous and a next holder.
func psRedist(seed int64, hook drive.Hook) *drive.Trace {
	pol, err := keys.ParsePolicy(psPolicy)
	if err != nil {
		return psSetupTrace("redistribute", err)
	}
	g := k256.NewCurve()
	dealt, err := keys.Deal[psP, psS](g, pol, vh.NewRng(seed, psProp, "deal", 0))
	if err != nil {
		return psSetupTrace("redistribute", err)
	}
	return dredist.RunFull(dredist.Config[psP, psS]{Seed: seed, Prop: psProp, Hook: hook, Group: g,
		PrevShards: dealt.Shards, PrevQuorum: psParties, Next: dealt.AC, Contexts: psCtxsFor(seed, psParties)}).Trace
}

func psDkls(mult string) func(seed int64, hook drive.Hook) *drive.Trace {
	return func(seed int64, hook drive.Hook) *drive.Trace {
		res := ddkls.RunFull(ddkls.Config{Common: psCommon(seed, hook, psPair), Policy: psPolicy, Curve: "k256", Hash: "sha256", Multiplier: mult})
		return psSetup(res.Trace, res.SetupErr)
	}
}

func psL22(seed int64, hook drive.Hook) *drive.Trace {
	res := dl22.RunFull(dl22.Config{Common: psCommon(seed, hook, psParties), Policy: psPolicy, Variant: "bip340"})
	return psSetup(res.Trace, res.SetupErr)
}

func psBls(seed int64, hook drive.Hook) *drive.Trace {
	res := dbls.RunFull(dbls.Config{Common: psCommon(seed, hook, psPair), Policy: psPolicy, KeySize: "short", Mode: "basic"})
	return psSetup(res.Trace, res.SetupErr)
}

// psL17: stored trusted-dealer shards (Paillier keys of base.IFCKeyLength bits) loaded by the
// driver through keys.LoadL17("k256", psPolicy); party 1 is the primary.
func psL17(seed int64, hook drive.Hook) *drive.Trace {
	res := dl17.RunFull(dl17.Config{Common: psCommon(seed, hook, psPair), Policy: psPolicy, Curve: "k256", Hash: "sha256", Compiler: "fischlin"})
	return psSetup(res.Trace, res.SetupErr)
}

// psCggmp: stored trusted-dealer shards loaded by the driver through keys.LoadCggmp("k256", psPolicy).
func psCggmp(seed int64, hook drive.Hook) *drive.Trace {
	res := dcg.RunFull(dcg.Config{Common: psCommon(seed, hook, psPair), Policy: psPolicy, Curve: "k256", Hash: "sha256"})
	return psSetup(res.Trace, res.SetupErr)
}

func psAor(seed int64, hook drive.Hook) *drive.Trace {
	return daor.RunFull(daor.Config{Seed: seed, Prop: psProp, Quorum: psParties, Size: 32, Hook: hook}).Trace
}

func psOtvole(kind string, xi, l int) func(seed int64, hook drive.Hook) *drive.Trace {
	return func(seed int64, hook drive.Hook) *drive.Trace {
		res := dotv.RunFull(dotv.Config{Seed: seed, Prop: psProp, Hook: hook, Kind: kind, Xi: xi, L: l})
		return psSetup(res.Trace, res.SetupErr)
	}
}

// protoRuns lists the protocols. Every Run executes one complete honest run (3 parties, or a
// minimal quorum of the 2-of-3 policy; k256; smallest parameters) with the hook installed
// (nil = honest delivery); it never panics out and is a function of the seed only.
func protoRuns() []protoRun {
	rs := []protoRun{
		{Name: "session", Run: psSession},
		{Name: "gennaro", Run: psGennaro},
		{Name: "canetti", Run: psCanetti},
		{Name: "hjky", Run: psHjky},
		{Name: "redistribute", Run: psRedist},
		{Name: "dkls23-bbot", Run: psDkls("bbot")},
		{Name: "dkls23-softspoken", Run: psDkls("softspoken")},
		{Name: "lindell22", Run: psL22},
		{Name: "boldyreva", Run: psBls},
		{Name: "aor", Run: psAor},
		{Name: "otvole-ecbbot", Run: psOtvole("ecbbot", 128, 1)},
		{Name: "otvole-rvole-bbot", Run: psOtvole("rvole-bbot", 0, 2)},
		{Name: "lindell17", Heavy: true, Run: psL17},
		{Name: "cggmp21", Heavy: true, Run: psCggmp},
	}
	for i := range rs {
		name, run := rs[i].Name, rs[i].Run
		rs[i].Run = func(seed int64, hook drive.Hook) *drive.Trace {
			return psSafely(name, func() *drive.Trace { return run(seed, hook) })
		}
	}
	return rs
}

// psSlots renders the distinct message slots of a trace as "r<round>b" (broadcast) / "r<round>u"
// (unicast) with the number of messages recorded per slot, in order of first appearance.
func psSlots(tr *drive.Trace) string {
	var order []string
	count := map[string]int{}
	for _, m := range tr.Messages {
		k := fmt.Sprintf("r%du", m.Round)
		if m.To == 0 {
			k = fmt.Sprintf("r%db", m.Round)
		}
		if count[k] == 0 {
			order = append(order, k)
		}
		count[k]++
	}
	s := ""
	for i, k := range order {
		if i > 0 {
			s += " "
		}
		s += fmt.Sprintf("%s:%d", k, count[k])
	}
	return s
}
