package main

// Mutations of valid encodings: byte-level damage, alternative wire forms of the same value,
// container damage (duplicate / unknown keys, indefinite lengths, over-deep nesting, trailing
// bytes) and structure-preserving value changes that are meant to break one constructor rule
// at a time.  Which rule (if any) a mutated stream breaks is decided by the model, not here.

import (
	"fmt"
	"math/big"
	"sort"
	"strings"

	"verif/harness/internal/vh"
)

type mutation struct {
	Kind  string // operator name
	Path  string // where in the tree (map keys / indices), "" for byte-level operators
	Bytes []byte
}

func pickRef(r *vh.Rng, refs []ref, ok func(ref) bool) (ref, bool) {
	var c []ref
	for _, x := range refs {
		if ok(x) {
			c = append(c, x)
		}
	}
	if len(c) == 0 {
		return ref{}, false
	}
	return c[r.Intn(len(c))], true
}

var uintChoices = []uint64{0, 1, 2, 3, 4, 5, 23, 24, 255, 256, 65535, 65536, 1 << 32, 1<<63 - 1, 1 << 63, 1<<64 - 1}

type treeOp struct {
	name string
	f    func(r *vh.Rng, root **node, refs []ref) (path string, ok bool)
}

func isContainerOrString(x ref) bool {
	return x.x.kind == 'a' || x.x.kind == 'm' || x.x.kind == 'b' || x.x.kind == 't'
}

var treeOps = []treeOp{
	{"nonshortest-head", func(r *vh.Rng, root **node, refs []ref) (string, bool) {
		x, ok := pickRef(r, refs, func(x ref) bool { return x.x.kind != 's' })
		if !ok {
			return "", false
		}
		x.x.width = []int{1, 2, 4, 8}[r.Intn(4)]
		return x.path, true
	}},
	{"indefinite-length", func(r *vh.Rng, root **node, refs []ref) (string, bool) {
		x, ok := pickRef(r, refs, isContainerOrString)
		if !ok {
			return "", false
		}
		x.x.indef = true
		return x.path, true
	}},
	{"reorder-keys", func(r *vh.Rng, root **node, refs []ref) (string, bool) {
		x, ok := pickRef(r, refs, func(x ref) bool { return x.x.kind == 'm' && len(x.x.pairs) >= 2 })
		if !ok {
			return "", false
		}
		p := x.x.pairs
		i := r.Intn(len(p) - 1)
		p[i], p[i+1] = p[i+1], p[i]
		return x.path, true
	}},
	{"duplicate-key", func(r *vh.Rng, root **node, refs []ref) (string, bool) {
		x, ok := pickRef(r, refs, func(x ref) bool { return x.x.kind == 'm' && len(x.x.pairs) >= 1 })
		if !ok {
			return "", false
		}
		p := x.x.pairs[r.Intn(len(x.x.pairs))]
		q := [2]*node{p[0].clone(), p[1].clone()}
		if r.Bool() && q[0].kind == 'u' {
			q[0].width = 1 + r.Intn(2) // same key, different head (01 vs 1801 / 190001)
		}
		at := r.Intn(len(x.x.pairs) + 1)
		x.x.pairs = append(x.x.pairs[:at:at], append([][2]*node{q}, x.x.pairs[at:]...)...)
		return x.path + "/" + keyName(p[0]), true
	}},
	{"unknown-key", func(r *vh.Rng, root **node, refs []ref) (string, bool) {
		x, ok := pickRef(r, refs, func(x ref) bool { return x.x.kind == 'm' })
		if !ok {
			return "", false
		}
		name := []string{"zz", "extra", "Threshold", "ID", "x", ""}[r.Intn(6)]
		if len(x.x.pairs) > 0 && r.Bool() {
			// a near miss of an existing field name (case change / suffix)
			if k := x.x.pairs[r.Intn(len(x.x.pairs))][0]; k.kind == 't' && len(k.bs) > 0 {
				if r.Bool() {
					name = strings.ToUpper(string(k.bs[:1])) + string(k.bs[1:])
					if name == string(k.bs) {
						name = strings.ToLower(name)
					}
				} else {
					name = string(k.bs) + "2"
				}
			}
		}
		val := []*node{{kind: 'u', n: 0}, {kind: 's', n: 22}, {kind: 'b', bs: []byte{1}}, {kind: 'a'}}[r.Intn(4)]
		at := r.Intn(len(x.x.pairs) + 1)
		x.x.pairs = append(x.x.pairs[:at:at], append([][2]*node{{{kind: 't', bs: []byte(name)}, val}}, x.x.pairs[at:]...)...)
		return x.path + "/" + name, true
	}},
	{"bytestring-key", func(r *vh.Rng, root **node, refs []ref) (string, bool) {
		x, ok := pickRef(r, refs, func(x ref) bool { return x.role == 'k' && x.x.kind == 't' })
		if !ok {
			return "", false
		}
		x.x.kind = 'b'
		return x.path, true
	}},
	{"swap-values", func(r *vh.Rng, root **node, refs []ref) (string, bool) {
		x, ok := pickRef(r, refs, func(x ref) bool { return x.x.kind == 'm' && len(x.x.pairs) >= 2 })
		if !ok {
			return "", false
		}
		p := x.x.pairs
		i := r.Intn(len(p))
		j := (i + 1 + r.Intn(len(p)-1)) % len(p)
		p[i][1], p[j][1] = p[j][1], p[i][1]
		return x.path, true
	}},
	{"drop-pair", func(r *vh.Rng, root **node, refs []ref) (string, bool) {
		x, ok := pickRef(r, refs, func(x ref) bool { return x.x.kind == 'm' && len(x.x.pairs) >= 1 })
		if !ok {
			return "", false
		}
		i := r.Intn(len(x.x.pairs))
		nm := keyName(x.x.pairs[i][0])
		x.x.pairs = append(x.x.pairs[:i:i], x.x.pairs[i+1:]...)
		return x.path + "/" + nm, true
	}},
	{"add-id-zero", func(r *vh.Rng, root **node, refs []ref) (string, bool) {
		// a pair with integer key 0 in a map keyed by integers (ID sets, row labels)
		x, ok := pickRef(r, refs, func(x ref) bool {
			return x.x.kind == 'm' && len(x.x.pairs) >= 1 && x.x.pairs[0][0].kind == 'u'
		})
		if !ok {
			return "", false
		}
		v := x.x.pairs[0][1].clone()
		x.x.pairs = append([][2]*node{{{kind: 'u', n: 0}, v}}, x.x.pairs...)
		return x.path + "/0", true
	}},
	{"null-value", func(r *vh.Rng, root **node, refs []ref) (string, bool) {
		x, ok := pickRef(r, refs, func(x ref) bool { return x.role == 'v' || x.role == 'e' || x.role == 'c' })
		if !ok {
			return "", false
		}
		n := uint64(22)
		if r.Chance(1, 4) {
			n = 23
		}
		x.set(&node{kind: 's', n: n})
		return x.path, true
	}},
	{"uint-set", func(r *vh.Rng, root **node, refs []ref) (string, bool) {
		x, ok := pickRef(r, refs, func(x ref) bool { return x.x.kind == 'u' })
		if !ok {
			return "", false
		}
		old := x.x.n
		switch r.Intn(4) {
		case 0:
			x.x.n = old + 1
		case 1:
			x.x.n = old - 1
		default:
			x.x.n = uintChoices[r.Intn(len(uintChoices))]
		}
		if x.x.n == old {
			x.x.n = old + 2
		}
		return x.path, true
	}},
	{"uint-to-negative", func(r *vh.Rng, root **node, refs []ref) (string, bool) {
		x, ok := pickRef(r, refs, func(x ref) bool { return x.x.kind == 'u' })
		if !ok {
			return "", false
		}
		x.x.kind = 'n'
		if r.Bool() {
			x.x.n = 0
		}
		return x.path, true
	}},
	{"array-drop", func(r *vh.Rng, root **node, refs []ref) (string, bool) {
		x, ok := pickRef(r, refs, func(x ref) bool { return x.x.kind == 'a' && len(x.x.kids) >= 1 })
		if !ok {
			return "", false
		}
		i := r.Intn(len(x.x.kids))
		if r.Chance(1, 4) {
			x.x.kids = nil
		} else {
			x.x.kids = append(x.x.kids[:i:i], x.x.kids[i+1:]...)
		}
		return x.path, true
	}},
	{"array-duplicate", func(r *vh.Rng, root **node, refs []ref) (string, bool) {
		x, ok := pickRef(r, refs, func(x ref) bool { return x.x.kind == 'a' && len(x.x.kids) >= 1 })
		if !ok {
			return "", false
		}
		i := r.Intn(len(x.x.kids))
		x.x.kids = append(x.x.kids, x.x.kids[i].clone())
		return x.path, true
	}},
	{"array-swap", func(r *vh.Rng, root **node, refs []ref) (string, bool) {
		x, ok := pickRef(r, refs, func(x ref) bool { return x.x.kind == 'a' && len(x.x.kids) >= 2 })
		if !ok {
			return "", false
		}
		i := r.Intn(len(x.x.kids) - 1)
		x.x.kids[i], x.x.kids[i+1] = x.x.kids[i+1], x.x.kids[i]
		return x.path, true
	}},
	{"bytes-zero", func(r *vh.Rng, root **node, refs []ref) (string, bool) {
		x, ok := pickRef(r, refs, func(x ref) bool { return x.x.kind == 'b' && len(x.x.bs) > 0 })
		if !ok {
			return "", false
		}
		for i := range x.x.bs {
			x.x.bs[i] = 0
		}
		return x.path, true
	}},
	{"bytes-ff", func(r *vh.Rng, root **node, refs []ref) (string, bool) {
		x, ok := pickRef(r, refs, func(x ref) bool { return x.x.kind == 'b' && len(x.x.bs) > 0 })
		if !ok {
			return "", false
		}
		for i := range x.x.bs {
			x.x.bs[i] = 0xff
		}
		return x.path, true
	}},
	{"bytes-resize", func(r *vh.Rng, root **node, refs []ref) (string, bool) {
		x, ok := pickRef(r, refs, func(x ref) bool { return x.x.kind == 'b' })
		if !ok {
			return "", false
		}
		switch {
		case len(x.x.bs) > 0 && r.Bool():
			x.x.bs = x.x.bs[:len(x.x.bs)-1-r.Intn(len(x.x.bs))]
		case r.Bool():
			x.x.bs = append([]byte{0}, x.x.bs...)
		default:
			x.x.bs = append(x.x.bs, byte(r.Intn(256)))
		}
		return x.path, true
	}},
	{"bytes-tweak", func(r *vh.Rng, root **node, refs []ref) (string, bool) {
		x, ok := pickRef(r, refs, func(x ref) bool { return x.x.kind == 'b' && len(x.x.bs) > 0 })
		if !ok {
			return "", false
		}
		x.x.bs[len(x.x.bs)-1] ^= 1 << uint(r.Intn(3))
		return x.path, true
	}},
	{"bytes-to-text", func(r *vh.Rng, root **node, refs []ref) (string, bool) {
		x, ok := pickRef(r, refs, func(x ref) bool { return x.x.kind == 'b' && x.role != 'k' })
		if !ok {
			return "", false
		}
		x.x.kind = 't'
		return x.path, true
	}},
	{"tag-change", func(r *vh.Rng, root **node, refs []ref) (string, bool) {
		x, ok := pickRef(r, refs, func(x ref) bool { return x.x.kind == 'g' })
		if !ok {
			// no tag: add one around a random node
			y, ok2 := pickRef(r, refs, func(x ref) bool { return x.role != 'k' })
			if !ok2 {
				return "", false
			}
			y.set(&node{kind: 'g', n: []uint64{2, 3, 100, 5053, 55799}[r.Intn(5)], kids: []*node{y.x}})
			return y.path, true
		}
		switch r.Intn(3) {
		case 0:
			x.x.n = []uint64{2, 3, 5050, 5051, 5052, 5053, 5054, 0, 1 << 40}[r.Intn(9)]
		case 1:
			x.set(x.x.kids[0]) // strip
		default:
			x.set(&node{kind: 'g', n: x.x.n, kids: []*node{x.x}}) // double
		}
		return x.path, true
	}},
	{"nest-too-deep", func(r *vh.Rng, root **node, refs []ref) (string, bool) {
		x, ok := pickRef(r, refs, func(x ref) bool { return x.role != 'k' })
		if !ok {
			return "", false
		}
		y := x.x
		for i := 0; i < 33; i++ {
			if r.Chance(1, 5) {
				y = &node{kind: 'm', pairs: [][2]*node{{{kind: 'u', n: 0}, y}}}
			} else {
				y = &node{kind: 'a', kids: []*node{y}}
			}
		}
		x.set(y)
		return x.path, true
	}},
	{"float-value", func(r *vh.Rng, root **node, refs []ref) (string, bool) {
		x, ok := pickRef(r, refs, func(x ref) bool { return x.x.kind == 'u' && x.role != 'k' })
		if !ok {
			return "", false
		}
		x.x.raw = [][]byte{{0xf9, 0x40, 0x00}, {0xfa, 0x40, 0x00, 0x00, 0x00}, {0xf9, 0x7e, 0x00}}[r.Intn(3)]
		return x.path, true
	}},
	{"reserved-head", func(r *vh.Rng, root **node, refs []ref) (string, bool) {
		x, ok := pickRef(r, refs, func(x ref) bool { return true })
		if !ok {
			return "", false
		}
		b := gencode(x.x)
		b = append([]byte(nil), b...)
		b[0] = b[0]&0xe0 | byte(28+r.Intn(3))
		x.x.raw = b
		return x.path, true
	}},
	{"bad-utf8", func(r *vh.Rng, root **node, refs []ref) (string, bool) {
		x, ok := pickRef(r, refs, func(x ref) bool { return x.x.kind == 't' && len(x.x.bs) > 0 })
		if !ok {
			return "", false
		}
		x.x.bs[r.Intn(len(x.x.bs))] = []byte{0xff, 0xc0, 0x80, 0xed}[r.Intn(4)]
		return x.path, true
	}},
}

// byte-level operators
func byteMutation(r *vh.Rng, b []byte) mutation {
	c := append([]byte(nil), b...)
	switch r.Intn(6) {
	case 0:
		if len(c) > 0 {
			return mutation{"truncate", "", c[:r.Intn(len(c))]}
		}
	case 1:
		if len(c) > 0 {
			i := r.Intn(len(c))
			c[i] ^= 1 << uint(r.Intn(8))
			return mutation{"bit-flip", "", c}
		}
	case 2:
		n := 1 + r.Intn(3)
		return mutation{"trailing-bytes", "", append(c, r.Bytes(n)...)}
	case 3:
		return mutation{"random-bytes", "", r.Bytes(r.Intn(40))}
	case 4:
		if len(c) > 0 {
			i := r.Intn(len(c))
			c[i] = byte(r.Intn(256))
			return mutation{"byte-set", "", c}
		}
	default:
		if len(c) > 1 {
			i := r.Intn(len(c))
			return mutation{"byte-delete", "", append(c[:i:i], c[i+1:]...)}
		}
	}
	return mutation{"trailing-bytes", "", append(c, 0)}
}

// treeMutation applies operator op (index into treeOps) to a fresh copy of the tree.
func treeMutation(r *vh.Rng, tree *node, op int) (mutation, bool) {
	root := tree.clone()
	refs := collect(&root)
	path, ok := treeOps[op].f(r, &root, refs)
	if !ok {
		return mutation{}, false
	}
	return mutation{treeOps[op].name, path, gencode(root)}, true
}

// ---- numeric boundaries ----------------------------------------------------------------------------

func beAdd(b []byte, d int) []byte {
	x := new(big.Int).SetBytes(b)
	x.Add(x, big.NewInt(int64(d)))
	if x.Sign() < 0 {
		x.SetInt64(0)
	}
	out := x.Bytes()
	for len(out) < len(b) {
		out = append([]byte{0}, out...)
	}
	return out
}

// related says how much leaf y looks like the bound of leaf x (larger = more likely): a value next
// to its modulus, an element value next to n, natBytes under sibling fields.
func related(x, y ref) int {
	score := 0
	px, py := x.path, y.path
	// common prefix length in path components
	cx, cy := strings.Split(px, "/"), strings.Split(py, "/")
	common := 0
	for common < len(cx) && common < len(cy) && cx[common] == cy[common] {
		common++
	}
	score += 4 * common
	low := strings.ToLower(py)
	for _, w := range []string{"modulus", "/n/", "/n2/", "/q/", "/p/", "order"} {
		if strings.Contains(low, w) {
			score += 3
		}
	}
	lx := strings.ToLower(px)
	for _, w := range []string{"value", "/v/", "/r/", "/c/", "/m/", "lambda", "alpha"} {
		if strings.Contains(lx, w) {
			score += 2
		}
	}
	return score
}

// numericBoundaryCases: see the call site in main.go.
func numericBoundaryCases(s *Sample, tree *node, budget int) []*tcase {
	probe := tree.clone()
	refs := collect(&probe)
	var bs, us, cs []int
	for i, x := range refs {
		switch {
		case x.x.kind == 'b' && len(x.x.bs) > 0 && len(x.x.bs) <= 1024 && x.role != 'k':
			bs = append(bs, i)
		case x.x.kind == 'u' && x.role != 'k':
			us = append(us, i)
		case x.x.kind == 'a' || x.x.kind == 'm':
			cs = append(cs, i)
		}
	}
	type job struct {
		score int
		ri    int
		kind  string
		set   func(x *node)
	}
	var jobs []job
	_, _, q, hasQ := curveParams(s.Type)
	for _, i := range bs {
		x := refs[i]
		for _, j := range bs {
			if i == j || string(refs[j].x.bs) == string(x.x.bs) {
				continue
			}
			y := refs[j]
			sc := related(x, y)
			bound := append([]byte(nil), y.x.bs...)
			for _, v := range []struct {
				k string
				b []byte
			}{{"bound", bound}, {"bound+1", beAdd(bound, 1)}, {"bound-1", beAdd(bound, -1)}} {
				v := v
				jobs = append(jobs, job{sc, i, "numeric-boundary-" + v.k + "@" + y.path, func(n *node) { n.bs = append([]byte(nil), v.b...) }})
			}
		}
		zero := make([]byte, len(x.x.bs))
		one := make([]byte, len(x.x.bs))
		one[len(one)-1] = 1
		jobs = append(jobs, job{1, i, "numeric-boundary-0", func(n *node) { n.bs = zero }}, job{1, i, "numeric-boundary-1", func(n *node) { n.bs = one }})
		if hasQ && len(q) > 1 && len(x.x.bs)*2 == len(q) {
			qb := vh.UnZHex(q).Bytes()
			for _, v := range []struct {
				k string
				b []byte
			}{{"order", qb}, {"order+1", beAdd(qb, 1)}, {"order-1", beAdd(qb, -1)}} {
				v := v
				jobs = append(jobs, job{6, i, "numeric-boundary-" + v.k, func(n *node) { n.bs = append([]byte(nil), v.b...) }})
			}
		}
	}
	for _, i := range us {
		for k, j := range cs {
			if k >= 4 {
				break
			}
			l := uint64(len(refs[j].x.kids) + len(refs[j].x.pairs))
			for _, v := range []uint64{l, l + 1, l - 1} {
				v := v
				if v == refs[i].x.n || l == 0 {
					continue
				}
				jobs = append(jobs, job{2, i, fmt.Sprintf("numeric-boundary-len%+d@%s", int64(v)-int64(l), refs[j].path), func(n *node) { n.n = v }})
			}
		}
		for _, j := range us {
			if i == j || refs[j].x.n == refs[i].x.n {
				continue
			}
			w := refs[j].x.n
			for _, v := range []uint64{w, w + 1, w - 1} {
				v := v
				jobs = append(jobs, job{related(refs[i], refs[j]) / 2, i, "numeric-boundary-uint@" + refs[j].path, func(n *node) { n.n = v }})
			}
		}
	}
	sort.SliceStable(jobs, func(a, b int) bool { return jobs[a].score > jobs[b].score })
	if len(jobs) > budget {
		jobs = jobs[:budget]
	}
	var out []*tcase
	seen := map[string]bool{}
	for _, jb := range jobs {
		root := tree.clone()
		rr := collect(&root)
		jb.set(rr[jb.ri].x)
		b := gencode(root)
		if seen[string(b)] || string(b) == string(s.Bytes) {
			continue
		}
		seen[string(b)] = true
		m := mutation{Kind: strings.SplitN(jb.kind, "@", 2)[0], Path: rr[jb.ri].path + " <- " + jb.kind, Bytes: b}
		out = append(out, &tcase{class: "mut", sample: s, mut: m, stream: b, sm: true})
	}
	return out
}
