package main

// num.Uint / num.ZMod samples (residues with their modulus on the wire) and the accessor-level
// range invariant of a decoded Uint: 0 <= Big() < Modulus().Big(), IsZero() <=> Big() == 0.

import (
	"fmt"
	"math/big"

	"github.com/bronlabs/bron-crypto/pkg/base/nt/num"

	"verif/harness/internal/vh"
)

func uintFacts(v *num.Uint) string {
	res := "range=ok"
	if p := vh.Safely(func() {
		b, m := v.Big(), v.Modulus().Big()
		switch {
		case b.Sign() < 0 || b.Cmp(m) >= 0:
			res = fmt.Sprintf("range=bad:Big()=%s,Modulus()=%s", b.Text(16), m.Text(16))
		case v.IsZero() != (b.Sign() == 0):
			res = fmt.Sprintf("range=bad:IsZero()=%v,Big()=%s", v.IsZero(), b.Text(16))
		}
	}); p != "" {
		res = "range=bad:accessor-panics:" + p
	}
	return res
}

func numSamples(seed int64, tier string) []Sample {
	b := &builder{seed: seed, reps: 1}
	if tier == "thorough" {
		b.reps = 4
	}
	b.group("uint", func() {
		moduli := []*big.Int{big.NewInt(2), big.NewInt(7), big.NewInt(255), big.NewInt(256), new(big.Int).Lsh(big.NewInt(1), 64),
			new(big.Int).Add(new(big.Int).Lsh(big.NewInt(1), 64), big.NewInt(13)), vh.UnZHex(qK256)}
		for i := 0; i < b.reps; i++ {
			r := b.rng("uint-modulus", i)
			moduli = append(moduli, new(big.Int).SetBit(r.BigBits(200+64*i), 200+64*i, 1))
		}
		for i, mb := range moduli {
			np, err := num.NPlus().FromBig(mb)
			if err != nil {
				sampleError("uint", err)
				continue
			}
			zn, err := num.NewZMod(np)
			if err != nil {
				sampleError("zmod", err)
				continue
			}
			put(b, "zmod", fmt.Sprintf("Z/%s", mb.Text(16)), zn, func(x, y *num.ZMod) bool { return cborEq(x, y) }, nil)
			r := b.rng("uint-value", i)
			vals := []*big.Int{big.NewInt(0), big.NewInt(1), new(big.Int).Sub(mb, big.NewInt(1)), r.BigBelow(mb)}
			for _, vb := range vals {
				u, err := zn.FromBig(vb)
				if err != nil {
					sampleError("uint", err)
					continue
				}
				put(b, "uint", fmt.Sprintf("%s mod %s", vb.Text(16), mb.Text(16)), u, func(x, y *num.Uint) bool { return x.Equal(y) }, uintFacts)
			}
		}
	})
	return b.out
}
