package main

// Missing-component sweep at the decoding level, through real protocol runs (protos.go drives
// the protocol drivers of harness/internal/drive with a message hook): one honest run per
// protocol collects every message as CBOR bytes; then, for a message and one structure-preserving
// damage of it (a field null, a field dropped, an array emptied or shortened, an unknown key, a
// trailing byte), the protocol is run again with exactly that message replaced on the wire.
// Expected: the recipient REFUSES (decode error or Validate / round-function error) and NOBODY
// PANICS.  The model (Schema.v shallow message layouts regenerated from the message structs)
// classifies the damaged payload: malformed container and unknown field must be refused like for
// every other type; a missing / null declared component is rule 140.
//
//	<type>/panic                       a party panics
//	<type>/missing-component-accepted  the recipient completes the protocol with ok
//	<type>/malformed-<r>-accepted, <type>/unknown-field-accepted
//	<type>/schema-mismatch             (corr) an honest message does not fit the regenerated layouts

import (
	"fmt"
	"strings"
	"time"

	"github.com/bronlabs/bron-crypto/pkg/mpc/sharing"

	"verif/harness/internal/drive"
	"verif/harness/internal/vh"
)

var sweepSpent time.Duration

type sweepSlot struct {
	proto   *protoRun
	round   int
	from    sharing.ID
	to      sharing.ID // 0 = broadcast
	payload []byte     // honest bytes
	typ     string
}

func (s *sweepSlot) kind() string {
	if s.to == 0 {
		return "bcast"
	}
	return "p2p"
}

type sweepOutcome struct {
	verdicts string // canonical "id:class,..."
	panicked string
	accepted bool // every recipient of the altered message finished with verdict ok
	hit      bool // the hook saw (and replaced) the message
}

// missingComponentMutations lists the damages of one payload: (operator, path, bytes).
func missingComponentMutations(payload []byte) []mutation {
	tree, err := gdecode(payload)
	if err != nil {
		return nil
	}
	var out []mutation
	probe := tree.clone()
	refs := collect(&probe)
	for ri, x := range refs {
		depth := strings.Count(x.path, "/")
		if x.role == 'v' && depth <= 3 {
			root := tree.clone()
			rr := collect(&root)
			rr[ri].set(&node{kind: 's', n: 22})
			out = append(out, mutation{Kind: "field-null", Path: x.path, Bytes: gencode(root)})
			root = tree.clone()
			rr = collect(&root)
			for _, y := range rr {
				if y.x.kind != 'm' {
					continue
				}
				done := false
				for pi, pr := range y.x.pairs {
					if pr[1] == rr[ri].x {
						y.x.pairs = append(y.x.pairs[:pi:pi], y.x.pairs[pi+1:]...)
						out = append(out, mutation{Kind: "field-drop", Path: x.path, Bytes: gencode(root)})
						done = true
						break
					}
				}
				if done {
					break
				}
			}
		}
		if x.x.kind == 'a' && len(x.x.kids) > 0 && depth <= 3 {
			root := tree.clone()
			rr := collect(&root)
			rr[ri].x.kids = nil
			out = append(out, mutation{Kind: "array-empty", Path: x.path, Bytes: gencode(root)})
			root = tree.clone()
			rr = collect(&root)
			rr[ri].x.kids = rr[ri].x.kids[:len(rr[ri].x.kids)-1]
			out = append(out, mutation{Kind: "array-shorten", Path: x.path, Bytes: gencode(root)})
			root = tree.clone()
			rr = collect(&root)
			rr[ri].x.kids[0] = &node{kind: 's', n: 22}
			out = append(out, mutation{Kind: "element-null", Path: x.path + "/0", Bytes: gencode(root)})
		}
		if x.x.kind == 'b' && len(x.x.bs) > 0 && depth <= 2 {
			root := tree.clone()
			rr := collect(&root)
			rr[ri].x.bs = nil
			out = append(out, mutation{Kind: "bytes-empty", Path: x.path, Bytes: gencode(root)})
		}
	}
	if tree.kind == 'm' {
		root := tree.clone()
		root.pairs = append(root.pairs, [2]*node{{kind: 't', bs: []byte("zz")}, {kind: 'u', n: 0}})
		out = append(out, mutation{Kind: "unknown-key", Path: "/zz", Bytes: gencode(root)})
		out = append(out, mutation{Kind: "fixed-stream", Path: "a0", Bytes: []byte{0xa0}})
	}
	out = append(out, mutation{Kind: "trailing-bytes", Path: "", Bytes: append(append([]byte(nil), payload...), 0)})
	out = append(out, mutation{Kind: "fixed-stream", Path: "f6", Bytes: []byte{0xf6}})
	return out
}

func runWith(p *protoRun, seed int64, s *sweepSlot, altered []byte) (o sweepOutcome) {
	var hook drive.Hook
	if s != nil {
		hook = drive.HookFunc(func(m *drive.Msg, _ sharing.ID) []byte {
			if m.Round == s.round && m.From == s.from && m.To == s.to && string(m.Payload) == string(s.payload) {
				o.hit = true
				return altered
			}
			return m.Payload
		})
	}
	var tr *drive.Trace
	if pn := vh.Safely(func() { tr = p.Run(seed, hook) }); pn != "" || tr == nil {
		o.panicked = "driver: " + pn
		return o
	}
	ids := drive.SortedIDs(tr.Verdicts)
	var parts []string
	o.accepted = true
	recipients := 0
	for _, id := range ids {
		v := tr.Verdicts[id]
		parts = append(parts, fmt.Sprintf("%d:%s", uint64(id), v.Class))
		if v.Class == "panic" || strings.Contains(v.Detail, "PANIC") {
			o.panicked = fmt.Sprintf("party %d round %d: %s", uint64(id), v.Round, v.Detail)
		}
		// recipients: the addressee, or for a broadcast everybody else — including the aggregator
		// (id 0) of a signing run, who is the one that consumes the partial signatures
		if s != nil && id != s.from && (s.to == 0 || s.to == id) && (id != 0 || s.to == 0) {
			recipients++
			if v.Class != "ok" {
				o.accepted = false
			}
		}
	}
	if recipients == 0 {
		o.accepted = false
	}
	o.verdicts = strings.Join(parts, ",")
	return o
}

// sweepCases: honest run per protocol, then the selected damaged runs.
func sweepCases(a vh.Args) []*tcase {
	// quick tier: the protocols whose run takes well under a second, two or three damaged runs each (one
	// for the slower ones); thorough: every protocol, every damage of every message layout (24 for the
	// runs with Paillier keys, 12 for the two that take 5-16 s per run)
	quickRuns := map[string]int{"session": 1 << 20, "aor": 1 << 20, "canetti": 2, "hjky": 2, "redistribute": 1, "lindell22": 2}
	thorough := a.Tier == "thorough" || a.Search
	perProto, perHeavy := 0, 24
	var cases []*tcase
	runs := protoRuns()
	for pi := range runs {
		p := &runs[pi]
		switch {
		case !thorough:
			n, ok := quickRuns[p.Name]
			if !ok {
				continue
			}
			perProto = n
		case p.Name == "dkls23-bbot" || p.Name == "otvole-rvole-bbot":
			perProto = 12
		default:
			perProto = 1 << 30
		}
		var tr *drive.Trace
		if pn := vh.Safely(func() { tr = p.Run(a.Seed, nil) }); pn != "" || tr == nil {
			cases = append(cases, &tcase{class: "sweep-honest", sw: &sweepSlot{proto: p, typ: "msg-" + p.Name}, swNote: "honest run panicked: " + pn})
			continue
		}
		okAll := len(tr.Verdicts) > 0
		for _, v := range tr.Verdicts {
			if v.Class != "ok" {
				okAll = false
			}
		}
		if !okAll {
			cases = append(cases, &tcase{class: "sweep-honest", sw: &sweepSlot{proto: p, typ: "msg-" + p.Name}, swNote: "honest run does not complete: " + fmt.Sprint(tr.Verdicts)})
			continue
		}
		// one slot per (round, kind, first sender/recipient): the layouts, not the parties, are the subject
		seen := map[string]bool{}
		var slots []*sweepSlot
		for _, m := range tr.Messages {
			s := &sweepSlot{proto: p, round: m.Round, from: m.From, to: m.To, payload: m.Payload}
			s.typ = fmt.Sprintf("msg-%s-r%d-%s", p.Name, m.Round, s.kind())
			if seen[s.typ] {
				continue
			}
			seen[s.typ] = true
			slots = append(slots, s)
			cases = append(cases, &tcase{class: "sweep-honest", sw: s, stream: m.Payload, mut: mutation{Kind: "none"}})
		}
		type cand struct {
			s *sweepSlot
			m mutation
		}
		var all []cand
		for _, s := range slots {
			ms := missingComponentMutations(s.payload)
			if len(ms) > 40 {
				// OT / VOLE messages carry arrays of hundreds of elements: every top-level component,
				// then a seeded sample of the nested ones
				r := vh.NewRng(a.Seed, "C12", "sweep-slot/"+s.typ, 0)
				var keep, rest []mutation
				for _, m := range ms {
					if strings.Count(m.Path, "/") <= 1 {
						keep = append(keep, m)
					} else {
						rest = append(rest, m)
					}
				}
				for len(keep) < 40 && len(rest) > 0 {
					i := r.Intn(len(rest))
					keep = append(keep, rest[i])
					rest = append(rest[:i], rest[i+1:]...)
				}
				ms = keep
			}
			for _, m := range ms {
				all = append(all, cand{s, m})
			}
		}
		n := perProto
		if p.Heavy {
			n = perHeavy
		}
		if n < len(all) {
			// quick tier: every top-level component null / dropped (the c04 panics were of that kind),
			// plus n more damages chosen by the seed
			r := vh.NewRng(a.Seed, "C12", "sweep/"+p.Name, 0)
			var pick, rest []cand
			for _, c := range all {
				if (c.m.Kind == "field-null" || c.m.Kind == "field-drop") && strings.Count(c.m.Path, "/") == 1 {
					pick = append(pick, c)
				} else {
					rest = append(rest, c)
				}
			}
			for k := 0; k < n && len(rest) > 0; k++ {
				pick = append(pick, rest[r.Intn(len(rest))])
			}
			all = pick
		}
		for _, c := range all {
			cases = append(cases, &tcase{class: "sweep", sw: c.s, mut: c.m, stream: c.m.Bytes})
		}
	}
	return cases
}

func evalSweep(a vh.Args, res *vh.Result, c *tcase, verdict, arg string, mm func(kind, key, detail, what string, propfail bool)) {
	s := c.sw
	if c.class == "sweep-honest" {
		res.Count("sweep-honest:"+s.typ+":"+verdict, c.canon(), true)
		if c.swNote != "" {
			mm("corr", s.typ+"/honest-run-fails", c.swNote, "C12 protocol sweep (honest run of the driver)", false)
			return
		}
		if verdict != "valid" {
			mm("corr", s.typ+"/schema-mismatch", "an honest message is classified "+verdict+" "+arg+" by the regenerated message layouts: "+vh.Hex(c.stream), "C12 (iv) message layouts (gen/SerdeDtos.dto_groups)", false)
		}
		return
	}
	ts := time.Now()
	o := runWith(s.proto, a.Seed, s, c.stream)
	sweepSpent += time.Since(ts)
	out := "rejected"
	switch {
	case o.panicked != "":
		out = "panic"
	case !o.hit:
		out = "not-delivered"
	case o.accepted:
		out = "accepted"
	}
	res.Count("sweep:"+s.proto.Name+":"+c.mut.Kind+":"+verdict+"="+out, c.canon(), true)
	detail := fmt.Sprintf("%s at %s of the %s message of round %d from %d (verdicts %s)", c.mut.Kind, c.mut.Path, s.kind(), s.round, uint64(s.from), o.verdicts)
	switch {
	case o.panicked != "":
		mm("prop", s.typ+"/panic", "a party panics when the message is replaced on the wire: "+detail+": "+o.panicked, "C12 (i) decoding / validating arbitrary bytes never panics", true)
	case !o.hit:
		res.Distribution["sweep:not-delivered"]++
	case o.accepted:
		res.Note("sweep accepted: %s %s (model: %s %s)", s.typ, detail, verdict, arg)
		switch verdict {
		case "malformed":
			mm("corr", s.typ+"/malformed-"+arg+"-accepted", "the recipient completes the protocol although the message is a malformed container: "+detail, "C12 (iii) decode_rejects_malformed", true)
		case "unknown-field":
			mm("corr", s.typ+"/unknown-field-accepted", "the recipient completes the protocol although the message carries an unknown field: "+detail, "C12 (iii) unknown_field_rejected", true)
		case "invalid":
			mm("prop", s.typ+"/missing-component-accepted", "the recipient completes the protocol although a declared component of the message is missing: "+detail, "C12 decoding validates like construction: a message with a missing component is refused by the decoder or by Validate", true)
		default:
			// shape changes (an emptied array, a shortened list) that the model has no rule for, and
			// payloads too large to hand to the model: the expectation REJECT still stands for a
			// removed component
			if c.mut.Kind == "array-empty" || c.mut.Kind == "element-null" || c.mut.Kind == "bytes-empty" ||
				(verdict == "" && (c.mut.Kind == "field-null" || c.mut.Kind == "field-drop") && strings.Count(c.mut.Path, "/") == 1) {
				mm("prop", s.typ+"/missing-component-accepted", "the recipient completes the protocol although a component was emptied: "+detail, "C12 decoding validates like construction: a message with a missing component is refused by the decoder or by Validate", true)
			}
		}
	}
}
