package main

import (
	"bytes"
	"fmt"
	"io"
	"math/big"
	"os"
	"runtime"
	"slices"
	"sync"

	"github.com/bronlabs/bron-crypto/pkg/base/algebra"
	"github.com/bronlabs/bron-crypto/pkg/base/curves/edwards25519"
	"github.com/bronlabs/bron-crypto/pkg/base/curves/k256"
	"github.com/bronlabs/bron-crypto/pkg/base/curves/p256"
	"github.com/bronlabs/bron-crypto/pkg/base/curves/pairable/bls12381"
	ds "github.com/bronlabs/bron-crypto/pkg/base/datastructures"
	"github.com/bronlabs/bron-crypto/pkg/base/datastructures/hashmap"
	"github.com/bronlabs/bron-crypto/pkg/base/datastructures/hashset"
	"github.com/bronlabs/bron-crypto/pkg/base/mat"
	"github.com/bronlabs/bron-crypto/pkg/base/nt/num"
	"github.com/bronlabs/bron-crypto/pkg/base/polynomials"
	"github.com/bronlabs/bron-crypto/pkg/base/serde"
	"github.com/bronlabs/bron-crypto/pkg/commitments"
	"github.com/bronlabs/bron-crypto/pkg/commitments/hashcom"
	"github.com/bronlabs/bron-crypto/pkg/commitments/pedersencom"
	"github.com/bronlabs/bron-crypto/pkg/mpc"
	"github.com/bronlabs/bron-crypto/pkg/mpc/dkg/gennaro"
	"github.com/bronlabs/bron-crypto/pkg/mpc/dkg/trusteddealer"
	"github.com/bronlabs/bron-crypto/pkg/mpc/session"
	"github.com/bronlabs/bron-crypto/pkg/mpc/sharing"
	"github.com/bronlabs/bron-crypto/pkg/mpc/sharing/accessstructures"
	"github.com/bronlabs/bron-crypto/pkg/mpc/sharing/accessstructures/boolexpr"
	"github.com/bronlabs/bron-crypto/pkg/mpc/sharing/accessstructures/cnf"
	"github.com/bronlabs/bron-crypto/pkg/mpc/sharing/accessstructures/hierarchical"
	"github.com/bronlabs/bron-crypto/pkg/mpc/sharing/accessstructures/threshold"
	"github.com/bronlabs/bron-crypto/pkg/mpc/sharing/accessstructures/unanimity"
	"github.com/bronlabs/bron-crypto/pkg/mpc/sharing/scheme/kw"
	"github.com/bronlabs/bron-crypto/pkg/mpc/sharing/scheme/kw/msp"
	"github.com/bronlabs/bron-crypto/pkg/mpc/sharing/vss/feldman"
	"github.com/bronlabs/bron-crypto/pkg/mpc/sharing/vss/pedersen"
	"github.com/bronlabs/bron-crypto/pkg/mpc/signatures/ecdsa/dkls23"
	mpcschnorr "github.com/bronlabs/bron-crypto/pkg/mpc/signatures/schnorr"
	"github.com/bronlabs/bron-crypto/pkg/mpc/zero/hjky"
	"github.com/bronlabs/bron-crypto/pkg/proofs/dlog/schnorr"
	"github.com/bronlabs/bron-crypto/pkg/proofs/sigma/compiler/fiatshamir"
	"github.com/bronlabs/bron-crypto/pkg/proofs/sigma/compiler/fiatshamir/zkmodule"
	"github.com/bronlabs/bron-crypto/pkg/signatures/ecdsa"
	"verif/harness/internal/vh"
)

// ---- plumbing -------------------------------------------------------------------

type ID = sharing.ID

type builder struct {
	seed int64
	reps int // number of random variants per "random" family (1 quick, 5 thorough)
	out  []Sample
}

func (b *builder) rng(stream string, idx int) *vh.Rng { return vh.NewRng(b.seed, "C12", stream, idx) }

func sampleError(typ string, err any) { fmt.Fprintf(os.Stderr, "SAMPLE-ERROR %s: %v\n", typ, err) }

// put wraps v with mk and appends it; construction errors and panics are reported, never hidden.
func put[T any](b *builder, typ, desc string, v T, eq func(x, y T) bool, facts func(v T) string) {
	if isNilValue(any(v)) {
		sampleError(typ, desc+": constructed value is nil")
		return
	}
	if _, ok := any(v).(accessStructure); ok && facts == nil {
		// access structures: validity on the public accessors + canonical encoding (asfacts.go)
		facts = func(x T) string { return accessFacts(any(x)) }
	}
	var s Sample
	var err error
	if p := vh.Safely(func() { s, err = mk(typ, desc, v, eq, facts) }); p != "" {
		sampleError(typ, desc+": panic in marshal: "+p)
		return
	}
	if err != nil {
		sampleError(typ, fmt.Sprintf("%s: %v", desc, err))
		return
	}
	b.out = append(b.out, s)
}

// putE is put for a (value, error) constructor result.
func putE[T any](b *builder, typ, desc string, v T, err error, eq func(x, y T) bool) {
	if err != nil {
		sampleError(typ, fmt.Sprintf("%s: %v", desc, err))
		return
	}
	put(b, typ, desc, v, eq, nil)
}

// group runs one family of constructions; a panic inside is reported and the rest goes on.
func (b *builder) group(name string, f func()) {
	if p := vh.Safely(f); p != "" {
		sampleError(name, "panic while building: "+p)
	}
}

func idset(ids ...uint64) ds.Set[ID] {
	xs := make([]ID, len(ids))
	for i, x := range ids {
		xs[i] = ID(x)
	}
	return hashset.NewComparable(xs...).Freeze()
}

func toIDs(ids ...uint64) []ID {
	xs := make([]ID, len(ids))
	for i, x := range ids {
		xs[i] = ID(x)
	}
	return xs
}

func sortedIDs(s ds.Set[ID]) []ID {
	xs := s.List()
	slices.Sort(xs)
	return xs
}

// cborEq is the equality used for types that have no Equal method: same canonical encoding.
func cborEq[T any](x, y T) bool {
	bx, ex := serde.MarshalCBOR(x)
	by, ey := serde.MarshalCBOR(y)
	return ex == nil && ey == nil && bytes.Equal(bx, by)
}

// randIDs draws n distinct non-zero IDs whose magnitudes exercise all CBOR integer heads.
func randIDs(r *vh.Rng, n int) []uint64 {
	seen := map[uint64]bool{}
	var out []uint64
	for len(out) < n {
		var x uint64
		switch r.Intn(6) {
		case 0:
			x = 1 + uint64(r.Intn(23))
		case 1:
			x = 24 + uint64(r.Intn(232))
		case 2:
			x = 256 + uint64(r.Intn(65280))
		case 3:
			x = 65536 + r.Uint64()%(1<<32-65536)
		case 4:
			x = 1<<32 + r.Uint64()%(1<<40)
		default:
			x = r.Uint64() | 1<<63
		}
		if x != 0 && !seen[x] {
			seen[x] = true
			out = append(out, x)
		}
	}
	return out
}

// ---- 1. access structures ---------------------------------------------------------

func eqThreshold(x, y *threshold.Threshold) bool { return x.Equal(y) }
func eqUnanimity(x, y *unanimity.Unanimity) bool { return x.Equal(y) }

// CNF has no Equal method: same shareholders and the same family of maximal unqualified sets.
func eqCNF(x, y *cnf.CNF) bool {
	if !x.Shareholders().Equal(y.Shareholders()) {
		return false
	}
	xs, ys := slices.Collect(x.MaximalUnqualifiedSetsIter()), slices.Collect(y.MaximalUnqualifiedSetsIter())
	if len(xs) != len(ys) {
		return false
	}
	for _, s := range xs {
		if !slices.ContainsFunc(ys, func(t ds.Set[ID]) bool { return s.Equal(t) }) {
			return false
		}
	}
	return true
}

// Hierarchical has no Equal method: same number of levels, thresholds and per-level party sets.
func eqHier(x, y *hierarchical.HierarchicalConjunctiveThreshold) bool {
	lx, ly := x.Levels(), y.Levels()
	if len(lx) != len(ly) {
		return false
	}
	for i := range lx {
		if lx[i].Threshold() != ly[i].Threshold() || !lx[i].Shareholders().Equal(ly[i].Shareholders()) {
			return false
		}
	}
	return true
}

// The gate tree has no accessors: same shareholders and same canonical encoding.
func eqBoolExpr(x, y *boolexpr.ThresholdGateAccessStructure) bool {
	return x.Shareholders().Equal(y.Shareholders()) && cborEq(x, y)
}

func mkThreshold(t uint, ids ...uint64) (*threshold.Threshold, error) {
	return threshold.NewThresholdAccessStructure(t, idset(ids...))
}

func mkCNF(sets ...[]uint64) (*cnf.CNF, error) {
	ss := make([]ds.Set[ID], len(sets))
	for i, s := range sets {
		ss[i] = idset(s...)
	}
	return cnf.NewCNFAccessStructure(ss...)
}

type hlevel struct {
	t   int
	ids []uint64
}

type levelView struct {
	Threshold int      `cbor:"threshold"`
	Parties   []uint64 `cbor:"parties"`
}

// mkHier builds a hierarchical access structure. The library stores each level's parties in Go
// map iteration order, so the construction is repeated until every level comes out in ascending
// order: the sample bytes are then the same on every run.
func mkHier(levels ...hlevel) (*hierarchical.HierarchicalConjunctiveThreshold, error) {
	var h *hierarchical.HierarchicalConjunctiveThreshold
	var err error
	for try := 0; try < 4096; try++ {
		ls := make([]*hierarchical.ThresholdLevel, len(levels))
		for i, l := range levels {
			ids := slices.Clone(l.ids)
			slices.Sort(ids)
			ls[i] = hierarchical.WithLevel(l.t, toIDs(ids...)...)
		}
		h, err = hierarchical.NewHierarchicalConjunctiveThresholdAccessStructure(ls...)
		if err != nil {
			return nil, err
		}
		sorted := true
		for _, l := range h.Levels() {
			lb, e := serde.MarshalCBOR(l)
			if e != nil {
				return h, nil
			}
			v, e := serde.UnmarshalCBOR[levelView](lb)
			if e != nil {
				return h, nil
			}
			sorted = sorted && slices.IsSorted(v.Parties)
		}
		if sorted {
			return h, nil
		}
	}
	return h, nil
}

func bid(x uint64) *boolexpr.Node { return boolexpr.ID(ID(x)) }

func mkBool(root *boolexpr.Node) (*boolexpr.ThresholdGateAccessStructure, error) {
	return boolexpr.NewThresholdGateAccessStructure(root)
}

const (
	two32 = uint64(1) << 32
	two63 = uint64(1) << 63
	max64 = ^uint64(0)
)

func (b *builder) accessStructures() {
	b.group("threshold", func() {
		add := func(desc string, t uint, ids ...uint64) {
			v, err := mkThreshold(t, ids...)
			putE(b, "threshold", desc, v, err, eqThreshold)
		}
		add("2-of-{1,2,3}", 2, 1, 2, 3)
		add("2-of-{1,2} boundary", 2, 1, 2)
		add("3-of-{1,2,3} t=n", 3, 1, 2, 3)
		add("5-of-{1..5} t=n", 5, 1, 2, 3, 4, 5)
		add("2-of-{19,3,7} sparse unsorted", 2, 19, 3, 7)
		add("2-of-{23,24,25} head boundary", 2, 23, 24, 25)
		add("3-of-{255,256,65535,65536}", 3, 255, 256, 65535, 65536)
		add("2-of-{2^32-1,2^32,2^63,2^64-1}", 2, two32-1, two32, two63, max64)
		add("24-of-{1..30} big t", 24, seq(1, 30)...)
		for i := 0; i < 2*b.reps; i++ {
			r := b.rng("threshold", i)
			n := 3 + r.Intn(3)
			t := 2 + r.Intn(n-1)
			add(fmt.Sprintf("random#%d %d-of-%d", i, t, n), uint(t), randIDs(r, n)...)
		}
	})
	b.group("unanimity", func() {
		add := func(desc string, ids ...uint64) {
			v, err := unanimity.NewUnanimityAccessStructure(idset(ids...))
			putE(b, "unanimity", desc, v, err, eqUnanimity)
		}
		add("{1,2}", 1, 2)
		add("{1,2,3}", 1, 2, 3)
		add("{19,3,7} sparse unsorted", 19, 3, 7)
		add("{23,24,255,256}", 23, 24, 255, 256)
		add("{65535,65536,2^32-1,2^32}", 65535, 65536, two32-1, two32)
		add("{2^63,2^64-1,1}", two63, max64, 1)
		for i := 0; i < 2*b.reps; i++ {
			r := b.rng("unanimity", i)
			n := 2 + r.Intn(4)
			add(fmt.Sprintf("random#%d n=%d", i, n), randIDs(r, n)...)
		}
	})
	b.group("cnf", func() {
		add := func(desc string, sets ...[]uint64) {
			v, err := mkCNF(sets...)
			putE(b, "cnf", desc, v, err, eqCNF)
		}
		add("{1,2},{3}", []uint64{1, 2}, []uint64{3})
		add("{1},{2},{3} (2-of-3)", []uint64{1}, []uint64{2}, []uint64{3})
		add("{1,2},{2,3},{1,3} (3-of-3)", []uint64{1, 2}, []uint64{2, 3}, []uint64{1, 3})
		add("{1,2,3},{3,4},{1,4}", []uint64{1, 2, 3}, []uint64{3, 4}, []uint64{1, 4})
		add("{7,19},{3}, sparse unsorted", []uint64{19, 7}, []uint64{3})
		add("{23,24},{24,256},{23,256}", []uint64{23, 24}, []uint64{24, 256}, []uint64{23, 256})
		add("{65536,2^32},{255}", []uint64{65536, two32}, []uint64{255})
		add("{2^63},{2^64-1,1},{2^32}", []uint64{two63}, []uint64{max64, 1}, []uint64{two32})
		add("with non-maximal and duplicate sets", []uint64{1, 2}, []uint64{1}, []uint64{2, 1}, []uint64{3, 4})
		// cnf.ConvertToCNF keeps the (map-ordered) enumeration order of the source structure, so the
		// maximal unqualified sets are collected and sorted here before building the CNF.
		th, err := mkThreshold(3, 1, 2, 3, 4)
		if err == nil {
			var mus [][]uint64
			for s := range th.MaximalUnqualifiedSetsIter() {
				var xs []uint64
				for _, id := range sortedIDs(s) {
					xs = append(xs, uint64(id))
				}
				mus = append(mus, xs)
			}
			slices.SortFunc(mus, func(x, y []uint64) int { return slices.Compare(x, y) })
			add("maximal unqualified sets of 3-of-{1,2,3,4}", mus...)
		}
		for i := 0; i < 2*b.reps; i++ {
			r := b.rng("cnf", i)
			n := 3 + r.Intn(3)
			ids := randIDs(r, n)
			k := 2 + r.Intn(2)
			sets := make([][]uint64, k)
			for j := range sets {
				for _, id := range ids {
					if r.Chance(1, 2) {
						sets[j] = append(sets[j], id)
					}
				}
				if len(sets[j]) == 0 {
					sets[j] = []uint64{ids[j%n]}
				}
			}
			// make sure every shareholder is used so that the universe has >= 2 members
			sets[0] = append(sets[0], ids[0])
			sets[1] = append(sets[1], ids[1])
			add(fmt.Sprintf("random#%d n=%d sets=%d", i, n, k), sets...)
		}
	})
	b.group("hierarchical", func() {
		add := func(desc string, levels ...hlevel) {
			v, err := mkHier(levels...)
			putE(b, "hierarchical", desc, v, err, eqHier)
		}
		add("1 level 2-of-{1,2,3}", hlevel{2, []uint64{1, 2, 3}})
		add("1 level 1-of-{5}", hlevel{1, []uint64{5}})
		add("2 levels (1;{1}) (3;{2,3,4})", hlevel{1, []uint64{1}}, hlevel{3, []uint64{2, 3, 4}})
		add("2 levels (2;{1,2}) (3;{3})", hlevel{2, []uint64{1, 2}}, hlevel{3, []uint64{3}})
		add("3 levels (1;{10}) (2;{20,30}) (4;{40,50,60})", hlevel{1, []uint64{10}}, hlevel{2, []uint64{20, 30}}, hlevel{4, []uint64{40, 50, 60}})
		add("3 levels single parties 23,24,256", hlevel{1, []uint64{23}}, hlevel{2, []uint64{24}}, hlevel{3, []uint64{256}})
		add("2 levels (1;{255,65536}) (2;{2^32,2^63})", hlevel{1, []uint64{255, 65536}}, hlevel{2, []uint64{two32, two63}})
		add("2 levels descending ids (1;{2^64-1}) (2;{7,3})", hlevel{1, []uint64{max64}}, hlevel{2, []uint64{7, 3}})
		for i := 0; i < 2*b.reps; i++ {
			r := b.rng("hierarchical", i)
			nl := 1 + r.Intn(3)
			ids := randIDs(r, 2*nl)
			slices.Sort(ids)
			var ls []hlevel
			t := 0
			for l := 0; l < nl; l++ {
				t += 1 + r.Intn(2)
				ls = append(ls, hlevel{t, ids[2*l : 2*l+2]})
			}
			add(fmt.Sprintf("random#%d levels=%d", i, nl), ls...)
		}
	})
	b.group("boolexpr", func() {
		add := func(desc string, root *boolexpr.Node) {
			v, err := mkBool(root)
			putE(b, "boolexpr", desc, v, err, eqBoolExpr)
		}
		add("depth1 Threshold(2;1,2,3)", boolexpr.Threshold(2, bid(1), bid(2), bid(3)))
		add("depth1 And(1,2)", boolexpr.And(bid(1), bid(2)))
		add("depth1 Or(5,300)", boolexpr.Or(bid(5), bid(300)))
		add("depth0 single leaf ID(7)", bid(7))
		add("depth2 And(Or(1,2),Threshold(2;3,4,5))", boolexpr.And(boolexpr.Or(bid(1), bid(2)), boolexpr.Threshold(2, bid(3), bid(4), bid(5))))
		add("depth2 Or(And(23,24),And(255,256))", boolexpr.Or(boolexpr.And(bid(23), bid(24)), boolexpr.And(bid(255), bid(256))))
		add("depth3 mixed big ids", boolexpr.Or(
			boolexpr.And(bid(1), boolexpr.Or(bid(2), bid(3))),
			boolexpr.Threshold(2, bid(4), bid(two32), boolexpr.And(bid(24), bid(65536))),
		))
		add("depth3 repeated id in different gates", boolexpr.Threshold(2,
			boolexpr.And(bid(1), bid(two63)),
			boolexpr.Or(bid(1), boolexpr.And(bid(2), bid(max64))),
			bid(9),
		))
		for i := 0; i < 2*b.reps; i++ {
			r := b.rng("boolexpr", i)
			ids := randIDs(r, 12)
			next := 0
			var gen func(depth int) *boolexpr.Node
			gen = func(depth int) *boolexpr.Node {
				if depth == 0 || (depth < 3 && r.Chance(1, 3)) || next > 8 {
					next++
					return bid(ids[(next-1)%len(ids)])
				}
				n := 2 + r.Intn(2)
				ch := make([]*boolexpr.Node, n)
				for j := range ch {
					ch[j] = gen(depth - 1)
				}
				return boolexpr.Threshold(1+r.Intn(n), ch...)
			}
			d := 1 + r.Intn(3)
			add(fmt.Sprintf("random#%d depth<=%d", i, d), gen(d))
		}
	})
}

func seq(lo, hi uint64) []uint64 {
	var xs []uint64
	for x := lo; x <= hi; x++ {
		xs = append(xs, x)
	}
	return xs
}

// namedAC is an access structure used as input for the sharing-based families.
type namedAC struct {
	name string
	ac   accessstructures.Monotone
}

// sharingACs is the list of access structures the MSP / share / shard families are induced from.
func sharingACs() []namedAC {
	var out []namedAC
	add := func(name string, ac accessstructures.Monotone, err error) {
		if err != nil {
			sampleError("access-structure-input", name+": "+err.Error())
			return
		}
		out = append(out, namedAC{name, ac})
	}
	t1, e := mkThreshold(2, 1, 2, 3)
	add("threshold 2-of-{1,2,3}", t1, e)
	t2, e := mkThreshold(3, 24, 256, 65536, two32)
	add("threshold 3-of-{24,256,65536,2^32}", t2, e)
	c1, e := mkCNF([]uint64{1, 2}, []uint64{2, 3}, []uint64{1, 3, 4})
	add("cnf {1,2},{2,3},{1,3,4}", c1, e)
	c2, e := mkCNF([]uint64{300, 7}, []uint64{two32})
	add("cnf {7,300},{2^32}", c2, e)
	h1, e := mkHier(hlevel{1, []uint64{1, 2}}, hlevel{3, []uint64{3, 4, 5}})
	add("hierarchical (1;{1,2}) (3;{3,4,5})", h1, e)
	b1, e := mkBool(boolexpr.And(boolexpr.Or(bid(1), bid(2)), boolexpr.Threshold(2, bid(3), bid(4), bid(300))))
	add("boolexpr And(Or(1,2),Threshold(2;3,4,300))", b1, e)
	u1, e := unanimity.NewUnanimityAccessStructure(idset(1, 2, 3))
	add("unanimity {1,2,3}", u1, e)
	return out
}

// ---- 2..6: generic in the group ---------------------------------------------------------

func eqMSP[S algebra.PrimeFieldElement[S]](x, y *msp.MSP[S]) bool             { return x.Equal(y) }
func eqKW[S algebra.PrimeFieldElement[S]](x, y *kw.Share[S]) bool             { return x.Equal(y) }
func eqPedShare[S algebra.PrimeFieldElement[S]](x, y *pedersen.Share[S]) bool { return x.Equal(y) }

func mspSamples[S algebra.PrimeFieldElement[S]](b *builder, sfx string, f algebra.PrimeField[S]) {
	typ := "msp-" + sfx
	b.group(typ, func() {
		for _, in := range sharingACs() {
			m, err := accessstructures.InducedMSP(f, in.ac)
			putE(b, typ, "induced by "+in.name, m, err, eqMSP[S])
		}
	})
}

func kwSamples[S algebra.PrimeFieldElement[S]](b *builder, sfx string, f algebra.PrimeField[S]) {
	typ := "kwshare-" + sfx
	b.group(typ, func() {
		acs := sharingACs()
		for k, in := range acs {
			for rep := 0; rep < b.reps; rep++ {
				sch, err := kw.NewScheme(f, in.ac)
				if err != nil {
					sampleError(typ, in.name+": "+err.Error())
					continue
				}
				out, _, err := sch.DealRandom(b.rng(typ, k*100+rep))
				if err != nil {
					sampleError(typ, in.name+": "+err.Error())
					continue
				}
				ids := sortedIDs(in.ac.Shareholders())
				if k >= 2 && len(ids) > 2 { // keep the list short: two holders for the later structures
					ids = ids[:2]
				}
				for _, id := range ids {
					sh, _ := out.Shares().Get(id)
					put(b, typ, fmt.Sprintf("deal#%d %s holder %d", rep, in.name, id), sh, eqKW[S], nil)
				}
			}
		}
		r := b.rng(typ+"/manual", 0)
		x, _ := f.Random(r)
		v, err := kw.NewShare(ID(max64), f.Zero(), f.One(), f.One().Neg(), x)
		putE(b, typ, "NewShare(2^64-1; 0,1,q-1,random)", v, err, eqKW[S])
		v, err = kw.NewShare(ID(1), f.Zero())
		putE(b, typ, "NewShare(1; 0)", v, err, eqKW[S])
	})
}

func feldmanSamples[G algebra.PrimeGroupElement[G, S], S algebra.PrimeFieldElement[S]](b *builder, sfx string, group algebra.PrimeGroup[G, S], withShares bool) {
	vvTyp := "feldmanvv-" + sfx
	b.group(vvTyp, func() {
		for k, in := range sharingACs() {
			for rep := 0; rep < b.reps; rep++ {
				sch, err := feldman.NewScheme(group, in.ac)
				if err != nil {
					sampleError(vvTyp, in.name+": "+err.Error())
					continue
				}
				out, _, err := sch.DealRandom(b.rng(vvTyp, k*100+rep))
				if err != nil {
					sampleError(vvTyp, in.name+": "+err.Error())
					continue
				}
				put(b, vvTyp, fmt.Sprintf("deal#%d %s", rep, in.name), out.VerificationMaterial(),
					func(x, y *feldman.VerificationVector[G, S]) bool { return x.Equal(y) }, nil)
				if !withShares || k > 2 {
					continue
				}
				for _, id := range sortedIDs(in.ac.Shareholders()) {
					sh, _ := out.Shares().Get(id)
					put(b, "feldmanshare-"+sfx, fmt.Sprintf("deal#%d %s holder %d", rep, in.name, id), sh, eqKW[S], nil)
					ls, err := feldman.LiftShare(sh, group.Generator())
					putE(b, "feldmanlifted-"+sfx, fmt.Sprintf("deal#%d %s holder %d lifted", rep, in.name, id), ls, err,
						func(x, y *feldman.LiftedShare[G, S]) bool { return x.Equal(y) })
				}
			}
		}
		if withShares {
			ls, err := feldman.NewLiftedShare[G, S](ID(two32), group.Generator(), group.OpIdentity())
			putE(b, "feldmanlifted-"+sfx, "NewLiftedShare(2^32; G, identity)", ls, err,
				func(x, y *feldman.LiftedShare[G, S]) bool { return x.Equal(y) })
		}
	})
}

func pedersenSamples[G algebra.PrimeGroupElement[G, S], S algebra.PrimeFieldElement[S]](b *builder, sfx string, group algebra.PrimeGroup[G, S]) {
	typ := "pedersenvv-" + sfx
	b.group(typ, func() {
		key, err := pedersencom.SampleCommitmentKey(group, b.rng(typ+"/key", 0))
		if err != nil {
			sampleError(typ, "key: "+err.Error())
			return
		}
		for k, in := range sharingACs() {
			if k > 3 {
				break
			}
			for rep := 0; rep < b.reps; rep++ {
				sch, err := pedersen.NewScheme(key, in.ac)
				if err != nil {
					sampleError(typ, in.name+": "+err.Error())
					continue
				}
				out, _, err := sch.DealRandom(b.rng(typ, k*100+rep))
				if err != nil {
					sampleError(typ, in.name+": "+err.Error())
					continue
				}
				put(b, typ, fmt.Sprintf("deal#%d %s", rep, in.name), out.VerificationMaterial(),
					func(x, y *pedersen.VerificationVector[G, S]) bool { return x.Equal(y) }, nil)
				ids := sortedIDs(in.ac.Shareholders())
				if len(ids) > 2 {
					ids = ids[:2]
				}
				for _, id := range ids {
					sh, _ := out.Shares().Get(id)
					put(b, "pedersenshare-"+sfx, fmt.Sprintf("deal#%d %s holder %d", rep, in.name, id), sh, eqPedShare[S], nil)
					ls, err := pedersen.LiftShare(sh, key)
					putE(b, "pedersenlifted-"+sfx, fmt.Sprintf("deal#%d %s holder %d lifted", rep, in.name, id), ls, err,
						func(x, y *pedersen.LiftedShare[G, S]) bool { return x.Equal(y) })
				}
			}
		}
	})
}

// shardFacts recomputes, through the public API only, the check mpc.NewBaseShard makes: the lift
// of the private share must be the public key share the shard derives for the share's holder.
func shardFacts[G algebra.PrimeGroupElement[G, S], S algebra.PrimeFieldElement[S]](group algebra.PrimeGroup[G, S]) func(*mpc.BaseShard[G, S]) string {
	return func(sh *mpc.BaseShard[G, S]) string {
		share := sh.Share()
		if share == nil || sh.PublicKeyShares() == nil {
			return "sharematch=0"
		}
		lifted, err := feldman.LiftShare(share, group.Generator())
		if err != nil {
			return "sharematch=0"
		}
		pks, ok := sh.PublicKeyShares().Get(share.ID())
		if !ok || pks == nil || !lifted.Equal(pks) {
			return "sharematch=0"
		}
		return "sharematch=1"
	}
}

func shardSamples[G algebra.PrimeGroupElement[G, S], S algebra.PrimeFieldElement[S]](b *builder, sfx string, group algebra.PrimeGroup[G, S], withPublic bool) {
	typ := "baseshard-" + sfx
	b.group(typ, func() {
		acs := sharingACs()
		for k, in := range acs {
			if k > 3 { // threshold x2, cnf x2
				break
			}
			for rep := 0; rep < b.reps; rep++ {
				shards, err := trusteddealer.Deal(group, in.ac, io.Reader(b.rng(typ, k*100+rep)))
				if err != nil {
					sampleError(typ, in.name+": "+err.Error())
					continue
				}
				var first *mpc.BaseShard[G, S]
				for _, id := range sortedIDs(in.ac.Shareholders()) {
					sh, ok := shards.Get(id)
					if !ok {
						sampleError(typ, fmt.Sprintf("%s: no shard for %d", in.name, id))
						continue
					}
					if first == nil {
						first = sh
					}
					put(b, typ, fmt.Sprintf("deal#%d %s holder %d", rep, in.name, id), sh,
						func(x, y *mpc.BaseShard[G, S]) bool { return x.Equal(y) }, shardFacts(group))
				}
				if withPublic && first != nil {
					pm, err := mpc.NewBasePublicMaterial(first.MSP(), first.VerificationVector())
					putE(b, "basepublic-"+sfx, fmt.Sprintf("deal#%d %s", rep, in.name), pm, err,
						func(x, y *mpc.BasePublicMaterial[G, S]) bool { return x.Equal(y) })
				}
			}
		}
	})
}

// ---- 7. ECDSA signatures ------------------------------------------------------------------

func (b *builder) ecdsaSigs() {
	typ := "ecdsasig-k256"
	b.group(typ, func() {
		f := k256.NewScalarField()
		eq := func(x, y *ecdsa.Signature[*k256.Scalar]) bool { return x.Equal(y) }
		nz := func(r *vh.Rng) *k256.Scalar {
			for {
				x, err := f.Random(r)
				if err == nil && !x.IsZero() {
					return x
				}
			}
		}
		for i := 0; i < 4*b.reps; i++ {
			r := b.rng(typ, i)
			v := i % 4
			sig, err := ecdsa.NewSignature(nz(r), nz(r), &v)
			putE(b, typ, fmt.Sprintf("random#%d v=%d", i, v), sig, err, eq)
		}
		r := b.rng(typ+"/nov", 0)
		sig, err := ecdsa.NewSignature(nz(r), nz(r), nil)
		putE(b, typ, "random v=nil", sig, err, eq)
		v0 := 0
		sig, err = ecdsa.NewSignature(f.One(), f.One().Neg(), &v0)
		putE(b, typ, "r=1 s=q-1 v=0", sig, err, eq)
		v3 := 3
		sig, err = ecdsa.NewSignature(f.One().Neg(), f.One(), &v3)
		putE(b, typ, "r=q-1 s=1 v=3", sig, err, eq)
	})
}

// ---- 8. matrices -------------------------------------------------------------------------------

func (b *builder) matrices() {
	f := k256.NewScalarField()
	curve := k256.NewCurve()
	eqM := func(x, y *mat.Matrix[*k256.Scalar]) bool { return x.Equal(y) }
	eqS := func(x, y *mat.SquareMatrix[*k256.Scalar]) bool { return x.Equal(y) }
	eqV := func(x, y *mat.ModuleValuedMatrix[*k256.Point, *k256.Scalar]) bool { return x.Equal(y) }
	b.group("matrix-k256", func() {
		shapes := [][2]uint{{1, 1}, {2, 3}, {3, 2}, {1, 4}, {4, 1}}
		for k, sh := range shapes {
			mod, err := mat.NewMatrixModule(sh[0], sh[1], f)
			if err != nil {
				sampleError("matrix-k256", err)
				continue
			}
			for rep := 0; rep < b.reps; rep++ {
				m, err := mod.Random(b.rng("matrix-k256", k*100+rep))
				putE(b, "matrix-k256", fmt.Sprintf("random#%d %dx%d", rep, sh[0], sh[1]), m, err, eqM)
				if err == nil && k < 3 {
					lm, err := mat.Lift(m, curve.Generator())
					putE(b, "mvmatrix-k256", fmt.Sprintf("Lift(random#%d %dx%d, G)", rep, sh[0], sh[1]), lm, err, eqV)
				}
			}
		}
		mod, err := mat.NewMatrixModule(2, 2, f)
		if err == nil {
			m, err := mod.New([][]*k256.Scalar{{f.Zero(), f.One()}, {f.One().Neg(), f.FromUint64(256)}})
			putE(b, "matrix-k256", "2x2 [0 1; q-1 256]", m, err, eqM)
			if err == nil {
				lm, err := mat.Lift(m, curve.Generator())
				putE(b, "mvmatrix-k256", "Lift(2x2 [0 1; q-1 256], G) (has identity entry)", lm, err, eqV)
			}
		}
	})
	b.group("sqmatrix-k256", func() {
		for n := uint(1); n <= 3; n++ {
			alg, err := mat.NewMatrixAlgebra(n, f)
			if err != nil {
				sampleError("sqmatrix-k256", err)
				continue
			}
			put(b, "sqmatrix-k256", fmt.Sprintf("identity %dx%d", n, n), alg.Identity(), eqS, nil)
			for rep := 0; rep < b.reps; rep++ {
				m, err := alg.Random(b.rng("sqmatrix-k256", int(n)*100+rep))
				putE(b, "sqmatrix-k256", fmt.Sprintf("random#%d %dx%d", rep, n, n), m, err, eqS)
			}
		}
	})
}

// ---- 9. numbers -----------------------------------------------------------------------------------

func (b *builder) numbers() {
	two64 := new(big.Int).Lsh(big.NewInt(1), 64)
	b.group("nat", func() {
		eq := func(x, y *num.Nat) bool { return x.Equal(y) }
		for _, x := range []uint64{0, 1, 23, 24, 255, 256, 65535, 65536, max64} {
			put(b, "nat", fmt.Sprintf("FromUint64(%d)", x), num.N().FromUint64(x), eq, nil)
		}
		v, err := num.N().FromBig(two64)
		putE(b, "nat", "2^64", v, err, eq)
		for i := 0; i < 2*b.reps; i++ {
			x := b.rng("nat", i).BigBits(300)
			x.SetBit(x, 299, 1)
			v, err := num.N().FromBig(x)
			putE(b, "nat", fmt.Sprintf("random#%d 300-bit", i), v, err, eq)
		}
	})
	b.group("int", func() {
		eq := func(x, y *num.Int) bool { return x.Equal(y) }
		for _, x := range []int64{0, -1, 1, -24, -25, 255, -256, 256, -1 << 63, 1<<63 - 1} {
			put(b, "int", fmt.Sprintf("FromInt64(%d)", x), num.Z().FromInt64(x), eq, nil)
		}
		v, err := num.Z().FromBig(two64)
		putE(b, "int", "2^64", v, err, eq)
		v, err = num.Z().FromBig(new(big.Int).Neg(two64))
		putE(b, "int", "-2^64", v, err, eq)
		for i := 0; i < 2*b.reps; i++ {
			x := b.rng("int", i).BigBits(300)
			x.SetBit(x, 299, 1)
			v, err := num.Z().FromBig(x)
			putE(b, "int", fmt.Sprintf("random#%d +300-bit", i), v, err, eq)
			y := b.rng("int/neg", i).BigBits(257)
			y.SetBit(y, 256, 1)
			v, err = num.Z().FromBig(y.Neg(y))
			putE(b, "int", fmt.Sprintf("random#%d -257-bit", i), v, err, eq)
		}
	})
	b.group("natplus", func() {
		eq := func(x, y *num.NatPlus) bool { return x.Equal(y) }
		for _, x := range []uint64{1, 2, 24, 255, 256, 65536, max64} {
			v, err := num.NPlus().FromUint64(x)
			putE(b, "natplus", fmt.Sprintf("FromUint64(%d)", x), v, err, eq)
		}
		v, err := num.NPlus().FromBig(two64)
		putE(b, "natplus", "2^64", v, err, eq)
		for i := 0; i < 2*b.reps; i++ {
			x := b.rng("natplus", i).BigBits(300)
			x.SetBit(x, 299, 1)
			v, err := num.NPlus().FromBig(x)
			putE(b, "natplus", fmt.Sprintf("random#%d 300-bit", i), v, err, eq)
		}
	})
}

// ---- 10. curve elements ---------------------------------------------------------------------------

func scalarSamples[S interface {
	Equal(S) bool
	Neg() S
}](b *builder, typ string, zero, one S, fromU64 func(uint64) S, random func(io.Reader) (S, error)) {
	b.group(typ, func() {
		eq := func(x, y S) bool { return x.Equal(y) }
		put(b, typ, "zero", zero, eq, nil)
		put(b, typ, "one", one, eq, nil)
		put(b, typ, "q-1", one.Neg(), eq, nil)
		put(b, typ, "256", fromU64(256), eq, nil)
		put(b, typ, "2^64-1", fromU64(max64), eq, nil)
		for i := 0; i < 2*b.reps; i++ {
			v, err := random(b.rng(typ, i))
			putE(b, typ, fmt.Sprintf("random#%d", i), v, err, eq)
		}
	})
}

func pointSamples[P interface {
	Equal(P) bool
	Neg() P
	Double() P
}](b *builder, typ string, gen, identity P, random func(io.Reader) (P, error)) {
	b.group(typ, func() {
		eq := func(x, y P) bool { return x.Equal(y) }
		put(b, typ, "generator", gen, eq, nil)
		put(b, typ, "identity", identity, eq, nil)
		put(b, typ, "-generator", gen.Neg(), eq, nil)
		put(b, typ, "2*generator", gen.Double(), eq, nil)
		for i := 0; i < 2*b.reps; i++ {
			v, err := random(b.rng(typ, i))
			putE(b, typ, fmt.Sprintf("random#%d", i), v, err, eq)
		}
	})
}

func (b *builder) curveElements() {
	kf, kc := k256.NewScalarField(), k256.NewCurve()
	scalarSamples(b, "scalar-k256", kf.Zero(), kf.One(), kf.FromUint64, kf.Random)
	pointSamples(b, "point-k256", kc.Generator(), kc.OpIdentity(), kc.Random)
	bf, bg := bls12381.NewScalarField(), bls12381.NewG1()
	scalarSamples(b, "scalar-bls12381", bf.Zero(), bf.One(), bf.FromUint64, bf.Random)
	pointSamples(b, "point-bls12381g1", bg.Generator(), bg.OpIdentity(), bg.Random)
	pf, pc := p256.NewScalarField(), p256.NewCurve()
	scalarSamples(b, "scalar-p256", pf.Zero(), pf.One(), pf.FromUint64, pf.Random)
	pointSamples(b, "point-p256", pc.Generator(), pc.OpIdentity(), pc.Random)
	ef, ec := edwards25519.NewScalarField(), edwards25519.NewPrimeSubGroup()
	scalarSamples(b, "scalar-edwards25519", ef.Zero(), ef.One(), ef.FromUint64, ef.Random)
	pointSamples(b, "point-edwards25519", ec.Generator(), ec.OpIdentity(), ec.Random)
}

// ---- 11. hash commitments ---------------------------------------------------------------------------

func (b *builder) hashcoms() {
	b.group("hashcom", func() {
		for i := 0; i < 2*b.reps; i++ {
			r := b.rng("hashcom", i)
			key, err := hashcom.SampleCommitmentKey(r)
			if err != nil {
				sampleError("hashcom-key", err)
				continue
			}
			msg := r.Bytes(1 + r.Intn(64))
			com, wit, err := commitments.Commit(key, hashcom.Message(msg), io.Reader(r))
			if err != nil {
				sampleError("hashcom-commitment", err)
				continue
			}
			put(b, "hashcom-commitment", fmt.Sprintf("commit#%d to %d random bytes", i, len(msg)), com,
				func(x, y hashcom.Commitment) bool { return x.Equal(y) }, nil)
			put(b, "hashcom-witness", fmt.Sprintf("commit#%d witness", i), wit,
				func(x, y hashcom.Witness) bool { return x.Equal(y) }, nil)
			put(b, "hashcom-key", fmt.Sprintf("commit#%d key", i), key,
				func(x, y *hashcom.CommitmentKey) bool { return x.Equal(y) }, nil)
		}
		put(b, "hashcom-commitment", "all-zero digest", hashcom.Commitment{},
			func(x, y hashcom.Commitment) bool { return x.Equal(y) }, nil)
	})
}

// ---- 12. Schnorr proofs ---------------------------------------------------------------------------------

// makeContexts builds one session context per quorum member from seeded common / pairwise seeds
// (what pkg/mpc/session/testutils.MakeRandomContexts does, without testing.TB).
func makeContexts(r io.Reader, ids []ID) (map[ID]*session.Context, error) {
	quorum := hashset.NewComparable(ids...).Freeze()
	common := make([]byte, 64)
	if _, err := io.ReadFull(r, common); err != nil {
		return nil, err
	}
	pair := map[ID]map[ID][]byte{}
	for _, i := range ids {
		pair[i] = map[ID][]byte{}
	}
	for a, i := range ids {
		for _, j := range ids[a:] {
			s := make([]byte, 64)
			if _, err := io.ReadFull(r, s); err != nil {
				return nil, err
			}
			pair[i][j], pair[j][i] = s, s
		}
	}
	out := map[ID]*session.Context{}
	for _, i := range ids {
		c, err := session.NewContext(i, quorum, common, pair[i])
		if err != nil {
			return nil, err
		}
		out[i] = c
	}
	return out, nil
}

func (b *builder) schnorrProofs() {
	type G = *k256.Point
	type S = *k256.Scalar
	type proofT = *fiatshamir.Proof[*schnorr.Commitment[G, S], *schnorr.Response[S]]
	b.group("schnorr", func() {
		curve := k256.NewCurve()
		f := k256.NewScalarField()
		for i := 0; i < 2*b.reps; i++ {
			r := b.rng("schnorr", i)
			proto, err := schnorr.NewProtocol(curve.Generator(), io.Reader(r))
			if err != nil {
				sampleError("schnorrproof-k256", err)
				continue
			}
			w, err := f.Random(r)
			if err != nil {
				sampleError("schnorrproof-k256", err)
				continue
			}
			witness := schnorr.NewWitness(w)
			statement := schnorr.NewStatement[G, S](curve.Generator().ScalarOp(w))
			ctxs, err := makeContexts(r, []ID{1, 2})
			if err != nil {
				sampleError("schnorrproof-k256", err)
				continue
			}
			a, st, err := zkmodule.Commit(proto, statement, witness)
			if err != nil {
				sampleError("schnorrproof-k256", err)
				continue
			}
			proof, err := zkmodule.Prove(ctxs[1], proto, statement, witness, a, st)
			if err != nil {
				sampleError("schnorrproof-k256", err)
				continue
			}
			if verr := zkmodule.Verify(ctxs[2], proto, statement, proof); verr != nil {
				sampleError("schnorrproof-k256", fmt.Sprintf("generated proof does not verify: %v", verr))
			}
			put(b, "schnorrproof-k256", fmt.Sprintf("fiat-shamir proof#%d", i), proofT(proof), cborEq[proofT], nil)
			put(b, "schnorr-commitment-k256", fmt.Sprintf("proof#%d commitment", i), proof.Commitment(),
				func(x, y *schnorr.Commitment[G, S]) bool { return x.Value().Equal(y.Value()) }, nil)
			put(b, "schnorr-response-k256", fmt.Sprintf("proof#%d response", i), proof.Response(),
				func(x, y *schnorr.Response[S]) bool { return x.Value().Equal(y.Value()) }, nil)
			put(b, "schnorr-statement-k256", fmt.Sprintf("proof#%d statement", i), statement,
				func(x, y *schnorr.Statement[G, S]) bool { return x.Value().Equal(y.Value()) }, nil)
			put(b, "schnorr-witness-k256", fmt.Sprintf("proof#%d witness", i), witness,
				func(x, y *schnorr.Witness[S]) bool { return x.Value().Equal(y.Value()) }, nil)
		}
	})
}

// ---- 13. protocol messages: Gennaro DKG, 3 parties, k256 ---------------------------------------------------

// forkReader is the prng handed to protocol participants. The AND-composition of sigma protocols
// used by Gennaro round 1 (sigand, an errgroup) draws the prover nonces from several goroutines
// that share the participant's prng, so with a plain stream the proof bytes depend on the
// scheduler. forkReader serves the goroutine that created it from the main stream and every
// other goroutine from its own copy of one side stream (same bytes for all workers of a batch):
// what each goroutine reads no longer depends on the interleaving, and the run is reproducible.
// (The repeated nonces are of no concern here: only the wire format of the messages is used.)
type forkReader struct {
	mu      sync.Mutex
	b       *builder
	stream  string
	owner   uint64
	main    *vh.Rng
	workers map[uint64]*vh.Rng
	epoch   int
}

func (b *builder) forkRng(stream string, idx int) *forkReader {
	return &forkReader{b: b, stream: stream, owner: curGoid(), main: b.rng(stream, idx), workers: map[uint64]*vh.Rng{}}
}

func curGoid() uint64 {
	var buf [64]byte
	s := buf[:runtime.Stack(buf[:], false)] // "goroutine 123 [running]:..."
	s = bytes.TrimPrefix(s, []byte("goroutine "))
	var id uint64
	for _, c := range s {
		if c < '0' || c > '9' {
			break
		}
		id = id*10 + uint64(c-'0')
	}
	return id
}

func (l *forkReader) Read(p []byte) (int, error) {
	g := curGoid()
	l.mu.Lock()
	defer l.mu.Unlock()
	if g == l.owner {
		if len(l.workers) > 0 { // a batch of workers is over: the next batch gets a fresh side stream
			l.workers = map[uint64]*vh.Rng{}
			l.epoch++
		}
		return l.main.Read(p)
	}
	r := l.workers[g]
	if r == nil {
		r = l.b.rng(l.stream+"/worker", l.epoch)
		l.workers[g] = r
	}
	return r.Read(p)
}

func (b *builder) gennaroMessages() {
	b.group("msg-gennaro", func() { b.gennaroRun("gennaro") })
}

func (b *builder) gennaroRun(stream string) {
	type G = *k256.Point
	type S = *k256.Scalar
	type P = *gennaro.Participant[G, S]
	type r1b = *gennaro.Round1Broadcast[G, S]
	type r1u = *gennaro.Round1Unicast[G, S]
	type r2b = *gennaro.Round2Broadcast[G, S]
	func() {
		ids := []ID{1, 2, 3}
		ac, err := mkThreshold(2, 1, 2, 3)
		if err != nil {
			sampleError("msg-gennaro", err)
			return
		}
		ctxs, err := makeContexts(b.rng(stream+"/ctx", 0), ids)
		if err != nil {
			sampleError("msg-gennaro", err)
			return
		}
		parts := map[ID]P{}
		for _, id := range ids {
			p, err := gennaro.NewParticipant(ctxs[id], k256.NewCurve(), ac, fiatshamir.Name, b.forkRng(stream+"/party", int(id)))
			if err != nil {
				sampleError("msg-gennaro", err)
				return
			}
			parts[id] = p
		}
		// round 1
		bo1 := map[ID]r1b{}
		uo1 := map[ID]ds.Map[ID, r1u]{}
		for _, id := range ids {
			bc, uc, err := parts[id].Round1()
			if err != nil {
				sampleError("msg-gennaro-r1", err)
				return
			}
			bo1[id], uo1[id] = bc, uc
		}
		for k, id := range ids {
			if k < 2 {
				put(b, "msg-gennaro-r1-bcast", fmt.Sprintf("from %d", id), bo1[id], cborEq[r1b], nil)
			}
		}
		for _, to := range ids[1:] {
			m, ok := uo1[1].Get(to)
			if ok {
				put(b, "msg-gennaro-r1-p2p", fmt.Sprintf("from 1 to %d", to), m, cborEq[r1u], nil)
			}
		}
		// round 2
		bo2 := map[ID]r2b{}
		for _, id := range ids {
			bin := hashmap.NewComparable[ID, r1b]()
			uin := hashmap.NewComparable[ID, r1u]()
			for _, from := range ids {
				if from == id {
					continue
				}
				bin.Put(from, bo1[from])
				m, _ := uo1[from].Get(id)
				uin.Put(from, m)
			}
			out, err := parts[id].Round2(bin.Freeze(), uin.Freeze())
			if err != nil {
				sampleError("msg-gennaro-r2", err)
				return
			}
			bo2[id] = out
		}
		for k, id := range ids {
			if k < 2 {
				put(b, "msg-gennaro-r2-bcast", fmt.Sprintf("from %d", id), bo2[id], cborEq[r2b], nil)
			}
		}
		// round 3: the resulting shards are one more source of baseshard-k256 values
		for _, id := range ids {
			bin := hashmap.NewComparable[ID, r2b]()
			for _, from := range ids {
				if from != id {
					bin.Put(from, bo2[from])
				}
			}
			shard, err := parts[id].Round3(bin.Freeze())
			if err != nil {
				sampleError("msg-gennaro-r3", err)
				return
			}
			put(b, "baseshard-k256", fmt.Sprintf("gennaro dkg output of party %d", id), shard,
				func(x, y *mpc.BaseShard[G, S]) bool { return x.Equal(y) }, shardFacts[G, S](k256.NewCurve()))
		}
	}()
}

// HJKY zero-sharing, 3 parties, k256: one round, a broadcast and a unicast message type.
func (b *builder) hjkyMessages() {
	type G = *k256.Point
	type S = *k256.Scalar
	type r1b = *hjky.Round1Broadcast[G, S]
	type r1u = *hjky.Round1P2P[G, S]
	b.group("msg-hjky", func() {
		ids := []ID{1, 2, 3}
		ac, err := mkThreshold(2, 1, 2, 3)
		if err != nil {
			sampleError("msg-hjky", err)
			return
		}
		ctxs, err := makeContexts(b.rng("hjky/ctx", 0), ids)
		if err != nil {
			sampleError("msg-hjky", err)
			return
		}
		bo := map[ID]r1b{}
		uo := map[ID]ds.Map[ID, r1u]{}
		parts := map[ID]*hjky.Participant[G, S]{}
		for _, id := range ids {
			p, err := hjky.NewParticipant(ctxs[id], ac, k256.NewCurve(), b.forkRng("hjky/party", int(id)))
			if err != nil {
				sampleError("msg-hjky", err)
				return
			}
			parts[id] = p
			bc, uc, err := p.Round1()
			if err != nil {
				sampleError("msg-hjky-r1", err)
				return
			}
			bo[id], uo[id] = bc, uc
		}
		put(b, "msg-hjky-r1-bcast", "from 1", bo[1], cborEq[r1b], nil)
		put(b, "msg-hjky-r1-bcast", "from 2", bo[2], cborEq[r1b], nil)
		for _, to := range ids[1:] {
			if m, ok := uo[1].Get(to); ok {
				put(b, "msg-hjky-r1-p2p", fmt.Sprintf("from 1 to %d", to), m, cborEq[r1u], nil)
			}
		}
		// round 2 output: a zero share and its verification vector
		bin := hashmap.NewComparable[ID, r1b]()
		uin := hashmap.NewComparable[ID, r1u]()
		for _, from := range ids[1:] {
			bin.Put(from, bo[from])
			m, _ := uo[from].Get(1)
			uin.Put(from, m)
		}
		sh, vv, err := parts[1].Round2(bin.Freeze(), uin.Freeze())
		if err != nil {
			sampleError("msg-hjky-r2", err)
			return
		}
		put(b, "feldmanshare-k256", "hjky zero share of party 1", sh, eqKW[S], nil)
		put(b, "feldmanvv-k256", "hjky zero-sharing verification vector (first entry is the identity)", vv,
			func(x, y *feldman.VerificationVector[G, S]) bool { return x.Equal(y) }, nil)
	})
}

// signing shards (wrappers of BaseShard) and a DKLs23 partial signature.
func (b *builder) signingShards() {
	type G = *k256.Point
	type F = *k256.BaseFieldElement
	type S = *k256.Scalar
	curve := k256.NewCurve()
	f := k256.NewScalarField()
	b.group("signingshards", func() {
		ac, err := mkThreshold(2, 1, 2, 3)
		if err != nil {
			sampleError("dkls23shard-k256", err)
			return
		}
		shards, err := trusteddealer.Deal(curve, ac, io.Reader(b.rng("signingshards", 0)))
		if err != nil {
			sampleError("dkls23shard-k256", err)
			return
		}
		for _, id := range sortedIDs(ac.Shareholders()) {
			bs, _ := shards.Get(id)
			d, err := dkls23.NewShard[G, F, S](bs)
			putE(b, "dkls23shard-k256", fmt.Sprintf("NewShard(trusted dealer shard of %d)", id), d, err,
				func(x, y *dkls23.Shard[G, F, S]) bool { return x.Equal(y) })
			ss, err := mpcschnorr.NewShard(bs.Share(), bs.VerificationVector(), bs.MSP())
			putE(b, "schnorrshard-k256", fmt.Sprintf("NewShard(trusted dealer shard of %d)", id), ss, err,
				func(x, y *mpcschnorr.Shard[G, S]) bool { return x.Equal(y) })
		}
		nz := func(r *vh.Rng) S {
			for {
				x, err := f.Random(r)
				if err == nil && !x.IsZero() {
					return x
				}
			}
		}
		for i := 0; i < 2*b.reps; i++ {
			r := b.rng("dkls23partialsig", i)
			ps, err := dkls23.NewPartialSignature[G, F, S](curve.Generator().ScalarOp(nz(r)), nz(r), nz(r))
			putE(b, "dkls23partialsig-k256", fmt.Sprintf("NewPartialSignature(random#%d)", i), ps, err,
				cborEq[*dkls23.PartialSignature[G, F, S]])
		}
		ps, err := dkls23.NewPartialSignature[G, F, S](curve.Generator(), f.One(), f.One().Neg())
		putE(b, "dkls23partialsig-k256", "NewPartialSignature(G, 1, q-1)", ps, err, cborEq[*dkls23.PartialSignature[G, F, S]])
	})
}

// ---- 14. optional extras ---------------------------------------------------------------------------------------

func (b *builder) extras() {
	type G = *k256.Point
	type S = *k256.Scalar
	curve := k256.NewCurve()
	f := k256.NewScalarField()
	b.group("pedersencom", func() {
		for i := 0; i < b.reps; i++ {
			r := b.rng("pedersencom", i)
			key, err := pedersencom.SampleCommitmentKey(curve, io.Reader(r))
			if err != nil {
				sampleError("pedersencom-key-k256", err)
				continue
			}
			put(b, "pedersencom-key-k256", fmt.Sprintf("SampleCommitmentKey#%d", i), key,
				func(x, y *pedersencom.CommitmentKey[G, S]) bool { return x.Equal(y) }, nil)
			x, _ := f.Random(r)
			msg, err := pedersencom.NewMessage(x)
			if err != nil {
				sampleError("pedersencom-message-k256", err)
				continue
			}
			com, wit, err := commitments.Commit(key, msg, io.Reader(r))
			if err != nil {
				sampleError("pedersencom-commitment-k256", err)
				continue
			}
			put(b, "pedersencom-message-k256", fmt.Sprintf("commit#%d message", i), msg,
				func(x, y *pedersencom.Message[S]) bool { return x.Equal(y) }, nil)
			put(b, "pedersencom-commitment-k256", fmt.Sprintf("commit#%d", i), com,
				func(x, y *pedersencom.Commitment[G, S]) bool { return x.Equal(y) }, nil)
			put(b, "pedersencom-witness-k256", fmt.Sprintf("commit#%d witness", i), wit,
				func(x, y *pedersencom.Witness[S]) bool { return x.Equal(y) }, nil)
			td, err := pedersencom.SampleTrapdoorKey(curve, io.Reader(r))
			putE(b, "pedersencom-trapdoor-k256", fmt.Sprintf("SampleTrapdoorKey#%d", i), td, err,
				func(x, y *pedersencom.TrapdoorKey[G, S]) bool { return x.Equal(y) })
		}
	})
	b.group("polynomial-k256", func() {
		ring, err := polynomials.NewPolynomialRing(f)
		if err != nil {
			sampleError("polynomial-k256", err)
			return
		}
		eq := func(x, y *polynomials.Polynomial[S]) bool { return x.Equal(y) }
		eqM := func(x, y *polynomials.ModuleValuedPolynomial[G, S]) bool { return x.Equal(y) }
		p, err := ring.New(f.One())
		putE(b, "polynomial-k256", "constant 1", p, err, eq)
		p, err = ring.New(f.Zero(), f.One().Neg(), f.FromUint64(256))
		putE(b, "polynomial-k256", "0 + (q-1)x + 256x^2", p, err, eq)
		for i := 0; i < 2*b.reps; i++ {
			r := b.rng("polynomial-k256", i)
			deg := 1 + r.Intn(4)
			p, err := ring.RandomPolynomial(deg, io.Reader(r))
			putE(b, "polynomial-k256", fmt.Sprintf("random#%d degree %d", i, deg), p, err, eq)
			if err == nil {
				lp, err := polynomials.LiftPolynomial(p, curve.Generator())
				putE(b, "mvpolynomial-k256", fmt.Sprintf("LiftPolynomial(random#%d degree %d, G)", i, deg), lp, err, eqM)
			}
		}
	})
}

// ---- entry point ---------------------------------------------------------------------------------------------------

// buildSamples returns the library values whose wire format is exercised. Everything random is
// drawn from vh.NewRng(seed, "C12", stream, index); shareholders are always visited in ascending
// ID order, so the list (and each sample's bytes) is a function of (seed, tier) only.
func buildSamples(seed int64, tier string) []Sample {
	b := &builder{seed: seed, reps: 1}
	if tier == "thorough" {
		b.reps = 5
	}
	kf, kc := k256.NewScalarField(), k256.NewCurve()
	bf, bg := bls12381.NewScalarField(), bls12381.NewG1()

	b.accessStructures()
	mspSamples(b, "k256", algebra.PrimeField[*k256.Scalar](kf))
	mspSamples(b, "bls12381", algebra.PrimeField[*bls12381.Scalar](bf))
	kwSamples(b, "k256", algebra.PrimeField[*k256.Scalar](kf))
	kwSamples(b, "bls12381", algebra.PrimeField[*bls12381.Scalar](bf))
	feldmanSamples(b, "k256", algebra.PrimeGroup[*k256.Point, *k256.Scalar](kc), true)
	feldmanSamples(b, "bls12381g1", algebra.PrimeGroup[*bls12381.PointG1, *bls12381.Scalar](bg), false)
	pedersenSamples(b, "k256", algebra.PrimeGroup[*k256.Point, *k256.Scalar](kc))
	shardSamples(b, "k256", algebra.PrimeGroup[*k256.Point, *k256.Scalar](kc), true)
	shardSamples(b, "bls12381g1", algebra.PrimeGroup[*bls12381.PointG1, *bls12381.Scalar](bg), false)
	b.ecdsaSigs()
	b.matrices()
	b.numbers()
	b.curveElements()
	b.hashcoms()
	b.schnorrProofs()
	b.gennaroMessages()
	b.hjkyMessages()
	b.signingShards()
	b.extras()
	return b.out
}
