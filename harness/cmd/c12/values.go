package main

// buildSamples returns the library values whose wire format is exercised (placeholder).
func buildSamples(seed int64, tier string) []Sample { return nil }
