package main

// Constructor-level validity of a decoded access structure, evaluated on its PUBLIC ACCESSORS:
//
//	accessors:  Shareholders() equals the set of IDs occurring in the policy body (threshold /
//	            unanimity: the set itself; CNF: union of the maximal unqualified sets; hierarchical:
//	            union of the level parties; gate tree: the attribute leaves), and IsQualified agrees
//	            with a brute-force evaluation of the policy over the subsets of that set;
//	canon:      the object's encoding is byte-identical to the encoding of the object rebuilt through
//	            the public constructor from the same abstract value (a second accepted encoding of one
//	            policy is a defect: nothing a constructor builds encodes like that).
//
// The gate tree has no accessor for its root; its tree is read back from the object's own encoding.

import (
	"fmt"
	"slices"
	"sort"

	ds "github.com/bronlabs/bron-crypto/pkg/base/datastructures"
	"github.com/bronlabs/bron-crypto/pkg/base/datastructures/hashset"
	"github.com/bronlabs/bron-crypto/pkg/base/serde"
	"github.com/bronlabs/bron-crypto/pkg/mpc/sharing/accessstructures/boolexpr"
	"github.com/bronlabs/bron-crypto/pkg/mpc/sharing/accessstructures/cnf"
	"github.com/bronlabs/bron-crypto/pkg/mpc/sharing/accessstructures/hierarchical"
	"github.com/bronlabs/bron-crypto/pkg/mpc/sharing/accessstructures/threshold"
	"github.com/bronlabs/bron-crypto/pkg/mpc/sharing/accessstructures/unanimity"
)

type accessStructure interface {
	Shareholders() ds.Set[ID]
	IsQualified(ids ...ID) bool
}

func idsOf(m map[ID]bool) []ID {
	var l []ID
	for k := range m {
		l = append(l, k)
	}
	slices.Sort(l)
	return l
}

// gate tree read back from the generic item tree of an encoding
type gnode struct {
	kind      uint64
	attr      uint64
	threshold int64
	children  []*gnode
}

func mapField(x *node, name string) *node {
	if x == nil || x.kind != 'm' {
		return nil
	}
	for _, p := range x.pairs {
		if p[0].kind == 't' && string(p[0].bs) == name {
			return p[1]
		}
	}
	return nil
}

func readGate(x *node, depth int) *gnode {
	if x == nil || x.kind != 'm' || depth > 40 {
		return nil
	}
	g := &gnode{}
	if k := mapField(x, "kind"); k != nil && k.kind == 'u' {
		g.kind = k.n
	}
	if a := mapField(x, "attr"); a != nil && a.kind == 'u' {
		g.attr = a.n
	}
	if t := mapField(x, "threshold"); t != nil {
		if t.kind == 'u' {
			g.threshold = int64(t.n)
		} else if t.kind == 'n' {
			g.threshold = -1 - int64(t.n)
		}
	}
	if c := mapField(x, "children"); c != nil && c.kind == 'a' {
		for _, k := range c.kids {
			g.children = append(g.children, readGate(k, depth+1))
		}
	}
	return g
}

func (g *gnode) leaves(out map[ID]bool) {
	if g == nil {
		return
	}
	if g.kind == 2 {
		out[ID(g.attr)] = true
	}
	for _, c := range g.children {
		c.leaves(out)
	}
}

func (g *gnode) eval(s map[ID]bool) bool {
	if g == nil {
		return false
	}
	if g.kind == 2 {
		return s[ID(g.attr)]
	}
	n := 0
	for _, c := range g.children {
		if c.eval(s) {
			n++
		}
	}
	return int64(n) >= g.threshold
}

func (g *gnode) build() *boolexpr.Node {
	if g == nil {
		return nil
	}
	if g.kind == 2 {
		return boolexpr.ID(ID(g.attr))
	}
	cs := make([]*boolexpr.Node, len(g.children))
	for i, c := range g.children {
		cs[i] = c.build()
	}
	return boolexpr.Threshold(int(g.threshold), cs...)
}

// accessFacts returns "accessors=ok|bad:<why> canon=same|differs|norebuild".
func accessFacts(v any) string {
	as, ok := v.(accessStructure)
	if !ok {
		return ""
	}
	own, err := serde.MarshalCBOR(v)
	if err != nil {
		return "accessors=bad:not-encodable"
	}
	sh := map[ID]bool{}
	for _, id := range as.Shareholders().List() {
		sh[id] = true
	}
	body := map[ID]bool{}
	var policy func(s map[ID]bool) bool
	var rebuilt any
	var rerr error
	switch a := v.(type) {
	case *threshold.Threshold:
		body = sh
		t := int(a.Threshold())
		policy = func(s map[ID]bool) bool { return len(s) >= t }
		rebuilt, rerr = threshold.NewThresholdAccessStructure(a.Threshold(), hashset.NewComparable(idsOf(sh)...).Freeze())
	case *unanimity.Unanimity:
		body = sh
		policy = func(s map[ID]bool) bool { return len(s) == len(sh) }
		rebuilt, rerr = unanimity.NewUnanimityAccessStructure(hashset.NewComparable(idsOf(sh)...).Freeze())
	case *cnf.CNF:
		sets := slices.Collect(a.MaximalUnqualifiedSetsIter())
		for _, u := range sets {
			for _, id := range u.List() {
				body[id] = true
			}
		}
		policy = func(s map[ID]bool) bool {
			for _, u := range sets {
				sub := true
				for id := range s {
					if !u.Contains(id) {
						sub = false
						break
					}
				}
				if sub {
					return false
				}
			}
			return true
		}
		rebuilt, rerr = cnf.NewCNFAccessStructure(sets...)
	case *hierarchical.HierarchicalConjunctiveThreshold:
		levels := a.Levels()
		var ls []*hierarchical.ThresholdLevel
		for _, l := range levels {
			for _, id := range l.Shareholders().List() {
				body[id] = true
			}
			ls = append(ls, hierarchical.WithLevel(l.Threshold(), sortedIDs(l.Shareholders())...))
		}
		policy = func(s map[ID]bool) bool {
			cum := 0
			for _, l := range levels {
				for _, id := range l.Shareholders().List() {
					if s[id] {
						cum++
					}
				}
				if cum < l.Threshold() {
					return false
				}
			}
			return true
		}
		rebuilt, rerr = hierarchical.NewHierarchicalConjunctiveThresholdAccessStructure(ls...)
	case *boolexpr.ThresholdGateAccessStructure:
		tree, derr := gdecode(own)
		if derr != nil {
			return "accessors=bad:own-encoding-unreadable"
		}
		if tree.kind == 'g' {
			tree = tree.kids[0]
		}
		g := readGate(mapField(tree, "root"), 0)
		g.leaves(body)
		policy = g.eval
		if n := a.CountLeaves(); n < len(body) {
			return fmt.Sprintf("accessors=bad:CountLeaves=%d<distinct-leaves=%d", n, len(body))
		}
		rebuilt, rerr = boolexpr.NewThresholdGateAccessStructure(g.build())
	default:
		return ""
	}
	res := "accessors=ok"
	if len(sh) != len(body) {
		res = fmt.Sprintf("accessors=bad:Shareholders()=%v,policy-body=%v", idsOf(sh), idsOf(body))
	} else {
		for id := range sh {
			if !body[id] {
				res = fmt.Sprintf("accessors=bad:Shareholders()=%v,policy-body=%v", idsOf(sh), idsOf(body))
			}
		}
	}
	if res == "accessors=ok" {
		// brute force over the subsets of the shareholder set (all of them up to 8 shareholders,
		// otherwise the 256 subsets of the first 8 joined with all / none of the rest)
		ids := idsOf(body)
		sort.Slice(ids, func(i, j int) bool { return ids[i] < ids[j] })
		k := len(ids)
		if k > 8 {
			k = 8
		}
		for _, rest := range []bool{false, true} {
			for m := 0; m < 1<<k; m++ {
				s := map[ID]bool{}
				var l []ID
				for i, id := range ids {
					if (i < k && m>>i&1 == 1) || (i >= k && rest) {
						s[id] = true
						l = append(l, id)
					}
				}
				var got bool
				if p := safeCall(func() { got = as.IsQualified(l...) }); p != "" {
					return "accessors=bad:IsQualified-panics:" + p
				}
				if got != policy(s) {
					res = fmt.Sprintf("accessors=bad:IsQualified(%v)=%v,policy=%v", l, got, policy(s))
					break
				}
			}
			if len(ids) <= 8 {
				break
			}
		}
	}
	switch {
	case rerr != nil || rebuilt == nil:
		res += " canon=norebuild"
	default:
		rb, e := serde.MarshalCBOR(rebuilt)
		if e != nil {
			res += " canon=norebuild"
		} else if string(rb) == string(own) {
			res += " canon=same"
		} else {
			res += fmt.Sprintf(" canon=differs:%x", rb)
		}
	}
	return res
}

func safeCall(f func()) (p string) {
	defer func() {
		if r := recover(); r != nil {
			p = fmt.Sprint(r)
		}
	}()
	f()
	return ""
}
