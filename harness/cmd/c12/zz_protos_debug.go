package main

import (
	"crypto/sha256"
	"fmt"
	"os"
	"sort"
	"strings"
	"time"

	"verif/harness/internal/drive"
	"github.com/bronlabs/bron-crypto/pkg/mpc/sharing"
)

func init() {
	mode := os.Getenv("C12_PROTOS_DEBUG")
	if mode == "" {
		return
	}
	if strings.Contains(mode, "protos") {
		only := os.Getenv("C12_PROTOS_ONLY")
		for _, pr := range protoRuns() {
			if only != "" && !strings.Contains(","+only+",", ","+pr.Name+",") {
				continue
			}
			digest := func(tr *drive.Trace) string {
				h := sha256.New()
				for _, m := range tr.Messages {
					fmt.Fprintf(h, "%d/%d/%d/%x;", m.Round, m.From, m.To, m.Payload)
				}
				return fmt.Sprintf("%x", h.Sum(nil)[:6])
			}
			t0 := time.Now()
			tr := pr.Run(1, nil)
			dt := time.Since(t0)
			var vs []string
			ids := drive.SortedIDs(tr.Verdicts)
			allok := true
			for _, id := range ids {
				v := tr.Verdicts[id]
				vs = append(vs, fmt.Sprintf("%d=%s", id, v.String()))
				if v.Class != "ok" {
					allok = false
					vs = append(vs, "("+v.Detail+")")
				}
			}
			size := 0
			for _, m := range tr.Messages {
				size += len(m.Payload)
			}
			fmt.Printf("PROTO %-18s heavy=%v time=%v msgs=%d bytes=%d allok=%v verdicts=[%s] slots=[%s] notes=%v digest=%s\n",
				pr.Name, pr.Heavy, dt.Round(time.Millisecond), len(tr.Messages), size, allok && len(ids) > 0, strings.Join(vs, " "), psSlots(tr), tr.Notes, digest(tr))
			if os.Getenv("C12_PROTOS_TWICE") != "" {
				reps := 1
				fmt.Sscan(os.Getenv("C12_PROTOS_TWICE"), &reps)
				for k := 0; k < reps; k++ {
					n := 0
					hook := drive.HookFunc(func(m *drive.Msg, rcpt sharing.ID) []byte { n++; return m.Payload })
					tr2 := pr.Run(1, hook)
					fmt.Printf("      again with counting hook: calls=%d digest=%s same=%v\n", n, digest(tr2), digest(tr2) == digest(tr))
				}
			}
		}
	}
	if strings.Contains(mode, "heavy") {
		tier := os.Getenv("C12_TIER")
		if tier == "" {
			tier = "quick"
		}
		t0 := time.Now()
		ss := heavySamples(1, tier)
		fmt.Printf("heavySamples: %d samples in %v\n", len(ss), time.Since(t0).Round(time.Millisecond))
		type agg struct {
			n     int
			bytes int
			dec   time.Duration
		}
		per := map[string]*agg{}
		var names []string
		for i, s := range ss {
			t1 := time.Now()
			r := s.Dec(s.Bytes)
			dt := time.Since(t1)
			same := string(r.Re) == string(s.Bytes)
			status := "OK  "
			if r.Panic != "" || r.Err || r.IsNil || !r.EqOrig || !r.RtOK || !same {
				status = "BAD "
			}
			fmt.Printf("%s#%d %-40s len=%-6d dec=%-8v err=%v nil=%v eq=%v rt=%v same=%v facts=%q panic=%q note=%q  %s\n", status, i, s.Type, len(s.Bytes),
				dt.Round(time.Millisecond), r.Err, r.IsNil, r.EqOrig, r.RtOK, same, r.Facts, r.Panic, r.RtNote, s.Desc)
			a := per[s.Type]
			if a == nil {
				a = &agg{}
				per[s.Type] = a
				names = append(names, s.Type)
			}
			a.n++
			a.bytes += len(s.Bytes)
			a.dec += dt
		}
		sort.Strings(names)
		for _, n := range names {
			a := per[n]
			fmt.Printf("TYPE %-40s n=%d avgbytes=%d avgDec(full Dec incl. 6 decodes + eq)=%v\n", n, a.n, a.bytes/a.n, (a.dec / time.Duration(a.n)).Round(time.Millisecond))
		}
		// determinism
		ss2 := heavySamples(1, tier)
		same := len(ss) == len(ss2)
		for i := range ss {
			if !same || string(ss[i].Bytes) != string(ss2[i].Bytes) || ss[i].Type != ss2[i].Type {
				same = false
				fmt.Printf("NONDETERMINISTIC sample #%d %s\n", i, ss[i].Type)
				break
			}
		}
		fmt.Printf("deterministic=%v\n", same)
	}
	os.Exit(0)
}
