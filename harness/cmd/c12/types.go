package main

import (
	"reflect"

	"github.com/bronlabs/bron-crypto/pkg/base/serde"
	"verif/harness/internal/vh"
)

// Sample is one serialisable value of the library obtained through public constructors or a
// short protocol run, together with its typed codec (serde.MarshalCBOR / serde.UnmarshalCBOR[T]).
type Sample struct {
	Type  string // stable type name, also selects the model schema (e.g. "threshold", "kwshare-k256")
	Desc  string // how the value was produced
	Bytes []byte // serde.MarshalCBOR(value)
	// Dec runs serde.UnmarshalCBOR[T] on arbitrary bytes (never panics out: panics are reported).
	Dec func(b []byte) DecResult
}

// DecResult is the projected observable of one typed decode.
type DecResult struct {
	Panic  string // non-empty: the implementation panicked (decode, Equal or re-encode)
	Err    bool   // rejected
	IsNil  bool   // accepted, but the result is a nil pointer / nil interface (CBOR null)
	Re     []byte // serde.MarshalCBOR(decoded value)
	ReErr  bool   // re-encoding the accepted value failed
	EqOrig bool   // decoded.Equal(original sample value)
	// round trip of the accepted value: decode(Re) accepted, Equal to the decoded value, re-encodes to Re
	RtOK   bool
	RtNote string
	Facts  string // type-specific facts about the decoded value for the model (e.g. "sharematch=1")
}

func isNilValue(v any) bool {
	if v == nil {
		return true
	}
	rv := reflect.ValueOf(v)
	switch rv.Kind() {
	case reflect.Pointer, reflect.Interface, reflect.Map, reflect.Slice:
		return rv.IsNil()
	}
	return false
}

// mk builds a Sample for value v of type T. eq compares two decoded values (the type's own Equal);
// facts (may be nil) computes type-specific facts of a decoded value through the public API.
func mk[T any](typ, desc string, v T, eq func(a, b T) bool, facts func(v T) string) (s Sample, err error) {
	b, err := serde.MarshalCBOR(v)
	if err != nil {
		return s, err
	}
	s = Sample{Type: typ, Desc: desc, Bytes: b}
	s.Dec = func(in []byte) (r DecResult) {
		var d T
		var derr error
		if p := vh.Safely(func() { d, derr = serde.UnmarshalCBOR[T](in) }); p != "" {
			r.Panic = "decode: " + p
			return r
		}
		if derr != nil {
			r.Err = true
			return r
		}
		if isNilValue(any(d)) {
			r.IsNil = true
			return r
		}
		if p := vh.Safely(func() {
			re, e := serde.MarshalCBOR(d)
			r.Re, r.ReErr = re, e != nil
			r.EqOrig = eq(d, v)
			if facts != nil {
				r.Facts = facts(d)
			}
			if e == nil {
				d2, e2 := serde.UnmarshalCBOR[T](re)
				switch {
				case e2 != nil:
					r.RtNote = "re-encoding is rejected by the decoder"
				case isNilValue(any(d2)):
					r.RtNote = "re-encoding decodes to nil"
				case !eq(d2, d):
					r.RtNote = "decode(encode(x)) not Equal to x"
				default:
					// the encoding must not depend on Go map iteration order: repeat a few times
					stable := true
					reps := 4
					if len(re) > 3000 {
						reps = 1 // large values (shards with Paillier keys): one more round trip is enough
					}
					for k := 0; k < reps && stable; k++ {
						d3, e3 := serde.UnmarshalCBOR[T](re)
						if e3 != nil {
							stable = false
							break
						}
						re2, e4 := serde.MarshalCBOR(d3)
						stable = e4 == nil && string(re2) == string(re)
					}
					if !stable {
						r.RtNote = "re-encoding is not byte-identical after a second round trip"
					} else {
						r.RtOK = true
					}
				}
			}
		}); p != "" {
			r.Panic = "after-accept: " + p
		}
		return r
	}
	return s, nil
}
