package main

// heavyvalues.go — typed samples of the Paillier-based part of the library: the Lindell17 and
// CGGMP21 key shards with their auxiliary information, Paillier keys / ciphertexts / plaintexts /
// nonces, the znstar groups and elements and the modular arithmetic objects inside them, the
// ring-Pedersen (intcom) keys of CGGMP21, and three Paillier-related sigma-protocol transcripts.
//
// ONLY stored key material is used (key generation takes minutes):
//   - corpus/c01/{lindell17,cggmp21}-k256-<policy hash>.cbor through keys.LoadL17 / keys.LoadCggmp
//     (trusted-dealer shards, Paillier moduli of base.IFCKeyLength = 3072 bits);
//   - corpus/c16/keys.txt ("flavour bits p q", hex): general / Blum / safe-prime Paillier keys of
//     2048 and 3072 bits, rebuilt through the public constructors exactly as cmd/c16 does.
//
// The typed decoders of paillier.PublicKey / SecretKey (and everything that contains them) go
// through NewPublicKey / NewSecretKey, which refuse moduli below base.IFCKeyLength: key samples are
// therefore taken from 3072-bit material only; the 2048-bit keys (NewLegacySecretKey) contribute
// groups, elements, moduli, ciphertexts, plaintexts and nonces, whose decoders have no size floor.
//
// Everything random (nonces, plaintexts, challenges, prover randomness) is drawn from
// vh.NewRng(seed, "C12", "heavy/<stream>", idx); holders are visited in ascending order.

import (
	"bufio"
	"fmt"
	"io"
	"math/big"
	"os"
	"path/filepath"
	"slices"
	"strconv"
	"strings"

	"github.com/bronlabs/bron-crypto/pkg/base/curves/k256"
	"github.com/bronlabs/bron-crypto/pkg/base/nt/modular"
	"github.com/bronlabs/bron-crypto/pkg/base/nt/num"
	"github.com/bronlabs/bron-crypto/pkg/base/nt/numct"
	"github.com/bronlabs/bron-crypto/pkg/base/nt/znstar"
	"github.com/bronlabs/bron-crypto/pkg/commitments/intcom"
	"github.com/bronlabs/bron-crypto/pkg/encryption/paillier"
	"github.com/bronlabs/bron-crypto/pkg/mpc/signatures/ecdsa/cggmp21"
	"github.com/bronlabs/bron-crypto/pkg/mpc/signatures/ecdsa/lindell17"
	cgenc "github.com/bronlabs/bron-crypto/pkg/proofs/cggmp21/enc"
	cgfac "github.com/bronlabs/bron-crypto/pkg/proofs/cggmp21/fac"
	"github.com/bronlabs/bron-crypto/pkg/proofs/paillier/nthroot"

	"github.com/bronlabs/bron-crypto/pkg/base/serde"
	"verif/harness/internal/drive/keys"
	"verif/harness/internal/vh"
)

const hvPolicy = "T:2:1,2,3" // corpus/c01/*-k256-8a81acfb1a91.cbor

type hvP = *k256.Point
type hvB = *k256.BaseFieldElement
type hvS = *k256.Scalar

type hvL17Shard = lindell17.Shard[hvP, hvB, hvS]
type hvCgShard = cggmp21.Shard[hvP, hvB, hvS]

// ---- facts -----------------------------------------------------------------------------

// hvBits renders "modbits=<n>": the bit length of the Paillier / RSA modulus N reachable from a
// decoded value through its public accessors ("modbits=?" if an accessor panics or yields nil —
// an accepted value with a hole inside).
func hvBits(f func() int) string {
	n := -1
	if p := vh.Safely(func() { n = f() }); p != "" || n < 0 {
		return "modbits=?"
	}
	return fmt.Sprintf("modbits=%d", n)
}

func hvNP(n *num.NatPlus) int {
	if n == nil {
		return -1
	}
	return n.TrueLen()
}

func hvSKBits(sk *paillier.SecretKey) int {
	if sk == nil || sk.Group() == nil {
		return -1
	}
	return hvNP(sk.Group().N())
}

func hvPKBits(pk *paillier.PublicKey) int {
	if pk == nil || pk.Group() == nil {
		return -1
	}
	return hvNP(pk.Group().N())
}

func hvCtBits(c *paillier.Ciphertext) int {
	if c == nil || c.Value() == nil {
		return -1
	}
	return hvNP(c.Value().N())
}

func hvModulusBits(m *numct.Modulus) int {
	if m == nil {
		return -1
	}
	return m.BitLen()
}

// ---- equalities ------------------------------------------------------------------------

func hvEqSK(x, y *paillier.SecretKey) bool  { return x.Equal(y) }
func hvEqPK(x, y *paillier.PublicKey) bool  { return x.Equal(y) }
func hvEqCt(x, y *paillier.Ciphertext) bool { return x.Equal(y) }
func hvEqPt(x, y *paillier.Plaintext) bool  { return x.Equal(y) }
func hvEqNo(x, y *paillier.Nonce) bool      { return x.Equal(y) }

func hvEqPGK(x, y *znstar.PaillierGroupKnownOrder) bool          { return x.Equal(y) }
func hvEqPGU(x, y *znstar.PaillierGroupUnknownOrder) bool        { return x.Equal(y) }
func hvEqPEK(x, y *znstar.PaillierGroupElementKnownOrder) bool   { return x.Equal(y) }
func hvEqPEU(x, y *znstar.PaillierGroupElementUnknownOrder) bool { return x.Equal(y) }
func hvEqRGK(x, y *znstar.RSAGroupKnownOrder) bool               { return x.Equal(y) }
func hvEqRGU(x, y *znstar.RSAGroupUnknownOrder) bool             { return x.Equal(y) }
func hvEqREK(x, y *znstar.RSAGroupElementKnownOrder) bool        { return x.Equal(y) }
func hvEqREU(x, y *znstar.RSAGroupElementUnknownOrder) bool      { return x.Equal(y) }

// ---- stored Paillier keys of corpus/c16 --------------------------------------------------

type hvKey struct {
	flavour string
	bits    int
	group   *znstar.PaillierGroupKnownOrder
	sk      *paillier.SecretKey
	pk      *paillier.PublicKey
}

func (k *hvKey) name() string { return fmt.Sprintf("c16 %s %d", k.flavour, k.bits) }

func hvNatPlus(x *big.Int) (*num.NatPlus, error) { return num.NPlus().FromBig(x) }

// hvC16Key reads the stored (flavour, bits) key of corpus/c16/keys.txt and rebuilds the library
// objects from the prime factors (NewPaillierGroup, New[Legacy]SecretKey, sk.Public()).
func hvC16Key(flavour string, bits int) (*hvKey, error) {
	path := filepath.Join(keys.Root(), "corpus", "c16", "keys.txt")
	f, err := os.Open(path)
	if err != nil {
		return nil, err
	}
	defer f.Close()
	sc := bufio.NewScanner(f)
	sc.Buffer(make([]byte, 1<<20), 1<<24)
	for sc.Scan() {
		line := strings.TrimSpace(sc.Text())
		fs := strings.Fields(line)
		if len(fs) != 4 || strings.HasPrefix(line, "#") || fs[0] != flavour {
			continue
		}
		if b, _ := strconv.Atoi(fs[1]); b != bits {
			continue
		}
		p, ok1 := new(big.Int).SetString(fs[2], 16)
		q, ok2 := new(big.Int).SetString(fs[3], 16)
		if !ok1 || !ok2 {
			return nil, fmt.Errorf("%s: malformed %s %d entry", path, flavour, bits)
		}
		pn, err := hvNatPlus(p)
		if err != nil {
			return nil, err
		}
		qn, err := hvNatPlus(q)
		if err != nil {
			return nil, err
		}
		k := &hvKey{flavour: flavour, bits: bits}
		if k.group, err = znstar.NewPaillierGroup(pn, qn); err != nil {
			return nil, err
		}
		if bits >= 3072 {
			k.sk, err = paillier.NewSecretKey(k.group)
		} else {
			k.sk, err = paillier.NewLegacySecretKey(k.group)
		}
		if err != nil {
			return nil, err
		}
		k.pk = k.sk.Public()
		return k, nil
	}
	return nil, fmt.Errorf("%s: no %s %d key stored", path, flavour, bits)
}

// ---- builders --------------------------------------------------------------------------

type hvBuilder struct {
	*builder
	thorough bool
}

func (h *hvBuilder) hrng(stream string, idx int) *vh.Rng { return h.rng("heavy/"+stream, idx) }

func (h *hvBuilder) putSK(desc string, sk *paillier.SecretKey) {
	put(h.builder, "paillier-secretkey", desc, sk, hvEqSK, func(v *paillier.SecretKey) string { return hvBits(func() int { return hvSKBits(v) }) })
}

func (h *hvBuilder) putPK(desc string, pk *paillier.PublicKey) {
	put(h.builder, "paillier-publickey", desc, pk, hvEqPK, func(v *paillier.PublicKey) string { return hvBits(func() int { return hvPKBits(v) }) })
}

func (h *hvBuilder) putCt(desc string, c *paillier.Ciphertext) {
	put(h.builder, "paillier-ciphertext", desc, c, hvEqCt, func(v *paillier.Ciphertext) string { return hvBits(func() int { return hvCtBits(v) }) })
}

func (h *hvBuilder) putPt(desc string, p *paillier.Plaintext) {
	put(h.builder, "paillier-plaintext", desc, p, hvEqPt, func(v *paillier.Plaintext) string { return hvBits(func() int { return hvNP(v.Modulus()) }) })
}

func (h *hvBuilder) putNonce(desc string, n *paillier.Nonce) {
	put(h.builder, "paillier-nonce", desc, n, hvEqNo, func(v *paillier.Nonce) string { return hvBits(func() int { return hvNP(v.Value().Modulus()) }) })
}

// encryptions: plaintexts 0, 1, N-1 and a random one under nonces from the seeded rng, encrypted
// with the secret key (CRT path; the ciphertext is the same as on the public-key path).
func (h *hvBuilder) encryptions(name string, sk *paillier.SecretKey, idx int, all bool) (pts []*paillier.Plaintext, nonces []*paillier.Nonce, cts []*paillier.Ciphertext) {
	r := h.hrng("encrypt", idx)
	N := sk.Group().N()
	nm1, err := N.Nat().Decrement()
	if err != nil {
		sampleError("paillier-plaintext", err)
		return nil, nil, nil
	}
	rnd, err := num.N().FromBig(r.BigBelow(N.Big()))
	if err != nil {
		sampleError("paillier-plaintext", err)
		return nil, nil, nil
	}
	type pl struct {
		desc string
		v    *num.Nat
	}
	for _, p := range []pl{{"0", num.N().FromUint64(0)}, {"N-1", nm1}, {"1", num.N().FromUint64(1)}, {"random", rnd}} {
		pt, err := paillier.NewPlaintextFromNat(p.v, N)
		if err != nil {
			sampleError("paillier-plaintext", fmt.Sprintf("%s %s: %v", name, p.desc, err))
			continue
		}
		nonce, err := sk.SampleNonce(io.Reader(r))
		if err != nil {
			sampleError("paillier-nonce", fmt.Sprintf("%s: %v", name, err))
			continue
		}
		ct, err := sk.EncryptWithNonce(pt, nonce)
		if err != nil {
			sampleError("paillier-ciphertext", fmt.Sprintf("%s Enc(%s): %v", name, p.desc, err))
			continue
		}
		pts, nonces, cts = append(pts, pt), append(nonces, nonce), append(cts, ct)
		h.putCt(fmt.Sprintf("%s: Enc(%s; seeded nonce)", name, p.desc), ct)
		if all || p.desc == "N-1" {
			h.putPt(fmt.Sprintf("%s: plaintext %s", name, p.desc), pt)
		}
		if all || p.desc == "0" {
			h.putNonce(fmt.Sprintf("%s: seeded nonce #%d", name, len(nonces)-1), nonce)
		}
	}
	return pts, nonces, cts
}

// structures: the znstar groups / elements and modular arithmetic objects reachable from a key
// pair and one of its ciphertexts / nonces.
func (h *hvBuilder) structures(name string, sk *paillier.SecretKey, ct *paillier.Ciphertext, nonce *paillier.Nonce) {
	gk := sk.Group()
	gu := sk.Public().Group()
	put(h.builder, "znstar-pailliergroup-known", name+": sk.Group()", gk, hvEqPGK,
		func(v *znstar.PaillierGroupKnownOrder) string { return hvBits(func() int { return hvNP(v.N()) }) })
	put(h.builder, "znstar-pailliergroup-unknown", name+": pk.Group()", gu, hvEqPGU,
		func(v *znstar.PaillierGroupUnknownOrder) string { return hvBits(func() int { return hvNP(v.N()) }) })
	ng := sk.Public().NonceGroup()
	put(h.builder, "znstar-rsagroup-unknown", name+": pk.NonceGroup()", ng, hvEqRGU,
		func(v *znstar.RSAGroupUnknownOrder) string { return hvBits(func() int { return hvNP(v.Modulus()) }) })
	put(h.builder, "modular-oddprimesquarefactors", name+": sk.Group().Arithmetic()", gk.Arithmetic(), cborEq[*modular.OddPrimeSquareFactors],
		func(v *modular.OddPrimeSquareFactors) string {
			return hvBits(func() int { return new(big.Int).Mul(v.P.Factor.Big(), v.Q.Factor.Big()).BitLen() })
		})
	// SimpleModulus / numct.Modulus carry a bare modulus M: modbits is the bit length of M itself
	// (N for the nonce group, N^2 for the ciphertext group)
	simpleFacts := func(v *modular.SimpleModulus) string { return hvBits(func() int { return hvModulusBits(v.Modulus()) }) }
	put(h.builder, "modular-simple", name+": pk.NonceGroup().Arithmetic() (mod N)", ng.Arithmetic(), cborEq[*modular.SimpleModulus], simpleFacts)
	put(h.builder, "modular-simple", name+": pk.Group().Arithmetic() (mod N^2)", gu.Arithmetic(), cborEq[*modular.SimpleModulus], simpleFacts)
	put(h.builder, "numct-modulus", name+": pk.NonceGroup().ModulusCT() (N)", ng.ModulusCT(), cborEq[*numct.Modulus],
		func(v *numct.Modulus) string { return hvBits(func() int { return hvModulusBits(v) }) })
	if ct != nil {
		put(h.builder, "znstar-paillierelement-unknown", name+": ciphertext.Value()", ct.Value(), hvEqPEU,
			func(v *znstar.PaillierGroupElementUnknownOrder) string {
				return hvBits(func() int { return hvNP(v.N()) })
			})
		if ek, err := ct.Value().LearnOrder(gk); err != nil {
			sampleError("znstar-paillierelement-known", err)
		} else {
			put(h.builder, "znstar-paillierelement-known", name+": ciphertext.Value().LearnOrder(sk.Group())", ek, hvEqPEK,
				func(v *znstar.PaillierGroupElementKnownOrder) string {
					return hvBits(func() int { return hvNP(v.N()) })
				})
		}
	}
	if nonce != nil {
		put(h.builder, "znstar-rsaelement-unknown", name+": nonce.Value()", nonce.Value(), hvEqREU,
			func(v *znstar.RSAGroupElementUnknownOrder) string {
				return hvBits(func() int { return hvNP(v.Modulus()) })
			})
	}
}

// ringPedersen: the intcom keys of a CGGMP21 auxiliary information and the known-order RSA
// group / element / arithmetic inside the trapdoor key.
func (h *hvBuilder) ringPedersen(name string, td *intcom.TrapdoorKey, cks map[ID]*intcom.CommitmentKey) {
	put(h.builder, "intcom-trapdoorkey", name+": RingPedersenSecretKey()", td, func(x, y *intcom.TrapdoorKey) bool { return x.Equal(y) },
		func(v *intcom.TrapdoorKey) string { return hvBits(func() int { return hvNP(v.Group().Modulus()) }) })
	ckFacts := func(v *intcom.CommitmentKey) string { return hvBits(func() int { return hvNP(v.Group().Modulus()) }) }
	eqCK := func(x, y *intcom.CommitmentKey) bool { return x.Equal(y) }
	put(h.builder, "intcom-commitmentkey", name+": RingPedersenSecretKey().Export()", td.Export(), eqCK, ckFacts)
	ids := make([]ID, 0, len(cks))
	for id := range cks {
		ids = append(ids, id)
	}
	slices.Sort(ids)
	for i, id := range ids {
		if i > 0 && !h.thorough {
			break
		}
		put(h.builder, "intcom-commitmentkey", fmt.Sprintf("%s: RingPedersenPublicKey(%d)", name, id), cks[id], eqCK, ckFacts)
	}
	rg := td.Group()
	put(h.builder, "znstar-rsagroup-known", name+": RingPedersenSecretKey().Group()", rg, hvEqRGK,
		func(v *znstar.RSAGroupKnownOrder) string { return hvBits(func() int { return hvNP(v.Modulus()) }) })
	put(h.builder, "modular-oddprimefactors", name+": RingPedersenSecretKey().Group().Arithmetic()", rg.Arithmetic(), cborEq[*modular.OddPrimeFactors],
		func(v *modular.OddPrimeFactors) string {
			return hvBits(func() int { return hvModulusBits(v.Modulus()) })
		})
	tk, err := td.T().LearnOrder(rg)
	if err != nil {
		sampleError("znstar-rsaelement-known", err)
	} else {
		put(h.builder, "znstar-rsaelement-known", name+": T().LearnOrder(Group())", tk, hvEqREK,
			func(v *znstar.RSAGroupElementKnownOrder) string {
				return hvBits(func() int { return hvNP(v.Modulus()) })
			})
	}
	put(h.builder, "znstar-rsaelement-unknown", name+": RingPedersenSecretKey().S()", td.S(), hvEqREU,
		func(v *znstar.RSAGroupElementUnknownOrder) string {
			return hvBits(func() int { return hvNP(v.Modulus()) })
		})
	// a commitment with its message and witness
	r := h.hrng("intcom", 0)
	ck := td.Export()
	msg, err := intcom.NewMessage(num.Z().FromUint64(r.Uint64()).Neg())
	if err != nil {
		sampleError("intcom-message", err)
		return
	}
	wit, err := ck.SampleWitness(io.Reader(r))
	if err != nil {
		sampleError("intcom-witness", err)
		return
	}
	com, err := td.CommitWithWitness(msg, wit)
	if err != nil {
		sampleError("intcom-commitment", err)
		return
	}
	put(h.builder, "intcom-message", name+": negative 64-bit message", msg, func(x, y *intcom.Message) bool { return x.Equal(y) }, nil)
	put(h.builder, "intcom-witness", name+": SampleWitness", wit, func(x, y *intcom.Witness) bool { return x.Equal(y) }, nil)
	put(h.builder, "intcom-commitment", name+": trapdoor CommitWithWitness", com, func(x, y *intcom.Commitment) bool { return x.Equal(y) },
		func(v *intcom.Commitment) string { return hvBits(func() int { return hvNP(v.Value().Modulus()) }) })
}

// ---- proofs ------------------------------------------------------------------------------

// proofNthRoot: pkg/proofs/paillier/nthroot over the known-order group of a stored key (CRT):
// statement x = w^N, commitment, response for a seeded 128-bit challenge; the transcript is
// verified before it is used.
func (h *hvBuilder) proofNthRoot(name string, sk *paillier.SecretKey) {
	type A = *modular.OddPrimeSquareFactors
	r := h.hrng("proof-nthroot", 0)
	g := sk.Group()
	proto, err := nthroot.NewProtocol(g, io.Reader(r))
	if err != nil {
		sampleError("proof-nthroot", err)
		return
	}
	w, err := g.Random(io.Reader(r))
	if err != nil {
		sampleError("proof-nthroot", err)
		return
	}
	x, err := g.NthResidue(w)
	if err != nil {
		sampleError("proof-nthroot", err)
		return
	}
	st, err := nthroot.NewStatement(x)
	if err != nil {
		sampleError("proof-nthroot", err)
		return
	}
	wit, err := nthroot.NewWitness(w)
	if err != nil {
		sampleError("proof-nthroot", err)
		return
	}
	com, state, err := proto.ComputeProverCommitment(st, wit)
	if err != nil {
		sampleError("proof-nthroot", err)
		return
	}
	ch := r.Bytes(proto.GetChallengeBytesLength())
	resp, err := proto.ComputeProverResponse(st, wit, com, state, ch)
	if err != nil {
		sampleError("proof-nthroot", err)
		return
	}
	if err := proto.Verify(st, com, ch, resp); err != nil {
		sampleError("proof-nthroot", fmt.Sprintf("honest transcript does not verify: %v", err))
	}
	bits := func(e *znstar.PaillierGroupElement[A]) string { return hvBits(func() int { return hvNP(e.N()) }) }
	put(h.builder, "proof-nthroot-statement", name+": x = w^N", st, func(a, b *nthroot.Statement[A]) bool { return a.X.Equal(b.X) },
		func(v *nthroot.Statement[A]) string { return bits(v.X) })
	put(h.builder, "proof-nthroot-witness", name+": w", wit, func(a, b *nthroot.Witness[A]) bool { return a.W.Equal(b.W) },
		func(v *nthroot.Witness[A]) string { return bits(v.W) })
	put(h.builder, "proof-nthroot-commitment", name+": a = s^N", com, func(a, b *nthroot.Commitment[A]) bool { return a.A.Equal(b.A) },
		func(v *nthroot.Commitment[A]) string { return bits(v.A) })
	put(h.builder, "proof-nthroot-response", name+": z = s w^e", resp, func(a, b *nthroot.Response[A]) bool { return a.Z.Equal(b.Z) },
		func(v *nthroot.Response[A]) string { return bits(v.Z) })
}

// proofEnc: pkg/proofs/cggmp21/enc (Paillier encryption in range, CGGMP21 figure 11) with the
// stored Paillier secret key of a CGGMP21 shard as encryption key (CRT), the ring-Pedersen key of
// a peer, l = 256, epsilon = 512 (cggmp21.NewParameters for k256).
func (h *hvBuilder) proofEnc(name string, sk *paillier.SecretKey, ck *intcom.CommitmentKey) {
	r := h.hrng("proof-enc", 0)
	proto, err := cgenc.NewProtocol(sk, ck, 256, 512, io.Reader(r))
	if err != nil {
		sampleError("proof-enc", err)
		return
	}
	kv, err := num.Z().FromBig(new(big.Int).Neg(r.BigBits(200)))
	if err != nil {
		sampleError("proof-enc", err)
		return
	}
	k, err := paillier.NewPlaintextSymmetric(kv, sk.Group().N())
	if err != nil {
		sampleError("proof-enc", err)
		return
	}
	rho, err := sk.SampleNonce(io.Reader(r))
	if err != nil {
		sampleError("proof-enc", err)
		return
	}
	K, err := sk.EncryptWithNonce(k, rho)
	if err != nil {
		sampleError("proof-enc", err)
		return
	}
	st, err := cgenc.NewStatement(K)
	if err != nil {
		sampleError("proof-enc", err)
		return
	}
	wit, err := cgenc.NewWitness(k, rho)
	if err != nil {
		sampleError("proof-enc", err)
		return
	}
	com, state, err := proto.ComputeProverCommitment(st, wit)
	if err != nil {
		sampleError("proof-enc", err)
		return
	}
	ch := r.Bytes(16) // 128-bit challenge domain of the implementation
	resp, err := proto.ComputeProverResponse(st, wit, com, state, ch)
	if err != nil {
		sampleError("proof-enc", err)
		return
	}
	if err := proto.Verify(st, com, ch, resp); err != nil {
		sampleError("proof-enc", fmt.Sprintf("honest transcript does not verify: %v", err))
	}
	put(h.builder, "proof-enc-statement", name+": K = Enc(-(200-bit k))", st, cborEq[*cgenc.Statement], nil)
	put(h.builder, "proof-enc-commitment", name+": (S, A, C)", com, cborEq[*cgenc.Commitment], nil)
	put(h.builder, "proof-enc-response", name+": (z1, z2, z3)", resp, cborEq[*cgenc.Response], nil)
}

// proofFac: pkg/proofs/cggmp21/fac (no small factor, CGGMP21 figure 26) for the stored Paillier
// key of a CGGMP21 shard under the ring-Pedersen key of a peer.
func (h *hvBuilder) proofFac(name string, sk *paillier.SecretKey, ck *intcom.CommitmentKey) {
	r := h.hrng("proof-fac", 0)
	proto, err := cgfac.NewProtocol(ck, 256, 512, io.Reader(r))
	if err != nil {
		sampleError("proof-fac", err)
		return
	}
	st, err := cgfac.NewStatement(sk.Public())
	if err != nil {
		sampleError("proof-fac", err)
		return
	}
	wit, err := cgfac.NewWitness(sk)
	if err != nil {
		sampleError("proof-fac", err)
		return
	}
	com, state, err := proto.ComputeProverCommitment(st, wit)
	if err != nil {
		sampleError("proof-fac", err)
		return
	}
	ch := r.Bytes(proto.GetChallengeBytesLength())
	resp, err := proto.ComputeProverResponse(st, wit, com, state, ch)
	if err != nil {
		sampleError("proof-fac", err)
		return
	}
	if err := proto.Verify(st, com, ch, resp); err != nil {
		sampleError("proof-fac", fmt.Sprintf("honest transcript does not verify: %v", err))
	}
	put(h.builder, "proof-fac-statement", name+": N0", st, cborEq[*cgfac.Statement], nil)
	put(h.builder, "proof-fac-commitment", name+": (P, Q, A, B, T, sigma)", com, func(a, b *cgfac.Commitment) bool { return a.Equal(b) }, nil)
	put(h.builder, "proof-fac-response", name+": (z1, z2, w1, w2, v)", resp, cborEq[*cgfac.Response], nil)
}

// ---- entry point ---------------------------------------------------------------------------

// heavySamples returns the Paillier-based samples. quick: one shard / auxiliary information per
// scheme, the keys and structures of the Lindell17 primary, the nth-root and enc transcripts, one
// 2048-bit and one 3072-bit stored c16 key (about 2.5 s, half of it decoding the stored files);
// thorough: every holder's shard, the fac transcript, every flavour of corpus/c16/keys.txt.
func heavySamples(seed int64, tier string) []Sample {
	h := &hvBuilder{builder: &builder{seed: seed, reps: 1}, thorough: tier == "thorough"}
	if h.thorough {
		h.reps = 5
	}

	// -- Lindell17 shards (stored trusted-dealer material, 3072-bit Paillier keys)
	h.group("heavy-lindell17", func() {
		m, err := keys.LoadL17[hvP, hvB, hvS]("k256", hvPolicy)
		if err != nil {
			sampleError("lindell17shard-k256", err)
			return
		}
		shardFacts := func(v *hvL17Shard) string { return hvBits(func() int { return hvSKBits(v.PaillierSecretKey()) }) }
		for i, id := range m.Holders {
			sh := m.Shards[id]
			if i > 0 && !h.thorough {
				break
			}
			name := fmt.Sprintf("stored lindell17 k256 %s shard of %d", hvPolicy, id)
			put(h.builder, "lindell17shard-k256", name, sh, func(x, y *hvL17Shard) bool { return x.Equal(y) }, shardFacts)
			put(h.builder, "lindell17aux-k256", name+": AuxiliaryInfo", &sh.AuxiliaryInfo, func(x, y *lindell17.AuxiliaryInfo) bool { return x.Equal(y) },
				func(v *lindell17.AuxiliaryInfo) string {
					return hvBits(func() int { return hvSKBits(v.PaillierSecretKey()) })
				})
			sk := sh.PaillierSecretKey()
			h.putSK(name+": PaillierSecretKey()", sk)
			h.putPK(name+": PaillierSecretKey().Public()", sk.Public())
			peers := sh.PaillierPublicKeys().Keys()
			slices.Sort(peers)
			enc := sh.EncryptedShares()
			for j, peer := range peers {
				if j > 0 && !h.thorough {
					break
				}
				pk, _ := sh.PaillierPublicKeys().Get(peer)
				h.putPK(fmt.Sprintf("%s: PaillierPublicKeys()[%d]", name, peer), pk)
				cts, _ := enc.Get(peer)
				for c, ct := range cts {
					h.putCt(fmt.Sprintf("%s: EncryptedShares()[%d][%d]", name, peer, c), ct)
				}
			}
			if i == 0 {
				_, nonces, cts := h.encryptions(name, sk, 0, true)
				if len(cts) > 1 {
					h.structures(name, sk, cts[1], nonces[1])
				}
				if h.thorough {
					h.proofNthRoot(name, sk)
				}
			}
		}
	})

	// -- CGGMP21 shards (stored trusted-dealer material: Paillier-Blum keys and ring-Pedersen parameters)
	h.group("heavy-cggmp21", func() {
		if !h.thorough {
			return // decoding the stored file and one shard costs > 3 s: thorough tier only
		}
		m, err := keys.LoadCggmp[hvP, hvB, hvS]("k256", hvPolicy)
		if err != nil {
			sampleError("cggmp21shard-k256", err)
			return
		}
		for i, id := range m.Holders {
			sh := m.Shards[id]
			if i > 0 && !h.thorough {
				break
			}
			name := fmt.Sprintf("stored cggmp21 k256 %s shard of %d", hvPolicy, id)
			put(h.builder, "cggmp21shard-k256", name, sh, func(x, y *hvCgShard) bool { return x.Equal(y) },
				func(v *hvCgShard) string {
					return hvBits(func() int { return hvSKBits(v.AuxInfo().PaillierSecretKey()) })
				})
			aux := sh.AuxInfo()
			put(h.builder, "cggmp21aux-k256", name+": AuxInfo()", aux, func(x, y *cggmp21.AuxInfo) bool { return x.Equal(y) },
				func(v *cggmp21.AuxInfo) string { return hvBits(func() int { return hvSKBits(v.PaillierSecretKey()) }) })
			sk := aux.PaillierSecretKey()
			h.putSK(name+": AuxInfo().PaillierSecretKey()", sk)
			if i == 0 {
				var peers []ID
				for p := range aux.PaillierPublicKeys() {
					peers = append(peers, p)
				}
				slices.Sort(peers)
				for j, p := range peers {
					if j > 0 && !h.thorough {
						break
					}
					h.putPK(fmt.Sprintf("%s: AuxInfo().PaillierPublicKeys()[%d]", name, p), aux.PaillierPublicKeys()[p])
				}
				h.ringPedersen(name, aux.RingPedersenSecretKey(), aux.RingPedersenPublicKeys())
				var peerCK *intcom.CommitmentKey
				for _, p := range peers {
					if p != id {
						peerCK = aux.RingPedersenPublicKeys()[p]
						break
					}
				}
				if peerCK == nil {
					peerCK = aux.RingPedersenSecretKey().Export()
				}
				h.proofEnc(name, sk, peerCK)
				if h.thorough { // > 1 s with 3072-bit moduli
					h.proofFac(name, sk, peerCK)
				}
			}
		}
	})

	// -- stored c16 keys: general / Blum / safe-prime moduli of 2048 and 3072 bits
	type spec struct {
		flavour string
		bits    int
	}
	specs := []spec{{"general", 2048}, {"blum", 3072}}
	if h.thorough {
		specs = []spec{{"general", 2048}, {"blum", 2048}, {"safe", 2048}, {"general", 3072}, {"blum", 3072}, {"safe", 3072}}
	}
	for i, s := range specs {
		h.group("heavy-c16-"+s.flavour, func() {
			k, err := hvC16Key(s.flavour, s.bits)
			if err != nil {
				sampleError("paillier-secretkey", err)
				return
			}
			if s.bits >= 3072 { // the key decoders refuse smaller moduli (NewSecretKey / NewPublicKey floor)
				h.putSK(k.name()+": NewSecretKey(NewPaillierGroup(p, q))", k.sk)
				h.putPK(k.name()+": sk.Public()", k.pk)
			}
			_, nonces, cts := h.encryptions(k.name(), k.sk, 1+i, false)
			if len(cts) > 1 {
				h.structures(k.name(), k.sk, cts[1], nonces[1])
			}
		})
	}
	return h.out
}

// ---- modulus-size floor ----------------------------------------------------------------------

// floorStream is the CBOR encoding of a key the decoders must refuse: a Paillier key whose
// modulus is shorter than base.IFCKeyLength (built with the legacy constructor from the stored
// 2048-bit material; marshalling it works, decoding goes through NewPublicKey / NewSecretKey).
type floorStream struct {
	Type  string
	Desc  string
	Bytes []byte
}

func heavyFloorStreams() []floorStream {
	var out []floorStream
	for _, fl := range []string{"general", "blum"} {
		k, err := hvC16Key(fl, 2048)
		if err != nil {
			sampleError("paillier-floor", err)
			continue
		}
		if b, err := serde.MarshalCBOR(k.pk); err == nil {
			out = append(out, floorStream{"paillier-publickey", k.name() + " legacy public key", b})
		}
		if b, err := serde.MarshalCBOR(k.sk); err == nil {
			out = append(out, floorStream{"paillier-secretkey", k.name() + " legacy secret key", b})
		}
	}
	return out
}
