// Command c12 — correspondence check for property C12 (wire formats round-trip
// deterministically; decoding validates like construction).
//
// It drives serde.MarshalCBOR / serde.UnmarshalCBOR[T] of the real library on (a) values built
// through public constructors and short protocol runs (values.go), (b) mutated encodings of
// them (mutate.go), (c) random generic CBOR items and damaged generic streams, and relates the
// observations to the extracted Coq model (coq/model/Cbor.v, Schema.v) — one-sided, exactly as
// DESIGN §5 C12 states:
//
//	(i)   the implementation never panics;
//	(ii)  if it accepts, its own re-encoding of the decoded value satisfies the model's validity
//	      predicate for that type, and decoding the re-encoding gives an Equal value that
//	      re-encodes byte-identically;
//	(iii) every stream the model classifies as a malformed container (indefinite length,
//	      duplicate key, trailing bytes, over-deep nesting, reserved head, truncation, invalid
//	      UTF-8, bignum tag, oversize), as carrying an unknown struct field, or as violating a
//	      refusing constructor rule (rule number < 100) is rejected by the implementation;
//	(iv)  for generated valid values: model bytes = library bytes, the model's decoder returns the
//	      same item tree, and the value is valid for the model.
//
// "Implementation rejects => model rejects" is deliberately not required.
package main

import (
	"fmt"
	"math/big"
	"os"
	"sort"
	"strconv"
	"strings"
	"time"

	"github.com/bronlabs/bron-crypto/pkg/base"
	"github.com/bronlabs/bron-crypto/pkg/base/serde"
	"github.com/fxamacker/cbor/v2"

	"verif/harness/internal/drive"
	"verif/harness/internal/vh"
)

const (
	qK256 = "fffffffffffffffffffffffffffffffebaaedce6af48a03bbfd25e8cd0364141"
	qP256 = "ffffffff00000000ffffffffffffffffbce6faada7179e84f3b9cac2fc632551"
	qBLS  = "73eda753299d7d483339d80809a1d80553bda402fffe5bfeffffffff00000001"
)

// curveParams gives (scalar length, point length, group order) for the type's curve suffix;
// ok=false: the model has no leaf description for it and the type is treated as generic.
func curveParams(typ string) (slen, plen int, q string, ok bool) {
	i := strings.IndexByte(typ, '-')
	if i < 0 {
		return 0, 0, "0", true // no curve-dependent leaves
	}
	switch typ[i+1:] {
	case "k256":
		return 32, 33, qK256, true
	case "p256":
		return 32, 33, qP256, true
	case "bls12381", "bls12381g1":
		return 32, 48, qBLS, true
	case "edwards25519":
		// little-endian scalars: only the lengths are modelled (q = 2^256 makes the range rule vacuous)
		return 32, 32, "1" + strings.Repeat("0", 64), true
	}
	return 0, 0, "0", false
}

// modelled reports whether the driver has a schema for the type name.
// shallowGroups: the type-name prefixes of gen/SerdeDtos.dto_groups (types the model knows by their wire
// field names only), read from the table block of the generated file.
var shallowGroupsCache []string

func shallowGroups() []string {
	if shallowGroupsCache != nil {
		return shallowGroupsCache
	}
	root := os.Getenv("VERIF_ROOT")
	if root == "" {
		root = "."
	}
	b, err := os.ReadFile(root + "/coq/gen/SerdeDtos.v")
	shallowGroupsCache = []string{}
	if err != nil {
		return shallowGroupsCache
	}
	on := false
	for _, l := range strings.Split(string(b), "\n") {
		switch {
		case l == "(*TABLE":
			on = true
		case l == "TABLE*)":
			on = false
		case on && strings.HasPrefix(l, "group "):
			if f := strings.Fields(l); len(f) == 3 {
				shallowGroupsCache = append(shallowGroupsCache, f[1])
			}
		}
	}
	return shallowGroupsCache
}

func isShallow(typ string) bool {
	for _, g := range shallowGroups() {
		if strings.HasPrefix(typ, g) {
			return true
		}
	}
	return false
}

func modelled(typ string) bool {
	if isShallow(typ) {
		return true
	}
	base := typ
	if i := strings.IndexByte(typ, '-'); i >= 0 {
		base = typ[:i]
	}
	switch base {
	case "threshold", "unanimity", "cnf", "hierarchical", "boolexpr", "msp", "kwshare", "feldmanshare",
		"feldmanlifted", "feldmanvv", "pedersenvv", "pedersenshare", "pedersenlifted", "dkls23partialsig", "basepublic", "baseshard", "dkls23shard", "schnorrshard", "ecdsasig", "matrix", "sqmatrix", "mvmatrix",
		"nat", "int", "natplus", "uint", "scalar", "point":
		_, _, _, ok := curveParams(typ)
		return ok
	}
	return false
}

func tLine(id int, typ string, sm bool, b []byte) string {
	slen, plen, q, ok := curveParams(typ)
	name := typ
	if isShallow(typ) {
		slen, plen, q = 0, 0, "0"
	} else if !ok || !modelled(typ) {
		name, slen, plen, q = "generic", 0, 0, "0"
	}
	s := "0"
	if sm {
		s = "1"
	}
	return fmt.Sprintf("T %d %s %d %d %s %s %s", id, name, slen, plen, q, s, vh.Hex(b))
}

// ---- cases ----------------------------------------------------------------------------------

type tcase struct {
	class  string // "valid" | "mut" | "any-enc" | "any-mut"
	sample *Sample
	mut    mutation
	stream []byte
	sm     bool  // share-matches-public-data flag handed to the model for this stream
	tree   *node // valid / any-enc: the generic tree of the value
	// driver line indices (batch 1), -1 if absent
	lE, lG, lT int
	// observations
	dec     DecResult
	anyErr  bool
	anyPan  string
	lT2     int // batch 2: model verdict on the implementation's re-encoding
	caseTxt string
	// class "elem": one crafted payload against one curve element type (elements.go)
	et  *elemType
	pay payload
	// class "sweep" / "sweep-honest": one message of a protocol run replaced on the wire (sweep.go)
	sw     *sweepSlot
	swNote string
}

func (c *tcase) canon() string {
	if c.caseTxt != "" {
		return c.caseTxt
	}
	switch c.class {
	case "valid", "mut":
		sm := "1"
		if !c.sm {
			sm = "0"
		}
		c.caseTxt = fmt.Sprintf("typed|%s|%s|%s|%s|%s|%s", c.sample.Type, vh.Hex(c.sample.Bytes), vh.Hex(c.stream), sm, c.mut.Kind, c.mut.Path)
	case "elem":
		c.caseTxt = fmt.Sprintf("elem|%s|%s|%s", c.et.name, c.pay.kind, vh.Hex(c.pay.b))
	case "sweep", "sweep-honest":
		c.caseTxt = fmt.Sprintf("sweep|%s|%d|%d|%d|%s|%s|%s", c.sw.proto.Name, c.sw.round, uint64(c.sw.from), uint64(c.sw.to), c.mut.Kind, c.mut.Path, vh.Hex(c.stream))
	default:
		c.caseTxt = fmt.Sprintf("any|%s|%s", vh.Hex(c.stream), c.mut.Kind)
	}
	return c.caseTxt
}

// ---- generic values through the library's encoder ---------------------------------------------

func toAny(x *node) any {
	switch x.kind {
	case 'u':
		return x.n
	case 'n':
		if x.n < 1<<63 {
			return int64(-1) - int64(x.n)
		}
		z := new(big.Int).SetUint64(x.n)
		return z.Neg(z.Add(z, big.NewInt(1)))
	case 'b':
		return append([]byte{}, x.bs...)
	case 't':
		return string(x.bs)
	case 'a':
		out := make([]any, len(x.kids))
		for i, k := range x.kids {
			out[i] = toAny(k)
		}
		return out
	case 'm':
		out := map[any]any{}
		for _, p := range x.pairs {
			out[toAny(p[0])] = toAny(p[1])
		}
		return out
	case 'g':
		return cbor.Tag{Number: x.n, Content: toAny(x.kids[0])}
	default:
		switch x.n {
		case 20:
			return false
		case 21:
			return true
		case 22:
			return nil
		}
		return cbor.SimpleValue(x.n)
	}
}

var intBoundaries = []uint64{0, 1, 23, 24, 255, 256, 65535, 65536, 1<<32 - 1, 1 << 32, 1<<63 - 1, 1 << 63, 1<<64 - 1}

var textPool = []string{"", "a", "b", "aa", "threshold", "shareholders", "é", "日本", "abcdefghijklmnopqrstuvwx", "abcdefghijklmnopqrstuvw", strings.Repeat("k", 255), strings.Repeat("k", 256), "\U0001F600"}

func genInt(r *vh.Rng) uint64 {
	switch r.Intn(3) {
	case 0:
		return intBoundaries[r.Intn(len(intBoundaries))]
	case 1:
		return uint64(r.Intn(1000))
	}
	return r.Uint64() >> uint(r.Intn(64))
}

// genTree draws an item the model supports and the library can emit from a Go value: scalar map
// keys (non-negative ints as uint64, negative as int64, text), tags other than 0..3.
func genTree(r *vh.Rng, depth int) *node {
	k := r.Intn(10)
	if depth <= 0 && k >= 4 && k <= 6 {
		k = r.Intn(4)
	}
	switch k {
	case 0:
		return &node{kind: 'u', n: genInt(r)}
	case 1:
		return &node{kind: 'n', n: genInt(r)}
	case 2:
		return &node{kind: 'b', bs: r.Bytes([]int{0, 1, 23, 24, 32, 255, 256}[r.Intn(7)])}
	case 3:
		return &node{kind: 't', bs: []byte(textPool[r.Intn(len(textPool))])}
	case 4:
		n := r.Intn(5)
		if r.Chance(1, 20) {
			n = 24 + r.Intn(3)
		}
		x := &node{kind: 'a'}
		for i := 0; i < n; i++ {
			x.kids = append(x.kids, genTree(r, depth-1))
		}
		return x
	case 5, 6:
		n := r.Intn(6)
		if r.Chance(1, 20) {
			n = 24 + r.Intn(3)
		}
		x := &node{kind: 'm'}
		seen := map[string]bool{}
		for i := 0; i < n; i++ {
			var key *node
			switch r.Intn(3) {
			case 0:
				key = &node{kind: 'u', n: genInt(r)}
			case 1:
				key = &node{kind: 'n', n: genInt(r) >> 1} // int64 range so that the Go key is hashable
			default:
				key = &node{kind: 't', bs: []byte(textPool[r.Intn(len(textPool))])}
			}
			ks := gshow(key)
			if seen[ks] {
				continue
			}
			seen[ks] = true
			x.pairs = append(x.pairs, [2]*node{key, genTree(r, depth-1)})
		}
		return x
	case 7:
		return &node{kind: 'g', n: 4 + genInt(r)%(1<<62), kids: []*node{genTree(r, depth)}}
	case 8:
		return &node{kind: 's', n: []uint64{20, 21, 22, 23, 0, 16, 19, 32, 100, 255}[r.Intn(10)]}
	default:
		// a chain of arrays/maps up to the nesting limit
		d := 1 + r.Intn(32)
		x := &node{kind: 'u', n: uint64(d)}
		for i := 0; i < d; i++ {
			if r.Bool() {
				x = &node{kind: 'a', kids: []*node{x}}
			} else {
				x = &node{kind: 'm', pairs: [][2]*node{{{kind: 'u', n: uint64(i)}, x}}}
			}
		}
		return x
	}
}

func hasTagOrOddSimple(x *node) bool {
	switch x.kind {
	case 'g':
		return true
	case 's':
		return x.n == 23
	case 'a':
		for _, k := range x.kids {
			if hasTagOrOddSimple(k) {
				return true
			}
		}
	case 'm':
		for _, p := range x.pairs {
			if hasTagOrOddSimple(p[0]) || hasTagOrOddSimple(p[1]) {
				return true
			}
		}
	}
	return false
}

// ---- main -------------------------------------------------------------------------------------

func main() {
	a := vh.ParseArgs()
	res := vh.NewResult("C12", a.Seed, a.Tier)
	res.Rule = "valid: every value of values.go (public constructors, trusted-dealer and protocol runs) — library bytes vs model encoder/decoder/typed validity; " +
		"mut: each tree operator of mutate.go (wire-form variants, container damage, one-rule value changes) and byte-level damage applied to each sample; " +
		"any-enc/any-mut: random generic items through serde.MarshalCBOR[any] and damaged generic streams against serde.UnmarshalCBOR[any]. " +
		"non-trivial = the stream passes the model's generic decoder (valid, mut) / is a distinct item (any)"
	t0 := time.Now()
	phase := func(name string) {
		if os.Getenv("C12_TIMING") != "" {
			fmt.Fprintf(os.Stderr, "%8.2fs phase %s\n", time.Since(t0).Seconds(), name)
		}
		t0 = time.Now()
	}
	samples := buildSamples(a.Seed, a.Tier)
	phase("buildSamples")
	samples = append(samples, heavySamples(a.Seed, a.Tier)...)
	samples = append(samples, numSamples(a.Seed, a.Tier)...)
	phase("heavySamples")
	if a.Driver == "" {
		// no model driver given: list the samples and their implementation-side round trip
		for _, s := range samples {
			r := s.Dec(s.Bytes)
			fmt.Printf("%-28s %-40s len=%d err=%v nil=%v eq=%v rt=%v %s facts=%s panic=%s same=%v\n", s.Type, s.Desc, len(s.Bytes), r.Err, r.IsNil, r.EqOrig, r.RtOK, r.RtNote, r.Facts, r.Panic, string(r.Re) == string(s.Bytes))
		}
		return
	}
	if len(samples) == 0 {
		res.Mismatch(vh.Mismatch{ID: "setup", Kind: "corr", Key: "no-samples", Detail: "buildSamples returned nothing", What: "C12 correspondence (values)"})
		res.Write(a.Out)
		os.Exit(1)
	}
	var cases []*tcase
	if a.Replay != "" {
		c, err := replayCase(a.Replay, samples)
		if err != nil {
			res.Mismatch(vh.Mismatch{ID: "replay", Kind: "corr", Key: "bad-replay-file", Detail: err.Error(), What: "replay"})
			res.Write(a.Out)
			os.Exit(1)
		}
		cases = []*tcase{c}
	} else {
		cases = genCases(a, samples)
	}
	phase("genCases (incl. honest protocol runs)")
	evaluate(a, res, cases)
	phase("evaluate")
	res.Write(a.Out)
	if len(res.Mismatches) > 0 {
		os.Exit(1)
	}
}

func genCases(a vh.Args, samples []Sample) []*tcase {
	perOp, nByte, nAny, nAnyMut := 2, 10, 400, 1200
	if a.Tier == "thorough" {
		perOp, nByte, nAny, nAnyMut = 8, 40, 3000, 12000
	}
	if a.Search {
		perOp, nByte, nAny, nAnyMut = perOp*4, nByte*4, nAny*3, nAnyMut*4
	}
	var cases []*tcase
	mutated := map[string]int{}
	fixedDone := map[string]bool{}
	maxExpensive, maxPerType, maxMaps := 1, 4, 8
	numBoundaryBudget := 24
	if a.Tier == "thorough" || a.Search {
		maxExpensive, maxPerType, maxMaps = 4, 1<<30, 40
		numBoundaryBudget = 200
	}
	for i := range samples {
		s := &samples[i]
		tree, err := gdecode(s.Bytes)
		c := &tcase{class: "valid", sample: s, stream: s.Bytes, sm: true, tree: tree, mut: mutation{Kind: "none"}}
		if err != nil {
			c.tree = nil
		}
		cases = append(cases, c)
		if tree == nil {
			continue
		}
		// the smallest streams, once per type: empty map / array / strings, null, undefined, 0, nothing
		if !fixedDone[s.Type] {
			fixedDone[s.Type] = true
			for _, h := range []string{"a0", "f6", "f7", "80", "00", "40", "60", "", "a1f6f6", "a10000", "a16000", "81a0", "d913bda0", "f4"} {
				b := vh.UnHex(h)
				cases = append(cases, &tcase{class: "mut", sample: s, mut: mutation{Kind: "fixed-stream", Path: h, Bytes: b}, stream: b, sm: true})
			}
		}
		// types whose constructor does group arithmetic per decode: mutate only the first few samples
		mutated[s.Type]++
		if (expensive(s.Type) && mutated[s.Type] > maxExpensive) || mutated[s.Type] > maxPerType {
			continue
		}
		if veryExpensive(s.Type) && a.Tier != "thorough" && !a.Search {
			// one decode costs 50-500 ms (Paillier secret keys, known-order groups): only the
			// top-level fields null / dropped
			cases = append(cases, numericBoundaryCases(s, tree, 6)...)
			// (a removed component is refused before the expensive arithmetic starts, so these are cheap)
			refs := collect(&tree)
			cnt := 0
			for ri, x := range refs {
				if x.role != 'v' || strings.Count(x.path, "/") > 4 || cnt >= 10 {
					continue
				}
				cnt++
				root := tree.clone()
				rr := collect(&root)
				rr[ri].set(&node{kind: 's', n: 22})
				m := mutation{Kind: "field-null", Path: x.path, Bytes: gencode(root)}
				cases = append(cases, &tcase{class: "mut", sample: s, mut: m, stream: m.Bytes, sm: true})
				root = tree.clone()
				rr = collect(&root)
				for _, y := range rr {
					if y.x.kind != 'm' {
						continue
					}
					dropped := false
					for pi, pr := range y.x.pairs {
						if pr[1] == rr[ri].x {
							y.x.pairs = append(y.x.pairs[:pi:pi], y.x.pairs[pi+1:]...)
							m := mutation{Kind: "field-drop", Path: x.path, Bytes: gencode(root)}
							cases = append(cases, &tcase{class: "mut", sample: s, mut: m, stream: m.Bytes, sm: true})
							dropped = true
							break
						}
					}
					if dropped {
						break
					}
				}
			}
			continue
		}
		r := vh.NewRng(a.Seed, "C12", "mut/"+s.Type, i)
		heavy := len(s.Bytes) > 4000
		// every small unsigned value in turn: 0 and 1 are the boundary of most constructor rules
		{
			probe := tree.clone()
			refs := collect(&probe)
			cnt := 0
			for ri, x := range refs {
				if x.x.kind != 'u' || x.role == 'k' || cnt >= 24 {
					continue
				}
				cnt++
				tried := map[uint64]bool{x.x.n: true}
				for _, v := range []uint64{0, 1, 4, x.x.n + 1, x.x.n - 1} {
					if tried[v] {
						continue
					}
					tried[v] = true
					root := tree.clone()
					rr := collect(&root)
					rr[ri].x.n = v
					m := mutation{Kind: "uint-boundary", Path: rr[ri].path, Bytes: gencode(root)}
					cases = append(cases, &tcase{class: "mut", sample: s, mut: m, stream: m.Bytes, sm: true})
				}
			}
		}
		// every map in turn (nested ones too): one extra entry with a fresh key of the map's key type and
		// each of a few values of the value's kind and of neighbouring kinds; every boolean flipped
		{
			probe := tree.clone()
			refs := collect(&probe)
			nm, nb := 0, 0
			for ri, x := range refs {
				if x.x.kind == 's' && (x.x.n == 20 || x.x.n == 21) && nb < 24 {
					nb++
					root := tree.clone()
					rr := collect(&root)
					rr[ri].x.n = 41 - rr[ri].x.n
					m := mutation{Kind: "bool-flip", Path: x.path, Bytes: gencode(root)}
					cases = append(cases, &tcase{class: "mut", sample: s, mut: m, stream: m.Bytes, sm: true})
				}
				if x.x.kind != 'm' || len(x.x.pairs) == 0 || nm >= maxMaps {
					continue
				}
				nm++
				var vals []*node
				sib := x.x.pairs[0][1]
				if sib.kind == 's' && (sib.n == 20 || sib.n == 21) {
					vals = []*node{{kind: 's', n: 20}, {kind: 's', n: 21}}
				} else {
					vals = []*node{{kind: 'u', n: 0}, {kind: 's', n: 22}, {kind: 's', n: 20}, sib.clone()}
					switch sib.kind {
					case 'b', 't':
						vals = append(vals, &node{kind: sib.kind})
					case 'a', 'm':
						vals = append(vals, &node{kind: sib.kind})
					}
				}
				var key *node
				switch x.x.pairs[0][0].kind {
				case 'u', 'n':
					mx := uint64(0)
					for _, pr := range x.x.pairs {
						if pr[0].kind == 'u' && pr[0].n > mx && pr[0].n < 1<<62 {
							mx = pr[0].n
						}
					}
					key = &node{kind: 'u', n: mx + 1 + uint64(len(x.x.pairs))%7*14}
				default:
					key = &node{kind: 't', bs: []byte("zz" + string(x.x.pairs[0][0].bs))}
				}
				for _, v := range vals {
					root := tree.clone()
					rr := collect(&root)
					mp := rr[ri].x
					mp.pairs = append(mp.pairs, [2]*node{key.clone(), v.clone()})
					m := mutation{Kind: "map-inject-" + string(v.kind) + strconv.FormatUint(v.n, 10), Path: x.path + "/" + keyName(key), Bytes: gencode(root)}
					cases = append(cases, &tcase{class: "mut", sample: s, mut: m, stream: m.Bytes, sm: true})
				}
			}
		}
		// numeric boundaries: every integer-like leaf against the leaves it is related to (value vs
		// modulus, v vs n, share ID vs IDs, ...) — the bound itself copied over, bound +- 1, 0, 1 — and
		// against the group order where the type has one; unsigned leaves against container lengths
		cases = append(cases, numericBoundaryCases(s, tree, numBoundaryBudget)...)
		// every field near the top in turn: absent, null (pointer fields left nil by the decoder)
		{
			probe := tree.clone()
			refs := collect(&probe)
			cnt := 0
			for ri, x := range refs {
				if x.role != 'v' || strings.Count(x.path, "/") > 3 || cnt >= 16 {
					continue
				}
				cnt++
				root := tree.clone()
				rr := collect(&root)
				rr[ri].set(&node{kind: 's', n: 22})
				m := mutation{Kind: "field-null", Path: x.path, Bytes: gencode(root)}
				cases = append(cases, &tcase{class: "mut", sample: s, mut: m, stream: m.Bytes, sm: true})
				root = tree.clone()
				rr = collect(&root)
				// drop the pair whose value is rr[ri]
				for _, y := range rr {
					if y.x.kind != 'm' {
						continue
					}
					for pi, pr := range y.x.pairs {
						if pr[1] == rr[ri].x {
							y.x.pairs = append(y.x.pairs[:pi:pi], y.x.pairs[pi+1:]...)
							m := mutation{Kind: "field-drop", Path: x.path, Bytes: gencode(root)}
							cases = append(cases, &tcase{class: "mut", sample: s, mut: m, stream: m.Bytes, sm: true})
							break
						}
					}
				}
			}
		}
		if isShard(s.Type) {
			// another (valid) private share value under unchanged public data
			for k := 0; k < 3; k++ {
				root := tree.clone()
				refs := collect(&root)
				if x, ok := pickRef(r, refs, func(x ref) bool { return x.x.kind == 'b' && strings.HasPrefix(x.path, "/share/value") }); ok {
					x.x.bs[len(x.x.bs)-1-k] ^= 1
					m := mutation{Kind: "bytes-tweak", Path: x.path, Bytes: gencode(root)}
					cases = append(cases, &tcase{class: "mut", sample: s, mut: m, stream: m.Bytes, sm: false})
				}
			}
		}
		// a subtree taken from another value of the same type (field swapped across values)
		for k := 0; k < perOp; k++ {
			var others []int
			for j := range samples {
				if j != i && samples[j].Type == s.Type {
					others = append(others, j)
				}
			}
			if len(others) == 0 {
				break
			}
			ot, err := gdecode(samples[others[r.Intn(len(others))]].Bytes)
			if err != nil {
				break
			}
			root := tree.clone()
			refs := collect(&root)
			orefs := collect(&ot)
			x, ok := pickRef(r, refs, func(x ref) bool { return x.role == 'v' })
			if !ok {
				break
			}
			for _, o := range orefs {
				if o.path == x.path && o.role == 'v' && gshow(o.x) != gshow(x.x) {
					x.set(o.x)
					m := mutation{Kind: "splice-from-sibling", Path: x.path, Bytes: gencode(root)}
					cases = append(cases, &tcase{class: "mut", sample: s, mut: m, stream: m.Bytes, sm: true})
					break
				}
			}
		}
		for op := range treeOps {
			n := perOp
			if heavy {
				n = 1
			} else if expensive(s.Type) {
				n = perOp * 2
			}
			for k := 0; k < n; k++ {
				m, ok := treeMutation(r, tree, op)
				if !ok {
					continue
				}
				sm := true
				if isShard(s.Type) && strings.HasPrefix(m.Path, "/share/value") && strings.HasPrefix(m.Kind, "bytes-") {
					sm = false // a different private share cannot match the unchanged public data
				}
				cases = append(cases, &tcase{class: "mut", sample: s, mut: m, stream: m.Bytes, sm: sm})
			}
		}
		nb := nByte
		if heavy {
			nb = 3
		}
		for k := 0; k < nb; k++ {
			m := byteMutation(r, s.Bytes)
			cases = append(cases, &tcase{class: "mut", sample: s, mut: m, stream: m.Bytes, sm: true})
		}
	}
	// Paillier keys below the modulus-size floor (base.IFCKeyLength): must be refused
	for _, fs := range heavyFloorStreams() {
		for i := range samples {
			if samples[i].Type == fs.Type {
				m := mutation{Kind: "modulus-below-floor", Path: fs.Desc, Bytes: fs.Bytes}
				cases = append(cases, &tcase{class: "mut", sample: &samples[i], mut: m, stream: m.Bytes, sm: true})
				break
			}
		}
	}
	// generic items
	for i := 0; i < nAny; i++ {
		r := vh.NewRng(a.Seed, "C12", "any", i)
		t := genTree(r, 4)
		cases = append(cases, &tcase{class: "any-enc", tree: t, mut: mutation{Kind: "none"}})
	}
	for i := 0; i < nAnyMut; i++ {
		r := vh.NewRng(a.Seed, "C12", "anymut", i)
		t := genTree(r, 3)
		var m mutation
		if r.Chance(1, 3) {
			m = byteMutation(r, gencodeSorted(t))
		} else {
			var ok bool
			m, ok = treeMutation(r, t, r.Intn(len(treeOps)))
			if !ok {
				m = byteMutation(r, gencodeSorted(t))
			}
		}
		cases = append(cases, &tcase{class: "any-mut", mut: m, stream: m.Bytes})
	}
	cases = append(cases, elemCases(a)...)
	cases = append(cases, sweepCases(a)...)
	return cases
}

// elemCases: crafted payloads for every curve element type (decode validates like constructor).
func elemCases(a vh.Args) []*tcase {
	maxGeneric := 220
	if a.Tier == "thorough" || a.Search {
		maxGeneric = 1 << 30
	}
	var cases []*tcase
	ets := buildElemTypes(a.Seed)
	for i := range ets {
		et := &ets[i]
		seen := map[string]bool{}
		generic := 0
		for _, p := range et.payloads {
			k := string(p.b)
			if seen[k] {
				continue
			}
			seen[k] = true
			switch p.kind {
			case "wrong-length", "flag-bits", "coordinate-tweak", "random", "random-x", "identity-like", "unreduced-ff":
				generic++
				if generic > maxGeneric {
					continue
				}
			}
			cases = append(cases, &tcase{class: "elem", et: et, pay: p, mut: mutation{Kind: p.kind}})
		}
	}
	return cases
}

// isShard: types whose wire format is mpc.BaseShard's (the dkls23 and schnorr shards embed it and
// inherit its MarshalCBOR / UnmarshalCBOR).
func isShard(typ string) bool {
	return strings.HasPrefix(typ, "baseshard") || strings.HasPrefix(typ, "dkls23shard") || strings.HasPrefix(typ, "schnorrshard")
}

// veryExpensive: types whose decoder does modular exponentiations with 3072-bit moduli.
func veryExpensive(typ string) bool {
	for _, p := range []string{"lindell17", "cggmp21", "paillier-secretkey", "znstar-pailliergroup-known", "znstar-paillierelement-known",
		"znstar-rsagroup-known", "znstar-rsaelement-known", "modular-oddprime", "intcom-trapdoorkey", "intcom-commitmentkey", "proof-nthroot"} {
		if strings.HasPrefix(typ, p) {
			return true
		}
	}
	return false
}

func expensive(typ string) bool {
	for _, p := range []string{"baseshard", "basepublic", "dkls23shard", "schnorrshard", "feldmanvv-bls", "lindell17"} {
		if strings.HasPrefix(typ, p) {
			return true
		}
	}
	return false
}

// gencodeSorted: the tree's encoding with map keys in the deterministic order (harness side:
// plain bytewise sort of the encoded keys), used as the starting point of byte-level damage.
func gencodeSorted(x *node) []byte {
	y := x.clone()
	var fix func(z *node)
	fix = func(z *node) {
		for _, k := range z.kids {
			fix(k)
		}
		for _, p := range z.pairs {
			fix(p[0])
			fix(p[1])
		}
		sort.SliceStable(z.pairs, func(i, j int) bool {
			return string(gencode(z.pairs[i][0])) < string(gencode(z.pairs[j][0]))
		})
	}
	fix(y)
	return gencode(y)
}

func evaluate(a vh.Args, res *vh.Result, cases []*tcase) {
	// ---- batch 1: model on every case
	var lines []string
	add := func(s string) int { lines = append(lines, s); return len(lines) - 1 }
	for _, c := range cases {
		c.lE, c.lG, c.lT, c.lT2 = -1, -1, -1, -1
		switch c.class {
		case "valid":
			if c.tree != nil {
				c.lE = add(fmt.Sprintf("E %d %s", len(lines), gshow(c.tree)))
			}
			c.lG = add(fmt.Sprintf("G %d %s", len(lines), vh.Hex(c.stream)))
			c.lT = add(tLine(len(lines), c.sample.Type, c.sm, c.stream))
		case "mut":
			c.lT = add(tLine(len(lines), c.sample.Type, c.sm, c.stream))
		case "any-enc":
			c.lE = add(fmt.Sprintf("E %d %s", len(lines), gshow(c.tree)))
		case "sweep", "sweep-honest":
			if c.swNote == "" && (c.class == "sweep-honest" || len(c.stream) <= 32768) {
				// (larger damaged payloads — OT extension matrices — are not classified by the model)
				c.lT = add(tLine(len(lines), c.sw.typ, true, c.stream))
			}
		case "any-mut":
			c.lG = add(fmt.Sprintf("G %d %s", len(lines), vh.Hex(c.stream)))
		}
	}
	out, err := vh.Driver(a.Driver, lines)
	if err != nil {
		res.Mismatch(vh.Mismatch{ID: "driver", Kind: "corr", Key: "driver-failed", Detail: err.Error(), What: "model driver (batch 1)"})
		return
	}
	field := func(i, k int) string {
		f := strings.Split(out[i], " ")
		if k < len(f) {
			return f[k]
		}
		return ""
	}
	// ---- implementation
	spent := map[string]time.Duration{}
	defer func() {
		if os.Getenv("C12_TIMING") != "" {
			for k, v := range spent {
				fmt.Fprintf(os.Stderr, "%8.2fs %s\n", v.Seconds(), k)
			}
			fmt.Fprintf(os.Stderr, "%8.2fs sweep runs\n", sweepSpent.Seconds())
		}
	}()
	var lines2 []string
	for _, c := range cases {
		switch c.class {
		case "valid", "mut":
			t0 := time.Now()
			c.dec = c.sample.Dec(c.stream)
			spent[c.sample.Type] += time.Since(t0)
			if c.dec.Panic == "" && !c.dec.Err && !c.dec.IsNil && !c.dec.ReErr && c.class == "mut" {
				sm := !strings.Contains(c.dec.Facts, "sharematch=0")
				lines2 = append(lines2, tLine(len(lines2), c.sample.Type, sm, c.dec.Re))
				c.lT2 = len(lines2) - 1
			}
		case "any-enc":
			v := toAny(c.tree)
			var b []byte
			var e error
			c.anyPan = vh.Safely(func() { b, e = serde.MarshalCBOR(v) })
			c.anyErr = e != nil
			c.stream = b
		case "any-mut":
			var v any
			var e error
			c.anyPan = vh.Safely(func() { v, e = serde.UnmarshalCBOR[any](c.stream) })
			_ = v
			c.anyErr = e != nil
		}
	}
	var out2 []string
	if len(lines2) > 0 {
		out2, err = vh.Driver(a.Driver, lines2)
		if err != nil {
			res.Mismatch(vh.Mismatch{ID: "driver", Kind: "corr", Key: "driver-failed", Detail: err.Error(), What: "model driver (batch 2)"})
			return
		}
	}
	// any-enc: the model decodes the library's bytes (third, small batch)
	var lines3 []string
	idx3 := map[*tcase]int{}
	for _, c := range cases {
		if c.class == "any-enc" && !c.anyErr && c.anyPan == "" {
			idx3[c] = len(lines3)
			lines3 = append(lines3, fmt.Sprintf("G %d %s", len(lines3), vh.Hex(c.stream)))
		}
	}
	var out3 []string
	if len(lines3) > 0 {
		out3, err = vh.Driver(a.Driver, lines3)
		if err != nil {
			res.Mismatch(vh.Mismatch{ID: "driver", Kind: "corr", Key: "driver-failed", Detail: err.Error(), What: "model driver (batch 3)"})
			return
		}
	}

	// ---- relation
	for i, c := range cases {
		id := strconv.Itoa(i)
		mm := func(kind, key, detail, what string, propfail bool) {
			res.Mismatch(vh.Mismatch{ID: id, Kind: kind, Key: key, Detail: detail, Case: c.canon(), PropFail: propfail, What: what})
		}
		switch c.class {
		case "valid":
			typ := c.sample.Type
			res.Count("valid:"+typ, c.canon(), true)
			d := c.dec
			switch {
			case d.Panic != "":
				mm("prop", typ+"/valid/panic", "decoding the library's own encoding panics: "+d.Panic, "C12 (i) never panics", true)
				continue
			case d.Err:
				mm("prop", typ+"/valid/rejected", "decode(encode x) is rejected", "C12 round trip (decode_encode)", true)
				continue
			case d.IsNil:
				mm("prop", typ+"/valid/nil", "decode(encode x) is nil", "C12 round trip (decode_encode)", true)
				continue
			case !d.EqOrig:
				mm("prop", typ+"/valid/not-equal", "decode(encode x) is not Equal to x", "C12 round trip (decode_encode)", true)
				continue
			case d.ReErr || string(d.Re) != string(c.stream):
				mm("prop", typ+"/reencode-not-deterministic", "encode(decode(encode x)) differs from encode x: "+vh.Hex(d.Re), "C12 deterministic encoding (encode_injective / encode_map_order_independent)", true)
				continue
			case !d.RtOK:
				mm("prop", typ+rtKey("/valid", d.RtNote), d.RtNote, "C12 round trip", true)
				continue
			}
			if factsViolation(typ, d.Facts, "a constructed value", mm) {
				continue
			}
			if c.tree == nil {
				mm("corr", typ+"/valid/outside-model", "the library's encoding is not a definite-length float-free item", "C12 (iv) model bytes = library bytes", false)
				continue
			}
			if got := field(c.lE, 2); got != vh.Hex(c.stream) {
				mm("corr", typ+"/valid/model-bytes-differ", "model encode(tree)="+got+" within="+field(c.lE, 3), "C12 (iv) model bytes = library bytes (encoder model)", false)
				continue
			}
			if field(c.lE, 3) != "1" {
				mm("corr", typ+"/valid/not-within-limits", "the item is not within the model's limits / well-formedness", "C12 (iv) decode_encode hypothesis", false)
			}
			if field(c.lG, 2) != "ok" || field(c.lG, 3) != gshow(c.tree) || field(c.lG, 4) != vh.Hex(c.stream) {
				mm("corr", typ+"/valid/model-decode-differs", "model decode: "+out[c.lG], "C12 (iv) model decoder accepts library bytes and returns the same tree", false)
				continue
			}
			if modelled(typ) {
				if field(c.lT, 2) != "valid" || field(c.lT, 3) != vh.Hex(c.stream) {
					mm("corr", typ+"/valid/model-says-"+field(c.lT, 2)+field(c.lT, 3), "model typed verdict on a constructed value: "+out[c.lT], "C12 (iv) constructed values satisfy the model's validity predicate (typed_decode_valid)", false)
				}
			}
		case "mut":
			typ := c.sample.Type
			verdict := field(c.lT, 2)
			arg := field(c.lT, 3)
			nontrivial := verdict != "malformed" && verdict != "unsupported"
			cls := "mut:" + c.mut.Kind + ":" + verdict
			if verdict == "invalid" || verdict == "malformed" {
				cls += "-" + arg
			}
			d := c.dec
			switch {
			case d.Panic != "":
				cls += "=panic"
			case d.Err:
				cls += "=rejected"
			case d.IsNil:
				cls += "=nil"
			default:
				cls += "=accepted"
			}
			res.Count(cls, c.canon(), nontrivial)
			keyBase := typ // one key per (type, kind of failure): the operator that exposed it is in Detail/Case
			if d.Panic != "" {
				mm("prop", typ+"/panic", "UnmarshalCBOR panics on a "+c.mut.Kind+" mutation at "+c.mut.Path+": "+d.Panic+" (model verdict: "+verdict+" "+arg+")", "C12 (i) decoding never panics (decode total)", true)
				continue
			}
			accepted := !d.Err && !d.IsNil
			// modulus-size floor of accepted Paillier keys / shards (facts "modbits=<n>", heavyvalues.go)
			if accepted {
				if i := strings.Index(d.Facts, "modbits="); i >= 0 {
					if n, err := strconv.Atoi(strings.Fields(d.Facts[i+8:] + " x")[0]); err == nil && n < base.IFCKeyLength &&
						(strings.HasPrefix(typ, "paillier-publickey") || strings.HasPrefix(typ, "paillier-secretkey") || strings.HasPrefix(typ, "lindell17") || strings.HasPrefix(typ, "cggmp21")) {
						mm("prop", typ+"/modulus-below-floor", fmt.Sprintf("the decoder accepts a key with a %d-bit modulus (floor %d bits): %s at %s", n, base.IFCKeyLength, c.mut.Kind, c.mut.Path), "C12 decoding validates like construction: moduli of admissible size (NewPublicKey / NewSecretKey floor)", true)
					}
				}
			}
			// accessor-level validity of an accepted access structure (independent of the model's rules)
			if accepted {
				factsViolation(typ, d.Facts, "the value decoded from a "+c.mut.Kind+" mutation at "+c.mut.Path+" (re-encoding "+vh.Hex(d.Re)+")", mm)
			}
			// (iii)
			if accepted {
				switch verdict {
				case "malformed":
					mm("corr", keyBase+"/malformed-"+arg+"-accepted", "the model's strict decoder refuses the container ("+arg+", operator "+c.mut.Kind+" at "+c.mut.Path+") but the implementation accepts it", "C12 (iii) decode_rejects_malformed", true)
					continue
				case "unknown-field":
					mm("corr", keyBase+"/unknown-field-accepted", "a struct carries a key that names no field ("+c.mut.Kind+" at "+c.mut.Path+"), the implementation accepts it", "C12 (iii) unknown_field_rejected", true)
					continue
				case "invalid":
					if r, _ := strconv.Atoi(arg); r == 41 {
						mm("corr", keyBase+"/range-invariant-violated-after-decode", "the stream ("+c.mut.Kind+" at "+c.mut.Path+") holds a num.Uint whose value is not below its modulus, but the implementation accepts it; re-encoding "+vh.Hex(d.Re), "C12 (iii) decoding validates like construction: 0 <= value < modulus (uint_valid_spec)", true)
						continue
					} else if r == 40 {
						mm("corr", keyBase+"/missing-component-accepted", "the stream ("+c.mut.Kind+" at "+c.mut.Path+") lacks a declared component (absent, null or undefined) of a type whose UnmarshalCBOR validates, but the implementation accepts it; re-encoding "+vh.Hex(d.Re), "C12 (iii) decoding validates like construction: no component missing", true)
						continue
					} else if r < 100 {
						mm("corr", keyBase+"/rule"+arg+"-accepted", "the stream ("+c.mut.Kind+" at "+c.mut.Path+") violates constructor rule "+arg+" ("+ruleText(r)+") but the implementation accepts it; re-encoding "+vh.Hex(d.Re), "C12 (iii) typed_decode_valid: decoding validates like construction", true)
						continue
					}
				}
			}
			// (ii)
			if accepted {
				if d.ReErr {
					mm("prop", keyBase+"/accepted-not-encodable", "the accepted value cannot be re-encoded", "C12 (ii) round trip of accepted values", true)
					continue
				}
				if !d.RtOK {
					mm("prop", typ+rtKey("", d.RtNote), d.RtNote+"; re-encoding "+vh.Hex(d.Re), "C12 (ii) round trip of accepted values", true)
					continue
				}
				if c.lT2 >= 0 && modelled(typ) {
					f := strings.Split(out2[c.lT2], " ")
					v2, a2 := f[2], ""
					if len(f) > 3 {
						a2 = f[3]
					}
					if v2 == "invalid" && a2 == "140" {
						// plain message struct with a missing component: refused by Validate in the round
						// function, not by the decoder — checked by the protocol sweep (sweep.go)
						res.Distribution["mut:message-missing-component-left-to-Validate"]++
					} else if v2 == "invalid" && a2 == "41" {
						mm("corr", keyBase+"/range-invariant-violated-after-decode", "the implementation accepted the stream ("+c.mut.Kind+" at "+c.mut.Path+") and re-encodes the value as "+vh.Hex(d.Re)+", which holds a num.Uint whose value is not below its modulus", "C12 (ii) an accepted value satisfies 0 <= value < modulus (uint_valid_spec)", true)
						continue
					} else if v2 != "valid" {
						mm("corr", keyBase+"/accepted-"+v2+a2, "the implementation accepted the stream and re-encodes the value as "+vh.Hex(d.Re)+", which the model classifies as "+v2+" "+a2+" ("+ruleTextS(a2)+")", "C12 (ii) typed_decode_valid: an accepted value satisfies the constructor rules", true)
						continue
					}
					if v2 == "valid" && a2 != vh.Hex(d.Re) {
						mm("corr", keyBase+"/reencoding-not-canonical", "model canonical bytes "+a2+" differ from the library's re-encoding "+vh.Hex(d.Re), "C12 (iv) model bytes = library bytes", false)
					}
				}
			}
		case "any-enc":
			tr := gshow(c.tree)
			res.Count("any-enc", tr, true)
			if c.anyPan != "" || c.anyErr {
				// the library refuses to encode this Go value: not a decoding matter; note only
				res.Distribution["any-enc:library-refused"]++
				continue
			}
			if got := field(c.lE, 2); got != vh.Hex(c.stream) {
				c.caseTxt = "anyenc|" + tr
				// property predicate on the implementation: does its own decoder accept its bytes?
				_, e := serde.UnmarshalCBOR[any](c.stream)
				mm("corr", "any/encode-differs", "library "+vh.Hex(c.stream)+" model "+got, "C12 (iv) model bytes = library bytes (deterministic encoder: shortest heads, bytewise key order)", e != nil)
				continue
			}
			within := field(c.lE, 3) == "1"
			var e error
			p := vh.Safely(func() { _, e = serde.UnmarshalCBOR[any](c.stream) })
			c.caseTxt = "anyenc|" + tr
			if p != "" {
				mm("prop", "any/panic", "decoding the library's own encoding panics: "+p, "C12 (i)", true)
				continue
			}
			if j, ok := idx3[c]; ok {
				f := strings.Split(out3[j], " ")
				if within {
					want := gshow(mustDecode(c.stream))
					if len(f) < 5 || f[2] != "ok" || f[3] != want || f[4] != vh.Hex(c.stream) {
						mm("corr", "any/model-decode-differs", "model on library bytes "+vh.Hex(c.stream)+": "+out3[j], "C12 (iv) decode_encode", false)
						continue
					}
				} else if len(f) >= 5 && f[2] == "err" && f[4] == "1" && e == nil {
					mm("corr", "any/malformed-"+f[3]+"-accepted", "the model refuses "+vh.Hex(c.stream)+" ("+f[3]+") but serde.UnmarshalCBOR[any] accepts it", "C12 (iii) decode_rejects_malformed", true)
					continue
				}
			}
			if e != nil && within && !hasByteKey(c.tree) {
				mm("prop", "any/valid-rejected", "the library's decoder rejects the library's encoding "+vh.Hex(c.stream), "C12 round trip", true)
			}
		case "elem":
			evalElem(res, c, mm)
		case "sweep", "sweep-honest":
			v, ar := "", ""
			if c.lT >= 0 {
				v, ar = field(c.lT, 2), field(c.lT, 3)
			}
			evalSweep(a, res, c, v, ar, mm)
		case "any-mut":
			verdict := field(c.lG, 2)
			cls := "any-mut:" + c.mut.Kind + ":" + verdict
			if verdict == "err" {
				cls += "-" + field(c.lG, 3)
			}
			res.Count(cls, c.canon(), verdict == "ok")
			if c.anyPan != "" {
				mm("prop", "any/panic", "UnmarshalCBOR[any] panics ("+c.mut.Kind+"): "+c.anyPan, "C12 (i)", true)
				continue
			}
			if verdict == "err" && field(c.lG, 4) == "1" && !c.anyErr {
				mm("corr", "any/malformed-"+field(c.lG, 3)+"-accepted", "the model's strict decoder refuses the container ("+field(c.lG, 3)+", "+c.mut.Kind+") but serde.UnmarshalCBOR[any] accepts it", "C12 (iii) decode_rejects_malformed", true)
			}
		}
	}
	res.Note("samples: %d values of %d types; model-covered typed schemas: %d types", countClass(cases, "valid"), countTypes(cases, false), countTypes(cases, true))
}

// factsViolation reports what the accessor-level facts of an accepted access structure say
// (asfacts.go): inconsistent accessors, a value no constructor accepts, a second encoding.
func factsViolation(typ, facts, what string, mm func(kind, key, detail, what string, propfail bool)) bool {
	bad := false
	if strings.Contains(facts, "accessors=bad") {
		bad = true
		mm("prop", typ+"/accessors-inconsistent", what+": "+facts, "C12 (ii) an accepted value satisfies the constructor rules on its public accessors (Shareholders() = IDs of the policy body, IsQualified = the policy)", true)
	}
	if strings.Contains(facts, "range=bad") {
		bad = true
		mm("prop", typ+"/range-invariant-violated-after-decode", what+": the public accessors report "+facts, "C12 (ii) an accepted num.Uint satisfies 0 <= Big() < Modulus().Big()", true)
	}
	if strings.Contains(facts, "canon=norebuild") {
		bad = true
		mm("prop", typ+"/constructor-refuses-decoded-value", what+": the public constructor refuses the abstract value the accessors report: "+facts, "C12 (ii) decoding validates like construction", true)
	}
	if strings.Contains(facts, "canon=differs") {
		bad = true
		mm("prop", typ+"/second-accepted-encoding", what+": its encoding differs from the encoding of the same abstract value rebuilt through the constructor: "+facts, "C12 deterministic encoding: one abstract value, one encoding (encode_injective)", true)
	}
	return bad
}

// rtKey: all byte-instability reports of one type share a key (it is one defect of the type's
// encoder, whatever stream exposed it); other round-trip failures are keyed by the operator.
func rtKey(prefix, note string) string {
	if strings.Contains(note, "byte-identical") {
		return "/reencode-not-deterministic"
	}
	return prefix + "/accepted-not-roundtrip"
}

// evalElem: UnmarshalCBOR / UnmarshalBinary of a curve element type must not be laxer than the byte
// constructors of the type's own structure, and must keep the type's subgroup promise.
func evalElem(res *vh.Result, c *tcase, mm func(kind, key, detail, what string, propfail bool)) {
	et := c.et
	outcome := ""
	for _, d := range []struct {
		name string
		f    func([]byte) elemOutcome
	}{{"cbor", et.cbor}, {"binary", et.binary}} {
		if d.f == nil {
			continue
		}
		o := d.f(c.pay.b)
		switch {
		case o.panicked != "":
			outcome += " " + d.name + "=panic"
			mm("prop", et.name+"/panic", d.name+" decoder panics on a "+c.pay.kind+" payload: "+o.panicked, "C12 (i) decoding never panics", true)
		case !o.accepted:
			outcome += " " + d.name + "=rejected"
		default:
			outcome += " " + d.name + "=accepted"
			what := "C12 decode validates like construction (element types): " + map[string]string{"cbor": "UnmarshalCBOR", "binary": "UnmarshalBinary"}[d.name] + " accepts => the type's own byte constructor accepts with an Equal element"
			switch {
			case !o.ctorOK && !o.ctorAny:
				mm("prop", et.name+"/"+d.name+"-laxer-than-constructor", "the "+d.name+" decoder accepts a "+c.pay.kind+" payload that every byte constructor of the type's own structure (FromCompressed/FromUncompressed/FromBytes) refuses", what, true)
			case !o.ctorOK:
				mm("prop", et.name+"/"+d.name+"-laxer-than-constructor", "the "+d.name+" decoder accepts a "+c.pay.kind+" payload as an element different from the one the type's byte constructors build from the same bytes", what, true)
			case !o.subgroup:
				mm("prop", et.name+"/"+d.name+"-laxer-than-constructor", "the "+d.name+" decoder accepts a "+c.pay.kind+" payload and the resulting element of a prime-order-subgroup type is not torsion free", what, true)
			case !o.roundtrip:
				mm("prop", et.name+"/"+d.name+"-accepted-not-roundtrip", "the accepted element does not survive encode/decode", "C12 (ii) round trip of accepted values", true)
			}
		}
	}
	res.Count("elem:"+et.name+":"+c.pay.kind+":"+strings.TrimSpace(outcome), c.canon(), strings.Contains(outcome, "accepted"))
}

func mustDecode(b []byte) *node {
	x, err := gdecode(b)
	if err != nil {
		return &node{kind: 's', n: 255}
	}
	return x
}

func hasByteKey(x *node) bool {
	for _, k := range x.kids {
		if hasByteKey(k) {
			return true
		}
	}
	for _, p := range x.pairs {
		if p[0].kind == 'b' || hasByteKey(p[0]) || hasByteKey(p[1]) {
			return true
		}
	}
	return false
}

func countClass(cs []*tcase, class string) int {
	n := 0
	for _, c := range cs {
		if c.class == class {
			n++
		}
	}
	return n
}

func countTypes(cs []*tcase, onlyModelled bool) int {
	m := map[string]bool{}
	for _, c := range cs {
		if c.class == "valid" && (!onlyModelled || modelled(c.sample.Type)) {
			m[c.sample.Type] = true
		}
	}
	return len(m)
}

func ruleTextS(s string) string {
	r, err := strconv.Atoi(s)
	if err != nil {
		return ""
	}
	return ruleText(r)
}

// ruleText names the rule numbers of coq/model/Schema.v.
func ruleText(r int) string {
	switch r {
	case 1:
		return "threshold >= 2"
	case 2:
		return "threshold <= number of shareholders"
	case 3:
		return "shareholder ID 0"
	case 4:
		return "unanimity needs >= 2 shareholders"
	case 5:
		return "CNF needs at least one set"
	case 6:
		return "CNF set empty"
	case 7:
		return "CNF needs >= 2 shareholders"
	case 8:
		return "hierarchical needs a level"
	case 9:
		return "level thresholds positive and strictly increasing"
	case 10:
		return "level without parties"
	case 11:
		return "levels not disjoint"
	case 12:
		return "cumulative parties < threshold"
	case 13:
		return "unknown node kind"
	case 14:
		return "gate threshold not in 1..children"
	case 15:
		return "attribute node with ID 0"
	case 16:
		return "duplicate attribute children under one gate"
	case 17:
		return "shareholder map differs from the tree's leaves"
	case 18:
		return "matrix dimensions not positive"
	case 19:
		return "matrix data length != rows*cols"
	case 20:
		return "MSP row labels not exactly 0..rows-1"
	case 21:
		return "MSP row labelled with holder 0"
	case 22:
		return "share ID 0"
	case 23:
		return "share value empty"
	case 24:
		return "verification vector not a column vector"
	case 25:
		return "verification vector length != MSP columns"
	case 26:
		return "share ID is not an MSP holder"
	case 27:
		return "private share does not match the public data"
	case 28:
		return "ECDSA r or s zero"
	case 29:
		return "ECDSA v outside 0..3"
	case 30:
		return "scalar byte length"
	case 31:
		return "point byte length"
	case 32:
		return "NatPlus zero"
	case 34:
		return "dkls23 partial signature u or w zero"
	case 35:
		return "Pedersen share secret or blinding empty"
	case 36:
		return "Pedersen share secret and blinding lengths differ"
	case 40, 140:
		return "a declared component is missing, null or undefined"
	case 41:
		return "num.Uint value not below its modulus"
	case 42:
		return "num.NatPlus zero"
	case 101:
		return "CNF sets form an antichain"
	case 102:
		return "CNF shareholders = union of the sets"
	case 103:
		return "level parties distinct"
	case 105:
		return "scalar canonical (< q)"
	}
	return "rule " + strconv.Itoa(r)
}

// replayCase rebuilds one case from a replay file written by bin/check (line "case: ...").
func replayCase(path string, samples []Sample) (*tcase, error) {
	b, err := os.ReadFile(path)
	if err != nil {
		return nil, err
	}
	var txt string
	for _, l := range strings.Split(string(b), "\n") {
		if strings.HasPrefix(l, "case: ") {
			txt = strings.TrimPrefix(l, "case: ")
		}
	}
	f := strings.Split(txt, "|")
	switch {
	case len(f) >= 6 && f[0] == "typed":
		var s *Sample
		for i := range samples {
			if samples[i].Type == f[1] && (s == nil || vh.Hex(samples[i].Bytes) == f[2]) {
				s = &samples[i]
			}
		}
		if s == nil {
			return nil, fmt.Errorf("no sample of type %s", f[1])
		}
		stream := vh.UnHex(f[3])
		c := &tcase{class: "mut", sample: s, stream: stream, sm: f[4] == "1", mut: mutation{Kind: f[5], Path: strings.Join(f[6:], "|"), Bytes: stream}}
		if f[5] == "none" {
			c.class = "valid"
			c.tree, _ = gdecode(stream)
		}
		return c, nil
	case len(f) >= 8 && f[0] == "sweep":
		runs := protoRuns()
		for i := range runs {
			if runs[i].Name != f[1] {
				continue
			}
			var tr *drive.Trace
			if pn := vh.Safely(func() { tr = runs[i].Run(1, nil) }); pn != "" || tr == nil {
				return nil, fmt.Errorf("honest run of %s fails: %s", f[1], pn)
			}
			rd, _ := strconv.Atoi(f[2])
			from, _ := strconv.ParseUint(f[3], 10, 64)
			to, _ := strconv.ParseUint(f[4], 10, 64)
			for _, m := range tr.Messages {
				if m.Round == rd && uint64(m.From) == from && uint64(m.To) == to {
					s := &sweepSlot{proto: &runs[i], round: rd, from: m.From, to: m.To, payload: m.Payload}
					s.typ = fmt.Sprintf("msg-%s-r%d-%s", f[1], rd, s.kind())
					stream := vh.UnHex(f[len(f)-1])
					cl := "sweep"
					if f[5] == "none" {
						cl = "sweep-honest"
					}
					return &tcase{class: cl, sw: s, stream: stream, mut: mutation{Kind: f[5], Path: strings.Join(f[6:len(f)-1], "|"), Bytes: stream}}, nil
				}
			}
			return nil, fmt.Errorf("no message of round %s from %s to %s in the honest run of %s", f[2], f[3], f[4], f[1])
		}
		return nil, fmt.Errorf("no protocol %s", f[1])
	case len(f) == 4 && f[0] == "elem":
		ets := buildElemTypes(1)
		for i := range ets {
			if ets[i].name == f[1] {
				return &tcase{class: "elem", et: &ets[i], pay: payload{f[2], vh.UnHex(f[3])}, mut: mutation{Kind: f[2]}}, nil
			}
		}
		return nil, fmt.Errorf("no element type %s", f[1])
	case len(f) >= 2 && f[0] == "any":
		kind := "replay"
		if len(f) > 2 {
			kind = f[2]
		}
		return &tcase{class: "any-mut", stream: vh.UnHex(f[1]), mut: mutation{Kind: kind}}, nil
	case len(f) == 2 && f[0] == "anyenc":
		tr, err := gparse(f[1])
		if err != nil {
			return nil, fmt.Errorf("anyenc replay: cannot parse item %q", f[1])
		}
		return &tcase{class: "any-enc", tree: tr, mut: mutation{Kind: "none"}}, nil
	}
	return nil, fmt.Errorf("unrecognised case line %q", txt)
}
