package main

import (
	"fmt"

	"verif/harness/internal/vh"
)

func main() {
	a := vh.ParseArgs()
	ss := buildSamples(a.Seed, a.Tier)
	for _, s := range ss {
		r := s.Dec(s.Bytes)
		fmt.Printf("%-28s %-40s len=%d err=%v nil=%v eq=%v rt=%v %s facts=%s panic=%s same=%v\n", s.Type, s.Desc, len(s.Bytes), r.Err, r.IsNil, r.EqOrig, r.RtOK, r.RtNote, r.Facts, r.Panic, string(r.Re) == string(s.Bytes))
	}
}
