package main

// An independent, minimal CBOR item tree used by the harness: a reader for the definite-length
// encodings the library emits (to describe library values to the model as generic item trees),
// a writer that can also emit deliberately non-canonical forms (non-shortest heads, indefinite
// lengths, unsorted or duplicated keys) for the mutated streams, and the text form exchanged
// with the model driver:  u<dec> n<dec> b(<hex>) t(<hex>) a(..,..) m(k:v,..) g<tag>(..) s<dec>.

import (
	"encoding/binary"
	"encoding/hex"
	"errors"
	"strconv"
	"strings"
)

type node struct {
	kind  byte // 'u' 'n' 'b' 't' 'a' 'm' 'g' 's'
	n     uint64
	bs    []byte
	kids  []*node    // 'a' elements, 'g' content (one)
	pairs [][2]*node // 'm'
	// wire-form overrides used only by the writer
	width int  // 0 shortest; 1,2,4,8: argument width in bytes (non-shortest when larger than needed)
	indef bool // indefinite-length form (strings: one chunk)
	raw   []byte
}

func (x *node) clone() *node {
	if x == nil {
		return nil
	}
	y := *x
	y.bs = append([]byte(nil), x.bs...)
	y.kids = make([]*node, len(x.kids))
	for i, k := range x.kids {
		y.kids[i] = k.clone()
	}
	y.pairs = make([][2]*node, len(x.pairs))
	for i, p := range x.pairs {
		y.pairs[i] = [2]*node{p[0].clone(), p[1].clone()}
	}
	return &y
}

var errG = errors.New("gdecode")

// gdecode reads exactly one definite-length item (no floats) and nothing after it.
func gdecode(b []byte) (*node, error) {
	x, rest, err := gdec(b, 0)
	if err != nil {
		return nil, err
	}
	if len(rest) != 0 {
		return nil, errG
	}
	return x, nil
}

func gdec(b []byte, depth int) (*node, []byte, error) {
	if len(b) == 0 || depth > 200 {
		return nil, nil, errG
	}
	mt, ai := b[0]>>5, b[0]&31
	b = b[1:]
	var n uint64
	switch {
	case ai < 24:
		n = uint64(ai)
	case ai == 24:
		if len(b) < 1 {
			return nil, nil, errG
		}
		n, b = uint64(b[0]), b[1:]
	case ai == 25:
		if len(b) < 2 {
			return nil, nil, errG
		}
		n, b = uint64(binary.BigEndian.Uint16(b)), b[2:]
	case ai == 26:
		if len(b) < 4 {
			return nil, nil, errG
		}
		n, b = uint64(binary.BigEndian.Uint32(b)), b[4:]
	case ai == 27:
		if len(b) < 8 {
			return nil, nil, errG
		}
		n, b = binary.BigEndian.Uint64(b), b[8:]
	default:
		return nil, nil, errG
	}
	switch mt {
	case 0:
		return &node{kind: 'u', n: n}, b, nil
	case 1:
		return &node{kind: 'n', n: n}, b, nil
	case 2, 3:
		if n > uint64(len(b)) {
			return nil, nil, errG
		}
		k := byte('b')
		if mt == 3 {
			k = 't'
		}
		return &node{kind: k, bs: append([]byte(nil), b[:n]...)}, b[n:], nil
	case 4:
		if n > uint64(len(b)) {
			return nil, nil, errG
		}
		x := &node{kind: 'a'}
		for i := uint64(0); i < n; i++ {
			y, r, err := gdec(b, depth+1)
			if err != nil {
				return nil, nil, err
			}
			x.kids, b = append(x.kids, y), r
		}
		return x, b, nil
	case 5:
		if n > uint64(len(b)) {
			return nil, nil, errG
		}
		x := &node{kind: 'm'}
		for i := uint64(0); i < n; i++ {
			k, r, err := gdec(b, depth+1)
			if err != nil {
				return nil, nil, err
			}
			v, r2, err := gdec(r, depth+1)
			if err != nil {
				return nil, nil, err
			}
			x.pairs, b = append(x.pairs, [2]*node{k, v}), r2
		}
		return x, b, nil
	case 6:
		y, r, err := gdec(b, depth+1)
		if err != nil {
			return nil, nil, err
		}
		return &node{kind: 'g', n: n, kids: []*node{y}}, r, nil
	default:
		if ai > 24 {
			return nil, nil, errG // floats: not used by the library's formats
		}
		return &node{kind: 's', n: n}, b, nil
	}
}

func ghead(mt byte, n uint64, width int) []byte {
	need := 0
	switch {
	case n < 24:
		need = 0
	case n < 1<<8:
		need = 1
	case n < 1<<16:
		need = 2
	case n < 1<<32:
		need = 4
	default:
		need = 8
	}
	if width > need {
		need = width
	}
	switch need {
	case 0:
		return []byte{mt<<5 | byte(n)}
	case 1:
		return []byte{mt<<5 | 24, byte(n)}
	case 2:
		return binary.BigEndian.AppendUint16([]byte{mt<<5 | 25}, uint16(n))
	case 4:
		return binary.BigEndian.AppendUint32([]byte{mt<<5 | 26}, uint32(n))
	default:
		return binary.BigEndian.AppendUint64([]byte{mt<<5 | 27}, n)
	}
}

// gencode writes the tree in wire order as given (no sorting), honouring the overrides.
func gencode(x *node) []byte {
	if x.raw != nil {
		return x.raw
	}
	switch x.kind {
	case 'u':
		return ghead(0, x.n, x.width)
	case 'n':
		return ghead(1, x.n, x.width)
	case 'b', 't':
		mt := byte(2)
		if x.kind == 't' {
			mt = 3
		}
		if x.indef {
			out := []byte{mt<<5 | 31}
			out = append(out, ghead(mt, uint64(len(x.bs)), 0)...)
			out = append(out, x.bs...)
			return append(out, 0xff)
		}
		return append(ghead(mt, uint64(len(x.bs)), x.width), x.bs...)
	case 'a':
		var out []byte
		if x.indef {
			out = []byte{4<<5 | 31}
		} else {
			out = ghead(4, uint64(len(x.kids)), x.width)
		}
		for _, k := range x.kids {
			out = append(out, gencode(k)...)
		}
		if x.indef {
			out = append(out, 0xff)
		}
		return out
	case 'm':
		var out []byte
		if x.indef {
			out = []byte{5<<5 | 31}
		} else {
			out = ghead(5, uint64(len(x.pairs)), x.width)
		}
		for _, p := range x.pairs {
			out = append(out, gencode(p[0])...)
			out = append(out, gencode(p[1])...)
		}
		if x.indef {
			out = append(out, 0xff)
		}
		return out
	case 'g':
		return append(ghead(6, x.n, x.width), gencode(x.kids[0])...)
	default: // 's'
		if x.n < 24 {
			return []byte{7<<5 | byte(x.n)}
		}
		return []byte{7<<5 | 24, byte(x.n)}
	}
}

func gshow(x *node) string {
	var sb strings.Builder
	gshowTo(&sb, x)
	return sb.String()
}

func gshowTo(sb *strings.Builder, x *node) {
	switch x.kind {
	case 'u', 'n', 's':
		sb.WriteByte(x.kind)
		sb.WriteString(strconv.FormatUint(x.n, 10))
	case 'b', 't':
		sb.WriteByte(x.kind)
		sb.WriteByte('(')
		sb.WriteString(hex.EncodeToString(x.bs))
		sb.WriteByte(')')
	case 'a':
		sb.WriteString("a(")
		for i, k := range x.kids {
			if i > 0 {
				sb.WriteByte(',')
			}
			gshowTo(sb, k)
		}
		sb.WriteByte(')')
	case 'm':
		sb.WriteString("m(")
		for i, p := range x.pairs {
			if i > 0 {
				sb.WriteByte(',')
			}
			gshowTo(sb, p[0])
			sb.WriteByte(':')
			gshowTo(sb, p[1])
		}
		sb.WriteByte(')')
	case 'g':
		sb.WriteByte('g')
		sb.WriteString(strconv.FormatUint(x.n, 10))
		sb.WriteByte('(')
		gshowTo(sb, x.kids[0])
		sb.WriteByte(')')
	}
}

// ref is a position in a tree: the node, how to replace it, and its path (map keys / indices).
type ref struct {
	x    *node
	set  func(*node)
	path string
	role byte // 'r' root, 'k' map key, 'v' map value, 'e' array element, 'c' tag content
}

func keyName(k *node) string {
	switch k.kind {
	case 't':
		return string(k.bs)
	case 'u':
		return strconv.FormatUint(k.n, 10)
	case 'n':
		return "-" + strconv.FormatUint(k.n+1, 10)
	}
	return "?"
}

func collect(root **node) []ref {
	var out []ref
	var walk func(x *node, set func(*node), path string, role byte)
	walk = func(x *node, set func(*node), path string, role byte) {
		out = append(out, ref{x, set, path, role})
		switch x.kind {
		case 'a':
			for i := range x.kids {
				i := i
				walk(x.kids[i], func(y *node) { x.kids[i] = y }, path+"/"+strconv.Itoa(i), 'e')
			}
		case 'g':
			walk(x.kids[0], func(y *node) { x.kids[0] = y }, path, 'c')
		case 'm':
			for i := range x.pairs {
				i := i
				kn := keyName(x.pairs[i][0])
				walk(x.pairs[i][0], func(y *node) { x.pairs[i][0] = y }, path+"/"+kn+"#key", 'k')
				walk(x.pairs[i][1], func(y *node) { x.pairs[i][1] = y }, path+"/"+kn, 'v')
			}
		}
	}
	walk(*root, func(y *node) { *root = y }, "", 'r')
	return out
}

// gparse reads the text form produced by gshow (used to replay a stored generic case).
func gparse(s string) (*node, error) {
	pos := 0
	var item func() (*node, error)
	num := func() (uint64, error) {
		st := pos
		for pos < len(s) && s[pos] >= '0' && s[pos] <= '9' {
			pos++
		}
		return strconv.ParseUint(s[st:pos], 10, 64)
	}
	expect := func(c byte) error {
		if pos >= len(s) || s[pos] != c {
			return errG
		}
		pos++
		return nil
	}
	item = func() (*node, error) {
		if pos >= len(s) {
			return nil, errG
		}
		k := s[pos]
		pos++
		switch k {
		case 'u', 'n', 's':
			n, err := num()
			return &node{kind: k, n: n}, err
		case 'b', 't':
			if err := expect('('); err != nil {
				return nil, err
			}
			st := pos
			for pos < len(s) && s[pos] != ')' {
				pos++
			}
			bs, err := hex.DecodeString(s[st:pos])
			if err != nil {
				return nil, err
			}
			return &node{kind: k, bs: bs}, expect(')')
		case 'g':
			n, err := num()
			if err != nil {
				return nil, err
			}
			if err := expect('('); err != nil {
				return nil, err
			}
			y, err := item()
			if err != nil {
				return nil, err
			}
			return &node{kind: 'g', n: n, kids: []*node{y}}, expect(')')
		case 'a', 'm':
			if err := expect('('); err != nil {
				return nil, err
			}
			x := &node{kind: k}
			if pos < len(s) && s[pos] == ')' {
				pos++
				return x, nil
			}
			for {
				y, err := item()
				if err != nil {
					return nil, err
				}
				if k == 'm' {
					if err := expect(':'); err != nil {
						return nil, err
					}
					v, err := item()
					if err != nil {
						return nil, err
					}
					x.pairs = append(x.pairs, [2]*node{y, v})
				} else {
					x.kids = append(x.kids, y)
				}
				if pos < len(s) && s[pos] == ',' {
					pos++
					continue
				}
				return x, expect(')')
			}
		}
		return nil, errG
	}
	x, err := item()
	if err != nil || pos != len(s) {
		return nil, errG
	}
	return x, nil
}
