package main

// decode-validates-like-constructor for curve element types: every point / scalar / base-field
// element type with CBOR (and BinaryUnmarshaler) support is fed crafted payloads — honest
// encodings, identity encodings, small-order points, subgroup point + small-order point,
// off-curve and unreduced coordinates, wrong lengths, flag-bit variants — wrapped in the type's
// own CBOR shape (taken from an honest encoding, byte string substituted).  Required:
//
//	UnmarshalCBOR (UnmarshalBinary) accepts  =>  one of the byte constructors of the SAME type's
//	structure (FromCompressed / FromUncompressed / FromBytes) accepts the same payload and yields an
//	Equal element; and, for types that promise prime-order-subgroup membership, the accepted element
//	is torsion free (checked through the full-curve type, not through the type's own constant answer).
//
// This is an implementation-vs-implementation predicate of C12 ("decoding returns an object that
// satisfies the rules its constructor enforces"); which encodings are valid is C13's subject.

import (
	"encoding"
	"fmt"
	"io"
	"math/big"
	"os"
	"sort"
	"strings"

	"github.com/bronlabs/bron-crypto/pkg/base/curves/curve25519"
	"github.com/bronlabs/bron-crypto/pkg/base/curves/edwards25519"
	"github.com/bronlabs/bron-crypto/pkg/base/curves/k256"
	"github.com/bronlabs/bron-crypto/pkg/base/curves/p256"
	"github.com/bronlabs/bron-crypto/pkg/base/curves/pairable/bls12381"
	"github.com/bronlabs/bron-crypto/pkg/base/curves/pasta"
	"github.com/bronlabs/bron-crypto/pkg/base/serde"

	"verif/harness/internal/vh"
)

type payload struct {
	kind string
	b    []byte
}

// elemOutcome is what one decoder did with one payload.
type elemOutcome struct {
	accepted  bool
	panicked  string
	ctorOK    bool // some own-structure byte constructor accepts the payload with an Equal result
	ctorAny   bool // some own-structure byte constructor accepts the payload at all
	subgroup  bool // promise holds (true when the type makes no promise)
	roundtrip bool // re-encoding the accepted element decodes to an Equal element
}

// elemType describes one element type to the generic comparison.
type elemType struct {
	name     string
	payloads []payload
	cbor     func(p []byte) elemOutcome // nil: no CBOR support
	binary   func(p []byte) elemOutcome // nil: no BinaryUnmarshaler
}

type elemAPI[T any] struct {
	name     string
	honest   []T
	encs     []func(T) []byte          // the type's byte encodings (honest payloads come from these)
	ctors    []func([]byte) (T, error) // byte constructors of the type's own structure
	eq       func(a, b T) bool
	subgroup func(T) bool // nil: no subgroup promise
	newT     func() T     // fresh zero element (receiver for UnmarshalBinary)
	hasCBOR  bool
	extra    []payload
}

// wrapCBOR substitutes the (single) byte string of an honest CBOR encoding.
func wrapCBOR(honest []byte, p []byte) []byte {
	tree, err := gdecode(honest)
	if err != nil {
		return nil
	}
	refs := collect(&tree)
	n := 0
	for _, x := range refs {
		if x.x.kind == 'b' {
			x.x.bs = append([]byte(nil), p...)
			n++
		}
	}
	if n != 1 {
		return nil
	}
	return gencode(tree)
}

func mkElem[T any](r *vh.Rng, a elemAPI[T]) elemType {
	et := elemType{name: a.name}
	judge := func(v T, p []byte) (o elemOutcome) {
		o.accepted = true
		o.subgroup = true
		for _, c := range a.ctors {
			var w T
			var err error
			if pn := vh.Safely(func() { w, err = c(p) }); pn != "" || err != nil || isNilValue(any(w)) {
				continue
			}
			o.ctorAny = true
			if a.eq(v, w) {
				o.ctorOK = true
			}
		}
		if a.subgroup != nil {
			o.subgroup = a.subgroup(v)
		}
		return o
	}
	if a.hasCBOR && len(a.honest) > 0 {
		shape, err := serde.MarshalCBOR(a.honest[0])
		if err == nil && wrapCBOR(shape, []byte{1}) != nil {
			et.cbor = func(p []byte) (o elemOutcome) {
				in := wrapCBOR(shape, p)
				var v T
				var derr error
				if pn := vh.Safely(func() { v, derr = serde.UnmarshalCBOR[T](in) }); pn != "" {
					o.panicked = pn
					return o
				}
				if derr != nil || isNilValue(any(v)) {
					return o
				}
				if pn := vh.Safely(func() {
					o = judge(v, p)
					re, e := serde.MarshalCBOR(v)
					if e == nil {
						if v2, e2 := serde.UnmarshalCBOR[T](re); e2 == nil && !isNilValue(any(v2)) && a.eq(v, v2) {
							o.roundtrip = true
						}
					}
				}); pn != "" {
					o.panicked = "after accept: " + pn
				}
				return o
			}
		}
	}
	if _, ok := any(a.newT()).(encoding.BinaryUnmarshaler); ok {
		et.binary = func(p []byte) (o elemOutcome) {
			v := a.newT()
			var derr error
			if pn := vh.Safely(func() { derr = any(v).(encoding.BinaryUnmarshaler).UnmarshalBinary(append([]byte(nil), p...)) }); pn != "" {
				o.panicked = pn
				return o
			}
			if derr != nil {
				return o
			}
			if pn := vh.Safely(func() { o = judge(v, p); o.roundtrip = true }); pn != "" {
				o.panicked = "after accept: " + pn
			}
			return o
		}
	}
	// payload pool
	add := func(kind string, b []byte) {
		et.payloads = append(et.payloads, payload{kind, append([]byte(nil), b...)})
	}
	lens := map[int]bool{}
	for _, h := range a.honest {
		for _, enc := range a.encs {
			var b []byte
			if vh.Safely(func() { b = enc(h) }) != "" || len(b) == 0 {
				continue
			}
			add("honest", b)
			lens[len(b)] = true
			// wrong lengths
			add("wrong-length", b[:len(b)-1])
			add("wrong-length", append(append([]byte(nil), b...), 0))
			add("wrong-length", b[1:])
			// flag / sign bit variants (first and last byte: SEC1 prefix, ZCash flags, edwards sign bit)
			for _, bit := range []byte{0x80, 0x40, 0x20, 0x01, 0x02, 0x04} {
				c := append([]byte(nil), b...)
				c[0] ^= bit
				add("flag-bits", c)
				c = append([]byte(nil), b...)
				c[len(c)-1] ^= bit
				add("flag-bits", c)
			}
			// coordinate tweaks: mostly off-curve
			for k := 0; k < 3; k++ {
				c := append([]byte(nil), b...)
				c[1+r.Intn(len(c)-1)] ^= byte(1 + r.Intn(255))
				add("coordinate-tweak", c)
			}
		}
	}
	var sortedLens []int
	for l := range lens {
		sortedLens = append(sortedLens, l)
	}
	sort.Ints(sortedLens)
	for _, l := range sortedLens {
		z := make([]byte, l)
		add("all-zero", z)
		f := make([]byte, l)
		for i := range f {
			f[i] = 0xff
		}
		add("unreduced-ff", f)
		for _, first := range []byte{0x00, 0x02, 0x03, 0x04, 0x40, 0x80, 0xc0, 0xa0, 0xe0} {
			c := make([]byte, l)
			c[0] = first
			add("identity-like", c)
			c = append([]byte(nil), f...)
			c[0] = first
			add("unreduced-ff", c)
			c = make([]byte, l)
			c[0], c[l-1] = first, 1
			add("identity-like", c)
		}
		for k := 0; k < 12; k++ {
			add("random", r.Bytes(l))
		}
		// random x under each plausible prefix (on curve about half the time; for curves with a
		// cofactor then almost never in the prime-order subgroup)
		for k := 0; k < 24; k++ {
			c := r.Bytes(l)
			switch k % 4 {
			case 0:
				c[0] = 0x02 + byte(k/4%2)
			case 1:
				c[0] = c[0]&0x1f | 0x80 // ZCash: compressed, not infinity
			case 2:
				c[0] &= 0x1f // ZCash uncompressed / small leading byte
			default:
				c[l-1] &= 0x7f
			}
			add("random-x", c)
		}
	}
	add("wrong-length", nil)
	add("wrong-length", []byte{0})
	et.payloads = append(et.payloads, a.extra...)
	return et
}

// ---- per-curve registration ---------------------------------------------------------------------

type pointStruct[P any] interface {
	FromCompressed([]byte) (P, error)
	FromUncompressed([]byte) (P, error)
	FromBytes([]byte) (P, error)
	Random(io.Reader) (P, error)
	OpIdentity() P
}

type pointElem[P any] interface {
	ToCompressed() []byte
	ToUncompressed() []byte
	Bytes() []byte
	Equal(P) bool
}

func regPoint[P pointElem[P]](r *vh.Rng, name string, st pointStruct[P], newP func() P, subgroup func(P) bool, extra []payload) elemType {
	var hs []P
	hs = append(hs, st.OpIdentity())
	for i := 0; i < 4; i++ {
		if p, err := st.Random(r); err == nil {
			hs = append(hs, p)
		}
	}
	return mkElem(r, elemAPI[P]{
		name: name, honest: hs,
		encs:     []func(P) []byte{func(p P) []byte { return p.ToCompressed() }, func(p P) []byte { return p.ToUncompressed() }, func(p P) []byte { return p.Bytes() }},
		ctors:    []func([]byte) (P, error){st.FromCompressed, st.FromUncompressed, st.FromBytes},
		eq:       func(a, b P) bool { return a.Equal(b) },
		subgroup: subgroup, newT: newP, hasCBOR: true, extra: extra,
	})
}

type fieldStruct[E any] interface {
	FromBytes([]byte) (E, error)
	Random(io.Reader) (E, error)
	Zero() E
	One() E
}

type fieldElem[E any] interface {
	Bytes() []byte
	Equal(E) bool
}

func regField[E fieldElem[E]](r *vh.Rng, name string, st fieldStruct[E], newE func() E, modulusBE string) elemType {
	hs := []E{st.Zero(), st.One()}
	for i := 0; i < 4; i++ {
		if e, err := st.Random(r); err == nil {
			hs = append(hs, e)
		}
	}
	var extra []payload
	if modulusBE != "" {
		q := vh.UnZHex(modulusBE)
		l := (q.BitLen() + 7) / 8
		for _, d := range []int64{-1, 0, 1, 2} {
			v := new(big.Int).Add(q, big.NewInt(d))
			be := v.FillBytes(make([]byte, l))
			extra = append(extra, payload{"modulus-boundary", be})
			le := make([]byte, l)
			for i := range be {
				le[l-1-i] = be[i]
			}
			extra = append(extra, payload{"modulus-boundary", le})
		}
	}
	return mkElem(r, elemAPI[E]{
		name: name, honest: hs,
		// MarshalBinary of the field element types emits the internal little-endian form, for which the
		// structures have no separate public constructor: the byte-reversed payload through FromBytes is
		// the same canonical-range check, so it counts as the type's own constructor for that form.
		encs: []func(E) []byte{func(e E) []byte { return e.Bytes() }, func(e E) []byte {
			if m, ok := any(e).(encoding.BinaryMarshaler); ok {
				b, _ := m.MarshalBinary()
				return b
			}
			return nil
		}},
		ctors: []func([]byte) (E, error){st.FromBytes, func(b []byte) (E, error) {
			rev := make([]byte, len(b))
			for i := range b {
				rev[len(b)-1-i] = b[i]
			}
			return st.FromBytes(rev)
		}},
		eq:   func(a, b E) bool { return a.Equal(b) },
		newT: newE, hasCBOR: true, extra: extra,
	})
}

// the eight torsion points of edwards25519, compressed (RFC 8032 encoding)
var edTorsion = []string{
	"0100000000000000000000000000000000000000000000000000000000000000",   // identity
	"ecffffffffffffffffffffffffffffffffffffffffffffffffffffffffffffff7f", // (0,-1), order 2
	"0000000000000000000000000000000000000000000000000000000000000000",   // order 4
	"0000000000000000000000000000000000000000000000000000000000000080",   // order 4
	"26e8958fc2b227b045c3f489f2ef98f0d5dfac05d3c63339b13802886d53fc05",   // order 8
	"26e8958fc2b227b045c3f489f2ef98f0d5dfac05d3c63339b13802886d53fc85",   // order 8
	"c7176a703d4dd84fba3c0b760d10670f2a2053fa2c39ccc64ec7fd7792ac037a",   // order 8
	"c7176a703d4dd84fba3c0b760d10670f2a2053fa2c39ccc64ec7fd7792ac03fa",   // order 8
	// non-canonical encodings of small-order points (y >= p, or x = 0 with the sign bit set)
	"0100000000000000000000000000000000000000000000000000000000000080",
	"ecffffffffffffffffffffffffffffffffffffffffffffffffffffffffffffffff",
	"eeffffffffffffffffffffffffffffffffffffffffffffffffffffffffffffff7f",
	"eeffffffffffffffffffffffffffffffffffffffffffffffffffffffffffffffff",
	"edffffffffffffffffffffffffffffffffffffffffffffffffffffffffffffff7f",
	"edffffffffffffffffffffffffffffffffffffffffffffffffffffffffffffffff",
}

// small-order and mixed-order points of edwards25519 / curve25519 through the full-curve types:
// T = l*Q for Q on the curve (computed as (l-1)*Q + Q), M = P + T for P in the prime-order subgroup.
func edwardsCofactorPayloads(r *vh.Rng) []payload {
	var out []payload
	c := edwards25519.NewCurve()
	lm1 := edwards25519.NewScalarField().One().Neg()
	var ts []*edwards25519.Point
	for _, h := range edTorsion {
		b := vh.UnHex(h)
		out = append(out, payload{"small-order", b})
		if t, err := c.FromCompressed(b); err == nil {
			ts = append(ts, t)
		}
	}
	for tries := 0; tries < 40 && len(ts) < 24; tries++ {
		q, err := c.FromCompressed(r.Bytes(32))
		if err != nil {
			continue
		}
		ts = append(ts, q.ScalarMul(lm1).Op(q))
		out = append(out, payload{"non-subgroup", q.ToCompressed()}, payload{"non-subgroup", q.ToUncompressed()})
	}
	sg := edwards25519.NewPrimeSubGroup()
	for i, t := range ts {
		out = append(out, payload{"small-order", t.ToCompressed()}, payload{"small-order", t.ToUncompressed()}, payload{"small-order", t.Bytes()})
		if p, err := sg.Random(r); err == nil && i < 16 {
			m := p.AsPoint().Op(t)
			out = append(out, payload{"subgroup+small-order", m.ToCompressed()}, payload{"subgroup+small-order", m.ToUncompressed()})
		}
	}
	return out
}

func montgomeryCofactorPayloads(r *vh.Rng) []payload {
	var out []payload
	c := curve25519.NewCurve()
	lm1 := curve25519.NewScalarField().One().Neg()
	var ts []*curve25519.Point
	// u = 0 (order 2), u = 1 (order 4), u = p-1 (order 4), the two order-8 u's, and unreduced u's
	for _, h := range []string{
		"0000000000000000000000000000000000000000000000000000000000000000",
		"0100000000000000000000000000000000000000000000000000000000000000",
		"ecffffffffffffffffffffffffffffffffffffffffffffffffffffffffffffff7f",
		"e0eb7a7c3b41b8ae1656e3faf19fc46ada098deb9c32b1fd866205165f49b800",
		"5f9c95bca3508c24b1d0b1559c83ef5b04445cc4581c8e86d8224eddd09f1157",
		"edffffffffffffffffffffffffffffffffffffffffffffffffffffffffffffff7f",
		"eeffffffffffffffffffffffffffffffffffffffffffffffffffffffffffffff7f",
	} {
		b := vh.UnHex(h)
		out = append(out, payload{"small-order", b})
		var t *curve25519.Point
		var err error
		if vh.Safely(func() { t, err = c.FromCompressed(b) }) == "" && err == nil && t != nil {
			ts = append(ts, t)
		}
	}
	for tries := 0; tries < 40 && len(ts) < 20; tries++ {
		var q *curve25519.Point
		var err error
		if vh.Safely(func() { q, err = c.FromCompressed(r.Bytes(32)) }) != "" || err != nil || q == nil {
			continue
		}
		vh.Safely(func() {
			ts = append(ts, q.ScalarMul(lm1).Op(q))
			out = append(out, payload{"non-subgroup", q.ToCompressed()}, payload{"non-subgroup", q.ToUncompressed()})
		})
	}
	sg := curve25519.NewPrimeSubGroup()
	for i, t := range ts {
		t := t
		vh.Safely(func() {
			out = append(out, payload{"small-order", t.ToCompressed()})
			out = append(out, payload{"small-order", t.ToUncompressed()})
		})
		if p, err := sg.Random(r); err == nil && i < 16 {
			vh.Safely(func() {
				m := p.AsPoint().Op(t)
				out = append(out, payload{"subgroup+small-order", m.ToCompressed()}, payload{"subgroup+small-order", m.ToUncompressed()})
			})
		}
	}
	return out
}

// unreduced x coordinates for the prime-order short-Weierstrass curves: x + p still fits the width
func weierstrassUnreduced(pHex string) []payload {
	p := vh.UnZHex(pHex)
	var out []payload
	for _, x := range []int64{0, 1, 2, 3, 5} {
		v := new(big.Int).Add(p, big.NewInt(x))
		be := v.FillBytes(make([]byte, 32))
		for _, pre := range []byte{2, 3} {
			out = append(out, payload{"unreduced-x", append([]byte{pre}, be...)})
		}
		out = append(out, payload{"unreduced-x", append(append([]byte{4}, be...), make([]byte, 32)...)})
	}
	return out
}

func buildElemTypes(seed int64) []elemType {
	r := vh.NewRng(seed, "C12", "elements", 0)
	var out []elemType
	safe := func(f func()) {
		if p := vh.Safely(f); p != "" {
			fmt.Fprintln(os.Stderr, "ELEMENT-SETUP-ERROR", p)
		}
	}
	safe(func() {
		out = append(out, regPoint(r, "elem-point-k256", k256.NewCurve(), func() *k256.Point { return new(k256.Point) }, nil,
			weierstrassUnreduced("fffffffffffffffffffffffffffffffffffffffffffffffffffffffefffffc2f")))
		out = append(out, regField(r, "elem-scalar-k256", k256.NewScalarField(), func() *k256.Scalar { return new(k256.Scalar) }, qK256))
		out = append(out, regField(r, "elem-basefield-k256", k256.NewBaseField(), func() *k256.BaseFieldElement { return new(k256.BaseFieldElement) }, "fffffffffffffffffffffffffffffffffffffffffffffffffffffffefffffc2f"))
	})
	safe(func() {
		out = append(out, regPoint(r, "elem-point-p256", p256.NewCurve(), func() *p256.Point { return new(p256.Point) }, nil,
			weierstrassUnreduced("ffffffff00000001000000000000000000000000ffffffffffffffffffffffff")))
		out = append(out, regField(r, "elem-scalar-p256", p256.NewScalarField(), func() *p256.Scalar { return new(p256.Scalar) }, qP256))
		out = append(out, regField(r, "elem-basefield-p256", p256.NewBaseField(), func() *p256.BaseFieldElement { return new(p256.BaseFieldElement) }, "ffffffff00000001000000000000000000000000ffffffffffffffffffffffff"))
	})
	safe(func() {
		const pallasP = "40000000000000000000000000000000224698fc094cf91b992d30ed00000001"
		const vestaP = "40000000000000000000000000000000224698fc0994a8dd8c46eb2100000001"
		out = append(out, regPoint(r, "elem-point-pallas", pasta.NewPallasCurve(), func() *pasta.PallasPoint { return new(pasta.PallasPoint) }, nil, nil))
		out = append(out, regPoint(r, "elem-point-vesta", pasta.NewVestaCurve(), func() *pasta.VestaPoint { return new(pasta.VestaPoint) }, nil, nil))
		out = append(out, regField(r, "elem-fp-pasta", pasta.NewPallasBaseField(), func() *pasta.FpFieldElement { return new(pasta.FpFieldElement) }, pallasP))
		out = append(out, regField(r, "elem-fq-pasta", pasta.NewVestaBaseField(), func() *pasta.FqFieldElement { return new(pasta.FqFieldElement) }, vestaP))
	})
	safe(func() {
		ed := edwardsCofactorPayloads(r)
		out = append(out, regPoint(r, "elem-point-edwards25519", edwards25519.NewCurve(), func() *edwards25519.Point { return new(edwards25519.Point) }, nil, ed))
		out = append(out, regPoint(r, "elem-primesubgroup-edwards25519", edwards25519.NewPrimeSubGroup(),
			func() *edwards25519.PrimeSubGroupPoint { return new(edwards25519.PrimeSubGroupPoint) },
			func(p *edwards25519.PrimeSubGroupPoint) bool { return p.AsPoint().IsTorsionFree() }, ed))
		out = append(out, regField(r, "elem-scalar-edwards25519", edwards25519.NewScalarField(), func() *edwards25519.Scalar { return new(edwards25519.Scalar) },
			"1000000000000000000000000000000014def9dea2f79cd65812631a5cf5d3ed"))
		out = append(out, regField(r, "elem-basefield-edwards25519", edwards25519.NewBaseField(), func() *edwards25519.BaseFieldElement { return new(edwards25519.BaseFieldElement) },
			"7fffffffffffffffffffffffffffffffffffffffffffffffffffffffffffffed"))
	})
	safe(func() {
		mo := montgomeryCofactorPayloads(r)
		out = append(out, regPoint(r, "elem-point-curve25519", curve25519.NewCurve(), func() *curve25519.Point { return new(curve25519.Point) }, nil, mo))
		out = append(out, regPoint(r, "elem-primesubgroup-curve25519", curve25519.NewPrimeSubGroup(),
			func() *curve25519.PrimeSubGroupPoint { return new(curve25519.PrimeSubGroupPoint) },
			func(p *curve25519.PrimeSubGroupPoint) bool { return p.AsPoint().IsTorsionFree() }, mo))
	})
	safe(func() {
		const blsP = "1a0111ea397fe69a4b1ba7b6434bacd764774b84f38512bf6730d2a0f6b0f6241eabfffeb153ffffb9feffffffffaaab"
		out = append(out, regPoint(r, "elem-point-bls12381g1", bls12381.NewG1(), func() *bls12381.PointG1 { return new(bls12381.PointG1) },
			func(p *bls12381.PointG1) bool { return p.IsTorsionFree() }, nil))
		out = append(out, regPoint(r, "elem-point-bls12381g2", bls12381.NewG2(), func() *bls12381.PointG2 { return new(bls12381.PointG2) },
			func(p *bls12381.PointG2) bool { return p.IsTorsionFree() }, nil))
		out = append(out, regField(r, "elem-scalar-bls12381", bls12381.NewScalarField(), func() *bls12381.Scalar { return new(bls12381.Scalar) }, qBLS))
		out = append(out, regField(r, "elem-basefield-bls12381g1", bls12381.NewG1BaseField(), func() *bls12381.BaseFieldElementG1 { return new(bls12381.BaseFieldElementG1) }, blsP))
	})
	safe(func() {
		gt := bls12381.NewGt()
		hs := []*bls12381.GtElement{gt.One()}
		for i := 0; i < 3; i++ {
			if e, err := gt.Random(r); err == nil {
				hs = append(hs, e)
			}
		}
		out = append(out, mkElem(r, elemAPI[*bls12381.GtElement]{
			name: "elem-gt-bls12381", honest: hs,
			encs:  []func(*bls12381.GtElement) []byte{func(e *bls12381.GtElement) []byte { return e.Bytes() }},
			ctors: []func([]byte) (*bls12381.GtElement, error){gt.FromBytes},
			eq:    func(a, b *bls12381.GtElement) bool { return a.Equal(b) },
			newT:  func() *bls12381.GtElement { return new(bls12381.GtElement) }, hasCBOR: false,
		}))
	})
	for i := range out {
		out[i].name = strings.TrimSpace(out[i].name)
	}
	return out
}
