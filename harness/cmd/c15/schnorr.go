package main

import (
	"bytes"
	"fmt"
	"math/big"
	"slices"
	"strings"

	"github.com/bronlabs/bron-crypto/pkg/base/algebra"
	"github.com/bronlabs/bron-crypto/pkg/base/curves/edwards25519"
	"github.com/bronlabs/bron-crypto/pkg/base/curves/k256"
	"github.com/bronlabs/bron-crypto/pkg/base/curves/p256"
	"github.com/bronlabs/bron-crypto/pkg/base/curves/pasta"
	"github.com/bronlabs/bron-crypto/pkg/signatures"
	"github.com/bronlabs/bron-crypto/pkg/signatures/schnorrlike"
	"github.com/bronlabs/bron-crypto/pkg/signatures/schnorrlike/bip340"
	"github.com/bronlabs/bron-crypto/pkg/signatures/schnorrlike/mina"
	vanilla "github.com/bronlabs/bron-crypto/pkg/signatures/schnorrlike/schnorr"

	"verif/harness/internal/vh"
)

const schnorrWhat = "schnorr_sign_verify / schnorr_accept_iff (model/Schnorr.v) vs pkg/signatures/schnorrlike"

// ---- generic variant --------------------------------------------------------------------------------

type genEnv[GE algebra.PrimeGroupElement[GE, S], S algebra.PrimeFieldElement[S]] struct {
	name  string
	group algebra.PrimeGroup[GE, S]
	sf    algebra.PrimeField[S]
	n     *big.Int
	ref   *wcurve            // nil when there is no independent implementation
	yOdd  func(p GE) bool    // nil when unavailable
	xy    func(p GE) (x, y *big.Int)
}

func (env *genEnv[GE, S]) toS(x *big.Int) S {
	x = new(big.Int).Mod(x, env.n)
	if x.Sign() == 0 {
		return env.sf.Zero()
	}
	s, err := env.sf.FromWideBytes(x.Bytes())
	if err != nil {
		panic(err)
	}
	return s
}

func (env *genEnv[GE, S]) pointOf(k *big.Int) GE { return env.group.ScalarBaseOp(env.toS(k)) }

// the documented challenge e = H(R || P || m) mod n with the variant's byte order
func genChallenge(h hcfg, le bool, n *big.Int, parts ...[]byte) *big.Int {
	x := h.newH()
	for _, p := range parts {
		x.Write(p)
	}
	d := x.Sum(nil)
	if le {
		slices.Reverse(d)
	}
	e := new(big.Int).SetBytes(d)
	return e.Mod(e, n)
}

type gquery struct {
	name   string
	rk     *big.Int // discrete log of R (0 = identity)
	s      *big.Int
	pkd    *big.Int // discrete log of the public key (0 = identity)
	msg    []byte
	mid    string
	expect string
}

func parity(b bool) int {
	if b {
		return 1
	}
	return 0
}

func genericCase[GE algebra.PrimeGroupElement[GE, S], S algebra.PrimeFieldElement[S]](r *run, env *genEnv[GE, S], h hcfg, neg, le, negNonce bool, idx int) {
	cfg := fmt.Sprintf("%s:%s:neg=%v:le=%v:evenR=%v", env.name, h.name, neg, le, negNonce)
	caseText := fmt.Sprintf("schnorr:%s:%s:%d:%d:%d:%d", env.name, h.name, parity(neg), parity(le), parity(negNonce), idx)
	class := "schnorr/" + cfg
	rng := vh.NewRng(r.a.Seed, "C15", "schnorr/"+cfg, idx)
	n := env.n
	var x *big.Int
	switch idx {
	case 0:
		x = big.NewInt(1)
	case 1:
		x = new(big.Int).Sub(n, big.NewInt(1))
	default:
		x = rng.BigBelow(new(big.Int).Sub(n, big.NewInt(1)))
		x.Add(x, big.NewInt(1))
	}
	msg := rng.Bytes(1 + rng.Intn(80))
	canon := fmt.Sprintf("%s x=%s msg=%s", caseText, vh.ZHex(x), vh.Hex(msg))

	var negFn func(GE) bool
	if negNonce {
		negFn = env.yOdd
	}
	scheme, err := vanilla.NewScheme(env.group, h.newH, neg, le, negFn, rng)
	if err != nil {
		r.res.Count(class+"/scheme-refused", canon, false)
		return
	}
	P := env.pointOf(x)
	pk, err := vanilla.NewPublicKey(P)
	if err != nil {
		r.prop("schnorr-key-refused", caseText, schnorrWhat, err.Error())
		return
	}
	sk, err := vanilla.NewPrivateKey(env.toS(x), pk)
	if err != nil {
		r.prop("schnorr-key-refused", caseText, schnorrWhat, err.Error())
		return
	}
	signer, err := scheme.Signer(sk)
	if err != nil {
		r.res.Count(class+"/signer-refused", canon, false)
		return
	}
	var sig *vanilla.Signature[GE, S]
	if p := vh.Safely(func() { sig, err = signer.Sign(msg) }); p != "" {
		r.prop("schnorr-sign-panic", caseText, schnorrWhat, p)
		return
	}
	if err != nil {
		r.prop("schnorr-sign-failed-"+env.name, caseText, schnorrWhat, "Sign failed (its self-verification rejects or an error occurred): "+err.Error())
		return
	}
	r.res.Count(class, canon, true)
	s := bigOf(sig.S)
	e := genChallenge(h, le, n, sig.R.Bytes(), P.Bytes(), msg)
	ex := mulMod(e, x, n)
	var k *big.Int
	if neg {
		k = addMod(s, ex, n)
	} else {
		k = subMod(s, ex, n)
	}
	// exponent tie and independent verification: R = k*G  <=>  s*G = R ± e*P with the documented challenge
	okR := env.pointOf(k).Equal(sig.R)
	if env.ref != nil {
		Rr := env.ref.baseMul(k)
		rx, ry := env.xy(sig.R)
		okR = okR && !Rr.inf && Rr.x.Cmp(rx) == 0 && Rr.y.Cmp(ry) == 0
	}
	if !okR {
		r.prop("schnorr-sign-invalid-"+env.name, caseText, schnorrWhat,
			fmt.Sprintf("signature (R=%s, s=%s) on msg %s under key x=%s does not satisfy s*G = R %s e*P for e = H(R||P||m) computed independently", vh.Hex(sig.R.Bytes()), vh.ZHex(s), vh.Hex(msg), vh.ZHex(x), map[bool]string{false: "+", true: "-"}[neg]))
	}
	yo := []string{}
	addYo := func(k *big.Int) {
		k = new(big.Int).Mod(k, n)
		if env.yOdd != nil && k.Sign() != 0 {
			odd := env.yOdd(env.pointOf(k))
			if env.ref != nil {
				odd = isOdd(env.ref.baseMul(k).y)
			}
			yo = append(yo, fmt.Sprintf("%s:%d", vh.ZHex(k), parity(odd)))
		}
	}
	addYo(k)
	if negNonce && env.yOdd != nil && env.yOdd(sig.R) {
		r.prop("schnorr-nonce-parity-"+env.name, caseText, schnorrWhat, "R has odd y although the variant negates nonces with odd y")
	}
	chal := func(rk, pkd *big.Int, m []byte, mid string) string {
		ee := genChallenge(h, le, n, env.pointOf(rk).Bytes(), env.pointOf(pkd).Bytes(), m)
		return fmt.Sprintf("%s:%s:%s:%s", vh.ZHex(new(big.Int).Mod(rk, n)), vh.ZHex(new(big.Int).Mod(pkd, n)), mid, vh.ZHex(ee))
	}
	b01 := func(b bool) string { return fmt.Sprint(parity(b)) }
	okObs := "none"
	if okR {
		okObs = vh.ZHex(k) + "," + vh.ZHex(s)
	}
	r.expect("GS", []string{vh.ZHex(n), b01(neg), "0", "0", b01(negNonce), vh.ZHex(x), vh.ZHex(k), "m", chal(k, x, msg, "m"), tbl(yo)},
		okObs, class, caseText, "schnorr-sign-"+env.name, schnorrWhat, "Sign(msg) as (log R, s)", !okR)

	msg2 := append([]byte{}, msg...)
	msg2[rng.Intn(len(msg2))] ^= 1 << uint(rng.Intn(8))
	one := big.NewInt(1)
	x2 := addMod(x, one, n)
	if x2.Sign() == 0 {
		x2 = big.NewInt(2)
	}
	qs := []gquery{
		{"honest", k, s, x, msg, "m", "acc"},
		{"message-bit-flipped", k, s, x, msg2, "x", "rej"},
		{"s+1", k, addMod(s, one, n), x, msg, "m", "rej"},
		{"R+G", addMod(k, one, n), s, x, msg, "m", "rej"},
		{"R-negated", subMod(big.NewInt(0), k, n), s, x, msg, "m", "rej"},
		{"public-key-changed", k, s, x2, msg, "m", "rej"},
		{"public-key-negated", k, s, subMod(big.NewInt(0), x, n), msg, "m", "rej"},
		{"R-identity", big.NewInt(0), s, x, msg, "m", "rej"},
		{"s-zero", k, big.NewInt(0), x, msg, "m", "rej"},
		{"public-key-identity", k, s, big.NewInt(0), msg, "m", "rej"},
	}
	vf, err := scheme.Verifier()
	if err != nil {
		return
	}
	for _, q := range qs {
		if q.rk.Sign() == 0 && q.name != "R-identity" || (q.pkd.Sign() == 0 && q.name != "public-key-identity") {
			continue
		}
		obs := "rej"
		p := vh.Safely(func() {
			sg := &schnorrlike.Signature[GE, S]{R: env.pointOf(q.rk), S: env.toS(q.s)}
			pkq := &schnorrlike.PublicKey[GE, S]{PublicKeyTrait: signatures.PublicKeyTrait[GE, S]{V: env.pointOf(q.pkd)}}
			if vf.Verify(sg, pkq, q.msg) == nil {
				obs = "acc"
			}
		})
		if p != "" {
			obs = "panic"
		}
		pf := obs != q.expect
		if pf {
			r.prop("schnorr-"+q.name+"-"+env.name, caseText, schnorrWhat, fmt.Sprintf("%s (%s): verifier says %s, property requires %s; key x=%s msg=%s log R=%s s=%s", q.name, cfg, obs, q.expect, vh.ZHex(q.pkd), vh.Hex(q.msg), vh.ZHex(q.rk), vh.ZHex(q.s)))
		}
		r.res.Count(class+"/verify", canon+"/"+q.name, true)
		ch := "-"
		if q.rk.Sign() != 0 && q.pkd.Sign() != 0 {
			ch = chal(q.rk, q.pkd, q.msg, q.mid)
		}
		r.expect("GV", []string{vh.ZHex(n), b01(neg), "0", "0", "1", vh.ZHex(q.rk), vh.ZHex(q.s), vh.ZHex(q.pkd), q.mid, ch},
			obs, class, caseText, "schnorr-verify-"+env.name, schnorrWhat, q.name, pf)
	}
	if okR && idx < 2 {
		genericWire(r, env, class, caseText, func(sg *schnorrlike.Signature[GE, S]) bool { return vf.Verify(sg, pk, msg) == nil }, sig)
	}
}

func k256Gen() *genEnv[*k256.Point, *k256.Scalar] {
	xy := func(p *k256.Point) (*big.Int, *big.Int) {
		x, _ := p.AffineX()
		y, _ := p.AffineY()
		return x.Cardinal().Big(), y.Cardinal().Big()
	}
	return &genEnv[*k256.Point, *k256.Scalar]{name: "k256", group: k256.NewCurve(), sf: k256.NewScalarField(), n: secp256k1.n, ref: secp256k1, xy: xy,
		yOdd: func(p *k256.Point) bool { _, y := xy(p); return isOdd(y) }}
}

func p256Gen() *genEnv[*p256.Point, *p256.Scalar] {
	xy := func(p *p256.Point) (*big.Int, *big.Int) {
		x, _ := p.AffineX()
		y, _ := p.AffineY()
		return x.Cardinal().Big(), y.Cardinal().Big()
	}
	return &genEnv[*p256.Point, *p256.Scalar]{name: "p256", group: p256.NewCurve(), sf: p256.NewScalarField(), n: nistP256.n, ref: nistP256, xy: xy,
		yOdd: func(p *p256.Point) bool { _, y := xy(p); return isOdd(y) }}
}

func pallasXY(p *pasta.PallasPoint) (*big.Int, *big.Int) {
	x, _ := p.AffineX()
	y, _ := p.AffineY()
	return x.Cardinal().Big(), y.Cardinal().Big()
}

func pallasGen() *genEnv[*pasta.PallasPoint, *pasta.PallasScalar] {
	return &genEnv[*pasta.PallasPoint, *pasta.PallasScalar]{name: "pallas", group: pasta.NewPallasCurve(), sf: pasta.NewPallasScalarField(), n: pallasRef.n, ref: pallasRef, xy: pallasXY,
		yOdd: func(p *pasta.PallasPoint) bool { _, y := pallasXY(p); return isOdd(y) }}
}

func edGen() *genEnv[*edwards25519.PrimeSubGroupPoint, *edwards25519.Scalar] {
	n := new(big.Int).Lsh(big.NewInt(1), 252)
	n.Add(n, hexInt("14def9dea2f79cd65812631a5cf5d3ed"))
	return &genEnv[*edwards25519.PrimeSubGroupPoint, *edwards25519.Scalar]{name: "edwards25519", group: edwards25519.NewPrimeSubGroup(), sf: edwards25519.NewScalarField(), n: n}
}

// ---- BIP-340 ----------------------------------------------------------------------------------------

func k256Scalar(x *big.Int) *k256.Scalar {
	x = new(big.Int).Mod(x, secp256k1.n)
	if x.Sign() == 0 {
		return k256.NewScalarField().Zero()
	}
	s, err := k256.NewScalarField().FromWideBytes(x.Bytes())
	if err != nil {
		panic(err)
	}
	return s
}

func k256Point(k *big.Int) *k256.Point { return k256.NewCurve().ScalarBaseMul(k256Scalar(k)) }

// xoKey is the model's x-only class representative min(k, n-k)
func xoKey(k, n *big.Int) *big.Int {
	a := new(big.Int).Mod(k, n)
	b := new(big.Int).Sub(n, a)
	b.Mod(b, n)
	if a.Cmp(b) <= 0 {
		return a
	}
	return b
}

type bquery struct {
	name   string
	rk, s  *big.Int
	pkd    *big.Int
	msg    []byte
	mid    string
	expect string
}

func bipCase(r *run, idx int) {
	caseText := fmt.Sprintf("bip340:%d", idx)
	class := "bip340"
	rng := vh.NewRng(r.a.Seed, "C15", "bip340", idx)
	c := secp256k1
	n := c.n
	var d0 *big.Int
	switch idx {
	case 0:
		d0 = big.NewInt(1)
	case 1:
		d0 = new(big.Int).Sub(n, big.NewInt(1))
	case 2:
		d0 = big.NewInt(3)
	default:
		d0 = rng.BigBelow(new(big.Int).Sub(n, big.NewInt(1)))
		d0.Add(d0, big.NewInt(1))
	}
	msg := rng.Bytes(rng.Intn(70))
	if idx%3 == 0 {
		msg = rng.Bytes(32)
	}
	if idx%11 == 4 {
		msg = []byte{}
	}
	var aux [32]byte
	copy(aux[:], rng.Bytes(32))
	canon := fmt.Sprintf("%s d=%s aux=%s msg=%s", caseText, vh.ZHex(d0), vh.Hex(aux[:]), vh.Hex(msg))
	what := schnorrWhat + " (BIP-340)"

	scheme := bip340.NewSchemeWithAux(aux)
	sk, err := bip340.NewPrivateKey(k256Scalar(d0))
	if err != nil {
		r.prop("bip340-key-refused", caseText, what, err.Error())
		return
	}
	signer, err := scheme.Signer(sk)
	if err != nil {
		r.prop("bip340-signer-refused", caseText, what, err.Error())
		return
	}
	var sig *bip340.Signature
	if p := vh.Safely(func() { sig, err = signer.Sign(msg) }); p != "" {
		r.prop("bip340-sign-panic", caseText, what, p)
		return
	}
	if err != nil {
		r.prop("bip340-sign-failed", caseText, what, "Sign failed: "+err.Error())
		return
	}
	r.res.Count(class, canon, true)
	ser, _ := bip340.SerializeSignature(sig)
	pkb, _ := bip340.SerializePublicKey(sk.PublicKey())
	Pref := c.baseMul(d0)
	if !bytes.Equal(pkb, b32(Pref.x)) {
		r.prop("bip340-pk-encoding", caseText, what, "x-only public key differs from the reference x(d*G)")
	}
	propOK := bip340Verify(b32(Pref.x), msg, ser)
	if !propOK {
		r.prop("bip340-sign-invalid", caseText, what, fmt.Sprintf("signature %s on %s under x-only key %s is rejected by the independent BIP-340 verifier", vh.Hex(ser), vh.Hex(msg), vh.Hex(pkb)))
	}
	refSig := bip340Sign(d0, aux[:], msg)
	k0 := bip340Nonce(d0, aux[:], msg)
	k := new(big.Int).Set(k0)
	if isOdd(c.baseMul(k0).y) {
		k.Sub(n, k0)
	}
	s := bigOf(sig.S)
	obs := "other"
	if bytes.Equal(ser, refSig) {
		obs = vh.ZHex(k) + "," + vh.ZHex(s)
	}
	yo := map[string]bool{}
	var yoL []string
	addYo := func(k *big.Int) {
		k = new(big.Int).Mod(k, n)
		if k.Sign() == 0 || yo[k.Text(16)] {
			return
		}
		yo[k.Text(16)] = true
		yoL = append(yoL, fmt.Sprintf("%s:%d", vh.ZHex(k), parity(isOdd(c.baseMul(k).y))))
	}
	evenOf := func(k *big.Int) *big.Int {
		k = new(big.Int).Mod(k, n)
		if k.Sign() != 0 && isOdd(c.baseMul(k).y) {
			return new(big.Int).Sub(n, k)
		}
		return k
	}
	chal := func(rk, pe *big.Int, m []byte, mid string) (string, *big.Int) {
		ee := bip340Challenge(c.baseMul(rk).x, c.baseMul(pe).x, m)
		return fmt.Sprintf("%s:%s:%s:%s", vh.ZHex(xoKey(rk, n)), vh.ZHex(xoKey(pe, n)), mid, vh.ZHex(ee)), ee
	}
	for _, v := range []*big.Int{d0, subMod(big.NewInt(0), d0, n), k0, subMod(big.NewInt(0), k0, n)} {
		addYo(v)
	}
	ch0, e := chal(k, d0, msg, "m")
	r.expect("BS", []string{vh.ZHex(n), vh.ZHex(d0), vh.ZHex(k0), "m", ch0, tbl(yoL)}, obs, class, caseText, "bip340-sign", what,
		"Sign(msg) against the reference signer (serialised "+vh.Hex(ser)+", reference "+vh.Hex(refSig)+")", !propOK)

	// alterations on the struct API
	d := evenOf(d0)
	one := big.NewInt(1)
	msg2 := append([]byte{}, msg...)
	if len(msg2) == 0 {
		msg2 = []byte{1}
	} else {
		msg2[rng.Intn(len(msg2))] ^= 1 << uint(rng.Intn(8))
	}
	x2 := addMod(d0, one, n)
	if x2.Sign() == 0 {
		x2 = big.NewInt(2)
	}
	qs := []bquery{
		{"honest", k, s, d0, msg, "m", "acc"},
		{"R-negated (same x-only encoding)", subMod(big.NewInt(0), k, n), s, d0, msg, "m", "acc"},
		{"public-key-negated (same x-only key)", k, s, subMod(big.NewInt(0), d0, n), msg, "m", "acc"},
		{"message-bit-flipped", k, s, d0, msg2, "x", "rej"},
		{"s+1", k, addMod(s, one, n), d0, msg, "m", "rej"},
		{"R+G", addMod(k, one, n), s, d0, msg, "m", "rej"},
		{"public-key-changed", k, s, x2, msg, "m", "rej"},
		{"odd-R-forgery s=e*d-k", k, subMod(mulMod(e, d, n), k, n), d0, msg, "m", "rej"},
		{"s-zero", k, big.NewInt(0), d0, msg, "m", "rej"},
		{"R-identity", big.NewInt(0), s, d0, msg, "m", "rej"},
	}
	vf, err := scheme.Verifier()
	if err != nil {
		return
	}
	for _, q := range qs {
		obs := "rej"
		p := vh.Safely(func() {
			sg := &bip340.Signature{R: k256Point(q.rk), S: k256Scalar(q.s)}
			pkq := &bip340.PublicKey{PublicKeyTrait: signatures.PublicKeyTrait[*k256.Point, *k256.Scalar]{V: k256Point(q.pkd)}}
			if vf.Verify(sg, pkq, q.msg) == nil {
				obs = "acc"
			}
		})
		if p != "" {
			obs = "panic"
		}
		if strings.Contains(q.name, "same x-only") && obs == "rej" {
			// (−R, s) and (R, s), P and −P serialise identically; refusing the odd-y representative at the
			// struct level would be stricter than BIP-340 needs, not a violation
			r.res.Count(class+"/verify-stricter", canon+"/"+q.name, true)
			continue
		}
		pf := obs != q.expect
		if pf {
			r.prop("bip340-"+strings.Fields(q.name)[0], caseText, what, fmt.Sprintf("%s: verifier says %s, property requires %s; key d=%s msg=%s log R=%s s=%s", q.name, obs, q.expect, vh.ZHex(q.pkd), vh.Hex(q.msg), vh.ZHex(q.rk), vh.ZHex(q.s)))
		}
		r.res.Count(class+"/verify", canon+"/"+q.name, true)
		ch := "-"
		yoL = nil
		yo = map[string]bool{}
		if q.rk.Sign() != 0 && q.s.Sign() != 0 {
			pe := evenOf(q.pkd)
			var eq *big.Int
			ch, eq = chal(q.rk, pe, q.msg, q.mid)
			addYo(q.pkd)
			addYo(subMod(q.s, mulMod(eq, pe, n), n))
		}
		r.expect("BV", []string{vh.ZHex(n), vh.ZHex(q.rk), vh.ZHex(q.s), "1", vh.ZHex(q.pkd), q.mid, ch, tbl(yoL)},
			obs, class, caseText, "bip340-verify", what, q.name, pf)
	}

	// serialised path: decode(ser) verifies; every single bit flip in the 64 bytes is rejected
	verifyBytes := func(pkb, sigb, m []byte) string {
		out := "rej"
		p := vh.Safely(func() {
			pk, err := bip340.NewPublicKeyFromBytes(pkb)
			if err != nil {
				return
			}
			sg, err := bip340.NewSignatureFromBytes(sigb)
			if err != nil {
				return
			}
			if vf.Verify(sg, pk, m) == nil {
				out = "acc"
			}
		})
		if p != "" {
			return "panic"
		}
		return out
	}
	if o := verifyBytes(pkb, ser, msg); o != "acc" {
		r.prop("bip340-serialised-rejected", caseText, what, "decode(serialise(sig)) does not verify: "+o)
	}
	for t := 0; t < 6; t++ {
		sb := append([]byte{}, ser...)
		pos := rng.Intn(64)
		if t == 0 {
			pos = 0
		} else if t == 1 {
			pos = 63
		}
		sb[pos] ^= 1 << uint(rng.Intn(8))
		o := verifyBytes(pkb, sb, msg)
		ref := bip340Verify(pkb, msg, sb)
		r.res.Count(class+"/bytes", canon+"/"+vh.Hex(sb), true)
		if o != "rej" || ref {
			r.prop("bip340-bitflip-accepted", caseText, what, fmt.Sprintf("signature bytes %s (one bit of %s flipped): implementation %s, reference accepts=%v", vh.Hex(sb), vh.Hex(ser), o, ref))
		}
	}
	pb := append([]byte{}, pkb...)
	pb[rng.Intn(32)] ^= 1 << uint(rng.Intn(8))
	if o := verifyBytes(pb, ser, msg); o != "rej" || bip340Verify(pb, msg, ser) {
		r.prop("bip340-key-bitflip-accepted", caseText, what, fmt.Sprintf("public key bytes %s (one bit of %s flipped): implementation %s", vh.Hex(pb), vh.Hex(pkb), o))
	}
	if bytes.Equal(ser, refSig) {
		bipWire(r, class, caseText, what, verifyBytes, pkb, ser, msg, d0, k, s)
	}
}

// ---- Mina ---------------------------------------------------------------------------------------------

func pallasScalar(x *big.Int) *pasta.PallasScalar {
	x = new(big.Int).Mod(x, pallasRef.n)
	if x.Sign() == 0 {
		return pasta.NewPallasScalarField().Zero()
	}
	s, err := pasta.NewPallasScalarField().FromWideBytes(x.Bytes())
	if err != nil {
		panic(err)
	}
	return s
}

func pallasPoint(k *big.Int) *pasta.PallasPoint {
	return pasta.NewPallasCurve().ScalarBaseMul(pallasScalar(k))
}

func minaMsg(s string) *mina.ROInput {
	m := new(mina.ROInput).Init()
	m.AddString(s)
	return m
}

func minaCase(r *run, randomised bool, idx int) {
	mode := "det"
	if randomised {
		mode = "rand"
	}
	caseText := fmt.Sprintf("mina:%s:%d", mode, idx)
	class := "mina/" + mode
	rng := vh.NewRng(r.a.Seed, "C15", "mina/"+mode, idx)
	c := pallasRef
	n := c.n
	what := schnorrWhat + " (Mina)"
	var x *big.Int
	switch idx {
	case 0:
		x = big.NewInt(1)
	case 1:
		x = new(big.Int).Sub(n, big.NewInt(1))
	default:
		x = rng.BigBelow(new(big.Int).Sub(n, big.NewInt(1)))
		x.Add(x, big.NewInt(1))
	}
	nid := mina.TestNet
	if idx%2 == 1 {
		nid = mina.MainNet
	}
	text := fmt.Sprintf("message %x", rng.Bytes(1+rng.Intn(20)))
	text2 := text + "!"
	canon := fmt.Sprintf("%s x=%s nid=%s msg=%q", caseText, vh.ZHex(x), nid, text)
	sk, err := mina.NewPrivateKey(pallasScalar(x))
	if err != nil {
		r.prop("mina-key-refused", caseText, what, err.Error())
		return
	}
	var scheme *mina.Scheme
	if randomised {
		scheme, err = mina.NewRandomisedScheme(nid, rng)
	} else {
		scheme, err = mina.NewScheme(nid, sk)
	}
	if err != nil {
		r.res.Count(class+"/scheme-refused", canon, false)
		return
	}
	signer, err := scheme.Signer(sk)
	if err != nil {
		r.res.Count(class+"/signer-refused", canon, false)
		return
	}
	var sig *mina.Signature
	if p := vh.Safely(func() { sig, err = signer.Sign(minaMsg(text)) }); p != "" {
		r.prop("mina-sign-panic", caseText, what, p)
		return
	}
	if err != nil {
		r.prop("mina-sign-failed", caseText, what, "Sign failed: "+err.Error())
		return
	}
	r.res.Count(class, canon, true)
	P := pallasPoint(x)
	chalOf := func(rk, pkd *big.Int, t string) *big.Int {
		e, err := scheme.Variant().ComputeChallenge(pallasPoint(rk), pallasPoint(pkd), minaMsg(t))
		if err != nil {
			return big.NewInt(0)
		}
		return bigOf(e)
	}
	s := bigOf(sig.S)
	eS, err := scheme.Variant().ComputeChallenge(sig.R, P, minaMsg(text))
	if err != nil {
		r.prop("mina-challenge-failed", caseText, what, err.Error())
		return
	}
	e := bigOf(eS)
	k := subMod(s, mulMod(e, x, n), n)
	Rr := c.baseMul(k)
	rx, ry := pallasXY(sig.R)
	okR := !Rr.inf && Rr.x.Cmp(rx) == 0 && Rr.y.Cmp(ry) == 0
	if !okR {
		r.prop("mina-sign-invalid", caseText, what, fmt.Sprintf("signature (R.x=%s, s=%s) does not satisfy s*G = R + e*P on the reference Pallas curve", vh.ZHex(rx), vh.ZHex(s)))
	} else if isOdd(Rr.y) {
		r.prop("mina-nonce-parity", caseText, what, "R has odd y")
	}
	yoL := []string{fmt.Sprintf("%s:%d", vh.ZHex(k), parity(isOdd(Rr.y)))}
	chal := func(rk, pkd *big.Int, t, mid string) string {
		return fmt.Sprintf("%s:%s:%s:%s", vh.ZHex(xoKey(rk, n)), vh.ZHex(new(big.Int).Mod(pkd, n)), mid, vh.ZHex(chalOf(rk, pkd, t)))
	}
	obs := "none"
	if okR {
		obs = vh.ZHex(k) + "," + vh.ZHex(s)
	}
	r.expect("GS", []string{vh.ZHex(n), "0", "1", "0", "1", vh.ZHex(x), vh.ZHex(k), "m", chal(k, x, text, "m"), tbl(yoL)},
		obs, class, caseText, "mina-sign", what, "Sign(msg) as (log R, s)", !okR)

	one := big.NewInt(1)
	x2 := addMod(x, one, n)
	if x2.Sign() == 0 {
		x2 = big.NewInt(2)
	}
	type mq struct {
		name      string
		rk, s, pk *big.Int
		text, mid string
		expect    string
	}
	qs := []mq{
		{"honest", k, s, x, text, "m", "acc"},
		{"message-changed", k, s, x, text2, "x", "rej"},
		{"s+1", k, addMod(s, one, n), x, text, "m", "rej"},
		{"R+G", addMod(k, one, n), s, x, text, "m", "rej"},
		{"R-negated", subMod(big.NewInt(0), k, n), s, x, text, "m", "rej"},
		{"public-key-changed", k, s, x2, text, "m", "rej"},
		{"public-key-negated", k, s, subMod(big.NewInt(0), x, n), text, "m", "rej"},
		{"R-identity", big.NewInt(0), s, x, text, "m", "rej"},
		{"s-zero", k, big.NewInt(0), x, text, "m", "rej"},
	}
	vf, err := scheme.Verifier()
	if err != nil {
		return
	}
	for _, q := range qs {
		obs := "rej"
		p := vh.Safely(func() {
			sg := &mina.Signature{R: pallasPoint(q.rk), S: pallasScalar(q.s)}
			pkq := &mina.PublicKey{PublicKeyTrait: signatures.PublicKeyTrait[*pasta.PallasPoint, *pasta.PallasScalar]{V: pallasPoint(q.pk)}}
			if vf.Verify(sg, pkq, minaMsg(q.text)) == nil {
				obs = "acc"
			}
		})
		if p != "" {
			obs = "panic"
		}
		pf := obs != q.expect
		if pf {
			r.prop("mina-"+q.name, caseText, what, fmt.Sprintf("%s: verifier says %s, property requires %s; key x=%s msg=%q log R=%s s=%s", q.name, obs, q.expect, vh.ZHex(q.pk), q.text, vh.ZHex(q.rk), vh.ZHex(q.s)))
		}
		r.res.Count(class+"/verify", canon+"/"+q.name, true)
		ch := "-"
		if q.rk.Sign() != 0 {
			ch = chal(q.rk, q.pk, q.text, q.mid)
		}
		r.expect("GV", []string{vh.ZHex(n), "0", "1", "0", "1", vh.ZHex(q.rk), vh.ZHex(q.s), vh.ZHex(q.pk), q.mid, ch},
			obs, class, caseText, "mina-verify", what, q.name, pf)
	}
	// serialised form: 64 bytes, decode gives the even-y R; round trip verifies
	if ser, err := mina.SerializeSignature(sig); err == nil && okR {
		minaWire(r, class, caseText, what, vf, sk.PublicKey(), text, ser, x, k, s, chal(k, x, text, "m"))
	}
}

func runSchnorr(r *run, mult int) {
	per := 3 * mult
	if !r.quick {
		per = 10 * mult
	}
	kg, pg, lg, eg := k256Gen(), p256Gen(), pallasGen(), edGen()
	for i := 0; i < per; i++ {
		genericCase(r, kg, hashes[0], false, false, false, i)
		genericCase(r, kg, hashes[1], true, true, true, i)
		genericCase(r, pg, hashes[2], false, true, false, i)
		genericCase(r, pg, hashes[0], true, false, true, i)
		genericCase(r, lg, hashes[1], false, false, true, i)
		genericCase(r, eg, hashes[1], false, true, false, i)
		genericCase(r, eg, hashes[0], true, false, false, i)
	}
	r.flush()
	nb := 12 * mult
	if !r.quick {
		nb = 60 * mult
	}
	for i := 0; i < nb; i++ {
		bipCase(r, i)
	}
	r.flush()
	nm := 5 * mult
	if !r.quick {
		nm = 20 * mult
	}
	for i := 0; i < nm; i++ {
		minaCase(r, false, i)
		if i < nm/2+1 {
			minaCase(r, true, i)
		}
	}
	r.flush()
}

func replaySchnorr(r *run, f []string) {
	switch f[0] {
	case "bip340":
		bipCase(r, atoi(f[1]))
	case "mina":
		minaCase(r, f[1] == "rand", atoi(f[2]))
	case "schnorr":
		if len(f) < 7 {
			return
		}
		h := hashByName(f[2])
		neg, le, nn, idx := f[3] == "1", f[4] == "1", f[5] == "1", atoi(f[6])
		switch f[1] {
		case "k256":
			genericCase(r, k256Gen(), h, neg, le, nn, idx)
		case "p256":
			genericCase(r, p256Gen(), h, neg, le, nn, idx)
		case "pallas":
			genericCase(r, pallasGen(), h, neg, le, nn, idx)
		default:
			genericCase(r, edGen(), h, neg, le, nn, idx)
		}
	}
}
