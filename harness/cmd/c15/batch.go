package main

// Batch-verification family: bip340.Verifier.BatchVerify (random linear combination, coefficients from the
// verifier's prng, which the harness records so that the model evaluates the same equation) and
// VerifierTrait.BatchVerify (generic Schnorr, Mina: one entry after the other).  Expectation: the batch is
// accepted iff every entry verifies on its own (the altered batches below have a deterministic structure:
// with non-zero coefficients none of them can pass by coincidence except with negligible probability).

import (
	"bytes"
	"fmt"
	"io"
	"math/big"
	"strings"

	"github.com/bronlabs/bron-crypto/pkg/base/algebra"
	"github.com/bronlabs/bron-crypto/pkg/base/curves/k256"
	"github.com/bronlabs/bron-crypto/pkg/base/curves/pasta"
	"github.com/bronlabs/bron-crypto/pkg/signatures"
	"github.com/bronlabs/bron-crypto/pkg/signatures/schnorrlike"
	"github.com/bronlabs/bron-crypto/pkg/signatures/schnorrlike/bip340"
	"github.com/bronlabs/bron-crypto/pkg/signatures/schnorrlike/mina"
	vanilla "github.com/bronlabs/bron-crypto/pkg/signatures/schnorrlike/schnorr"

	"verif/harness/internal/vh"
)

// recReader records every Read it serves.
type recReader struct {
	src   io.Reader
	reads [][]byte
}

func (r *recReader) Read(p []byte) (int, error) {
	n, err := r.src.Read(p)
	r.reads = append(r.reads, append([]byte{}, p[:n]...))
	return n, err
}

// coefficient sampled by SetRandom: (bits+128+7)/8 bytes little-endian reduced mod n
func coefOf(b []byte, n *big.Int) *big.Int {
	le := append([]byte{}, b...)
	for i, j := 0, len(le)-1; i < j; i, j = i+1, j-1 {
		le[i], le[j] = le[j], le[i]
	}
	x := new(big.Int).SetBytes(le)
	return x.Mod(x, n)
}

type bEntry struct {
	rk, s, pkd *big.Int
	msg        []byte
}

type bAlt struct {
	name    string
	es      []bEntry
	sigsLen int // -1: as many as entries; otherwise truncate the signature list (length mismatch)
}

func cloneEntries(es []bEntry) []bEntry { return append([]bEntry{}, es...) }

// alterations of an honest batch
func batchAlterations(rng *vh.Rng, es []bEntry, n *big.Int) []bAlt {
	k := len(es)
	neg := func(x *big.Int) *big.Int { return subMod(big.NewInt(0), x, n) }
	alts := []bAlt{{"honest", cloneEntries(es), -1}}
	j := rng.Intn(k)
	one := big.NewInt(1)
	mod := func(name string, f func(e *bEntry)) {
		c := cloneEntries(es)
		f(&c[j])
		alts = append(alts, bAlt{name, c, -1})
	}
	mod("one-s+1", func(e *bEntry) { e.s = addMod(e.s, one, n) })
	mod("one-s-negated", func(e *bEntry) { e.s = neg(e.s) })
	mod("one-R+G", func(e *bEntry) { e.rk = addMod(e.rk, one, n) })
	mod("one-message-bit-flipped", func(e *bEntry) {
		m := append([]byte{}, e.msg...)
		if len(m) == 0 {
			m = []byte{1}
		} else {
			m[rng.Intn(len(m))] ^= 1 << uint(rng.Intn(8))
		}
		e.msg = m
	})
	mod("one-key-changed", func(e *bEntry) {
		e.pkd = addMod(e.pkd, one, n)
		if e.pkd.Sign() == 0 {
			e.pkd = big.NewInt(2)
		}
	})
	all := func(name string, f func(e *bEntry)) {
		c := cloneEntries(es)
		for i := range c {
			f(&c[i])
		}
		alts = append(alts, bAlt{name, c, -1})
	}
	all("all-s-negated", func(e *bEntry) { e.s = neg(e.s) })
	all("all-R-negated", func(e *bEntry) { e.rk = neg(e.rk) })
	all("all-s-and-R-negated", func(e *bEntry) { e.s = neg(e.s); e.rk = neg(e.rk) })
	if k >= 2 {
		a, b := 0, k-1
		c := cloneEntries(es)
		c[a].msg, c[b].msg = c[b].msg, c[a].msg
		alts = append(alts, bAlt{"two-messages-swapped", c, -1})
		c = cloneEntries(es)
		c[a].rk, c[b].rk = c[b].rk, c[a].rk
		c[a].s, c[b].s = c[b].s, c[a].s
		alts = append(alts, bAlt{"two-signatures-swapped", c, -1})
		c = cloneEntries(es)
		c[a].s, c[b].s = c[b].s, c[a].s
		alts = append(alts, bAlt{"two-responses-swapped", c, -1})
		c = cloneEntries(es)
		c[a], c[b] = c[b], c[a]
		alts = append(alts, bAlt{"two-entries-swapped", c, -1})
		// compensating errors: s_a + 1 and s_b - 1 (passes an unweighted sum)
		c = cloneEntries(es)
		c[a].s = addMod(c[a].s, one, n)
		c[b].s = subMod(c[b].s, one, n)
		alts = append(alts, bAlt{"compensating-responses", c, -1})
		alts = append(alts, bAlt{"fewer-signatures", cloneEntries(es), k - 1})
	}
	alts = append(alts, bAlt{"duplicated-entries", append(cloneEntries(es), es[j]), -1})
	alts = append(alts, bAlt{"empty-batch", nil, -1})
	return alts
}

// ---- BIP-340 ------------------------------------------------------------------------------------------------------
func bipBatchCase(r *run, k, idx int) {
	caseText := fmt.Sprintf("bip340batch:%d:%d", k, idx)
	class := "bip340/batch"
	what := "C15_bip340_batch_* (model/Schnorr.v bip_batch_verify) vs bip340.Verifier.BatchVerify"
	rng := vh.NewRng(r.a.Seed, "C15", "bip340batch", idx*64+k)
	c := secp256k1
	n := c.n
	var aux [32]byte
	copy(aux[:], rng.Bytes(32))
	scheme := bip340.NewSchemeWithAux(aux)
	var es []bEntry
	for i := 0; i < k; i++ {
		d0 := rng.BigBelow(new(big.Int).Sub(n, big.NewInt(1)))
		d0.Add(d0, big.NewInt(1))
		msg := rng.Bytes(1 + rng.Intn(40))
		sk, err := bip340.NewPrivateKey(k256Scalar(d0))
		if err != nil {
			return
		}
		sg, err := scheme.Signer(sk)
		if err != nil {
			return
		}
		sig, err := sg.Sign(msg)
		if err != nil {
			r.prop("bip340-sign-failed", caseText, what, err.Error())
			return
		}
		ser, _ := bip340.SerializeSignature(sig)
		if !bytes.Equal(ser, bip340Sign(d0, aux[:], msg)) {
			return // reported by the single-signature family
		}
		kk := bip340Nonce(d0, aux[:], msg)
		if isOdd(c.baseMul(kk).y) {
			kk.Sub(n, kk)
		}
		es = append(es, bEntry{rk: kk, s: bigOf(sig.S), pkd: d0, msg: msg})
	}
	canon := caseText
	for _, e := range es {
		canon += fmt.Sprintf(" d=%s m=%s", vh.ZHex(e.pkd), vh.Hex(e.msg))
	}
	single, _ := scheme.Verifier()
	for _, alt := range batchAlterations(rng, es, n) {
		var sigs []*bip340.Signature
		var pks []*bip340.PublicKey
		var msgs [][]byte
		allSingle := len(alt.es) > 0
		mids := map[string]string{}
		var ents, chs, yos []string
		seenYo := map[string]bool{}
		addYo := func(x *big.Int) {
			x = new(big.Int).Mod(x, n)
			if x.Sign() == 0 || seenYo[x.Text(16)] {
				return
			}
			seenYo[x.Text(16)] = true
			yos = append(yos, fmt.Sprintf("%s:%d", vh.ZHex(x), parity(isOdd(c.baseMul(x).y))))
		}
		for _, e := range alt.es {
			sg := &bip340.Signature{R: k256Point(e.rk), S: k256Scalar(e.s)}
			pk := &bip340.PublicKey{PublicKeyTrait: signatures.PublicKeyTrait[*k256.Point, *k256.Scalar]{V: k256Point(e.pkd)}}
			sigs, pks, msgs = append(sigs, sg), append(pks, pk), append(msgs, e.msg)
			ok := false
			vh.Safely(func() { ok = single.Verify(sg, pk, e.msg) == nil })
			allSingle = allSingle && ok
			mid, found := mids[string(e.msg)]
			if !found {
				mid = fmt.Sprintf("m%d", len(mids))
				mids[string(e.msg)] = mid
			}
			ents = append(ents, fmt.Sprintf("%s:%s:%s:%s", vh.ZHex(e.rk), vh.ZHex(e.s), vh.ZHex(e.pkd), mid))
			ch := bip340Challenge(c.baseMul(e.rk).x, c.baseMul(e.pkd).x, e.msg)
			chs = append(chs, fmt.Sprintf("%s:%s:%s:%s", vh.ZHex(xoKey(e.rk, n)), vh.ZHex(xoKey(e.pkd, n)), mid, vh.ZHex(ch)))
			addYo(e.rk)
			addYo(e.pkd)
		}
		if alt.sigsLen >= 0 {
			sigs = sigs[:alt.sigsLen]
			allSingle = false
		}
		rec := &recReader{src: vh.NewRng(r.a.Seed, "C15", "bip340batch/prng/"+alt.name, idx*64+k)}
		obs := "rej"
		p := vh.Safely(func() {
			vf, err := scheme.Verifier(bip340.VerifyWithPRNG(rec))
			if err != nil {
				return
			}
			if vf.BatchVerify(sigs, pks, msgs) == nil {
				obs = "acc"
			}
		})
		if p != "" {
			obs = "panic"
		}
		want := "rej"
		if allSingle {
			want = "acc"
		}
		r.res.Count(class, canon+"/"+alt.name, true)
		pf := obs != want
		key := "bip340-batch-" + alt.name
		if pf {
			key = "bip340-batch-accepts-" + alt.name
			if want == "acc" {
				key = "bip340-batch-rejects-" + alt.name
			}
			var ss []string
			for _, e := range alt.es {
				ss = append(ss, fmt.Sprintf("(x-only key of d=%s, msg %s, R=x(%s*G), s=%s)", vh.ZHex(e.pkd), vh.Hex(e.msg), vh.ZHex(e.rk), vh.ZHex(e.s)))
			}
			r.prop(key, caseText, what, fmt.Sprintf("%s: BatchVerify says %s, every signature verifies on its own = %v; batch of %d: %s", alt.name, obs, allSingle, len(alt.es), strings.Join(ss, "; ")))
		}
		if alt.sigsLen >= 0 {
			continue // a length mismatch is outside the model (the model zips the three lists)
		}
		coefs := []string{"1"}
		for _, rd := range rec.reads {
			coefs = append(coefs, vh.ZHex(coefOf(rd, n)))
		}
		if len(coefs) != len(alt.es) && len(alt.es) > 0 && obs != "panic" {
			// the verifier drew another number of coefficients than entries - 1 (e.g. it refused early): give the
			// model as many as it needs; the verdict of these cases does not depend on them
			for len(coefs) < len(alt.es) {
				coefs = append(coefs, "1")
			}
			coefs = coefs[:len(alt.es)]
		}
		if len(alt.es) == 0 {
			coefs = nil
		}
		r.expect("BB", []string{vh.ZHex(n), tbl(coefs), tbl(ents), tbl(chs), tbl(yos)}, obs, class, caseText, key, what, alt.name, pf)
	}
}

// ---- generic variant and Mina: VerifierTrait.BatchVerify --------------------------------------------------------------
func genericBatchCase[GE algebra.PrimeGroupElement[GE, S], S algebra.PrimeFieldElement[S]](r *run, env *genEnv[GE, S], h hcfg, neg bool, k, idx int) {
	caseText := fmt.Sprintf("schnorrbatch:%s:%s:%d:%d:%d", env.name, h.name, parity(neg), k, idx)
	class := "schnorr/batch/" + env.name
	what := "C15_schnorr_batch_iff (model/Schnorr.v gen_batch_verify) vs schnorrlike.VerifierTrait.BatchVerify"
	rng := vh.NewRng(r.a.Seed, "C15", "schnorrbatch/"+env.name, idx*64+k)
	n := env.n
	scheme, err := vanilla.NewScheme(env.group, h.newH, neg, false, nil, rng)
	if err != nil {
		return
	}
	var es []bEntry
	for i := 0; i < k; i++ {
		x := rng.BigBelow(new(big.Int).Sub(n, big.NewInt(1)))
		x.Add(x, big.NewInt(1))
		msg := rng.Bytes(1 + rng.Intn(40))
		P := env.pointOf(x)
		pk, err := vanilla.NewPublicKey(P)
		if err != nil {
			return
		}
		sk, err := vanilla.NewPrivateKey(env.toS(x), pk)
		if err != nil {
			return
		}
		sg, err := scheme.Signer(sk)
		if err != nil {
			return
		}
		sig, err := sg.Sign(msg)
		if err != nil {
			return
		}
		s := bigOf(sig.S)
		e := genChallenge(h, false, n, sig.R.Bytes(), P.Bytes(), msg)
		kk := subMod(s, mulMod(e, x, n), n)
		if neg {
			kk = addMod(s, mulMod(e, x, n), n)
		}
		if !env.pointOf(kk).Equal(sig.R) {
			return // reported by the single-signature family
		}
		es = append(es, bEntry{rk: kk, s: s, pkd: x, msg: msg})
	}
	vf, err := scheme.Verifier()
	if err != nil {
		return
	}
	for _, alt := range batchAlterations(rng, es, n) {
		var sigs []*schnorrlike.Signature[GE, S]
		var pks []*schnorrlike.PublicKey[GE, S]
		var msgs [][]byte
		allSingle := true
		mids := map[string]string{}
		var ents, chs []string
		for _, e := range alt.es {
			sg := &schnorrlike.Signature[GE, S]{R: env.pointOf(e.rk), S: env.toS(e.s)}
			pk := &schnorrlike.PublicKey[GE, S]{PublicKeyTrait: signatures.PublicKeyTrait[GE, S]{V: env.pointOf(e.pkd)}}
			sigs, pks, msgs = append(sigs, sg), append(pks, pk), append(msgs, e.msg)
			ok := false
			vh.Safely(func() { ok = vf.Verify(sg, pk, e.msg) == nil })
			allSingle = allSingle && ok
			mid, found := mids[string(e.msg)]
			if !found {
				mid = fmt.Sprintf("m%d", len(mids))
				mids[string(e.msg)] = mid
			}
			ents = append(ents, fmt.Sprintf("%s:%s:%s:%s", vh.ZHex(e.rk), vh.ZHex(e.s), vh.ZHex(e.pkd), mid))
			if e.rk.Sign() != 0 && e.pkd.Sign() != 0 {
				ch := genChallenge(h, false, n, env.pointOf(e.rk).Bytes(), env.pointOf(e.pkd).Bytes(), e.msg)
				chs = append(chs, fmt.Sprintf("%s:%s:%s:%s", vh.ZHex(new(big.Int).Mod(e.rk, n)), vh.ZHex(new(big.Int).Mod(e.pkd, n)), mid, vh.ZHex(ch)))
			}
		}
		if alt.sigsLen >= 0 {
			sigs = sigs[:alt.sigsLen]
			allSingle = false
		}
		obs := "rej"
		if p := vh.Safely(func() {
			if vf.BatchVerify(sigs, pks, msgs) == nil {
				obs = "acc"
			}
		}); p != "" {
			obs = "panic"
		}
		want := "rej"
		if allSingle {
			want = "acc" // also for the empty batch: nothing to verify
		}
		r.res.Count(class, caseText+"/"+alt.name, true)
		pf := obs != want
		if pf {
			r.prop("schnorr-batch-"+alt.name+"-"+env.name, caseText, what, fmt.Sprintf("%s: BatchVerify says %s, every entry verifies on its own = %v (batch of %d)", alt.name, obs, allSingle, len(alt.es)))
		}
		if alt.sigsLen >= 0 {
			continue
		}
		r.expect("GB", []string{vh.ZHex(n), fmt.Sprint(parity(neg)), "0", "0", tbl(ents), tbl(chs)}, obs, class, caseText, "schnorr-batch-"+alt.name, what, alt.name, pf)
	}
}

func minaBatchCase(r *run, k, idx int) {
	caseText := fmt.Sprintf("minabatch:%d:%d", k, idx)
	class := "mina/batch"
	what := "C15_schnorr_batch_iff (Mina) vs schnorrlike.VerifierTrait.BatchVerify"
	rng := vh.NewRng(r.a.Seed, "C15", "minabatch", idx*64+k)
	n := pallasRef.n
	scheme, err := mina.NewRandomisedScheme(mina.TestNet, rng)
	if err != nil {
		return
	}
	var es []bEntry
	for i := 0; i < k; i++ {
		x := rng.BigBelow(new(big.Int).Sub(n, big.NewInt(1)))
		x.Add(x, big.NewInt(1))
		text := fmt.Sprintf("batch message %d %x", i, rng.Bytes(4))
		sk, err := mina.NewPrivateKey(pallasScalar(x))
		if err != nil {
			return
		}
		sg, err := scheme.Signer(sk)
		if err != nil {
			return
		}
		sig, err := sg.Sign(minaMsg(text))
		if err != nil {
			return
		}
		e, err := scheme.Variant().ComputeChallenge(sig.R, pallasPoint(x), minaMsg(text))
		if err != nil {
			return
		}
		s := bigOf(sig.S)
		kk := subMod(s, mulMod(bigOf(e), x, n), n)
		if !pallasPoint(kk).Equal(sig.R) {
			return
		}
		es = append(es, bEntry{rk: kk, s: s, pkd: x, msg: []byte(text)})
	}
	vf, err := scheme.Verifier()
	if err != nil {
		return
	}
	for _, alt := range batchAlterations(rng, es, n) {
		var sigs []*mina.Signature
		var pks []*mina.PublicKey
		var msgs []*mina.ROInput
		allSingle := true
		mids := map[string]string{}
		var ents, chs []string
		for _, e := range alt.es {
			sg := &mina.Signature{R: pallasPoint(e.rk), S: pallasScalar(e.s)}
			pk := &mina.PublicKey{PublicKeyTrait: signatures.PublicKeyTrait[*pasta.PallasPoint, *pasta.PallasScalar]{V: pallasPoint(e.pkd)}}
			sigs, pks, msgs = append(sigs, sg), append(pks, pk), append(msgs, minaMsg(string(e.msg)))
			ok := false
			vh.Safely(func() { ok = vf.Verify(sg, pk, minaMsg(string(e.msg))) == nil })
			allSingle = allSingle && ok
			mid, found := mids[string(e.msg)]
			if !found {
				mid = fmt.Sprintf("m%d", len(mids))
				mids[string(e.msg)] = mid
			}
			ents = append(ents, fmt.Sprintf("%s:%s:%s:%s", vh.ZHex(e.rk), vh.ZHex(e.s), vh.ZHex(e.pkd), mid))
			if e.rk.Sign() != 0 && e.pkd.Sign() != 0 {
				if ce, err := scheme.Variant().ComputeChallenge(pallasPoint(e.rk), pallasPoint(e.pkd), minaMsg(string(e.msg))); err == nil {
					chs = append(chs, fmt.Sprintf("%s:%s:%s:%s", vh.ZHex(xoKey(e.rk, n)), vh.ZHex(new(big.Int).Mod(e.pkd, n)), mid, vh.ZHex(bigOf(ce))))
				}
			}
		}
		if alt.sigsLen >= 0 {
			sigs = sigs[:alt.sigsLen]
			allSingle = false
		}
		obs := "rej"
		if p := vh.Safely(func() {
			if vf.BatchVerify(sigs, pks, msgs) == nil {
				obs = "acc"
			}
		}); p != "" {
			obs = "panic"
		}
		want := "rej"
		if allSingle {
			want = "acc"
		}
		r.res.Count(class, caseText+"/"+alt.name, true)
		pf := obs != want
		if pf {
			r.prop("mina-batch-"+alt.name, caseText, what, fmt.Sprintf("%s: BatchVerify says %s, every entry verifies on its own = %v (batch of %d)", alt.name, obs, allSingle, len(alt.es)))
		}
		if alt.sigsLen >= 0 {
			continue
		}
		r.expect("GB", []string{vh.ZHex(n), "0", "1", "0", tbl(ents), tbl(chs)}, obs, class, caseText, "mina-batch-"+alt.name, what, alt.name, pf)
	}
}

func runBatch(r *run, mult int) {
	sizes := []int{1, 2, 3, 5}
	reps := 1
	if !r.quick {
		sizes = []int{1, 2, 3, 4, 5, 8, 13, 21}
		reps = 3
	}
	kg, pg := k256Gen(), p256Gen()
	for rep := 0; rep < reps*mult; rep++ {
		for _, k := range sizes {
			bipBatchCase(r, k, rep)
			if k <= 5 {
				genericBatchCase(r, kg, hashes[0], false, k, rep)
				genericBatchCase(r, pg, hashes[1], true, k, rep)
				minaBatchCase(r, k, rep)
			}
		}
		r.flush()
	}
}

func replayBatch(r *run, f []string) {
	switch f[0] {
	case "bip340batch":
		if len(f) >= 3 {
			bipBatchCase(r, atoi(f[1]), atoi(f[2]))
		}
	case "minabatch":
		if len(f) >= 3 {
			minaBatchCase(r, atoi(f[1]), atoi(f[2]))
		}
	case "schnorrbatch":
		if len(f) >= 6 {
			if f[1] == "p256" {
				genericBatchCase(r, p256Gen(), hashByName(f[2]), f[3] == "1", atoi(f[4]), atoi(f[5]))
			} else {
				genericBatchCase(r, k256Gen(), hashByName(f[2]), f[3] == "1", atoi(f[4]), atoi(f[5]))
			}
		}
	}
}
