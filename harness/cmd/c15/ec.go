package main

// Independent reference arithmetic for property C15, written from the curve equations and the
// published algorithm descriptions (SEC 1, RFC 6979, BIP-340) with math/big and the Go standard
// library hashes only.  Nothing here calls into /repo.

import (
	"crypto/hmac"
	"crypto/sha256"
	"hash"
	"math/big"
)

// wcurve is a short Weierstrass curve y^2 = x^3 + a x + b over F_p with base point G of prime order n.
type wcurve struct {
	name            string
	p, a, b, gx, gy *big.Int
	n               *big.Int
}

type pt struct {
	x, y *big.Int
	inf  bool
}

func hexInt(s string) *big.Int {
	x, ok := new(big.Int).SetString(s, 16)
	if !ok {
		panic("bad constant " + s)
	}
	return x
}

var secp256k1 = &wcurve{
	name: "k256",
	p:    hexInt("fffffffffffffffffffffffffffffffffffffffffffffffffffffffefffffc2f"),
	a:    big.NewInt(0),
	b:    big.NewInt(7),
	gx:   hexInt("79be667ef9dcbbac55a06295ce870b07029bfcdb2dce28d959f2815b16f81798"),
	gy:   hexInt("483ada7726a3c4655da4fbfc0e1108a8fd17b448a68554199c47d08ffb10d4b8"),
	n:    hexInt("fffffffffffffffffffffffffffffffebaaedce6af48a03bbfd25e8cd0364141"),
}

// NIST P-256 (FIPS 186-4 D.1.2.3)
var nistP256 = &wcurve{
	name: "p256",
	p:    hexInt("ffffffff00000001000000000000000000000000ffffffffffffffffffffffff"),
	a:    hexInt("ffffffff00000001000000000000000000000000fffffffffffffffffffffffc"),
	b:    hexInt("5ac635d8aa3a93e7b3ebbd55769886bc651d06b0cc53b0f63bce3c3e27d2604b"),
	gx:   hexInt("6b17d1f2e12c4247f8bce6e563a440f277037d812deb33a0f4a13945d898c296"),
	gy:   hexInt("4fe342e2fe1a7f9b8ee7eb4a7c0f9e162bce33576b315ececbb6406837bf51f5"),
	n:    hexInt("ffffffff00000000ffffffffffffffffbce6faada7179e84f3b9cac2fc632551"),
}

// Pallas (y^2 = x^3 + 5), base point as used by Mina: (1, sqrt(6)) with the published y.
var pallasRef = &wcurve{
	name: "pallas",
	p:    hexInt("40000000000000000000000000000000224698fc094cf91b992d30ed00000001"),
	a:    big.NewInt(0),
	b:    big.NewInt(5),
	gx:   big.NewInt(1),
	gy:   hexInt("1b74b5a30a12937c53dfa9f06378ee548f655bd4333d477119cf7a23caed2abb"),
	n:    hexInt("40000000000000000000000000000000224698fc0994a8dd8c46eb2100000001"),
}

func (c *wcurve) G() pt { return pt{x: new(big.Int).Set(c.gx), y: new(big.Int).Set(c.gy)} }

func (c *wcurve) onCurve(P pt) bool {
	if P.inf {
		return true
	}
	l := new(big.Int).Mul(P.y, P.y)
	l.Mod(l, c.p)
	return l.Cmp(c.rhs(P.x)) == 0
}

func (c *wcurve) rhs(x *big.Int) *big.Int {
	r := new(big.Int).Mul(x, x)
	r.Add(r, c.a)
	r.Mul(r, x)
	r.Add(r, c.b)
	return r.Mod(r, c.p)
}

func (c *wcurve) neg(P pt) pt {
	if P.inf {
		return P
	}
	y := new(big.Int).Sub(c.p, P.y)
	y.Mod(y, c.p)
	return pt{x: P.x, y: y}
}

func (c *wcurve) add(P, Q pt) pt {
	if P.inf {
		return Q
	}
	if Q.inf {
		return P
	}
	var lam *big.Int
	if P.x.Cmp(Q.x) == 0 {
		s := new(big.Int).Add(P.y, Q.y)
		s.Mod(s, c.p)
		if s.Sign() == 0 {
			return pt{inf: true}
		}
		// tangent: (3x^2 + a) / 2y
		num := new(big.Int).Mul(P.x, P.x)
		num.Mul(num, big.NewInt(3))
		num.Add(num, c.a)
		den := new(big.Int).Lsh(P.y, 1)
		den.ModInverse(den.Mod(den, c.p), c.p)
		lam = num.Mul(num, den)
	} else {
		num := new(big.Int).Sub(Q.y, P.y)
		den := new(big.Int).Sub(Q.x, P.x)
		den.ModInverse(den.Mod(den, c.p), c.p)
		lam = num.Mul(num, den)
	}
	lam.Mod(lam, c.p)
	x := new(big.Int).Mul(lam, lam)
	x.Sub(x, P.x)
	x.Sub(x, Q.x)
	x.Mod(x, c.p)
	y := new(big.Int).Sub(P.x, x)
	y.Mul(y, lam)
	y.Sub(y, P.y)
	y.Mod(y, c.p)
	return pt{x: x, y: y}
}

func (c *wcurve) mul(k *big.Int, P pt) pt {
	k = new(big.Int).Mod(k, c.n)
	R := pt{inf: true}
	for i := k.BitLen() - 1; i >= 0; i-- {
		R = c.add(R, R)
		if k.Bit(i) == 1 {
			R = c.add(R, P)
		}
	}
	return R
}

func (c *wcurve) baseMul(k *big.Int) pt { return c.mul(k, c.G()) }

// liftX returns the point with the given x and y-parity, ok=false when x^3+ax+b is not a square
// (or x is not reduced).
func (c *wcurve) liftX(x *big.Int, odd bool) (pt, bool) {
	if x.Sign() < 0 || x.Cmp(c.p) >= 0 {
		return pt{}, false
	}
	y := new(big.Int).ModSqrt(c.rhs(x), c.p)
	if y == nil {
		return pt{}, false
	}
	if (y.Bit(0) == 1) != odd {
		y.Sub(c.p, y)
		y.Mod(y, c.p)
	}
	return pt{x: new(big.Int).Set(x), y: y}, true
}

func (c *wcurve) eq(P, Q pt) bool {
	if P.inf || Q.inf {
		return P.inf == Q.inf
	}
	return P.x.Cmp(Q.x) == 0 && P.y.Cmp(Q.y) == 0
}

func invMod(a, n *big.Int) *big.Int {
	return new(big.Int).ModInverse(new(big.Int).Mod(a, n), n)
}

func mulMod(a, b, n *big.Int) *big.Int {
	r := new(big.Int).Mul(a, b)
	return r.Mod(r, n)
}

func addMod(a, b, n *big.Int) *big.Int {
	r := new(big.Int).Add(a, b)
	return r.Mod(r, n)
}

func subMod(a, b, n *big.Int) *big.Int {
	r := new(big.Int).Sub(a, b)
	return r.Mod(r, n)
}

// bits2int of SEC 1 / FIPS 186: leftmost min(len, bitlen n) bits of the digest as an integer (not reduced).
func bits2int(digest []byte, n *big.Int) *big.Int {
	qlen := n.BitLen()
	x := new(big.Int).SetBytes(digest)
	if l := len(digest) * 8; l > qlen {
		x.Rsh(x, uint(l-qlen))
	}
	return x
}

// refEcdsaVerify is textbook ECDSA verification (SEC 1 v2 4.1.4) over the reference curve.
func refEcdsaVerify(c *wcurve, Q pt, e, r, s *big.Int) bool {
	if r.Sign() <= 0 || s.Sign() <= 0 || r.Cmp(c.n) >= 0 || s.Cmp(c.n) >= 0 {
		return false
	}
	if Q.inf || !c.onCurve(Q) {
		return false
	}
	w := invMod(s, c.n)
	u1 := mulMod(e, w, c.n)
	u2 := mulMod(r, w, c.n)
	R := c.add(c.baseMul(u1), c.mul(u2, Q))
	if R.inf {
		return false
	}
	return new(big.Int).Mod(R.x, c.n).Cmp(r) == 0
}

// refEcdsaRecover is SEC 1 v2 4.1.6 for recovery id v (bit 0: y parity of R, bit 1: x overflow).
func refEcdsaRecover(c *wcurve, e, r, s *big.Int, v int) (pt, bool) {
	x := new(big.Int).Set(r)
	if v&2 != 0 {
		x.Add(x, c.n)
	}
	R, ok := c.liftX(x, v&1 == 1)
	if !ok || r.Sign() == 0 {
		return pt{}, false
	}
	rinv := invMod(r, c.n)
	sR := c.mul(s, R)
	eG := c.baseMul(new(big.Int).Mod(e, c.n))
	Q := c.mul(rinv, c.add(sR, c.neg(eG)))
	return Q, !Q.inf
}

// rfc6979 nonce (section 3.2) for private key x, digest h1 computed with hash function newH.
func rfc6979(newH func() hash.Hash, q, x *big.Int, h1 []byte) *big.Int {
	qlen := q.BitLen()
	rolen := (qlen + 7) / 8
	int2octets := func(v *big.Int) []byte { return v.FillBytes(make([]byte, rolen)) }
	bits2octets := func(b []byte) []byte {
		z1 := bits2int(b, q)
		z2 := new(big.Int).Sub(z1, q)
		if z2.Sign() < 0 {
			z2 = z1
		}
		return int2octets(z2)
	}
	hlen := newH().Size()
	V := make([]byte, hlen)
	K := make([]byte, hlen)
	for i := range V {
		V[i] = 1
	}
	mac := func(key []byte, parts ...[]byte) []byte {
		m := hmac.New(newH, key)
		for _, p := range parts {
			m.Write(p)
		}
		return m.Sum(nil)
	}
	K = mac(K, V, []byte{0}, int2octets(x), bits2octets(h1))
	V = mac(K, V)
	K = mac(K, V, []byte{1}, int2octets(x), bits2octets(h1))
	V = mac(K, V)
	for {
		var T []byte
		for len(T) < rolen {
			V = mac(K, V)
			T = append(T, V...)
		}
		k := bits2int(T[:rolen], q)
		if k.Sign() > 0 && k.Cmp(q) < 0 {
			return k
		}
		K = mac(K, V, []byte{0})
		V = mac(K, V)
	}
}

// ---- BIP-340 reference (https://github.com/bitcoin/bips/blob/master/bip-0340.mediawiki) -----

func taggedHash(tag string, parts ...[]byte) []byte {
	t := sha256.Sum256([]byte(tag))
	h := sha256.New()
	h.Write(t[:])
	h.Write(t[:])
	for _, p := range parts {
		h.Write(p)
	}
	return h.Sum(nil)
}

func b32(x *big.Int) []byte { return x.FillBytes(make([]byte, 32)) }

func isOdd(x *big.Int) bool { return x.Bit(0) == 1 }

// bip340Nonce returns k' (before the even-y correction) for secret key d0, aux and message.
func bip340Nonce(d0 *big.Int, aux, msg []byte) (kprime *big.Int) {
	c := secp256k1
	P := c.baseMul(d0)
	d := new(big.Int).Set(d0)
	if isOdd(P.y) {
		d.Sub(c.n, d)
	}
	t := b32(d)
	ah := taggedHash("BIP0340/aux", aux)
	for i := range t {
		t[i] ^= ah[i]
	}
	rnd := taggedHash("BIP0340/nonce", t, b32(P.x), msg)
	k := new(big.Int).SetBytes(rnd)
	return k.Mod(k, c.n)
}

func bip340Challenge(rx, px *big.Int, msg []byte) *big.Int {
	e := new(big.Int).SetBytes(taggedHash("BIP0340/challenge", b32(rx), b32(px), msg))
	return e.Mod(e, secp256k1.n)
}

// bip340Sign returns the 64-byte signature, nil when the algorithm fails.
func bip340Sign(d0 *big.Int, aux, msg []byte) []byte {
	c := secp256k1
	if d0.Sign() <= 0 || d0.Cmp(c.n) >= 0 {
		return nil
	}
	P := c.baseMul(d0)
	d := new(big.Int).Set(d0)
	if isOdd(P.y) {
		d.Sub(c.n, d)
	}
	k := bip340Nonce(d0, aux, msg)
	if k.Sign() == 0 {
		return nil
	}
	R := c.baseMul(k)
	if isOdd(R.y) {
		k.Sub(c.n, k)
	}
	e := bip340Challenge(R.x, P.x, msg)
	s := addMod(k, mulMod(e, d, c.n), c.n)
	return append(b32(R.x), b32(s)...)
}

// bip340Verify: pk is the 32-byte x-only key, sig 64 bytes.
func bip340Verify(pk, msg, sig []byte) bool {
	c := secp256k1
	if len(pk) != 32 || len(sig) != 64 {
		return false
	}
	P, ok := c.liftX(new(big.Int).SetBytes(pk), false)
	if !ok {
		return false
	}
	r := new(big.Int).SetBytes(sig[:32])
	s := new(big.Int).SetBytes(sig[32:])
	if r.Cmp(c.p) >= 0 || s.Cmp(c.n) >= 0 {
		return false
	}
	e := bip340Challenge(r, P.x, msg)
	R := c.add(c.baseMul(s), c.neg(c.mul(e, P)))
	if R.inf || isOdd(R.y) || R.x.Cmp(r) != 0 {
		return false
	}
	return true
}
