package main

// Wire-level non-canonical family: for every serialised signature / key form with a decoder, each scalar or
// field component c (modulus M) is replaced by the encodings of c + k*M that still fit the field width and by
// the boundary strings M, M+1, 2^(8w)-1; point encodings get wrong prefix / flag bits.  Expectation: the decoder
// refuses, or verification of the re-decoded object fails.  "A changed signature string verifies" is a failure
// of the property itself (the only documented exception is ECDSA's (r, n-s, v^1) at the struct level).

import (
	"bytes"
	"fmt"
	"math/big"
	"strings"

	"github.com/bronlabs/bron-crypto/pkg/base/algebra"
	"github.com/bronlabs/bron-crypto/pkg/base/base58"
	"github.com/bronlabs/bron-crypto/pkg/base/curves"
	"github.com/bronlabs/bron-crypto/pkg/base/serde"
	"github.com/bronlabs/bron-crypto/pkg/base/utils"
	"github.com/bronlabs/bron-crypto/pkg/signatures/bls"
	"github.com/bronlabs/bron-crypto/pkg/signatures/ecdsa"
	"github.com/bronlabs/bron-crypto/pkg/signatures/schnorrlike"
	"github.com/bronlabs/bron-crypto/pkg/signatures/schnorrlike/mina"

	"verif/harness/internal/vh"
)

type wireVal struct {
	v    *big.Int
	what string
}

// nonCanonical returns the substitutes for component c with modulus M in a field of width bytes.
func nonCanonical(c, M *big.Int, width int) []wireVal {
	lim := new(big.Int).Lsh(big.NewInt(1), uint(8*width))
	var out []wireVal
	var last *big.Int
	for k := 1; ; k++ {
		v := new(big.Int).Add(c, new(big.Int).Mul(big.NewInt(int64(k)), M))
		if v.Cmp(lim) >= 0 {
			break
		}
		if k <= 3 {
			out = append(out, wireVal{v, fmt.Sprintf("c+%d*M", k)})
		} else {
			last = v
		}
		if k > 300 {
			break
		}
	}
	if last != nil {
		out = append(out, wireVal{last, "c+kmax*M"})
	}
	for i, b := range []*big.Int{M, new(big.Int).Add(M, big.NewInt(1)), new(big.Int).Sub(lim, big.NewInt(1))} {
		if b.Cmp(lim) < 0 && b.Cmp(c) != 0 {
			out = append(out, wireVal{b, []string{"M", "M+1", "all-ones"}[i]})
		}
	}
	return out
}

func beBytes(v *big.Int, w int) []byte { return v.FillBytes(make([]byte, w)) }
func leBytes(v *big.Int, w int) []byte {
	b := beBytes(v, w)
	for i, j := 0, len(b)-1; i < j; i, j = i+1, j-1 {
		b[i], b[j] = b[j], b[i]
	}
	return b
}

// wireReport registers one substituted string: obs is "rej" (decoder refused or verification failed), "acc" or "panic".
func (r *run) wireReport(scheme, comp, class, caseText, what, detail, obs string) bool {
	r.res.Count(class+"/wire", caseText+"/"+comp+"/"+detail, true)
	if obs != "rej" {
		r.prop(scheme+"-noncanonical-"+comp+"-accepted", caseText, what,
			"a changed signature string verifies: component "+comp+" replaced by "+detail+": "+obs)
		return true
	}
	return false
}

// wireReportReducing is for the decoders that reduce unreduced coordinates / scalars (allowed: property C13 does
// not claim uniqueness of the accepted encoding).  obs is "rej", "acc", "panic", or "same:<verdict>" when the string
// decoded to struct-level values identical to the canonical string's: that is the same signature and must get the
// canonical string's verdict (acc).  Only a different decoded value that verifies, a panic, or a differing verdict is reported.
func (r *run) wireReportReducing(scheme, comp, class, caseText, what, detail, obs string) bool {
	if strings.HasPrefix(obs, "same:") {
		r.res.Count(class+"/noncanonical-same-value", caseText+"/"+comp+"/"+detail, true)
		r.reduced[scheme+" "+comp]++
		if obs != "same:acc" {
			r.prop(scheme+"-noncanonical-"+comp+"-verdict-differs", caseText, what,
				"a string that decodes to the same values as the canonical string gets another verdict: component "+comp+" replaced by "+detail+": "+obs)
			return true
		}
		return false
	}
	return r.wireReport(scheme, comp, class, caseText, what, detail, obs)
}

// ---- Mina: raw 64 bytes and Base58Check ------------------------------------------------------------------------
func minaWire(r *run, class, caseText, what string, vf *mina.Verifier, pk *mina.PublicKey, text string,
	ser []byte, xpk, k, s *big.Int, chalEntry string) {
	c := pallasRef
	rx := c.baseMul(k).x
	try := func(data []byte, b58 bool) string {
		out := "rej"
		p := vh.Safely(func() {
			var sg *mina.Signature
			var err error
			if b58 {
				sg, err = mina.DecodeSignature(base58.CheckEncode(data, mina.SignatureBase58VersionPrefix))
			} else {
				sg, err = mina.DeserializeSignature(data)
			}
			if err != nil {
				return
			}
			if vf.Verify(sg, pk, minaMsg(text)) == nil {
				out = "acc"
			}
		})
		if p != "" {
			return "panic"
		}
		return out
	}
	le := fmt.Sprintf("%s:%s", vh.ZHex(rx), vh.ZHex(k))
	model := func(rxv, sv *big.Int, obs, detail string, pf bool) {
		key := "mina-wire"
		if rxv.Cmp(rx) != 0 {
			key = "mina-noncanonical-rx-accepted"
		} else if sv.Cmp(s) != 0 {
			key = "mina-noncanonical-s-accepted"
		}
		r.expect("MW", []string{vh.ZHex(c.n), vh.ZHex(c.p), vh.ZHex(rxv), vh.ZHex(sv), vh.ZHex(xpk), "m", chalEntry, le},
			obs, class, caseText, key, what, detail, pf)
	}
	// the canonical string verifies through both decoders
	for _, b58 := range []bool{false, true} {
		obs := try(ser, b58)
		if obs != "acc" {
			r.prop("mina-serialised-rejected", caseText, what, fmt.Sprintf("canonical wire form (base58=%v) does not verify: %s", b58, obs))
		}
		model(rx, s, obs, "canonical wire form", obs != "acc")
	}
	for _, w := range nonCanonical(s, c.n, 32) {
		data := append(append([]byte{}, ser[:32]...), leBytes(w.v, 32)...)
		for _, b58 := range []bool{false, true} {
			obs := try(data, b58)
			d := fmt.Sprintf("%s (base58=%v) bytes %s", w.what, b58, vh.Hex(data))
			pf := r.wireReport("mina", "s", class, caseText, what, d, obs)
			model(rx, w.v, obs, "s replaced by "+d, pf)
		}
	}
	for _, w := range nonCanonical(rx, c.p, 32) {
		data := append(leBytes(w.v, 32), ser[32:]...)
		for _, b58 := range []bool{false, true} {
			obs := try(data, b58)
			d := fmt.Sprintf("%s (base58=%v) bytes %s", w.what, b58, vh.Hex(data))
			pf := r.wireReport("mina", "rx", class, caseText, what, d, obs)
			model(w.v, s, obs, "R.x replaced by "+d, pf)
		}
	}
}

// ---- BIP-340: 64-byte signature, 32-byte x-only key ----------------------------------------------------------------
func bipWire(r *run, class, caseText, what string, verifyBytes func(pk, sig, m []byte) string, pkb, ser, msg []byte,
	d0, k, s *big.Int) {
	c := secp256k1
	px, rx := new(big.Int).SetBytes(pkb), new(big.Int).SetBytes(ser[:32])
	dEven := new(big.Int).Set(d0)
	if isOdd(c.baseMul(d0).y) {
		dEven.Sub(c.n, d0)
	}
	e := bip340Challenge(rx, px, msg)
	ch := fmt.Sprintf("%s:%s:m:%s", vh.ZHex(xoKey(k, c.n)), vh.ZHex(xoKey(dEven, c.n)), vh.ZHex(e))
	yo := fmt.Sprintf("%s:0,%s:0", vh.ZHex(dEven), vh.ZHex(k))
	le := fmt.Sprintf("%s:%s,%s:%s", vh.ZHex(px), vh.ZHex(dEven), vh.ZHex(rx), vh.ZHex(k))
	model := func(pxv, rxv, sv *big.Int, obs, detail string, pf bool) {
		key := "bip340-wire"
		if pxv.Cmp(px) != 0 {
			key = "bip340-noncanonical-pk-accepted"
		} else if rxv.Cmp(rx) != 0 {
			key = "bip340-noncanonical-r-accepted"
		} else if sv.Cmp(s) != 0 {
			key = "bip340-noncanonical-s-accepted"
		}
		r.expect("BW", []string{vh.ZHex(c.n), vh.ZHex(c.p), vh.ZHex(pxv), vh.ZHex(rxv), vh.ZHex(sv), "m", ch, yo, le},
			obs, class, caseText, key, what, detail, pf)
	}
	obs := verifyBytes(pkb, ser, msg)
	model(px, rx, s, obs, "canonical wire form", obs != "acc")
	for _, w := range nonCanonical(s, c.n, 32) {
		data := append(append([]byte{}, ser[:32]...), beBytes(w.v, 32)...)
		obs := verifyBytes(pkb, data, msg)
		ref := bip340Verify(pkb, msg, data)
		d := w.what + " bytes " + vh.Hex(data)
		pf := r.wireReport("bip340", "s", class, caseText, what, d, obs)
		if ref {
			r.prop("bip340-reference-disagrees", caseText, what, "reference accepts "+d)
		}
		model(px, rx, w.v, obs, "s replaced by "+d, pf)
	}
	for _, w := range nonCanonical(rx, c.p, 32) {
		data := append(beBytes(w.v, 32), ser[32:]...)
		obs := verifyBytes(pkb, data, msg)
		d := w.what + " bytes " + vh.Hex(data)
		pf := r.wireReport("bip340", "r", class, caseText, what, d, obs)
		model(px, w.v, s, obs, "r replaced by "+d, pf)
	}
	for _, w := range nonCanonical(px, c.p, 32) {
		data := beBytes(w.v, 32)
		obs := verifyBytes(data, ser, msg)
		d := w.what + " key bytes " + vh.Hex(data)
		pf := r.wireReport("bip340", "pk", class, caseText, what, d, obs)
		model(w.v, rx, s, obs, "x-only key replaced by "+d, pf)
	}
}

// ---- generic Schnorr: CBOR -------------------------------------------------------------------------------------------
func genericWire[GE algebra.PrimeGroupElement[GE, S], S algebra.PrimeFieldElement[S]](r *run, env *genEnv[GE, S], class, caseText string,
	verify func(sg *schnorrlike.Signature[GE, S]) bool, sig *schnorrlike.Signature[GE, S]) {
	what := schnorrWhat + " (CBOR wire form)"
	enc, err := serde.MarshalCBOR(sig)
	if err != nil {
		r.res.Note("schnorr cbor: %v", err)
		return
	}
	try := func(data []byte) string {
		out := "rej"
		p := vh.Safely(func() {
			sg, err := serde.UnmarshalCBOR[*schnorrlike.Signature[GE, S]](data)
			if err != nil || sg == nil {
				return
			}
			if verify(sg) {
				out = "acc"
			}
			if !utilsNil(sg.R) && !utilsNil(sg.S) && sg.R.Equal(sig.R) && sg.S.Equal(sig.S) {
				out = "same:" + out
			}
		})
		if p != "" {
			return "panic"
		}
		return out
	}
	if o := try(enc); o != "same:acc" {
		r.prop("schnorr-cbor-roundtrip-rejected-"+env.name, caseText, what, "decode(encode(sig)) does not verify: "+o)
		return
	}
	sb := sig.S.Bytes()
	idx := bytes.LastIndex(enc, sb)
	if idx < 0 {
		return
	}
	s := new(big.Int).SetBytes(sb)
	for _, w := range nonCanonical(s, env.n, len(sb)) {
		data := append(append(append([]byte{}, enc[:idx]...), beBytes(w.v, len(sb))...), enc[idx+len(sb):]...)
		r.wireReportReducing("schnorr", "s", class, caseText, what, fmt.Sprintf("%s (%s) in CBOR %s", w.what, env.name, vh.Hex(data)), try(data))
	}
	// Pallas compressed R: little-endian x with the y-sign in bit 255
	if env.name == "pallas" {
		rb := sig.R.Bytes()
		ridx := bytes.Index(enc, rb)
		if ridx >= 0 && len(rb) == 32 {
			flag := rb[31] & 0x80
			xb := append([]byte{}, rb...)
			xb[31] &= 0x7f
			for i, j := 0, 31; i < j; i, j = i+1, j-1 {
				xb[i], xb[j] = xb[j], xb[i]
			}
			x := new(big.Int).SetBytes(xb)
			lim := new(big.Int).Lsh(big.NewInt(1), 255)
			for _, w := range nonCanonical(x, env.ref.p, 32) {
				if w.v.Cmp(lim) >= 0 {
					continue
				}
				nb := leBytes(w.v, 32)
				nb[31] |= flag
				data := append(append(append([]byte{}, enc[:ridx]...), nb...), enc[ridx+32:]...)
				r.wireReportReducing("schnorr", "R", class, caseText, what, fmt.Sprintf("x %s (%s) in CBOR %s", w.what, env.name, vh.Hex(data)), try(data))
			}
			data := append([]byte{}, enc...)
			data[ridx+31] ^= 0x80
			r.wireReportReducing("schnorr", "R", class, caseText, what, fmt.Sprintf("sign bit flipped (%s) in CBOR %s", env.name, vh.Hex(data)), try(data))
		}
	}
	// SEC1 compressed R: other prefix bytes
	if env.ref != nil && env.name != "pallas" {
		rb := sig.R.Bytes()
		ridx := bytes.Index(enc, rb)
		if ridx >= 0 && len(rb) == 33 {
			for _, pfx := range []byte{rb[0] ^ 1, 0x00, 0x04, 0x06} {
				data := append([]byte{}, enc...)
				data[ridx] = pfx
				r.wireReportReducing("schnorr", "R", class, caseText, what, fmt.Sprintf("prefix %02x (%s) in CBOR %s", pfx, env.name, vh.Hex(data)), try(data))
			}
			x := new(big.Int).SetBytes(rb[1:])
			for _, w := range nonCanonical(x, env.ref.p, 32) {
				data := append(append(append([]byte{}, enc[:ridx+1]...), beBytes(w.v, 32)...), enc[ridx+33:]...)
				r.wireReportReducing("schnorr", "R", class, caseText, what, fmt.Sprintf("x %s (%s) in CBOR %s", w.what, env.name, vh.Hex(data)), try(data))
			}
		}
	}
}

// ---- ECDSA: CBOR, on a signature crafted so that r + n and s + n fit 32 bytes ---------------------------------------------
// For any curve point R and any s, Q = r^-1 (s R - e G) is a public key under which (r = x(R) mod n, s) verifies;
// choosing the smallest x-coordinate on the curve and a 64-bit s gives a valid signature whose components have
// non-canonical 32-byte encodings.
func ecdsaWire[P curves.Point[P, B, S], B algebra.PrimeFieldElement[B], S algebra.PrimeFieldElement[S]](
	r *run, env *ecdsaEnv[P, B, S], fromXY func(x, y *big.Int) (P, error), h hcfg, idx int) {
	caseText := fmt.Sprintf("ecdsawire:%s:%s:%d", env.name, h.name, idx)
	class := "ecdsa/" + env.name + "/cbor"
	what := "ecdsa_accept_iff: r, s in [1, n-1] (model/Ecdsa.v) vs ecdsa.Signature CBOR wire form"
	rng := vh.NewRng(r.a.Seed, "C15", "ecdsawire/"+env.name, idx)
	c := env.ref
	n := c.n
	var R pt
	x0 := big.NewInt(int64(1 + idx))
	for {
		var ok bool
		if R, ok = c.liftX(x0, false); ok {
			break
		}
		x0.Add(x0, big.NewInt(1))
	}
	rr := new(big.Int).Mod(R.x, n)
	ss := new(big.Int).SetUint64(rng.Uint64() | 1)
	msg := rng.Bytes(1 + rng.Intn(40))
	e := bits2int(digestOf(h, msg), n)
	Q := c.mul(invMod(rr, n), c.add(c.mul(ss, R), c.neg(c.baseMul(new(big.Int).Mod(e, n)))))
	if Q.inf || !refEcdsaVerify(c, Q, e, rr, ss) {
		return
	}
	suite, err := ecdsa.NewSuite(env.curve, h.newH)
	if err != nil {
		return
	}
	qp, err := fromXY(Q.x, Q.y)
	if err != nil {
		r.res.Note("ecdsa wire: cannot build key point: %v", err)
		return
	}
	pk, err := ecdsa.NewPublicKey(qp)
	if err != nil {
		return
	}
	vfy, _ := ecdsa.NewVerifier(suite)
	v := 0
	for _, vp := range []*int{nil, &v} {
		sig, err := ecdsa.NewSignature(env.toS(rr), env.toS(ss), vp)
		if err != nil {
			return
		}
		if vfy.Verify(sig, pk, msg) != nil {
			r.prop("ecdsa-reference-signature-rejected-"+env.name, caseText, what,
				fmt.Sprintf("valid signature r=%s s=%s under key (%s,%s) is not accepted", vh.ZHex(rr), vh.ZHex(ss), vh.ZHex(Q.x), vh.ZHex(Q.y)))
			return
		}
		enc, err := sig.MarshalCBOR()
		if err != nil {
			return
		}
		try := func(data []byte) string {
			out := "rej"
			p := vh.Safely(func() {
				var s2 ecdsa.Signature[S]
				if s2.UnmarshalCBOR(data) != nil {
					return
				}
				if vfy.Verify(&s2, pk, msg) == nil {
					out = "acc"
				}
				if s2.R().Equal(sig.R()) && s2.S().Equal(sig.S()) && (s2.V() == nil) == (vp == nil) && (vp == nil || *s2.V() == *vp) {
					out = "same:" + out
				}
			})
			if p != "" {
				return "panic"
			}
			return out
		}
		r.res.Count(class, caseText, true)
		if o := try(enc); o != "same:acc" {
			r.prop("ecdsa-cbor-roundtrip-rejected-"+env.name, caseText, what, "decode(encode(sig)) does not verify: "+o)
			return
		}
		for _, comp := range []struct {
			name string
			c    *big.Int
		}{{"r", rr}, {"s", ss}} {
			cb := beBytes(comp.c, 32)
			ci := bytes.Index(enc, cb)
			if ci < 0 {
				continue
			}
			for _, w := range nonCanonical(comp.c, n, 32) {
				data := append(append(append([]byte{}, enc[:ci]...), beBytes(w.v, 32)...), enc[ci+32:]...)
				obs := try(data)
				pf := r.wireReportReducing("ecdsa", comp.name, class, caseText, what, fmt.Sprintf("%s (%s, v present=%v) in CBOR %s", w.what, env.name, vp != nil, vh.Hex(data)), obs)
				if strings.HasPrefix(obs, "same:") {
					continue // same struct-level values: the model's prediction for the canonical values applies
				}
				// the model's verifier works on the integers carried by the string
				rv, sv := rr, ss
				if comp.name == "r" {
					rv = w.v
				} else {
					sv = w.v
				}
				g := esig{rv, sv, vp}
				r.expect("EV", []string{vh.ZHex(n), vh.ZHex(c.p), "0", vh.ZHex(rv), vh.ZHex(sv), g.vtext(), vh.ZHex(e), "1", "-", "-"},
					obs, class, caseText, "ecdsa-noncanonical-"+comp.name+"-accepted", what, "integers carried by the string out of range", pf)
			}
		}
	}
}

// ---- BLS: compressed signatures and public keys --------------------------------------------------------------------------
var blsP = hexInt("1a0111ea397fe69a4b1ba7b6434bacd764774b84f38512bf6730d2a0f6b0f6241eabfffeb153ffffb9feffffffffaaab")

// blsVariants returns altered copies of a compressed point: flag bits and, per 48-byte coordinate, c + p where it fits 381 bits.
func blsVariants(b []byte) (out [][]byte, names []string) {
	add := func(x []byte, n string) { out = append(out, x); names = append(names, n) }
	for _, f := range []struct {
		mask byte
		n    string
	}{{0x20, "sort flag flipped"}, {0x80, "compression flag cleared"}, {0x40, "infinity flag set"}} {
		x := append([]byte{}, b...)
		x[0] ^= f.mask
		add(x, f.n)
	}
	ones := bytes.Repeat([]byte{0xff}, len(b))
	add(ones, "all-ones")
	lim := new(big.Int).Lsh(big.NewInt(1), 381)
	for off := 0; off+48 <= len(b); off += 48 {
		cb := append([]byte{}, b[off:off+48]...)
		flags := byte(0)
		if off == 0 {
			flags = cb[0] & 0xe0
			cb[0] &= 0x1f
		}
		cv := new(big.Int).SetBytes(cb)
		for _, v := range []*big.Int{new(big.Int).Add(cv, blsP), new(big.Int).Set(blsP)} {
			if v.Cmp(lim) >= 0 {
				continue
			}
			x := append([]byte{}, b...)
			copy(x[off:off+48], beBytes(v, 48))
			if off == 0 {
				x[0] |= flags
			}
			n := fmt.Sprintf("coordinate at byte %d replaced by c+p", off)
			if v.Cmp(blsP) == 0 {
				n = fmt.Sprintf("coordinate at byte %d replaced by p", off)
			}
			add(x, n)
		}
	}
	return
}

func blsWire[
	PK curves.PairingFriendlyPoint[PK, PKFE, SG, SGFE, E, S], PKFE algebra.FieldElement[PKFE],
	SG curves.PairingFriendlyPoint[SG, SGFE, PK, PKFE, E, S], SGFE algebra.FieldElement[SGFE],
	E algebra.MultiplicativeGroupElement[E], S algebra.PrimeFieldElement[S],
](r *run, env *blsEnv[PK, PKFE, SG, SGFE, E, S], idx int) {
	caseText := fmt.Sprintf("blswire:%s:%d", env.name, idx)
	class := "bls/" + env.name + "/wire"
	rng := vh.NewRng(r.a.Seed, "C15", caseText, idx)
	scheme, err := env.mk(bls.Basic)
	if err != nil {
		return
	}
	lim := new(big.Int).Sub(new(big.Int).Lsh(big.NewInt(1), 381), blsP)
	fits := func(b []byte) bool { // some coordinate has a non-canonical 381-bit encoding
		for off := 0; off+48 <= len(b); off += 48 {
			cb := append([]byte{}, b[off:off+48]...)
			if off == 0 {
				cb[0] &= 0x1f
			}
			if new(big.Int).SetBytes(cb).Cmp(lim) < 0 {
				return true
			}
		}
		return false
	}
	// a key whose encoding has a coordinate below 2^381 - p (23% of all keys), then a message whose signature has one
	var x *big.Int
	var sk *bls.PrivateKey[PK, PKFE, SG, SGFE, E, S]
	for t := 0; t < 40; t++ {
		x = rng.BigBelow(new(big.Int).Sub(blsQ, big.NewInt(1)))
		x.Add(x, big.NewInt(1))
		sk, err = bls.NewPrivateKey(env.keyG, env.sc(x))
		if err != nil {
			return
		}
		if fits(sk.PublicKey().Bytes()) {
			break
		}
	}
	signer, err := scheme.Signer(sk)
	if err != nil {
		return
	}
	var msg []byte
	var sig *bls.Signature[SG, SGFE, PK, PKFE, E, S]
	for t := 0; t < 12; t++ {
		msg = rng.Bytes(1 + rng.Intn(30))
		sig, err = signer.Sign(msg)
		if err != nil {
			return
		}
		if fits(sig.Bytes()) {
			break
		}
	}
	vf, err := scheme.Verifier()
	if err != nil {
		return
	}
	pkb, sgb := sk.PublicKey().Bytes(), sig.Bytes()
	try := func(pkBytes, sigBytes []byte) string {
		out := "rej"
		p := vh.Safely(func() {
			pk, err := bls.NewPublicKeyFromBytes(env.keyG, pkBytes)
			if err != nil {
				return
			}
			sg, err := bls.NewSignatureFromBytes(env.sigG, sigBytes, nil)
			if err != nil {
				return
			}
			if vf.Verify(sg, pk, msg) == nil {
				out = "acc"
			}
			if pk.Value().Equal(sk.PublicKey().Value()) && sg.Value().Equal(sig.Value()) {
				out = "same:" + out
			}
		})
		if p != "" {
			return "panic"
		}
		return out
	}
	r.res.Count(class, caseText, true)
	if o := try(pkb, sgb); o != "same:acc" {
		r.prop("bls-serialised-rejected-"+env.name, caseText, blsWhat, "decode(compressed sig), decode(compressed key) do not verify: "+o)
		return
	}
	vs, ns := blsVariants(sgb)
	for i, v := range vs {
		r.wireReportReducing("bls", "sig", class, caseText, blsWhat, fmt.Sprintf("%s (%s): %s", ns[i], env.name, vh.Hex(v)), try(pkb, v))
	}
	vs, ns = blsVariants(pkb)
	for i, v := range vs {
		r.wireReportReducing("bls", "pk", class, caseText, blsWhat, fmt.Sprintf("%s (%s): %s", ns[i], env.name, vh.Hex(v)), try(v, sgb))
	}
}

func utilsNil(x any) bool { return utils.IsNil(x) }
