package main

// Published vectors (copied from the repository's test sources into /verif/corpus/c15): the BIP-340
// reference vectors, the o1js legacy Mina signatures, the eth2/IETF BLS vectors.  Each is evaluated
// on the implementation and (BIP-340) on the independent reference; a disagreement is a failure of
// the property itself ("acceptance agrees with independent implementations and published vectors").

import (
	"bytes"
	"encoding/json"
	"fmt"
	"math/big"
	"os"
	"path/filepath"
	"sort"
	"strconv"
	"strings"

	"github.com/bronlabs/bron-crypto/pkg/base/base58"
	"github.com/bronlabs/bron-crypto/pkg/base/curves/pairable"
	"github.com/bronlabs/bron-crypto/pkg/base/curves/pairable/bls12381"
	"github.com/bronlabs/bron-crypto/pkg/signatures/bls"
	"github.com/bronlabs/bron-crypto/pkg/signatures/schnorrlike/bip340"
	"github.com/bronlabs/bron-crypto/pkg/signatures/schnorrlike/mina"

	"verif/harness/internal/vh"
)

func corpusDir() string {
	root := os.Getenv("VERIF_ROOT")
	if root == "" {
		root = "."
	}
	return filepath.Join(root, "corpus", "c15")
}

func runVectors(r *run) {
	bipVectors(r)
	minaVectors(r)
	blsVectors(r)
}

func bipVectors(r *run) {
	b, err := os.ReadFile(filepath.Join(corpusDir(), "bip340_vectors.csv"))
	if err != nil {
		r.res.Note("bip340 vectors missing: %v", err)
		return
	}
	what := "BIP-340 published vectors vs bip340.Verifier / Signer and the independent reference"
	for i, line := range strings.Split(strings.TrimSpace(string(b)), "\n") {
		if i == 0 {
			continue
		}
		f := strings.SplitN(line, ",", 8)
		if len(f) < 7 {
			continue
		}
		caseText := "vector:bip340:" + strconv.Itoa(i-1)
		skb, pkb, aux, msg, sigb := vh.UnHex(strings.ToLower(f[1])), vh.UnHex(strings.ToLower(f[2])), vh.UnHex(strings.ToLower(f[3])), vh.UnHex(strings.ToLower(f[4])), vh.UnHex(strings.ToLower(f[5]))
		want := f[6] == "TRUE"
		msg = append([]byte{}, msg...) // a nil message is refused by the signer (a refusal, not a wrong signature); the vector means the empty string
		r.res.Count("vector/bip340", caseText+" "+line, true)
		got := false
		p := vh.Safely(func() {
			pk, err := bip340.NewPublicKeyFromBytes(pkb)
			if err != nil {
				return
			}
			sg, err := bip340.NewSignatureFromBytes(sigb)
			if err != nil {
				return
			}
			vf, err := bip340.NewSchemeWithAux([32]byte{}).Verifier()
			if err != nil {
				return
			}
			got = vf.Verify(sg, pk, msg) == nil
		})
		ref := bip340Verify(pkb, msg, sigb)
		if p != "" || got != want || ref != want {
			r.prop("bip340-vector-"+strconv.Itoa(i-1), caseText, what, fmt.Sprintf("vector %s: expected %v, implementation %v (panic %q), reference %v", line, want, got, p, ref))
		}
		if len(skb) == 32 && len(aux) == 32 && want {
			var a [32]byte
			copy(a[:], aux)
			d := new(big.Int).SetBytes(skb)
			var ser []byte
			vh.Safely(func() {
				sk, err := bip340.NewPrivateKey(k256Scalar(d))
				if err != nil {
					return
				}
				sg, err := bip340.NewSchemeWithAux(a).Signer(sk)
				if err != nil {
					return
				}
				s, err := sg.Sign(msg)
				if err != nil {
					return
				}
				ser, _ = bip340.SerializeSignature(s)
			})
			if !bytes.Equal(ser, sigb) || !bytes.Equal(bip340Sign(d, aux, msg), sigb) {
				r.prop("bip340-sign-vector-"+strconv.Itoa(i-1), caseText, what, fmt.Sprintf("vector %s: Sign gives %s", line, vh.Hex(ser)))
			}
		}
	}
}

func minaVectors(r *run) {
	b, err := os.ReadFile(filepath.Join(corpusDir(), "mina_vectors.txt"))
	if err != nil {
		r.res.Note("mina vectors missing: %v", err)
		return
	}
	what := "o1js legacy signature vectors vs mina.Signer / Verifier"
	var sk *mina.PrivateKey
	var pk, recv, deleg *mina.PublicKey
	for i, line := range strings.Split(strings.TrimSpace(string(b)), "\n") {
		if strings.HasPrefix(line, "#") {
			continue
		}
		f := strings.Split(line, "|")
		caseText := "vector:mina:" + strconv.Itoa(i)
		fail := func(d string) { r.prop("mina-vector-"+strconv.Itoa(i), caseText, what, line+": "+d) }
		if f[0] == "params" {
			var e1, e2, e3, e4 error
			sk, e1 = mina.DecodePrivateKey(base58.Base58(f[1]))
			pk, e2 = mina.DecodePublicKey(base58.Base58(f[2]))
			recv, e3 = mina.DecodePublicKey(base58.Base58(f[3]))
			deleg, e4 = mina.DecodePublicKey(base58.Base58(f[4]))
			if e1 != nil || e2 != nil || e3 != nil || e4 != nil {
				fail("cannot decode the vector keys")
				return
			}
			continue
		}
		if sk == nil {
			return
		}
		u := func(s string) uint64 { v, _ := strconv.ParseUint(s, 10, 64); return v }
		var mk func() (*mina.ROInput, error)
		var sigs []string
		switch f[0] {
		case "payment":
			mk = func() (*mina.ROInput, error) {
				return mina.NewPaymentMessage(pk, recv, u(f[1]), u(f[2]), uint32(u(f[3])), uint32(u(f[4])), f[5])
			}
			sigs = f[6:]
		case "delegation":
			mk = func() (*mina.ROInput, error) {
				return mina.NewDelegationMessage(pk, deleg, u(f[1]), uint32(u(f[2])), uint32(u(f[3])), f[4])
			}
			sigs = f[5:]
		case "string":
			mk = func() (*mina.ROInput, error) { return minaMsg(f[1]), nil }
			sigs = f[2:]
		default:
			continue
		}
		if len(sigs) != 4 {
			continue
		}
		for j, nid := range []mina.NetworkID{mina.TestNet, mina.MainNet} {
			r.res.Count("vector/mina", caseText+string(nid)+line, true)
			p := vh.Safely(func() {
				msg, err := mk()
				if err != nil {
					fail("message construction failed: " + err.Error())
					return
				}
				scheme, err := mina.NewScheme(nid, sk)
				if err != nil {
					fail(err.Error())
					return
				}
				sg, err := scheme.Signer(sk)
				if err != nil {
					fail(err.Error())
					return
				}
				sig, err := sg.Sign(msg)
				if err != nil {
					fail("Sign failed: " + err.Error())
					return
				}
				rx, _ := pallasXY(sig.R)
				if rx.String() != sigs[2*j] || bigOf(sig.S).String() != sigs[2*j+1] {
					fail(fmt.Sprintf("%s: Sign gives (R.x=%s, s=%s)", nid, rx.String(), bigOf(sig.S).String()))
				}
				vf, _ := scheme.Verifier()
				msg2, _ := mk()
				if vf.Verify(sig, pk, msg2) != nil {
					fail(string(nid) + ": vector signature does not verify")
				}
			})
			if p != "" {
				fail("panic: " + p)
			}
		}
	}
}

type (
	g1 = *bls12381.PointG1
	f1 = *bls12381.BaseFieldElementG1
	g2 = *bls12381.PointG2
	f2 = *bls12381.BaseFieldElementG2
	gt = *bls12381.GtElement
	fr = *bls12381.Scalar
)

func unhex0x(s string) []byte { return vh.UnHex(strings.TrimPrefix(s, "0x")) }

func blsVectors(r *run) {
	dir := filepath.Join(corpusDir(), "bls_vectors")
	fam := pairable.NewBLS12381()
	what := "eth2/IETF BLS vectors (minimal-pubkey-size, POP ciphersuite DST) vs bls.Signer / Verifier / AggregateSignatures / AggregateVerify"
	dst, _ := bls.BLS12381CipherSuite().GetDst(bls.POP, bls.ShortKey)
	scheme, err := bls.NewShortKeyScheme(fam, bls.Basic)
	if err != nil {
		r.res.Note("bls scheme: %v", err)
		return
	}
	G1, G2 := fam.SourceSubGroup(), fam.TwistedSubGroup()
	read := func(sub string) map[string][]byte {
		out := map[string][]byte{}
		es, err := os.ReadDir(filepath.Join(dir, sub))
		if err != nil {
			r.res.Note("bls vectors %s missing: %v", sub, err)
			return out
		}
		for _, e := range es {
			if strings.HasSuffix(e.Name(), ".json") {
				b, _ := os.ReadFile(filepath.Join(dir, sub, e.Name()))
				out[e.Name()] = b
			}
		}
		return out
	}
	names := func(m map[string][]byte) []string {
		var ks []string
		for k := range m {
			ks = append(ks, k)
		}
		sort.Strings(ks)
		if r.quick && len(ks) > 4 {
			// the quick tier keeps a spread of the files (pairings are slow)
			var sel []string
			for i, k := range ks {
				if i%((len(ks)+3)/4) == 0 {
					sel = append(sel, k)
				}
			}
			ks = sel
		}
		return ks
	}
	fail := func(name, d string) { r.prop("bls-vector-"+name, "vector:bls:"+name, what, d) }

	m := read("sign")
	for _, name := range names(m) {
		var v struct {
			Input struct{ Privkey, Message string }
			Output *string
		}
		if json.Unmarshal(m[name], &v) != nil {
			continue
		}
		r.res.Count("vector/bls-sign", name, true)
		var got []byte
		vh.Safely(func() {
			sk, err := bls.NewPrivateKeyFromBytes(G1, unhex0x(v.Input.Privkey))
			if err != nil {
				return
			}
			sg, err := scheme.Signer(sk, bls.SignWithCustomDST[g1, f1, g2, f2, gt, fr](dst))
			if err != nil {
				return
			}
			s, err := sg.Sign(unhex0x(v.Input.Message))
			if err != nil {
				return
			}
			got = s.Bytes()
		})
		if v.Output == nil {
			if got != nil {
				fail(name, "expected refusal, got a signature")
			}
		} else if !bytes.Equal(got, unhex0x(*v.Output)) {
			fail(name, "signature "+vh.Hex(got)+" differs from the vector "+*v.Output)
		}
	}

	m = read("verify")
	for _, name := range names(m) {
		var v struct {
			Input  struct{ Pubkey, Message, Signature string }
			Output bool
		}
		if json.Unmarshal(m[name], &v) != nil {
			continue
		}
		r.res.Count("vector/bls-verify", name, true)
		got := false
		p := vh.Safely(func() {
			pk, err := bls.NewPublicKeyFromBytes(G1, unhex0x(v.Input.Pubkey))
			if err != nil {
				return
			}
			sg, err := bls.NewSignatureFromBytes(G2, unhex0x(v.Input.Signature), nil)
			if err != nil {
				return
			}
			vf, err := scheme.Verifier(bls.VerifyWithCustomDST[g1, f1, g2, f2, gt, fr](dst))
			if err != nil {
				return
			}
			got = vf.Verify(sg, pk, unhex0x(v.Input.Message)) == nil
		})
		if p != "" || got != v.Output {
			fail(name, fmt.Sprintf("expected %v, implementation %v %s", v.Output, got, p))
		}
	}

	m = read("aggregate")
	for _, name := range names(m) {
		var v struct {
			Input  []string
			Output *string
		}
		if json.Unmarshal(m[name], &v) != nil {
			continue
		}
		r.res.Count("vector/bls-aggregate", name, true)
		var got []byte
		vh.Safely(func() {
			var sigs []*bls.Signature[g2, f2, g1, f1, gt, fr]
			for _, s := range v.Input {
				sg, err := bls.NewSignatureFromBytes(G2, unhex0x(s), nil)
				if err != nil {
					return
				}
				sigs = append(sigs, sg)
			}
			if len(sigs) != len(v.Input) || len(sigs) == 0 {
				return
			}
			a, err := scheme.AggregateSignatures(sigs...)
			if err != nil {
				return
			}
			got = a.Bytes()
		})
		if v.Output == nil || strings.Contains(name, "infinity") {
			// the library deliberately refuses infinity signatures (stricter than the vector); one-sided
			continue
		}
		if !bytes.Equal(got, unhex0x(*v.Output)) {
			fail(name, "aggregate "+vh.Hex(got)+" differs from the vector "+*v.Output)
		}
	}

	m = read("aggregate_verify")
	for _, name := range names(m) {
		var v struct {
			Input struct {
				Pubkeys, Messages []string
				Signature         string
			}
			Output bool
		}
		if json.Unmarshal(m[name], &v) != nil {
			continue
		}
		r.res.Count("vector/bls-aggregate-verify", name, true)
		got := false
		p := vh.Safely(func() {
			var pks []*bls.PublicKey[g1, f1, g2, f2, gt, fr]
			for _, s := range v.Input.Pubkeys {
				pk, err := bls.NewPublicKeyFromBytes(G1, unhex0x(s))
				if err != nil {
					return
				}
				pks = append(pks, pk)
			}
			if len(pks) != len(v.Input.Pubkeys) {
				return
			}
			var msgs [][]byte
			for _, s := range v.Input.Messages {
				msgs = append(msgs, unhex0x(s))
			}
			sg, err := bls.NewSignatureFromBytes(G2, unhex0x(v.Input.Signature), nil)
			if err != nil {
				return
			}
			vf, err := scheme.Verifier(bls.VerifyWithCustomDST[g1, f1, g2, f2, gt, fr](dst))
			if err != nil {
				return
			}
			got = vf.AggregateVerify(sg, pks, msgs) == nil
		})
		if p != "" || got != v.Output {
			fail(name, fmt.Sprintf("expected %v, implementation %v %s", v.Output, got, p))
		}
	}
}
