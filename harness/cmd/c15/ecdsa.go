package main

import (
	"crypto"
	stdecdsa "crypto/ecdsa"
	"crypto/elliptic"
	"crypto/sha256"
	"crypto/sha3"
	"crypto/sha512"
	"encoding/asn1"
	"fmt"
	"hash"
	"math/big"
	"strings"

	"github.com/bronlabs/bron-crypto/pkg/base/algebra"
	"github.com/bronlabs/bron-crypto/pkg/base/curves"
	"github.com/bronlabs/bron-crypto/pkg/base/curves/k256"
	"github.com/bronlabs/bron-crypto/pkg/base/curves/p256"
	"github.com/bronlabs/bron-crypto/pkg/signatures/ecdsa"

	"verif/harness/internal/vh"
)

type hcfg struct {
	name string
	newH func() hash.Hash
	id   crypto.Hash
}

var hashes = []hcfg{
	{"sha256", sha256.New, crypto.SHA256},
	{"sha512", sha512.New, crypto.SHA512},
	{"sha3-256", func() hash.Hash { return sha3.New256() }, crypto.SHA3_256},
	{"sha384", sha512.New384, crypto.SHA384},
	{"sha3-512", func() hash.Hash { return sha3.New512() }, crypto.SHA3_512},
	{"sha224", sha256.New224, crypto.SHA224},
}

func hashByName(n string) hcfg {
	for _, h := range hashes {
		if h.name == n {
			return h
		}
	}
	return hashes[0]
}

func digestOf(h hcfg, msg []byte) []byte {
	x := h.newH()
	x.Write(msg)
	return x.Sum(nil)
}

// ecdsaEnv binds a library curve to its independent reference curve.
type ecdsaEnv[P curves.Point[P, B, S], B algebra.PrimeFieldElement[B], S algebra.PrimeFieldElement[S]] struct {
	name  string
	curve ecdsa.Curve[P, B, S]
	sf    algebra.PrimeField[S]
	ref   *wcurve
}

func (env *ecdsaEnv[P, B, S]) toS(x *big.Int) S {
	x = new(big.Int).Mod(x, env.ref.n)
	if x.Sign() == 0 {
		return env.sf.Zero()
	}
	s, err := env.sf.FromWideBytes(x.Bytes())
	if err != nil {
		panic(err)
	}
	return s
}

func bigOf[S algebra.PrimeFieldElement[S]](s S) *big.Int { return s.Cardinal().Big() }

type esig struct {
	r, s *big.Int
	v    *int
}

func (g esig) vtext() string {
	if g.v == nil {
		return "-"
	}
	return fmt.Sprintf("%x", *g.v)
}
func (g esig) text() string { return vh.ZHex(g.r) + "," + vh.ZHex(g.s) + "," + g.vtext() }

func iptr(v int) *int { return &v }

// known discrete logs of x-coordinates, for the FromAffineX table
type liftDB struct {
	c *wcurve
	m map[string][2]*big.Int // x hex -> (k with even y? no: k, and parity bit as big 0/1)
}

func newLiftDB(c *wcurve) *liftDB { return &liftDB{c: c, m: map[string][2]*big.Int{}} }

func (db *liftDB) learn(k *big.Int) pt {
	k = new(big.Int).Mod(k, db.c.n)
	P := db.c.baseMul(k)
	if !P.inf {
		par := big.NewInt(0)
		if isOdd(P.y) {
			par = big.NewInt(1)
		}
		db.m[P.x.Text(16)] = [2]*big.Int{k, par}
	}
	return P
}

// entries returns the lift table entries for the x-coordinates the recovery of (r, v in 0..3) can ask for.
func (db *liftDB) entries(r *big.Int) []string {
	c := db.c
	var out []string
	seen := map[string]bool{}
	rx0 := new(big.Int).Mod(r, c.p)
	rx1 := new(big.Int).Add(rx0, new(big.Int).Mod(c.n, c.p))
	rx1.Mod(rx1, c.p)
	for _, x := range []*big.Int{rx0, rx1} {
		if seen[x.Text(16)] {
			continue
		}
		seen[x.Text(16)] = true
		if kp, ok := db.m[x.Text(16)]; ok {
			k, par := kp[0], kp[1].Int64()
			nk := new(big.Int).Sub(c.n, k)
			out = append(out, fmt.Sprintf("%s:%d:%s", vh.ZHex(x), par, vh.ZHex(k)), fmt.Sprintf("%s:%d:%s", vh.ZHex(x), 1-par, vh.ZHex(nk)))
		} else if _, ok := c.liftX(x, false); !ok {
			out = append(out, fmt.Sprintf("%s:0:none", vh.ZHex(x)), fmt.Sprintf("%s:1:none", vh.ZHex(x)))
		}
	}
	return out
}

func tbl(xs []string) string {
	if len(xs) == 0 {
		return "-"
	}
	return strings.Join(xs, ",")
}

func xfEntry(c *wcurve, u *big.Int) []string {
	u = new(big.Int).Mod(u, c.n)
	if u.Sign() == 0 {
		return nil
	}
	P := c.baseMul(u)
	o := 0
	if isOdd(P.y) {
		o = 1
	}
	return []string{fmt.Sprintf("%s:%s:%d", vh.ZHex(u), vh.ZHex(P.x), o)}
}

// libEcdsaVerify runs the implementation's verifier; "acc", "rej" or "panic".
func libEcdsaVerify[P curves.Point[P, B, S], B algebra.PrimeFieldElement[B], S algebra.PrimeFieldElement[S]](
	env *ecdsaEnv[P, B, S], suite *ecdsa.Suite[P, B, S], strict bool, g esig, pkd *big.Int, msg []byte) string {
	out := "rej"
	p := vh.Safely(func() {
		sig, err := ecdsa.NewSignature(env.toS(g.r), env.toS(g.s), g.v)
		if err != nil {
			return
		}
		pk, err := ecdsa.NewPublicKey(env.curve.ScalarBaseMul(env.toS(pkd)))
		if err != nil {
			return
		}
		vf, err := ecdsa.NewVerifier(suite)
		if err != nil {
			return
		}
		if strict {
			if err := ecdsa.VerifyNonMalleably(vf); err != nil {
				return
			}
		}
		if vf.Verify(sig, pk, msg) == nil {
			out = "acc"
		}
	})
	if p != "" {
		return "panic"
	}
	return out
}

type equery struct {
	name   string
	g      esig
	pkd    *big.Int
	msg    []byte
	h      hcfg   // hash of the verifying suite
	expect string // property-level expectation for the default verifier ("" none)
	// expectation for the strict verifier: same as expect, except it must reject when s is high
}

func ecdsaCase[P curves.Point[P, B, S], B algebra.PrimeFieldElement[B], S algebra.PrimeFieldElement[S]](
	r *run, env *ecdsaEnv[P, B, S], h hcfg, det bool, idx int) {
	mode := "rand"
	if det {
		mode = "rfc6979"
	}
	caseText := fmt.Sprintf("ecdsa:%s:%s:%s:%d", env.name, h.name, mode, idx)
	class := fmt.Sprintf("ecdsa/%s/%s/%s", env.name, h.name, mode)
	rng := vh.NewRng(r.a.Seed, "C15", "ecdsa/"+env.name+"/"+h.name+"/"+mode, idx)
	c := env.ref
	n := c.n
	what := "ecdsa_sign_verify / ecdsa_accept_iff / recover_returns_key / normalise_preserves (model/Ecdsa.v) vs pkg/signatures/ecdsa"

	// key: boundary values first
	var d *big.Int
	switch idx {
	case 0:
		d = big.NewInt(1)
	case 1:
		d = new(big.Int).Sub(n, big.NewInt(1))
	case 2:
		d = big.NewInt(2)
	default:
		d = rng.BigBelow(new(big.Int).Sub(n, big.NewInt(1)))
		d.Add(d, big.NewInt(1))
	}
	msg := rng.Bytes(rng.Intn(100))
	if idx%7 == 3 {
		msg = nil
	}
	canon := fmt.Sprintf("%s d=%s msg=%s", caseText, vh.ZHex(d), vh.Hex(msg))

	var suite *ecdsa.Suite[P, B, S]
	var err error
	if det {
		suite, err = ecdsa.NewDeterministicSuite(env.curve, h.id)
	} else {
		suite, err = ecdsa.NewSuite(env.curve, h.newH)
	}
	if err != nil {
		r.res.Count(class+"/suite-refused", canon, false)
		return
	}
	Qref := c.baseMul(d)
	pkv := env.curve.ScalarBaseMul(env.toS(d))
	pk, err := ecdsa.NewPublicKey(pkv)
	if err != nil {
		r.prop("ecdsa-key-refused", caseText, what, "NewPublicKey refused d*G: "+err.Error())
		return
	}
	// the public key equals the reference point (ties the exponent d to the implementation's point)
	if ax, e1 := pkv.AffineX(); e1 == nil {
		ay, _ := pkv.AffineY()
		if ax.Cardinal().Big().Cmp(Qref.x) != 0 || ay.Cardinal().Big().Cmp(Qref.y) != 0 {
			r.prop("ecdsa-pk-differs-from-reference", caseText, what, "d*G differs from the reference curve computation")
		}
	}
	sk, err := ecdsa.NewPrivateKey(env.toS(d), pk)
	if err != nil {
		r.prop("ecdsa-key-refused", caseText, what, "NewPrivateKey refused: "+err.Error())
		return
	}
	signer, err := ecdsa.NewSigner(suite, sk, rng)
	if err != nil {
		r.res.Count(class+"/signer-refused", canon, false)
		return
	}
	var lsig *ecdsa.Signature[S]
	pan := vh.Safely(func() { lsig, err = signer.Sign(msg) })
	if pan != "" {
		r.prop("ecdsa-sign-panic", caseText, what, "Sign panicked: "+pan)
		return
	}
	if err != nil {
		// one-sided: a refusal to sign (e.g. RFC 6979 on a curve crypto/ecdsa does not support) is not a violation
		r.res.Count(class+"/sign-refused", canon, false)
		return
	}
	r.res.Count(class, canon, true)
	g := esig{r: bigOf(lsig.R()), s: bigOf(lsig.S()), v: lsig.V()}
	digest := digestOf(h, msg)
	e := bits2int(digest, n)

	// nonce: independently by RFC 6979 when deterministic, else recovered from (d, e, r, s)
	var k *big.Int
	if det {
		k = rfc6979(h.newH, n, d, digest)
	} else {
		k = mulMod(invMod(g.s, n), addMod(e, mulMod(g.r, d, n), n), n)
	}
	db := newLiftDB(c)
	db.learn(k)

	// model: sign
	r.expect("ES", []string{vh.ZHex(n), vh.ZHex(c.p), vh.ZHex(d), vh.ZHex(e), vh.ZHex(k), tbl(xfEntry(c, k)), tbl(db.entries(g.r))},
		g.text(), class, caseText, "ecdsa-sign-"+env.name, what, "Sign(msg) as (r,s,v)", false)

	// ---- property predicates on the honest signature --------------------------------------------
	if !refEcdsaVerify(c, Qref, e, g.r, g.s) {
		r.prop("ecdsa-sign-invalid-"+env.name, caseText, what, "signature "+g.text()+" is rejected by the independent reference verifier")
	}
	if g.v == nil {
		r.prop("ecdsa-no-recovery-id", caseText, what, "Sign returned no recovery id")
		return
	}
	if Q2, ok := refEcdsaRecover(c, e, g.r, g.s, *g.v); !ok || !c.eq(Q2, Qref) {
		r.prop("ecdsa-recovery-id-wrong-"+env.name, caseText, what, "independent SEC1 recovery from "+g.text()+" does not return the signing key")
	}
	if env.name == "p256" {
		std := &stdecdsa.PublicKey{Curve: elliptic.P256(), X: Qref.x, Y: Qref.y}
		if !stdecdsa.Verify(std, digest, g.r, g.s) {
			r.prop("ecdsa-sign-invalid-p256-stdlib", caseText, what, "crypto/ecdsa rejects the library's signature")
		}
	}
	var rpk *ecdsa.PublicKey[P, B, S]
	pan = vh.Safely(func() { rpk, err = ecdsa.RecoverPublicKey(suite, lsig, msg) })
	recObs := "none"
	if pan != "" {
		recObs = "panic"
	} else if err == nil {
		if rpk.Equal(pk) {
			recObs = vh.ZHex(d)
		} else {
			recObs = "other"
		}
	}
	if recObs != vh.ZHex(d) {
		r.prop("ecdsa-recover-wrong-key-"+env.name, caseText, what, "RecoverPublicKey on the signer's own output returned "+recObs)
	}
	r.expect("ER", []string{vh.ZHex(n), vh.ZHex(c.p), vh.ZHex(g.r), vh.ZHex(g.s), g.vtext(), vh.ZHex(e), tbl(db.entries(g.r))},
		recObs, class, caseText, "ecdsa-recover-"+env.name, what, "RecoverPublicKey(sig, msg)", recObs != vh.ZHex(d))

	// ---- alterations ------------------------------------------------------------------------------
	ns := subMod(big.NewInt(0), g.s, n)
	flipped := esig{r: g.r, s: ns, v: iptr(*g.v ^ 1)}
	kq := rng.BigBelow(new(big.Int).Sub(n, big.NewInt(1)))
	kq.Add(kq, big.NewInt(1))
	Pq := db.learn(kq)
	rq := new(big.Int).Mod(Pq.x, n)
	msg2 := append([]byte{}, msg...)
	if len(msg2) == 0 {
		msg2 = []byte{0}
	} else {
		msg2[rng.Intn(len(msg2))] ^= 1 << uint(rng.Intn(8))
	}
	d2 := addMod(d, big.NewInt(1), n)
	if d2.Sign() == 0 {
		d2 = big.NewInt(1)
	}
	h2 := hashes[0]
	if h.name == h2.name {
		h2 = hashes[1]
	}
	one := big.NewInt(1)
	qs := []equery{
		{"honest", g, d, msg, h, "acc"},
		{"honest-without-v", esig{g.r, g.s, nil}, d, msg, h, "acc"},
		{"equivalent-form (r,n-s,v^1)", flipped, d, msg, h, "acc"},
		{"equivalent-form-without-v", esig{g.r, ns, nil}, d, msg, h, "acc"},
		{"s-negated-v-kept", esig{g.r, ns, g.v}, d, msg, h, "rej"},
		{"v-parity-flipped", esig{g.r, g.s, iptr(*g.v ^ 1)}, d, msg, h, "rej"},
		{"v-overflow-bit-flipped", esig{g.r, g.s, iptr(*g.v ^ 2)}, d, msg, h, "rej"},
		{"r-replaced-by-x(k'G)", esig{rq, g.s, g.v}, d, msg, h, "rej"},
		{"r-replaced-by-x(k'G)-without-v", esig{rq, g.s, nil}, d, msg, h, "rej"},
		{"r+1-without-v", esig{addMod(g.r, one, n), g.s, nil}, d, msg, h, "rej"},
		{"r+1", esig{addMod(g.r, one, n), g.s, g.v}, d, msg, h, "rej"},
		{"s+1", esig{g.r, addMod(g.s, one, n), g.v}, d, msg, h, "rej"},
		{"s+1-without-v", esig{g.r, addMod(g.s, one, n), nil}, d, msg, h, "rej"},
		{"message-bit-flipped", g, d, msg2, h, "rej"},
		{"message-bit-flipped-without-v", esig{g.r, g.s, nil}, d, msg2, h, "rej"},
		{"public-key-changed", g, d2, msg, h, "rej"},
		{"public-key-changed-without-v", esig{g.r, g.s, nil}, d2, msg, h, "rej"},
		{"public-key-negated-without-v", esig{g.r, g.s, nil}, subMod(big.NewInt(0), d, n), msg, h, "rej"},
		{"hash-changed", g, d, msg, h2, "rej"},
		{"r-zero", esig{big.NewInt(0), g.s, nil}, d, msg, h, "rej"},
		{"s-zero", esig{g.r, big.NewInt(0), g.v}, d, msg, h, "rej"},
	}
	for _, q := range qs {
		vsuite := suite
		if q.h.name != h.name {
			vsuite, err = ecdsa.NewSuite(env.curve, q.h.newH)
			if err != nil {
				continue
			}
		}
		eq := bits2int(digestOf(q.h, q.msg), n)
		var xf []string
		if q.g.s.Sign() != 0 {
			u := mulMod(addMod(eq, mulMod(q.g.r, q.pkd, n), n), invMod(q.g.s, n), n)
			xf = xfEntry(c, u)
		}
		high := q.g.s.Cmp(subMod(big.NewInt(0), q.g.s, n)) > 0
		for _, strict := range []bool{false, true} {
			obs := libEcdsaVerify(env, vsuite, strict, q.g, q.pkd, q.msg)
			want := q.expect
			if strict && high {
				want = "rej"
			}
			pf := false
			if obs == "panic" || (want != "" && obs != want) {
				pf = true
				r.prop(fmt.Sprintf("ecdsa-%s-%s-strict=%v", strings.Fields(q.name)[0], env.name, strict), caseText, what,
					fmt.Sprintf("%s: signature %s (original %s), key d=%s, hash %s, strict=%v: verifier says %s, property requires %s",
						q.name, q.g.text(), g.text(), vh.ZHex(q.pkd), q.h.name, strict, obs, want))
			}
			st := "0"
			if strict {
				st = "1"
			}
			r.res.Count(class+"/verify", canon+"/"+q.name+"/"+st, true)
			r.expect("EV", []string{vh.ZHex(n), vh.ZHex(c.p), st, vh.ZHex(q.g.r), vh.ZHex(q.g.s), q.g.vtext(), vh.ZHex(eq), vh.ZHex(q.pkd), tbl(xf), tbl(db.entries(q.g.r))},
				obs, class, caseText, "ecdsa-verify-"+env.name, what, q.name, pf)
		}
	}

	// ---- Normalise ---------------------------------------------------------------------------------
	for _, base := range []esig{g, flipped} {
		sig, err := ecdsa.NewSignature(env.toS(base.r), env.toS(base.s), base.v)
		if err != nil {
			continue
		}
		sig.Normalise()
		ng := esig{r: bigOf(sig.R()), s: bigOf(sig.S()), v: sig.V()}
		pf := false
		if !sig.IsNormalized() || libEcdsaVerify(env, suite, true, ng, d, msg) != "acc" {
			pf = true
			r.prop("ecdsa-normalise-"+env.name, caseText, what, "Normalise("+base.text()+") = "+ng.text()+" is not accepted by the strict verifier")
		}
		if ng.s.Cmp(subMod(big.NewInt(0), ng.s, n)) > 0 {
			pf = true
			r.prop("ecdsa-normalise-high-"+env.name, caseText, what, "Normalise("+base.text()+") = "+ng.text()+" still has s > n/2")
		}
		r.expect("EN", []string{vh.ZHex(n), vh.ZHex(base.r), vh.ZHex(base.s), base.vtext()}, ng.text(), class, caseText, "ecdsa-normalise-"+env.name, what, "Normalise", pf)
	}

	// ---- ComputeRecoveryID on R = kG -----------------------------------------------------------------
	if v, err := ecdsa.ComputeRecoveryID(env.curve.ScalarBaseMul(env.toS(k))); err == nil {
		r.expect("EC", []string{vh.ZHex(n), vh.ZHex(k), tbl(xfEntry(c, k))}, fmt.Sprintf("%x", v), class, caseText, "ecdsa-recid-"+env.name, what, "ComputeRecoveryID(kG)", false)
	}

	// ---- signatures made outside the library must be accepted ------------------------------------------
	k2 := rfc6979(sha256.New, n, d, digest)
	R2 := db.learn(k2)
	r2 := new(big.Int).Mod(R2.x, n)
	s2 := mulMod(invMod(k2, n), addMod(e, mulMod(r2, d, n), n), n)
	if r2.Sign() != 0 && s2.Sign() != 0 {
		v2 := 0
		if isOdd(R2.y) {
			v2 = 1
		}
		if R2.x.Cmp(n) >= 0 {
			v2 |= 2
		}
		for _, q := range []esig{{r2, s2, nil}, {r2, s2, iptr(v2)}} {
			obs := libEcdsaVerify(env, suite, false, q, d, msg)
			if obs != "acc" {
				r.prop("ecdsa-reference-signature-rejected-"+env.name, caseText, what, "reference-made signature "+q.text()+" is not accepted: "+obs)
			}
			r.expect("EV", []string{vh.ZHex(n), vh.ZHex(c.p), "0", vh.ZHex(q.r), vh.ZHex(q.s), q.vtext(), vh.ZHex(e), vh.ZHex(d), tbl(xfEntry(c, k2)), tbl(db.entries(q.r))},
				obs, class, caseText, "ecdsa-verify-"+env.name, what, "reference-made signature", obs != "acc")
		}
	}
	if env.name == "p256" && h.id == crypto.SHA256 {
		priv := &stdecdsa.PrivateKey{PublicKey: stdecdsa.PublicKey{Curve: elliptic.P256(), X: Qref.x, Y: Qref.y}, D: d}
		if der, err := priv.Sign(nil, digest, crypto.SHA256); err == nil {
			var rs struct{ R, S *big.Int }
			if _, err := asn1.Unmarshal(der, &rs); err == nil {
				if obs := libEcdsaVerify(env, suite, false, esig{rs.R, rs.S, nil}, d, msg); obs != "acc" {
					r.prop("ecdsa-stdlib-signature-rejected-p256", caseText, what, "crypto/ecdsa-made signature is not accepted: "+obs)
				}
			}
		}
	}
}

func k256Env() *ecdsaEnv[*k256.Point, *k256.BaseFieldElement, *k256.Scalar] {
	return &ecdsaEnv[*k256.Point, *k256.BaseFieldElement, *k256.Scalar]{name: "k256", curve: k256.NewCurve(), sf: k256.NewScalarField(), ref: secp256k1}
}

func p256Env() *ecdsaEnv[*p256.Point, *p256.BaseFieldElement, *p256.Scalar] {
	return &ecdsaEnv[*p256.Point, *p256.BaseFieldElement, *p256.Scalar]{name: "p256", curve: p256.NewCurve(), sf: p256.NewScalarField(), ref: nistP256}
}

func runEcdsa(r *run, mult int) {
	nh, per := 3, 3
	if !r.quick {
		nh, per = len(hashes), 12
	}
	per *= mult
	ke, pe := k256Env(), p256Env()
	for _, h := range hashes[:nh] {
		for i := 0; i < per; i++ {
			ecdsaCase(r, ke, h, false, i)
			ecdsaCase(r, pe, h, false, i)
		}
		for i := 0; i < per/2+1; i++ {
			ecdsaCase(r, pe, h, true, i)
			if i == 0 {
				ecdsaCase(r, ke, h, true, i)
			}
		}
		r.flush()
	}
	kxy := func(x, y *big.Int) (*k256.Point, error) {
		return k256.NewCurve().FromUncompressed(append(append([]byte{4}, x.FillBytes(make([]byte, 32))...), y.FillBytes(make([]byte, 32))...))
	}
	pxy := func(x, y *big.Int) (*p256.Point, error) {
		return p256.NewCurve().FromUncompressed(append(append([]byte{4}, x.FillBytes(make([]byte, 32))...), y.FillBytes(make([]byte, 32))...))
	}
	nw := 2 * mult
	if !r.quick {
		nw = 8 * mult
	}
	for i := 0; i < nw; i++ {
		ecdsaWire(r, ke, kxy, hashes[i%nh], i)
		ecdsaWire(r, pe, pxy, hashes[(i+1)%nh], i)
	}
	r.flush()
}

func replayEcdsa(r *run, f []string) {
	if len(f) < 5 {
		return
	}
	h := hashByName(f[2])
	det := f[3] == "rfc6979"
	if f[1] == "p256" {
		ecdsaCase(r, p256Env(), h, det, atoi(f[4]))
	} else {
		ecdsaCase(r, k256Env(), h, det, atoi(f[4]))
	}
}
