package main

import (
	"fmt"
	"math/big"
	"strings"

	"github.com/bronlabs/bron-crypto/pkg/base/algebra"
	"github.com/bronlabs/bron-crypto/pkg/base/curves"
	"github.com/bronlabs/bron-crypto/pkg/base/curves/pairable"
	"github.com/bronlabs/bron-crypto/pkg/base/curves/pairable/bls12381"
	bls12381Impl "github.com/bronlabs/bron-crypto/pkg/base/curves/pairable/bls12381/impl"
	"github.com/bronlabs/bron-crypto/pkg/signatures"
	"github.com/bronlabs/bron-crypto/pkg/signatures/bls"

	"verif/harness/internal/vh"
)

const blsWhat = "bls_sign_verify / bls_accept_iff / bls_aggregate_iff / pop_binds_key (model/Bls.v) vs pkg/signatures/bls"

var blsQ = hexInt("73eda753299d7d483339d80809a1d80553bda402fffe5bfeffffffff00000001")

func blsScalar(x *big.Int) *bls12381.Scalar {
	x = new(big.Int).Mod(x, blsQ)
	if x.Sign() == 0 {
		return bls12381.NewScalarField().Zero()
	}
	s, err := bls12381.NewScalarField().FromWideBytes(x.Bytes())
	if err != nil {
		panic(err)
	}
	return s
}

type blsEnv[
	PK curves.PairingFriendlyPoint[PK, PKFE, SG, SGFE, E, S], PKFE algebra.FieldElement[PKFE],
	SG curves.PairingFriendlyPoint[SG, SGFE, PK, PKFE, E, S], SGFE algebra.FieldElement[SGFE],
	E algebra.MultiplicativeGroupElement[E], S algebra.PrimeFieldElement[S],
] struct {
	name    string
	variant bls.Variant
	mk      func(alg bls.RogueKeyPreventionAlgorithm) (*bls.Scheme[PK, PKFE, SG, SGFE, E, S], error)
	keyG    curves.PairingFriendlyCurve[PK, PKFE, SG, SGFE, E, S]
	sigG    curves.PairingFriendlyCurve[SG, SGFE, PK, PKFE, E, S]
	sc      func(x *big.Int) S
	offPK   func(r *vh.Rng) PK
	offSG   func(r *vh.Rng) SG
	hcache  map[string]SG
}

// one BLS group element of the signature group as the model sees it: a linear form (text) and the point
type term struct {
	dst     int
	payload []byte
	c       *big.Int
}

func formText(c0 *big.Int, ts []term) string {
	parts := []string{vh.ZHex(new(big.Int).Mod(c0, blsQ))}
	for _, t := range ts {
		parts = append(parts, fmt.Sprintf("%x:%s:%s", t.dst, vh.Hex(t.payload), vh.ZHex(new(big.Int).Mod(t.c, blsQ))))
	}
	return strings.Join(parts, ";")
}

var algNames = map[bls.RogueKeyPreventionAlgorithm]string{bls.Basic: "basic", bls.MessageAugmentation: "aug", bls.POP: "pop"}

func sigDstID(alg bls.RogueKeyPreventionAlgorithm) int {
	switch alg {
	case bls.Basic:
		return 1
	case bls.MessageAugmentation:
		return 2
	default:
		return 3
	}
}

func (env *blsEnv[PK, PKFE, SG, SGFE, E, S]) dstString(id int) string {
	cs := bls.BLS12381CipherSuite()
	switch id {
	case 1:
		s, _ := cs.GetDst(bls.Basic, env.variant)
		return s
	case 2:
		s, _ := cs.GetDst(bls.MessageAugmentation, env.variant)
		return s
	case 3:
		s, _ := cs.GetDst(bls.POP, env.variant)
		return s
	default:
		return cs.GetPopDst(env.variant)
	}
}

// evalForm computes c0*G + sum c_i * H(dst_i, payload_i) with the library's hash-to-curve and group law
func (env *blsEnv[PK, PKFE, SG, SGFE, E, S]) evalForm(text string) (SG, error) {
	parts := strings.Split(text, ";")
	acc := env.sigG.Generator().ScalarMul(env.sc(vh.UnZHex(parts[0])))
	for _, t := range parts[1:] {
		if t == "" {
			continue
		}
		f := strings.Split(t, ":")
		var id int
		fmt.Sscanf(f[0], "%x", &id)
		h, ok := env.hcache[f[0]+":"+f[1]]
		if !ok {
			var err error
			h, err = env.sigG.HashWithDst(env.dstString(id), vh.UnHex(f[1]))
			if err != nil {
				return acc, err
			}
			if env.hcache == nil {
				env.hcache = map[string]SG{}
			}
			env.hcache[f[0]+":"+f[1]] = h
		}
		acc = acc.Add(h.ScalarMul(env.sc(vh.UnZHex(f[2]))))
	}
	return acc, nil
}

func (env *blsEnv[PK, PKFE, SG, SGFE, E, S]) pkOf(a *big.Int) *bls.PublicKey[PK, PKFE, SG, SGFE, E, S] {
	return &bls.PublicKey[PK, PKFE, SG, SGFE, E, S]{PublicKeyTrait: signatures.PublicKeyTrait[PK, S]{V: env.keyG.ScalarBaseMul(env.sc(a))}}
}

func (env *blsEnv[PK, PKFE, SG, SGFE, E, S]) pkRaw(v PK) *bls.PublicKey[PK, PKFE, SG, SGFE, E, S] {
	return &bls.PublicKey[PK, PKFE, SG, SGFE, E, S]{PublicKeyTrait: signatures.PublicKeyTrait[PK, S]{V: v}}
}

// sigOf builds a library signature object for a point; identity is reached through TryAdd(x, -x), which
// performs no check on the sum; an out-of-subgroup point can only go through NewSignature (which refuses).
func (env *blsEnv[PK, PKFE, SG, SGFE, E, S]) sigOf(v SG, pop *bls.ProofOfPossession[SG, SGFE, PK, PKFE, E, S]) (*bls.Signature[SG, SGFE, PK, PKFE, E, S], error) {
	if v.IsOpIdentity() {
		g := env.sigG.Generator()
		a, err := bls.NewSignature[SG, SGFE, PK, PKFE, E, S](g, nil)
		if err != nil {
			return nil, err
		}
		b, err := bls.NewSignature[SG, SGFE, PK, PKFE, E, S](g.Neg(), nil)
		if err != nil {
			return nil, err
		}
		return a.TryAdd(b)
	}
	return bls.NewSignature(v, pop)
}

type blsSigner struct {
	x       *big.Int
	msg     []byte
	payload []byte // what is hashed
}

func blsCase[
	PK curves.PairingFriendlyPoint[PK, PKFE, SG, SGFE, E, S], PKFE algebra.FieldElement[PKFE],
	SG curves.PairingFriendlyPoint[SG, SGFE, PK, PKFE, E, S], SGFE algebra.FieldElement[SGFE],
	E algebra.MultiplicativeGroupElement[E], S algebra.PrimeFieldElement[S],
](r *run, env *blsEnv[PK, PKFE, SG, SGFE, E, S], alg bls.RogueKeyPreventionAlgorithm, nsig int, sameMsg bool, idx int, lite bool) {
	an := algNames[alg]
	caseText := fmt.Sprintf("bls:%s:%s:%d:%d:%d", env.name, an, nsig, parity(sameMsg), idx)
	class := fmt.Sprintf("bls/%s/%s", env.name, an)
	rng := vh.NewRng(r.a.Seed, "C15", caseText, idx)
	q := blsQ
	qh := vh.ZHex(q)
	scheme, err := env.mk(alg)
	if err != nil {
		r.res.Count(class+"/scheme-refused", caseText, false)
		return
	}
	dst := sigDstID(alg)
	signers := make([]blsSigner, nsig)
	common := rng.Bytes(1 + rng.Intn(40))
	pkenc := []string{}
	pkBytes := func(a *big.Int) []byte { return env.keyG.ScalarBaseMul(env.sc(a)).Bytes() }
	seenPk := map[string]bool{}
	addEnc := func(a *big.Int) {
		a = new(big.Int).Mod(a, q)
		if a.Sign() == 0 || seenPk[a.Text(16)] {
			return
		}
		seenPk[a.Text(16)] = true
		pkenc = append(pkenc, vh.ZHex(a)+":"+vh.Hex(pkBytes(a)))
	}
	for i := range signers {
		var x *big.Int
		switch {
		case idx == 0 && i == 0:
			x = big.NewInt(1)
		case idx == 1 && i == 0:
			x = new(big.Int).Sub(q, big.NewInt(1))
		default:
			x = rng.BigBelow(new(big.Int).Sub(q, big.NewInt(1)))
			x.Add(x, big.NewInt(1))
		}
		m := append([]byte{byte(i)}, rng.Bytes(rng.Intn(40))...)
		if sameMsg {
			m = common
		}
		pl := m
		if alg == bls.MessageAugmentation {
			pl = append(append([]byte{}, pkBytes(x)...), m...)
		}
		signers[i] = blsSigner{x: x, msg: m, payload: pl}
		addEnc(x)
	}
	xo := rng.BigBelow(new(big.Int).Sub(q, big.NewInt(2)))
	xo.Add(xo, big.NewInt(2)) // a foreign key
	addEnc(xo)
	canon := caseText
	for _, s := range signers {
		canon += fmt.Sprintf(" x=%s m=%s", vh.ZHex(s.x), vh.Hex(s.msg))
	}

	// ---- sign -------------------------------------------------------------------------------------------
	type sigT = *bls.Signature[SG, SGFE, PK, PKFE, E, S]
	sigs := make([]sigT, nsig)
	pops := make([]*bls.ProofOfPossession[SG, SGFE, PK, PKFE, E, S], nsig)
	for i, s := range signers {
		sk, err := bls.NewPrivateKey(env.keyG, env.sc(s.x))
		if err != nil {
			r.prop("bls-key-refused", caseText, blsWhat, err.Error())
			return
		}
		sg, err := scheme.Signer(sk)
		if err != nil {
			r.prop("bls-signer-refused", caseText, blsWhat, err.Error())
			return
		}
		var sig sigT
		if p := vh.Safely(func() { sig, err = sg.Sign(s.msg) }); p != "" {
			r.prop("bls-sign-panic", caseText, blsWhat, p)
			return
		}
		if err != nil {
			r.prop("bls-sign-failed", caseText, blsWhat, "Sign failed: "+err.Error())
			return
		}
		sigs[i] = sig
		pops[i] = sig.Pop()
		if i == 0 || !r.quick {
			r.res.Count(class, canon+fmt.Sprintf("/sign%d", i), true)
			sv, pv := sig.Value(), sig.Pop()
			if (alg == bls.POP) != (pv != nil) {
				r.prop("bls-pop-presence", caseText, blsWhat, "proof of possession attached iff scheme is POP violated")
			}
			id := r.id()
			line := fmt.Sprintf("LS %s %s %s %s %s %s", id, qh, an, vh.ZHex(s.x), vh.Hex(s.msg), tbl(pkenc))
			env2, x := env, s.x
			r.exps = append(r.exps, expectation{line: line, class: class, caseText: caseText, key: "bls-sign-" + env.name + "-" + an, what: blsWhat,
				detail: "Sign(msg) against x*H(dst, payload) of the model's linear form", impl: "<point>",
				check: func(got string) string {
					f := strings.Split(got, "|")
					if len(f) != 2 {
						return "model refuses to sign (" + got + ") but the implementation signed with x=" + vh.ZHex(x)
					}
					sf := strings.SplitN(f[0], "/", 2)
					want, err := env2.evalForm(sf[1])
					if err != nil || !want.Equal(sv) {
						return "signature differs from the evaluation of the model's form " + f[0]
					}
					if (f[1] == "-") != (pv == nil) {
						return "pop presence differs"
					}
					if pv != nil {
						pf := strings.SplitN(f[1], "/", 2)
						wp, err := env2.evalForm(pf[1])
						if err != nil || !wp.Equal(pv.Value()) {
							return "proof of possession differs from the evaluation of the model's form " + f[1]
						}
					}
					return ""
				}})
		}
	}

	// independent definition of message augmentation / pop: the scheme's signature equals a Basic-scheme
	// signature with the scheme's DST on the spec's payload (pk || m), the pop a signature on pk under the POP DST
	if alg != bls.Basic {
		if basic, err := env.mk(bls.Basic); err == nil {
			s := signers[0]
			sk, _ := bls.NewPrivateKey(env.keyG, env.sc(s.x))
			if sg, err := basic.Signer(sk, bls.SignWithCustomDST[PK, PKFE, SG, SGFE, E, S](env.dstString(dst))); err == nil {
				if ref, err := sg.Sign(s.payload); err == nil && !ref.Value().Equal(sigs[0].Value()) {
					r.prop("bls-"+an+"-payload-"+env.name, caseText, blsWhat, fmt.Sprintf("%s signature on %s under key x=%s is not the core signature on payload %s (the public key must be prepended for message augmentation)", an, vh.Hex(s.msg), vh.ZHex(s.x), vh.Hex(s.payload)))
				}
			}
			if alg == bls.POP {
				if sg, err := basic.Signer(sk, bls.SignWithCustomDST[PK, PKFE, SG, SGFE, E, S](env.dstString(4))); err == nil {
					if ref, err := sg.Sign(pkBytes(s.x)); err == nil && (pops[0] == nil || !ref.Value().Equal(pops[0].Value())) {
						r.prop("bls-pop-payload-"+env.name, caseText, blsWhat, "proof of possession is not the core signature on the public key bytes under the POP DST")
					}
				}
			}
		}
	}

	// ---- single verification with alterations -------------------------------------------------------------
	vf, err := scheme.Verifier()
	if err != nil {
		return
	}
	s0 := signers[0]
	honest := []term{{dst, s0.payload, s0.x}}
	popForm := func(x *big.Int) string { return "1/" + formText(big.NewInt(0), []term{{4, pkBytes(x), x}}) }
	type vq struct {
		name    string
		pkSub   bool
		pka     *big.Int // discrete log of the key (when in the subgroup)
		pkRaw   *PK      // explicit point (out of subgroup)
		sigSub  bool
		sigForm string
		sigRaw  *SG
		pop     string // "-" none, else model element text
		popObj  *bls.ProofOfPossession[SG, SGFE, PK, PKFE, E, S]
		msg     []byte
		expect  string
	}
	myPop := "-"
	if alg == bls.POP {
		myPop = popForm(s0.x)
	}
	msg2 := append([]byte{}, s0.msg...)
	msg2[rng.Intn(len(msg2))] ^= 1 << uint(rng.Intn(8))
	offP := env.offPK(rng)
	offS := env.offSG(rng)
	hf := formText(big.NewInt(0), honest)
	otherPayload := s0.payload
	if alg == bls.MessageAugmentation {
		otherPayload = append(append([]byte{}, pkBytes(xo)...), s0.msg...)
	}
	qs := []vq{
		{name: "honest", pkSub: true, pka: s0.x, sigSub: true, sigForm: hf, pop: myPop, popObj: pops[0], msg: s0.msg, expect: "acc"},
		{name: "message-bit-flipped", pkSub: true, pka: s0.x, sigSub: true, sigForm: hf, pop: myPop, popObj: pops[0], msg: msg2, expect: "rej"},
		{name: "public-key-changed", pkSub: true, pka: xo, sigSub: true, sigForm: hf, pop: myPop, popObj: pops[0], msg: s0.msg, expect: "rej"},
		{name: "signature+G", pkSub: true, pka: s0.x, sigSub: true, sigForm: formText(big.NewInt(1), honest), pop: myPop, popObj: pops[0], msg: s0.msg, expect: "rej"},
		{name: "signature-doubled", pkSub: true, pka: s0.x, sigSub: true, sigForm: formText(big.NewInt(0), []term{{dst, s0.payload, new(big.Int).Lsh(s0.x, 1)}}), pop: myPop, popObj: pops[0], msg: s0.msg, expect: "rej"},
		{name: "signature-by-foreign-key", pkSub: true, pka: s0.x, sigSub: true, sigForm: formText(big.NewInt(0), []term{{dst, otherPayload, xo}}), pop: myPop, popObj: pops[0], msg: s0.msg, expect: "rej"},
		{name: "signature-identity", pkSub: true, pka: s0.x, sigSub: true, sigForm: "0", pop: myPop, popObj: pops[0], msg: s0.msg, expect: "rej"},
		{name: "public-key-identity", pkSub: true, pka: big.NewInt(0), sigSub: true, sigForm: hf, pop: myPop, popObj: pops[0], msg: s0.msg, expect: "rej"},
		{name: "signature-out-of-subgroup", pkSub: true, pka: s0.x, sigSub: false, sigForm: "0", sigRaw: &offS, pop: myPop, popObj: pops[0], msg: s0.msg, expect: "rej"},
		{name: "public-key-out-of-subgroup", pkSub: false, pka: big.NewInt(1), pkRaw: &offP, sigSub: true, sigForm: hf, pop: myPop, popObj: pops[0], msg: s0.msg, expect: "rej"},
		{name: "empty-message", pkSub: true, pka: s0.x, sigSub: true, sigForm: hf, pop: myPop, popObj: pops[0], msg: nil, expect: "rej"},
	}
	if alg == bls.POP {
		sko, _ := bls.NewPrivateKey(env.keyG, env.sc(xo))
		sgo, _ := scheme.Signer(sko)
		so, _ := sgo.Sign(s0.msg)
		selfAsPop, _ := bls.NewProofOfPossession[SG, SGFE, PK, PKFE, E, S](sigs[0].Value())
		qs = append(qs,
			vq{name: "pop-missing", pkSub: true, pka: s0.x, sigSub: true, sigForm: hf, pop: "-", popObj: nil, msg: s0.msg, expect: "rej"},
			vq{name: "pop-of-foreign-key", pkSub: true, pka: s0.x, sigSub: true, sigForm: hf, pop: popForm(xo), popObj: so.Pop(), msg: s0.msg, expect: "rej"},
			vq{name: "pop-replaced-by-signature", pkSub: true, pka: s0.x, sigSub: true, sigForm: hf, pop: "1/" + hf, popObj: selfAsPop, msg: s0.msg, expect: "rej"},
		)
	}
	for _, qv := range qs {
		if lite && (qv.name == "signature-doubled" || qv.name == "signature-by-foreign-key" || qv.name == "pop-replaced-by-signature") {
			continue
		}
		obs := "rej"
		p := vh.Safely(func() {
			var sv SG
			if qv.sigRaw != nil {
				sv = *qv.sigRaw
			} else {
				v, err := env.evalForm(qv.sigForm)
				if err != nil {
					return
				}
				sv = v
			}
			sig, err := env.sigOf(sv, qv.popObj)
			if err != nil {
				return
			}
			var pk *bls.PublicKey[PK, PKFE, SG, SGFE, E, S]
			if qv.pkRaw != nil {
				pk = env.pkRaw(*qv.pkRaw)
			} else {
				pk = env.pkOf(qv.pka)
			}
			if vf.Verify(sig, pk, qv.msg) == nil {
				obs = "acc"
			}
		})
		if p != "" {
			obs = "panic"
		}
		pf := obs != qv.expect
		if pf {
			r.prop("bls-"+qv.name+"-"+env.name+"-"+an, caseText, blsWhat, fmt.Sprintf("%s: Verify says %s, property requires %s (key x=%s, msg %s, signature form %s)", qv.name, obs, qv.expect, vh.ZHex(qv.pka), vh.Hex(qv.msg), qv.sigForm))
		}
		r.res.Count(class+"/verify", canon+"/"+qv.name, true)
		r.expect("LV", []string{qh, an, fmt.Sprintf("%d:%s", parity(qv.pkSub), vh.ZHex(qv.pka)), fmt.Sprintf("%d/%s", parity(qv.sigSub), qv.sigForm), qv.pop, vh.Hex(qv.msg), tbl(pkenc)},
			obs, class, caseText, "bls-verify-"+env.name+"-"+an, blsWhat, qv.name, pf)
	}

	// ---- aggregation -----------------------------------------------------------------------------------------
	if nsig < 1 {
		return
	}
	agg, err := scheme.AggregateSignatures(sigs...)
	if err != nil {
		r.prop("bls-aggregate-failed", caseText, blsWhat, "AggregateSignatures failed: "+err.Error())
		return
	}
	allTerms := func(skip int) []term {
		var ts []term
		for i, s := range signers {
			if i != skip {
				ts = append(ts, term{dst, s.payload, s.x})
			}
		}
		return ts
	}
	{
		var parts []string
		for _, s := range signers {
			parts = append(parts, "1/"+formText(big.NewInt(0), []term{{dst, s.payload, s.x}}))
		}
		id := r.id()
		av := agg.Value()
		env2 := env
		r.exps = append(r.exps, expectation{line: fmt.Sprintf("LG %s %s %s", id, qh, strings.Join(parts, ",")), class: class, caseText: caseText,
			key: "bls-aggregate-" + env.name, what: blsWhat, detail: "AggregateSignatures against the sum of the model's forms", impl: "<point>",
			check: func(got string) string {
				f := strings.SplitN(got, "/", 2)
				if len(f) != 2 {
					return "model refuses to aggregate: " + got
				}
				w, err := env2.evalForm(f[1])
				if err != nil || !w.Equal(av) {
					return "aggregate differs from the evaluation of the model's sum " + got
				}
				return ""
			}})
	}
	type aq struct {
		name    string
		sigForm string
		sigSub  bool
		pks     []string // model text sub:a
		pkObjs  []*bls.PublicKey[PK, PKFE, SG, SGFE, E, S]
		msgs    [][]byte
		pops    []string
		popObjs []*bls.ProofOfPossession[SG, SGFE, PK, PKFE, E, S]
		expect  string
	}
	mkA := func(name string, form string, expect string) aq {
		a := aq{name: name, sigForm: form, sigSub: true, expect: expect}
		for i, s := range signers {
			a.pks = append(a.pks, "1:"+vh.ZHex(s.x))
			a.pkObjs = append(a.pkObjs, env.pkOf(s.x))
			a.msgs = append(a.msgs, s.msg)
			if alg == bls.POP {
				a.pops = append(a.pops, popForm(s.x))
				a.popObjs = append(a.popObjs, pops[i])
			}
		}
		return a
	}
	fullForm := formText(big.NewInt(0), allTerms(-1))
	distinct := true
	seenM := map[string]bool{}
	for _, s := range signers {
		if seenM[string(s.msg)] {
			distinct = false
		}
		seenM[string(s.msg)] = true
	}
	honestExpect := "acc"
	if alg == bls.Basic && !distinct {
		honestExpect = "rej" // the basic scheme refuses repeated messages
	}
	aqs := []aq{mkA("aggregate-honest", fullForm, honestExpect)}
	last := nsig - 1
	if nsig >= 2 {
		aqs = append(aqs, mkA("aggregate-missing-contributor", formText(big.NewInt(0), allTerms(last)), "rej"))
		a := mkA("aggregate-public-keys-swapped", fullForm, "rej")
		a.pks[0], a.pks[last] = a.pks[last], a.pks[0]
		a.pkObjs[0], a.pkObjs[last] = a.pkObjs[last], a.pkObjs[0]
		if alg == bls.POP {
			a.pops[0], a.pops[last] = a.pops[last], a.pops[0]
			a.popObjs[0], a.popObjs[last] = a.popObjs[last], a.popObjs[0]
		}
		if sameMsg && alg != bls.Basic {
			a.expect = "acc" // same message for every signer: the order of keys is immaterial
		}
		aqs = append(aqs, a)
	}
	{
		fp := s0.msg
		if alg == bls.MessageAugmentation {
			fp = append(append([]byte{}, pkBytes(xo)...), s0.msg...)
		}
		aqs = append(aqs, mkA("aggregate-foreign-contributor", formText(big.NewInt(0), append(allTerms(-1), term{dst, fp, xo})), "rej"))
		a := mkA("aggregate-identity-public-key", fullForm, "rej")
		a.pks[last] = "1:0"
		a.pkObjs[last] = env.pkOf(big.NewInt(0))
		aqs = append(aqs, a)
		// identity key with the honest aggregate of the others: rejected although the pairing equation alone would hold
		a = mkA("aggregate-identity-public-key-others-honest", formText(big.NewInt(0), allTerms(last)), "rej")
		a.pks[last] = "1:0"
		a.pkObjs[last] = env.pkOf(big.NewInt(0))
		aqs = append(aqs, a)
		a = mkA("aggregate-out-of-subgroup-public-key", fullForm, "rej")
		a.pks[last] = "0:1"
		a.pkObjs[last] = env.pkRaw(offP)
		aqs = append(aqs, a)
		a = mkA("aggregate-foreign-public-key", fullForm, "rej")
		a.pks[last] = "1:" + vh.ZHex(xo)
		a.pkObjs[last] = env.pkOf(xo)
		aqs = append(aqs, a)
		a = mkA("aggregate-message-changed", fullForm, "rej")
		a.msgs = append([][]byte{}, a.msgs...)
		a.msgs[last] = append(append([]byte{}, a.msgs[last]...), 0x77)
		aqs = append(aqs, a)
		a = mkA("aggregate-identity-signature", "0", "rej")
		aqs = append(aqs, a)
		a = mkA("aggregate-fewer-messages", fullForm, "rej")
		a.msgs = a.msgs[:last]
		aqs = append(aqs, a)
		if alg == bls.POP {
			a = mkA("aggregate-pop-of-foreign-key", fullForm, "rej")
			a.pops = append([]string{}, a.pops...)
			a.popObjs = append([]*bls.ProofOfPossession[SG, SGFE, PK, PKFE, E, S]{}, a.popObjs...)
			a.pops[last] = popForm(xo)
			sko, _ := bls.NewPrivateKey(env.keyG, env.sc(xo))
			sgo, _ := scheme.Signer(sko)
			so, _ := sgo.Sign(s0.msg)
			a.popObjs[last] = so.Pop()
			aqs = append(aqs, a)
			a = mkA("aggregate-pops-missing", fullForm, "rej")
			a.pops, a.popObjs = nil, nil
			aqs = append(aqs, a)
			if sameMsg && nsig >= 2 {
				// rogue key: pk_rogue = pk_victim' - pk_0 with the pop of another key; signature by the rogue sum only
				rogue := subMod(xo, signers[0].x, q)
				a = mkA("aggregate-rogue-key", formText(big.NewInt(0), []term{{dst, common, xo}}), "rej")
				a.pks, a.pkObjs, a.msgs = a.pks[:2], a.pkObjs[:2], a.msgs[:2]
				a.pops, a.popObjs = a.pops[:2], append([]*bls.ProofOfPossession[SG, SGFE, PK, PKFE, E, S]{}, a.popObjs[:2]...)
				a.pks[1] = "1:" + vh.ZHex(rogue)
				a.pkObjs[1] = env.pkOf(rogue)
				a.pops = []string{a.pops[0], popForm(xo)}
				a.popObjs[1] = so.Pop()
				addEnc(rogue)
				aqs = append(aqs, a)
			}
		}
	}
	for _, a := range aqs {
		if lite && (a.name == "aggregate-public-keys-swapped" || a.name == "aggregate-foreign-public-key" || a.name == "aggregate-message-changed" || a.name == "aggregate-pop-of-foreign-key") {
			continue
		}
		if lite && nsig >= 8 && a.name == "aggregate-foreign-contributor" {
			continue
		}
		obs := "rej"
		p := vh.Safely(func() {
			v, err := env.evalForm(a.sigForm)
			if err != nil {
				return
			}
			sig, err := env.sigOf(v, nil)
			if err != nil {
				return
			}
			var vfa *bls.Verifier[PK, PKFE, SG, SGFE, E, S]
			if len(a.popObjs) > 0 {
				vfa, err = scheme.Verifier(bls.VerifyWithProofsOfPossession(a.popObjs...))
			} else {
				vfa, err = scheme.Verifier()
			}
			if err != nil {
				return
			}
			if vfa.AggregateVerify(sig, a.pkObjs, a.msgs) == nil {
				obs = "acc"
			}
		})
		if p != "" {
			obs = "panic"
		}
		pf := obs != a.expect
		if pf {
			r.prop("bls-"+a.name+"-"+env.name+"-"+an, caseText, blsWhat, fmt.Sprintf("%s (%d signers): AggregateVerify says %s, property requires %s; keys %v, signature form %s", a.name, nsig, obs, a.expect, a.pks, a.sigForm))
		}
		r.res.Count(class+"/aggregate", canon+"/"+a.name, true)
		var ms []string
		for _, m := range a.msgs {
			ms = append(ms, vh.Hex(m))
		}
		r.expect("LA", []string{qh, an, "1/" + a.sigForm, tbl(a.pks), tbl(ms), tbl(a.pops), tbl(pkenc)},
			obs, class, caseText, "bls-aggregate-verify-"+env.name+"-"+an, blsWhat, a.name, pf)
	}

	// ---- AggregateSign: one key, several messages -----------------------------------------------------------------
	if idx%2 == 0 && !(lite && nsig >= 8) {
		sk, _ := bls.NewPrivateKey(env.keyG, env.sc(s0.x))
		sg, err := scheme.Signer(sk)
		if err != nil {
			return
		}
		var ms [][]byte
		var pls []string
		var pkl []*bls.PublicKey[PK, PKFE, SG, SGFE, E, S]
		for i := 0; i < 3; i++ {
			m := append([]byte{byte(0x80 + i)}, rng.Bytes(rng.Intn(10))...)
			ms = append(ms, m)
			pl := m
			if alg == bls.MessageAugmentation {
				pl = append(append([]byte{}, pkBytes(s0.x)...), m...)
			}
			pls = append(pls, vh.Hex(pl))
			pkl = append(pkl, env.pkOf(s0.x))
		}
		as, err := sg.AggregateSign(ms...)
		if err != nil {
			r.prop("bls-aggregate-sign-failed", caseText, blsWhat, err.Error())
			return
		}
		asv := as.Value()
		env2 := env
		id := r.id()
		r.exps = append(r.exps, expectation{line: fmt.Sprintf("LM %s %s %s %x %s", id, qh, vh.ZHex(s0.x), dst, strings.Join(pls, ",")), class: class, caseText: caseText,
			key: "bls-aggregate-sign-" + env.name, what: blsWhat, detail: "AggregateSign against sum x*H(m_i)", impl: "<point>",
			check: func(got string) string {
				w, err := env2.evalForm(got)
				if err != nil || !w.Equal(asv) {
					return "AggregateSign differs from the evaluation of " + got
				}
				return ""
			}})
		if alg != bls.POP {
			vfa, _ := scheme.Verifier()
			if err := vfa.AggregateVerify(as, pkl, ms); err != nil {
				r.prop("bls-aggregate-sign-rejected-"+env.name+"-"+an, caseText, blsWhat, "AggregateVerify rejects the output of AggregateSign")
			}
		}
	}
}

func shortEnv() *blsEnv[*bls12381.PointG1, *bls12381.BaseFieldElementG1, *bls12381.PointG2, *bls12381.BaseFieldElementG2, *bls12381.GtElement, *bls12381.Scalar] {
	fam := pairable.NewBLS12381()
	return &blsEnv[*bls12381.PointG1, *bls12381.BaseFieldElementG1, *bls12381.PointG2, *bls12381.BaseFieldElementG2, *bls12381.GtElement, *bls12381.Scalar]{
		name: "short", variant: bls.ShortKey,
		mk: func(alg bls.RogueKeyPreventionAlgorithm) (*bls.Scheme[*bls12381.PointG1, *bls12381.BaseFieldElementG1, *bls12381.PointG2, *bls12381.BaseFieldElementG2, *bls12381.GtElement, *bls12381.Scalar], error) {
			return bls.NewShortKeyScheme(fam, alg)
		},
		keyG: fam.SourceSubGroup(), sigG: fam.TwistedSubGroup(), sc: blsScalar, offPK: offG1, offSG: offG2,
	}
}

func longEnv() *blsEnv[*bls12381.PointG2, *bls12381.BaseFieldElementG2, *bls12381.PointG1, *bls12381.BaseFieldElementG1, *bls12381.GtElement, *bls12381.Scalar] {
	fam := pairable.NewBLS12381()
	return &blsEnv[*bls12381.PointG2, *bls12381.BaseFieldElementG2, *bls12381.PointG1, *bls12381.BaseFieldElementG1, *bls12381.GtElement, *bls12381.Scalar]{
		name: "long", variant: bls.LongKey,
		mk: func(alg bls.RogueKeyPreventionAlgorithm) (*bls.Scheme[*bls12381.PointG2, *bls12381.BaseFieldElementG2, *bls12381.PointG1, *bls12381.BaseFieldElementG1, *bls12381.GtElement, *bls12381.Scalar], error) {
			return bls.NewLongKeyScheme(fam, alg)
		},
		keyG: fam.TwistedSubGroup(), sigG: fam.SourceSubGroup(), sc: blsScalar, offPK: offG2, offSG: offG1,
	}
}

// points on the curves E(Fp), E'(Fp2) outside the prime-order subgroups
func offG1(r *vh.Rng) *bls12381.PointG1 {
	for {
		var x bls12381Impl.Fp
		b := r.Bytes(bls12381Impl.FpBytes)
		b[len(b)-1] &= 0x0f // little-endian top byte: stay below the modulus
		if x.SetBytes(b) != 1 {
			continue
		}
		var p bls12381.PointG1
		if p.V.SetFromAffineX(&x) != 1 {
			continue
		}
		if !p.IsTorsionFree() {
			return &p
		}
	}
}

func offG2(r *vh.Rng) *bls12381.PointG2 {
	for {
		var x bls12381Impl.Fp2
		b0, b1 := r.Bytes(bls12381Impl.FpBytes), r.Bytes(bls12381Impl.FpBytes)
		b0[len(b0)-1] &= 0x0f
		b1[len(b1)-1] &= 0x0f
		if x.U0.SetBytes(b0) != 1 || x.U1.SetBytes(b1) != 1 {
			continue
		}
		var p bls12381.PointG2
		if p.V.SetFromAffineX(&x) != 1 {
			continue
		}
		if !p.IsTorsionFree() {
			return &p
		}
	}
}

var blsAlgs = []bls.RogueKeyPreventionAlgorithm{bls.Basic, bls.MessageAugmentation, bls.POP}

func runBls(r *run, mult int) {
	se, le := shortEnv(), longEnv()
	idx := 0
	nw := 1
	if !r.quick {
		nw = 4
	}
	for i := 0; i < nw*mult; i++ {
		blsWire(r, se, i)
		blsWire(r, le, i)
	}
	if r.quick {
		for rep := 0; rep < mult; rep++ {
			for _, alg := range blsAlgs {
				// both key-size variants x three rogue-key modes, two signers (POP: one variant on the same-message fast path)
				blsCase(r, se, alg, 2, alg == bls.POP, idx, true)
				blsCase(r, le, alg, 2, false, idx+1, true)
				idx += 2
				r.flush()
			}
			blsCase(r, se, bls.Basic, 8, false, idx, true)
			blsCase(r, le, bls.MessageAugmentation, 3, false, idx+1, false)
			blsCase(r, se, bls.Basic, 2, true, idx+2, true) // repeated message refused by the basic scheme
			blsCase(r, le, bls.POP, 1, false, idx+3, true)
			idx += 4
			r.flush()
		}
		return
	}
	sizes := []int{1, 2, 3, 4, 5, 8, 13, 21, 32}
	for rep := 0; rep < mult; rep++ {
		for _, alg := range blsAlgs {
			for _, n := range sizes {
				same := alg == bls.POP && n%2 == 0
				blsCase(r, se, alg, n, same, idx, n > 8)
				blsCase(r, le, alg, n, same, idx, n > 5)
				idx++
			}
			blsCase(r, se, alg, 2, true, idx, false)
			blsCase(r, le, alg, 3, true, idx, false)
			idx++
			r.flush()
		}
	}
}

func replayBls(r *run, f []string) {
	if len(f) < 6 {
		return
	}
	var alg bls.RogueKeyPreventionAlgorithm = bls.Basic
	switch f[2] {
	case "aug":
		alg = bls.MessageAugmentation
	case "pop":
		alg = bls.POP
	}
	if f[1] == "long" {
		blsCase(r, longEnv(), alg, atoi(f[3]), f[4] == "1", atoi(f[5]), false)
	} else {
		blsCase(r, shortEnv(), alg, atoi(f[3]), f[4] == "1", atoi(f[5]), false)
	}
}
