// c15 — correspondence harness for property C15 (single-party signatures: ECDSA, BIP-340,
// configurable Schnorr, Mina, BLS).  See /verif/DESIGN.md §5 C15.
//
// Every case drives the real implementation through its public API, asks the extracted Coq model
// (exponent model; the abstract maps x-coordinate / y-parity / FromAffineX / challenge / key
// encoding are supplied as finite tables computed by independent reference code in ec.go or, where
// no independent implementation exists, through the library's own encoders) for its prediction,
// and evaluates the property's own predicate (honest signatures verify, also under independent
// verifiers; every single-component alteration is rejected, except the documented ECDSA (r, n-s, v^1)
// form under the default verifier; published vectors agree).
package main

import (
	"fmt"
	"math/big"
	"os"
	"runtime/debug"
	"runtime/pprof"
	"sort"
	"strconv"
	"strings"
	"time"

	"github.com/bronlabs/bron-crypto/pkg/base/curves/k256"
	"github.com/bronlabs/bron-crypto/pkg/base/curves/p256"

	"verif/harness/internal/vh"
)

// expectation is one model line together with the implementation's observable for it.
type expectation struct {
	line     string // model case line (tag id ...)
	impl     string // implementation observable in the model's output vocabulary
	class    string
	caseText string // replayable: family:config:index
	key      string
	what     string
	propFail bool   // the property's own predicate already failed on the implementation for this query
	detail   string // human readable description of the query
	check    func(got string) string // optional: custom comparison of the model output ("" = agrees)
}

type run struct {
	a     vh.Args
	res   *vh.Result
	exps  []expectation
	nline int
	quick bool
	reduced map[string]int // non-canonical strings that decoded to the canonical values, per scheme and component
}

func (r *run) id() string { r.nline++; return strconv.Itoa(r.nline) }

// expect registers a model line (without tag/id prefix split: tag, then fields) and the implementation observable.
func (r *run) expect(tag string, fields []string, impl, class, caseText, key, what, detail string, propFail bool) {
	id := r.id()
	line := tag + " " + id + " " + strings.Join(fields, " ")
	r.exps = append(r.exps, expectation{line: line, impl: impl, class: class, caseText: caseText, key: key, what: what, propFail: propFail, detail: detail})
}

// prop reports a failure of the property's own predicate on the implementation.
func (r *run) prop(key, caseText, what, detail string) {
	r.res.Mismatch(vh.Mismatch{ID: key + "/" + caseText, Kind: "prop", Key: key, Detail: detail, Case: caseText, PropFail: true, What: what})
}

func (r *run) flush() {
	if len(r.exps) == 0 {
		return
	}
	lines := make([]string, len(r.exps))
	for i, e := range r.exps {
		lines[i] = e.line
	}
	out, err := vh.Driver(r.a.Driver, lines)
	if err != nil {
		r.res.Mismatch(vh.Mismatch{ID: "driver", Kind: "corr", Key: "driver-failed", Detail: err.Error(), Case: "-", What: "model driver"})
		r.exps = nil
		return
	}
	for i, e := range r.exps {
		f := strings.SplitN(out[i], " ", 3)
		got := ""
		if len(f) == 3 {
			got = f[2]
		}
		if got == "miss" {
			r.res.Distribution["model-no-prediction"]++
			continue
		}
		if e.check != nil {
			if d := e.check(got); d != "" {
				r.res.Mismatch(vh.Mismatch{ID: e.caseText + "#" + f[1], Kind: "corr", Key: e.key, PropFail: e.propFail, Case: e.caseText,
					What: e.what, Detail: e.detail + ": " + d + "; model case: " + e.line})
			}
			continue
		}
		if got != e.impl {
			r.res.Mismatch(vh.Mismatch{ID: e.caseText + "#" + f[1], Kind: "corr", Key: e.key, PropFail: e.propFail, Case: e.caseText,
				What:   e.what,
				Detail: fmt.Sprintf("%s: implementation %s, model %s; model case: %s", e.detail, e.impl, got, e.line)})
		}
	}
	r.exps = nil
}

func main() {
	a := vh.ParseArgs()
	debug.SetGCPercent(800)
	if pf := os.Getenv("C15_PROF"); pf != "" {
		f, _ := os.Create(pf)
		pprof.StartCPUProfile(f)
		defer pprof.StopCPUProfile()
	}
	res := vh.NewResult("C15", a.Seed, a.Tier)
	r := &run{a: a, res: res, quick: a.Tier != "thorough", reduced: map[string]int{}}
	res.Rule = "per scheme/variant/curve/hash: keys from the seeded stream incl. boundary keys 1, 2, n-1; random-length messages; sign through the public API; " +
		"then every single-component alteration (message bit, r/R, s, v, public key, hash/DST, parity forms, identity / out-of-subgroup elements, missing / foreign aggregate contributors) " +
		"is verified by the implementation (default and strict verifier) and predicted by the extracted model; a case is non-trivial when the signature was produced and reached the verification equation"

	mult := 1
	if a.Search {
		mult = 6
	}
	if a.Replay != "" {
		replay(r, a.Replay)
	} else {
		t0 := time.Now()
		lap := func(n string) { r.res.Note("%s: %.1fs", n, time.Since(t0).Seconds()); t0 = time.Now() }
		runVectors(r)
		lap("vectors")
		runEcdsa(r, mult)
		lap("ecdsa")
		runSchnorr(r, mult)
		lap("schnorr")
		runBatch(r, mult)
		lap("batch")
		runBls(r, mult)
		lap("bls")
	}
	r.flush()
	if len(r.reduced) > 0 {
		var ks []string
		for k, v := range r.reduced {
			ks = append(ks, fmt.Sprintf("%s: %d", k, v))
		}
		sort.Strings(ks)
		res.Note("decoders reduce, allowed by C13: the ECDSA / generic Schnorr CBOR scalar and point decoders and the BLS12-381 compressed point decoders accept c + k*M encodings and reduce them; such a string decodes to the identical struct-level values and is the same signature (same verdict as the canonical string checked): %s. BIP-340 and Mina decoders enforce canonical components (strict REJECT expectation).", strings.Join(ks, ", "))
	}
	res.Write(a.Out)
}

// replay re-runs the case named on the "case:" line of a replay file: family:config...:index
func replay(r *run, path string) {
	b, err := os.ReadFile(path)
	if err != nil {
		r.res.Note("cannot read replay file: %v", err)
		return
	}
	for _, l := range strings.Split(string(b), "\n") {
		if !strings.HasPrefix(l, "case: ") {
			continue
		}
		c := strings.TrimSpace(strings.TrimPrefix(l, "case: "))
		f := strings.Split(c, ":")
		switch f[0] {
		case "bip340batch", "minabatch", "schnorrbatch":
			replayBatch(r, f)
		case "ecdsawire":
			kxy := func(x, y *big.Int) (*k256.Point, error) {
				return k256.NewCurve().FromUncompressed(append(append([]byte{4}, x.FillBytes(make([]byte, 32))...), y.FillBytes(make([]byte, 32))...))
			}
			pxy := func(x, y *big.Int) (*p256.Point, error) {
				return p256.NewCurve().FromUncompressed(append(append([]byte{4}, x.FillBytes(make([]byte, 32))...), y.FillBytes(make([]byte, 32))...))
			}
			if len(f) >= 4 && f[1] == "p256" {
				ecdsaWire(r, p256Env(), pxy, hashByName(f[2]), atoi(f[3]))
			} else if len(f) >= 4 {
				ecdsaWire(r, k256Env(), kxy, hashByName(f[2]), atoi(f[3]))
			}
		case "blswire":
			if len(f) >= 3 && f[1] == "long" {
				blsWire(r, longEnv(), atoi(f[2]))
			} else if len(f) >= 3 {
				blsWire(r, shortEnv(), atoi(f[2]))
			}
		case "ecdsa":
			replayEcdsa(r, f)
		case "schnorr", "bip340", "mina":
			replaySchnorr(r, f)
		case "bls":
			replayBls(r, f)
		default:
			runVectors(r)
		}
	}
}

func atoi(s string) int { n, _ := strconv.Atoi(s); return n }
